(* XS_inv.v -- the resize protocol of XMachineS (map.go) in every reachable
   state: resizeMu is held exactly by the threads whose program counter says so,
   the resizing flag is set exactly while one thread is the resizer, and a
   thread is in the wait set of resizeCond only while the flag is set or the
   broadcast that wakes it is still to come (no lost wake-up); a thread that has
   returned holds neither resizeMu nor the resizer role. *)
From CacheV Require Import Base SpecMap XMachineS.
From CacheV.proofs Require Import X_maps.
From Coq Require Import NArith.
Local Open Scope nat_scope.

Section SInv.
  Context {K V : Type}.
  Variable eqd : forall a b : K, {a = b} + {a <> b}.
  Variable hash : K -> N -> N.
  Variable idx : N -> nat -> nat.
  Variable tophash : N -> N.
  Variable nslots : nat.
  Variable seeds : nat -> N.
  Variable grow_needed : nat -> Z -> bool.
  Variable shrink_policy : nat -> Z -> bool.
  Variable nstripes : nat -> nat.
  Variable minlen : nat.
  Variable grow_only : bool.

  Notation mstate := (@mstate K V).
  Notation spc := (@spc K V).
  Notation sstep_pc := (@sstep_pc K V eqd hash idx tophash nslots seeds grow_needed shrink_policy nstripes minlen grow_only).
  Notation sstep := (@sstep K V eqd hash idx tophash nslots seeds grow_needed shrink_policy nstripes minlen grow_only).
  Notation srun := (@srun K V eqd hash idx tophash nslots seeds grow_needed shrink_policy nstripes minlen grow_only).

  (* ---------------- what a program counter means for the protocol ---------------- *)

  Definition lk_copy (lk : @lockk K V) : bool := match lk with LKCopy _ _ _ => true | _ => false end.

  (* the thread holds resizeMu *)
  Fixpoint smu (p : spc) : bool :=
    match p with
    | QR_FinStore _ | QR_FinBcast _ | QR_FinUnlock _ | QT_Load _ _ | QT_Wait _ _ | QT_Unlock _ _ => true
    | QU_Load _ _ _ a | QU_Store _ _ _ _ a | QA_Add _ _ _ a => smu a
    | _ => false
    end.

  (* between winning the CAS on the resizing flag and resetting it *)
  Fixpoint srz (p : spc) : bool :=
    match p with
    | QR_Table _ _ | QR_ShSum _ _ _ _ | QR_Stat _ _ _ | QR_Publish _ _ | QR_FinLock _ | QR_FinStore _ => true
    | QK_Load _ _ lk | QK_Spin _ _ lk | QK_CAS _ _ _ lk | QK_Yield _ _ lk => lk_copy lk
    | QU_Load _ _ _ a | QU_Store _ _ _ _ a | QA_Add _ _ _ a => srz a
    | _ => false
    end.

  Fixpoint swaiting (p : spc) : bool :=
    match p with
    | QT_Waiting _ _ => true
    | QU_Load _ _ _ a | QU_Store _ _ _ _ a | QA_Add _ _ _ a => swaiting a
    | _ => false
    end.

  Fixpoint swait (p : spc) : bool :=          (* about to wait: holds resizeMu and has seen the flag set *)
    match p with
    | QT_Wait _ _ => true
    | QU_Load _ _ _ a | QU_Store _ _ _ _ a | QA_Add _ _ _ a => swait a
    | _ => false
    end.

  Fixpoint sbcast (p : spc) : bool :=
    match p with
    | QR_FinBcast _ => true
    | QU_Load _ _ _ a | QU_Store _ _ _ _ a | QA_Add _ _ _ a => sbcast a
    | _ => false
    end.

  Definition splain (p : spc) : Prop :=
    smu p = false /\ srz p = false /\ swaiting p = false /\ swait p = false /\ sbcast p = false.

  (* a Range that is about to visit (its copied entries travel with the unlock) goes on with a plain pc *)
  Fixpoint swf (p : spc) : Prop :=
    match p with
    | QU_Load _ _ rg a | QU_Store _ _ _ rg a => (rg <> None -> splain a) /\ swaiting a = false /\ swf a
    | QA_Add _ _ _ a => swaiting a = false /\ swf a
    | _ => True
    end.

  Record SI (s : mstate) : Prop := {
    si_wf : forall t, swf (h_pc s t);
    si_muA : forall t, smu (h_pc s t) = true -> h_rmu s = Some t;
    si_muB : forall t, h_rmu s = Some t -> smu (h_pc s t) = true;
    si_rzA : forall t, srz (h_pc s t) = true -> h_resizing s = true;
    si_rzB : forall t t', srz (h_pc s t) = true -> srz (h_pc s t') = true -> t = t';
    si_rzC : h_resizing s = true -> exists t, srz (h_pc s t) = true;
    si_wait : forall t, swait (h_pc s t) = true -> h_resizing s = true;
    si_waiting : forall t, swaiting (h_pc s t) = true -> h_resizing s = true \/ exists t', sbcast (h_pc s t') = true;
    si_frame : forall t fr, h_frame s t = Some fr -> splain (rf_after fr) /\ swf (rf_after fr);
  }.


  (* ---------------- where a thread stands after sgoto / svisits ---------------- *)

  Definition cls (p : spc) : bool * bool * bool * bool * bool := (smu p, srz p, swaiting p, swait p, sbcast p).

  Lemma cls_plain (p : spc) : splain p <-> cls p = (false, false, false, false, false).
  Proof. unfold splain, cls. split; [intros [-> [-> [-> [-> ->]]]]; reflexivity | intros E; inversion E; auto]. Qed.

  Lemma start_cx_plain (cx : @scx K V) : splain (sstart_cx cx) /\ swf (sstart_cx cx).
  Proof. unfold sstart_cx. destruct (sc_lie cx); split; try exact I; repeat split. Qed.

  Lemma svisits_pc (S0 : mstate) t rest vf after ls : splain after -> swf after ->
    cls (h_pc (fst (svisits S0 t rest vf after ls)) t) = cls after /\ swf (h_pc (fst (svisits S0 t rest vf after ls)) t).
  Proof.
    intros Hp Hw. revert ls. induction rest as [|[k v] r IH]; intros ls; cbn [svisits].
    - destruct after; cbn [fst sset_pc h_pc]; (destruct (Nat.eq_dec t t) as [_|Hc]; [|exfalso; apply Hc; reflexivity]); split; auto; try exact I.
    - destruct (vf k v) as [cx|]; [|apply IH]. cbn [fst sset_pc h_pc]. destruct (Nat.eq_dec t t) as [_|Hc]; [|exfalso; apply Hc; reflexivity].
      destruct (start_cx_plain cx) as [A B]. split; [|exact B]. apply cls_plain in A. apply cls_plain in Hp. congruence.
  Qed.

  Definition frames_ok (s : mstate) : Prop := forall u fr, h_frame s u = Some fr -> splain (rf_after fr) /\ swf (rf_after fr).

  Lemma svisits_frames (S0 : mstate) t rest vf after ls : splain after /\ swf after ->
    frames_ok S0 -> frames_ok (fst (svisits S0 t rest vf after ls)).
  Proof.
    intros Hp HF. unfold frames_ok in *. revert ls. induction rest as [|[k v] r IH]; intros ls u fr; cbn [svisits].
    - destruct after; cbn [fst sset_pc sset_frame h_frame]; (destruct (Nat.eq_dec u t); [discriminate | apply HF]).
    - destruct (vf k v) as [cx|]; [|apply IH]. cbn [fst sset_pc sset_frame h_frame].
      destruct (Nat.eq_dec u t); [intros E; inversion E; subst; exact Hp | apply HF].
  Qed.

  Lemma sgoto_frames (S0 : mstate) t q ls : frames_ok S0 -> frames_ok (fst (sgoto S0 t q ls)).
  Proof.
    intros HF. destruct q; cbn [sgoto fst]; try exact HF.
    destruct (h_frame S0 t) as [fr|] eqn:E; [|exact HF].
    apply svisits_frames; [apply (HF t fr E) | exact HF].
  Qed.

  Lemma sgoto_pc (S0 : mstate) t q ls : frames_ok S0 -> swf q ->
    cls (h_pc (fst (sgoto S0 t q ls)) t) = cls q /\ swf (h_pc (fst (sgoto S0 t q ls)) t).
  Proof.
    intros HF0 Hw. assert (HF : forall fr, h_frame S0 t = Some fr -> splain (rf_after fr) /\ swf (rf_after fr)) by (intros fr E; apply (HF0 t fr E)).
    destruct q; cbn [sgoto fst sset_pc h_pc]; try (destruct (Nat.eq_dec t t) as [_|Hc]; [|exfalso; apply Hc; reflexivity]; split; [reflexivity | exact Hw]).
    destruct (h_frame S0 t) as [fr|] eqn:E.
    - destruct (HF fr eq_refl) as [A B]. destruct (svisits_pc S0 t (rf_rest fr) (rf_vf fr) (rf_after fr) (ls ++ [SSubRes t r]) A B) as [C D].
      split; [|exact D]. rewrite C. apply cls_plain in A. exact A.
    - cbn [fst sset_pc h_pc]. destruct (Nat.eq_dec t t) as [_|Hc]; [|exfalso; apply Hc; reflexivity]. split; [reflexivity | exact I].
  Qed.


  (* ---------------- what one step does to the protocol ---------------- *)

  Definition mu_after (s : mstate) (t : nat) (p : spc) : option nat :=
    match p with
    | QR_FinLock _ | QT_Lock _ _ | QT_Relock _ _ => Some t
    | QR_FinUnlock _ | QT_Wait _ _ | QT_Unlock _ _ => None
    | _ => h_rmu s
    end.

  Definition rz_after (s : mstate) (p : spc) : bool :=
    match p with QR_CAS _ _ => true | QR_FinStore _ => false | _ => h_resizing s end.

  Definition cls_after (s : mstate) (p : spc) : bool * bool * bool * bool * bool :=
    (match p with
     | QR_FinLock _ | QT_Lock _ _ | QT_Relock _ _ => true
     | QR_FinUnlock _ | QT_Wait _ _ | QT_Unlock _ _ => false
     | _ => smu p end,
     match p with QR_CAS _ _ => negb (h_resizing s) | QR_FinStore _ => false | _ => srz p end,
     match p with QT_Wait _ _ => true | _ => swaiting p end,
     match p with QT_Load _ _ => h_resizing s | QT_Wait _ _ => false | _ => swait p end,
     match p with QR_FinStore _ => true | QR_FinBcast _ => false | _ => sbcast p end).

  Definition is_bcast_s (p : spc) : bool := match p with QR_FinBcast _ => true | _ => false end.

  Lemma sgoto_flags (S0 : mstate) t q ls :
    h_rmu (fst (sgoto S0 t q ls)) = h_rmu S0 /\ h_resizing (fst (sgoto S0 t q ls)) = h_resizing S0
    /\ forall t', t' <> t -> h_pc (fst (sgoto S0 t q ls)) t' = h_pc S0 t'.
  Proof. destruct (sgoto_shared S0 t q ls) as [[_ [_ [A [B _]]]] [C _]]. auto. Qed.

  Lemma svisits_flags (S0 : mstate) t rest vf after ls :
    h_rmu (fst (svisits S0 t rest vf after ls)) = h_rmu S0 /\ h_resizing (fst (svisits S0 t rest vf after ls)) = h_resizing S0
    /\ forall t', t' <> t -> h_pc (fst (svisits S0 t rest vf after ls)) t' = h_pc S0 t'.
  Proof. destruct (svisits_shared S0 t rest vf after ls) as [[_ [_ [A [B _]]]] [C _]]. auto. Qed.

  Lemma after_lock_cls (s : mstate) t tab b lk :
    cls (snd (after_lock hash idx tophash nslots nstripes s t tab b lk)) = (false, lk_copy lk, false, false, false)
    /\ swf (snd (after_lock hash idx tophash nslots nstripes s t tab b lk)).
  Proof.
    unfold after_lock. destruct lk; cbv zeta.
    - cbn. auto.
    - match goal with |- context [scopy_chain ?a ?b ?c ?d ?e ?f] => destruct (scopy_chain a b c d e f) as [nt cp] end.
      match goal with |- context [Nat.ltb ?x ?y] => destruct (Nat.ltb x y) end; cbn; (split; [reflexivity | split; [intros H; exfalso; apply H; reflexivity | split; [reflexivity | exact I]]]).
    - match goal with |- context [Nat.ltb ?x ?y] => destruct (Nat.ltb x y) end; cbn; (split; [reflexivity | split; [intros _; repeat split | split; [reflexivity | exact I]]]).
  Qed.

  Lemma after_lock_flags (s : mstate) t tab b lk :
    h_rmu (fst (after_lock hash idx tophash nslots nstripes s t tab b lk)) = h_rmu s
    /\ h_resizing (fst (after_lock hash idx tophash nslots nstripes s t tab b lk)) = h_resizing s.
  Proof.
    unfold after_lock. destruct lk; cbv zeta; try (cbn; auto).
    match goal with |- context [scopy_chain ?a ?b ?c ?d ?e ?f] => destruct (scopy_chain a b c d e f) as [nt cp] end. cbn. auto.
  Qed.

  Lemma some_pair3 {A B} (g : A * B) a b : Some g = Some (a, b) -> a = fst g.
  Proof. intros H. inversion H. reflexivity. Qed.

  Lemma sstep_effect s t p s' ls : frames_ok s -> swf p -> sstep_pc s t p = Some (s', ls) ->
    (forall t', t' <> t -> h_pc s' t' = if is_bcast_s p then swake (h_pc s t') else h_pc s t')
    /\ h_rmu s' = mu_after s t p /\ h_resizing s' = rz_after s p
    /\ cls (h_pc s' t) = cls_after s p /\ swf (h_pc s' t) /\ frames_ok s'.
  Proof.
    intros HF Hw Hs.
    destruct p; cbn [XMachineS.sstep_pc] in Hs; cbv zeta in Hs;
      repeat match type of Hs with
             | context [match ?x with _ => _ end] => destruct x eqn:?
             end; try discriminate Hs; apply some_pair3 in Hs; subst s'.
    all: try match goal with
             | Ha : after_lock _ _ _ _ _ ?S1 ?T ?TAB ?B ?LK = (_, _) |- _ =>
                 pose proof (after_lock_ok hash idx tophash nslots nstripes S1 T TAB B LK) as [A1 [A2 A3]]; rewrite Ha in A1, A2, A3; cbn [fst snd] in A1, A2, A3
             end.
    all: cbn [swf] in Hw.
    all: try match goal with |- context [srun_cont ?kt] => destruct kt; cbn [srun_cont] end.
    all: try match goal with
             | Ha : after_lock _ _ _ _ _ ?S1 ?T ?TAB ?B ?LK = (_, _) |- _ =>
                 pose proof (after_lock_cls S1 T TAB B LK) as [A4 A5]; rewrite Ha in A4, A5; cbn [fst snd] in A4, A5
             end.
    all: try match goal with |- context [sgoto ?S0 ?T ?Q ?L] =>
      assert (HF0 : frames_ok S0) by (first [exact HF | intros u fr E; apply (HF u fr); rewrite <- A2; exact E]);
      assert (HwQ : swf Q) by (cbn [swf swaiting]; first [exact I | exact A5 | tauto | (repeat split; try reflexivity; try tauto; try (intros Hn; exfalso; apply Hn; reflexivity)) | idtac]);
      [ .. |
      destruct (sgoto_flags S0 T Q L) as [G1 [G2 G3]];
      destruct (sgoto_pc S0 T Q L HF0 HwQ) as [G4 G5];
      pose proof (sgoto_frames S0 T Q L HF0) as G6;
      split; [intros t' Hne; rewrite (G3 t' Hne); cbn [is_bcast_s h_pc sset_tab sset_flags spush_tab sbump]; first [reflexivity | rewrite A1; reflexivity] |
      split; [rewrite G1; cbn [mu_after h_rmu sset_tab sset_flags spush_tab sbump]; first [reflexivity | idtac] |
      split; [rewrite G2; cbn [rz_after h_resizing sset_tab sset_flags spush_tab sbump]; first [reflexivity | idtac] |
      split; [rewrite G4; first [reflexivity | rewrite A4; reflexivity | idtac] |
      split; [exact G5 | exact G6]]]]] ]
    end.
    all: try (rewrite Heqb; reflexivity).
    all: try (unfold cls, cls_after; cbn; rewrite Heqb; reflexivity).
    - (* QStart *) cbn [fst sset_pc h_pc h_rmu h_resizing]. destruct (Nat.eq_dec t t) as [_|Hc]; [|exfalso; apply Hc; reflexivity].
      split; [intros t' Hne; destruct (Nat.eq_dec t' t); [contradiction|reflexivity]|].
      split; [reflexivity|]. split; [reflexivity|]. split; [reflexivity|]. split; [exact I | exact HF].
    - (* the CAS of lockBucket succeeded: the plain code up to the next primitive *)
      pose proof (after_lock_flags (sset_tab s tab (fun tb => sset_word tb b 0 (fun _ => with_lock v (Some t)))) t tab b lk) as [A6 A7].
      rewrite Heqp in A6, A7. cbn [fst h_rmu h_resizing sset_tab] in A6, A7.
      assert (HF0 : frames_ok m) by (intros u fr E; apply (HF u fr); rewrite A2 in E; exact E).
      destruct (sgoto_flags m t s0 [SStep t (SKCASU64 true)]) as [G1 [G2 G3]].
      destruct (sgoto_pc m t s0 [SStep t (SKCASU64 true)] HF0 A5) as [G4 G5].
      pose proof (sgoto_frames m t s0 [SStep t (SKCASU64 true)] HF0) as G6.
      split; [intros t' Hne; rewrite (G3 t' Hne), A1; reflexivity|].
      split; [rewrite G1; exact A6|]. split; [rewrite G2; exact A7|]. split; [rewrite G4, A4; reflexivity|]. split; [exact G5 | exact G6].
    - (* unlockBucket of a Range: the visits follow *)
      destruct Hw as [Hpl [_ Hwa]]. specialize (Hpl ltac:(discriminate)).
      set (S0 := sset_tab s tab (fun tb => sset_word tb b 0 (fun _ => with_lock v None))).
      assert (HF0 : frames_ok S0) by exact HF.
      destruct (svisits_flags S0 t l o p [SStep t (SKStoreU64 (word_val (with_lock v None)))]) as [G1 [G2 G3]].
      destruct (svisits_pc S0 t l o p [SStep t (SKStoreU64 (word_val (with_lock v None)))] Hpl Hwa) as [G4 G5].
      pose proof (svisits_frames S0 t l o p [SStep t (SKStoreU64 (word_val (with_lock v None)))] (conj Hpl Hwa) HF0) as G6.
      split; [intros t' Hne; rewrite (G3 t' Hne); reflexivity|].
      split; [rewrite G1; reflexivity|]. split; [rewrite G2; reflexivity|]. split; [rewrite G4; reflexivity|]. split; [exact G5 | exact G6].
  Qed.


  Definition is_acq (p : spc) : bool := match p with QR_FinLock _ | QT_Lock _ _ | QT_Relock _ _ => true | _ => false end.
  Definition is_rel (p : spc) : bool := match p with QR_FinUnlock _ | QT_Wait _ _ | QT_Unlock _ _ => true | _ => false end.

  Lemma acquire_free s t p s' ls : sstep_pc s t p = Some (s', ls) -> is_acq p = true -> h_rmu s = None.
  Proof.
    intros Hs Ha. destruct p; try discriminate Ha; cbn [XMachineS.sstep_pc] in Hs; (destruct (h_rmu s); [discriminate | reflexivity]).
  Qed.

  Lemma swake_cls (p : spc) : swf p ->
    smu (swake p) = smu p /\ srz (swake p) = srz p /\ swait (swake p) = swait p /\ sbcast (swake p) = sbcast p
    /\ swaiting (swake p) = false /\ swf (swake p).
  Proof. intros Hw. destruct p; cbn in *; try tauto; repeat split; auto; tauto. Qed.

  Lemma swait_mu (p : spc) : swait p = true -> smu p = true.
  Proof. induction p; cbn; intros; try discriminate; auto. Qed.

  Lemma sbcast_mu (p : spc) : sbcast p = true -> smu p = true.
  Proof. induction p; cbn; intros; try discriminate; auto. Qed.

  Lemma rel_mu (p : spc) : is_rel p = true -> smu p = true.
  Proof. destruct p; cbn; intros; try discriminate; reflexivity. Qed.

  Theorem SI_step_pc s t p s' ls : SI s -> h_pc s t = p -> sstep_pc s t p = Some (s', ls) -> SI s'.
  Proof.
    intros HS Hp Hs.
    assert (HF : frames_ok s) by (intros u fr E; apply (si_frame s HS u fr E)).
    assert (Hw : swf p) by (rewrite <- Hp; apply (si_wf s HS)).
    destruct (sstep_effect s t p s' ls HF Hw Hs) as [Hoth [Hmu [Hrz [Hcls [Hwf' HF']]]]].
    unfold cls, cls_after in Hcls. inversion Hcls as [[C1 C2 C3 C4 C5]]. clear Hcls.
    (* the other threads *)
    assert (Ho : forall u, u <> t -> smu (h_pc s' u) = smu (h_pc s u) /\ srz (h_pc s' u) = srz (h_pc s u)
                                     /\ swait (h_pc s' u) = swait (h_pc s u) /\ sbcast (h_pc s' u) = sbcast (h_pc s u)
                                     /\ swf (h_pc s' u)
                                     /\ (swaiting (h_pc s' u) = true -> swaiting (h_pc s u) = true /\ is_bcast_s p = false)).
    { intros u Hne. rewrite (Hoth u Hne). pose proof (si_wf s HS u) as Hwu. destruct (is_bcast_s p).
      - destruct (swake_cls (h_pc s u) Hwu) as [A [B [C [D [E F]]]]].
        split; [exact A|]. split; [exact B|]. split; [exact C|]. split; [exact D|]. split; [exact F|]. rewrite E. discriminate.
      - split; [reflexivity|]. split; [reflexivity|]. split; [reflexivity|]. split; [reflexivity|]. split; [exact Hwu|]. auto. }
    assert (Hacq : is_acq p = true -> h_rmu s = None) by (apply (acquire_free s t p s' ls Hs)).
    constructor.
    - (* wf *) intros u. destruct (Nat.eq_dec u t) as [->|Hne]; [exact Hwf' | apply (Ho u Hne)].
    - (* muA *) intros u Hm. rewrite Hmu. destruct (Nat.eq_dec u t) as [->|Hne].
      + rewrite C1 in Hm. destruct p; cbn [mu_after]; try reflexivity; try discriminate Hm; rewrite <- Hp in Hm; apply (si_muA s HS t Hm).
      + destruct (Ho u Hne) as [A _]. rewrite A in Hm. pose proof (si_muA s HS u Hm) as Hu.
        destruct (is_acq p) eqn:Ea; [rewrite (Hacq eq_refl) in Hu; discriminate|].
        destruct (is_rel p) eqn:Er.
        * exfalso. apply Hne. pose proof (rel_mu p Er) as Hr. rewrite <- Hp in Hr. pose proof (si_muA s HS t Hr). congruence.
        * destruct p; cbn in Ea, Er; try discriminate; exact Hu.
    - (* muB *) intros u Hm. rewrite Hmu in Hm. destruct (Nat.eq_dec u t) as [->|Hne].
      + rewrite C1. destruct p; cbn [mu_after] in Hm; try reflexivity; try discriminate Hm; rewrite <- Hp; apply (si_muB s HS t Hm).
      + destruct (Ho u Hne) as [A _]. rewrite A. destruct p; cbn [mu_after] in Hm; try (apply (si_muB s HS u Hm)); try discriminate Hm;
          inversion Hm; subst; contradiction.
    - (* rzA *) intros u Hr. rewrite Hrz. destruct (Nat.eq_dec u t) as [->|Hne].
      + rewrite C2 in Hr. destruct p; cbn [rz_after]; try reflexivity; try discriminate Hr; rewrite <- Hp in Hr; apply (si_rzA s HS t Hr).
      + destruct (Ho u Hne) as [_ [B _]]. rewrite B in Hr. pose proof (si_rzA s HS u Hr) as Hu.
        destruct p; cbn [rz_after]; try exact Hu; try reflexivity.
        (* QR_FinStore: t is the resizer, u cannot be *)
        exfalso. apply Hne. apply (si_rzB s HS u t Hr). rewrite Hp. reflexivity.
    - (* rzB *) intros u u' Hr Hr'.
      assert (Hold : forall w, srz (h_pc s' w) = true -> w <> t -> srz (h_pc s w) = true) by (intros w H Hn; destruct (Ho w Hn) as [_ [B _]]; congruence).
      assert (Hself : srz (h_pc s' t) = true -> forall w, w <> t -> srz (h_pc s w) = true -> False).
      { intros H w Hn Hw0. rewrite C2 in H. destruct p; try (rewrite <- Hp in H; apply Hn; apply (si_rzB s HS w t Hw0 H)); try discriminate H.
        (* QR_CAS won: nobody was the resizer *)
        cbn in H. pose proof (si_rzA s HS w Hw0) as Hz. rewrite Hz in H. discriminate. }
      destruct (Nat.eq_dec u t) as [->|Hne], (Nat.eq_dec u' t) as [->|Hne']; try reflexivity.
      + exfalso. apply (Hself Hr u' Hne' (Hold u' Hr' Hne')).
      + exfalso. apply (Hself Hr' u Hne (Hold u Hr Hne)).
      + apply (si_rzB s HS u u' (Hold u Hr Hne) (Hold u' Hr' Hne')).
    - (* rzC *) intros Hz. rewrite Hrz in Hz.
      assert (Hkeep : forall w, w <> t -> srz (h_pc s w) = true -> srz (h_pc s' w) = true) by (intros w Hn H; destruct (Ho w Hn) as [_ [B _]]; congruence).
      destruct p; cbn [rz_after] in Hz; try discriminate Hz;
        try (destruct (si_rzC s HS Hz) as [u0 Hw0]; destruct (Nat.eq_dec u0 t) as [->|Hn];
             [exists t; rewrite C2; rewrite Hp in Hw0; exact Hw0 | exists u0; apply Hkeep; assumption]).
      (* QR_CAS *)
      destruct (h_resizing s) eqn:Ez.
      + destruct (si_rzC s HS Ez) as [u0 Hw0]. destruct (Nat.eq_dec u0 t) as [->|Hn]; [rewrite Hp in Hw0; discriminate Hw0 | exists u0; apply Hkeep; assumption].
      + exists t. rewrite C2. cbn. rewrite ?Ez. reflexivity.
    - (* about to wait: the flag is set *) intros u Hwt. rewrite Hrz. destruct (Nat.eq_dec u t) as [->|Hne].
      + rewrite C4 in Hwt. destruct p; cbn [rz_after]; try discriminate Hwt; try (rewrite <- Hp in Hwt; apply (si_wait s HS t Hwt)); try exact Hwt.
        (* QR_CAS / QR_FinStore with swait p: impossible *)
        all: cbn in Hwt; discriminate Hwt.
      + destruct (Ho u Hne) as [_ [_ [C _]]]. rewrite C in Hwt. pose proof (si_wait s HS u Hwt) as Hu.
        destruct p; cbn [rz_after]; try exact Hu; try reflexivity.
        exfalso. apply Hne. pose proof (swait_mu _ Hwt) as M1. pose proof (si_muA s HS u M1) as M2.
        assert (M3 : smu (h_pc s t) = true) by (rewrite Hp; reflexivity). pose proof (si_muA s HS t M3). congruence.
    - (* in the wait set *) intros u Hwt. destruct (Nat.eq_dec u t) as [->|Hne].
      + rewrite C3 in Hwt. left. rewrite Hrz.
        destruct p; cbn [rz_after]; try discriminate Hwt;
          try (exfalso; rewrite <- Hp in Hwt; pose proof (si_wf s HS t) as W; rewrite Hp in W, Hwt; cbn in Hwt, W; destruct W as [_ [W _]] || destruct W as [W _]; congruence).
        all: try (apply (si_wait s HS t); rewrite Hp; reflexivity).
        all: try (cbn in Hs; discriminate Hs).
      + destruct (Ho u Hne) as [_ [_ [_ [_ [_ G]]]]]. destruct (G Hwt) as [G1 G2].
        destruct (si_waiting s HS u G1) as [Hz|[u0 Hb]].
        * destruct p; cbn [rz_after] in Hrz; try (left; rewrite Hrz; exact Hz); try (left; exact Hrz).
          (* QR_FinStore: t goes on to broadcast *)
          right. exists t. rewrite C5. reflexivity.
        * right. destruct (Nat.eq_dec u0 t) as [->|Hn].
          -- exists t. rewrite C5. rewrite Hp in Hb. destruct p; cbn in Hb, G2; try discriminate; try exact Hb; auto.
          -- exists u0. destruct (Ho u0 Hn) as [_ [_ [_ [D _]]]]. congruence.
    - (* frames *) exact HF'.
  Qed.


  Lemma sstart_plain (o : @sop K V) : splain (sstart_pc o) /\ swf (sstart_pc o).
  Proof. destruct o; cbn; try (split; [repeat split | exact I]). apply start_cx_plain. Qed.

  Lemma SI_sstep s t s' ls : SI s -> sstep s t = Some (s', ls) -> SI s'.
  Proof.
    intros HS Hs. unfold XMachineS.sstep in Hs.
    destruct (h_pc s t) eqn:Hp; try (eapply SI_step_pc; [exact HS | exact Hp | exact Hs]).
    destruct (h_todo s t) as [|o rest]; [discriminate|].
    set (s1 := {| h_tabs := h_tabs s; h_cur := h_cur s; h_resizing := h_resizing s; h_rmu := h_rmu s;
                  h_growths := h_growths s; h_shrinks := h_shrinks s; h_alloc := h_alloc s;
                  h_pc := fun t' => if Nat.eq_dec t' t then sstart_pc o else h_pc s t';
                  h_todo := fun t' => if Nat.eq_dec t' t then rest else h_todo s t'; h_frame := h_frame s |}) in *.
    destruct (sstart_plain o) as [[P1 [P2 [P3 [P4 P5]]]] Pw].
    assert (Hpc : forall u, h_pc s1 u = if Nat.eq_dec u t then sstart_pc o else h_pc s u) by reflexivity.
    assert (Hsame : forall (f : spc -> bool), f (sstart_pc o) = false -> f QIdle = false -> forall u, f (h_pc s1 u) = f (h_pc s u)).
    { intros f F1 F2 u. rewrite Hpc. destruct (Nat.eq_dec u t) as [->|]; [rewrite Hp; congruence | reflexivity]. }
    assert (H1 : SI s1).
    { constructor; cbn [s1 h_rmu h_resizing h_frame].
      - intros u. rewrite Hpc. destruct (Nat.eq_dec u t); [exact Pw | apply (si_wf s HS)].
      - intros u. rewrite (Hsame smu P1 eq_refl). apply (si_muA s HS).
      - intros u H. rewrite (Hsame smu P1 eq_refl). apply (si_muB s HS u H).
      - intros u. rewrite (Hsame srz P2 eq_refl). apply (si_rzA s HS).
      - intros u u'. rewrite !(Hsame srz P2 eq_refl). apply (si_rzB s HS).
      - intros H. destruct (si_rzC s HS H) as [u Hu]. exists u. rewrite (Hsame srz P2 eq_refl). exact Hu.
      - intros u. rewrite (Hsame swait P4 eq_refl). apply (si_wait s HS).
      - intros u. rewrite (Hsame swaiting P3 eq_refl). intros H. destruct (si_waiting s HS u H) as [A|[w A]]; [left; exact A|].
        right. exists w. rewrite (Hsame sbcast P5 eq_refl). exact A.
      - apply (si_frame s HS). }
    destruct (sstep_pc s1 t (sstart_pc o)) as [[s2 ls0]|] eqn:E.
    - inversion Hs; subst. eapply SI_step_pc; [exact H1 | | exact E]. cbn. destruct (Nat.eq_dec t t); congruence.
    - inversion Hs; subst. exact H1.
  Qed.

  Lemma SI_init len0 todo : SI (sinit nslots seeds nstripes len0 todo).
  Proof. constructor; cbn; intros; try discriminate; try exact I; auto. Qed.

  Theorem SI_reachable len0 todo sched : SI (fst (srun (sinit nslots seeds nstripes len0 todo) sched)).
  Proof.
    pose proof (SI_init len0 todo) as H0. revert H0. generalize (sinit nslots seeds nstripes len0 todo).
    induction sched as [|t rest IH]; intros s H; cbn [XMachineS.srun]; [exact H|].
    destruct (sstep s t) as [[s' ls]|] eqn:E.
    - specialize (IH s' (SI_sstep s t s' ls H E)). destruct (XMachineS.srun _ _ _ _ _ _ _ _ _ _ _ s' rest). exact IH.
    - apply IH. exact H.
  Qed.

  (* ---------------- what it says about every reachable state of Map ---------------- *)

  Theorem map_resize_protocol len0 todo sched :
    let s := fst (srun (sinit nslots seeds nstripes len0 todo) sched) in
    (* a returned thread holds neither resizeMu nor the resizer role *)
    (forall t, h_pc s t = QIdle -> h_rmu s <> Some t /\ (h_resizing s = true -> exists t', t' <> t /\ srz (h_pc s t') = true))
    (* resizeMu has one holder, the flag one resizer *)
    /\ (forall t t', smu (h_pc s t) = true -> smu (h_pc s t') = true -> t = t')
    /\ (forall t t', srz (h_pc s t) = true -> srz (h_pc s t') = true -> t = t')
    /\ (h_resizing s = true <-> exists t, srz (h_pc s t) = true)
    (* no lost wake-up *)
    /\ (forall t hn kt, h_pc s t = QT_Waiting hn kt -> h_resizing s = true \/ exists t', sbcast (h_pc s t') = true).
  Proof.
    intros s. pose proof (SI_reachable len0 todo sched) as HS. fold s in HS.
    split; [|split; [|split; [|split]]].
    - intros t Hp. split.
      + intros Hm. pose proof (si_muB s HS t Hm) as H. rewrite Hp in H. discriminate.
      + intros Hz. destruct (si_rzC s HS Hz) as [t' Ht']. exists t'. split; [|exact Ht']. intros ->. rewrite Hp in Ht'. discriminate.
    - intros t t' H1 H2. pose proof (si_muA s HS t H1). pose proof (si_muA s HS t' H2). congruence.
    - apply (si_rzB s HS).
    - split; [apply (si_rzC s HS) | intros [t Ht]; apply (si_rzA s HS t Ht)].
    - intros t hn kt Hp. apply (si_waiting s HS t). rewrite Hp. reflexivity.
  Qed.

End SInv.
