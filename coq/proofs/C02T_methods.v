(* C02T_methods.v -- every method of the string/interface{} twin (CacheModel.v)
   is [goodT] (C02T_good.v) from its first step: with the clock advancing
   during the call.

   Where the clock is read:
     Set*            before the Store            -> the entry is armed at tau in [c_inv, c]
     get             after the Load              -> the Load is the mark if the entry is still
                                                    live at that read, else the re-checking Compute
     GetWithTTL      once more, after get        -> lifetime relative to tau in [c, c_res]
     GetAndDelete    after the LoadAndDelete     -> "expired" of the removed entry judged at tau in [c, c_res]
     DeleteExpired   once, before the traversal  -> removes only what expired BEFORE: still invisible
     GetOrSet, GetAndSet, GetAndRefresh, GetOrCompute, Compute: inside the closure = at the mark. *)
From CacheV Require Import Base SpecMap Client CacheModel Ops SpecTTL Lin LinT Conc.
From CacheV.gen Require Import Params.
From CacheV.proofs Require Import C01_sim C01_ops C02_good C02_methods C02T_good.

Section MethodsT.
  Context {K V : Type}.
  Variable eqd : forall a b : K, {a = b} + {a <> b}.
  Variable zero : V.
  Variable DFLT : Z.
  Variable CB : cbid.

  Notation item := (item V).
  Notation cop := (cop K V).
  Notation cres := (cres K V).
  Notation prog := (prog K V).
  Notation goodT := (goodT eqd zero DFLT CB).
  Notation call_okT := (call_okT eqd zero DFLT CB).
  Notation mkT now := (mk now DFLT CB).
  Notation RmT now := (Rm eqd now DFLT CB).
  Notation lset := (@lset K V).
  Notation lstat := (@lstat K V).

  (* ---------- single Compute / Clear: [good] at every clock ---------- *)

  Lemma goodT_GetOrSet ci now k v d : goodT (OGetOrSet k v d) ci (GetOrSet zero k v d) now (eq None) [] 0.
  Proof.
    unfold GetOrSet. apply goodT_single; try exact I; try reflexivity.
    - intros r'. destruct r' as [|[i|] ok [a|]| |]; eauto.
    - intros NOW. exact (good_GetOrSet eqd zero NOW DFLT CB k v d).
  Qed.

  Lemma goodT_GetAndSet ci now k v d : goodT (OGetAndSet k v d) ci (GetAndSet zero k v d) now (eq None) [] 0.
  Proof.
    unfold GetAndSet. apply goodT_single; try exact I; try reflexivity.
    - intros r'. destruct r' as [|[i|] ok [a|]| |]; eauto. destruct (a_ok a); [destruct (a_old a)|]; eauto.
    - intros NOW. exact (good_GetAndSet eqd zero NOW DFLT CB k v d).
  Qed.

  Lemma goodT_GetAndRefresh ci now k d : goodT (OGetAndRefresh k d) ci (GetAndRefresh zero k d) now (eq None) [] 0.
  Proof.
    unfold GetAndRefresh. apply goodT_single; try exact I; try reflexivity.
    - intros r'. destruct r' as [|[i|] [] a| |]; eauto.
    - intros NOW. exact (good_GetAndRefresh eqd zero NOW DFLT CB k d).
  Qed.

  Lemma goodT_GetOrCompute ci now k v d : goodT (OGetOrCompute k v d) ci (GetOrCompute zero k v d) now (eq None) [] 0.
  Proof.
    unfold GetOrCompute. apply goodT_single; try exact I; try reflexivity.
    - intros r'. destruct r' as [|[i|] ok [a|]| |]; eauto.
    - intros NOW. exact (good_GetOrCompute eqd zero NOW DFLT CB k v d).
  Qed.

  Lemma goodT_Compute ci now k fn d : goodT (OCompute k fn d) ci (Compute zero k fn d) now (eq None) [] 0.
  Proof.
    unfold Compute. apply goodT_single; try exact I; try reflexivity.
    - intros r'. destruct r' as [|[i|] [] [a|]| |]; eauto.
    - intros NOW. exact (good_Compute eqd zero NOW DFLT CB k fn d).
  Qed.

  Lemma goodT_Clear ci now : goodT OClear ci (@Clear K V) now (eq None) [] 0.
  Proof.
    unfold Clear. apply goodT_single; try exact I; try reflexivity.
    - intros r'. eauto.
    - intros NOW. exact (good_Clear eqd zero NOW DFLT CB).
  Qed.

  (* ---------- Set: the instant is computed from a clock value read BEFORE the Store ---------- *)

  Lemma goodT_Store (o : cop) ci now k v e d' :
    conc_ok o -> is_remover o = false -> kindT o = SPre -> (forall r, fn_ok o r 0) ->
    (forall s tau r s', tspecT eqd zero s tau o r s'
                        = (r = CUnit /\ s' = set_L s (insert eqd k (arm_at s tau v d') (st_map s)))) ->
    (forall now', now <= now' -> exists tau, ci <= tau <= now' /\ e = spec_expiration DFLT tau d') ->
    goodT o ci (MapCall (CStore k {| iv := v; ie := e |}) (fun _ => Ret CUnit)) now (eq None) [] 0.
  Proof.
    intros Hc Hrem Hkind Hfn Hdef Htau. cbn [C02T_good.goodT]. intros now' Hle P L HR. cbn [to_mop map_step].
    destruct (Htau now' Hle) as [tau [Ht He]].
    exists (eq (Some (CUnit, tau))), (insert eqd k {| iv := v; ie := e |} L).
    split; [eauto|]. split; [|split].
    - apply (R_upd eqd (mkT now' P) (mkT now' L)); [exact HR | nodup eqd HR | nodup eqd HR |].
      pointwise eqd HR k. cbn. reflexivity.
    - cbn [C02T_good.goodT]. split; [intros y <-; exists tau; split; [reflexivity|lia]|].
      split; [unfold track; rewrite Hrem; reflexivity | apply Hfn].
    - intros y <-. exists None. split; [reflexivity|]. right. split; [reflexivity|].
      exists CUnit, tau. split; [reflexivity|]. split.
      + unfold stampT. rewrite Hkind. cbn. lia.
      + rewrite Hdef. split; [reflexivity|]. unfold set_L, arm_at. cbn. rewrite He. reflexivity.
  Qed.

  Lemma goodT_Set_ (o : cop) ci now k v d :
    ci <= now ->
    conc_ok o -> is_remover o = false -> kindT o = SPre -> (forall r, fn_ok o r 0) ->
    (forall s tau r s', tspecT eqd zero s tau o r s'
                        = (r = CUnit /\ s' = set_L s (insert eqd k (arm_at s tau v d) (st_map s)))) ->
    goodT o ci (Set_ k v d) now (eq None) [] 0.
  Proof.
    intros Hci Hc Hrem Hkind Hfn Hdef. unfold Set_, expiration_prog.
    destruct (d =? DefaultExpiration) eqn:Ed.
    - cbn [C02T_good.goodT]. destruct (0 <? DFLT) eqn:E.
      + cbn [C02T_good.goodT]. intros now' Hle. exists (eq None). split; [eauto|]. split; [auto|].
        apply goodT_Store with (d' := d); auto.
        intros now'' Hle'. exists now'. split; [lia|]. unfold spec_expiration. rewrite Ed, E. reflexivity.
      + apply goodT_Store with (d' := d); auto.
        intros now' Hle. exists now'. split; [lia|]. unfold spec_expiration. rewrite Ed, E. reflexivity.
    - destruct (0 <? d) eqn:E.
      + cbn [C02T_good.goodT]. intros now' Hle. exists (eq None). split; [eauto|]. split; [auto|].
        apply goodT_Store with (d' := d); auto.
        intros now'' Hle'. exists now'. split; [lia|]. unfold spec_expiration. rewrite Ed, E. reflexivity.
      + apply goodT_Store with (d' := d); auto.
        intros now' Hle. exists now'. split; [lia|]. unfold spec_expiration. rewrite Ed, E. reflexivity.
  Qed.

  Lemma goodT_Set ci now k v d : ci <= now -> goodT (OSet k v d) ci (Set_ k v d) now (eq None) [] 0.
  Proof. intros H. apply goodT_Set_; try exact I; try reflexivity; auto. Qed.

  Lemma goodT_SetDefault ci now k v : ci <= now -> goodT (OSetDefault k v) ci (SetDefault k v) now (eq None) [] 0.
  Proof. intros H. unfold SetDefault. apply goodT_Set_; try exact I; try reflexivity; auto. Qed.

  Lemma goodT_SetForever ci now k v : ci <= now -> goodT (OSetForever k v) ci (SetForever k v) now (eq None) [] 0.
  Proof. intros H. unfold SetForever. apply goodT_Set_; try exact I; try reflexivity; auto. Qed.

  (* ---------- get: a Load that may turn out to have been the mark, else a re-checking Compute ---------- *)

  Lemma track_nonremoverT (o : cop) (P P' : amap K item) owe : is_remover o = false -> track eqd CB o P P' owe = owe.
  Proof. intros H. unfold track. rewrite H. reflexivity. Qed.

  Lemma vw_mkT now (L : amap K item) k (P : amap K item) : RmT now P L ->
    vw eqd (mkT now L) k = match lookup eqd k P with
                           | Some i => if expiredWithNow now i then None else Some i
                           | None => None
                           end.
  Proof. intros HR. apply (R_view eqd (mkT now P) (mkT now L) k HR). Qed.

  (* the candidates "marked at clock c, where the view of the key was x": [A c x tau r] says which
     timestamps tau and answers r such a mark may carry *)
  Definition marked (A : Z -> option item -> Z -> cres -> Prop) (c : Z) (x : option item) : lset :=
    fun y => exists r tau, y = Some (r, tau) /\ A c x tau r.

  Lemma goodT_get (o : cop) ci now k (f : option item -> prog cres) (A : Z -> option item -> Z -> cres -> Prop) :
    conc_ok o -> is_remover o = false ->
    (forall c L tau r, A c (vw eqd (mkT c L) k) tau r ->
       stampT o ci c tau /\ tspecT eqd zero (mkT c L) tau o r (mkT c L)) ->
    (forall c x, exists tau r, A c x tau r) ->
    (forall c x now1, c <= now1 -> goodT o ci (f x) now1 (marked A c x) [] 0) ->
    goodT o ci (CacheModel.bind (get zero k) f) now (eq None) [] 0.
  Proof.
    intros Hc Hrem Hspec Hne Hf. unfold get. cbn [CacheModel.bind C02T_good.goodT]. intros c Hle P L HR.
    cbn [to_mop map_step]. pose proof (vw_mkT c L k P HR) as Hv.
    assert (Hmk : forall c' x, exists y, marked A c' x y).
    { intros c' x. destruct (Hne c' x) as [tau [r H]]. exists (Some (r, tau)), r, tau. auto. }
    assert (Hlk : forall c' L' x y, vw eqd (mkT c' L') k = x -> marked A c' x y ->
                    exists y0 : lstat, None = y0 /\ link eqd zero DFLT CB o ci c' L' L' y0 y).
    { intros c' L' x y Ex [r [tau [-> HA]]]. exists None. split; [reflexivity|]. right. split; [reflexivity|].
      exists r, tau. split; [reflexivity|]. apply Hspec. rewrite Ex. exact HA. }
    destruct (lookup eqd k P) as [i|] eqn:HP.
    - (* loaded i: if it is live now and still live at the read that follows, this was the mark *)
      rewrite (track_nonremoverT o P P [] Hrem). cbn [fn_events length Nat.add].
      exists (fun y => y = None \/ (expiredWithNow c i = false /\ marked A c (Some i) y)), L.
      split; [exists None; left; reflexivity|]. split; [exact HR|]. split.
      + cbn [CacheModel.bind C02T_good.goodT]. intros c2 Hle2.
        destruct (expiredWithNow c2 i) eqn:He2; cbn [negb].
        * (* expired by now: nothing was decided; the Compute will *)
          exists (eq None). split; [eauto|]. split; [intros y <-; left; reflexivity|].
          cbn [CacheModel.bind C02T_good.goodT]. intros c3 Hle3 P2 L2 HR2.
          cbn [to_mop map_step]. unfold get_closure, CacheModel.expired, Conc.env0. cbn [e_now].
          pose proof (vw_mkT c3 L2 k P2 HR2) as Hv2.
          pose proof (R_pt eqd _ _ HR2 k) as Hk2. cbn [st_map mk st_now] in Hk2.
          destruct (lookup eqd k P2) as [j|] eqn:HP2.
          -- destruct (expiredWithNow c3 j) eqn:He3; cbn [negb].
             ++ exists (marked A c3 None), L2. split; [apply Hmk|]. split; [|split].
                ** apply (R_updP eqd (mkT c3 P2) (mkT c3 L2)); [exact HR2 | cbn; apply NoDup_remove; exact (R_ndP eqd _ _ HR2) |].
                   cbn. pointwise eqd HR2 k. cbn. cbn in Hk2. rewrite Hk2. exact He3.
                ** rewrite (track_nonremoverT o P2 _ [] Hrem). cbn. apply Hf. lia.
                ** intros y Hy. exact (Hlk c3 L2 None y Hv2 Hy).
             ++ exists (marked A c3 (Some j)), L2. split; [apply Hmk|]. split; [|split].
                ** apply (R_updP eqd (mkT c3 P2) (mkT c3 L2)); [exact HR2 | cbn; apply NoDup_insert; exact (R_ndP eqd _ _ HR2) |].
                   cbn. pointwise eqd HR2 k. cbn. cbn in Hk2. exact Hk2.
                ** rewrite (track_nonremoverT o P2 _ [] Hrem). cbn. apply Hf. lia.
                ** intros y Hy. exact (Hlk c3 L2 (Some j) y Hv2 Hy).
          -- exists (marked A c3 None), L2. split; [apply Hmk|]. split; [exact HR2|]. split.
             ** rewrite (track_nonremoverT o P2 _ [] Hrem). cbn. apply Hf. lia.
             ** intros y Hy. exact (Hlk c3 L2 None y Hv2 Hy).
        * (* still live: the Load was the mark *)
          exists (marked A c (Some i)). split; [apply Hmk|]. split.
          -- intros y Hy. right. split; [exact (live_mono c c2 i Hle2 He2) | exact Hy].
          -- apply Hf. exact Hle2.
      + intros y [->|[Hlive Hy]].
        * exists None. split; [reflexivity|]. left. auto.
        * rewrite Hlive in Hv. exact (Hlk c L (Some i) y Hv Hy).
    - (* a miss: the Load is the mark *)
      exists (marked A c None), L. split; [apply Hmk|]. split; [exact HR|]. split.
      + rewrite (track_nonremoverT o P P [] Hrem). cbn. apply Hf. lia.
      + intros y Hy. exact (Hlk c L None y Hv Hy).
  Qed.

  Lemma goodT_Get ci now k : goodT (OGet k) ci (Get zero k) now (eq None) [] 0.
  Proof.
    unfold Get.
    apply goodT_get with (A := fun c x tau r => tau = c /\ r = match x with Some i => CVal (iv i) true | None => CVal zero false end);
      try exact I; try reflexivity.
    - intros c L tau r [-> ->]. split; [reflexivity|]. cbn. split; reflexivity.
    - intros c x. eauto.
    - intros c x now1 Hle. destruct x as [i|]; cbn [C02T_good.goodT]; (split; [|split; reflexivity]);
        intros y [r [tau [-> [-> ->]]]]; exists c; auto.
  Qed.

  Lemma goodT_GetWithExpiration ci now k : goodT (OGetWithExpiration k) ci (GetWithExpiration zero k) now (eq None) [] 0.
  Proof.
    unfold GetWithExpiration.
    apply goodT_get with (A := fun c x tau r => tau = c /\ r = match x with
                                                               | Some i => CValExp (iv i) (if 0 <? ie i then ie i else 0) true
                                                               | None => CValExp zero 0 false end);
      try exact I; try reflexivity.
    - intros c L tau r [-> ->]. split; [reflexivity|]. cbn. split; reflexivity.
    - intros c x. eauto.
    - intros c x now1 Hle. destruct x as [i|]; [destruct (0 <? ie i) eqn:E|]; cbn [C02T_good.goodT]; (split; [|split; reflexivity]);
        intros y [r [tau [-> [-> ->]]]]; exists c; rewrite ?E; auto.
  Qed.

  (* the lifetime is relative to a clock value read after the mark; where no such read follows
     (a miss, an entry that never expires) the stamp is the clock of the mark *)
  Lemma goodT_GetWithTTL ci now k : goodT (OGetWithTTL k) ci (GetWithTTL zero k) now (eq None) [] 0.
  Proof.
    unfold GetWithTTL.
    apply goodT_get with (A := fun c x tau r =>
        match x with
        | Some i => if 0 <? ie i then c <= tau /\ r = CValTTL (iv i) (ie i - tau) true
                    else tau = c /\ r = CValTTL (iv i) NoExpiration true
        | None => tau = c /\ r = CValTTL zero 0 false
        end);
      try exact I; try reflexivity.
    - intros c L tau r HA. unfold stampT. cbn [kindT stamp_in tspecT].
      destruct (vw eqd (mkT c L) k) as [i|]; [destruct (0 <? ie i)|]; destruct HA as [Ht ->]; (split; [lia|]); split; reflexivity.
    - intros c x. destruct x as [i|]; [destruct (0 <? ie i)|]; exists c; eexists; split; try reflexivity; lia.
    - intros c x now1 Hle. destruct x as [i|]; [destruct (0 <? ie i) eqn:E|]; cbn [C02T_good.goodT].
      + intros now2 Hle2. exists (eq (Some (CValTTL (iv i) (ie i - now2) true, now2))).
        split; [eauto|]. split.
        * intros y <-. exists (CValTTL (iv i) (ie i - now2) true), now2. split; [reflexivity|]. rewrite E. split; [lia|reflexivity].
        * cbn [C02T_good.goodT]. split; [|split; reflexivity]. intros y <-. exists now2. split; [reflexivity|lia].
      + split; [|split; reflexivity]. intros y [r [tau [-> HA]]]. rewrite E in HA. destruct HA as [-> ->]. exists c. auto.
      + split; [|split; reflexivity]. intros y [r [tau [-> [-> ->]]]]. exists c. auto.
  Qed.

  (* ---------- GetAndDelete / Delete: remove, then read the clock, then report to the callback ---------- *)

  (* the entry is removed at the mark (clock c); whether the answer calls it expired is decided by a
     clock value read afterwards: tau in [c, c_res] *)
  Lemma goodT_GetAndDelete ci now k : goodT (OGetAndDelete k) ci (GetAndDelete zero k) now (eq None) [] 0.
  Proof.
    unfold GetAndDelete. cbn [C02T_good.goodT]. intros c Hle P L HR. cbn [to_mop map_step].
    pose proof (R_pt eqd _ _ HR k) as Hk. cbn [st_map mk st_now] in Hk.
    destruct (lookup eqd k P) as [i|] eqn:HP.
    - set (res := fun tau : Z => if expiredWithNow tau i then CVal zero false else @CVal K V (iv i) true).
      exists (fun y => exists tau, c <= tau /\ y = Some (res tau, tau)), (remove eqd k L).
      split; [exists (Some (res c, c)), c; split; [lia|reflexivity]|].
      split; [apply Rm_remove_both; exact HR|]. split.
      + unfold track. cbn [is_remover andb fn_events length Nat.add].
        rewrite (gone_remove eqd k P i (R_ndP eqd _ _ HR) HP).
        cbn [C02T_good.goodT]. intros c2 Hle2. exists (eq (Some (res c2, c2))).
        split; [eauto|]. split; [intros y <-; exists c2; split; [lia|reflexivity]|].
        cbn [C02T_good.goodT]. unfold has_cb, fire, res.
        destruct CB as [c0|]; destruct (expiredWithNow c2 i); cbn [C02T_good.goodT app].
        * exists []. split; [reflexivity|]. split; [reflexivity|]. split; [|split; reflexivity].
          intros y <-. exists c2. split; [reflexivity|lia].
        * exists []. split; [reflexivity|]. split; [reflexivity|]. split; [|split; reflexivity].
          intros y <-. exists c2. split; [reflexivity|lia].
        * split; [|split; reflexivity]. intros y <-. exists c2. split; [reflexivity|lia].
        * split; [|split; reflexivity]. intros y <-. exists c2. split; [reflexivity|lia].
      + intros y [tau [Ht ->]]. exists None. split; [reflexivity|]. right. split; [reflexivity|].
        exists (res tau), tau. split; [reflexivity|]. split; [unfold stampT; cbn; exact Ht|].
        cbn [tspecT]. split; [reflexivity|]. unfold view. cbn [st_map mk]. rewrite Hk. unfold res.
        destruct (expiredWithNow tau i); reflexivity.
    - exists (eq (Some (CVal zero false, c))), (remove eqd k L).
      split; [eauto|]. split; [apply Rm_remove_spec_only; auto|]. split.
      + unfold track. cbn [is_remover andb]. rewrite (gone_self eqd P (R_ndP eqd _ _ HR)).
        destruct (has_cb CB); cbn [app fn_events length Nat.add C02T_good.goodT];
          (split; [intros y <-; exists c; split; [reflexivity|lia] | split; reflexivity]).
      + intros y <-. exists None. split; [reflexivity|]. right. split; [reflexivity|].
        exists (CVal zero false), c. split; [reflexivity|]. split; [unfold stampT; cbn; lia|].
        cbn [tspecT]. split; [reflexivity|]. unfold view. cbn [st_map mk].
        destruct (lookup eqd k L) as [i'|]; [rewrite Hk|]; reflexivity.
  Qed.

  Lemma goodT_Delete ci now k : goodT (ODelete k) ci (Delete zero k) now (eq None) [] 0.
  Proof.
    unfold Delete, GetAndDelete. cbn [CacheModel.bind C02T_good.goodT]. intros c Hle P L HR. cbn [to_mop map_step].
    destruct (lookup eqd k P) as [i|] eqn:HP.
    - exists (eq (Some (CUnit, c))), (remove eqd k L).
      split; [eauto|]. split; [apply Rm_remove_both; exact HR|]. split.
      + unfold track. cbn [is_remover andb fn_events length Nat.add].
        rewrite (gone_remove eqd k P i (R_ndP eqd _ _ HR) HP).
        cbn [CacheModel.bind C02T_good.goodT]. intros c2 Hle2. exists (eq (Some (CUnit, c))).
        split; [eauto|]. split; [auto|].
        cbn [CacheModel.bind C02T_good.goodT]. unfold has_cb, fire.
        destruct CB as [c0|]; destruct (expiredWithNow c2 i); cbn [CacheModel.bind C02T_good.goodT app].
        * exists []. split; [reflexivity|]. split; [reflexivity|]. split; [|split; reflexivity].
          intros y <-. exists c. split; [reflexivity|lia].
        * exists []. split; [reflexivity|]. split; [reflexivity|]. split; [|split; reflexivity].
          intros y <-. exists c. split; [reflexivity|lia].
        * split; [|split; reflexivity]. intros y <-. exists c. split; [reflexivity|lia].
        * split; [|split; reflexivity]. intros y <-. exists c. split; [reflexivity|lia].
      + intros y <-. exists None. split; [reflexivity|]. right. split; [reflexivity|].
        exists CUnit, c. split; [reflexivity|]. split; [reflexivity|]. cbn. split; reflexivity.
    - exists (eq (Some (CUnit, c))), (remove eqd k L).
      split; [eauto|]. split; [apply Rm_remove_spec_only; auto|]. split.
      + unfold track. cbn [is_remover andb]. rewrite (gone_self eqd P (R_ndP eqd _ _ HR)).
        destruct (has_cb CB); cbn [CacheModel.bind app fn_events length Nat.add C02T_good.goodT];
          (split; [intros y <-; exists c; split; [reflexivity|lia] | split; reflexivity]).
      + intros y <-. exists None. split; [reflexivity|]. right. split; [reflexivity|].
        exists CUnit, c. split; [reflexivity|]. split; [reflexivity|]. cbn. split; reflexivity.
  Qed.

  (* ---------- DeleteExpired: marked at its snapshot; the clock was read BEFORE the traversal, so the rest
     only removes what had expired by then -- which the view at any later clock still hides ---------- *)

  Lemma goodT_fire_all ci now tau0 c (ev : list (K * V)) : CB = Some c -> tau0 <= now ->
    goodT ODeleteExpired ci (fire_all c ev (Ret CUnit)) now (eq (Some (CUnit, tau0))) ev 0.
  Proof.
    intros Hcb Ht. induction ev as [|[k v] t IH]; cbn [fire_all C02T_good.goodT].
    - split; [|split; reflexivity]. intros y <-. exists tau0. auto.
    - exists t. auto.
  Qed.

  Lemma gone_insert_sameT k (P : amap K item) cur : NoDup (keys P) -> lookup eqd k P = Some cur ->
    gone eqd P (insert eqd k cur P) = [].
  Proof.
    intros Hnd HP. apply (gone_none eqd). intros k' i' Hin. rewrite lookup_insert.
    destruct (eqd k' k); [eauto|]. exists i'. apply In_lookup; auto.
  Qed.

  Lemma goodT_delexp_loop ci now0 tau0 (ec : cbid) snap : ec = CB -> forall now ev,
    now0 <= now -> tau0 <= now ->
    (has_cb ec = false -> ev = []) ->
    goodT ODeleteExpired ci (delexp_loop zero ec now0 snap ev) now (eq (Some (CUnit, tau0))) ev 0.
  Proof.
    intros Hec. induction snap as [|[k i0] t IH]; intros now ev H0 Ht Hev; cbn [delexp_loop].
    - destruct ec as [c|].
      + apply goodT_fire_all; auto.
      + rewrite (Hev eq_refl). cbn [C02T_good.goodT]. split; [|split; reflexivity]. intros y <-. exists tau0. auto.
    - destruct (expiredWithNow now0 i0); [|apply IH; assumption].
      cbn [C02T_good.goodT]. intros c Hle P L HR. cbn [to_mop map_step]. unfold delexp_closure.
      pose proof (R_pt eqd _ _ HR k) as Hk. cbn [st_map mk st_now] in Hk.
      assert (Hsame : forall y : lstat, Some (CUnit, tau0) = y ->
                exists x : lstat, Some (CUnit, tau0) = x /\ link eqd zero DFLT CB ODeleteExpired ci c L L x y).
      { intros y <-. exists (Some (CUnit, tau0)). split; [reflexivity|]. left. auto. }
      destruct (lookup eqd k P) as [cur|] eqn:HP.
      + destruct (expiredWithNow now0 cur) eqn:He; cbn [a_ok a_old a_fn fn_events repeat length Nat.add].
        * (* expired when the clock was read, hence now: removed for real, and owed to the callback *)
          exists (eq (Some (CUnit, tau0))), L. split; [eauto|]. split; [|split; [|exact Hsame]].
          { apply (R_updP eqd (mkT c P) (mkT c L)); [exact HR | cbn; apply NoDup_remove; exact (R_ndP eqd _ _ HR) |].
            cbn. pointwise eqd HR k. cbn. cbn in Hk. rewrite Hk. apply (expired_mono now0 c cur); [lia | exact He]. }
          unfold track. cbn [is_remover andb]. rewrite (gone_remove eqd k P cur (R_ndP eqd _ _ HR) HP).
          replace (has_cb CB) with (has_cb ec) by (rewrite Hec; reflexivity). destruct ec as [c0|]; cbn.
          -- apply IH; try lia. intros; discriminate.
          -- apply IH; try lia. exact Hev.
        * (* a fresh value: kept *)
          exists (eq (Some (CUnit, tau0))), L. split; [eauto|]. split; [|split; [|exact Hsame]].
          { apply (R_updP eqd (mkT c P) (mkT c L)); [exact HR | cbn; apply NoDup_insert; exact (R_ndP eqd _ _ HR) |].
            cbn. pointwise eqd HR k. cbn. cbn in Hk. exact Hk. }
          unfold track. cbn [is_remover andb]. rewrite (gone_insert_sameT k P cur (R_ndP eqd _ _ HR) HP).
          destruct (has_cb CB); rewrite ?app_nil_r; apply IH; try lia; exact Hev.
      + exists (eq (Some (CUnit, tau0))), L. split; [eauto|]. split; [exact HR|]. split; [|exact Hsame].
        unfold track. cbn [is_remover andb a_ok aux0 fn_events a_fn repeat length Nat.add].
        rewrite (gone_self eqd P (R_ndP eqd _ _ HR)).
        destruct (has_cb CB); rewrite ?app_nil_r; apply IH; try lia; exact Hev.
  Qed.

  Lemma goodT_DeleteExpired ci now : goodT ODeleteExpired ci (DeleteExpired zero) now (eq None) [] 0.
  Proof.
    unfold DeleteExpired. cbn [C02T_good.goodT]. intros now0 Hle0. exists (eq None). split; [eauto|]. split; [auto|].
    cbn [C02T_good.goodT]. intros c Hle P L HR l.
    exists (eq (Some (CUnit, c))), L. split; [eauto|]. split; [exact HR|]. split.
    - apply goodT_delexp_loop; try lia; reflexivity.
    - intros y <-. exists None. split; [reflexivity|]. right. split; [reflexivity|].
      exists CUnit, c. split; [reflexivity|]. split; [reflexivity|]. cbn. split; reflexivity.
  Qed.

  (* ---------- every call of a concurrent phase starts out goodT ---------- *)

  Theorem goodT_init (o : cop) ci : conc_ok o -> goodT o ci (prog_cache eqd zero o) ci (eq None) [] 0.
  Proof.
    destruct o; cbn [conc_ok prog_cache]; intros Hc; try contradiction.
    - apply goodT_Set; lia. - apply goodT_SetDefault; lia. - apply goodT_SetForever; lia.
    - apply goodT_Get. - apply goodT_GetWithExpiration. - apply goodT_GetWithTTL.
    - apply goodT_GetOrSet. - apply goodT_GetAndSet. - apply goodT_GetAndRefresh.
    - apply goodT_GetOrCompute. - apply goodT_Compute.
    - apply goodT_GetAndDelete. - apply goodT_Delete. - apply goodT_DeleteExpired. - apply goodT_Clear.
  Qed.

End MethodsT.
