(* XS_abs.v -- the abstract map of XMachineS (map.go): what a lock-free reader
   finds in the CURRENT table,  sabs s := svis (table h_cur s).
   PROVED here (every statement for XB states, i.e. every reachable state):
     abs_step       a step either leaves m.table alone, and then sabs changes
                    exactly as the linearization store of the stepping thread on
                    the current table says (nothing for every other step, also
                    for stores into older tables); or it is the StorePointer of
                    resize that publishes the stepping resizer's new table, and
                    then sabs becomes what that table holds;
     clear_alloc / newtab_keys_frame / publish_no_keys
                    Clear: the table it allocates has no key, no other thread
                    can put one there before it is published, and publishing a
                    table without keys empties sabs.
   NOT proved: that the publish of a grow / shrink leaves sabs unchanged (the new
   table holds exactly the pairs of the old one).  See NOTES.md for the two
   invariants this needs (copy relation; no writer past resizeInProgress() on a
   bucket the copy has passed). *)
From CacheV Require Import Base SpecMap XMachineS.
From CacheV.proofs Require Import X_maps XS_inv XS_lock XS_own XS_count XS_cells XS_vis.
From Coq Require Import NArith.
Local Open Scope nat_scope.

Section SAbs.
  Context {K V : Type}.
  Variable eqd : forall a b : K, {a = b} + {a <> b}.
  Variable hash : K -> N -> N.
  Variable idx : N -> nat -> nat.
  Variable tophash : N -> N.
  Variable nslots : nat.
  Variable seeds : nat -> N.
  Variable grow_needed : nat -> Z -> bool.
  Variable shrink_policy : nat -> Z -> bool.
  Variable nstripes : nat -> nat.
  Variable minlen : nat.
  Variable grow_only : bool.

  Hypothesis Hslots : nslots <= 3.
  Hypothesis Hnslots : 0 < nslots.
  Hypothesis Htop : forall k sd, (tophash (hash k sd) < 1048576)%N.
  Hypothesis Hidx : forall h len, 0 < len -> idx h len < len.
  Hypothesis Hminlen : 0 < minlen.

  Notation mslot := (@mslot K V).
  Notation mtable := (@mtable K V).
  Notation mstate := (@mstate K V).
  Notation spc := (@spc K V).
  Notation empty_mslot := (@empty_mslot K V).
  Notation sstep_pc := (@sstep_pc K V eqd hash idx tophash nslots seeds grow_needed shrink_policy nstripes minlen grow_only).
  Notation sstep := (@sstep K V eqd hash idx tophash nslots seeds grow_needed shrink_policy nstripes minlen grow_only).
  Notation srun := (@srun K V eqd hash idx tophash nslots seeds grow_needed shrink_policy nstripes minlen grow_only).
  Notation shome := (@shome K V hash idx).
  Notation XL := (@XL K V hash idx nslots nstripes).
  Notation tabT := (@tabT K V nslots nstripes).
  Notation XB := (@XB K V hash idx tophash nslots nstripes).
  Notation XCS := (@XCS K V hash idx tophash nslots nstripes).
  Notation svis := (@svis K V hash idx tophash nslots).
  Notation tkey := (@tkey K V).

  (* the abstract map: what Load finds in m.table *)
  Definition sabs (s : mstate) (k : K) (v : V) : Prop := svis (tabT (h_tabs s) (h_cur s)) k v.

  (* m.table changes only at the publishing store of resize *)
  Lemma sstep_cur s t s' ls : XB s -> sstep s t = Some (s', ls) ->
    h_cur s' = h_cur s
    \/ exists kt new, h_pc s t = QR_Publish kt new /\ h_cur s' = new /\ h_tabs s' = h_tabs s /\ h_cur s < new /\ S new = length (h_tabs s).
  Proof.
    intros HB Hs. unfold XMachineS.sstep in Hs.
    assert (Hpc : forall s0 p s1 ls0, XB s0 -> h_pc s0 t = p -> sstep_pc s0 t p = Some (s1, ls0) ->
              h_cur s1 = h_cur s0
              \/ exists kt new, p = QR_Publish kt new /\ h_cur s1 = new /\ h_tabs s1 = h_tabs s0 /\ h_cur s0 < new /\ S new = length (h_tabs s0)).
    { intros s0 p s1 ls0 [HI [HS [HT _]]] Hp Hst.
      assert (Hw : swf p) by (rewrite <- Hp; apply (si_wf s0 HI)).
      destruct (step_kinds eqd hash idx tophash nslots seeds grow_needed shrink_policy nstripes minlen grow_only s0 t p s1 ls0 Hw Hst)
        as [K1 _ _ | kt new K1 K2 K3 | len seed K1 _ _ _]; [left; exact K1 | | left; exact K1].
      right. exists kt, new. destruct (xt_pc s0 HT t) as [_ Hn]. rewrite Hp, K1 in Hn. destruct (Hn new eq_refl). auto. }
    destruct (h_pc s t) eqn:Hp; try (eapply Hpc; [exact HB | exact Hp | exact Hs]).
    destruct (h_todo s t) as [|o rest]; [discriminate|].
    pose proof (invoke_XB hash idx tophash nslots nstripes s t o rest Hp HB) as HB1.
    change (match sstep_pc (XS_count.sinvoke s t o rest) t (sstart_pc o) with
            | Some (s2, ls0) => Some (s2, SInv t o :: ls0)
            | None => Some (XS_count.sinvoke s t o rest, [SInv t o])
            end = Some (s', ls)) in Hs.
    destruct (sstep_pc (XS_count.sinvoke s t o rest) t (sstart_pc o)) as [[s2 ls0]|] eqn:E2.
    - inversion Hs; subst s2 ls.
      assert (Epc : h_pc (XS_count.sinvoke s t o rest) t = sstart_pc o) by (cbn [XS_count.sinvoke h_pc]; destruct (Nat.eq_dec t t); congruence).
      destruct (Hpc _ _ _ _ HB1 Epc E2) as [A|[kt [new [A _]]]]; [left; exact A|].
      exfalso. destruct o; cbn [sstart_pc] in A; try discriminate A. unfold sstart_cx in A. destruct (sc_lie _); discriminate A.
    - inversion Hs; subst s'. left. reflexivity.
  Qed.

  (* the abstract map changes only at linearization stores of writers on the current table, and at the publish *)
  Theorem abs_step s t s' ls k v : XB s -> sstep s t = Some (s', ls) ->
    (h_cur s' = h_cur s /\ (sabs s' k v <-> upd_rel (sabs s) (lin_effect (h_pc s t) (h_cur s)) k v))
    \/ (exists kt new, h_pc s t = QR_Publish kt new /\ h_cur s' = new /\ h_cur s < new
                       /\ (sabs s' k v <-> svis (tabT (h_tabs s) new) k v)).
  Proof.
    intros HB Hs. destruct (sstep_cur s t s' ls HB Hs) as [E|[kt [new [E1 [E2 [E3 [E4 E5]]]]]]].
    - left. split; [exact E|]. unfold sabs. rewrite E.
      apply (vis_sstep eqd hash idx tophash nslots seeds grow_needed shrink_policy nstripes minlen grow_only Hslots Hnslots Hidx Hminlen
               s t s' ls (h_cur s) k v HB Hs (le_n _)).
    - right. exists kt, new. split; [exact E1|]. split; [exact E2|]. split; [exact E4|]. unfold sabs. rewrite E2, E3. reflexivity.
  Qed.

  (* a store into a table that is no longer (or not yet) current does not change the abstract map *)
  Corollary abs_other_table s t s' ls k v : XB s -> sstep s t = Some (s', ls) -> h_cur s' = h_cur s ->
    lin_effect (h_pc s t) (h_cur s) = None -> (sabs s' k v <-> sabs s k v).
  Proof.
    intros HB Hs Hc Hl. destruct (abs_step s t s' ls k v HB Hs) as [[_ H]|[kt [new [_ [E [L _]]]]]]; [rewrite Hl in H; exact H | lia].
  Qed.

  (* ---------------- Clear ---------------- *)

  Lemma svis_tkey (tb : mtable) k v : tb_ok tb -> svis tb k v -> tkey tb k.
  Proof.
    intros Hok [pos [H1 [H2 _]]]. exists (shome tb k), pos. split; [apply (shome_lt hash idx Hidx); exact Hok | auto].
  Qed.

  (* publishing a table without keys empties the abstract map *)
  Theorem publish_no_keys s t s' ls kt new : XB s -> sstep s t = Some (s', ls) -> h_pc s t = QR_Publish kt new ->
    (forall k, ~ tkey (tabT (h_tabs s) new) k) -> forall k v, ~ sabs s' k v.
  Proof.
    intros HB Hs Hp Hnk k v Ha. destruct (abs_step s t s' ls k v HB Hs) as [[E _]|[kt' [new' [E1 [E2 [E3 H]]]]]].
    - (* not possible: this step publishes *)
      destruct (sstep_cur s t s' ls HB Hs) as [E'|[kt' [new' [E1 [E2 [E3 [E4 E5]]]]]]].
      + unfold XMachineS.sstep in Hs. rewrite Hp in Hs. cbn [XMachineS.sstep_pc] in Hs. inversion Hs; subst s'.
        cbn [sgoto fst sset_pc sset_flags h_cur] in E'. destruct HB as [_ [_ [HT _]]]. destruct (xt_pc s HT t) as [_ Hn]. rewrite Hp in Hn.
        destruct (Hn new eq_refl). lia.
      + lia.
    - rewrite Hp in E1. assert (En : new' = new) by congruence. subst new'. apply H in Ha. rewrite ?En in Ha. destruct HB as [_ [HS _]].
      apply (Hnk k). apply (svis_tkey _ k v); [apply (tb_ok_tabT nslots nstripes Hslots); apply (xl_tabs _ _ _ _ s HS) | exact Ha].
  Qed.

  (* Clear allocates a table without keys and stands before the publish *)
  Theorem clear_alloc s t s' ls kt : sstep s t = Some (s', ls) -> h_pc s t = QR_Table SHClear kt ->
    h_pc s' t = QR_Publish kt (length (h_tabs s)) /\ forall k, ~ tkey (tabT (h_tabs s') (length (h_tabs s))) k.
  Proof.
    intros Hs Hp. unfold XMachineS.sstep in Hs. rewrite Hp in Hs. cbn [XMachineS.sstep_pc] in Hs. inversion Hs; subst s'. clear Hs. split.
    - cbn [sgoto fst sset_pc h_pc]. destruct (Nat.eq_dec t t) as [_|Hc]; [reflexivity | exfalso; apply Hc; reflexivity].
    - intros k. cbn [sgoto fst sset_pc spush_tab h_tabs]. unfold XS_lock.tabT. rewrite app_nth2 by lia. rewrite Nat.sub_diag. cbn [nth].
      apply (tkey_new nslots nstripes).
  Qed.

  Lemma holds_le' n T (p : spc) tab b : tabs_le n p -> XS_lock.sholdsT hash idx nslots nstripes T p = Some (tab, b) -> tab <= n.
  Proof. destruct p; cbn [tabs_le XS_lock.sholdsT]; intros H E; try discriminate E; inversion E; subst; tauto. Qed.

  (* no other thread writes into the unpublished table of a resize *)
  Theorem newtab_keys_frame s t u s' ls new k : XB s -> snewtab (h_pc s t) = Some new -> u <> t -> sstep s u = Some (s', ls) ->
    (tkey (tabT (h_tabs s') new) k <-> tkey (tabT (h_tabs s) new) k) /\ h_pc s' t = h_pc s t.
  Proof.
    intros HB Hn Hne Hs. pose proof HB as [HI [HS [HT [HX HC]]]]. destruct (xt_pc s HT t) as [_ Hnt]. destruct (Hnt new Hn) as [N1 N2].
    assert (Hnew : new < length (h_tabs s)) by lia.
    assert (Hpc : forall s0 p s1 ls0, XB s0 -> h_tabs s0 = h_tabs s -> h_cur s0 = h_cur s -> h_pc s0 t = h_pc s t -> h_pc s0 u = p ->
              sstep_pc s0 u p = Some (s1, ls0) ->
              (tkey (tabT (h_tabs s1) new) k <-> tkey (tabT (h_tabs s) new) k) /\ h_pc s1 t = h_pc s t).
    { intros s0 p s1 ls0 HB0 Et Ec Ept Hp Hst. destruct HB0 as [HI0 [HS0 [HT0 [HX0 HC0]]]].
      pose proof (sstep_pc_eff eqd hash idx tophash nslots seeds grow_needed shrink_policy nstripes minlen grow_only
                    Hslots Hidx Hminlen s0 u p s1 ls0 HS0 Hp Hst) as HE.
      assert (Hpt : h_pc s1 t = h_pc s t).
      { destruct (se_oth _ _ _ _ _ _ _ HE t (fun E => Hne (eq_sym E))) as [E|E]; rewrite E, Ept; [reflexivity|].
        destruct (h_pc s t); try reflexivity; discriminate Hn. }
      split; [|exact Hpt].
      assert (Hcw : forall b, cellsw (tabT (h_tabs s1) new) b = cellsw (tabT (h_tabs s0) new) b).
      { intros b. assert (Hnew0 : new < length (h_tabs s0)) by (rewrite Et; exact Hnew). destruct (step_cellsw_frame eqd hash idx tophash nslots seeds grow_needed shrink_policy nstripes minlen grow_only
                                                     Hslots Hnslots s0 u p s1 ls0 HS0 HC0 Hp Hst new b Hnew0) as [C|[C|C]]; [exact C | |].
        - exfalso. destruct (xt_pc s0 HT0 u) as [Hle _]. rewrite Hp in Hle. pose proof (holds_le' _ _ _ _ _ Hle C). lia.
        - exfalso. apply Hne. apply (si_rzB s0 HI0 u t); [rewrite Hp; eapply snewtab_srz; exact C | rewrite Ept; eapply snewtab_srz; exact Hn]. }
      destruct (se_ext _ _ _ _ _ _ _ HE) as [_ X]. assert (Hnew0 : new < length (h_tabs s0)) by (rewrite Et; exact Hnew).
      destruct (X new Hnew0) as [X1 _].
      assert (Hch : forall b, schain_of (tabT (h_tabs s1) new) b = schain_of (tabT (h_tabs s0) new) b)
        by (intros b; specialize (Hcw b); unfold cellsw in Hcw; injection Hcw as Q _; exact Q).
      rewrite <- Et. split; apply tkey_same; auto. }
    unfold XMachineS.sstep in Hs.
    destruct (h_pc s u) eqn:Hp; try (eapply Hpc; [exact HB | reflexivity | reflexivity | reflexivity | exact Hp | exact Hs]).
    destruct (h_todo s u) as [|o rest]; [discriminate|].
    pose proof (invoke_XB hash idx tophash nslots nstripes s u o rest Hp HB) as HB1.
    change (match sstep_pc (XS_count.sinvoke s u o rest) u (sstart_pc o) with
            | Some (s2, ls0) => Some (s2, SInv u o :: ls0)
            | None => Some (XS_count.sinvoke s u o rest, [SInv u o])
            end = Some (s', ls)) in Hs.
    assert (Ept : h_pc (XS_count.sinvoke s u o rest) t = h_pc s t) by (cbn [XS_count.sinvoke h_pc]; destruct (Nat.eq_dec t u); [congruence | reflexivity]).
    destruct (sstep_pc (XS_count.sinvoke s u o rest) u (sstart_pc o)) as [[s2 ls0]|] eqn:E2.
    - inversion Hs; subst s2 ls.
      assert (Epc : h_pc (XS_count.sinvoke s u o rest) u = sstart_pc o) by (cbn [XS_count.sinvoke h_pc]; destruct (Nat.eq_dec u u); congruence).
      apply (Hpc _ _ _ _ HB1 eq_refl eq_refl Ept Epc E2).
    - inversion Hs; subst s'. split; [reflexivity | exact Ept].
  Qed.

End SAbs.
