(* C16X_mapof.v -- C16 at the cache level over XMachine (MapOf): a Get of a key whose visible entry is
   absent or unexpired completes in a bounded number of the caller's OWN moves, whatever the other
   threads are in the middle of.

   [cache_get_never_waits_over_xmachine]: in EVERY reachable state of CX_mapof.v's product machine
   (the other threads anywhere: holding bucket locks, inside a user function, mid-resize, waiting),
   a thread t that stands between cache calls with Get k next, run ALONE, completes the call within
   rd_bound + 5 moves (rd_bound: X_c16's bound of the lock-free lookup in the current table), its
   only map call being Load k, and answers (iv i, true) if the entry i visible under k in the current
   table has not expired at NOW, (zero, false) if no entry is visible -- what SpecTTL's Get says of
   the visible content.  OUTSIDE the property: an EXPIRED entry not yet cleaned -- then Get goes on
   to a re-checking Compute, which takes the bucket lock and may wait.
   Route: C08X_product.prophecy_state + X_read.solo_load_visible_proof (C16_value) + todo_ext +
   C16X_product.solo_invoke_answer, then the clock read and the return. *)
From CacheV Require Import Base SpecMap Client CacheModel CacheOfModel Ops SpecTTL Lin Conc XMachine.
From CacheV.gen Require Import Params.
From CacheV.proofs Require Import X_basic X_lin X_linpoints X_c16 X_read X_term CX_trans CX_compose CX_product CX_mapof
  C08X_product C08X_mapof C16X_product.
From Coq Require Import NArith.
Local Open Scope nat_scope.
Local Arguments p_x {K V XS} p.
Local Arguments p_thr {K V XS} p _.
Local Arguments p_todo {K V XS} p _.

Section GetOverXMachine.
  Context {K V : Type}.
  Variable eqd : forall a b : K, {a = b} + {a <> b}.
  Variable hash : K -> N -> N.
  Variable idx : N -> nat -> nat.
  Variable tag : N -> N.
  Variable nslots : nat.
  Variable seeds : nat -> N.
  Variable grow_needed shrink_policy : nat -> Z -> bool.
  Variable probe : list (option N) -> N -> list nat.
  Variable nstripes : nat -> nat.
  Variable minlen : nat.
  Variable grow_only : bool.
  Variable len0 : nat.
  Variable progs : cop K V -> prog K V (cres K V).
  Variables NOW DFLT : Z.
  Variable CB : cbid.

  Notation item := (item V).
  Notation xstate := (@xstate K item).
  Notation xop := (@xop K item).
  Notation xres := (@xres K item).
  Notation env0 := (Conc.env0 NOW DFLT).
  Notation xp_step := (@xp_step K item eqd hash idx tag nslots seeds grow_needed shrink_policy probe nstripes minlen grow_only).
  Notation xrun := (@xrun K item eqd hash idx tag nslots seeds grow_needed shrink_policy probe nstripes minlen grow_only).
  Notation xstep := (@xstep K item eqd hash idx tag nslots seeds grow_needed shrink_policy probe nstripes minlen grow_only).
  Notation xp_init := (@xp_init K V nslots seeds nstripes len0).
  Notation mrun := (mrun xstate xop xres xp_step).
  Notation cxrun := (cxrun eqd hash idx tag nslots seeds grow_needed shrink_policy probe nstripes minlen grow_only progs NOW DFLT CB).
  Notation cxinit := (cxinit nslots seeds nstripes len0).
  Notation rd_bound := (@X_c16.rd_bound K item hash idx tag nslots probe nstripes).

  Hypothesis Hx : xhyps4 idx nstripes minlen nslots probe.
  Hypothesis Hlen : 0 < len0.

  (* the machine's Load k for a thread that stands between calls, everybody else anywhere *)
  Lemma machine_load_any (todo : nat -> list (cop K V)) sched t k :
    let p := fst (fst (cxrun (cxinit todo) sched)) in
    let x := p_x p in
    g_todo x t = [] -> xidle x t ->
    let tb := tab_at nslots nstripes x (g_cur x) in
    exists m o, m <= S (rd_bound x (PL_Table k LPlain))
      /\ In (HRes t (X_read.res_of o)) (snd (mrun (push xstate xop (@g_todo K item) with_todo x t (XLoad k)) (repeat t m)))
      /\ forall v, o = Some v <-> X_lin.vis hash idx tb k v.
  Proof.
    intros p x Htd0 Hid tb.
    set (fa := upd (fun _ : nat => @nil xop) t [XLoad k]).
    destruct (prophecy_state progs NOW DFLT CB xstate xop xres xp_step (@g_todo K item) with_todo
                (translate env0) (back env0) xsup
                (fun s td u => eq_refl) (fun s a b => eq_refl) (@xp_frame K item eqd hash idx tag nslots seeds grow_needed shrink_policy probe nstripes minlen grow_only)
                sched (cxinit todo) fa) as [fut Hf].
    destruct (Hf (xp_init fut)) as [sched' [s'' [Hrun Ha]]].
    { exists fut. split; [reflexivity|]. intros u. reflexivity. }
    fold cxrun in Ha, Hrun. fold p in Ha. fold x in Ha.
    destruct Ha as [td [Es Htd]].
    assert (Er : s'' = fst (xrun (xp_init fut) sched'))
      by (rewrite <- (xp_mrun_fst eqd hash idx tag nslots seeds grow_needed shrink_policy probe nstripes minlen grow_only), Hrun; reflexivity).
    subst s''.
    assert (Hpush : forall m, snd (mrun (push xstate xop (@g_todo K item) with_todo x t (XLoad k)) (repeat t m))
                              = snd (mrun (with_todo x td) (repeat t m))).
    { intros m. unfold CX_product.push.
      apply (todo_ext xstate xop xres xp_step (@g_todo K item) with_todo (fun s td u => eq_refl) (fun s a b => eq_refl)
               (with_todo_id (K:=K) (V:=V))
               (@xp_frame K item eqd hash idx tag nslots seeds grow_needed shrink_policy probe nstripes minlen grow_only)).
      intros u. rewrite Htd. unfold fa, upd. destruct (Nat.eq_dec u t) as [->|]; [reflexivity | rewrite app_nil_r; reflexivity]. }
    assert (Htt : td t = [XLoad k]) by (rewrite Htd, Htd0; unfold fa; rewrite upd_same; reflexivity).
    unfold CX_mapof.xp_init in Er.
    destruct Hid as [Ept|Ept].
    - (* the goroutine has not run yet: its first step starts it *)
      set (s3 := set_pc (with_todo x td) t PIdle).
      assert (Est : xstep (with_todo x td) t = Some (s3, [XStep t KStart])).
      { unfold XMachine.xstep. cbn [with_todo g_pc]. rewrite Ept. reflexivity. }
      assert (Er3 : s3 = fst (xrun (xinit nslots seeds nstripes len0 fut) (sched' ++ [t]))).
      { rewrite (X_term.xrun_app eqd hash idx tag nslots seeds grow_needed shrink_policy probe nstripes minlen grow_only). cbn [fst].
        rewrite <- Er. cbn [XMachine.xrun]. rewrite Est. reflexivity. }
      pose proof (solo_load_visible_proof eqd hash idx tag nslots seeds grow_needed shrink_policy probe nstripes minlen grow_only
                    Hx len0 fut (sched' ++ [t]) t k [] Hlen) as Hc.
      cbv zeta in Hc. rewrite <- Er3 in Hc.
      destruct Hc as [m [o [Hm [_ [H1 [H2 _]]]]]].
      + unfold s3. cbn [set_pc g_pc]. destruct (Nat.eq_dec t t); congruence.
      + unfold s3. cbn [set_pc g_todo with_todo]. exact Htt.
      + exists (S m), o. split; [apply le_n_S; exact Hm|]. split; [|exact H2].
        rewrite Hpush. rewrite (xp_mrun eqd hash idx tag nslots seeds grow_needed shrink_policy probe nstripes minlen grow_only).
        apply xhist_res.
        assert (Hcons : forall rest, snd (xrun (with_todo x td) (t :: rest)) = [XStep t KStart] ++ snd (xrun s3 rest)).
        { intros rest. cbn [XMachine.xrun]. rewrite Est. destruct (xrun s3 rest); reflexivity. }
        cbn [repeat]. rewrite Hcons. right. exact H1.
    - pose proof (solo_load_visible_proof eqd hash idx tag nslots seeds grow_needed shrink_policy probe nstripes minlen grow_only
                    Hx len0 fut sched' t k [] Hlen) as Hc.
      cbv zeta in Hc. rewrite <- Er in Hc.
      destruct Hc as [m [o [Hm [_ [H1 [H2 _]]]]]].
      + cbn [with_todo g_pc]. exact Ept.
      + cbn [with_todo g_todo]. exact Htt.
      + exists m, o. split; [apply Nat.le_le_succ_r; exact Hm|]. split; [|exact H2].
        rewrite Hpush. rewrite (xp_mrun eqd hash idx tag nslots seeds grow_needed shrink_policy probe nstripes minlen grow_only).
        apply xhist_res. exact H1.
  Qed.

  (* ---------------- the cache level ---------------- *)

  Notation pstepX := (pstep progs NOW DFLT CB xstate xop xres xp_step (@g_todo K item) with_todo (translate env0) (back env0) xsup).
  Notation PIX := (PI xstate xop (@g_todo K item) (@xidle K item) (translate env0) xsup).

  Lemma PI_reachable (todo : nat -> list (cop K V)) sched : PIX (fst (fst (cxrun (cxinit todo) sched))).
  Proof.
    apply (prun_PI progs NOW DFLT CB xstate xop xres xp_step (@g_todo K item) with_todo (@xidle K item)
             (translate env0) (back env0) xsup (fun s td u => eq_refl) (fun s td u => conj (fun H => H) (fun H => H))
             (@xp_proto K item eqd hash idx tag nslots seeds grow_needed shrink_policy probe nstripes minlen grow_only)).
    apply PI_init; [intros td u; reflexivity | intros td u; left; reflexivity].
  Qed.

  Variable zero : V.
  Hypothesis Hget : forall k, progs (OGet k) = CacheModel.Get zero k.

  (* the answer SpecTTL's Get gives for what is visible under k, when that is absent or unexpired *)
  Definition get_answer (tb : @xtable K item) (k : K) (c : cres K V) : Prop :=
    (exists i, X_lin.vis hash idx tb k i /\ expiredWithNow NOW i = false /\ c = CVal (iv i) true)
    \/ ((forall i, ~ X_lin.vis hash idx tb k i) /\ c = CVal zero false).

  Theorem get_never_waits (todo : nat -> list (cop K V)) sched t k rest :
    let p := fst (fst (cxrun (cxinit todo) sched)) in
    let tb := tab_at nslots nstripes (p_x p) (g_cur (p_x p)) in
    (* thread t stands between cache calls, its next call is Get k; the others: anywhere *)
    p_thr p t = QIdle -> p_todo p t = OGet k :: rest ->
    (* what is visible under k has not expired (or nothing is visible) *)
    (forall i, X_lin.vis hash idx tb k i -> expiredWithNow NOW i = false) ->
    exists j c,
      let r := cxrun p (repeat (t, []) j) in
      j <= rd_bound (p_x p) (PL_Table k LPlain) + 5
      /\ cproj (snd (fst r)) = [HInv t (OGet k); HRes t c]
      /\ (exists mr, mproj (snd (fst r)) = [HInv t (CLoad k); HRes t mr])      (* its only map call: Load k *)
      /\ get_answer tb k c
      /\ p_thr (fst (fst r)) t = QIdle /\ p_todo (fst (fst r)) t = rest
      /\ (forall u, u <> t -> p_thr (fst (fst r)) u = p_thr p u).                 (* nobody else has moved *)
  Proof.
    intros p tb Eq Etd Hlive.
    pose proof (PI_reachable todo sched) as HP. fold p in HP.
    pose proof (HP t) as Hpt. rewrite Eq in Hpt. destruct Hpt as [Htd0 Hid].
    destruct (machine_load_any todo sched t k Htd0 Hid) as [m [o [Hm [Hin Hvis]]]].
    fold p in Hin, Hvis, Hm. fold tb in Hvis.
    pose proof (Hget k) as Epr. unfold CacheModel.Get, CacheModel.get in Epr. cbn [CacheModel.bind] in Epr.
    destruct (solo_invoke_answer progs NOW DFLT CB xstate xop xres xp_step (@g_todo K item) with_todo (@xidle K item)
                (translate env0) (back env0) xsup (fun s td u => eq_refl) (fun s td u => conj (fun H => H) (fun H => H))
                (@xp_proto K item eqd hash idx tag nslots seeds grow_needed shrink_policy probe nstripes minlen grow_only)
                t m p (OGet k) rest (CLoad k) _ (X_read.res_of o) HP Eq Etd Epr) as [j [Hj [A [M [B [C [D F]]]]]]].
    { discriminate. }
    { reflexivity. }
    { exact Hin. }
    fold cxrun in Hj, A, M, B, C, D, F.
    destruct (cxrun p (repeat (t, []) j)) as [[p3 o3] h3] eqn:E3. cbn [fst snd] in *.
    destruct o as [i|].
    - (* an entry is visible: it is live; the clock read, then the return *)
      assert (Hv : X_lin.vis hash idx tb k i) by (apply Hvis; reflexivity).
      pose proof (Hlive i Hv) as Hl.
      cbn [X_read.res_of back] in B. cbn [CacheModel.bind] in B.
      set (p4 := pset xstate p3 t (QRun (OGet k) (Ret (CVal (iv i) true)))).
      assert (E4 : pstepX p3 t [] = Some (p4, [], [])).
      { unfold CX_product.pstep. rewrite B. unfold p4. rewrite Hl. reflexivity. }
      assert (E5 : pstepX p4 t [] = Some (pset xstate p4 t QIdle, [OC (HRes t (CVal (iv i) true))], [])).
      { unfold CX_product.pstep. unfold p4 at 1. cbn [pset p_thr]. rewrite upd_same. reflexivity. }
      exists (j + 2), (CVal (iv i) true).
      unfold CX_mapof.cxrun. rewrite repeat_app.
      rewrite (prun_app progs NOW DFLT CB xstate xop xres xp_step (@g_todo K item) with_todo (translate env0) (back env0) xsup).
      fold cxrun. rewrite E3. cbn [repeat].
      unfold CX_mapof.cxrun.
      rewrite (prun_cons progs NOW DFLT CB xstate xop xres xp_step (@g_todo K item) with_todo (translate env0) (back env0) xsup), E4. cbn [fst snd].
      rewrite (prun_cons progs NOW DFLT CB xstate xop xres xp_step (@g_todo K item) with_todo (translate env0) (back env0) xsup), E5.
      cbn [CX_product.prun fst snd]. rewrite !cproj_app, !mproj_app, A, M. cbn [cproj mproj app].
      split; [lia|]. split; [reflexivity|]. split; [eexists; reflexivity|]. split; [left; exists i; auto|].
      split; [cbn [pset p_thr]; apply upd_same|]. split.
      + unfold p4. cbn [pset p_todo]. exact C.
      + intros u Hu. unfold p4. cbn [pset p_thr]. rewrite !upd_other by exact Hu. apply D. exact Hu.
    - (* nothing is visible: the return *)
      cbn [X_read.res_of back] in B. cbn [CacheModel.bind] in B.
      assert (E5 : pstepX p3 t [] = Some (pset xstate p3 t QIdle, [OC (HRes t (CVal zero false))], [])).
      { unfold CX_product.pstep. rewrite B. reflexivity. }
      exists (j + 1), (CVal zero false).
      unfold CX_mapof.cxrun. rewrite repeat_app.
      rewrite (prun_app progs NOW DFLT CB xstate xop xres xp_step (@g_todo K item) with_todo (translate env0) (back env0) xsup).
      fold cxrun. rewrite E3. cbn [repeat].
      unfold CX_mapof.cxrun.
      rewrite (prun_cons progs NOW DFLT CB xstate xop xres xp_step (@g_todo K item) with_todo (translate env0) (back env0) xsup), E5.
      cbn [CX_product.prun fst snd]. rewrite !cproj_app, !mproj_app, A, M. cbn [cproj mproj app].
      split; [lia|]. split; [reflexivity|]. split; [eexists; reflexivity|]. split.
      + right. split; [|reflexivity]. intros i Hv. apply Hvis in Hv. discriminate Hv.
      + split; [cbn [pset p_thr]; apply upd_same|]. split; [cbn [pset p_todo]; exact C|].
        intros u Hu. cbn [pset p_thr]. rewrite upd_other by exact Hu. apply D. exact Hu.
  Qed.

End GetOverXMachine.

(* ---------------- the statement for CacheModel's text ---------------- *)
Section FinalGet.
  Context {K V : Type}.
  Variable eqd : forall a b : K, {a = b} + {a <> b}.
  Variable hash : K -> N -> N.
  Variable idx : N -> nat -> nat.
  Variable tag : N -> N.
  Variable nslots : nat.
  Variable seeds : nat -> N.
  Variable grow_needed shrink_policy : nat -> Z -> bool.
  Variable probe : list (option N) -> N -> list nat.
  Variable nstripes : nat -> nat.
  Variable minlen : nat.
  Variable grow_only : bool.
  Variable zero : V.
  Variables NOW DFLT : Z.
  Variable CB : cbid.

  Notation runG := (cxrun eqd hash idx tag nslots seeds grow_needed shrink_policy probe nstripes minlen grow_only (prog_cache eqd zero) NOW DFLT CB).

  Theorem cache_get_never_waits_over_xmachine :
    xhyps4 idx nstripes minlen nslots probe ->
    forall len0 (todo : nat -> list (cop K V)) sched t k rest, 0 < len0 ->
    let p := fst (fst (runG (cxinit nslots seeds nstripes len0 todo) sched)) in
    let tb := tab_at nslots nstripes (p_x p) (g_cur (p_x p)) in
    p_thr p t = QIdle -> p_todo p t = OGet k :: rest ->
    (forall i, X_lin.vis hash idx tb k i -> expiredWithNow NOW i = false) ->
    exists j c,
      let r := runG p (repeat (t, []) j) in
      j <= X_c16.rd_bound hash idx tag nslots probe nstripes (p_x p) (PL_Table k LPlain) + 5
      /\ cproj (snd (fst r)) = [HInv t (OGet k); HRes t c]
      /\ (exists mr, mproj (snd (fst r)) = [HInv t (CLoad k); HRes t mr])
      /\ get_answer hash idx NOW zero tb k c
      /\ p_thr (fst (fst r)) t = QIdle /\ p_todo (fst (fst r)) t = rest
      /\ (forall u, u <> t -> p_thr (fst (fst r)) u = p_thr p u).
  Proof.
    intros Hx len0 todo sched t k rest Hlen.
    apply (get_never_waits eqd hash idx tag nslots seeds grow_needed shrink_policy probe nstripes minlen grow_only len0
             (prog_cache eqd zero) NOW DFLT CB Hx Hlen zero (fun k0 => eq_refl)).
  Qed.

End FinalGet.
Print Assumptions cache_get_never_waits_over_xmachine.
