(* X_atomic.v -- every write of XMachine (MapOf) takes effect atomically at its
   linearization store, computing on the value that is current at that moment (C04, C05):
   in every reachable state, a writer standing before its linearization store on the
   CURRENT table has recorded as "old" exactly what the abstract map holds for its key
   (the value found under the bucket lock has not changed since: the chain is its own),
   and the update it is about to publish is the user function applied to that value.
   With C04_abs_step (the store changes the abstract map by exactly that update and
   nothing else) this is the per-call content of linearizability for writers; what is
   left for the history-level statement is the placement of readers inside their
   intervals and of writers overtaken by a Clear (see props/C04.v). *)
From CacheV Require Import Base SpecMap XMachine.
From CacheV.proofs Require Import X_basic X_inv X_c13 X_own X_chain X_c04 X_lin X_resize.
From Coq Require Import NArith.
Local Open Scope nat_scope.

Section Atomic.
  Context {K V : Type}.
  Variable eqd : forall a b : K, {a = b} + {a <> b}.
  Variable hash : K -> N -> N.
  Variable idx : N -> nat -> nat.
  Variable tag : N -> N.
  Variable nslots : nat.
  Variable seeds : nat -> N.
  Variable grow_needed : nat -> Z -> bool.
  Variable shrink_policy : nat -> Z -> bool.
  Variable probe : list (option N) -> N -> list nat.
  Variable nstripes : nat -> nat.
  Variable minlen : nat.
  Variable grow_only : bool.

  Notation xstate := (@xstate K V).
  Notation pc := (@pc K V).
  Notation tab_at := (@tab_at K V nslots nstripes).
  Notation step_pc := (@step_pc K V eqd hash idx tag nslots seeds grow_needed shrink_policy probe nstripes minlen grow_only).
  Notation xstep := (@xstep K V eqd hash idx tag nslots seeds grow_needed shrink_policy probe nstripes minlen grow_only).
  Notation xrun := (@xrun K V eqd hash idx tag nslots seeds grow_needed shrink_policy probe nstripes minlen grow_only).
  Notation XInv := (@X_inv.XInv K V hash idx nslots nstripes).
  Notation XC := (@X_c04.XC K V hash idx tag nslots nstripes).
  Notation abs := (@X_resize.abs K V hash idx nslots nstripes).

  (* the value a deciding step found for the key, and the context of the call *)
  Definition pc_old (p : pc) : option V :=
    match p with
    | PW_D1 _ _ _ old | PW_D2 _ _ _ old | PW_U1 _ _ _ old _ => Some old
    | _ => None
    end.

  Definition pc_new (p : pc) : option V :=
    match p with
    | PW_U1 _ _ _ _ nv | PW_I1 _ _ _ nv | PW_I2 _ _ _ nv | PW_N1 _ _ nv => Some nv
    | _ => None
    end.

  (* the decision recorded in a writer's program counter is the user function applied to the value found *)
  Fixpoint pcdec (p : pc) : Prop :=
    match p with
    | PW_D1 cx _ _ _ | PW_D2 cx _ _ _ | PW_U1 cx _ _ _ _ | PW_I1 cx _ _ _ | PW_I2 cx _ _ _ | PW_N1 cx _ _ =>
        cx_f cx (pc_old p) = pc_new p
    | PW_Unlock _ _ a | PW_Add _ _ _ a => pcdec a
    | _ => True
    end.

  Definition DEC (s : xstate) : Prop := forall t, pcdec (g_pc s t).

  Lemma pcdec_wake (p : pc) : pcdec p -> pcdec (wake p).
  Proof. destruct p; cbn; auto. Qed.

  Lemma some_fst9 {A B} (g : A * B) a b : Some g = Some (a, b) -> a = fst g.
  Proof. intros H. inversion H. reflexivity. Qed.
  Lemma goto_state9 (s : xstate) t p ls : fst (goto s t p ls) = set_pc s t (norm p).
  Proof. destruct p; reflexivity. Qed.

  Ltac step_cases9 Hs :=
    cbn [XMachine.step_pc] in Hs; cbv zeta in Hs;
    repeat match type of Hs with
           | context [match ?x with _ => _ end] => destruct x eqn:?
           end;
    try discriminate; apply some_fst9 in Hs; subst; rewrite ?goto_state9; cbn [fst].

  Lemma pcdec_norm (p : pc) : pcdec p -> pcdec (norm p).
  Proof. destruct p; cbn; auto. Qed.

  Lemma DEC_step_pc s t p s' ls : valid hash idx nslots nstripes s p -> DEC s -> g_pc s t = p ->
    step_pc s t p = Some (s', ls) -> DEC s'.
  Proof.
    intros Hv HD Hp Hs u.
    destruct (Nat.eq_dec u t) as [->|Hne].
    - specialize (HD t). rewrite Hp in HD.
      destruct p; step_cases9 Hs; cbn [set_pc g_pc]; (destruct (Nat.eq_dec t t) as [_|Hc]; [|exfalso; apply Hc; reflexivity]);
        try exact I; try (apply pcdec_norm; exact I); cbn [norm pcdec pc_old pc_new] in *; try assumption; try exact I;
        try (apply pcdec_norm; first [exact HD | destruct kt; exact I]).
    - specialize (HD u).
      destruct (step_misc eqd hash idx tag nslots seeds grow_needed shrink_policy probe nstripes minlen grow_only s t p s' ls Hs Hv) as [_ [_ [_ Ho]]].
      destruct (Ho u Hne) as [E|E]; rewrite E; [exact HD | apply pcdec_wake; exact HD].
  Qed.

  Hypothesis Hidx : forall h len, 0 < len -> idx h len < len.
  Hypothesis Hstripes : forall len, 0 < nstripes len.
  Hypothesis Hminlen : 0 < minlen.
  Hypothesis Hnslots : 0 < nslots.
  Hypothesis Hprobe_sound : forall tags tg i, In i (probe tags tg) -> i < length tags /\ nth i tags None <> None.
  Hypothesis Hprobe_complete : forall tags tg i, i < length tags -> nth i tags None = Some tg -> In i (probe tags tg).

  Lemma DEC_xstep s t s' ls : XInv s -> DEC s -> xstep s t = Some (s', ls) -> DEC s'.
  Proof.
    intros HI HD E. unfold XMachine.xstep in E.
    destruct (g_pc s t) eqn:Hp;
      try (eapply DEC_step_pc; [ | exact HD | exact Hp | exact E]; rewrite <- Hp; apply (xi_valid _ _ _ _ s HI t)).
    destruct (g_todo s t) as [|o rest]; [discriminate|].
    set (s1 := {| g_tabs := g_tabs s; g_cur := g_cur s; g_resizing := g_resizing s; g_rmu := g_rmu s;
                  g_growths := g_growths s; g_shrinks := g_shrinks s;
                  g_pc := fun t' => if Nat.eq_dec t' t then start_pc o else g_pc s t';
                  g_todo := fun t' => if Nat.eq_dec t' t then rest else g_todo s t' |}) in *.
    assert (HD1 : DEC s1).
    { intros u. unfold s1. cbn [g_pc]. destruct (Nat.eq_dec u t); [|apply HD]. destruct o; cbn; auto; destruct lie; exact I. }
    assert (Epc : g_pc s1 t = start_pc o) by (unfold s1; cbn [g_pc]; destruct (Nat.eq_dec t t); congruence).
    assert (Hv1 : valid hash idx nslots nstripes s1 (start_pc o)) by (destruct o; cbn; auto; try (destruct lie; cbn; auto)).
    destruct (step_pc s1 t (start_pc o)) as [[s2 ls1]|] eqn:E2.
    - inversion E; subst s2 ls. eapply DEC_step_pc; [exact Hv1 | exact HD1 | exact Epc | exact E2].
    - inversion E; subst s' ls. exact HD1.
  Qed.

  Lemma DEC_xrun sched : forall s, XInv s -> DEC s -> DEC (fst (xrun s sched)).
  Proof.
    induction sched as [|t rest IH]; intros s HI HD; cbn [XMachine.xrun]; [exact HD|].
    destruct (xstep s t) as [[s' ls]|] eqn:E.
    - pose proof (xstep_inv eqd hash idx tag nslots seeds grow_needed shrink_policy probe nstripes minlen grow_only Hidx Hstripes Hminlen s t s' ls HI E) as HI'.
      specialize (IH s' HI' (DEC_xstep s t s' ls HI HD E)).
      destruct (XMachine.xrun _ _ _ _ _ _ _ _ _ _ _ _ s' rest) as [s'' ls']. exact IH.
    - apply IH; assumption.
  Qed.

  (* what the abstract map holds for k: the value o, or nothing *)
  Definition abs_is (s : xstate) (k : K) (o : option V) : Prop :=
    match o with Some v => abs s k v | None => forall v, ~ abs s k v end.

  Notation XT := (@X_own.XT K V).
  Notation vis := (@X_lin.vis K V hash idx).

  (* a writer before its linearization store on the current table: the value it found is the current one *)
  Lemma lin_old_current s t p k nw : XInv s -> XT s -> XC s -> g_pc s t = p ->
    lin_effect p (g_cur s) = Some (k, nw) -> abs_is s k (pc_old p) /\ pc_new p = nw.
  Proof.
    intros HI HT HC Hp Hl. pose proof (xc_pc _ _ _ _ _ s HC t) as Hf. rewrite Hp in Hf.
    unfold abs_is, X_resize.abs.
    destruct p; cbn [lin_effect] in Hl; try discriminate;
      (destruct (Nat.eq_dec tab (g_cur s)) as [->|]; [|discriminate]); inversion Hl; subst; clear Hl;
      cbn [X_c04.pcfact pc_old pc_new] in *; unfold X_c04.chain, X_c04.hkey in Hf; (split; [|reflexivity]).
    - (* D1 *) destruct Hf as [F1 [F2 F3]]. exists pos. auto.
    - (* U1 *) destruct Hf as [F1 [F2 F3]]. exists pos. auto.
    - (* I2 *) destruct Hf as [_ [_ [_ F4]]]. intros v [pos' [P1 [_ P3]]]. apply F4. exists pos', v. auto.
    - (* N1 *) intros v [pos' [P1 [_ P3]]]. apply Hf. exists pos', v. auto.
  Qed.

  (* C04 / C05: every reachable state, every writer standing before its linearization store on the
     current table: the abstract map holds for its key exactly the value the writer found under the
     lock, the update it is about to publish is the user function applied to that value, and the
     store changes the abstract map by exactly that update *)
  Theorem writer_atomic len0 todo sched t k nw s' ls : 0 < len0 ->
    let s := fst (xrun (xinit nslots seeds nstripes len0 todo) sched) in
    lin_effect (g_pc s t) (g_cur s) = Some (k, nw) -> xstep s t = Some (s', ls) ->
    exists cx old, cx_k cx = k /\ abs_is s k old /\ cx_f cx old = nw
                   /\ (forall k' v, abs s' k' v <-> upd_rel (abs s) (Some (k, nw)) k' v).
  Proof.
    intros Hl s Hle E.
    assert (H5 : XI5 hash idx tag nslots nstripes s) by apply (reachable_inv5 eqd hash idx tag nslots seeds grow_needed shrink_policy probe nstripes minlen grow_only
               Hidx Hstripes Hminlen Hnslots Hprobe_sound Hprobe_complete len0 todo sched Hl).
    pose proof H5 as [[HI [_ [HT HC]]] _].
    assert (HD : DEC s).
    { apply DEC_xrun; [eapply xinit_inv; eassumption | intros u; exact I]. }
    destruct (lin_old_current s t (g_pc s t) k nw HI HT HC eq_refl Hle) as [A1 A2].
    pose proof (abs_step eqd hash idx tag nslots seeds grow_needed shrink_policy probe nstripes minlen grow_only
                  Hidx Hminlen Hnslots s t s' ls H5 E) as Hab.
    specialize (HD t).
    destruct (g_pc s t) eqn:Hp; cbn [lin_effect] in Hle; try discriminate;
      (destruct (Nat.eq_dec tab (g_cur s)) as [Et|]; [|discriminate]); inversion Hle; subst k nw;
      cbn [pcdec pc_old pc_new] in *; exists cx; eexists; (split; [reflexivity|]); (split; [exact A1|]); (split; [exact HD|]);
      intros k' v; rewrite (Hab k' v); cbn [lin_effect]; (destruct (Nat.eq_dec tab (g_cur s)); [reflexivity | contradiction]).
  Qed.
End Atomic.

(* ---------------- the statement of props/C04.v ---------------- *)
Section Final.
  Context {K V : Type}.
  Variable eqd : forall a b : K, {a = b} + {a <> b}.
  Variable hash : K -> N -> N.
  Variable idx : N -> nat -> nat.
  Variable tag : N -> N.
  Variable nslots : nat.
  Variable seeds : nat -> N.
  Variable grow_needed shrink_policy : nat -> Z -> bool.
  Variable probe : list (option N) -> N -> list nat.
  Variable nstripes : nat -> nat.
  Variable minlen : nat.
  Variable grow_only : bool.

  Notation xrun := (@xrun K V eqd hash idx tag nslots seeds grow_needed shrink_policy probe nstripes minlen grow_only).
  Notation xstep := (@xstep K V eqd hash idx tag nslots seeds grow_needed shrink_policy probe nstripes minlen grow_only).
  Notation abs := (@X_resize.abs K V hash idx nslots nstripes).

  Lemma writer_atomic_proof :
    xhyps4 idx nstripes minlen nslots probe -> forall len0 todo sched t k nw s' ls, 0 < len0 ->
    let s := fst (xrun (xinit nslots seeds nstripes len0 todo) sched) in
    lin_effect (g_pc s t) (g_cur s) = Some (k, nw) -> xstep s t = Some (s', ls) ->
    exists cx old, cx_k cx = k /\ abs_is hash idx nslots nstripes s k old /\ cx_f cx old = nw
                   /\ (forall k' v, abs s' k' v <-> upd_rel (abs s) (Some (k, nw)) k' v).
  Proof.
    intros [[H1 [H2 H3]] [H4 [H5 H6]]] len0 todo sched t k nw s' ls Hl.
    apply (writer_atomic eqd hash idx tag nslots seeds grow_needed shrink_policy probe nstripes minlen grow_only H1 H2 H3 H4 H5 H6 len0 todo sched t k nw s' ls Hl).
  Qed.
End Final.
