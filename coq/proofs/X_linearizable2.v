(* X_linearizable2.v -- the MapOf theorem with Range and Size in the todo lists.

   Every run of XMachine -- ANY todo lists: Load, Compute family, Clear, Range, Size -- is
   linearizable w.r.t. an ordinary map once the Range / Size calls are dropped from the
   history: [xmachine_linearizable2_proof], history = [hkeep (fun _ => false) (xhist labels)]
   = the invocations of Load / Compute / Clear ([okop]) and the responses to them.  (XMachine's
   Range has no callbacks; what it visits are labels [XVisit], not part of the history.)
   Range takes bucket locks and Size only loads: neither changes what a reader can see, and
   the threads running them are idle as far as the instrumented history is concerned.

   The proof is X_linearizable.v's, with one more clause in the status / program counter
   relation ([TOK2]: a thread that is idle in the history may stand inside Range / Size,
   [rgsz]), one more kind of invocation ([K_invoke_rs]) and the steps of Range / Size
   (silent: [K_silent]).  The stepwise statement speaks of [hstep2 s u ls] (the events of the
   step unless the stepping thread is in / enters a dropped call); [Consistency] shows that
   this is the filter [hkeep] of the label history (no invariant needed: [kept_step],
   [rgsz_step]: the program counters of kept calls and of dropped calls are closed under
   steps). *)
From CacheV Require Import Base SpecMap XMachine Lin.
From CacheV.proofs Require Import X_basic X_inv X_c13 X_own X_chain X_c04 X_lin X_resize X_range X_loadhit X_atomic X_stale X_linpoints.
From Coq Require Import NArith.
Local Open Scope nat_scope.


(* ---------------- the program counters of dropped calls and of kept calls ---------------- *)

Section Classes.
  Context {K V : Type}.
  Variable eqd : forall a b : K, {a = b} + {a <> b}.
  Variable hash : K -> N -> N.
  Variable idx : N -> nat -> nat.
  Variable tag : N -> N.
  Variable nslots : nat.
  Variable seeds : nat -> N.
  Variable grow_needed shrink_policy : nat -> Z -> bool.
  Variable probe : list (option N) -> N -> list nat.
  Variable nstripes : nat -> nat.
  Variable minlen : nat.
  Variable grow_only : bool.
  Notation xstate := (@xstate K V).
  Notation xop := (@xop K V).
  Notation pc := (@pc K V).
  Notation xlabel := (@xlabel K V).
  Notation step_pc := (@step_pc K V eqd hash idx tag nslots seeds grow_needed shrink_policy probe nstripes minlen grow_only).
  Notation xstep := (@xstep K V eqd hash idx tag nslots seeds grow_needed shrink_policy probe nstripes minlen grow_only).

  Lemma some_pair {A B} (g : A * B) a b : Some g = Some (a, b) -> a = fst g /\ b = snd g.
  Proof. intros H. inversion H. auto. Qed.

  Lemma goto_hist' (s : xstate) t (q : pc) l :
    X_linpoints.xhist (snd (goto s t q l)) = X_linpoints.xhist l ++ match q with PRet r => [HRes t r] | _ => [] end.
  Proof. destruct q; cbn [goto snd]; rewrite ?app_nil_r; try reflexivity. rewrite xhist_app. reflexivity. Qed.

  Lemma goto_pc_other (s : xstate) t (q : pc) l u : u <> t -> g_pc (fst (goto s t q l)) u = g_pc s u.
  Proof. intros Hn. destruct q; cbn [goto fst set_pc g_pc]; destruct (Nat.eq_dec u t); congruence. Qed.

  Lemma fnev_hist' t (cx : @cctx K V) : X_linpoints.xhist (fnev_of t cx) = [].
  Proof. unfold fnev_of. destruct (cx_ev cx); reflexivity. Qed.

  Lemma visit_hist' t (snap : list (K * V)) : X_linpoints.xhist (map (fun kv => XVisit t (fst kv) (snd kv)) snap) = [].
  Proof. induction snap; cbn; auto. Qed.

  Definition rgsz (p : pc) : bool :=
    match p with PG_Table | PG_Lock _ _ | PG_Unlock _ _ _ | PS_Table | PS_Sum _ _ _ => true | _ => false end.

  Definition isSome {X} (o : option X) : bool := match o with Some _ => true | None => false end.
  Definition kept (p : pc) : bool := isSome (pend p) || isSome (rdk p) || isSome (wcx p) || clr p.
  Definition keptx (p : pc) : bool := kept p || match p with PL_Table _ _ => true | _ => false end.
  Notation xhist := (@X_linpoints.xhist K V).

  Lemma goto_pc_same (s : xstate) t (q : pc) l : g_pc (fst (goto s t q l)) t = match q with PRet _ => PIdle | _ => q end.
  Proof. destruct q; cbn [goto fst set_pc g_pc]; destruct (Nat.eq_dec t t); congruence. Qed.

  Ltac scases Hs :=
    cbn [XMachine.step_pc] in Hs; cbv zeta in Hs;
    repeat match type of Hs with
           | context [match ?x with _ => _ end] => destruct x eqn:?
           end;
    try discriminate; apply some_pair in Hs; destruct Hs as [? ?]; subst.

  Definition stepout (t : nat) (ok : pc -> bool) (s' : xstate) (ls : list xlabel) : Prop :=
    (ok (g_pc s' t) = true /\ xhist ls = []) \/ (g_pc s' t = PIdle /\ exists r, xhist ls = [HRes t r]).

  Lemma keptx_unlock tab b (q : pc) : keptx (PW_Unlock tab b q) = true -> kept q = true.
  Proof. unfold keptx, kept. cbn [pend rdk wcx clr]. destruct (pend q), (rdk q), (wcx q), (clr q); cbn; intros; try discriminate; reflexivity. Qed.
  Lemma keptx_add tab b d (q : pc) : keptx (PW_Add tab b d q) = true -> kept q = true.
  Proof. unfold keptx, kept. cbn [pend rdk wcx clr]. destruct (pend q), (rdk q), (wcx q), (clr q); cbn; intros; try discriminate; reflexivity. Qed.

  Lemma keptx_step s t p s' ls : step_pc s t p = Some (s', ls) -> keptx p = true -> stepout t keptx s' ls.
  Proof.
    unfold stepout. intros Hs Hk. destruct p; try discriminate Hk; scases Hs; rewrite ?goto_pc_same, ?goto_hist';
      cbn [X_linpoints.xhist app]; rewrite ?xhist_app, ?fnev_hist', ?visit_hist'; cbn [X_linpoints.xhist app].
    all: try (left; split; reflexivity).
    all: try (right; split; [reflexivity | eexists; reflexivity]).
    all: try (match goal with q : pc |- _ =>
                assert (Hq : kept q = true) by (first [exact (keptx_unlock _ _ _ Hk) | exact (keptx_add _ _ _ _ Hk)]);
                destruct q; first [right; split; [reflexivity | eexists; reflexivity]
                                  | left; split; [unfold keptx; rewrite Hq; reflexivity | reflexivity]] end).
    all: try (match goal with kt : cont |- _ => destruct kt as [cx0|r0]; [|destruct r0] end;
              try (match goal with hn : option hint |- _ => destruct hn as [hh|]; [destruct hh|] end);
              try (match goal with hn : hint |- _ => destruct hn end);
              cbn in Hk |- *; first [left; split; reflexivity | right; split; [reflexivity | eexists; reflexivity] | discriminate Hk]).
  Qed.

  Lemma rgsz_step s t p s' ls : step_pc s t p = Some (s', ls) -> rgsz p = true -> stepout t rgsz s' ls.
  Proof.
    unfold stepout. intros Hs Hk. destruct p; try discriminate Hk; scases Hs; rewrite ?goto_pc_same, ?goto_hist';
      cbn [X_linpoints.xhist app]; rewrite ?xhist_app, ?fnev_hist', ?visit_hist'; cbn [X_linpoints.xhist app].
    all: try (left; split; reflexivity).
    all: try (right; split; [reflexivity | eexists; reflexivity]).
  Qed.

  Lemma keptx_rgsz (p : pc) : keptx p = true -> rgsz p = false.
  Proof. destruct p; cbn; auto; discriminate. Qed.

  Lemma rgsz_wake (p : pc) : rgsz (wake p) = rgsz p. Proof. destruct p; reflexivity. Qed.
  Lemma keptx_wake (p : pc) : keptx (wake p) = keptx p. Proof. destruct p; reflexivity. Qed.

  (* a step changes another thread's program counter at most by waking it up *)
  Lemma step_pc_others s t p s' ls : step_pc s t p = Some (s', ls) ->
    forall u, u <> t -> g_pc s' u = g_pc s u \/ g_pc s' u = wake (g_pc s u).
  Proof.
    intros Hs u Hn. destruct p; scases Hs; rewrite ?goto_pc_other by exact Hn;
      cbn [g_pc set_tab set_flags push_tab set_pc fst]; auto.
    all: try (destruct (Nat.eq_dec u t); [contradiction | auto]).
  Qed.

  Definition xinvoke (s : xstate) (t : nat) (o : xop) (rest : list xop) : xstate :=
    {| g_tabs := g_tabs s; g_cur := g_cur s; g_resizing := g_resizing s; g_rmu := g_rmu s;
       g_growths := g_growths s; g_shrinks := g_shrinks s;
       g_pc := fun t' => if Nat.eq_dec t' t then start_pc o else g_pc s t';
       g_todo := fun t' => if Nat.eq_dec t' t then rest else g_todo s t' |}.

  Lemma xstep_nonidle s t : g_pc s t <> PIdle -> xstep s t = step_pc s t (g_pc s t).
  Proof. intros Hn. unfold XMachine.xstep. destruct (g_pc s t); try reflexivity. exfalso; apply Hn; reflexivity. Qed.

  Lemma xstep_idle s t : g_pc s t = PIdle ->
    xstep s t = match g_todo s t with
                | [] => None
                | o :: rest =>
                    match step_pc (xinvoke s t o rest) t (start_pc o) with
                    | Some (s2, ls) => Some (s2, XMachine.XInv t o :: ls)
                    | None => Some (xinvoke s t o rest, [XMachine.XInv t o])
                    end
                end.
  Proof. intros Hp. unfold XMachine.xstep. rewrite Hp. reflexivity. Qed.

  Lemma start_pc_blocks_not (s1 : xstate) t o : step_pc s1 t (start_pc o) <> None.
  Proof. destruct o; cbn; try discriminate. destruct lie; cbn; discriminate. Qed.

  Definition okopb (o : xop) : bool := match o with XLoad _ | XCompute _ _ _ _ _ | XClear => true | _ => false end.
  Lemma okopb_ok o : okopb o = true <-> okop o.
  Proof. destruct o; cbn; split; auto; try discriminate; contradiction. Qed.

  Lemma start_class o : if okopb o then keptx (start_pc o) = true else rgsz (start_pc o) = true.
  Proof. destruct o; cbn; try reflexivity. destruct lie; reflexivity. Qed.

End Classes.

Section LinInv.
  Context {K V : Type}.
  Variable eqd : forall a b : K, {a = b} + {a <> b}.
  Variable hash : K -> N -> N.
  Variable idx : N -> nat -> nat.
  Variable tag : N -> N.
  Variable nslots : nat.
  Variable seeds : nat -> N.
  Variable grow_needed : nat -> Z -> bool.
  Variable shrink_policy : nat -> Z -> bool.
  Variable probe : list (option N) -> N -> list nat.
  Variable nstripes : nat -> nat.
  Variable minlen : nat.
  Variable grow_only : bool.

  Hypothesis Hidx : forall h len, 0 < len -> idx h len < len.
  Hypothesis Hstripes : forall len, 0 < nstripes len.
  Hypothesis Hminlen : 0 < minlen.
  Hypothesis Hnslots : 0 < nslots.
  Hypothesis Hprobe_sound : forall tags tg i, In i (probe tags tg) -> i < length tags /\ nth i tags None <> None.
  Hypothesis Hprobe_complete : forall tags tg i, i < length tags -> nth i tags None = Some tg -> In i (probe tags tg).

  Notation xstate := (@xstate K V).
  Notation pc := (@pc K V).
  Notation xop := (@xop K V).
  Notation xres := (@xres K V).
  Notation xlabel := (@xlabel K V).
  Notation cctx := (@cctx K V).
  Notation lcont := (@lcont K V).
  Notation iev := (Lin.iev xop xres).
  Notation tstat := (Lin.tstat xop xres).
  Notation ghost := (@ghost K V).
  Notation tab_at := (@tab_at K V nslots nstripes).
  Notation step_pc := (@step_pc K V eqd hash idx tag nslots seeds grow_needed shrink_policy probe nstripes minlen grow_only).
  Notation xstep := (@xstep K V eqd hash idx tag nslots seeds grow_needed shrink_policy probe nstripes minlen grow_only).
  Notation xrun := (@xrun K V eqd hash idx tag nslots seeds grow_needed shrink_policy probe nstripes minlen grow_only).
  Notation XInv := (@X_inv.XInv K V hash idx nslots nstripes).
  Notation XT := (@X_own.XT K V).
  Notation XC := (@X_c04.XC K V hash idx tag nslots nstripes).
  Notation XI5 := (@X_resize.XI5 K V hash idx tag nslots nstripes).
  Notation SI := (@X_stale.SI K V hash idx tag nslots nstripes).
  Notation vis := (@X_lin.vis K V hash idx).
  Notation abs := (@X_resize.abs K V hash idx nslots nstripes).
  Notation wtab := (@X_c04.wtab K V).
  Notation valid := (@valid K V hash idx nslots nstripes).
  Notation inlookup := (@X_loadhit.inlookup K V hash nslots nstripes).
  Notation JJ := (@X_loadhit.JJ K V idx nslots nstripes).
  Notation JM := (@X_loadhit.JM K V hash idx nslots nstripes).
  Notation stays := (@X_loadhit.stays K V hash idx nslots nstripes).
  Notation kpos := (@X_loadhit.kpos K V hash idx nslots nstripes).
  Notation hit := (@X_loadhit.hit K V).
  Notation agree := (@X_linpoints.agree K V).
  Notation can_ret := (@X_linpoints.can_ret K V eqd).
  Notation gext := (@X_linpoints.gext K V eqd).
  Notation gSE := (@X_linpoints.gSE K V eqd).
  Notation gSS := (@X_linpoints.gSS K V eqd).
  Notation lrun := (@X_linpoints.lrun K V eqd).
  Notation lok := (@X_linpoints.lok K V eqd).
  Notation spec_next := (@X_linpoints.spec_next K V eqd).
  Notation xspec := (@X_linpoints.xspec K V eqd).
  Notation nooplin := (@X_linpoints.nooplin K V eqd hash idx tag nslots probe nstripes).
  Notation xhist := (@X_linpoints.xhist K V).
  Notation GOK := (@X_linpoints.GOK K V eqd).
  Notation stable := (@X_linpoints.stable K V eqd).

  Ltac hy := first [exact Hidx | exact Hstripes | exact Hminlen | exact Hnslots | exact Hprobe_sound | exact Hprobe_complete].

  (* ---------------- Range / Size: dropped calls ---------------- *)

  Definition okop2 (o : xop) : Prop := True.
  Lemma all_ok2 (l : list xop) : Forall okop2 l.
  Proof. induction l; constructor; [exact I | assumption]. Qed.

  (* the status of a thread in the instrumented history against its program counter: a thread
     that runs Range / Size is idle in the history *)
  Definition TOK2 (st : tstat) (p : pc) : Prop :=
    match st with
    | TIdle => p = PIdle \/ p = PStart \/ rgsz p = true
    | _ => TOK st p
    end.

  Lemma TOK2_wake st (p : pc) : TOK2 st p -> TOK2 st (wake p).
  Proof.
    destruct st as [|o|o r]; cbn [TOK2].
    - intros [->|[->|H]]; auto. right; right. rewrite rgsz_wake. exact H.
    - apply TOK_wake.
    - apply TOK_wake.
  Qed.

  Lemma rgsz_facts (p : pc) : rgsz p = true ->
    pend p = None /\ rdk p = None /\ wcx p = None /\ clr p = false /\ lres p = None /\ ontab p = None
    /\ p <> PIdle /\ (forall kt new, p <> PR_Publish kt new).
  Proof. destruct p; cbn; try discriminate; intros _; repeat split; try reflexivity; try discriminate; intros; discriminate. Qed.

  (* ---------------- the invariant ---------------- *)

  Record LI (s : xstate) (G : ghost) : Prop := {
    li_si : SI s;
    li_dec : DEC s;
    li_todo : forall t, Forall okop2 (g_todo s t);
    li_empty : gc G (g_cur s) = [] /\ forall j, g_cur s < j -> gb G j = [] /\ gc G j = [];
    li_lok : lok aempty (gI G (g_cur s));
    li_agree : forall j, j <= g_cur s -> agree (gSE G j) (vis (tab_at s j));
    li_close : forall j, j < g_cur s ->
                 (gc G j = [] /\ forall u, wtab (g_pc s u) <> Some j) \/ exists c, gc G j = [ILin c XClear XRUnit];
    li_tp : forall t, tproto t TIdle (gI G (g_cur s)) (gst G t);
    li_tok : forall t, TOK2 (gst G t) (g_pc s t);
    li_pos : forall t j, ontab (g_pc s t) = Some j ->
               no_ev t (gc G j) /\ forall j', j < j' <= g_cur s -> no_ev t (gseg G j');
    li_rd : forall t k lc tab h o, rdk (g_pc s t) = Some (k, lc, tab, h) -> gst G t = TInvoked o ->
              inlookup t k lc tab s
              /\ (forall v, JJ t k tab v (can_ret G (g_cur s) t o (hitres lc v)) s)
              /\ (lc = LPlain -> can_ret G (g_cur s) t o (XRVal None false) \/ JM t k tab s);
  }.

  (* ---------------- small facts ---------------- *)

  Lemma tok_rd st (p : pc) k lc tab h : TOK2 st p -> rdk p = Some (k, lc, tab, h) -> exists o, st = TInvoked o /\ rd_op o k lc.
  Proof.
    intros Ht Hr. destruct st as [|o|o r]; cbn [TOK2 X_linpoints.TOK] in Ht.
    - destruct Ht as [-> | [-> | Ht]]; try discriminate Hr. destruct (rgsz_facts _ Ht) as [_ [X _]]. rewrite X in Hr. discriminate Hr.
    - exists o. split; [reflexivity|]. destruct Ht as [_ Ht]. destruct o; try contradiction.
      + destruct Ht as [tab' [h' E]]. rewrite E in Hr. inversion Hr; subst. reflexivity.
      + destruct Ht as [[Hl [tab' [h' E]]]|[E _]]; [|rewrite E in Hr; discriminate Hr].
        rewrite E in Hr. inversion Hr; subst. cbn. auto.
      + destruct p; cbn in Ht, Hr; discriminate.
    - destruct Ht as [_ Ht]. destruct p; cbn in Ht, Hr; discriminate.
  Qed.

  Lemma inlookup_rdk s t k lc tab h : rdk (g_pc s t) = Some (k, lc, tab, h) -> tab <= g_cur s ->
    h = hash k (x_seed (tab_at s tab)) -> inlookup t k lc tab s.
  Proof.
    intros Hr Hc Hh. unfold X_loadhit.inlookup. split; [exact Hc|].
    destruct (g_pc s t); cbn [rdk] in Hr; try discriminate Hr; inversion Hr; subst; auto.
  Qed.

  Lemma rdk_inlookup s t k lc tab : inlookup t k lc tab s ->
    tab <= g_cur s /\ rdk (g_pc s t) = Some (k, lc, tab, hash k (x_seed (tab_at s tab))).
  Proof.
    intros [Hc Hin]. split; [exact Hc|].
    destruct (g_pc s t); try contradiction; destruct Hin as [-> [-> [-> ->]]]; reflexivity.
  Qed.

  Lemma JJ_mono t k tab v (W W' : Prop) s : (W -> W') -> JJ t k tab v W s -> JJ t k tab v W' s.
  Proof.
    intros HW HJ. unfold X_loadhit.JJ in *. destruct (g_pc s t); auto.
    intros i Hi He. destruct (HJ i Hi He) as [H|H]; [left; exact H | right; apply HW; exact H].
  Qed.

  Lemma kpos_vis s k tab : (exists q, kpos k tab s q) <-> exists v, vis (tab_at s tab) k v.
  Proof.
    unfold X_loadhit.kpos, X_lin.vis, X_chain.cvis, X_chain.tag_at, X_chain.ent_at. split.
    - intros [q [A [B [v C]]]]. exists v, q. auto.
    - intros [v [q [A [B C]]]]. exists q. split; [exact A|]. split; [exact B|]. exists v. exact C.
  Qed.

  Lemma ontab_le s t j : XT s -> ontab (g_pc s t) = Some j -> j <= g_cur s.
  Proof.
    intros HT Ho. pose proof (xt_le s HT t) as Hle. unfold X_linpoints.ontab in Ho.
    destruct (g_pc s t); cbn in Ho, Hle; try discriminate Ho; inversion Ho; subst; tauto || lia.
  Qed.

  Lemma ontab_rdk (p : pc) k lc tab h : rdk p = Some (k, lc, tab, h) -> ontab p = Some tab.
  Proof. intros H. unfold X_linpoints.ontab. rewrite H. reflexivity. Qed.

  Lemma ontab_wtab (p : pc) j : wtab p = Some j -> ontab p = Some j.
  Proof. intros H. unfold X_linpoints.ontab. destruct p; cbn in *; try discriminate H; exact H. Qed.

  Lemma ontab_inv (p : pc) j : ontab p = Some j -> (exists k lc h, rdk p = Some (k, lc, j, h)) \/ wtab p = Some j.
  Proof.
    unfold X_linpoints.ontab. destruct (rdk p) as [[[[k lc] tab] h]|] eqn:E; intros H.
    - inversion H; subst. left. exists k, lc, h. reflexivity.
    - right. exact H.
  Qed.

  (* the visible value of k in table tab, read off the abstract map at the end of the table's generation *)
  Lemma end_hit' (R : K -> V -> Prop) G cur t o k lc tab v : tab <= cur ->
    no_ev t (gc G tab) -> (forall j', tab < j' <= cur -> no_ev t (gseg G j')) ->
    agree (gSE G tab) R -> rd_op o k lc -> R k v -> can_ret G cur t o (hitres lc v).
  Proof.
    intros Hle P1 P2 Ha Hop Hv. apply Ha in Hv.
    destruct (rd_hit_spec eqd o k lc _ v Hop Hv) as [A [B C]]. rewrite B.
    apply can_ret_end; assumption.
  Qed.

  Lemma end_miss' (R : K -> V -> Prop) G cur t k tab : tab <= cur ->
    no_ev t (gc G tab) -> (forall j', tab < j' <= cur -> no_ev t (gseg G j')) ->
    agree (gSE G tab) R -> (forall v, ~ R k v) -> can_ret G cur t (XLoad k) (XRVal None false).
  Proof.
    intros Hle P1 P2 Ha Hv. pose proof (agree_none _ _ k Ha Hv) as Hm.
    destruct (rd_miss_spec eqd k _ Hm) as [A [B C]]. rewrite B.
    apply can_ret_end; assumption.
  Qed.

  Lemma end_hit s G t o k lc tab v : LI s G -> ontab (g_pc s t) = Some tab -> rd_op o k lc ->
    vis (tab_at s tab) k v -> can_ret G (g_cur s) t o (hitres lc v).
  Proof.
    intros HL Ho Hop Hv. pose proof (li_si s G HL) as [[[HI [_ [HT _]]] _] _].
    pose proof (ontab_le s t tab HT Ho) as Hle.
    destruct (li_pos s G HL t tab Ho) as [P1 P2].
    eapply end_hit'; try eassumption. apply (li_agree s G HL tab Hle).
  Qed.

  Lemma end_miss s G t k tab : LI s G -> ontab (g_pc s t) = Some tab ->
    (forall v, ~ vis (tab_at s tab) k v) -> can_ret G (g_cur s) t (XLoad k) (XRVal None false).
  Proof.
    intros HL Ho Hv. pose proof (li_si s G HL) as [[[HI [_ [HT _]]] _] _].
    pose proof (ontab_le s t tab HT Ho) as Hle.
    destruct (li_pos s G HL t tab Ho) as [P1 P2].
    eapply end_miss'; try eassumption. apply (li_agree s G HL tab Hle).
  Qed.

  (* ---------------- a thread that stays inside its lookup over a step ---------------- *)

  Lemma seed_xstep s u s' ls tab : XInv s -> xstep s u = Some (s', ls) -> tab < length (g_tabs s) ->
    x_seed (tab_at s' tab) = x_seed (tab_at s tab).
  Proof.
    intros HI E Ht.
    pose proof (X_loadhit.xstep_frame eqd hash idx tag nslots seeds grow_needed shrink_policy probe nstripes minlen grow_only
                  Hminlen Hnslots s u s' ls E) as [_ Hf].
    destruct (Hf tab Ht) as [_ [A _]]. exact A.
  Qed.

  Lemma rd_pres s G u s' ls w G' t k lc tab h o :
    LI s G -> xstep s u = Some (s', ls) ->
    gext w (g_cur s) G (g_cur s') G' -> t <> w ->
    (forall j, j <= g_cur s' -> agree (gSE G' j) (vis (tab_at s' j))) ->
    rdk (g_pc s t) = Some (k, lc, tab, h) -> rdk (g_pc s' t) = Some (k, lc, tab, h) ->
    gst G t = TInvoked o ->
    inlookup t k lc tab s'
    /\ (forall v, JJ t k tab v (can_ret G' (g_cur s') t o (hitres lc v)) s')
    /\ (lc = LPlain -> can_ret G' (g_cur s') t o (XRVal None false) \/ JM t k tab s').
  Proof.
    intros HL E HG Hne Hag Hr Hr' Hst.
    pose proof (li_si s G HL) as HS. pose proof HS as [H5 HCT]. pose proof H5 as [[HI [_ [HT HC]]] _].
    assert (HS' : SI s') by (eapply (SI_xstep eqd hash idx tag nslots seeds grow_needed shrink_policy probe nstripes minlen grow_only); try eassumption; hy).
    pose proof HS' as [H5' HCT']. pose proof H5' as [[HI' [_ [HT' HC']]] _].
    destruct (li_rd s G HL t k lc tab h o Hr Hst) as [Hin [HJ HM]].
    pose proof (ge_cur _ _ _ _ _ _ HG) as Hcm.
    destruct (rdk_inlookup s t k lc tab Hin) as [Hle Hrk]. rewrite Hr in Hrk. inversion Hrk as [Hh]. clear Hrk.
    assert (Hlt : tab < length (g_tabs s)) by (pose proof (xi_cur _ _ _ _ s HI); lia).
    assert (Hin' : inlookup t k lc tab s').
    { apply (inlookup_rdk s' t k lc tab h Hr'); [lia|]. rewrite (seed_xstep s u s' ls tab HI E Hlt). exact Hh. }
    destruct (tok_rd _ _ k lc tab h (li_tok s G HL t) Hr) as [o' [Eo Hop]]. rewrite Hst in Eo. inversion Eo; subst o'. clear Eo.
    pose proof (ontab_rdk _ k lc tab h Hr) as Hon.
    destruct (li_pos s G HL t tab Hon) as [P1 P2].
    destruct (ge_pos _ _ _ _ _ _ HG t tab Hne Hle P1 P2) as [P1' P2'].
    assert (Hle' : tab <= g_cur s') by lia.
    split; [exact Hin'|]. split.
    - intros v.
      pose proof (X_loadhit.JJ_step eqd hash idx tag nslots seeds grow_needed shrink_policy probe nstripes minlen grow_only
                    Hidx Hminlen Hnslots Hprobe_sound t k lc tab v _ s u s' ls H5 H5' E Hin Hin' (HJ v)) as HJ'.
      eapply JJ_mono; [|exact HJ']. intros [Hw|Hv].
      + apply (ge_ret _ _ _ _ _ _ HG t o _ Hne Hw).
      + apply (ge_ret _ _ _ _ _ _ HG t o _ Hne). eapply end_hit; eassumption.
    - intros Hlc. subst lc. cbn [rd_op] in Hop. subst o.
      destruct (X_loadhit.haspos_dec eqd hash idx nslots nstripes k tab s') as [Hp'|Hn'].
      + destruct (X_loadhit.haspos_dec eqd hash idx nslots nstripes k tab s) as [Hp|Hn].
        * destruct (HM eq_refl) as [Hc|Hjm]; [left; apply (ge_ret _ _ _ _ _ _ HG t _ _ Hne Hc)|].
          right. apply (X_loadhit.JM_step eqd hash idx tag nslots seeds grow_needed shrink_policy probe nstripes minlen grow_only
                          Hidx Hminlen Hnslots Hprobe_complete t k LPlain tab s u s' ls H5 H5' E); [split; assumption | split; assumption | exact Hjm].
        * left. apply (ge_ret _ _ _ _ _ _ HG t _ _ Hne). eapply end_miss; [exact HL | exact Hon |].
          intros v Hv. assert (Hx : exists q, kpos k tab s q) by (apply kpos_vis; exists v; exact Hv). destruct Hx as [q Hq]. exact (Hn q Hq).
      + left. eapply end_miss'; [exact Hle' | exact P1' | exact P2' | apply Hag; exact Hle' |].
        intros v Hv. assert (Hx : exists q, kpos k tab s' q) by (apply kpos_vis; exists v; exact Hv). destruct Hx as [q Hq]. exact (Hn' q Hq).
  Qed.

  (* ---------------- what every step keeps for the threads that do not step ---------------- *)

  Notation xstep_others := (@X_loadhit.xstep_others K V eqd hash idx tag nslots seeds grow_needed shrink_policy probe nstripes minlen grow_only).

  Lemma SI_step s u s' ls : SI s -> xstep s u = Some (s', ls) -> SI s'.
  Proof.
    intros HS E. eapply (SI_xstep eqd hash idx tag nslots seeds grow_needed shrink_policy probe nstripes minlen grow_only); try eassumption; hy.
  Qed.

  Lemma LI_frame s G u s' ls G' :
    LI s G -> xstep s u = Some (s', ls) ->
    gext u (g_cur s) G (g_cur s') G' ->
    (forall t, Forall okop2 (g_todo s' t)) ->
    (gc G' (g_cur s') = [] /\ forall j, g_cur s' < j -> gb G' j = [] /\ gc G' j = []) ->
    lok aempty (gI G' (g_cur s')) ->
    (forall j, j <= g_cur s' -> agree (gSE G' j) (vis (tab_at s' j))) ->
    (forall j, j < g_cur s' ->
       (gc G' j = [] /\ forall w, wtab (g_pc s' w) <> Some j) \/ exists c, gc G' j = [ILin c XClear XRUnit]) ->
    tproto u TIdle (gI G' (g_cur s')) (gst G' u) ->
    TOK2 (gst G' u) (g_pc s' u) ->
    (forall j, ontab (g_pc s' u) = Some j -> no_ev u (gc G' j) /\ forall j', j < j' <= g_cur s' -> no_ev u (gseg G' j')) ->
    (forall k lc tab h o, rdk (g_pc s' u) = Some (k, lc, tab, h) -> gst G' u = TInvoked o ->
       inlookup u k lc tab s'
       /\ (forall v, JJ u k tab v (can_ret G' (g_cur s') u o (hitres lc v)) s')
       /\ (lc = LPlain -> can_ret G' (g_cur s') u o (XRVal None false) \/ JM u k tab s')) ->
    LI s' G'.
  Proof.
    intros HL E HG Htodo Hemp Hlok Hag Hcl Htp Htok Hpos Hrd.
    pose proof (li_si s G HL) as HS. pose proof HS as [H5 HCT]. pose proof H5 as [[HI [_ [HT HC]]] _].
    assert (Hoth : forall t, t <> u -> g_pc s' t = g_pc s t \/ g_pc s' t = wake (g_pc s t)) by (intros t Hne; apply (xstep_others s u s' ls HI E t Hne)).
    constructor.
    - eapply SI_step; eassumption.
    - eapply DEC_xstep; [exact HI | exact (li_dec s G HL) | exact E].
    - exact Htodo.
    - exact Hemp.
    - exact Hlok.
    - exact Hag.
    - exact Hcl.
    - intros t. destruct (Nat.eq_dec t u) as [->|Hne]; [exact Htp|].
      rewrite (ge_st _ _ _ _ _ _ HG t Hne). apply (ge_tp _ _ _ _ _ _ HG t _ Hne). apply (li_tp s G HL t).
    - intros t. destruct (Nat.eq_dec t u) as [->|Hne]; [exact Htok|].
      rewrite (ge_st _ _ _ _ _ _ HG t Hne). destruct (Hoth t Hne) as [Ep|Ep]; rewrite Ep; [|apply TOK2_wake]; apply (li_tok s G HL t).
    - intros t j. destruct (Nat.eq_dec t u) as [->|Hne]; [apply Hpos|].
      intros Ho. assert (Ho0 : ontab (g_pc s t) = Some j).
      { destruct (Hoth t Hne) as [Ep|Ep]; rewrite Ep in Ho; [exact Ho | rewrite ontab_wake in Ho; exact Ho]. }
      destruct (li_pos s G HL t j Ho0) as [P1 P2].
      apply (ge_pos _ _ _ _ _ _ HG t j Hne (ontab_le s t j HT Ho0) P1 P2).
    - intros t k lc tab h o. destruct (Nat.eq_dec t u) as [->|Hne]; [apply Hrd|].
      intros Hr Hst. rewrite (ge_st _ _ _ _ _ _ HG t Hne) in Hst.
      assert (Hr0 : rdk (g_pc s t) = Some (k, lc, tab, h)).
      { destruct (Hoth t Hne) as [Ep|Ep]; rewrite Ep in Hr; [exact Hr | rewrite rdk_wake in Hr; exact Hr]. }
      eapply (rd_pres s G u s' ls u G' t); eassumption.
  Qed.

  (* a step of a thread that is not about to make a linearization store changes no published table *)
  Lemma vis_same s G u s' ls j : LI s G -> xstep s u = Some (s', ls) -> lres (g_pc s u) = None -> j <= g_cur s ->
    forall k v, vis (tab_at s' j) k v <-> vis (tab_at s j) k v.
  Proof.
    intros HL E Hl Hj k v. pose proof (li_si s G HL) as [[[HI [_ [HT HC]]] _] _].
    destruct (published_le hash idx nslots nstripes minlen Hminlen Hnslots s j HI HT Hj) as [Hlt Hpub].
    rewrite (vis_xstep eqd hash idx tag nslots seeds grow_needed shrink_policy probe nstripes minlen grow_only Hidx Hminlen Hnslots
               s u s' ls j k v HI HT HC E Hlt Hpub).
    rewrite (lres_lin _ j Hl). reflexivity.
  Qed.

  Lemma agree_same s G u s' ls G' : LI s G -> xstep s u = Some (s', ls) -> lres (g_pc s u) = None -> g_cur s' = g_cur s ->
    (forall j, j <= g_cur s -> gSE G' j = gSE G j) ->
    forall j, j <= g_cur s' -> agree (gSE G' j) (vis (tab_at s' j)).
  Proof.
    intros HL E Hl Hc HSE j Hj. rewrite Hc in Hj. rewrite (HSE j Hj).
    eapply agree_iff; [apply (vis_same s G u s' ls j HL E Hl Hj) | apply (li_agree s G HL j Hj)].
  Qed.

  (* the closing marks of the replaced tables stay what they are *)
  Lemma close_same s G u s' ls G' : LI s G -> xstep s u = Some (s', ls) -> g_cur s' = g_cur s ->
    (forall j, gc G' j = gc G j) ->
    forall j, j < g_cur s' ->
      (gc G' j = [] /\ forall w, wtab (g_pc s' w) <> Some j) \/ exists c, gc G' j = [ILin c XClear XRUnit].
  Proof.
    intros HL E Hc Hgc j Hj. rewrite Hc in Hj. rewrite Hgc. pose proof (li_si s G HL) as [[[HI _] _] _].
    destruct (li_close s G HL j Hj) as [[A B]|B]; [left | right; exact B].
    split; [exact A|]. intros w Hw. apply (B w).
    eapply (xstep_wtab_stale eqd hash idx tag nslots seeds grow_needed shrink_policy probe nstripes minlen grow_only); [exact HI | exact E | lia | exact Hw].
  Qed.

  Lemma LI_GOK s G : LI s G -> GOK (g_cur s) G.
  Proof. intros HL. constructor; [apply (li_empty s G HL) | apply (li_lok s G HL) | apply (li_tp s G HL)]. Qed.

  Lemma LI_frame2 s G u s' ls G' :
    LI s G -> xstep s u = Some (s', ls) ->
    gext u (g_cur s) G (g_cur s') G' -> GOK (g_cur s') G' ->
    (forall t, Forall okop2 (g_todo s' t)) ->
    (forall j, j <= g_cur s' -> agree (gSE G' j) (vis (tab_at s' j))) ->
    (forall j, j < g_cur s' ->
       (gc G' j = [] /\ forall w, wtab (g_pc s' w) <> Some j) \/ exists c, gc G' j = [ILin c XClear XRUnit]) ->
    TOK2 (gst G' u) (g_pc s' u) ->
    (forall j, ontab (g_pc s' u) = Some j -> no_ev u (gc G' j) /\ forall j', j < j' <= g_cur s' -> no_ev u (gseg G' j')) ->
    (forall k lc tab h o, rdk (g_pc s' u) = Some (k, lc, tab, h) -> gst G' u = TInvoked o ->
       inlookup u k lc tab s'
       /\ (forall v, JJ u k tab v (can_ret G' (g_cur s') u o (hitres lc v)) s')
       /\ (lc = LPlain -> can_ret G' (g_cur s') u o (XRVal None false) \/ JM u k tab s')) ->
    LI s' G'.
  Proof.
    intros HL E HG HK Htodo Hag Hcl Htok Hpos Hrd.
    eapply LI_frame; try eassumption; [apply (gk_empty _ _ _ HK) | apply (gk_lok _ _ _ HK) | apply (gk_tp _ _ _ HK)].
  Qed.

  (* ---------------- a step of a thread that is not idle ---------------- *)

  Lemma some_pair9 {A B} (g : A * B) a b : Some g = Some (a, b) -> a = fst g /\ b = snd g.
  Proof. intros H. inversion H. auto. Qed.
  Lemma goto_todo (s : xstate) t q l : g_todo (fst (goto s t q l)) = g_todo s.
  Proof. destruct q; reflexivity. Qed.

  Lemma step_todo s t p s' ls : step_pc s t p = Some (s', ls) -> g_todo s' = g_todo s.
  Proof.
    intros Hs. destruct p; cbn [XMachine.step_pc] in Hs; cbv zeta in Hs;
      repeat match type of Hs with context [match ?x with _ => _ end] => destruct x eqn:? end;
      try discriminate; apply some_pair9 in Hs; destruct Hs as [? _]; subst; rewrite ?goto_todo; reflexivity.
  Qed.

  Lemma pend_rdk (p : pc) r : pend p = Some r -> rdk p = None.
  Proof. destruct p; cbn; intros E; try reflexivity; discriminate E. Qed.
  Lemma clr_rdk (p : pc) : clr p = true -> rdk p = None.
  Proof. destruct p; cbn; intros E; try reflexivity; discriminate E. Qed.
  Lemma pend_ontab (p : pc) r : pend p = Some r -> rdk p = None.
  Proof. apply pend_rdk. Qed.

  (* the position facts of the stepping thread, when the step inserts nothing behind the body of its table *)
  Lemma pos_keep s G u s' ls G' : LI s G -> xstep s u = Some (s', ls) -> g_cur s' = g_cur s ->
    (forall j, gc G' j = gc G j) ->
    (forall j, ontab (g_pc s u) = Some j -> forall j', j < j' -> gseg G' j' = gseg G j') ->
    (forall x, rdk (g_pc s' u) = Some x -> rdk (g_pc s u) = Some x) ->
    forall j, ontab (g_pc s' u) = Some j -> no_ev u (gc G' j) /\ forall j', j < j' <= g_cur s' -> no_ev u (gseg G' j').
  Proof.
    intros HL E Hc Hgc Hseg Hrd j Ho. rewrite Hc. pose proof (li_si s G HL) as [[[HI _] _] _].
    assert (Hcase : ontab (g_pc s u) = Some j \/ j = g_cur s).
    { destruct (ontab_inv _ _ Ho) as [[k [lc [h Hr]]]|Hw].
      - left. eapply ontab_rdk. apply Hrd. exact Hr.
      - destruct (xstep_wtab eqd hash idx tag nslots seeds grow_needed shrink_policy probe nstripes minlen grow_only s u s' ls u j HI E Hw) as [H|[_ [H _]]];
          [left; apply ontab_wtab; exact H | right; symmetry; exact H]. }
    destruct Hcase as [Ho0| ->].
    - destruct (li_pos s G HL u j Ho0) as [P1 P2]. split; [rewrite Hgc; exact P1|].
      intros j' Hj'. rewrite (Hseg j Ho0 j') by lia. apply P2. exact Hj'.
    - split; [rewrite Hgc; destruct (li_empty s G HL) as [A _]; rewrite A; apply no_ev_nil | intros j' Hj'; lia].
  Qed.

  (* a step that is no linearization point and no invocation / response *)
  Lemma K_silent s G u s' ls : LI s G -> xstep s u = Some (s', ls) ->
    lres (g_pc s u) = None -> (forall kt new, g_pc s u <> PR_Publish kt new) ->
    TOK2 (gst G u) (g_pc s' u) ->
    (forall x, rdk (g_pc s' u) = Some x -> rdk (g_pc s u) = Some x) ->
    LI s' G.
  Proof.
    intros HL E Hl Hnp Htok Hrd.
    pose proof (li_si s G HL) as [[[HI _] _] _].
    assert (Hc : g_cur s' = g_cur s) by (apply (xstep_cur eqd hash idx tag nslots seeds grow_needed shrink_policy probe nstripes minlen grow_only s u s' ls HI E Hnp)).
    eapply (LI_frame2 s G u s' ls G); try eassumption.
    - rewrite Hc. apply gext_refl.
    - rewrite Hc. apply LI_GOK. exact HL.
    - intros t. apply all_ok2.
    - apply (agree_same s G u s' ls G HL E Hl Hc). reflexivity.
    - apply (close_same s G u s' ls G HL E Hc). reflexivity.
    - apply (pos_keep s G u s' ls G HL E Hc); auto.
    - intros k lc tab h o Hr Hst. pose proof (Hrd _ Hr) as Hr0.
      apply (rd_pres s G u s' ls (S u) G u k lc tab h o HL E); try assumption; [rewrite Hc; apply gext_refl | lia |].
      apply (agree_same s G u s' ls G HL E Hl Hc). reflexivity.
  Qed.

  (* ---------------- an invocation / response event: appended at the end of the history ---------------- *)

  Lemma K_end s G u s' ls e st' : LI s G -> xstep s u = Some (s', ls) ->
    lres (g_pc s u) = None -> g_cur s' = g_cur s ->
    evt e = u -> (match e with ILin _ _ _ => False | _ => True end) ->
    tmove u (gst G u) e st' ->
    (forall t, Forall okop2 (g_todo s' t)) ->
    TOK2 st' (g_pc s' u) ->
    let G' := g_setst (g_ins G (g_cur s) (gb G (g_cur s)) e []) u st' in
    (forall j, ontab (g_pc s' u) = Some j -> j = g_cur s) ->
    (forall k lc tab h o, rdk (g_pc s' u) = Some (k, lc, tab, h) -> st' = TInvoked o ->
       inlookup u k lc tab s'
       /\ (forall v, JJ u k tab v (can_ret G' (g_cur s') u o (hitres lc v)) s')
       /\ (lc = LPlain -> can_ret G' (g_cur s') u o (XRVal None false) \/ JM u k tab s')) ->
    LI s' G' /\ erase xop xres (gI G' (g_cur s')) = erase xop xres (gI G (g_cur s)) ++ erase xop xres [e].
  Proof.
    intros HL E Hl Hc He Hnm Hm Htodo Htok G' Hpos Hrd.
    set (cur := g_cur s) in *.
    destruct (li_empty s G HL) as [Hc0 Hemp]. fold cur in Hc0, Hemp.
    assert (Hb : gb G cur = gb G cur ++ []) by (symmetry; apply app_nil_r).
    assert (Hnoop : lrun (lrun (gSS G cur) (gb G cur)) [e] = lrun (gSS G cur) (gb G cur)) by (destruct e; try contradiction; reflexivity).
    assert (Hst : stable G cur cur (gb G cur) [] e) by (left; exact Hnoop).
    assert (Heok : X_linpoints.eok (lrun (gSS G cur) (gb G cur)) e) by (destruct e; try contradiction; exact I).
    rewrite <- He in Hm.
    destruct (gins_ok eqd cur G cur (gb G cur) [] e st' (LI_GOK s G HL) (le_n _) Hb Hst Heok) as [HK [HG [Ggc [Ggb [Ggbj [GSS [GSE [GSEj [Gst Gsto]]]]]]]]].
    { apply no_ev_nil. } { rewrite Hc0. apply no_ev_nil. } { intros j' Hj'. lia. } { exact Hm. }
    rewrite He in *. fold G' in HK, HG, Ggc, Ggb, Ggbj, GSS, GSE, GSEj, Gst, Gsto.
    split.
    - eapply (LI_frame2 s G u s' ls G'); try eassumption.
      + rewrite Hc. exact HG.
      + rewrite Hc. exact HK.
      + apply (agree_same s G u s' ls G' HL E Hl Hc). intros j Hj. destruct (Nat.eq_dec j cur) as [->|Hne].
        * rewrite GSEj. apply gins_SE_noop; assumption.
        * apply GSE; assumption.
      + apply (close_same s G u s' ls G' HL E Hc). exact Ggc.
      + rewrite Gst. exact Htok.
      + intros j Ho. rewrite (Hpos j Ho), Hc. fold cur. split; [rewrite Ggc, Hc0; apply no_ev_nil | intros j' Hj'; lia].
      + intros k lc tab h o Hr Hs. rewrite Gst in Hs. apply (Hrd k lc tab h o Hr Hs).
    - rewrite Hc. fold cur. change (gI G' cur) with (gI (g_ins G cur (gb G cur) e []) cur). apply ins_erase_end. exact Hc0.
  Qed.

  Lemma nonidle_step s u s' ls : xstep s u = Some (s', ls) -> g_pc s u <> PIdle -> step_pc s u (g_pc s u) = Some (s', ls).
  Proof.
    intros E Hn. destruct (xstep_split eqd hash idx tag nslots seeds grow_needed shrink_policy probe nstripes minlen grow_only s u s' ls E)
      as [[_ H]|[H _]]; [exact H | contradiction].
  Qed.

  (* a call that has taken effect returns *)
  Lemma K_response s G u s' ls o r : LI s G -> xstep s u = Some (s', ls) -> g_pc s u <> PIdle ->
    gst G u = TLinearized o r -> xhist ls = [HRes u r] -> g_pc s' u = PIdle ->
    exists G', LI s' G' /\ erase xop xres (gI G' (g_cur s')) = erase xop xres (gI G (g_cur s)) ++ xhist ls.
  Proof.
    intros HL E Hni Hst Hh Hp'.
    pose proof (li_si s G HL) as [[[HI _] _] _].
    pose proof (li_tok s G HL u) as Htok. rewrite Hst in Htok. destruct Htok as [Hok Hpend].
    pose proof (nonidle_step s u s' ls E Hni) as Es.
    assert (Hl : lres (g_pc s u) = None) by (eapply pend_lres; exact Hpend).
    assert (Hnp : forall kt new, g_pc s u <> PR_Publish kt new).
    { intros kt new Ep. rewrite Ep in Es. cbn [XMachine.step_pc] in Es. apply some_pair9 in Es. destruct Es as [Es1 _].
      rewrite Es1 in Hp'. rewrite goto_pc in Hp'. discriminate Hp'. }
    assert (Hc : g_cur s' = g_cur s) by (apply (xstep_cur eqd hash idx tag nslots seeds grow_needed shrink_policy probe nstripes minlen grow_only s u s' ls HI E Hnp)).
    eexists. rewrite Hh.
    apply (K_end s G u s' ls (IRes u r) TIdle HL E Hl Hc eq_refl I).
    - rewrite Hst. constructor.
    - intros t. rewrite (step_todo s u _ s' ls Es). apply (li_todo s G HL).
    - rewrite Hp'. left. reflexivity.
    - intros j Ho. rewrite Hp' in Ho. discriminate Ho.
    - intros k lc tab h o0 Hr. rewrite Hp' in Hr. discriminate Hr.
  Qed.

  (* ---------------- the invocation of a call (with its first primitive, a load of m.table) ---------------- *)

  Definition first_pc (s : xstate) (o : xop) : pc :=
    match o with
    | XLoad k => PL_Meta k LPlain (g_cur s) (hash k (x_seed (tab_at s (g_cur s)))) 0
    | XCompute k f ev lie co =>
        let cx := {| cx_k := k; cx_f := f; cx_ev := ev; cx_lie := lie; cx_co := co |} in
        if lie then PL_Meta k (LFast cx) (g_cur s) (hash k (x_seed (tab_at s (g_cur s)))) 0 else PW_Lock cx (g_cur s)
    | XClear => PR_CAS HClear (KReturn XRUnit)
    | _ => PIdle
    end.

  Lemma invoke_facts s u s' ls : g_pc s u = PIdle -> xstep s u = Some (s', ls) ->
    exists o rest, g_todo s u = o :: rest /\
      (okop o -> xhist ls = [HInv u o] /\ g_cur s' = g_cur s /\ g_tabs s' = g_tabs s
                 /\ (forall t, g_todo s' t = if Nat.eq_dec t u then rest else g_todo s t)
                 /\ g_pc s' u = first_pc s o).
  Proof.
    intros Hp E.
    destruct (xstep_split eqd hash idx tag nslots seeds grow_needed shrink_policy probe nstripes minlen grow_only s u s' ls E)
      as [[Hn _]|[_ [o [rest [ls0 [Et [El Es]]]]]]]; [contradiction|].
    exists o, rest. split; [exact Et|]. intros Ho.
    destruct o; try contradiction; cbn [start_pc] in Es; try (destruct lie); cbn [XMachine.step_pc] in Es; cbv zeta in Es;
      apply some_pair9 in Es; destruct Es as [E1 E2]; subst s' ls0 ls; cbn [X_linpoints.xhist goto fst snd first_pc];
      (split; [reflexivity|]); (split; [reflexivity|]); (split; [reflexivity|]); (split; [intros t; reflexivity|]);
      cbn [set_pc g_pc]; (destruct (Nat.eq_dec u u) as [_|Hc]; [reflexivity | exfalso; apply Hc; reflexivity]).
  Qed.

  Lemma tok_idle st : TOK2 st (@PIdle K V) -> st = TIdle.
  Proof.
    destruct st as [|o|o r]; cbn [TOK2 X_linpoints.TOK]; [reflexivity | |].
    - intros [_ H]. destruct o; try contradiction.
      + destruct H as [tab [h H]]. discriminate H.
      + destruct H as [[_ [tab [h H]]]|[_ [H _]]]; discriminate H.
      + discriminate H.
    - intros [_ H]. discriminate H.
  Qed.

  Lemma K_invoke s G u s' ls : LI s G -> xstep s u = Some (s', ls) -> g_pc s u = PIdle ->
    (forall o rest, g_todo s u = o :: rest -> okop o) ->
    exists G', LI s' G' /\ erase xop xres (gI G' (g_cur s')) = erase xop xres (gI G (g_cur s)) ++ xhist ls.
  Proof.
    intros HL E Hp Hko.
    destruct (invoke_facts s u s' ls Hp E) as [o [rest [Et Hf]]].
    pose proof (li_todo s G HL u) as Htd. rewrite Et in Htd. inversion Htd as [|? ? Ho0 Hrest]; subst.
    pose proof (Hko _ _ Et) as Ho.
    destruct (Hf Ho) as [Hh [Hc [Htabs [Htodo Hp']]]].
    pose proof (li_tok s G HL u) as Htok. rewrite Hp in Htok. apply tok_idle in Htok.
    eexists. rewrite Hh.
    apply (K_end s G u s' ls (IInv u o) (TInvoked o) HL E); [rewrite Hp; reflexivity | exact Hc | reflexivity | exact I | rewrite Htok; constructor | | | |].
    - intros t. rewrite Htodo. destruct (Nat.eq_dec t u); [exact Hrest | apply (li_todo s G HL t)].
    - rewrite Hp'. destruct o; try contradiction; cbn [TOK2 X_linpoints.TOK first_pc].
      + split; [reflexivity|]. eexists; eexists; reflexivity.
      + destruct lie; (split; [reflexivity|]).
        * left. split; [reflexivity|]. eexists; eexists; reflexivity.
        * right. split; [reflexivity|]. split; [reflexivity|]. discriminate.
      + split; reflexivity.
    - intros j Hj. rewrite Hp' in Hj. destruct o; try contradiction; cbn in Hj; try (destruct lie; cbn in Hj); try discriminate Hj; inversion Hj; reflexivity.
    - intros k lc tab h o0 Hr Est. inversion Est; subst o0. clear Est.
      assert (Htab : forall j, tab_at s' j = tab_at s j) by (intros j; unfold XMachine.tab_at; rewrite Htabs; reflexivity).
      assert (Hgen : forall k0 lc0, g_pc s' u = PL_Meta k0 lc0 (g_cur s) (hash k0 (x_seed (tab_at s (g_cur s)))) 0 ->
                rdk (g_pc s' u) = Some (k, lc, tab, h) ->
                inlookup u k lc tab s'
                /\ (forall v, JJ u k tab v (can_ret (g_setst (g_ins G (g_cur s) (gb G (g_cur s)) (IInv u o) []) u (TInvoked o)) (g_cur s') u o (hitres lc v)) s')
                /\ (lc = LPlain -> can_ret (g_setst (g_ins G (g_cur s) (gb G (g_cur s)) (IInv u o) []) u (TInvoked o)) (g_cur s') u o (XRVal None false) \/ JM u k tab s')).
      { intros k0 lc0 Epc Hr0. rewrite Epc in Hr0. cbn [rdk] in Hr0. inversion Hr0; subst. clear Hr0.
        split; [|split].
        - unfold X_loadhit.inlookup. rewrite Epc, Hc, Htab. split; [lia|auto].
        - intros v. unfold X_loadhit.JJ. rewrite Epc. exact I.
        - intros _. right. intros q _. rewrite Epc. cbn. lia. }
      rewrite Hp' in Hgen. destruct o; try contradiction; cbn [first_pc] in Hgen, Hp'.
      + apply (Hgen _ _ eq_refl). rewrite <- Hp'. exact Hr.
      + destruct lie.
        * apply (Hgen _ _ eq_refl). rewrite <- Hp'. exact Hr.
        * rewrite Hp' in Hr. discriminate Hr.
      + rewrite Hp' in Hr. discriminate Hr.
  Qed.

  (* ---------------- a lookup returns: its mark goes to a point of the past ---------------- *)

  Lemma K_rdret s G u s' ls o r x : LI s G -> xstep s u = Some (s', ls) -> g_pc s u <> PIdle ->
    rdk (g_pc s u) = Some x -> gst G u = TInvoked o -> can_ret G (g_cur s) u o r ->
    g_cur s' = g_cur s -> xhist ls = [HRes u r] -> g_pc s' u = PIdle ->
    exists G', LI s' G' /\ erase xop xres (gI G' (g_cur s')) = erase xop xres (gI G (g_cur s)) ++ xhist ls.
  Proof.
    intros HL E Hni Hr Hst [j [b1 [b2 [Hj [Hb [N1 [N2 [N3 [Hok [Hres Hnx]]]]]]]]]] Hc Hh Hp'.
    set (cur := g_cur s) in *.
    pose proof (nonidle_step s u s' ls E Hni) as Es.
    assert (Hl : lres (g_pc s u) = None) by (eapply rdk_lres; exact Hr).
    destruct (li_empty s G HL) as [Hc0 Hemp]. fold cur in Hc0, Hemp.
    (* the mark *)
    set (e1 := @ILin xop xres u o r).
    assert (Hn1 : lrun (lrun (gSS G j) b1) [e1] = lrun (gSS G j) b1) by (cbn; exact Hnx).
    destruct (gins_ok eqd cur G j b1 b2 e1 (TLinearized o r) (LI_GOK s G HL) Hj Hb (or_introl Hn1)) as [HK1 [HG1 [Ggc1 [Ggb1 [Ggbj1 [GSS1 [GSE1 [GSEj1 [Gst1 Gsto1]]]]]]]]].
    { cbn. split; [exact Hok | exact Hres]. } { exact N1. } { exact N2. } { exact N3. } { cbn [evt e1]. rewrite Hst. constructor. }
    cbn [evt e1] in *. set (G1 := g_setst (g_ins G j b1 e1 b2) u (TLinearized o r)) in *.
    (* the response *)
    set (e2 := @IRes xop xres u r).
    assert (Hb2 : gb G1 cur = gb G1 cur ++ []) by (symmetry; apply app_nil_r).
    assert (Hn2 : lrun (lrun (gSS G1 cur) (gb G1 cur)) [e2] = lrun (gSS G1 cur) (gb G1 cur)) by reflexivity.
    destruct (gins_ok eqd cur G1 cur (gb G1 cur) [] e2 TIdle HK1 (le_n _) Hb2 (or_introl Hn2)) as [HK2 [HG2 [Ggc2 [Ggb2 [Ggbj2 [GSS2 [GSE2 [GSEj2 [Gst2 Gsto2]]]]]]]]].
    { exact I. } { apply no_ev_nil. } { rewrite Ggc1, Hc0. apply no_ev_nil. } { intros j' Hj'. lia. } { cbn [evt e2]. rewrite Gst1. constructor. }
    cbn [evt e2] in *. set (G2 := g_setst (g_ins G1 cur (gb G1 cur) e2 []) u TIdle) in *.
    assert (HSE : forall i, i <= cur -> gSE G2 i = gSE G i).
    { intros i Hi. transitivity (gSE G1 i).
      - destruct (Nat.eq_dec i cur) as [->|Hne]; [rewrite GSEj2; apply gins_SE_noop; assumption | apply GSE2; assumption].
      - destruct (Nat.eq_dec i j) as [->|Hne]; [rewrite GSEj1; apply gins_SE_noop; assumption | apply GSE1; assumption]. }
    exists G2. split.
    - eapply (LI_frame2 s G u s' ls G2); try eassumption.
      + rewrite Hc. eapply gext_trans; eassumption.
      + rewrite Hc. exact HK2.
      + intros t. rewrite (step_todo s u _ s' ls Es). apply (li_todo s G HL).
      + apply (agree_same s G u s' ls G2 HL E Hl Hc). exact HSE.
      + apply (close_same s G u s' ls G2 HL E Hc). intros i. rewrite Ggc2, Ggc1. reflexivity.
      + rewrite Gst2, Hp'. left. reflexivity.
      + intros i Ho. rewrite Hp' in Ho. discriminate Ho.
      + intros k lc tab h o0 Hr0. rewrite Hp' in Hr0. discriminate Hr0.
    - rewrite Hc, Hh. fold cur.
      change (gI G2 cur) with (gI (g_ins G1 cur (gb G1 cur) e2 []) cur).
      rewrite ins_erase_end by (rewrite Ggc1; exact Hc0).
      change (gI G1 cur) with (gI (g_ins G j b1 e1 b2) cur).
      erewrite ins_erase_mark; [reflexivity | first [exact Hj | exact Hb | (left; exact Hn1) | exact I] ..].
  Qed.

  Lemma K_rdhit s G u s' ls k lc tab h o v : LI s G -> xstep s u = Some (s', ls) -> g_pc s u <> PIdle ->
    rdk (g_pc s u) = Some (k, lc, tab, h) -> gst G u = TInvoked o ->
    g_cur s' = g_cur s -> xhist ls = [HRes u (hitres lc v)] -> g_pc s' u = PIdle -> (exists l, In l ls /\ hit u v l) ->
    exists G', LI s' G' /\ erase xop xres (gI G' (g_cur s')) = erase xop xres (gI G (g_cur s)) ++ xhist ls.
  Proof.
    intros HL E Hni Hr Hst Hc Hh Hp' Hhit.
    pose proof (li_si s G HL) as [[[HI _] _] _].
    destruct (li_rd s G HL u k lc tab h o Hr Hst) as [Hin [HJ _]].
    destruct (tok_rd _ _ k lc tab h (li_tok s G HL u) Hr) as [o' [Eo Hop]]. rewrite Hst in Eo. inversion Eo; subst o'. clear Eo.
    assert (Hcr : can_ret G (g_cur s) u o (hitres lc v)).
    { destruct (X_loadhit.hit_step eqd hash idx tag nslots seeds grow_needed shrink_policy probe nstripes minlen grow_only
                  Hminlen Hnslots u k lc tab v _ s s' ls HI Hin (HJ v) E Hhit) as [H|H]; [exact H|].
      eapply end_hit; [exact HL | eapply ontab_rdk; exact Hr | exact Hop | exact H]. }
    eapply K_rdret; eassumption.
  Qed.

  Lemma K_rdmiss s G u s' ls k tab h o : LI s G -> xstep s u = Some (s', ls) -> g_pc s u <> PIdle ->
    rdk (g_pc s u) = Some (k, LPlain, tab, h) -> gst G u = TInvoked o ->
    g_cur s' = g_cur s -> xhist ls = [HRes u (XRVal None false)] -> g_pc s' u = PIdle -> In (XRes u (XRVal None false)) ls ->
    exists G', LI s' G' /\ erase xop xres (gI G' (g_cur s')) = erase xop xres (gI G (g_cur s)) ++ xhist ls.
  Proof.
    intros HL E Hni Hr Hst Hc Hh Hp' Hmiss.
    pose proof (li_si s G HL) as [H5 _].
    destruct (li_rd s G HL u k LPlain tab h o Hr Hst) as [Hin [_ HM]].
    destruct (tok_rd _ _ k LPlain tab h (li_tok s G HL u) Hr) as [o' [Eo Hop]]. rewrite Hst in Eo. inversion Eo; subst o'. clear Eo.
    cbn [rd_op] in Hop. subst o.
    assert (Hcr : can_ret G (g_cur s) u (XLoad k) (XRVal None false)).
    { destruct (HM eq_refl) as [H|Hjm]; [exact H|].
      destruct (X_loadhit.haspos_dec eqd hash idx nslots nstripes k tab s) as [Hp|Hn].
      - exfalso.
        destruct (X_loadhit.miss_step eqd hash idx tag nslots seeds grow_needed shrink_policy probe nstripes minlen grow_only
                    Hidx Hminlen Hnslots u k LPlain tab s s' ls H5 (conj Hin Hp) Hjm E) as [Hno _].
        exact (Hno Hmiss).
      - eapply end_miss; [exact HL | eapply ontab_rdk; exact Hr |].
        intros v Hv. assert (Hx : exists q, kpos k tab s q) by (apply kpos_vis; exists v; exact Hv). destruct Hx as [q Hq]. exact (Hn q Hq). }
    eapply K_rdret; eassumption.
  Qed.

  (* ---------------- a writer takes effect: its mark goes to the end of the body of its table's generation ---------------- *)

  Lemma K_mark s G u s' ls o r tab : LI s G -> xstep s u = Some (s', ls) -> g_pc s u <> PIdle ->
    gst G u = TInvoked o -> okop o -> tab <= g_cur s ->
    no_ev u (gc G tab) -> (forall j', tab < j' <= g_cur s -> no_ev u (gseg G j')) ->
    stable G (g_cur s) tab (gb G tab) [] (ILin u o r) -> r = X_linpoints.spec_res (gSE G tab) o ->
    g_cur s' = g_cur s -> xhist ls = [] -> pend (g_pc s' u) = Some r ->
    (forall i, i <= g_cur s -> i <> tab -> forall k v, vis (tab_at s' i) k v <-> vis (tab_at s i) k v) ->
    agree (spec_next (gSE G tab) o) (vis (tab_at s' tab)) ->
    (forall j, ontab (g_pc s' u) = Some j -> j = tab) ->
    exists G', LI s' G' /\ erase xop xres (gI G' (g_cur s')) = erase xop xres (gI G (g_cur s)) ++ xhist ls.
  Proof.
    intros HL E Hni Hst Hok Htab P1 P2 Hstab Hres Hc Hh Hpend Hvis Hag Hpos.
    set (cur := g_cur s) in *.
    pose proof (nonidle_step s u s' ls E Hni) as Es.
    set (e := @ILin xop xres u o r).
    assert (Hb : gb G tab = gb G tab ++ []) by (symmetry; apply app_nil_r).
    destruct (gins_ok eqd cur G tab (gb G tab) [] e (TLinearized o r) (LI_GOK s G HL) Htab Hb Hstab) as [HK [HG [Ggc [Ggb [Ggbj [GSS [GSE [GSEj [Gst Gsto]]]]]]]]].
    { cbn. split; [exact Hok | exact Hres]. } { apply no_ev_nil. } { exact P1. } { exact P2. } { cbn [evt e]. rewrite Hst. constructor. }
    cbn [evt e] in *. set (G' := g_setst (g_ins G tab (gb G tab) e []) u (TLinearized o r)) in *.
    assert (HSEj : gSE G' tab = spec_next (gSE G tab) o).
    { rewrite GSEj. rewrite X_linpoints.lrun_app. reflexivity. }
    exists G'. split.
    - eapply (LI_frame2 s G u s' ls G'); try eassumption.
      + rewrite Hc. exact HG.
      + rewrite Hc. exact HK.
      + intros t. rewrite (step_todo s u _ s' ls Es). apply (li_todo s G HL).
      + intros i Hi. rewrite Hc in Hi. fold cur in Hi. destruct (Nat.eq_dec i tab) as [->|Hne].
        * rewrite HSEj. exact Hag.
        * rewrite (GSE i Hi Hne). eapply agree_iff; [apply (Hvis i Hi Hne) | apply (li_agree s G HL i Hi)].
      + apply (close_same s G u s' ls G' HL E Hc). exact Ggc.
      + rewrite Gst. split; assumption.
      + intros j Ho. rewrite (Hpos j Ho), Hc. fold cur. split; [rewrite Ggc; exact P1|].
        intros j' Hj'. assert (Hs : gseg G' j' = gseg G j'). { unfold X_linpoints.gseg. rewrite Ggc, Ggb by lia. reflexivity. }
        rewrite Hs. apply P2. exact Hj'.
      + intros k lc tab0 h o0 Hr0. rewrite (pend_rdk _ _ Hpend) in Hr0. discriminate Hr0.
    - rewrite Hc, Hh, app_nil_r. fold cur. change (gI G' cur) with (gI (g_ins G tab (gb G tab) e []) cur).
      erewrite ins_erase_mark; [reflexivity | first [exact Htab | exact Hb | exact Hstab | exact I] ..].
  Qed.

  Lemma lin_other (p : pc) tab i : wtab p = Some tab -> i <> tab -> lin_effect p i = None.
  Proof.
    destruct p; cbn; intros E Hne; try reflexivity; try discriminate E; inversion E; subst;
      (destruct (Nat.eq_dec tab i); [exfalso; apply Hne; symmetry; assumption | reflexivity]).
  Qed.

  Lemma lres_wtab (p : pc) r : lres p = Some r -> exists tab, wtab p = Some tab.
  Proof. destruct p; cbn; intros E; try discriminate E; eexists; reflexivity. Qed.

  Lemma clr_wcx (p : pc) : clr p = true -> wcx p = None.
  Proof.
    destruct p; cbn [clr wcx]; try discriminate; try reflexivity; intros H;
      repeat match type of H with context [match ?x with _ => _ end] => destruct x end; try discriminate H; reflexivity.
  Qed.

  Lemma tok_wr st (p : pc) cx : TOK2 st p -> pend p = None -> rdk p = None -> wcx p = Some cx ->
    exists o, st = TInvoked o /\ opcx o = Some cx /\ okop o /\ (cx_lie cx = true -> isDU p = false).
  Proof.
    intros Ht Hp Hr Hw. destruct st as [|o|o r]; cbn [TOK2 X_linpoints.TOK] in Ht.
    - destruct Ht as [-> | [-> | Ht]]; try discriminate Hw. destruct (rgsz_facts _ Ht) as [_ [_ [X _]]]. rewrite X in Hw. discriminate Hw.
    - exists o. split; [reflexivity|]. destruct Ht as [_ Ht]. destruct o; try contradiction.
      + destruct Ht as [tab [h E]]. rewrite E in Hr. discriminate Hr.
      + destruct Ht as [[_ [tab [h E]]]|[_ [E Hd]]]; [rewrite E in Hr; discriminate Hr|].
        rewrite E in Hw. inversion Hw; subst cx. cbn. auto.
      + rewrite (clr_wcx _ Ht) in Hw. discriminate Hw.
    - destruct Ht as [_ Ht]. rewrite Ht in Hp. discriminate Hp.
  Qed.

  (* the linearization store of a writer *)
  Lemma K_lin s G u s' ls cx r : LI s G -> xstep s u = Some (s', ls) -> g_pc s u <> PIdle ->
    pend (g_pc s u) = None -> rdk (g_pc s u) = None -> wcx (g_pc s u) = Some cx ->
    lres (g_pc s u) = Some r -> xhist ls = [] -> pend (g_pc s' u) = Some r ->
    exists G', LI s' G' /\ erase xop xres (gI G' (g_cur s')) = erase xop xres (gI G (g_cur s)) ++ xhist ls.
  Proof.
    intros HL E Hni Hp Hr Hw Hl Hh Hp'.
    pose proof (li_si s G HL) as [H5 HCT]. pose proof H5 as [[HI [_ [HT HC]]] _].
    destruct (tok_wr _ _ cx (li_tok s G HL u) Hp Hr Hw) as [o [Hst [Hox [Hok Hlie]]]].
    destruct (lres_wtab _ _ Hl) as [tab Hwt].
    pose proof (ontab_wtab _ _ Hwt) as Hon.
    pose proof (ontab_le s u tab HT Hon) as Htab.
    destruct (li_pos s G HL u tab Hon) as [P1 P2].
    pose proof (li_agree s G HL tab Htab) as Hag.
    destruct (lin_store_spec eqd hash idx tag nslots nstripes s u o cx tab r (gSE G tab) HC (li_dec s G HL) Hox Hw Hl Hwt Hlie Hag)
      as [Hres [nw [Hle Hnx]]].
    assert (Hnp : forall kt new, g_pc s u <> PR_Publish kt new) by (intros kt new Ep; rewrite Ep in Hl; discriminate Hl).
    assert (Hc : g_cur s' = g_cur s) by (apply (xstep_cur eqd hash idx tag nslots seeds grow_needed shrink_policy probe nstripes minlen grow_only s u s' ls HI E Hnp)).
    destruct (published_le hash idx nslots nstripes minlen Hminlen Hnslots s tab HI HT Htab) as [Hlt Hpub].
    eapply (K_mark s G u s' ls o r tab); try eassumption.
    - (* the mark stands at the end of the history, or just before the Clear that overtook the writer *)
      right. split; [reflexivity|]. destruct (Nat.eq_dec tab (g_cur s)) as [Et|Hne].
      + left. split; [exact Et|]. rewrite Et. destruct (li_empty s G HL) as [A _]. exact A.
      + right. destruct (li_close s G HL tab ltac:(lia)) as [[_ B]|[c Ec]]; [exfalso; exact (B u Hwt)|].
        rewrite Ec. exists c, XRUnit, []. reflexivity.
    - intros i Hi Hne k v.
      destruct (published_le hash idx nslots nstripes minlen Hminlen Hnslots s i HI HT Hi) as [Hlti Hpubi].
      rewrite (vis_xstep eqd hash idx tag nslots seeds grow_needed shrink_policy probe nstripes minlen grow_only Hidx Hminlen Hnslots
                 s u s' ls i k v HI HT HC E Hlti Hpubi).
      rewrite (lin_other _ tab i Hwt Hne). reflexivity.
    - rewrite Hnx. eapply agree_iff; [|apply (agree_upd eqd _ _ (cx_k cx) nw Hag)].
      intros k v.
      rewrite (vis_xstep eqd hash idx tag nslots seeds grow_needed shrink_policy probe nstripes minlen grow_only Hidx Hminlen Hnslots
                 s u s' ls tab k v HI HT HC E Hlt Hpub).
      rewrite Hle. reflexivity.
    - intros j Ho. destruct (ontab_inv _ _ Ho) as [[k [lc [h Hr0]]]|Hw0]; [rewrite (pend_rdk _ _ Hp') in Hr0; discriminate Hr0|].
      destruct (xstep_wtab eqd hash idx tag nslots seeds grow_needed shrink_policy probe nstripes minlen grow_only s u s' ls u j HI E Hw0) as [H|[_ [_ [cx0 H]]]].
      + rewrite Hwt in H. inversion H. reflexivity.
      + rewrite H in Hl. discriminate Hl.
  Qed.

  Lemma nooplin_tab s (p : pc) r : nooplin s p r ->
    exists tab, (wtab p = Some tab \/ exists cx', p = PW_ChkTab cx' tab) /\ (wtab p = Some tab \/ tab = g_cur s)
                /\ (forall kt new, p <> PR_Publish kt new).
  Proof.
    destruct p; cbn [X_linpoints.nooplin]; try contradiction.
    - intros [Hc _]. exists tab. split; [right; eexists; reflexivity|]. split; [right; symmetry; exact Hc | intros ? ? X; discriminate X].
    - intros _. exists tab. split; [left; reflexivity|]. split; [left; reflexivity | intros ? ? X; discriminate X].
  Qed.

  (* a decision of doCompute that answers without writing *)
  Lemma K_noop s G u s' ls cx r : LI s G -> xstep s u = Some (s', ls) -> g_pc s u <> PIdle ->
    pend (g_pc s u) = None -> rdk (g_pc s u) = None -> wcx (g_pc s u) = Some cx ->
    lres (g_pc s u) = None -> nooplin s (g_pc s u) r -> xhist ls = [] -> pend (g_pc s' u) = Some r ->
    exists G', LI s' G' /\ erase xop xres (gI G' (g_cur s')) = erase xop xres (gI G (g_cur s)) ++ xhist ls.
  Proof.
    intros HL E Hni Hp Hr Hw Hl Hn Hh Hp'.
    pose proof (li_si s G HL) as [H5 HCT]. pose proof H5 as [[HI [_ [HT HC]]] _].
    destruct (tok_wr _ _ cx (li_tok s G HL u) Hp Hr Hw) as [o [Hst [Hox [Hok Hlie]]]].
    destruct (nooplin_tab s _ r Hn) as [tab [Htw [Htc Hnp]]].
    assert (Hc : g_cur s' = g_cur s) by (apply (xstep_cur eqd hash idx tag nslots seeds grow_needed shrink_policy probe nstripes minlen grow_only s u s' ls HI E Hnp)).
    assert (Hpos : tab <= g_cur s /\ no_ev u (gc G tab) /\ forall j', tab < j' <= g_cur s -> no_ev u (gseg G j')).
    { destruct Htc as [Hwt| ->].
      - pose proof (ontab_wtab _ _ Hwt) as Hon. split; [apply (ontab_le s u tab HT Hon) | apply (li_pos s G HL u tab Hon)].
      - split; [lia|]. split; [destruct (li_empty s G HL) as [A _]; rewrite A; apply no_ev_nil | intros j' Hj'; lia]. }
    destruct Hpos as [Htab [P1 P2]].
    pose proof (li_agree s G HL tab Htab) as Hag.
    destruct (nooplin_spec eqd hash idx tag nslots probe nstripes minlen Hidx Hminlen Hnslots Hprobe_sound Hprobe_complete
                s u o cx tab r (gSE G tab) HI HC HT Hox Hw Hn Htw Hag) as [Hres Hnx].
    eapply (K_mark s G u s' ls o r tab); try eassumption.
    - left. cbn [X_linpoints.lrun]. exact Hnx.
    - intros i Hi Hne. apply (vis_same s G u s' ls i HL E Hl Hi).
    - rewrite Hnx. eapply agree_iff; [apply (vis_same s G u s' ls tab HL E Hl Htab) | exact Hag].
    - intros j Ho. destruct (ontab_inv _ _ Ho) as [[k [lc [h Hr0]]]|Hw0]; [rewrite (pend_rdk _ _ Hp') in Hr0; discriminate Hr0|].
      destruct (xstep_wtab eqd hash idx tag nslots seeds grow_needed shrink_policy probe nstripes minlen grow_only s u s' ls u j HI E Hw0) as [H|[_ [Hcj [cx0 H]]]].
      + destruct Htw as [Hwt|[cx' Hc']]; [rewrite Hwt in H; inversion H; reflexivity | rewrite Hc' in H; discriminate H].
      + destruct Htw as [Hwt|[cx' Hc']]; [rewrite H in Hwt; discriminate Hwt | rewrite Hc' in H; inversion H; reflexivity].
  Qed.

  (* ---------------- the store that publishes a new table ---------------- *)

  Lemma K_publish s G u s' ls kt new cl st' : LI s G -> xstep s u = Some (s', ls) ->
    g_pc s u = PR_Publish kt new -> xhist ls = [] ->
    ((~ clear_kt kt /\ cl = [] /\ st' = gst G u)
     \/ (clear_kt kt /\ cl = [ILin u (@XClear K V) (@XRUnit K V)] /\ gst G u = TInvoked (@XClear K V)
         /\ st' = TLinearized (@XClear K V) (@XRUnit K V))) ->
    TOK2 st' (PR_FinLock kt) ->
    exists G', LI s' G' /\ erase xop xres (gI G' (g_cur s')) = erase xop xres (gI G (g_cur s)) ++ xhist ls.
  Proof.
    intros HL E Hp Hh Hkind Htok.
    pose proof (li_si s G HL) as [H5 HCT]. pose proof H5 as [[HI [_ [HT HC]]] _].
    destruct (publish_next eqd hash idx tag nslots seeds grow_needed shrink_policy probe nstripes minlen grow_only Hminlen Hnslots
                s u kt new s' ls HT HCT Hp E) as [-> [Hc Htabs]].
    set (cur := g_cur s) in *.
    assert (Ep' : g_pc s' u = PR_FinLock kt).
    { unfold XMachine.xstep in E. rewrite Hp in E. cbn [XMachine.step_pc] in E. apply some_pair9 in E. destruct E as [E1 _].
      rewrite E1, goto_pc. reflexivity. }
    assert (Hl : lres (g_pc s u) = None) by (rewrite Hp; reflexivity).
    pose proof (abs_step eqd hash idx tag nslots seeds grow_needed shrink_policy probe nstripes minlen grow_only Hidx Hminlen Hnslots
                  s u s' ls H5 E) as Habs. rewrite Hp in Habs.
    assert (Habs' : forall k v, abs s' k v <-> vis (tab_at s' (S cur)) k v) by (intros k v; unfold X_resize.abs; rewrite Hc; reflexivity).
    assert (Hlokcl : lok (gSE G cur) cl).
    { destruct Hkind as [[_ [-> _]]|[_ [-> _]]]; cbn; auto. }
    assert (Hnoev : forall t, t <> u -> no_ev t cl).
    { intros t Hne. destruct Hkind as [[_ [-> _]]|[_ [-> _]]]; [apply no_ev_nil|]. apply no_ev_cons. split; [cbn; congruence | apply no_ev_nil]. }
    assert (Hmove : cl = [] /\ st' = gst G u \/ exists c, cl = [c] /\ tmove u (gst G u) c st').
    { destruct Hkind as [[_ [-> ->]]|[_ [-> [Est ->]]]]; [left; auto|]. right. eexists. split; [reflexivity|]. rewrite Est. constructor. }
    destruct (gpub_ok eqd cur G cl u st' (LI_GOK s G HL) Hlokcl Hnoev Hmove) as [HK [HG [Ggc [Ggcc [Ggb [GSE [GSEn [GI Gst]]]]]]]].
    set (G' := g_setst (g_pub G cur cl) u st') in *.
    exists G'. split.
    - eapply (LI_frame2 s G u s' ls G'); try eassumption.
      + rewrite Hc. exact HG.
      + rewrite Hc. exact HK.
      + intros t. pose proof (nonidle_step s u s' ls E) as Es. rewrite Hp in Es. rewrite (step_todo s u _ s' ls (Es ltac:(discriminate))). apply (li_todo s G HL).
      + intros j Hj. rewrite Hc in Hj. destruct (Nat.eq_dec j (S cur)) as [->|Hne].
        * rewrite GSEn. destruct Hkind as [[Hnc [-> _]]|[Hcl [-> _]]].
          -- cbn [X_linpoints.lrun]. destruct Habs as [[Hx _]|[_ Hsame]]; [contradiction|].
             eapply agree_iff; [|apply (li_agree s G HL cur (le_n _))]. intros k v. rewrite <- Habs'. apply Hsame.
          -- cbn [X_linpoints.lrun X_linpoints.spec_next]. destruct Habs as [[_ Hemp]|[Hx _]]; [|contradiction].
             intros k v. split; [intros Hv; exfalso; apply (Hemp k v); apply Habs'; exact Hv | discriminate].
        * assert (Hj' : j <= cur) by lia. rewrite (GSE j Hj').
          eapply agree_iff; [apply (vis_same s G u s' ls j HL E Hl Hj') | apply (li_agree s G HL j Hj')].
      + intros j Hj. rewrite Hc in Hj. destruct (Nat.eq_dec j cur) as [->|Hne].
        * rewrite Ggcc. destruct Hkind as [[Hnc [-> _]]|[_ [-> _]]]; [left | right; eexists; reflexivity].
          split; [reflexivity|]. intros w Hw.
          destruct (xstep_wtab eqd hash idx tag nslots seeds grow_needed shrink_policy probe nstripes minlen grow_only s u s' ls w cur HI E Hw) as [H|[_ [_ [cx0 H]]]].
          -- exact (publish_grow_quiet hash idx tag nslots nstripes s u kt (S cur) H5 Hp Hnc w H).
          -- rewrite Hp in H. discriminate H.
        * rewrite (Ggc j Hne). destruct (li_close s G HL j ltac:(lia)) as [[A B]|B]; [left | right; exact B].
          split; [exact A|]. intros w Hw. apply (B w).
          eapply (xstep_wtab_stale eqd hash idx tag nslots seeds grow_needed shrink_policy probe nstripes minlen grow_only); [exact HI | exact E | fold cur; lia | exact Hw].
      + rewrite Gst, Ep'. exact Htok.
      + intros j Ho. rewrite Ep' in Ho. discriminate Ho.
      + intros k lc tab h o0 Hr0. rewrite Ep' in Hr0. discriminate Hr0.
    - rewrite Hc, Hh, app_nil_r, GI, X_linpoints.erase_app.
      assert (Ecl : erase xop xres cl = []) by (destruct Hkind as [[_ [-> _]]|[_ [-> _]]]; reflexivity).
      rewrite Ecl, app_nil_r. reflexivity.
  Qed.

  (* ---------------- every step keeps the invariant and extends the history by its own events ---------------- *)

  Lemma idle_dec (p : pc) : {p = PIdle} + {p <> PIdle}.
  Proof. destruct p; (left; reflexivity) || (right; discriminate). Qed.

  Lemma publish_dec (p : pc) : {x | p = PR_Publish (fst x) (snd x)} + {forall kt new, p <> PR_Publish kt new}.
  Proof. destruct p; try (right; intros; discriminate). left. exists (kt, new). reflexivity. Qed.

  Lemma rdk_pend (p : pc) x : rdk p = Some x -> pend p = None.
  Proof. destruct p; cbn; intros E; try reflexivity; discriminate E. Qed.
  Lemma clr_pend (p : pc) : clr p = true -> pend p = None.
  Proof.
    destruct p; cbn [clr pend]; try discriminate; try reflexivity; intros H;
      repeat match type of H with context [match ?x with _ => _ end] => destruct x end; try discriminate H; reflexivity.
  Qed.
  Lemma kres_nc_kres (kt : @cont K V) r : kres_nc kt = Some r -> kres kt = Some r /\ ~ clear_kt kt.
  Proof.
    destruct kt as [cx|r0]; cbn; [discriminate|]. destruct r0; intros E; inversion E; subst; (split; [reflexivity|]); unfold clear_kt; discriminate.
  Qed.
  Lemma publish_hist s u kt new s' ls : step_pc s u (PR_Publish kt new) = Some (s', ls) -> xhist ls = [] /\ g_pc s' u = PR_FinLock kt.
  Proof.
    cbn [XMachine.step_pc]. intros E. apply some_pair9 in E. destruct E as [E1 E2]. subst. rewrite goto_pc. split; reflexivity.
  Qed.

  (* a step of a thread that is not idle and not inside Range / Size: as in X_linearizable.v *)
  Theorem LI_xstep_kept s G u s' ls : LI s G -> xstep s u = Some (s', ls) -> g_pc s u <> PIdle -> rgsz (g_pc s u) = false ->
    exists G', LI s' G' /\ erase xop xres (gI G' (g_cur s')) = erase xop xres (gI G (g_cur s)) ++ xhist ls.
  Proof.
    intros HL E Hni Hrg.
    pose proof (li_si s G HL) as [[[HI _] _] _].
    pose proof (nonidle_step s u s' ls E Hni) as Es.
    pose proof (xi_valid _ _ _ _ s HI u) as Hv.
    pose proof (li_tok s G HL u) as Htok.
    pose proof (step_todo s u _ s' ls Es) as Htd.
    assert (Hsil : forall (Hl : lres (g_pc s u) = None) (Hnp : forall kt new, g_pc s u <> PR_Publish kt new) (Hh : xhist ls = [])
                          (Ht : TOK2 (gst G u) (g_pc s' u)) (Hr : forall x, rdk (g_pc s' u) = Some x -> rdk (g_pc s u) = Some x),
               exists G', LI s' G' /\ erase xop xres (gI G' (g_cur s')) = erase xop xres (gI G (g_cur s)) ++ xhist ls).
    { intros Hl Hnp Hh Ht Hr. exists G. split; [apply (K_silent s G u s' ls HL E Hl Hnp Ht Hr)|].
      rewrite Hh, app_nil_r. rewrite (xstep_cur eqd hash idx tag nslots seeds grow_needed shrink_policy probe nstripes minlen grow_only s u s' ls HI E Hnp). reflexivity. }
    destruct (gst G u) as [|o|o r] eqn:Hst; cbn [TOK2 X_linpoints.TOK] in Htok.
    - (* the goroutine starts *)
      destruct Htok as [Hc|[Hps|Hr3]]; [contradiction| |rewrite Hrg in Hr3; discriminate Hr3]. rewrite Hps in Es. cbn [XMachine.step_pc] in Es. apply some_pair9 in Es. destruct Es as [E1 E2].
      assert (Ep' : g_pc s' u = PIdle) by (rewrite E1; cbn [fst]; apply set_pc_same7).
      apply Hsil; [rewrite Hps; reflexivity | rewrite Hps; intros; discriminate | rewrite E2; reflexivity | rewrite Ep'; left; reflexivity | rewrite Ep'; intros x X; discriminate X].
    - (* a call that has not taken effect yet *)
      destruct Htok as [Hpend Hkind].
      destruct o as [k|k f ev lie co| | |]; try contradiction.
      + (* Load *)
        destruct Hkind as [tab [h Hr]].
        destruct (L_rd eqd hash idx tag nslots seeds grow_needed shrink_policy probe nstripes minlen grow_only s u _ s' ls k LPlain tab h Es Hr)
          as [_ [Hc [[Hr' Hh]|[[v [Hh [Hp' Hhit]]]|[[_ [Hh [Hp' Hm]]]|[cx [Hx _]]]]]]].
        * apply Hsil; [eapply rdk_lres; exact Hr | intros kt new X; rewrite X in Hr; discriminate Hr | exact Hh | | intros x X; rewrite Hr' in X; rewrite Hr; exact X].
          cbn [TOK2 X_linpoints.TOK]. split; [eapply rdk_pend; exact Hr' | eexists; eexists; exact Hr'].
        * eapply K_rdhit; eassumption.
        * eapply K_rdmiss; eassumption.
        * discriminate Hx.
      + (* Compute *)
        destruct Hkind as [[Hlie [tab [h Hr]]]|[Hr [Hw Hdu]]].
        * (* the lock-free fast path of load-or-compute *)
          destruct (L_rd eqd hash idx tag nslots seeds grow_needed shrink_policy probe nstripes minlen grow_only s u _ s' ls k _ tab h Es Hr)
            as [_ [Hc [[Hr' Hh]|[[v [Hh [Hp' Hhit]]]|[[Hx _]|[cx [Hx [Hp' Hh]]]]]]]].
          -- apply Hsil; [eapply rdk_lres; exact Hr | intros kt new X; rewrite X in Hr; discriminate Hr | exact Hh | | intros x X; rewrite Hr' in X; rewrite Hr; exact X].
             cbn [TOK2 X_linpoints.TOK]. split; [eapply rdk_pend; exact Hr' | left; split; [exact Hlie | eexists; eexists; exact Hr']].
          -- eapply K_rdhit; eassumption.
          -- discriminate Hx.
          -- inversion Hx; subst cx.
             apply Hsil; [eapply rdk_lres; exact Hr | intros kt new X; rewrite X in Hr; discriminate Hr | exact Hh | | intros x X; rewrite Hp' in X; discriminate X].
             cbn [TOK2 X_linpoints.TOK]. rewrite Hp'. split; [reflexivity|]. right. split; [reflexivity|]. split; [reflexivity | intros _; reflexivity].
        * (* the locked path *)
          set (cx := {| cx_k := k; cx_f := f; cx_ev := ev; cx_lie := lie; cx_co := co |}) in *.
          destruct (publish_dec (g_pc s u)) as [[[kt new] Hpub]|Hnp].
          -- cbn [fst snd] in Hpub. rewrite Hpub in Es, Hw. destruct (publish_hist s u kt new s' ls Es) as [Hh Hp'].
             cbn [wcx] in Hw. destruct kt as [cx0|r0]; cbn [kcx] in Hw; [|discriminate Hw]. inversion Hw; subst cx0.
             eapply (K_publish s G u s' ls (KRetry cx) new [] (gst G u) HL E Hpub Hh).
             ++ left. split; [unfold clear_kt; discriminate | split; reflexivity].
             ++ rewrite Hst. cbn [TOK2 X_linpoints.TOK]. split; [reflexivity|]. right. split; [reflexivity|]. split; [reflexivity | intros _; reflexivity].
          -- destruct (L_wr eqd hash idx tag nslots seeds grow_needed shrink_policy probe nstripes minlen grow_only s u _ s' ls cx Hv Es Hpend Hr Hw)
               as [Hh [[Hl [Hp' [Hr' [Hw' Hdu']]]]|[[r [Hl Hp']]|[r [Hl [Hn Hp']]]]]].
             ++ apply Hsil; [exact Hl | exact Hnp | exact Hh | | intros x X; rewrite Hr' in X; discriminate X].
                cbn [TOK2 X_linpoints.TOK]. split; [exact Hp'|]. right. split; [exact Hr'|]. split; [exact Hw' | exact Hdu'].
             ++ eapply K_lin; eassumption.
             ++ eapply K_noop; eassumption.
      + (* Clear *)
        destruct (L_clr eqd hash idx tag nslots seeds grow_needed shrink_policy probe nstripes minlen grow_only s u _ s' ls Es Hkind)
          as [Hh [[Hc' Hnp]|[new [Hpub Hp']]]].
        * apply Hsil; [apply clr_lres; exact Hkind | exact Hnp | exact Hh | | intros x X; rewrite (clr_rdk _ Hc') in X; discriminate X].
          cbn [TOK2 X_linpoints.TOK]. split; [apply clr_pend; exact Hc' | exact Hc'].
        * eapply (K_publish s G u s' ls (KReturn XRUnit) new [ILin u XClear XRUnit] (TLinearized XClear XRUnit) HL E Hpub Hh).
          -- right. split; [reflexivity|]. split; [reflexivity|]. split; [exact Hst | reflexivity].
          -- cbn [TOK2 X_linpoints.TOK]. split; [exact I | reflexivity].
    - (* a call that has taken effect *)
      destruct Htok as [Hok Hpend].
      destruct (publish_dec (g_pc s u)) as [[[kt new] Hpub]|Hnp].
      + cbn [fst snd] in Hpub. rewrite Hpub in Es, Hpend. destruct (publish_hist s u kt new s' ls Es) as [Hh Hp'].
        cbn [pend] in Hpend. destruct (kres_nc_kres kt r Hpend) as [Hk Hnc].
        eapply (K_publish s G u s' ls kt new [] (gst G u) HL E Hpub Hh).
        * left. split; [exact Hnc | split; reflexivity].
        * rewrite Hst. cbn [TOK2 X_linpoints.TOK]. split; [exact Hok | exact Hk].
      + destruct (L_pend eqd hash idx tag nslots seeds grow_needed shrink_policy probe nstripes minlen grow_only s u _ s' ls r Es Hpend)
          as [[Hh Hp']|[Hh Hp']].
        * apply Hsil; [eapply pend_lres; exact Hpend | exact Hnp | exact Hh | | intros x X; rewrite (pend_rdk _ _ Hp') in X; discriminate X].
          cbn [TOK2 X_linpoints.TOK]. split; [exact Hok | exact Hp'].
        * eapply K_response; eassumption.
  Qed.

  (* ---------------- Range / Size: invocation and steps ---------------- *)

  Lemma tok2_rgsz st (p : pc) : TOK2 st p -> rgsz p = true -> st = TIdle.
  Proof.
    intros Ht Hr. destruct (rgsz_facts p Hr) as [A [B [C [D _]]]].
    destruct st as [|o|o r]; [reflexivity | |]; cbn [TOK2 X_linpoints.TOK] in Ht.
    - destruct Ht as [_ Ht]. destruct o; try contradiction.
      + destruct Ht as [tab [h X]]. rewrite B in X. discriminate X.
      + destruct Ht as [[_ [tab [h X]]]|[_ [X _]]]; [rewrite B in X | rewrite C in X]; discriminate X.
      + rewrite D in Ht. discriminate Ht.
    - destruct Ht as [_ Ht]. rewrite A in Ht. discriminate Ht.
  Qed.

  (* the invocation of a Range / Size: the thread enters it (or has already returned: an empty table) *)
  Lemma invoke_rs_pc s u s' ls o rest : g_pc s u = PIdle -> xstep s u = Some (s', ls) -> g_todo s u = o :: rest ->
    okopb o = false -> rgsz (g_pc s' u) = true \/ g_pc s' u = PIdle.
  Proof.
    intros Hp E Et Ho.
    rewrite (xstep_idle eqd hash idx tag nslots seeds grow_needed shrink_policy probe nstripes minlen grow_only s u Hp), Et in E.
    destruct (step_pc (xinvoke s u o rest) u (start_pc o)) as [[s2 ls2]|] eqn:E2;
      [|exfalso; exact (start_pc_blocks_not eqd hash idx tag nslots seeds grow_needed shrink_policy probe nstripes minlen grow_only _ _ _ E2)].
    inversion E; subst s' ls; clear E.
    pose proof (start_class o) as Hc. rewrite Ho in Hc.
    destruct (rgsz_step eqd hash idx tag nslots seeds grow_needed shrink_policy probe nstripes minlen grow_only _ _ _ _ _ E2 Hc) as [[A _]|[A _]]; auto.
  Qed.

  Lemma K_invoke_rs s G u s' ls o rest : LI s G -> xstep s u = Some (s', ls) -> g_pc s u = PIdle ->
    g_todo s u = o :: rest -> okopb o = false -> LI s' G /\ g_cur s' = g_cur s.
  Proof.
    intros HL E Hp Et Ho.
    pose proof (li_si s G HL) as [[[HI _] _] _].
    assert (Hnp : forall kt new, g_pc s u <> PR_Publish kt new) by (intros kt new; rewrite Hp; discriminate).
    pose proof (li_tok s G HL u) as Htok. rewrite Hp in Htok. apply tok_idle in Htok.
    split; [|apply (xstep_cur eqd hash idx tag nslots seeds grow_needed shrink_policy probe nstripes minlen grow_only s u s' ls HI E Hnp)].
    apply (K_silent s G u s' ls HL E); [rewrite Hp; reflexivity | exact Hnp | |].
    - rewrite Htok. cbn [TOK2]. destruct (invoke_rs_pc s u s' ls o rest Hp E Et Ho) as [H|H]; [right; right; exact H | left; exact H].
    - intros x X. destruct (invoke_rs_pc s u s' ls o rest Hp E Et Ho) as [H|H].
      + destruct (rgsz_facts _ H) as [_ [B _]]. rewrite B in X. discriminate X.
      + rewrite H in X. discriminate X.
  Qed.

  (* a step inside Range / Size *)
  Lemma K_rs s G u s' ls : LI s G -> xstep s u = Some (s', ls) -> rgsz (g_pc s u) = true -> LI s' G /\ g_cur s' = g_cur s.
  Proof.
    intros HL E Hr.
    pose proof (li_si s G HL) as [[[HI _] _] _].
    destruct (rgsz_facts _ Hr) as [_ [_ [_ [_ [Hl [_ [Hni Hnp]]]]]]].
    pose proof (nonidle_step s u s' ls E Hni) as Es.
    pose proof (tok2_rgsz _ _ (li_tok s G HL u) Hr) as Hst.
    assert (Hpc : rgsz (g_pc s' u) = true \/ g_pc s' u = PIdle).
    { destruct (rgsz_step eqd hash idx tag nslots seeds grow_needed shrink_policy probe nstripes minlen grow_only _ _ _ _ _ Es Hr) as [[A _]|[A _]]; auto. }
    split; [|apply (xstep_cur eqd hash idx tag nslots seeds grow_needed shrink_policy probe nstripes minlen grow_only s u s' ls HI E Hnp)].
    apply (K_silent s G u s' ls HL E Hl Hnp).
    - rewrite Hst. cbn [TOK2]. destruct Hpc as [H|H]; [right; right; exact H | left; exact H].
    - intros x X. destruct Hpc as [H|H].
      + destruct (rgsz_facts _ H) as [_ [B _]]. rewrite B in X. discriminate X.
      + rewrite H in X. discriminate X.
  Qed.

  (* ---------------- every step keeps the invariant and extends the history by its kept events ---------------- *)

  (* the events a step contributes to the history: none if the stepping thread is inside Range / Size or
     invokes one *)
  Definition hstep2 (s : xstate) (u : nat) (ls : list xlabel) : list (Lin.hev xop xres) :=
    if rgsz (g_pc s u) then []
    else match g_pc s u, g_todo s u with
         | PIdle, o :: _ => if okopb o then xhist ls else []
         | _, _ => xhist ls
         end.

  Lemma hstep2_kept s u ls : rgsz (g_pc s u) = false -> g_pc s u <> PIdle -> hstep2 s u ls = xhist ls.
  Proof. intros Hr Hn. unfold hstep2. rewrite Hr. destruct (g_pc s u); try reflexivity. exfalso; apply Hn; reflexivity. Qed.

  Theorem LI_xstep s G u s' ls : LI s G -> xstep s u = Some (s', ls) ->
    exists G', LI s' G' /\ erase xop xres (gI G' (g_cur s')) = erase xop xres (gI G (g_cur s)) ++ hstep2 s u ls.
  Proof.
    intros HL E.
    destruct (idle_dec (g_pc s u)) as [Hid|Hni].
    - unfold hstep2. rewrite Hid. cbn [rgsz].
      destruct (g_todo s u) as [|o rest] eqn:Et.
      + exfalso. unfold XMachine.xstep in E. rewrite Hid, Et in E. discriminate E.
      + destruct (okopb o) eqn:Eo.
        * apply (K_invoke s G u s' ls HL E Hid). intros o' rest' Et'. rewrite Et in Et'. inversion Et'; subst o'. apply okopb_ok. exact Eo.
        * destruct (K_invoke_rs s G u s' ls o rest HL E Hid Et Eo) as [HL' Hc]. exists G. split; [exact HL'|]. rewrite Hc, app_nil_r. reflexivity.
    - destruct (rgsz (g_pc s u)) eqn:Hrg.
      + destruct (K_rs s G u s' ls HL E Hrg) as [HL' Hc]. exists G. split; [exact HL'|].
        unfold hstep2. rewrite Hrg, Hc, app_nil_r. reflexivity.
      + rewrite (hstep2_kept s u ls Hrg Hni). apply (LI_xstep_kept s G u s' ls HL E Hni Hrg).
  Qed.

  (* ---------------- runs ---------------- *)

  (* the history of a run: the kept events of its steps *)
  Fixpoint xrunh (s : xstate) (sched : list nat) : list (Lin.hev xop xres) :=
    match sched with
    | [] => []
    | u :: rest =>
        match xstep s u with
        | Some (s', ls) => hstep2 s u ls ++ xrunh s' rest
        | None => xrunh s rest
        end
    end.

  Theorem LI_xrun sched : forall s G, LI s G ->
    exists G', LI (fst (xrun s sched)) G'
      /\ erase xop xres (gI G' (g_cur (fst (xrun s sched)))) = erase xop xres (gI G (g_cur s)) ++ xrunh s sched.
  Proof.
    induction sched as [|u r IH]; intros s G HL; cbn [XMachine.xrun xrunh].
    - exists G. split; [exact HL|]. cbn. rewrite app_nil_r. reflexivity.
    - destruct (xstep s u) as [[s1 ls1]|] eqn:E.
      + destruct (LI_xstep s G u s1 ls1 HL E) as [G1 [HL1 E1]].
        destruct (IH s1 G1 HL1) as [G2 [HL2 E2]].
        destruct (XMachine.xrun _ _ _ _ _ _ _ _ _ _ _ _ s1 r) as [s2 ls2]. cbn [fst snd] in *.
        exists G2. split; [exact HL2|]. rewrite E2, E1, app_assoc. reflexivity.
      + apply IH. exact HL.
  Qed.

  Definition G0 : ghost := {| gb := fun _ => []; gc := fun _ => []; gst := fun _ => TIdle |}.

  Lemma vis_new len seed k v : ~ vis (new_xtable nslots nstripes len seed) k v.
  Proof.
    unfold X_lin.vis, X_chain.cvis, X_chain.tag_at. intros [pos [_ [Ht _]]]. apply Ht.
    unfold chain_of, new_xtable. cbn [x_chains].
    set (b := home hash idx _ k). clearbody b.
    set (l := repeat (repeat (@empty_slot K V) nslots) len).
    assert (Hsl : nth pos (nth b l []) empty_slot = @empty_slot K V); [|rewrite Hsl; reflexivity].
    destruct (nth_in_or_default b l []) as [Hin|Hd].
    - apply repeat_spec in Hin. rewrite Hin.
      destruct (nth_in_or_default pos (repeat (@empty_slot K V) nslots) empty_slot) as [Hin2|Hd2]; [apply repeat_spec in Hin2; exact Hin2 | exact Hd2].
    - rewrite Hd. destruct pos; reflexivity.
  Qed.

  Lemma LI_init len0 todo : 0 < len0 -> (forall t, Forall okop2 (todo t)) -> LI (xinit nslots seeds nstripes len0 todo) G0.
  Proof.
    intros Hl Htodo. constructor.
    - apply (SI_reachable eqd hash idx tag nslots seeds grow_needed shrink_policy probe nstripes minlen grow_only
               Hidx Hstripes Hminlen Hnslots Hprobe_sound Hprobe_complete len0 todo [] Hl).
    - intros t. exact I.
    - exact Htodo.
    - split; [reflexivity | intros j _; split; reflexivity].
    - exact I.
    - intros j Hj. cbn in Hj. assert (j = 0) by lia. subst j. intros k v. split.
      + intros Hv. exfalso. exact (vis_new _ _ k v Hv).
      + discriminate.
    - intros j Hj. cbn in Hj. lia.
    - intros t. cbn. constructor.
    - intros t. right; left. reflexivity.
    - intros t j Ho. discriminate Ho.
    - intros t k lc tab h o Hr. discriminate Hr.
  Qed.

  (* every run, whatever its todo lists, is linearizable once Range / Size are dropped *)
  Theorem xmachine_linearizable2 len0 todo sched : 0 < len0 ->
    linearizable xop xres (amap K V) xspec aempty (xrunh (xinit nslots seeds nstripes len0 todo) sched).
  Proof.
    intros Hl.
    destruct (LI_xrun sched _ G0 (LI_init len0 todo Hl (fun t => all_ok2 _))) as [G' [HL E]].
    set (s' := fst (xrun (xinit nslots seeds nstripes len0 todo) sched)) in *.
    exists (gI G' (g_cur s')). split; [|split].
    - rewrite E. reflexivity.
    - apply tproto_wf. intros t. exists (gst G' t). apply (li_tp s' G' HL t).
    - apply lok_legal. apply (li_lok s' G' HL).
  Qed.

End LinInv.

(* ---------------- the history of a run as a filter of its labels ---------------- *)

Section Consistency.
  Context {K V : Type}.
  Variable eqd : forall a b : K, {a = b} + {a <> b}.
  Variable hash : K -> N -> N.
  Variable idx : N -> nat -> nat.
  Variable tag : N -> N.
  Variable nslots : nat.
  Variable seeds : nat -> N.
  Variable grow_needed shrink_policy : nat -> Z -> bool.
  Variable probe : list (option N) -> N -> list nat.
  Variable nstripes : nat -> nat.
  Variable minlen : nat.
  Variable grow_only : bool.
  Notation xstate := (@xstate K V).
  Notation xop := (@xop K V).
  Notation xres := (@xres K V).
  Notation pc := (@pc K V).
  Notation xlabel := (@xlabel K V).
  Notation hev := (Lin.hev xop xres).
  Notation step_pc := (@step_pc K V eqd hash idx tag nslots seeds grow_needed shrink_policy probe nstripes minlen grow_only).
  Notation xstep := (@xstep K V eqd hash idx tag nslots seeds grow_needed shrink_policy probe nstripes minlen grow_only).
  Notation xrun := (@xrun K V eqd hash idx tag nslots seeds grow_needed shrink_policy probe nstripes minlen grow_only).
  Notation xrunh := (@xrunh K V eqd hash idx tag nslots seeds grow_needed shrink_policy probe nstripes minlen grow_only).
  Notation xhist := (@X_linpoints.xhist K V).

  (* drop the invocations of Range / Size and the responses to them; d t = thread t is inside a dropped call *)
  Fixpoint hkeep (d : nat -> bool) (h : list hev) : list hev :=
    match h with
    | [] => []
    | HInv t o :: r => if okopb o then HInv t o :: hkeep d r else hkeep (upd d t true) r
    | HRes t x :: r => if d t then hkeep (upd d t false) r else HRes t x :: hkeep d r
    end.

  Fixpoint fafter (d : nat -> bool) (h : list hev) : nat -> bool :=
    match h with
    | [] => d
    | HInv t o :: r => if okopb o then fafter d r else fafter (upd d t true) r
    | HRes t x :: r => if d t then fafter (upd d t false) r else fafter d r
    end.

  Lemma hkeep_app a : forall d b, hkeep d (a ++ b) = hkeep d a ++ hkeep (fafter d a) b.
  Proof.
    induction a as [|[t o|t x] a IH]; intros d b; cbn [app hkeep fafter]; [reflexivity| |].
    - destruct (okopb o); [rewrite IH; reflexivity | apply IH].
    - destruct (d t); [apply IH | rewrite IH; reflexivity].
  Qed.

  Lemma hkeep_ext h : forall d d', (forall t, d t = d' t) -> hkeep d h = hkeep d' h.
  Proof.
    induction h as [|[t o|t x] h IH]; intros d d' He; cbn [hkeep]; [reflexivity| |].
    - destruct (okopb o); [rewrite (IH d d' He); reflexivity|].
      apply IH. intros t'. unfold upd. destruct (Nat.eq_dec t' t); [reflexivity | apply He].
    - rewrite <- (He t). destruct (d t); [|rewrite (IH d d' He); reflexivity].
      apply IH. intros t'. unfold upd. destruct (Nat.eq_dec t' t); [reflexivity | apply He].
  Qed.

  Definition dflag (s : xstate) : nat -> bool := fun t => rgsz (g_pc s t).

  Definition class (p : pc) : Prop := p = PStart \/ p = PIdle \/ rgsz p = true \/ keptx p = true.
  Definition CL (s : xstate) : Prop := forall t, class (g_pc s t).

  Lemma class_wake (p : pc) : class p -> class (wake p).
  Proof.
    intros [->|[->|[H|H]]]; [left; reflexivity | right; left; reflexivity | |].
    - right; right; left. rewrite rgsz_wake. exact H.
    - right; right; right. rewrite keptx_wake. exact H.
  Qed.

  Lemma pc_idle_dec (p : pc) : {p = PIdle} + {p <> PIdle}.
  Proof. destruct p; first [left; reflexivity | right; discriminate]. Qed.

  (* what is left to check once the new program counter of the stepping thread and its events are known *)
  Lemma cons_finish s u s' (h kh : list hev) :
    CL s ->
    (forall t, t <> u -> g_pc s' t = g_pc s t \/ g_pc s' t = wake (g_pc s t)) ->
    class (g_pc s' u) ->
    kh = hkeep (dflag s) h ->
    fafter (dflag s) h u = rgsz (g_pc s' u) ->
    (forall t, t <> u -> fafter (dflag s) h t = dflag s t) ->
    CL s' /\ kh = hkeep (dflag s) h /\ (forall t, fafter (dflag s) h t = dflag s' t).
  Proof.
    intros HC Hoth Hcu Hk Hfu Hft. split; [|split; [exact Hk|]].
    - intros t. destruct (Nat.eq_dec t u) as [->|Hn]; [exact Hcu|].
      destruct (Hoth t Hn) as [Ep|Ep]; rewrite Ep; [apply HC | apply class_wake; apply HC].
    - intros t. destruct (Nat.eq_dec t u) as [->|Hn]; [exact Hfu|].
      rewrite (Hft t Hn). unfold dflag. destruct (Hoth t Hn) as [Ep|Ep]; rewrite Ep; [reflexivity | rewrite rgsz_wake; reflexivity].
  Qed.

  Lemma upd_other {X} (f : nat -> X) u x t : t <> u -> upd f u x t = f t.
  Proof. intros Hn. unfold upd. destruct (Nat.eq_dec t u); [contradiction | reflexivity]. Qed.
  Lemma upd_same {X} (f : nat -> X) u x : upd f u x u = x.
  Proof. unfold upd. destruct (Nat.eq_dec u u); [reflexivity | congruence]. Qed.

  Ltac cf1 := cbn [hkeep fafter]; rewrite ?upd_same;
              try (match goal with H : okopb _ = _ |- _ => rewrite H end);
              try (match goal with H : dflag _ _ = _ |- _ => rewrite H end).
  Ltac cf := cf1; cf1; cf1.

  Lemma cons_step s u s' ls : CL s -> xstep s u = Some (s', ls) ->
    CL s' /\ hstep2 s u ls = hkeep (dflag s) (xhist ls) /\ (forall t, fafter (dflag s) (xhist ls) t = dflag s' t).
  Proof.
    intros HC E.
    destruct (pc_idle_dec (g_pc s u)) as [Hp|Hp].
    - (* an invocation *)
      rewrite (xstep_idle eqd hash idx tag nslots seeds grow_needed shrink_policy probe nstripes minlen grow_only s u Hp) in E.
      destruct (g_todo s u) as [|o rest] eqn:Et; [discriminate E|].
      destruct (step_pc (xinvoke s u o rest) u (start_pc o)) as [[s2 ls2]|] eqn:E2;
        [|exfalso; exact (start_pc_blocks_not eqd hash idx tag nslots seeds grow_needed shrink_policy probe nstripes minlen grow_only _ _ _ E2)].
      inversion E; subst s' ls; clear E.
      assert (Hoth : forall t, t <> u -> g_pc s2 t = g_pc s t \/ g_pc s2 t = wake (g_pc s t)).
      { intros t Hn. destruct (step_pc_others eqd hash idx tag nslots seeds grow_needed shrink_policy probe nstripes minlen grow_only _ _ _ _ _ E2 t Hn) as [A|A];
          rewrite A; cbn [xinvoke g_pc]; (destruct (Nat.eq_dec t u) as [Hc|_]; [contradiction|]); auto. }
      assert (Hdu : dflag s u = false) by (unfold dflag; rewrite Hp; reflexivity).
      pose proof (start_class o) as Hc.
      unfold hstep2. rewrite Hp. cbn [rgsz]. rewrite Et. cbn [X_linpoints.xhist].
      destruct (okopb o) eqn:Eo.
      + destruct (keptx_step eqd hash idx tag nslots seeds grow_needed shrink_policy probe nstripes minlen grow_only _ _ _ _ _ E2 Hc) as [[A B]|[A [r B]]];
          rewrite B; apply (cons_finish s u s2 _ _ HC Hoth).
        * right; right; right; exact A.
        * cf. reflexivity.
        * cf. rewrite (keptx_rgsz _ A). first [exact Hdu | reflexivity].
        * intros t Hn. cf. reflexivity.
        * right; left; exact A.
        * cf. reflexivity.
        * cf. rewrite A. first [exact Hdu | reflexivity].
        * intros t Hn. cf. reflexivity.
      + destruct (rgsz_step eqd hash idx tag nslots seeds grow_needed shrink_policy probe nstripes minlen grow_only _ _ _ _ _ E2 Hc) as [[A B]|[A [r B]]];
          rewrite B; apply (cons_finish s u s2 _ _ HC Hoth).
        * right; right; left; exact A.
        * cf. reflexivity.
        * cf. rewrite A. reflexivity.
        * intros t Hn. cf. apply upd_other. exact Hn.
        * right; left; exact A.
        * cf. reflexivity.
        * cf. rewrite A. reflexivity.
        * intros t Hn. cf. rewrite !upd_other by exact Hn. reflexivity.
    - rewrite (xstep_nonidle eqd hash idx tag nslots seeds grow_needed shrink_policy probe nstripes minlen grow_only s u Hp) in E.
      pose proof (step_pc_others eqd hash idx tag nslots seeds grow_needed shrink_policy probe nstripes minlen grow_only _ _ _ _ _ E) as Hoth.
      destruct (HC u) as [Hs|[Hi|[Hr|Hk]]]; [| contradiction | |].
      + (* the goroutine starts *)
        assert (Hdu : dflag s u = false) by (unfold dflag; rewrite Hs; reflexivity).
        rewrite Hs in E. cbn [XMachine.step_pc] in E. inversion E; subst s' ls; clear E.
        assert (Epc : g_pc (set_pc s u PIdle) u = PIdle) by (cbn [set_pc g_pc]; destruct (Nat.eq_dec u u); congruence).
        unfold hstep2. rewrite Hs. cbn [rgsz X_linpoints.xhist].
        apply (cons_finish s u (set_pc s u PIdle) _ _ HC).
        * intros t Hn. left. cbn [set_pc g_pc]. destruct (Nat.eq_dec t u); [contradiction | reflexivity].
        * right; left; exact Epc.
        * reflexivity.
        * cbn [fafter]. rewrite Epc. first [exact Hdu | reflexivity].
        * intros t Hn. reflexivity.
      + (* inside Range / Size *)
        assert (Hdu : dflag s u = true) by exact Hr.
        unfold hstep2. rewrite Hr.
        destruct (rgsz_step eqd hash idx tag nslots seeds grow_needed shrink_policy probe nstripes minlen grow_only _ _ _ _ _ E Hr) as [[A B]|[A [r B]]];
          rewrite B; apply (cons_finish s u s' _ _ HC Hoth).
        * right; right; left; exact A.
        * reflexivity.
        * cf. rewrite A. first [exact Hdu | reflexivity].
        * intros t Hn. reflexivity.
        * right; left; exact A.
        * cf. reflexivity.
        * cf. rewrite A. reflexivity.
        * intros t Hn. cf. apply upd_other. exact Hn.
      + (* inside a kept call *)
        assert (Hdu : dflag s u = false) by (apply keptx_rgsz; exact Hk).
        rewrite (hstep2_kept s u ls Hdu Hp).
        destruct (keptx_step eqd hash idx tag nslots seeds grow_needed shrink_policy probe nstripes minlen grow_only _ _ _ _ _ E Hk) as [[A B]|[A [r B]]];
          rewrite B; apply (cons_finish s u s' _ _ HC Hoth).
        * right; right; right; exact A.
        * reflexivity.
        * cf. rewrite (keptx_rgsz _ A). first [exact Hdu | reflexivity].
        * intros t Hn. reflexivity.
        * right; left; exact A.
        * cf. reflexivity.
        * cf. rewrite A. first [exact Hdu | reflexivity].
        * intros t Hn. cf. reflexivity.
  Qed.

  Theorem cons_run sched : forall s, CL s -> xrunh s sched = hkeep (dflag s) (xhist (snd (xrun s sched))).
  Proof.
    induction sched as [|u r IH]; intros s HC; cbn [X_linearizable2.xrunh XMachine.xrun]; [reflexivity|].
    destruct (xstep s u) as [[s1 ls1]|] eqn:E; [|apply IH; exact HC].
    destruct (cons_step s u s1 ls1 HC E) as [HC1 [Hk Hf]].
    specialize (IH s1 HC1). destruct (xrun s1 r) as [s2 ls2]. cbn [snd] in *.
    rewrite xhist_app, hkeep_app, Hk, IH. f_equal. apply hkeep_ext. intros t. symmetry. apply Hf.
  Qed.

  Theorem xrunh_hkeep len0 todo sched :
    xrunh (xinit nslots seeds nstripes len0 todo) sched
    = hkeep (fun _ => false) (xhist (snd (xrun (xinit nslots seeds nstripes len0 todo) sched))).
  Proof. apply (cons_run sched (xinit nslots seeds nstripes len0 todo)). intros t. left. reflexivity. Qed.

End Consistency.

(* ---------------- the statements for the instance-free hypotheses xhyps4 ---------------- *)
Section Final2.
  Context {K V : Type}.
  Variable eqd : forall a b : K, {a = b} + {a <> b}.
  Variable hash : K -> N -> N.
  Variable idx : N -> nat -> nat.
  Variable tag : N -> N.
  Variable nslots : nat.
  Variable seeds : nat -> N.
  Variable grow_needed shrink_policy : nat -> Z -> bool.
  Variable probe : list (option N) -> N -> list nat.
  Variable nstripes : nat -> nat.
  Variable minlen : nat.
  Variable grow_only : bool.

  Notation xrun := (@xrun K V eqd hash idx tag nslots seeds grow_needed shrink_policy probe nstripes minlen grow_only).
  Notation xrunh := (@xrunh K V eqd hash idx tag nslots seeds grow_needed shrink_policy probe nstripes minlen grow_only).

  (* every run of XMachine -- Load, Compute family, Clear, Range, Size in any mix -- is linearizable w.r.t.
     an ordinary map once the invocations of Range / Size and the responses to them are dropped *)
  Theorem xmachine_linearizable2_proof :
    xhyps4 idx nstripes minlen nslots probe -> forall len0 todo sched, 0 < len0 ->
    linearizable (@xop K V) (@xres K V) (amap K V) (xspec eqd) aempty
      (hkeep (fun _ => false) (xhist (snd (xrun (xinit nslots seeds nstripes len0 todo) sched)))).
  Proof.
    intros [[H1 [H2 H3]] [H4 [H5 H6]]] len0 todo sched Hl.
    rewrite <- (xrunh_hkeep eqd hash idx tag nslots seeds grow_needed shrink_policy probe nstripes minlen grow_only).
    exact (xmachine_linearizable2 eqd hash idx tag nslots seeds grow_needed shrink_policy probe nstripes minlen grow_only
             H1 H2 H3 H4 H5 H6 len0 todo sched Hl).
  Qed.

  (* the same, stepwise: the history as the kept events of the steps *)
  Theorem xmachine_linearizable2_steps :
    xhyps4 idx nstripes minlen nslots probe -> forall len0 todo sched, 0 < len0 ->
    linearizable (@xop K V) (@xres K V) (amap K V) (xspec eqd) aempty (xrunh (xinit nslots seeds nstripes len0 todo) sched).
  Proof.
    intros [[H1 [H2 H3]] [H4 [H5 H6]]] len0 todo sched Hl.
    exact (xmachine_linearizable2 eqd hash idx tag nslots seeds grow_needed shrink_policy probe nstripes minlen grow_only
             H1 H2 H3 H4 H5 H6 len0 todo sched Hl).
  Qed.

  (* when no Range / Size is called the filter is the identity: X_linearizable.v's theorem is the special case *)
  Lemma hkeep_okop (h : list (hev (@xop K V) (@xres K V))) :
    (forall t o, In (HInv t o) h -> okop o) -> hkeep (fun _ => false) h = h.
  Proof.
    induction h as [|[t o|t x] h IH]; intros Hok; cbn [hkeep]; [reflexivity| |].
    - assert (Ho : okopb o = true) by (apply okopb_ok; apply (Hok t); left; reflexivity).
      rewrite Ho, IH; [reflexivity|]. intros t' o' Hi. apply (Hok t'). right. exact Hi.
    - rewrite IH; [reflexivity|]. intros t' o' Hi. apply (Hok t'). right. exact Hi.
  Qed.

End Final2.

Print Assumptions xmachine_linearizable2_proof.
Print Assumptions xmachine_linearizable2_steps.

(* ---------------- the executable instance, and a run with a Range and a Size ---------------- *)
From CacheV Require Import TabExec Exec XExec.
From CacheV.gen Require Import Params.
From CacheV.proofs Require Import X_swar.

Theorem xmachine_linearizable2_instance :
  forall (o : oracle) (sds : list N) (hint : Z) (todo : nat -> list xop_z) sched,
    linearizable xop_z (@xres Z Z) (amap Z Z) (xspec zeqd) aempty
      (hkeep (fun _ => false)
         (xhist (snd (@xrun Z Z zeqd (hash_of o) idx_mapof tag_mapof (Z.to_nat entriesPerMapOfBucket) (seeds_of sds)
                            grow_needed_m shrink_policy_m probe_x nstripes_x (minlen_of_hint true hint) false
                            (x_machine_init sds hint todo) sched)))).
Proof.
  intros o sds hint todo sched.
  apply (xmachine_linearizable2_proof zeqd (hash_of o) idx_mapof tag_mapof (Z.to_nat entriesPerMapOfBucket) (seeds_of sds)
           grow_needed_m shrink_policy_m probe_x nstripes_x (minlen_of_hint true hint) false (x_instance_hyps4 hint)
           (minlen_of_hint true hint) todo sched).
  destruct (x_instance_hyps4 hint) as [[_ [_ H]] _]. exact H.
Qed.
Print Assumptions xmachine_linearizable2_instance.

(* thread 0: Store 7 := 1, Range, Size; thread 1: Load 7 (overlapping the Range), Delete 7.  The Range visits (7, 1)
   and the Size answers 1; neither appears in the history that is linearized. *)
Definition ex2_run (todo : nat -> list xop_z) (sched : list nat) :=
  @xrun Z Z zeqd (hash_of []) idx_mapof tag_mapof (Z.to_nat entriesPerMapOfBucket) (seeds_of [])
        grow_needed_m shrink_policy_m probe_x nstripes_x (minlen_of_hint true 0%Z) false
        (x_machine_init [] 0%Z todo) sched.
Definition ex2_todo (t : nat) : list xop_z :=
  match t with O => [x_store 7%Z 1%Z; XRange; XSize] | S O => [XLoad 7%Z; x_loadanddelete 7%Z] | _ => [] end.
Definition ex2_sched : list nat := repeat 0 20 ++ repeat 1 4 ++ repeat 0 80 ++ repeat 1 30 ++ repeat 0 40.

Example range_size_dropped :
  xhist (snd (ex2_run ex2_todo ex2_sched))
  = [HInv 0 (x_store 7%Z 1%Z); HRes 0 (XRVal (Some 1%Z) false); HInv 0 XRange;
     HInv 1 (XLoad 7%Z); HRes 1 (XRVal (Some 1%Z) true);
     HRes 0 XRUnit; HInv 0 XSize; HRes 0 (XRNat 1%Z);
     HInv 1 (x_loadanddelete 7%Z); HRes 1 (XRVal (Some 1%Z) true)]
  /\ hkeep (fun _ => false) (xhist (snd (ex2_run ex2_todo ex2_sched)))
  = [HInv 0 (x_store 7%Z 1%Z); HRes 0 (XRVal (Some 1%Z) false);
     HInv 1 (XLoad 7%Z); HRes 1 (XRVal (Some 1%Z) true);
     HInv 1 (x_loadanddelete 7%Z); HRes 1 (XRVal (Some 1%Z) true)]
  /\ filter (fun l => match l with XVisit _ _ _ => true | _ => false end) (snd (ex2_run ex2_todo ex2_sched))
  = [XVisit 0 7%Z 1%Z].
Proof. split; [|split]; vm_compute; reflexivity. Qed.
