(* CXT_mapof.v -- the cache methods over XMachine (MapOf) with a TICKING clock.

   The product machine of CXT_product.v instantiated with XMachine (the interface lemmas
   are CX_mapof.v's: xp_frame, xp_proto, xp_mrun; H_lin is
   X_linearizable.xmachine_linearizable_proof) and the translation of CX_trans.v, the
   closure of a Compute being given the clock of the instant the call is handed to the
   map ([xtrT mo c = translate (env0 c DFLT) mo]).

   [cache_over_xmachine_linearizable_ticking]: every TICK-SAFE run (no tick while a
   Compute call is in flight: CXT_product.tick_safe) of the cache methods of CacheModel
   over XMachine -- every map call executed primitive by primitive, interleaved with
   everybody else's steps and with ticks of the clock -- from the empty cache is
   linearizable in the sense of LinT.v.  [cacheof_over_xmachine_linearizable_ticking]:
   the same for the twin text. *)
From CacheV Require Import Base SpecMap Client CacheModel CacheOfModel Ops SpecTTL Lin LinT Conc ConcT XMachine.
From CacheV.gen Require Import Params.
From CacheV.proofs Require Import C01_sim C01_hist C02_good C02_lin X_basic X_lin X_linpoints X_linearizable
  CX_trans CX_compose CX_product CX_mapof LinT_facts C02T_good C02T_methods C02T_lin C02T_main C02T_methods_of
  CXT_compose CXT_product.
From Coq Require Import NArith.
Local Open Scope nat_scope.

(* ---------------- the translation with the clock of the call ---------------- *)

Section TransE.
  Context {K V : Type}.
  Variable eqd : forall a b : K, {a = b} + {a <> b}.
  Variable DFLT : Z.

  Notation item := (item V).
  Notation emop := (@emop K V).
  Notation xop := (@xop K item).
  Notation xres := (@xres K item).

  Definition xtrT (mo : cmop K V) (c : Z) : xop := translate (Conc.env0 c DFLT) mo.
  Definition xbkT (mo : cmop K V) (c : Z) (r : xres) : imres K V := back (Conc.env0 c DFLT) mo r.

  (* a history of cache map calls (each with the clock of its closure) that is the image of a
     linearizable history of XMachine operations is linearizable w.r.t. one map_step per call *)
  Theorem mapof_lin_transferE hx hm :
    hrel (trE _ xtrT) (bkE _ xbkT) (fun o : emop => mapcall_ok (fst o)) (fun _ => None) hx hm ->
    linearizable xop xres (amap K item) (xspec eqd) aempty hx ->
    linearizable emop (imres K V) (Base.amap K item) (cmspecE eqd DFLT) [] hm.
  Proof.
    intros Hh Hl.
    eapply (lin_transfer xop xres (amap K item) (xspec eqd) emop (imres K V) (Base.amap K item) (cmspecE eqd DFLT)
              (trE _ xtrT) (bkE _ xbkT) (fun o : emop => mapcall_ok (fst o)) (Rst eqd)); [|apply Rst_empty|exact Hh|exact Hl].
    intros s1 s2 [mo c] r s1' HR Hok Hs. cbn [fst] in Hok.
    exact (trans_sim eqd (Conc.env0 c DFLT) s1 s2 mo r s1' HR Hok Hs).
  Qed.

End TransE.

(* ---------------- the cache over XMachine, the clock ticking ---------------- *)

Section CacheOverXMachineT.
  Context {K V : Type}.
  Variable eqd : forall a b : K, {a = b} + {a <> b}.
  Variable hash : K -> N -> N.
  Variable idx : N -> nat -> nat.
  Variable tag : N -> N.
  Variable nslots : nat.
  Variable seeds : nat -> N.
  Variable grow_needed shrink_policy : nat -> Z -> bool.
  Variable probe : list (option N) -> N -> list nat.
  Variable nstripes : nat -> nat.
  Variable minlen : nat.
  Variable grow_only : bool.
  Variable len0 : nat.
  Variable progs : cop K V -> prog K V (cres K V).
  Variable DFLT : Z.
  Variable CB : cbid.

  Notation item := (item V).
  Notation xstate := (@xstate K item).
  Notation xop := (@xop K item).
  Notation xres := (@xres K item).
  Notation xp_step := (@xp_step K item eqd hash idx tag nslots seeds grow_needed shrink_policy probe nstripes minlen grow_only).
  Notation xp_init := (@xp_init K V nslots seeds nstripes len0).

  Definition cxstepT := pstepT progs DFLT CB xstate xop xres xp_step (@g_todo K item) with_todo (xtrT DFLT) (xbkT DFLT) xsup.
  Definition cxrunT := prunT progs DFLT CB xstate xop xres xp_step (@g_todo K item) with_todo (xtrT DFLT) (xbkT DFLT) xsup.
  Definition cxinitT (now0 : Z) (todo : nat -> list (cop K V)) : pconfT xstate := pinitT xstate xop xp_init now0 todo.

  (* the cache-level history of a run, ticks included *)
  Definition cxhistT (now0 : Z) (todo : nat -> list (cop K V)) (sched : list (@move K V)) : list (hevT (cop K V) (cres K V)) :=
    cprojT (snd (fst (cxrunT (cxinitT now0 todo) sched))).

  (* THE ASSUMPTION: every tick of the run happens while no Compute call is in flight *)
  Definition cxsafeT (now0 : Z) (todo : nat -> list (cop K V)) (sched : list (@move K V)) : Prop :=
    tick_safe progs DFLT CB xstate xop xres xp_step (@g_todo K item) with_todo (xtrT DFLT) (xbkT DFLT) xsup
              (cxinitT now0 todo) sched.

  (* the assumption, decided, for runs of the threads 0 .. n-1 *)
  Definition cxsafebT (n : nat) (now0 : Z) (todo : nat -> list (cop K V)) (sched : list (@move K V)) : bool :=
    tick_safeb progs DFLT CB xstate xop xres xp_step (@g_todo K item) with_todo (xtrT DFLT) (xbkT DFLT) xsup
               n (cxinitT now0 todo) sched.

  Lemma cxsafebT_sound n now0 todo sched :
    (forall t, n <= t -> todo t = []) -> cxsafebT n now0 todo sched = true -> cxsafeT now0 todo sched.
  Proof.
    intros Htd Hb. unfold cxsafeT. eapply tick_safeb_sound; [|exact Hb]. apply dormant_init. exact Htd.
  Qed.

  Hypothesis Hx : xhyps4 idx nstripes minlen nslots probe.
  Hypothesis Hlen : 0 < len0.

  Theorem xproductT_all (P : list (hevT (cop K V) (cres K V)) -> Prop) now0 todo sched :
    (forall sched', P (historyT (snd (trun eqd progs DFLT CB (tinit now0 [] todo) sched')))) ->
    cxsafeT now0 todo sched ->
    P (cxhistT now0 todo sched).
  Proof.
    intros Hall Hs.
    change (cxhistT now0 todo sched) with
      (phistT progs DFLT CB xstate xop xres xp_step (@g_todo K item) with_todo xp_init (xtrT DFLT) (xbkT DFLT) xsup now0 todo sched).
    apply (productT_all eqd progs DFLT CB xstate xop xres (X_linpoints.amap K item)
             xp_step (@g_todo K item) with_todo (@xidle K item) xp_init (xspec eqd) (aempty (K:=K) (V:=item)) (okop (K:=K) (V:=item))
             (xtrT DFLT) (xbkT DFLT) xsup); try exact Hall; try exact Hs.
    - intros s td t. reflexivity.
    - intros s td t. split; intros H; exact H.
    - intros s a b. reflexivity.
    - intros td t. reflexivity.
    - intros td t. left. reflexivity.
    - intros a b. reflexivity.
    - intros s t s' h td fut. apply xp_frame.
    - intros s t s' h. apply xp_proto.
    - intros o c Ho. apply translate_okop. unfold mokT in Ho. destruct o; cbn in Ho |- *; try exact I; discriminate Ho.
    - intros td sched0 Htd. rewrite xp_mrun.
      apply (xmachine_linearizable_proof eqd hash idx tag nslots seeds grow_needed shrink_policy probe nstripes minlen grow_only
               Hx len0 td sched0 Hlen Htd).
    - intros hx hm Hh Hl. apply (mapof_lin_transferE eqd DFLT hx hm); [|exact Hl].
      eapply hrel_ok_mono; [|exact Hh]. intros [o c] Ho. unfold mokE, mokT in Ho. cbn [fst] in *.
      destruct o; cbn in Ho |- *; try exact I; discriminate Ho.
  Qed.

End CacheOverXMachineT.

Section FinalT.
  Context {K V : Type}.
  Variable eqd : forall a b : K, {a = b} + {a <> b}.
  Variable hash : K -> N -> N.
  Variable idx : N -> nat -> nat.
  Variable tag : N -> N.
  Variable nslots : nat.
  Variable seeds : nat -> N.
  Variable grow_needed shrink_policy : nat -> Z -> bool.
  Variable probe : list (option N) -> N -> list nat.
  Variable nstripes : nat -> nat.
  Variable minlen : nat.
  Variable grow_only : bool.
  Variable zero : V.
  Variable DFLT : Z.
  Variable CB : cbid.

  Theorem cache_over_xmachine_linearizable_ticking :
    xhyps4 idx nstripes minlen nslots probe -> forall len0 now0 (todo : nat -> list (cop K V)) sched, 0 < len0 ->
    (forall t, Forall conc_ok (todo t)) ->
    cxsafeT eqd hash idx tag nslots seeds grow_needed shrink_policy probe nstripes minlen grow_only len0
            (prog_cache eqd zero) DFLT CB now0 todo sched ->
    cache_linearizableT eqd zero (mk now0 DFLT CB [])
      (cxhistT eqd hash idx tag nslots seeds grow_needed shrink_policy probe nstripes minlen grow_only len0
               (prog_cache eqd zero) DFLT CB now0 todo sched).
  Proof.
    intros Hx len0 now0 todo sched Hlen Htodo Hs.
    apply (xproductT_all eqd hash idx tag nslots seeds grow_needed shrink_policy probe nstripes minlen grow_only
             len0 (prog_cache eqd zero) DFLT CB Hx Hlen (cache_linearizableT eqd zero (mk now0 DFLT CB []))); [|exact Hs].
    intros sched'. apply (cache_linearizable_ticking eqd zero DFLT CB now0 [] [] todo sched'); [|exact Htodo].
    apply start_empty_ticking.
  Qed.

  Theorem cacheof_over_xmachine_linearizable_ticking :
    xhyps4 idx nstripes minlen nslots probe -> forall len0 now0 (todo : nat -> list (cop K V)) sched, 0 < len0 ->
    (forall t, Forall conc_ok (todo t)) ->
    cxsafeT eqd hash idx tag nslots seeds grow_needed shrink_policy probe nstripes minlen grow_only len0
            (prog_cacheof eqd zero) DFLT CB now0 todo sched ->
    cache_linearizableT eqd zero (mk now0 DFLT CB [])
      (cxhistT eqd hash idx tag nslots seeds grow_needed shrink_policy probe nstripes minlen grow_only len0
               (prog_cacheof eqd zero) DFLT CB now0 todo sched).
  Proof.
    intros Hx len0 now0 todo sched Hlen Htodo Hs.
    apply (xproductT_all eqd hash idx tag nslots seeds grow_needed shrink_policy probe nstripes minlen grow_only
             len0 (prog_cacheof eqd zero) DFLT CB Hx Hlen (cache_linearizableT eqd zero (mk now0 DFLT CB []))); [|exact Hs].
    intros sched'. apply (cacheof_linearizable_ticking eqd zero DFLT CB now0 [] [] todo sched'); [|exact Htodo].
    apply start_empty_ticking.
  Qed.

End FinalT.

Print Assumptions cache_over_xmachine_linearizable_ticking.
Print Assumptions cacheof_over_xmachine_linearizable_ticking.
