(* C16X_more.v -- C16 at the cache level over XMachine, continued: GetWithExpiration and GetWithTTL.
   [get_path]: the common part of every method of the form bind (get k) f -- invocation, Load k, and,
   for a visible entry, the clock read that finds it unexpired -- within rd_bound + 4 moves of the
   caller alone; then GetWithExpiration returns (1 move: bound rd_bound + 5) and GetWithTTL reads
   the clock once more if the entry has an expiry instant and returns (bound rd_bound + 6).  As in
   C16X_mapof.v: every reachable state, the other threads anywhere, exactly one map call (Load k);
   an expired-uncleaned entry is outside the property. *)
From CacheV Require Import Base SpecMap Client CacheModel Ops SpecTTL Lin Conc XMachine.
From CacheV.gen Require Import Params.
From CacheV.proofs Require Import X_basic X_lin X_linpoints X_c16 X_read CX_trans CX_compose CX_product CX_mapof
  C08X_product C08X_mapof C16X_product C16X_mapof.
From Coq Require Import NArith.
Local Open Scope nat_scope.
Local Arguments p_x {K V XS} p.
Local Arguments p_thr {K V XS} p _.
Local Arguments p_todo {K V XS} p _.

Section MoreOverXMachine.
  Context {K V : Type}.
  Variable eqd : forall a b : K, {a = b} + {a <> b}.
  Variable hash : K -> N -> N.
  Variable idx : N -> nat -> nat.
  Variable tag : N -> N.
  Variable nslots : nat.
  Variable seeds : nat -> N.
  Variable grow_needed shrink_policy : nat -> Z -> bool.
  Variable probe : list (option N) -> N -> list nat.
  Variable nstripes : nat -> nat.
  Variable minlen : nat.
  Variable grow_only : bool.
  Variable len0 : nat.
  Variable progs : cop K V -> prog K V (cres K V).
  Variables NOW DFLT : Z.
  Variable CB : cbid.
  Variable zero : V.

  Notation item := (item V).
  Notation xstate := (@xstate K item).
  Notation xop := (@xop K item).
  Notation xres := (@xres K item).
  Notation env0 := (Conc.env0 NOW DFLT).
  Notation xp_step := (@xp_step K item eqd hash idx tag nslots seeds grow_needed shrink_policy probe nstripes minlen grow_only).
  Notation cxrun := (cxrun eqd hash idx tag nslots seeds grow_needed shrink_policy probe nstripes minlen grow_only progs NOW DFLT CB).
  Notation cxinit := (cxinit nslots seeds nstripes len0).
  Notation rd_bound := (@X_c16.rd_bound K item hash idx tag nslots probe nstripes).
  Notation pstepX := (pstep progs NOW DFLT CB xstate xop xres xp_step (@g_todo K item) with_todo (translate env0) (back env0) xsup).
  Notation prun_consX := (prun_cons progs NOW DFLT CB xstate xop xres xp_step (@g_todo K item) with_todo (translate env0) (back env0) xsup).
  Notation prun_appX := (prun_app progs NOW DFLT CB xstate xop xres xp_step (@g_todo K item) with_todo (translate env0) (back env0) xsup).

  Hypothesis Hx : xhyps4 idx nstripes minlen nslots probe.
  Hypothesis Hlen : 0 < len0.

  Lemma upd_sameM {X} (f : nat -> X) t x : upd f t x t = x.
  Proof. unfold upd. destruct (Nat.eq_dec t t); congruence. Qed.
  Lemma upd_otherM {X} (f : nat -> X) t x t' : t' <> t -> upd f t x t' = f t'.
  Proof. unfold upd. destruct (Nat.eq_dec t' t); congruence. Qed.

  (* what get hands to the rest of the method *)
  Definition got (tb : @xtable K item) (k : K) (x : option item) : Prop :=
    (exists i, x = Some i /\ X_lin.vis hash idx tb k i /\ expiredWithNow NOW i = false)
    \/ (x = None /\ forall i, ~ X_lin.vis hash idx tb k i).

  Theorem get_path (todo : nat -> list (cop K V)) sched t k rest (o : cop K V) (f : option item -> prog K V (cres K V)) :
    let p := fst (fst (cxrun (cxinit todo) sched)) in
    let tb := tab_at nslots nstripes (p_x p) (g_cur (p_x p)) in
    progs o = CacheModel.bind (CacheModel.get zero k) f ->
    p_thr p t = QIdle -> p_todo p t = o :: rest ->
    (forall i, X_lin.vis hash idx tb k i -> expiredWithNow NOW i = false) ->
    exists j x,
      let r := cxrun p (repeat (t, []) j) in
      j <= rd_bound (p_x p) (PL_Table k LPlain) + 4
      /\ cproj (snd (fst r)) = [HInv t o]
      /\ (exists mr, mproj (snd (fst r)) = [HInv t (CLoad k); HRes t mr])
      /\ got tb k x
      /\ p_thr (fst (fst r)) t = QRun o (f x) /\ p_todo (fst (fst r)) t = rest
      /\ (forall u, u <> t -> p_thr (fst (fst r)) u = p_thr p u).
  Proof.
    intros p tb Hprog Eq Etd Hlive.
    pose proof (PI_reachable eqd hash idx tag nslots seeds grow_needed shrink_policy probe nstripes minlen grow_only len0 progs NOW DFLT CB todo sched) as HP.
    fold p in HP.
    pose proof (HP t) as Hpt. rewrite Eq in Hpt. destruct Hpt as [Htd0 Hid].
    destruct (machine_load_any eqd hash idx tag nslots seeds grow_needed shrink_policy probe nstripes minlen grow_only len0 progs NOW DFLT CB
                Hx Hlen todo sched t k Htd0 Hid) as [m [ov [Hm [Hin Hvis]]]].
    fold p in Hin, Hvis, Hm. fold tb in Hvis.
    pose proof Hprog as Epr. unfold CacheModel.get in Epr. cbn [CacheModel.bind] in Epr.
    destruct (solo_invoke_answer progs NOW DFLT CB xstate xop xres xp_step (@g_todo K item) with_todo (@xidle K item)
                (translate env0) (back env0) xsup (fun s td u => eq_refl) (fun s td u => conj (fun H => H) (fun H => H))
                (@xp_proto K item eqd hash idx tag nslots seeds grow_needed shrink_policy probe nstripes minlen grow_only)
                t m p o rest (CLoad k) _ (X_read.res_of ov) HP Eq Etd Epr) as [j [Hj [A [M [B [C [D F]]]]]]].
    { discriminate. }
    { reflexivity. }
    { exact Hin. }
    fold cxrun in Hj, A, M, B, C, D, F.
    destruct (cxrun p (repeat (t, []) j)) as [[p3 o3] h3] eqn:E3. cbn [fst snd] in *.
    destruct ov as [i|].
    - assert (Hv : X_lin.vis hash idx tb k i) by (apply Hvis; reflexivity).
      pose proof (Hlive i Hv) as Hl.
      cbn [X_read.res_of back] in B. cbn [CacheModel.bind] in B.
      set (p4 := pset xstate p3 t (QRun o (f (Some i)))).
      assert (E4 : pstepX p3 t [] = Some (p4, [], [])).
      { unfold CX_product.pstep. rewrite B. unfold p4. rewrite Hl. reflexivity. }
      exists (j + 1), (Some i).
      unfold CX_mapof.cxrun. rewrite repeat_app, prun_appX. fold cxrun. rewrite E3. cbn [repeat].
      unfold CX_mapof.cxrun. rewrite prun_consX, E4.
      cbn [CX_product.prun fst snd]. rewrite !cproj_app, !mproj_app, A, M. cbn [cproj mproj app].
      split; [lia|]. split; [reflexivity|]. split; [eexists; reflexivity|]. split; [left; exists i; auto|].
      split; [unfold p4; cbn [pset p_thr]; apply upd_sameM|]. split; [unfold p4; cbn [pset p_todo]; exact C|].
      intros u Hu. unfold p4. cbn [pset p_thr]. rewrite upd_otherM by exact Hu. apply D. exact Hu.
    - cbn [X_read.res_of back] in B. cbn [CacheModel.bind] in B.
      exists j, None. fold cxrun. rewrite E3. cbn [fst snd].
      split; [lia|]. split; [exact A|]. split; [eexists; exact M|]. split.
      + right. split; [reflexivity|]. intros i Hv. apply Hvis in Hv. discriminate Hv.
      + split; [exact B|]. split; [exact C | exact D].
  Qed.

  (* one more move of thread t alone: a return, a clock read *)
  Lemma extend_ret (p : pconf xstate) t j (o : cop K V) c :
    p_thr (fst (fst (cxrun p (repeat (t, []) j)))) t = QRun o (Ret c) ->
    let r := cxrun p (repeat (t, []) j) in
    let r' := cxrun p (repeat (t, []) (j + 1)) in
    cproj (snd (fst r')) = cproj (snd (fst r)) ++ [HRes t c] /\ mproj (snd (fst r')) = mproj (snd (fst r))
    /\ p_thr (fst (fst r')) t = QIdle /\ p_todo (fst (fst r')) t = p_todo (fst (fst r)) t
    /\ (forall u, u <> t -> p_thr (fst (fst r')) u = p_thr (fst (fst r)) u).
  Proof.
    intros B r r'. unfold r', r. unfold CX_mapof.cxrun. rewrite repeat_app, prun_appX. fold cxrun.
    destruct (cxrun p (repeat (t, []) j)) as [[p3 o3] h3]. cbn [fst snd] in *. cbn [repeat].
    assert (E : pstepX p3 t [] = Some (pset xstate p3 t QIdle, [OC (HRes t c)], [])).
    { unfold CX_product.pstep. rewrite B. reflexivity. }
    unfold CX_mapof.cxrun. rewrite prun_consX, E. cbn [CX_product.prun fst snd].
    rewrite cproj_app, mproj_app. cbn [cproj mproj app]. rewrite !app_nil_r.
    split; [reflexivity|]. split; [reflexivity|]. split; [cbn [pset p_thr]; apply upd_sameM|]. split; [reflexivity|].
    intros u Hu. cbn [pset p_thr]. apply upd_otherM. exact Hu.
  Qed.

  Lemma extend_readnow (p : pconf xstate) t j (o : cop K V) kk :
    p_thr (fst (fst (cxrun p (repeat (t, []) j)))) t = QRun o (ReadNow kk) ->
    let r := cxrun p (repeat (t, []) j) in
    let r' := cxrun p (repeat (t, []) (j + 1)) in
    cproj (snd (fst r')) = cproj (snd (fst r)) /\ mproj (snd (fst r')) = mproj (snd (fst r))
    /\ p_thr (fst (fst r')) t = QRun o (kk NOW) /\ p_todo (fst (fst r')) t = p_todo (fst (fst r)) t
    /\ (forall u, u <> t -> p_thr (fst (fst r')) u = p_thr (fst (fst r)) u).
  Proof.
    intros B r r'. unfold r', r. unfold CX_mapof.cxrun. rewrite repeat_app, prun_appX. fold cxrun.
    destruct (cxrun p (repeat (t, []) j)) as [[p3 o3] h3]. cbn [fst snd] in *. cbn [repeat].
    assert (E : pstepX p3 t [] = Some (pset xstate p3 t (QRun o (kk NOW)), [], [])).
    { unfold CX_product.pstep. rewrite B. reflexivity. }
    unfold CX_mapof.cxrun. rewrite prun_consX, E. cbn [CX_product.prun fst snd].
    rewrite cproj_app, mproj_app. cbn [cproj mproj app]. rewrite !app_nil_r.
    split; [reflexivity|]. split; [reflexivity|]. split; [cbn [pset p_thr]; apply upd_sameM|]. split; [reflexivity|].
    intros u Hu. cbn [pset p_thr]. apply upd_otherM. exact Hu.
  Qed.

  (* ---------------- GetWithExpiration ---------------- *)

  Definition getexp_answer (tb : @xtable K item) (k : K) (c : cres K V) : Prop :=
    (exists i, X_lin.vis hash idx tb k i /\ expiredWithNow NOW i = false
               /\ c = CValExp (iv i) (if (0 <? ie i)%Z then ie i else 0%Z) true)
    \/ ((forall i, ~ X_lin.vis hash idx tb k i) /\ c = CValExp zero 0 false).

  Hypothesis Hgetexp : forall k, progs (OGetWithExpiration k) = CacheModel.GetWithExpiration zero k.

  Theorem getexp_never_waits (todo : nat -> list (cop K V)) sched t k rest :
    let p := fst (fst (cxrun (cxinit todo) sched)) in
    let tb := tab_at nslots nstripes (p_x p) (g_cur (p_x p)) in
    p_thr p t = QIdle -> p_todo p t = OGetWithExpiration k :: rest ->
    (forall i, X_lin.vis hash idx tb k i -> expiredWithNow NOW i = false) ->
    exists j c,
      let r := cxrun p (repeat (t, []) j) in
      j <= rd_bound (p_x p) (PL_Table k LPlain) + 5
      /\ cproj (snd (fst r)) = [HInv t (OGetWithExpiration k); HRes t c]
      /\ (exists mr, mproj (snd (fst r)) = [HInv t (CLoad k); HRes t mr])
      /\ getexp_answer tb k c
      /\ p_thr (fst (fst r)) t = QIdle /\ p_todo (fst (fst r)) t = rest
      /\ (forall u, u <> t -> p_thr (fst (fst r)) u = p_thr p u).
  Proof.
    intros p tb Eq Etd Hlive.
    destruct (get_path todo sched t k rest (OGetWithExpiration k) _ (Hgetexp k) Eq Etd Hlive) as [j [x [Hj [A [[mr M] [G [B [C D]]]]]]]].
    fold p in Hj, A, M, B, C, D. fold tb in G.
    destruct G as [[i [-> [Hv Hl]]]|[-> Hn]].
    - destruct (0 <? ie i)%Z eqn:E.
      + destruct (extend_ret p t j _ _ B) as [A' [M' [B' [C' D']]]].
        exists (j + 1), (CValExp (iv i) (ie i) true). cbv zeta. rewrite A', M', A, M. cbn [app].
        split; [lia|]. split; [reflexivity|]. split; [eexists; reflexivity|].
        split; [left; exists i; rewrite E; auto|].
        split; [exact B'|]. split; [rewrite C'; exact C|]. intros u Hu. rewrite (D' u Hu). apply D. exact Hu.
      + destruct (extend_ret p t j _ _ B) as [A' [M' [B' [C' D']]]].
        exists (j + 1), (CValExp (iv i) 0 true). cbv zeta. rewrite A', M', A, M. cbn [app].
        split; [lia|]. split; [reflexivity|]. split; [eexists; reflexivity|].
        split; [left; exists i; rewrite E; auto|].
        split; [exact B'|]. split; [rewrite C'; exact C|]. intros u Hu. rewrite (D' u Hu). apply D. exact Hu.
    - destruct (extend_ret p t j _ _ B) as [A' [M' [B' [C' D']]]].
      exists (j + 1), (CValExp zero 0 false). cbv zeta. rewrite A', M', A, M. cbn [app].
      split; [lia|]. split; [reflexivity|]. split; [eexists; reflexivity|].
      split; [right; auto|].
      split; [exact B'|]. split; [rewrite C'; exact C|]. intros u Hu. rewrite (D' u Hu). apply D. exact Hu.
  Qed.

  (* ---------------- GetWithTTL ---------------- *)

  Definition getttl_answer (tb : @xtable K item) (k : K) (c : cres K V) : Prop :=
    (exists i, X_lin.vis hash idx tb k i /\ expiredWithNow NOW i = false
               /\ c = CValTTL (iv i) (if (0 <? ie i)%Z then (ie i - NOW)%Z else NoExpiration) true)
    \/ ((forall i, ~ X_lin.vis hash idx tb k i) /\ c = CValTTL zero 0 false).

  Hypothesis Hgetttl : forall k, progs (OGetWithTTL k) = CacheModel.GetWithTTL zero k.

  Theorem getttl_never_waits (todo : nat -> list (cop K V)) sched t k rest :
    let p := fst (fst (cxrun (cxinit todo) sched)) in
    let tb := tab_at nslots nstripes (p_x p) (g_cur (p_x p)) in
    p_thr p t = QIdle -> p_todo p t = OGetWithTTL k :: rest ->
    (forall i, X_lin.vis hash idx tb k i -> expiredWithNow NOW i = false) ->
    exists j c,
      let r := cxrun p (repeat (t, []) j) in
      j <= rd_bound (p_x p) (PL_Table k LPlain) + 6
      /\ cproj (snd (fst r)) = [HInv t (OGetWithTTL k); HRes t c]
      /\ (exists mr, mproj (snd (fst r)) = [HInv t (CLoad k); HRes t mr])
      /\ getttl_answer tb k c
      /\ p_thr (fst (fst r)) t = QIdle /\ p_todo (fst (fst r)) t = rest
      /\ (forall u, u <> t -> p_thr (fst (fst r)) u = p_thr p u).
  Proof.
    intros p tb Eq Etd Hlive.
    destruct (get_path todo sched t k rest (OGetWithTTL k) _ (Hgetttl k) Eq Etd Hlive) as [j [x [Hj [A [[mr M] [G [B [C D]]]]]]]].
    fold p in Hj, A, M, B, C, D. fold tb in G.
    destruct G as [[i [-> [Hv Hl]]]|[-> Hn]].
    - destruct (0 <? ie i)%Z eqn:E.
      + (* one more clock read, then the return *)
        destruct (extend_readnow p t j _ _ B) as [A1 [M1 [B1 [C1 D1]]]].
        destruct (extend_ret p t (j + 1) _ _ B1) as [A2 [M2 [B2 [C2 D2]]]].
        exists (j + 1 + 1), (CValTTL (iv i) (ie i - NOW) true). cbv zeta. rewrite A2, M2, A1, M1, A, M. cbn [app].
        split; [lia|]. split; [reflexivity|]. split; [eexists; reflexivity|].
        split; [left; exists i; rewrite E; auto|].
        split; [exact B2|]. split; [rewrite C2, C1; exact C|].
        intros u Hu. rewrite (D2 u Hu), (D1 u Hu). apply D. exact Hu.
      + destruct (extend_ret p t j _ _ B) as [A' [M' [B' [C' D']]]].
        exists (j + 1), (CValTTL (iv i) NoExpiration true). cbv zeta. rewrite A', M', A, M. cbn [app].
        split; [lia|]. split; [reflexivity|]. split; [eexists; reflexivity|].
        split; [left; exists i; rewrite E; auto|].
        split; [exact B'|]. split; [rewrite C'; exact C|]. intros u Hu. rewrite (D' u Hu). apply D. exact Hu.
    - destruct (extend_ret p t j _ _ B) as [A' [M' [B' [C' D']]]].
      exists (j + 1), (CValTTL zero 0 false). cbv zeta. rewrite A', M', A, M. cbn [app].
      split; [lia|]. split; [reflexivity|]. split; [eexists; reflexivity|].
      split; [right; auto|].
      split; [exact B'|]. split; [rewrite C'; exact C|]. intros u Hu. rewrite (D' u Hu). apply D. exact Hu.
  Qed.

End MoreOverXMachine.

(* ---------------- the statements for CacheModel's text ---------------- *)
Section FinalMore.
  Context {K V : Type}.
  Variable eqd : forall a b : K, {a = b} + {a <> b}.
  Variable hash : K -> N -> N.
  Variable idx : N -> nat -> nat.
  Variable tag : N -> N.
  Variable nslots : nat.
  Variable seeds : nat -> N.
  Variable grow_needed shrink_policy : nat -> Z -> bool.
  Variable probe : list (option N) -> N -> list nat.
  Variable nstripes : nat -> nat.
  Variable minlen : nat.
  Variable grow_only : bool.
  Variable zero : V.
  Variables NOW DFLT : Z.
  Variable CB : cbid.

  Notation runG := (cxrun eqd hash idx tag nslots seeds grow_needed shrink_policy probe nstripes minlen grow_only (prog_cache eqd zero) NOW DFLT CB).

  Theorem cache_getwithexpiration_never_waits_over_xmachine :
    xhyps4 idx nstripes minlen nslots probe ->
    forall len0 (todo : nat -> list (cop K V)) sched t k rest, 0 < len0 ->
    let p := fst (fst (runG (cxinit nslots seeds nstripes len0 todo) sched)) in
    let tb := tab_at nslots nstripes (p_x p) (g_cur (p_x p)) in
    p_thr p t = QIdle -> p_todo p t = OGetWithExpiration k :: rest ->
    (forall i, X_lin.vis hash idx tb k i -> expiredWithNow NOW i = false) ->
    exists j c,
      let r := runG p (repeat (t, []) j) in
      j <= X_c16.rd_bound hash idx tag nslots probe nstripes (p_x p) (PL_Table k LPlain) + 5
      /\ cproj (snd (fst r)) = [HInv t (OGetWithExpiration k); HRes t c]
      /\ (exists mr, mproj (snd (fst r)) = [HInv t (CLoad k); HRes t mr])
      /\ getexp_answer hash idx NOW zero tb k c
      /\ p_thr (fst (fst r)) t = QIdle /\ p_todo (fst (fst r)) t = rest
      /\ (forall u, u <> t -> p_thr (fst (fst r)) u = p_thr p u).
  Proof.
    intros Hx len0 todo sched t k rest Hlen.
    apply (getexp_never_waits eqd hash idx tag nslots seeds grow_needed shrink_policy probe nstripes minlen grow_only len0
             (prog_cache eqd zero) NOW DFLT CB zero Hx Hlen (fun k0 => eq_refl)).
  Qed.

  Theorem cache_getwithttl_never_waits_over_xmachine :
    xhyps4 idx nstripes minlen nslots probe ->
    forall len0 (todo : nat -> list (cop K V)) sched t k rest, 0 < len0 ->
    let p := fst (fst (runG (cxinit nslots seeds nstripes len0 todo) sched)) in
    let tb := tab_at nslots nstripes (p_x p) (g_cur (p_x p)) in
    p_thr p t = QIdle -> p_todo p t = OGetWithTTL k :: rest ->
    (forall i, X_lin.vis hash idx tb k i -> expiredWithNow NOW i = false) ->
    exists j c,
      let r := runG p (repeat (t, []) j) in
      j <= X_c16.rd_bound hash idx tag nslots probe nstripes (p_x p) (PL_Table k LPlain) + 6
      /\ cproj (snd (fst r)) = [HInv t (OGetWithTTL k); HRes t c]
      /\ (exists mr, mproj (snd (fst r)) = [HInv t (CLoad k); HRes t mr])
      /\ getttl_answer hash idx NOW zero tb k c
      /\ p_thr (fst (fst r)) t = QIdle /\ p_todo (fst (fst r)) t = rest
      /\ (forall u, u <> t -> p_thr (fst (fst r)) u = p_thr p u).
  Proof.
    intros Hx len0 todo sched t k rest Hlen.
    eapply (getttl_never_waits eqd hash idx tag nslots seeds grow_needed shrink_policy probe nstripes minlen grow_only len0
             (prog_cache eqd zero) NOW DFLT CB zero Hx Hlen); intros; reflexivity.
  Qed.

End FinalMore.
Print Assumptions cache_getwithexpiration_never_waits_over_xmachine.
Print Assumptions cache_getwithttl_never_waits_over_xmachine.
