(* X_resize.v -- a grow / shrink loses nothing and invents nothing (XMachine):
   while the resizer copies, (XR)
     - its unpublished table holds exactly what a reader can see in the buckets
       of the current table copied so far;
     - no writer is past its post-lock checks on a bucket already copied (a
       writer passes them only while the resizing flag is clear, and the flag is
       set for as long as there is a resizer);
   hence at the store that publishes the new table, what readers can see is what
   they could see in the old one -- or nothing, when the resize is a Clear. *)
From CacheV Require Import Base SpecMap XMachine.
From CacheV.proofs Require Import X_basic X_inv X_c13 X_own X_chain X_c04 X_lin.
From Coq Require Import NArith.
Local Open Scope nat_scope.

Section Resize.
  Context {K V : Type}.
  Variable eqd : forall a b : K, {a = b} + {a <> b}.
  Variable hash : K -> N -> N.
  Variable idx : N -> nat -> nat.
  Variable tag : N -> N.
  Variable nslots : nat.
  Variable seeds : nat -> N.
  Variable grow_needed : nat -> Z -> bool.
  Variable shrink_policy : nat -> Z -> bool.
  Variable probe : list (option N) -> N -> list nat.
  Variable nstripes : nat -> nat.
  Variable minlen : nat.
  Variable grow_only : bool.

  Hypothesis Hidx : forall h len, 0 < len -> idx h len < len.
  Hypothesis Hstripes : forall len, 0 < nstripes len.
  Hypothesis Hminlen : 0 < minlen.
  Hypothesis Hnslots : 0 < nslots.
  Hypothesis Hprobe_sound : forall tags tg i, In i (probe tags tg) -> i < length tags /\ nth i tags None <> None.
  Hypothesis Hprobe_complete : forall tags tg i, i < length tags -> nth i tags None = Some tg -> In i (probe tags tg).

  Notation xtable := (@xtable K V).
  Notation xstate := (@xstate K V).
  Notation pc := (@pc K V).
  Notation tab_at := (@tab_at K V nslots nstripes).
  Notation home := (@home K V hash idx).
  Notation step_pc := (@step_pc K V eqd hash idx tag nslots seeds grow_needed shrink_policy probe nstripes minlen grow_only).
  Notation xstep := (@xstep K V eqd hash idx tag nslots seeds grow_needed shrink_policy probe nstripes minlen grow_only).
  Notation xrun := (@xrun K V eqd hash idx tag nslots seeds grow_needed shrink_policy probe nstripes minlen grow_only).
  Notation XInv := (@X_inv.XInv K V hash idx nslots nstripes).
  Notation XT := (@X_own.XT K V).
  Notation XC := (@X_c04.XC K V hash idx tag nslots nstripes).
  Notation hkey := (@X_c04.hkey K V hash idx nslots nstripes).
  Notation vis := (@X_lin.vis K V hash idx).
  Notation tent := (@X_chain.tent K V).
  Notation holds := (@holds K V hash idx nslots nstripes).
  Notation valid := (@valid K V hash idx nslots nstripes).

  (* a writer that has passed the checks after taking its bucket lock: (table, key) *)
  Definition committed (p : pc) : option (nat * K) :=
    match p with
    | PW_ChkTab cx tab | PW_D1 cx tab _ _ | PW_D2 cx tab _ _ | PW_U1 cx tab _ _ _
    | PW_I1 cx tab _ _ | PW_I2 cx tab _ _ | PW_Sum cx tab _ _ | PW_N1 cx tab _ => Some (tab, cx_k cx)
    | _ => None
    end.

  (* how many buckets of its source table the resizer has copied *)
  Definition progress (p : pc) : option (nat * nat * nat) :=     (* old, new, copied buckets *)
    match p with
    | PR_CpLock _ _ tab new i => Some (tab, new, i)
    | PR_CpUnlock _ _ tab new i => Some (tab, new, S i)
    | _ => None
    end.

  (* ---------------- the continuation of a resize tells whether it is a Clear ---------------- *)

  Definition clear_kt (kt : @cont K V) : Prop := kt = KReturn XRUnit.

  Definition hk (hn : hint) (kt : @cont K V) : Prop := hn = HClear <-> clear_kt kt.

  Fixpoint hint_ok (p : pc) : Prop :=
    match p with
    | PR_CAS hn kt | PR_Table hn kt => hk hn kt
    | PR_Stat hn kt _ | PR_CpLock hn kt _ _ _ | PR_CpUnlock hn kt _ _ _ => hk hn kt /\ hn <> HClear
    | PT_Lock (Some hn) kt | PT_Load (Some hn) kt | PT_Wait (Some hn) kt | PT_Waiting (Some hn) kt
    | PT_Relock (Some hn) kt | PT_Unlock (Some hn) kt => hk hn kt
    | PR_FastSum _ kt _ _ | PR_ShSum kt _ _ _ => ~ clear_kt kt
    | PW_Unlock _ _ a | PW_Add _ _ _ a => hint_ok a
    | _ => True
    end.

  Definition XK (s : xstate) : Prop := forall t, hint_ok (g_pc s t).

  Lemma some_fst6 {A B} (g : A * B) a b : Some g = Some (a, b) -> a = fst g.
  Proof. intros H. inversion H. reflexivity. Qed.

  Ltac step_cases Hs :=
    cbn [XMachine.step_pc] in Hs; cbv zeta in Hs;
    repeat match type of Hs with
           | context [match ?x with _ => _ end] => destruct x eqn:?
           end;
    try discriminate; apply some_fst6 in Hs; subst; rewrite ?goto_state'; cbn [fst].

  Lemma wake_hint (p : pc) : hint_ok p -> hint_ok (wake p).
  Proof. destruct p; cbn; auto. Qed.

  Lemma norm_hint (p : pc) : hint_ok p -> hint_ok (norm p).
  Proof. destruct p; cbn; auto. Qed.

  Lemma XK_step_pc s t p s' ls : XK s -> g_pc s t = p -> step_pc s t p = Some (s', ls) -> XK s'.
  Proof.
    intros HK Hp Hs. pose proof (HK t) as Ht. rewrite Hp in Ht.
    assert (Hoth : forall S0 q, (forall t', g_pc S0 t' = g_pc s t' \/ g_pc S0 t' = wake (g_pc s t')) -> hint_ok q -> XK (set_pc S0 t (norm q))).
    { intros S0 q Ho Hq t'. cbn [set_pc g_pc]. destruct (Nat.eq_dec t' t); [apply norm_hint; exact Hq|].
      destruct (Ho t') as [E|E]; rewrite E; [apply HK | apply wake_hint; apply HK]. }
    destruct p; step_cases Hs;
      try change (set_pc s t PIdle) with (set_pc s t (norm (@PIdle K V)));
      (apply Hoth; [intros t'; cbn [g_pc set_tab set_flags push_tab]; first [left; reflexivity | right; reflexivity] |]).
    all: cbn [hint_ok] in *; auto.
    all: try (unfold hk, clear_kt in *; split; intros; discriminate).
    all: try (unfold hk, clear_kt in *; tauto).
    all: try match goal with |- context [run_cont ?kt] => destruct kt; cbn; auto end.
    all: try (destruct hn; cbn [hint_ok]; auto).
    all: unfold hk, clear_kt in *.
    all: try solve [intros E; inversion E].
    all: try solve [split; [intros E; discriminate E | intros E; exfalso; tauto]].
    all: try solve [intros E; destruct Ht as [_ H]; specialize (H E); discriminate H].
    all: try tauto.
    all: try solve [split; [tauto | discriminate]].
    all: try solve [split; [split; [intros E; discriminate E | intros E; exfalso; tauto] | discriminate]].
  Qed.

  (* ---------------- small facts about one step ---------------- *)

  Lemma step_shape s t p s' ls : step_pc s t p = Some (s', ls) -> valid s p ->
    forall tab, tab < length (g_tabs s) ->
      x_len (tab_at s' tab) = x_len (tab_at s tab) /\ x_seed (tab_at s' tab) = x_seed (tab_at s tab).
  Proof.
    intros Hs Hv tab Htab.
    destruct p; step_cases Hs; cbn [valid] in Hv; rewrite ?tab_at_set_pc;
      try change (set_pc s t PIdle) with (set_pc s t (norm (@PIdle K V)));
      try (split; reflexivity).
    all: try (rewrite (tab_at_set_tab nslots nstripes s _ _ tab) by tauto;
              match goal with |- context [Nat.eq_dec ?y ?x] => destruct (Nat.eq_dec y x) as [->|] end;
              [ first [ split; reflexivity | split; [apply x_len_set_chain | reflexivity] ] | split; reflexivity ]).
    all: try (unfold XMachine.tab_at; cbn [g_tabs push_tab]; rewrite app_nth1 by exact Htab; split; reflexivity).
    (* PR_CpLock *)
    destruct Hv as [Hv1 [Hv2 [Hv3 Hv4]]].
    rewrite (tab_at_set_tab nslots nstripes _ new _ tab) by (unfold set_tab; cbn [g_tabs]; rewrite upd_nth_length; exact Hv2).
    destruct (Nat.eq_dec tab new) as [->|].
    - pose proof (copy_chain_shape hash idx tag nslots (chain_of (tab_at s tab0) i)
                    (tab_at (set_tab s tab0 (fun tb => set_lock tb i (Some t))) new) 0%Z) as Hsh.
      cbv zeta in Hsh. change (fold_left _ _ _) with (copy_chain hash idx tag nslots (chain_of (tab_at s tab0) i)
                    (tab_at (set_tab s tab0 (fun tb => set_lock tb i (Some t))) new)) in Hsh.
      rewrite Heqp in Hsh. cbn [fst] in Hsh. destruct Hsh as [[A [B _]] _].
      rewrite (tab_at_set_tab nslots nstripes s tab0 _ new Hv1) in A, B. destruct (Nat.eq_dec new tab0); [contradiction|].
      split; [exact A | exact B].
    - rewrite (tab_at_set_tab nslots nstripes s tab0 _ tab Hv1). destruct (Nat.eq_dec tab tab0) as [->|]; split; reflexivity.
  Qed.

  Lemma quiet_facts (p : pc) : quiet hash idx nslots nstripes p ->
    progress (norm p) = None /\ (forall kt new, norm p <> PR_Publish kt new) /\ committed (norm p) = None.
  Proof.
    intros [Q1 [_ Q3]]. specialize (Q1 (xinit nslots seeds nstripes 1 (fun _ => []))).
    destruct p; cbn in *; try discriminate; repeat split; intros; discriminate.
  Qed.

  Lemma step_misc s t p s' ls : step_pc s t p = Some (s', ls) -> valid s p ->
    (g_cur s' = g_cur s \/ exists kt new, p = PR_Publish kt new /\ g_cur s' = new)
    /\ (resizer p = false -> progress (g_pc s' t) = None /\ forall kt new, g_pc s' t <> PR_Publish kt new)
    /\ (forall tab k, committed (g_pc s' t) = Some (tab, k) ->
          committed p = Some (tab, k) \/ (g_resizing s = false /\ exists cx, p = PW_ChkRes cx tab /\ k = cx_k cx))
    /\ (forall t', t' <> t -> g_pc s' t' = g_pc s t' \/ g_pc s' t' = wake (g_pc s t')).
  Proof.
    intros Hs Hv.
    destruct p; step_cases Hs; cbn [valid] in Hv;
      try change (set_pc s t PIdle) with (set_pc s t (norm (@PIdle K V)));
      (split; [first [left; reflexivity | right; do 2 eexists; split; reflexivity] |
       split; [cbn [resizer g_pc set_pc]; destruct (Nat.eq_dec t t); [|congruence]; intros Hr; try discriminate Hr |
       split; [cbn [g_pc set_pc]; destruct (Nat.eq_dec t t); [|congruence]; intros tab' k' Ec |
               intros t' Hne; cbn [g_pc set_pc set_tab set_flags push_tab]; destruct (Nat.eq_dec t' t); [contradiction|]; first [left; reflexivity | right; reflexivity] ]]]).
    all: try (split; [reflexivity | intros ? ? E; discriminate E]).
    all: try (match goal with Hq : _ /\ _ /\ _ /\ quiet _ _ _ _ ?a |- _ =>
                destruct Hq as [_ [_ [_ Hq]]]; destruct (quiet_facts a Hq) as [Q1 [Q2 Q3]];
                first [ split; [exact Q1 | exact Q2] | rewrite Q3 in Ec; discriminate Ec ] end).
    all: try (match goal with |- context [run_cont ?kt] => destruct kt; cbn in *; try discriminate; try (split; [reflexivity | intros ? ? E; discriminate E]) end).
    all: try (match goal with Ec0 : context [run_cont ?kt] |- _ => destruct kt; cbn in Ec0; discriminate Ec0 end).
    all: try (cbn in Ec; discriminate Ec).
    all: try (left; exact Ec).
    all: try (cbn in Ec; inversion Ec; subst; left; reflexivity).
    all: try (cbn in Ec; inversion Ec; subst; right; split; [reflexivity | eexists; split; reflexivity]).
    all: try (destruct p; cbn; split; try reflexivity; try (intros ? ? E; discriminate E)).
    all: try (match goal with |- context [run_cont ?kt] => destruct kt; cbn in *; try discriminate; try (split; [reflexivity | intros ? ? E; discriminate E]) end).
  Qed.

  Definition content_upto (s : xstate) (old new i : nat) : Prop :=
    forall k v, tent (tab_at s new) k v <-> (hkey s old k < i /\ vis (tab_at s old) k v).

  Record XR (s : xstate) : Prop := {
    xr_content : forall t old new i, progress (g_pc s t) = Some (old, new, i) -> content_upto s old new i;
    xr_frozen : forall t old new i u k, progress (g_pc s t) = Some (old, new, i) ->
                   committed (g_pc s u) = Some (old, k) -> i <= hkey s old k;
    (* after the last bucket: the new table is the old one, or (Clear) empty *)
    xr_publish : forall t kt new, g_pc s t = PR_Publish kt new ->
                   (clear_kt kt /\ forall k v, ~ tent (tab_at s new) k v)
                   \/ (~ clear_kt kt
                       /\ (forall k v, tent (tab_at s new) k v <-> vis (tab_at s (g_cur s)) k v)
                       /\ (forall u k, committed (g_pc s u) <> Some (g_cur s, k)));
  }.

  Lemma wake_progress (p : pc) : progress (wake p) = progress p.
  Proof. destruct p; reflexivity. Qed.
  Lemma wake_committed (p : pc) : committed (wake p) = committed p.
  Proof. destruct p; reflexivity. Qed.
  Lemma wake_publish (p : pc) kt new : wake p = PR_Publish kt new -> p = PR_Publish kt new.
  Proof. destruct p; cbn; intros E; try discriminate E; exact E. Qed.

  Lemma progress_resizer (p : pc) x : progress p = Some x -> resizer p = true /\ exists new, newtab p = Some new /\ snd (fst x) = new /\ srctab p = Some (fst (fst x)).
  Proof. destruct p; cbn; intros E; try discriminate E; inversion E; subst; split; try reflexivity; eexists; split; reflexivity || (split; reflexivity). Qed.

  Lemma committed_holds s (p : pc) tab k : committed p = Some (tab, k) -> holds s p = Some (tab, hkey s tab k) /\ tabs_le tab p.
  Proof. destruct p; cbn; intros E; try discriminate E; inversion E; subst; split; try reflexivity; lia. Qed.

  Lemma lin_committed (p : pc) tab k0 o : lin_effect p tab = Some (k0, o) -> committed p = Some (tab, k0).
  Proof.
    destruct p; cbn; intros E; try discriminate E; destruct (Nat.eq_dec tab0 tab); try discriminate E; inversion E; subst; reflexivity.
  Qed.

  Lemma tent_same (a b : xtable) : x_chains a = x_chains b -> forall k v, tent a k v <-> tent b k v.
  Proof. intros E k v. unfold X_chain.tent, x_len, chain_of. rewrite E. tauto. Qed.

  Lemma tent_same' (a b : xtable) : x_len a = x_len b -> (forall i, chain_of a i = chain_of b i) ->
    forall k v, tent a k v <-> tent b k v.
  Proof.
    intros El Ec k v. unfold X_chain.tent. rewrite El. split; intros [i [pos [Hi H]]]; exists i, pos; (split; [exact Hi|]);
      [rewrite <- Ec | rewrite Ec]; exact H.
  Qed.

  Lemma holds_tabs s (p : pc) tab b n : holds s p = Some (tab, b) -> tabs_le n p -> tab <= n.
  Proof. destruct p; cbn; intros E H; try discriminate E; inversion E; subst; tauto. Qed.

  (* a thread that is not the resizer never touches the resizer's unpublished table *)
  Lemma new_untouched s u p s' ls r new : XInv s -> XT s -> g_pc s u = p -> step_pc s u p = Some (s', ls) ->
    resizer p = false -> newtab (g_pc s r) = Some new ->
    forall k v, tent (tab_at s' new) k v <-> tent (tab_at s new) k v.
  Proof.
    intros HI HT Hp Hs Hr En.
    destruct (xt_new s HT r new En) as [Hlast Hcn].
    assert (Hnew : new < length (g_tabs s)) by lia.
    pose proof (xi_valid _ _ _ _ s HI u) as Hv. rewrite Hp in Hv.
    destruct (step_shape s u p s' ls Hs Hv new Hnew) as [El _].
    apply tent_same'; [exact El|]. intros b.
    destruct (step_chain_frame eqd hash idx tag nslots seeds grow_needed shrink_policy probe nstripes minlen grow_only
                s u p s' ls HI Hp Hs new b Hnew) as [H|[H|H]]; [exact H | exfalso | exfalso].
    - pose proof (xt_le s HT u) as Hle. rewrite Hp in Hle. pose proof (holds_tabs s p new b _ H Hle). lia.
    - apply newtab_resizer in H. congruence.
  Qed.

  Notation vis_step_pc := (@X_lin.vis_step_pc K V eqd hash idx tag nslots seeds grow_needed shrink_policy probe nstripes minlen grow_only
                             Hidx Hminlen Hnslots).

  (* every step of a thread that is not the resizer *)
  Lemma XR_nonresizer s u p s' ls :
    XInv s -> XT s -> XC s -> XR s -> g_pc s u = p -> resizer p = false -> step_pc s u p = Some (s', ls) -> XR s'.
  Proof.
    intros HI HT HC HR Hp Hnr Hs.
    pose proof (xi_valid _ _ _ _ s HI u) as Hv. rewrite Hp in Hv.
    destruct (step_misc s u p s' ls Hs Hv) as [Hcur [Hprog [Hcom Hoth]]].
    destruct (Hprog Hnr) as [Hp1 Hp2].
    assert (Hcur' : g_cur s' = g_cur s).
    { destruct Hcur as [E|[kt [new [E _]]]]; [exact E | rewrite E in Hnr; cbn in Hnr; discriminate Hnr]. }
    assert (Hprog' : forall r x, progress (g_pc s' r) = Some x -> r <> u /\ progress (g_pc s r) = Some x).
    { intros r x E. destruct (Nat.eq_dec r u) as [->|Hne]; [rewrite Hp1 in E; discriminate|]. split; [exact Hne|].
      destruct (Hoth r Hne) as [E'|E']; rewrite E' in E; [exact E | rewrite wake_progress in E; exact E]. }
    assert (Hcom' : forall w tab k, committed (g_pc s' w) = Some (tab, k) ->
                                    committed (g_pc s w) = Some (tab, k) \/ (w = u /\ g_resizing s = false)).
    { intros w tab k E. destruct (Nat.eq_dec w u) as [->|Hne].
      - destruct (Hcom tab k E) as [H|[H _]]; [left; rewrite Hp; exact H | right; auto].
      - left. destruct (Hoth w Hne) as [E'|E']; rewrite E' in E; [exact E | rewrite wake_committed in E; exact E]. }
    assert (Hrz : forall r, resizer (g_pc s r) = true -> g_resizing s = true) by (intros r Hr; apply (xi_rzA _ _ _ _ s HI r Hr)).
    assert (Hcurlt : g_cur s < length (g_tabs s)) by (apply (xi_cur _ _ _ _ s HI)).
    assert (Hpubcur : forall w, newtab (g_pc s w) <> Some (g_cur s)).
    { intros w Ew. destruct (xt_new s HT w _ Ew) as [_ B]. lia. }
    assert (Ehk : forall k, hkey s' (g_cur s) k = hkey s (g_cur s) k).
    { intros k. destruct (step_shape s u p s' ls Hs Hv _ Hcurlt) as [A B]. unfold X_c04.hkey, XMachine.home. rewrite A, B. reflexivity. }
    constructor.
    - intros r old new i E. destruct (Hprog' r _ E) as [Hne E0]. pose proof (xr_content s HR r old new i E0) as Hc.
      destruct (progress_resizer _ _ E0) as [Hrr [nw [En [Enw Esrc]]]]. cbn in Enw, Esrc. subst nw.
      assert (Eold : old = g_cur s) by (apply (xt_src s HT r); exact Esrc). subst old.
      intros k v. rewrite (new_untouched s u p s' ls r new HI HT Hp Hs Hnr En k v).
      unfold content_upto in Hc. rewrite Hc. rewrite Ehk.
      rewrite (vis_step_pc s u p s' ls (g_cur s) k v HI HT HC Hp Hs Hcurlt Hpubcur).
      destruct (lin_effect p (g_cur s)) as [[k0 o]|] eqn:El; cbn [upd_rel]; [|tauto].
      assert (Hk0 : i <= hkey s (g_cur s) k0).
      { apply (xr_frozen s HR r (g_cur s) new i u k0 E0). rewrite Hp. apply (lin_committed p _ k0 o El). }
      split; intros [Hlt Hvis]; (split; [exact Hlt|]).
      + assert (k <> k0) by (intros ->; lia). destruct o; [right; split; assumption | split; assumption].
      + destruct o; [destruct Hvis as [[-> _]|[_ H]]; [lia | exact H] | destruct Hvis as [_ H]; exact H].
    - intros r old new i w k E Ec. destruct (Hprog' r _ E) as [Hne E0].
      destruct (progress_resizer _ _ E0) as [Hrr [nw [En [Enw Esrc]]]]. cbn in Enw, Esrc. subst nw.
      assert (Eold : old = g_cur s) by (apply (xt_src s HT r); exact Esrc). subst old. rewrite Ehk.
      destruct (Hcom' w _ k Ec) as [H|[-> Hf]]; [apply (xr_frozen s HR r _ new i w k E0 H)|].
      exfalso. rewrite (Hrz r Hrr) in Hf. discriminate.
    - intros r kt new E.
      assert (Hne : r <> u) by (intros ->; eapply Hp2; exact E).
      assert (E0 : g_pc s r = PR_Publish kt new).
      { destruct (Hoth r Hne) as [E'|E']; rewrite E' in E; [exact E | apply wake_publish; exact E]. }
      assert (En : newtab (g_pc s r) = Some new) by (rewrite E0; reflexivity).
      destruct (xr_publish s HR r kt new E0) as [[Hc He]|[Hnc [Hcont Hno]]].
      + left. split; [exact Hc|]. intros k v. rewrite (new_untouched s u p s' ls r new HI HT Hp Hs Hnr En k v). apply He.
      + right. split; [exact Hnc|]. split.
        * intros k v. rewrite (new_untouched s u p s' ls r new HI HT Hp Hs Hnr En k v). rewrite Hcur'.
          rewrite (vis_step_pc s u p s' ls (g_cur s) k v HI HT HC Hp Hs Hcurlt Hpubcur). rewrite Hcont.
          destruct (lin_effect p (g_cur s)) as [[k0 o]|] eqn:El; cbn [upd_rel]; [|tauto].
          exfalso. apply (Hno u k0). rewrite Hp. apply (lin_committed p _ k0 o El).
        * intros w k Ec. rewrite Hcur' in Ec. destruct (Hcom' w _ k Ec) as [H|[-> Hf]]; [apply (Hno w k H)|].
          assert (Hr : resizer (g_pc s r) = true) by (rewrite E0; reflexivity). rewrite (Hrz r Hr) in Hf. discriminate.
  Qed.

  (* after a step of the resizer that leaves it without a table under construction, XR asks nothing *)
  Lemma XR_vacuous s u s' :
    XInv s -> resizer (g_pc s u) = true ->
    (forall t', t' <> u -> g_pc s' t' = g_pc s t' \/ g_pc s' t' = wake (g_pc s t')) ->
    progress (g_pc s' u) = None -> (forall kt new, g_pc s' u <> PR_Publish kt new) -> XR s'.
  Proof.
    intros HI Hr Hoth Hp1 Hp2.
    assert (Hnone : forall r, r <> u -> progress (g_pc s' r) = None /\ forall kt new, g_pc s' r <> PR_Publish kt new).
    { intros r Hne. assert (Hnr : resizer (g_pc s r) = false).
      { destruct (resizer (g_pc s r)) eqn:E; [|reflexivity]. exfalso. apply Hne. apply (xi_rzB _ _ _ _ s HI r u E Hr). }
      destruct (Hoth r Hne) as [E|E]; rewrite E; [|rewrite wake_progress]; split.
      - destruct (progress (g_pc s r)) eqn:Ep; [|reflexivity]. destruct (progress_resizer _ _ Ep) as [H _]. congruence.
      - intros kt new Ek. rewrite Ek in Hnr. discriminate.
      - destruct (progress (g_pc s r)) eqn:Ep; [|reflexivity]. destruct (progress_resizer _ _ Ep) as [H _]. congruence.
      - intros kt new Ek. apply wake_publish in Ek. rewrite Ek in Hnr. discriminate. }
    constructor.
    - intros r old new i E. exfalso. destruct (Nat.eq_dec r u) as [->|Hne]; [congruence|]. destruct (Hnone r Hne) as [A _]. congruence.
    - intros r old new i w k E. exfalso. destruct (Nat.eq_dec r u) as [->|Hne]; [congruence|]. destruct (Hnone r Hne) as [A _]. congruence.
    - intros r kt new E. exfalso. destruct (Nat.eq_dec r u) as [->|Hne]; [eapply Hp2; exact E|]. destruct (Hnone r Hne) as [_ A]. eapply A. exact E.
  Qed.

  Definition publish_ok (s : xstate) (kt : @cont K V) (new : nat) : Prop :=
    (clear_kt kt /\ forall k v, ~ tent (tab_at s new) k v)
    \/ (~ clear_kt kt
        /\ (forall k v, tent (tab_at s new) k v <-> vis (tab_at s (g_cur s)) k v)
        /\ (forall u k, committed (g_pc s u) <> Some (g_cur s, k))).

  Lemma XR_only s u s' :
    XInv s -> resizer (g_pc s u) = true ->
    (forall t', t' <> u -> g_pc s' t' = g_pc s t' \/ g_pc s' t' = wake (g_pc s t')) ->
    (forall old new i, progress (g_pc s' u) = Some (old, new, i) ->
       content_upto s' old new i /\ forall w k, committed (g_pc s' w) = Some (old, k) -> i <= hkey s' old k) ->
    (forall kt new, g_pc s' u = PR_Publish kt new -> publish_ok s' kt new) ->
    XR s'.
  Proof.
    intros HI Hr Hoth Hprog Hpub.
    assert (Hnone : forall r, r <> u -> progress (g_pc s' r) = None /\ forall kt new, g_pc s' r <> PR_Publish kt new).
    { intros r Hne. assert (Hnr : resizer (g_pc s r) = false).
      { destruct (resizer (g_pc s r)) eqn:E; [|reflexivity]. exfalso. apply Hne. apply (xi_rzB _ _ _ _ s HI r u E Hr). }
      destruct (Hoth r Hne) as [E|E]; rewrite E; [|rewrite wake_progress]; split.
      - destruct (progress (g_pc s r)) eqn:Ep; [|reflexivity]. destruct (progress_resizer _ _ Ep) as [H _]. congruence.
      - intros kt new Ek. rewrite Ek in Hnr. discriminate.
      - destruct (progress (g_pc s r)) eqn:Ep; [|reflexivity]. destruct (progress_resizer _ _ Ep) as [H _]. congruence.
      - intros kt new Ek. apply wake_publish in Ek. rewrite Ek in Hnr. discriminate. }
    constructor.
    - intros r old new i E. destruct (Nat.eq_dec r u) as [->|Hne]; [apply (Hprog old new i E)|].
      exfalso. destruct (Hnone r Hne) as [A _]. congruence.
    - intros r old new i w k E. destruct (Nat.eq_dec r u) as [->|Hne]; [apply (Hprog old new i E)|].
      exfalso. destruct (Hnone r Hne) as [A _]. congruence.
    - intros r kt new E. destruct (Nat.eq_dec r u) as [->|Hne]; [apply (Hpub kt new E)|].
      exfalso. destruct (Hnone r Hne) as [_ A]. eapply A. exact E.
  Qed.

  Notation chain := (@X_c04.chain K V nslots nstripes).
  Notation chain_inv := (@X_c04.chain_inv K V hash idx tag nslots nstripes).

  (* the bucket the resizer has just locked: every entry is completely written and at home *)
  Lemma free_chain_settled s tab i : XInv s -> chain_inv s tab i -> lock_of (tab_at s tab) i = None ->
    forall pos k v, pos < length (chain s tab i) -> ent_at (chain s tab i) pos = Some (k, v) ->
      hkey s tab k = i /\ tag_at (chain s tab i) pos <> None.
  Proof.
    intros HI [_ [_ Csl]] Hfree pos k v Hpos He. specialize (Csl pos Hpos). unfold X_c04.slot_ok in Csl.
    unfold ent_at in He. unfold tag_at. rewrite He in Csl.
    destruct (s_tag (nth pos (chain s tab i) empty_slot)); [split; [tauto | discriminate]|].
    destruct Csl as [w [cx [Ew [Ek Eh]]]]. exfalso.
    assert (Hl : lock_of (tab_at s tab) i = Some w).
    { apply (xi_lockA _ _ _ _ s HI w tab i). rewrite Ew. cbn. unfold X_c04.hkey in Eh. rewrite Ek, Eh. reflexivity. }
    congruence.
  Qed.

  Lemma copy_content s u hn kt tab new i nt cp :
    XInv s -> XT s -> XC s -> XR s -> g_pc s u = PR_CpLock hn kt tab new i -> lock_of (tab_at s tab) i = None ->
    copy_chain hash idx tag nslots (chain_of (tab_at s tab) i)
               (tab_at (set_tab s tab (fun tb => set_lock tb i (Some u))) new) = (nt, cp) ->
    let s' := set_pc (set_tab (set_tab s tab (fun tb => set_lock tb i (Some u))) new (fun _ => add_size nt i cp)) u
                     (PR_CpUnlock hn kt tab new i) in
    content_upto s' tab new (S i) /\ forall w k, committed (g_pc s' w) = Some (tab, k) -> S i <= hkey s' tab k.
  Proof.
    intros HI HT HC HR Hp Hfree Hcopy s'.
    set (s1 := set_tab s tab (fun tb => set_lock tb i (Some u))) in *.
    pose proof (xi_valid _ _ _ _ s HI u) as Hv. rewrite Hp in Hv. cbn [valid] in Hv. destruct Hv as [Htab [Hnew [Hi Hnn]]].
    assert (Ent : newtab (g_pc s u) = Some new) by (rewrite Hp; reflexivity).
    destruct (xt_new s HT u new Ent) as [Hlast Hcn].
    destruct (xc_new _ _ _ _ _ s HC u new Ent) as [Hclean Hcopied]. rewrite Hp in Hcopied. cbn [X_c04.copied] in Hcopied.
    assert (Eprog : progress (g_pc s u) = Some (tab, new, i)) by (rewrite Hp; reflexivity).
    pose proof (xr_content s HR u tab new i Eprog) as Hcont.
    assert (E1 : tab_at s1 new = tab_at s new).
    { unfold s1. rewrite (tab_at_set_tab nslots nstripes s tab _ new Htab). destruct (Nat.eq_dec new tab); [contradiction|reflexivity]. }
    rewrite E1 in Hcopy.
    assert (Hlen1 : length (g_tabs s1) = length (g_tabs s)) by (unfold s1, set_tab; cbn [g_tabs]; apply upd_nth_length).
    assert (Htabat : forall tab', tab_at s' tab' = if Nat.eq_dec tab' new then add_size nt i cp
                                                   else if Nat.eq_dec tab' tab then set_lock (tab_at s tab) i (Some u) else tab_at s tab').
    { intros tab'. unfold s'. rewrite tab_at_set_pc. rewrite (tab_at_set_tab nslots nstripes s1 new _ tab') by (rewrite Hlen1; exact Hnew).
      destruct (Nat.eq_dec tab' new); [reflexivity|]. unfold s1. rewrite (tab_at_set_tab nslots nstripes s tab _ tab' Htab). reflexivity. }
    assert (Hpub : forall w, newtab (g_pc s w) <> Some tab).
    { intros w E. destruct (xt_new s HT w tab E) as [_ B]. pose proof (xt_le s HT u) as Hle. rewrite Hp in Hle. cbn in Hle. lia. }
    pose proof (xc_ch _ _ _ _ _ s HC tab i Htab Hpub Hi) as Hci. pose proof Hci as [Csh [Cun _]].
    fold (chain s tab i) in Hcopy.
    pose proof (free_chain_settled s tab i HI Hci Hfree) as Hset.
    rewrite (copy_chain_fold hash idx tag nslots) in Hcopy.
    pose proof (copy_fold_spec hash idx tag nslots Hnslots Hidx (chain s tab i) (tab_at s new, 0%Z)) as Hspec.
    cbn [fst] in Hspec. rewrite Hcopy in Hspec. cbn [fst] in Hspec.
    destruct Hspec as [R1 [R2 [R3 [R4 [R5 R6]]]]].
    { exact Hclean. }
    { apply (live_pairs_nodup nslots Hnslots). exact Cun. }
    { intros k Hin [w Hw]. apply in_map_iff in Hin. destruct Hin as [[k' v'] [Ek Hin]]. cbn in Ek. subst k'.
      apply (live_pairs_in nslots Hnslots) in Hin. destruct Hin as [pos [Hpos He]].
      destruct (Hset pos k v' Hpos He) as [Hh _]. pose proof (Hcopied k w Hw). unfold X_c04.hkey in *. lia. }
    assert (Etab : tab_at s' tab = set_lock (tab_at s tab) i (Some u)).
    { rewrite Htabat. destruct (Nat.eq_dec tab new); [congruence|]. destruct (Nat.eq_dec tab tab); congruence. }
    assert (Enew : tab_at s' new = add_size nt i cp).
    { rewrite Htabat. destruct (Nat.eq_dec new new); congruence. }
    assert (Ehk : forall k, hkey s' tab k = hkey s tab k) by (intros k; unfold X_c04.hkey; rewrite Etab; reflexivity).
    assert (Evis : forall k v, vis (tab_at s' tab) k v <-> vis (tab_at s tab) k v) by (intros k v; rewrite Etab; unfold X_lin.vis; tauto).
    split.
    - intros k v. rewrite Enew. change (tent (add_size nt i cp) k v) with (tent nt k v). rewrite R6, Ehk, Evis.
      unfold content_upto in Hcont. rewrite Hcont.
      split.
      + intros [[Hlt Hvis]|Hin]; [split; [lia | exact Hvis]|].
        apply (live_pairs_in nslots Hnslots) in Hin. destruct Hin as [pos [Hpos He]].
        destruct (Hset pos k v Hpos He) as [Hh Ht]. split; [lia|].
        unfold X_lin.vis. change (home (tab_at s tab) k) with (hkey s tab k). rewrite Hh. exists pos. auto.
      + intros [Hlt Hvis]. destruct (Nat.eq_dec (hkey s tab k) i) as [Eq|Hne]; [right | left; split; [lia | exact Hvis]].
        unfold X_lin.vis in Hvis. change (home (tab_at s tab) k) with (hkey s tab k) in Hvis. rewrite Eq in Hvis.
        destruct Hvis as [pos [Hpos [_ He]]]. apply (live_pairs_in nslots Hnslots). exists pos. auto.
    - intros w k Ec. rewrite Ehk.
      assert (Hw : w <> u).
      { intros ->. unfold s' in Ec. cbn [set_pc g_pc] in Ec. destruct (Nat.eq_dec u u); [discriminate Ec|congruence]. }
      assert (Ec0 : committed (g_pc s w) = Some (tab, k)).
      { unfold s' in Ec. cbn [set_pc g_pc set_tab] in Ec. destruct (Nat.eq_dec w u); [contradiction|exact Ec]. }
      pose proof (xr_frozen s HR u tab new i w k Eprog Ec0) as Hfr.
      destruct (Nat.eq_dec (hkey s tab k) i) as [Eq|Hne]; [|lia]. exfalso.
      destruct (committed_holds s _ tab k Ec0) as [Hh _]. rewrite Eq in Hh.
      pose proof (xi_lockA _ _ _ _ s HI w tab i Hh). congruence.
  Qed.

  Lemma XR_resizer s u p s' ls :
    XInv s -> XT s -> XC s -> XK s -> XR s -> g_pc s u = p -> resizer p = true -> step_pc s u p = Some (s', ls) -> XR s'.
  Proof.
    intros HI HT HC HK HR Hp Hrz Hs.
    assert (Hru : resizer (g_pc s u) = true) by (rewrite Hp; exact Hrz).
    pose proof (xi_valid _ _ _ _ s HI u) as Hv. rewrite Hp in Hv.
    pose proof (HK u) as Hk. rewrite Hp in Hk.
    destruct (step_misc s u p s' ls Hs Hv) as [_ [_ [_ Hoth]]].
    destruct p; try discriminate Hrz; step_cases Hs; cbn [valid hint_ok] in Hv, Hk;
      try solve [ match goal with |- XR ?S0 => apply (XR_vacuous s u S0 HI Hru Hoth) end;
                  [ cbn [g_pc set_pc norm progress]; destruct (Nat.eq_dec u u); [reflexivity|congruence]
                  | intros kt0 new0; cbn [g_pc set_pc norm]; destruct (Nat.eq_dec u u); [discriminate|congruence] ] ].
    all: match goal with |- XR ?S0 => apply (XR_only s u S0 HI Hru Hoth) end;
         [ intros old0 new0 i0 E | intros kt0 new0 E ];
         cbn [g_pc set_pc norm progress] in E; (destruct (Nat.eq_dec u u) as [_|Hc]; [|exfalso; apply Hc; reflexivity]);
         try discriminate E.
    - (* Clear: the new table is empty *)
      inversion E; subst kt0 new0. left. split; [apply Hk; reflexivity|].
      intros k v Hk'. rewrite tab_at_set_pc in Hk'. unfold XMachine.tab_at in Hk'. cbn [g_tabs push_tab] in Hk'.
      rewrite app_nth2 in Hk' by lia. rewrite Nat.sub_diag in Hk'. cbn [nth] in Hk'.
      eapply tent_new; [exact Hminlen | exact Hnslots | exact Hk'].
    - inversion E; subst old0 new0 i0. split; [|intros; lia].
      intros k v. split; [|intros [H _]; lia]. intros Hk'. exfalso.
      rewrite tab_at_set_pc in Hk'. unfold XMachine.tab_at in Hk'. cbn [g_tabs push_tab] in Hk'.
      rewrite app_nth2 in Hk' by lia. rewrite Nat.sub_diag in Hk'. cbn [nth] in Hk'.
      eapply tent_new; [exact Hminlen | exact Hnslots | exact Hk'].
    - exfalso. destruct Hv as [Hv1 _]. destruct (xi_wf _ _ _ _ s HI tab Hv1) as [W _].
      match goal with H : Nat.ltb 0 _ = false |- _ => apply Nat.ltb_ge in H; lia end.
    - inversion E; subst old0 new0 i0. split; [|intros; lia].
      intros k v. split; [|intros [H _]; lia]. intros Hk'. exfalso.
      rewrite tab_at_set_pc in Hk'. unfold XMachine.tab_at in Hk'. cbn [g_tabs push_tab] in Hk'.
      rewrite app_nth2 in Hk' by lia. rewrite Nat.sub_diag in Hk'. cbn [nth] in Hk'.
      eapply tent_new; [exact Hminlen | exact Hnslots | exact Hk'].
    - exfalso. destruct Hv as [Hv1 _]. destruct (xi_wf _ _ _ _ s HI tab Hv1) as [W _].
      match goal with H : Nat.ltb 0 _ = false |- _ => apply Nat.ltb_ge in H; lia end.
    - inversion E; subst old0 new0 i0. split; [|intros; lia].
      intros k v. split; [|intros [H _]; lia]. intros Hk'. exfalso.
      rewrite tab_at_set_pc in Hk'. unfold XMachine.tab_at in Hk'. cbn [g_tabs push_tab] in Hk'.
      rewrite app_nth2 in Hk' by lia. rewrite Nat.sub_diag in Hk'. cbn [nth] in Hk'.
      eapply tent_new; [exact Hminlen | exact Hnslots | exact Hk'].
    - exfalso. destruct Hv as [Hv1 _]. destruct (xi_wf _ _ _ _ s HI tab Hv1) as [W _].
      match goal with H : Nat.ltb 0 _ = false |- _ => apply Nat.ltb_ge in H; lia end.
    - inversion E; subst old0 new0 i0. exact (copy_content s u hn kt tab new i x z HI HT HC HR Hp Heqo Heqp).
    - (* CpUnlock -> next bucket: only the lock changes *)
      cbn [progress] in E. inversion E; subst old0 new0 i0. destruct Hv as [Hv1 [Hv2 [Hv3 Hv4]]].
      assert (Eprog : progress (g_pc s u) = Some (tab, new, S i)) by (rewrite Hp; reflexivity).
      assert (Hsc : X_c04.same_cells nslots nstripes s (set_tab s tab (fun tb => set_lock tb i None))).
      { eapply same_cells_set_tab; [exact Hminlen | exact Hnslots | exact Hv1 | intros; split; reflexivity]. }
      split.
      + intros k v. rewrite !tab_at_set_pc.
        assert (Eh : hkey (set_pc (set_tab s tab (fun tb => set_lock tb i None)) u (norm (PR_CpLock hn kt tab new (S i)))) tab k = hkey s tab k)
          by (eapply same_cells_hkey; [exact Hsc | exact Hv1]).
        rewrite Eh.
        assert (A : tent (tab_at (set_tab s tab (fun tb => set_lock tb i None)) new) k v <-> tent (tab_at s new) k v)
          by (eapply same_cells_tent; try eassumption; exact Hv2).
        assert (B : vis (tab_at (set_tab s tab (fun tb => set_lock tb i None)) tab) k v <-> vis (tab_at s tab) k v)
          by (eapply vis_same_cells; try eassumption; exact Hv1).
        rewrite A, B. apply (xr_content s HR u tab new (S i) Eprog k v).
      + intros w k Ec.
        assert (Eh : hkey (set_pc (set_tab s tab (fun tb => set_lock tb i None)) u (norm (PR_CpLock hn kt tab new (S i)))) tab k = hkey s tab k)
          by (eapply same_cells_hkey; [exact Hsc | exact Hv1]).
        rewrite Eh. cbn [set_pc g_pc set_tab norm] in Ec. destruct (Nat.eq_dec w u); [discriminate Ec|].
        apply (xr_frozen s HR u tab new (S i) w k Eprog Ec).
    - (* CpUnlock -> publish: every bucket is copied *)
      inversion E; subst kt0 new0. destruct Hv as [Hv1 [Hv2 [Hv3 Hv4]]].
      assert (Eprog : progress (g_pc s u) = Some (tab, new, S i)) by (rewrite Hp; reflexivity).
      assert (Esrc : tab = g_cur s) by (apply (xt_src s HT u); rewrite Hp; reflexivity).
      assert (Hsc : X_c04.same_cells nslots nstripes s (set_tab s tab (fun tb => set_lock tb i None))).
      { eapply same_cells_set_tab; [exact Hminlen | exact Hnslots | exact Hv1 | intros; split; reflexivity]. }
      match goal with H : Nat.ltb (S i) _ = false |- _ => apply Nat.ltb_ge in H; rename H into Hlast end.
      assert (Hall : forall k, hkey s tab k < S i).
      { intros k. assert (hkey s tab k < x_len (tab_at s tab)); [|lia].
        unfold X_c04.hkey, XMachine.home. apply Hidx. apply (xi_wf _ _ _ _ s HI tab Hv1). }
      right. split; [|split].
      + destruct Hk as [[Hk1 Hk2] Hk3]. intros Hc. apply Hk3. apply Hk2. exact Hc.
      + intros k v. rewrite !tab_at_set_pc. cbn [set_pc g_cur set_tab]. rewrite <- Esrc.
        assert (A : tent (tab_at (set_tab s tab (fun tb => set_lock tb i None)) new) k v <-> tent (tab_at s new) k v)
          by (eapply same_cells_tent; try eassumption; exact Hv2).
        assert (B : vis (tab_at (set_tab s tab (fun tb => set_lock tb i None)) tab) k v <-> vis (tab_at s tab) k v)
          by (eapply vis_same_cells; try eassumption; exact Hv1).
        rewrite A, B. rewrite (xr_content s HR u tab new (S i) Eprog k v). pose proof (Hall k). tauto.
      + intros w k Ec. cbn [set_pc g_pc g_cur set_tab norm] in Ec. rewrite <- Esrc in Ec.
        destruct (Nat.eq_dec w u); [discriminate Ec|].
        pose proof (xr_frozen s HR u tab new (S i) w k Eprog Ec). pose proof (Hall k). lia.
  Qed.

  Theorem XR_step_pc s u p s' ls :
    XInv s -> XT s -> XC s -> XK s -> XR s -> g_pc s u = p -> step_pc s u p = Some (s', ls) -> XR s'.
  Proof.
    intros HI HT HC HK HR Hp Hs. destruct (resizer p) eqn:Hr.
    - eapply XR_resizer; eassumption.
    - eapply XR_nonresizer; eassumption.
  Qed.

  (* the invocation of a call *)
  Lemma XR_invoke s t q rest :
    XR s -> g_pc s t = PIdle -> progress q = None -> committed q = None -> (forall kt new, q <> PR_Publish kt new) ->
    XR (set_pc {| g_tabs := g_tabs s; g_cur := g_cur s; g_resizing := g_resizing s; g_rmu := g_rmu s;
                  g_growths := g_growths s; g_shrinks := g_shrinks s; g_pc := g_pc s;
                  g_todo := fun t' => if Nat.eq_dec t' t then rest else g_todo s t' |} t q).
  Proof.
    intros HR Hp Q1 Q2 Q3.
    set (s1 := set_pc _ t q).
    assert (Hpc : forall r, g_pc s1 r = if Nat.eq_dec r t then q else g_pc s r) by (intros; reflexivity).
    assert (Hprog : forall r x, progress (g_pc s1 r) = Some x -> progress (g_pc s r) = Some x).
    { intros r x E. rewrite Hpc in E. destruct (Nat.eq_dec r t); [congruence | exact E]. }
    assert (Hcom : forall r x, committed (g_pc s1 r) = Some x -> committed (g_pc s r) = Some x).
    { intros r x E. rewrite Hpc in E. destruct (Nat.eq_dec r t); [congruence | exact E]. }
    constructor.
    - intros r old new i E. apply (xr_content s HR r old new i (Hprog r _ E)).
    - intros r old new i w k E Ec. apply (xr_frozen s HR r old new i w k (Hprog r _ E) (Hcom w _ Ec)).
    - intros r kt new E. rewrite Hpc in E. destruct (Nat.eq_dec r t); [exfalso; eapply Q3; exact E|].
      destruct (xr_publish s HR r kt new E) as [H|[A [B C]]]; [left; exact H | right].
      split; [exact A|]. split; [exact B|]. intros w k Ec. apply (C w k). apply Hcom. exact Ec.
  Qed.

  Lemma start_facts o : progress (@start_pc K V o) = None /\ committed (start_pc o) = None
                        /\ (forall kt new, start_pc o <> PR_Publish kt new) /\ hint_ok (start_pc o).
  Proof. destruct o; cbn; repeat split; intros; try discriminate; destruct lie; cbn; auto; discriminate. Qed.

  Notation XCf := (@X_c04.XC_frame K V hash idx tag nslots nstripes).

  Lemma invoke_inv s t o rest : XInv s -> XT s -> XC s -> g_pc s t = PIdle ->
    let s1 := set_pc {| g_tabs := g_tabs s; g_cur := g_cur s; g_resizing := g_resizing s; g_rmu := g_rmu s;
                        g_growths := g_growths s; g_shrinks := g_shrinks s; g_pc := g_pc s;
                        g_todo := fun t' => if Nat.eq_dec t' t then rest else g_todo s t' |} t (start_pc o) in
    XInv s1 /\ XT s1 /\ XC s1.
  Proof.
    intros HI HT HC Hp s1.
    set (S0 := {| g_tabs := g_tabs s; g_cur := g_cur s; g_resizing := g_resizing s; g_rmu := g_rmu s;
                  g_growths := g_growths s; g_shrinks := g_shrinks s; g_pc := g_pc s;
                  g_todo := fun t' => if Nat.eq_dec t' t then rest else g_todo s t' |}) in *.
    destruct (start_tabs o (g_cur s)) as [Q1 [Q2 [Q3 Q4]]].
    assert (Qw : wtab (@start_pc K V o) = None) by (destruct o; cbn; auto; destruct lie; reflexivity).
    split; [|split].
    - destruct (start_pc_quiet hash idx nslots nstripes o) as [R1 [R2 [R3 R4]]].
      eapply (move_pure hash idx nslots nstripes minlen Hminlen); [exact HI | | apply R4 | rewrite Hp; apply R1 | rewrite Hp; exact R2 | rewrite Hp; exact R3].
      unfold same_protocol. split; [split; [cbn; lia | intros; apply shape_refl]|]. repeat split; auto.
    - unfold s1. rewrite <- Q4. eapply XT_move with (s := s); [exact Hminlen | exact HI | exact HT | cbn; lia | intros; left; reflexivity | exact Q1 | | | left; split; reflexivity].
      + rewrite Q2. intros ? E; discriminate E.
      + rewrite Q3. intros ? E; discriminate E.
    - unfold s1. rewrite <- Q4. eapply X_c04.XC_frame with (s := s); try eassumption.
      + split; [cbn; lia | intros; split; reflexivity].
      + reflexivity.
      + intros t' _. left. reflexivity.
      + intros; rewrite Hp; discriminate.
      + intros; rewrite Hp; discriminate.
      + apply pcfact_nowtab. exact Qw.
      + rewrite Qw. intros ? E; discriminate E.
      + right. exact Q2.
      + rewrite Q2. intros ? E; discriminate E.
  Qed.

  (* ---------------- all invariants ---------------- *)

  Definition XI5 (s : xstate) : Prop := XI4 hash idx tag nslots nstripes s /\ XK s /\ XR s.

  Lemma XI5_xstep s t s' ls : XI5 s -> xstep s t = Some (s', ls) -> XI5 s'.
  Proof.
    intros [H4 [HK HR]] E. pose proof H4 as [HI [HW [HT HC]]].
    split; [eapply (XI4_xstep eqd hash idx tag nslots seeds grow_needed shrink_policy probe nstripes minlen grow_only); eassumption|].
    unfold XMachine.xstep in E. destruct (g_pc s t) eqn:Hp;
      try (split; [eapply XK_step_pc; eassumption | eapply XR_step_pc; eassumption]).
    destruct (g_todo s t) as [|o rest]; [discriminate|].
    destruct (invoke_inv s t o rest HI HT HC Hp) as [HI1 [HT1 HC1]]. cbv zeta in HI1, HT1, HC1.
    destruct (start_facts o) as [F1 [F2 [F3 F4]]].
    set (s1 := set_pc _ t (start_pc o)) in *.
    assert (HK1 : XK s1).
    { intros r. unfold s1. cbn [set_pc g_pc]. destruct (Nat.eq_dec r t); [exact F4 | apply HK]. }
    assert (HR1 : XR s1) by (apply XR_invoke; assumption).
    assert (Epc : g_pc s1 t = start_pc o) by (unfold s1; cbn [set_pc g_pc]; destruct (Nat.eq_dec t t); congruence).
    change (match step_pc s1 t (start_pc o) with
            | Some (s2, ls0) => Some (s2, XMachine.XInv t o :: ls0)
            | None => Some (s1, [XMachine.XInv t o])
            end = Some (s', ls)) in E.
    destruct (step_pc s1 t (start_pc o)) as [[s2 ls0]|] eqn:E2.
    - inversion E; subst. split; [eapply XK_step_pc; eassumption | eapply XR_step_pc; eassumption].
    - inversion E; subst. split; assumption.
  Qed.

  Lemma XR_init len0 todo : XR (xinit nslots seeds nstripes len0 todo).
  Proof. constructor; cbn; intros; discriminate. Qed.

  Theorem xrun_inv5 sched : forall s, XI5 s -> XI5 (fst (xrun s sched)).
  Proof.
    induction sched as [|t rest IH]; intros s H; cbn [XMachine.xrun]; [exact H|].
    destruct (xstep s t) as [[s' ls]|] eqn:E.
    - specialize (IH s' (XI5_xstep s t s' ls H E)).
      destruct (XMachine.xrun _ _ _ _ _ _ _ _ _ _ _ _ s' rest) as [s'' ls']. exact IH.
    - apply IH. exact H.
  Qed.

  Theorem reachable_inv5 len0 todo sched : 0 < len0 -> XI5 (fst (xrun (xinit nslots seeds nstripes len0 todo) sched)).
  Proof.
    intros Hl. apply xrun_inv5. split; [|split].
    - pose proof (reachable_inv4 eqd hash idx tag nslots seeds grow_needed shrink_policy probe nstripes minlen grow_only
                    Hidx Hstripes Hminlen Hnslots Hprobe_sound Hprobe_complete len0 todo [] Hl) as H. exact H.
    - intros t. exact I.
    - apply XR_init.
  Qed.

  (* ---------------- the abstract map and how every step changes it ---------------- *)

  (* what a lock-free reader that loads m.table now can find *)
  Definition abs (s : xstate) (k : K) (v : V) : Prop := vis (tab_at s (g_cur s)) k v.

  Lemma xstep_cur s t s' ls : XInv s -> xstep s t = Some (s', ls) ->
    (forall kt new, g_pc s t <> PR_Publish kt new) -> g_cur s' = g_cur s.
  Proof.
    intros HI Hs Hnp. unfold XMachine.xstep in Hs.
    destruct (g_pc s t) eqn:Hp;
      try (pose proof (xi_valid _ _ _ _ s HI t) as Hv; rewrite Hp in Hv;
           destruct (step_misc s t _ s' ls Hs Hv) as [[E|[kt9 [new9 [E _]]]] _]; [exact E | first [discriminate E | exfalso; eapply Hnp; exact E]]).
    destruct (g_todo s t) as [|o rest]; [discriminate|].
    destruct o; cbn [start_pc XMachine.step_pc] in Hs; try (destruct lie; cbn [XMachine.step_pc] in Hs);
      cbv zeta in Hs; try (destruct (Nat.ltb _ _)); inversion Hs; subst; reflexivity.
  Qed.

  Theorem abs_step s t s' ls : XI5 s -> xstep s t = Some (s', ls) ->
    match g_pc s t with
    | PR_Publish kt new =>
        (clear_kt kt /\ forall k v, ~ abs s' k v) \/ (~ clear_kt kt /\ forall k v, abs s' k v <-> abs s k v)
    | p => forall k v, abs s' k v <-> upd_rel (abs s) (lin_effect p (g_cur s)) k v
    end.
  Proof.
    intros [[HI [HW [HT HC]]] [HK HR]] Hs.
    assert (Hcurlt : g_cur s < length (g_tabs s)) by (apply (xi_cur _ _ _ _ s HI)).
    assert (Hpubcur : forall w, newtab (g_pc s w) <> Some (g_cur s)).
    { intros w Ew. destruct (xt_new s HT w _ Ew) as [_ B]. lia. }
    assert (Hgen : (forall kt new, g_pc s t <> PR_Publish kt new) ->
                   forall k v, abs s' k v <-> upd_rel (abs s) (lin_effect (g_pc s t) (g_cur s)) k v).
    { intros Hnp k v. unfold abs. rewrite (xstep_cur s t s' ls HI Hs Hnp).
      apply (vis_xstep eqd hash idx tag nslots seeds grow_needed shrink_policy probe nstripes minlen grow_only Hidx Hminlen Hnslots
               s t s' ls (g_cur s) k v HI HT HC Hs Hcurlt Hpubcur). }
    destruct (g_pc s t) eqn:Hp; try (apply Hgen; intros; discriminate).
    (* the store that publishes the new table *)
    unfold XMachine.xstep in Hs. rewrite Hp in Hs. cbn [XMachine.step_pc] in Hs. inversion Hs; subst s' ls. clear Hs.
    assert (En : newtab (g_pc s t) = Some new) by (rewrite Hp; reflexivity).
    destruct (xc_new _ _ _ _ _ s HC t new En) as [Hclean _].
    assert (Habs : forall k v, abs (set_pc (set_flags s new (g_resizing s) (g_rmu s)) t (PR_FinLock kt)) k v <-> tent (tab_at s new) k v).
    { intros k v. unfold abs. cbn [set_pc set_flags g_cur]. rewrite tab_at_set_pc, tab_at_set_flags.
      symmetry. apply (tent_cvis hash idx tag nslots Hidx (tab_at s new) k v Hclean). }
    destruct (xr_publish s HR t kt new Hp) as [[Hc He]|[Hnc [Hcont _]]].
    - left. split; [exact Hc|]. intros k v H. apply Habs in H. exact (He k v H).
    - right. split; [exact Hnc|]. intros k v. rewrite Habs. apply Hcont.
  Qed.

End Resize.

(* ---------------- the statements of props/C04.v ---------------- *)
Section Final.
  Context {K V : Type}.
  Variable eqd : forall a b : K, {a = b} + {a <> b}.
  Variable hash : K -> N -> N.
  Variable idx : N -> nat -> nat.
  Variable tag : N -> N.
  Variable nslots : nat.
  Variable seeds : nat -> N.
  Variable grow_needed shrink_policy : nat -> Z -> bool.
  Variable probe : list (option N) -> N -> list nat.
  Variable nstripes : nat -> nat.
  Variable minlen : nat.
  Variable grow_only : bool.

  Notation xrun := (@xrun K V eqd hash idx tag nslots seeds grow_needed shrink_policy probe nstripes minlen grow_only).
  Notation xstep := (@xstep K V eqd hash idx tag nslots seeds grow_needed shrink_policy probe nstripes minlen grow_only).
  Notation abs := (@abs K V hash idx nslots nstripes).

  Lemma abs_step_proof :
    xhyps4 idx nstripes minlen nslots probe -> forall len0 todo sched t s' ls, 0 < len0 ->
    let s := fst (xrun (xinit nslots seeds nstripes len0 todo) sched) in
    xstep s t = Some (s', ls) ->
    match g_pc s t with
    | PR_Publish kt new =>
        (clear_kt kt /\ forall k v, ~ abs s' k v) \/ (~ clear_kt kt /\ forall k v, abs s' k v <-> abs s k v)
    | p => forall k v, abs s' k v <-> upd_rel (abs s) (lin_effect p (g_cur s)) k v
    end.
  Proof.
    intros [[H1 [H2 H3]] [H4 [H5 H6]]] len0 todo sched t s' ls Hl s E.
    eapply (abs_step eqd hash idx tag nslots seeds grow_needed shrink_policy probe nstripes minlen grow_only); try eassumption.
    apply (reachable_inv5 eqd hash idx tag nslots seeds grow_needed shrink_policy probe nstripes minlen grow_only H1 H2 H3 H4 H5 H6 len0 todo sched Hl).
  Qed.

  (* the hint / continuation pairing that makes [clear_kt] mean "this resize is a Clear" *)
  Lemma clear_kt_proof :
    xhyps4 idx nstripes minlen nslots probe -> forall len0 todo sched t, 0 < len0 ->
    hint_ok (g_pc (fst (xrun (xinit nslots seeds nstripes len0 todo) sched)) t).
  Proof.
    intros [[H1 [H2 H3]] [H4 [H5 H6]]] len0 todo sched t Hl.
    destruct (reachable_inv5 eqd hash idx tag nslots seeds grow_needed shrink_policy probe nstripes minlen grow_only H1 H2 H3 H4 H5 H6 len0 todo sched Hl)
      as [_ [HK _]]. apply HK.
  Qed.
End Final.
