(* XS_linearizable2.v -- XMachineS (Map) with Range: every run whose calls are Load, Compute, Clear
   and Range -- whose visitors may call the map (Store / Delete ...) -- is linearizable when the calls made
   by the visitors are counted as calls of their own and the Range itself is left out of the history
   (it is only weakly consistent).  Theorem 2 of the Map task; XS_linearizable.v (no Range: no frames) is
   the special case and is kept as it is.

   The history [srunh] of a run is defined in XS_linpoints2.v ([hstep]).  The invariant is that of
   XS_linearizable.v with the scope condition [NR2] (frames and Range program counters consistent) in
   place of [NR], the status condition [sTOK2] (a thread running the Range's own code is idle in the
   history), [XF] (an idle thread has no frame), and [li_rgidle].  The steps of a thread inside a call
   do not look at the frame unless they return ([L_*_g]); a return below a frame answers the visitor's
   call, goes on with the visits and possibly invokes the next visitor's call in the same step
   ([ret_outcome], [K_ret]); the Range's own steps are silent except the unlock that starts the visits
   ([L_rg]). *)
From CacheV Require Import Base SpecMap XMachineS Lin.
From CacheV.proofs Require X_linpoints.
From CacheV.proofs Require Import X_maps XS_inv XS_lock XS_own XS_count XS_cells XS_vis XS_abs XS_resize XS_read XS_loadhit XS_loadmiss XS_range XS_stale LinGen XS_linpoints XS_linpoints2.
From Coq Require Import NArith.
Local Open Scope nat_scope.

Section SLinInv2.
  Context {K V : Type}.
  Variable eqd : forall a b : K, {a = b} + {a <> b}.
  Variable hash : K -> N -> N.
  Variable idx : N -> nat -> nat.
  Variable tophash : N -> N.
  Variable nslots : nat.
  Variable seeds : nat -> N.
  Variable grow_needed : nat -> Z -> bool.
  Variable shrink_policy : nat -> Z -> bool.
  Variable nstripes : nat -> nat.
  Variable minlen : nat.
  Variable grow_only : bool.

  Hypothesis Hslots : nslots <= 3.
  Hypothesis Hnslots : 0 < nslots.
  Hypothesis Htop : forall k sd, (tophash (hash k sd) < 1048576)%N.
  Hypothesis Hidx : forall h len, 0 < len -> idx h len < len.
  Hypothesis Hminlen : 0 < minlen.

  Notation mstate := (@mstate K V).
  Notation spc := (@spc K V).
  Notation sop := (@sop K V).
  Notation sres := (@sres V).
  Notation slabel := (@slabel K V).
  Notation scx := (@scx K V).
  Notation scont := (@scont K V).
  Notation slcont := (@slcont K V).
  Notation ML := (@XS_linpoints.ML K V eqd).
  Notation iev := (Lin.iev sop sres).
  Notation tstat := (Lin.tstat sop sres).
  Notation ghost := (LinGen.ghost ML).
  Notation gb := (LinGen.gb ML).
  Notation gc := (LinGen.gc ML).
  Notation gst := (LinGen.gst ML).
  Notation gseg := (LinGen.gseg ML).
  Notation gI := (LinGen.gI ML).
  Notation gSE := (LinGen.gSE ML).
  Notation gSS := (LinGen.gSS ML).
  Notation lrun := (LinGen.lrun ML).
  Notation lok := (LinGen.lok ML).
  Notation no_ev := (LinGen.no_ev ML).
  Notation tproto := (LinGen.tproto ML).
  Notation tmove := (LinGen.tmove ML).
  Notation evt := (LinGen.evt ML).
  Notation g_ins := (LinGen.g_ins ML).
  Notation g_pub := (LinGen.g_pub ML).
  Notation g_setst := (LinGen.g_setst ML).
  Notation can_ret := (LinGen.can_ret ML).
  Notation gext := (LinGen.gext ML).
  Notation GOK := (LinGen.GOK ML).
  Notation stable := (LinGen.stable ML).
  Notation tabT := (@tabT K V nslots nstripes).
  Notation stab_at := (@stab_at K V nslots nstripes).
  Notation sstep_pc := (@sstep_pc K V eqd hash idx tophash nslots seeds grow_needed shrink_policy nstripes minlen grow_only).
  Notation sstep := (@sstep K V eqd hash idx tophash nslots seeds grow_needed shrink_policy nstripes minlen grow_only).
  Notation srun := (@srun K V eqd hash idx tophash nslots seeds grow_needed shrink_policy nstripes minlen grow_only).
  Notation XL := (@XL K V hash idx nslots nstripes).
  Notation XB := (@XB K V hash idx tophash nslots nstripes).
  Notation XI := (@XS_resize.XI K V hash idx tophash nslots nstripes).
  Notation SJ := (@XS_stale.SJ K V hash idx tophash nslots nstripes).
  Notation svis := (@svis K V hash idx tophash nslots).
  Notation sabs := (@sabs K V hash idx tophash nslots nstripes).
  Notation swtab := (@XS_stale.swtab K V).
  Notation inlookup := (@XS_loadhit.inlookup K V hash nslots nstripes).
  Notation JJ := (@XS_loadhit.JJ K V hash idx nslots nstripes).
  Notation JM := (@XS_loadmiss.JM K V hash idx tophash nslots nstripes).
  Notation stays := (@XS_loadmiss.stays K V hash idx tophash nslots nstripes).
  Notation hit := (@XS_loadhit.hit K V).
  Notation amap := (X_linpoints.amap K V).
  Notation aempty := (@X_linpoints.aempty K V).
  Notation agree := (@X_linpoints.agree K V).
  Notation sspec_res := (@sspec_res K V).
  Notation sspec_next := (@sspec_next K V eqd).
  Notation sspec := (@sspec K V eqd).
  Notation snooplin := (@snooplin K V eqd hash idx tophash nslots nstripes).
  Notation shist := (@shist K V).
  Notation NR2 := (@NR2 K V).
  Notation XF := (@XS_read.XF K V).
  Notation sTOK := (@sTOK2 K V).
  Notation hstep := (@hstep K V).
  Notation rframe := (@rframe K V).
  Notation srd_op := (@srd_op K V).
  Notation sinvoke := (@sinvoke K V).

  (* ---------------- the invariant ---------------- *)

  Record LI (s : mstate) (G : ghost) : Prop := {
    li_si : SJ s;
    li_xf : XF s;
    li_nr : NR2 s;
    li_rgidle : forall t, rgvf (h_pc s t) <> None -> gst G t = TIdle;
    li_dec : forall t, sdec (h_pc s t);
    li_todo : forall t, Forall sokop2 (h_todo s t);
    li_empty : gc G (h_cur s) = [] /\ forall j, h_cur s < j -> gb G j = [] /\ gc G j = [];
    li_lok : lok aempty (gI G (h_cur s));
    li_agree : forall j, j <= h_cur s -> agree (gSE G j) (svis (tabT (h_tabs s) j));
    li_close : forall j, j < h_cur s ->
                 (gc G j = [] /\ forall u, swtab (h_pc s u) <> Some j) \/ exists c, gc G j = [ILin c SClear SRUnit];
    li_tp : forall t, tproto t TIdle (gI G (h_cur s)) (gst G t);
    li_tok : forall t, sTOK (gst G t) (h_pc s t);
    li_pos : forall t j, sontab (h_pc s t) = Some j ->
               no_ev t (gc G j) /\ forall j', j < j' <= h_cur s -> no_ev t (gseg G j');
    li_rd : forall t k lc tab h o, srdk (h_pc s t) = Some (k, lc, tab, h) -> gst G t = TInvoked o ->
              inlookup t k lc tab s
              /\ (forall v, JJ t k tab v (can_ret G (h_cur s) t o (shitres lc v)) s)
              /\ (lc = SLPlain -> can_ret G (h_cur s) t o (SRVal None false) \/ JM t k tab s);
  }.

  Lemma LI_XB s G : LI s G -> XB s.
  Proof. intros HL. destruct (li_si s G HL) as [[HB _] _]. exact HB. Qed.

  (* ---------------- small facts ---------------- *)

  Lemma tok_rd st (p : spc) k lc tab h : sTOK st p -> srdk p = Some (k, lc, tab, h) -> exists o, st = TInvoked o /\ srd_op o k lc.
  Proof.
    intros Ht Hr. destruct st as [|o|o r]; cbn [sTOK2] in Ht.
    - destruct Ht as [-> | [-> | Ht]]; try discriminate Hr. exfalso. apply Ht. destruct p; cbn in Hr |- *; try discriminate Hr; reflexivity.
    - exists o. split; [reflexivity|]. destruct Ht as [_ Ht]. destruct o; try contradiction.
      + destruct Ht as [tab' [h' E]]. rewrite E in Hr. inversion Hr; subst. reflexivity.
      + destruct Ht as [[Hl [[tab' [h' E]]|E]]|[E _]]; [| rewrite E in Hr; discriminate Hr | rewrite E in Hr; discriminate Hr].
        rewrite E in Hr. inversion Hr; subst. cbn. auto.
      + destruct p; cbn in Ht, Hr; discriminate.
    - destruct Ht as [_ Ht]. destruct p; cbn in Ht, Hr; discriminate.
  Qed.

  Lemma inlookup_rdk s t k lc tab h : srdk (h_pc s t) = Some (k, lc, tab, h) ->
    h = hash k (m_seed (stab_at s tab)) -> inlookup t k lc tab s.
  Proof.
    intros Hr Hh. unfold XS_loadhit.inlookup.
    destruct (h_pc s t); cbn [srdk] in Hr; try discriminate Hr; inversion Hr; subst; auto.
  Qed.

  Lemma rdk_inlookup s t k lc tab : inlookup t k lc tab s ->
    srdk (h_pc s t) = Some (k, lc, tab, hash k (m_seed (stab_at s tab))).
  Proof.
    unfold XS_loadhit.inlookup. destruct (h_pc s t); try contradiction; intros [-> [-> [-> ->]]]; reflexivity.
  Qed.

  Lemma JJ_mono t k tab v (W W' : Prop) s : (W -> W') -> JJ t k tab v W s -> JJ t k tab v W' s.
  Proof.
    intros HW. unfold XS_loadhit.JJ, XS_loadhit.JJp. destruct (h_pc s t); auto.
    - intros H i Hi Hh. apply HW. apply (H i Hi Hh).
    - intros [H1 H2]. split; [intros i Hi Hh; apply HW; apply (H1 i Hi Hh) | exact H2].
    - intros [H1 H2]. split; [intros i Hi Hh; apply HW; apply (H1 i Hi Hh)|].
      destruct todo as [|i r]; [exact I|]. destruct H2 as [A B]. split; [exact A|]. intros y Hy. destruct (B y Hy) as [B1 B2].
      split; [exact B1 | intros E; apply HW; apply B2; exact E].
  Qed.

  Lemma ontab_le s t j : XB s -> sontab (h_pc s t) = Some j -> j <= h_cur s.
  Proof.
    intros [_ [_ [HT _]]] Ho. destruct (xt_pc s HT t) as [Hle _]. unfold XS_linpoints.sontab in Ho.
    destruct (h_pc s t); cbn in Ho, Hle; try discriminate Ho; inversion Ho; subst; tauto || lia.
  Qed.

  Lemma ontab_rdk (p : spc) k lc tab h : srdk p = Some (k, lc, tab, h) -> sontab p = Some tab.
  Proof. intros H. unfold XS_linpoints.sontab. rewrite H. reflexivity. Qed.

  Lemma ontab_wtab (p : spc) j : swtab p = Some j -> sontab p = Some j.
  Proof. intros H. unfold XS_linpoints.sontab. destruct p; cbn in *; try discriminate H; exact H. Qed.

  Lemma ontab_inv (p : spc) j : sontab p = Some j -> (exists k lc h, srdk p = Some (k, lc, j, h)) \/ swtab p = Some j.
  Proof.
    unfold XS_linpoints.sontab. destruct (srdk p) as [[[[k lc] tab] h]|] eqn:E; intros H.
    - inversion H; subst. left. exists k, lc, h. reflexivity.
    - right. exact H.
  Qed.

  (* the visible value of k in table tab, read off the abstract map at the end of the table's generation *)
  Lemma end_hit' (R : K -> V -> Prop) G cur t o k lc tab v : tab <= cur ->
    no_ev t (gc G tab) -> (forall j', tab < j' <= cur -> no_ev t (gseg G j')) ->
    agree (gSE G tab) R -> srd_op o k lc -> R k v -> can_ret G cur t o (shitres lc v).
  Proof.
    intros Hle P1 P2 Ha Hop Hv. apply Ha in Hv.
    destruct (srd_hit_spec eqd o k lc _ v Hop Hv) as [A [B C]]. rewrite B.
    exact (can_ret_end ML G cur t o tab Hle P1 P2 A C).
  Qed.

  Lemma end_miss' (R : K -> V -> Prop) G cur t k tab : tab <= cur ->
    no_ev t (gc G tab) -> (forall j', tab < j' <= cur -> no_ev t (gseg G j')) ->
    agree (gSE G tab) R -> (forall v, ~ R k v) -> can_ret G cur t (SLoad k) (SRVal None false).
  Proof.
    intros Hle P1 P2 Ha Hv. pose proof (X_linpoints.agree_none _ _ k Ha Hv) as Hm.
    destruct (srd_miss_spec eqd k _ Hm) as [A [B C]]. rewrite B.
    exact (can_ret_end ML G cur t (SLoad k) tab Hle P1 P2 A C).
  Qed.

  Lemma end_hit s G t o k lc tab v : LI s G -> sontab (h_pc s t) = Some tab -> srd_op o k lc ->
    svis (tabT (h_tabs s) tab) k v -> can_ret G (h_cur s) t o (shitres lc v).
  Proof.
    intros HL Ho Hop Hv. pose proof (ontab_le s t tab (LI_XB s G HL) Ho) as Hle.
    destruct (li_pos s G HL t tab Ho) as [P1 P2].
    eapply end_hit'; try eassumption. apply (li_agree s G HL tab Hle).
  Qed.

  Lemma end_miss s G t k tab : LI s G -> sontab (h_pc s t) = Some tab ->
    (forall v, ~ svis (tabT (h_tabs s) tab) k v) -> can_ret G (h_cur s) t (SLoad k) (SRVal None false).
  Proof.
    intros HL Ho Hv. pose proof (ontab_le s t tab (LI_XB s G HL) Ho) as Hle.
    destruct (li_pos s G HL t tab Ho) as [P1 P2].
    eapply end_miss'; try eassumption. apply (li_agree s G HL tab Hle).
  Qed.

  (* ---------------- one step: the bundle, the other threads, the tables ---------------- *)

  Lemma SJ_step s u s' ls : SJ s -> sstep s u = Some (s', ls) -> SJ s'.
  Proof.
    intros HS E. eapply (SJ_sstep eqd hash idx tophash nslots seeds grow_needed shrink_policy nstripes minlen grow_only Hslots Hnslots Htop Hidx Hminlen); eassumption.
  Qed.

  Lemma others_step s u s' ls : XB s -> sstep s u = Some (s', ls) ->
    forall t, t <> u -> h_pc s' t = h_pc s t \/ h_pc s' t = swake (h_pc s t).
  Proof.
    intros HB E. apply (sstep_others eqd hash idx tophash nslots seeds grow_needed shrink_policy nstripes minlen grow_only Hslots Hnslots Hidx Hminlen s u s' ls HB E).
  Qed.

  Lemma seed_sstep s u s' ls tab : XB s -> sstep s u = Some (s', ls) -> tab <= h_cur s ->
    m_seed (stab_at s' tab) = m_seed (stab_at s tab).
  Proof.
    intros HB E Ht.
    pose proof (step_facts_sstep eqd hash idx tophash nslots seeds grow_needed shrink_policy nstripes minlen grow_only
                  Hslots Hnslots Hidx Hminlen s u s' ls HB E) as [_ _ Hf _].
    destruct (Hf tab Ht) as [_ [A _]]. exact A.
  Qed.

  Lemma cur_mono s u s' ls : XB s -> sstep s u = Some (s', ls) -> h_cur s <= h_cur s'.
  Proof.
    intros HB E. eapply (@sstep_cur_mono K V eqd hash idx tophash nslots seeds grow_needed shrink_policy nstripes minlen grow_only); eassumption.
  Qed.

  Lemma cur_same s u s' ls : XB s -> sstep s u = Some (s', ls) -> (forall kt new, h_pc s u <> QR_Publish kt new) -> h_cur s' = h_cur s.
  Proof.
    intros HB E Hnp.
    destruct (sstep_cur eqd hash idx tophash nslots seeds grow_needed shrink_policy nstripes minlen grow_only s u s' ls HB E)
      as [Hc|[kt [new [E1 _]]]]; [exact Hc | exfalso; exact (Hnp kt new E1)].
  Qed.

  (* ---------------- a thread that stays inside its lookup over a step ---------------- *)

  Lemma rd_pres s G u s' ls w G' t k lc tab h o :
    LI s G -> sstep s u = Some (s', ls) ->
    gext w (h_cur s) G (h_cur s') G' -> t <> w ->
    (forall j, j <= h_cur s' -> agree (gSE G' j) (svis (tabT (h_tabs s') j))) ->
    srdk (h_pc s t) = Some (k, lc, tab, h) -> srdk (h_pc s' t) = Some (k, lc, tab, h) ->
    gst G t = TInvoked o ->
    inlookup t k lc tab s'
    /\ (forall v, JJ t k tab v (can_ret G' (h_cur s') t o (shitres lc v)) s')
    /\ (lc = SLPlain -> can_ret G' (h_cur s') t o (SRVal None false) \/ JM t k tab s').
  Proof.
    intros HL E HG Hne Hag Hr Hr' Hst.
    pose proof (li_si s G HL) as HS. pose proof HS as [[HB _] [HID HNQ]].
    pose proof (SJ_step s u s' ls HS E) as HS'. pose proof HS' as [[HB' _] _].
    destruct (li_rd s G HL t k lc tab h o Hr Hst) as [Hin [HJ HM]].
    pose proof (ge_cur _ _ _ _ _ _ HG) as Hcm.
    pose proof (rdk_inlookup s t k lc tab Hin) as Hrk. rewrite Hr in Hrk. inversion Hrk as [Hh]. clear Hrk.
    pose proof (ontab_rdk _ k lc tab h Hr) as Hon.
    pose proof (ontab_le s t tab HB Hon) as Hle.
    assert (Hin' : inlookup t k lc tab s').
    { apply (inlookup_rdk s' t k lc tab h Hr'). rewrite (seed_sstep s u s' ls tab HB E Hle). exact Hh. }
    destruct (tok_rd _ _ k lc tab h (li_tok s G HL t) Hr) as [o' [Eo Hop]]. rewrite Hst in Eo. inversion Eo; subst o'. clear Eo.
    destruct (li_pos s G HL t tab Hon) as [P1 P2].
    destruct (ge_pos _ _ _ _ _ _ HG t tab Hne Hle P1 P2) as [P1' P2'].
    assert (Hle' : tab <= h_cur s') by lia.
    split; [exact Hin'|]. split.
    - intros v.
      pose proof (XS_loadhit.JJ_step eqd hash idx tophash nslots seeds grow_needed shrink_policy nstripes minlen grow_only
                    Hslots Hnslots Hidx Hminlen t k lc tab v _ s u s' ls HB HID HNQ HB' E Hin Hin' (HJ v)) as HJ'.
      eapply JJ_mono; [|exact HJ']. intros [Hw|Hv].
      + apply (ge_ret _ _ _ _ _ _ HG t o _ Hne Hw).
      + apply (ge_ret _ _ _ _ _ _ HG t o _ Hne). eapply end_hit; eassumption.
    - intros Hlc. subst lc. cbn [XS_linpoints.srd_op] in Hop. subst o.
      destruct (XS_loadmiss.vis_dec eqd hash idx tophash nslots nstripes minlen Hslots Hnslots Hminlen k tab s') as [Hp'|Hn'].
      + destruct (XS_loadmiss.vis_dec eqd hash idx tophash nslots nstripes minlen Hslots Hnslots Hminlen k tab s) as [Hp|Hn].
        * destruct (HM eq_refl) as [Hc|Hjm]; [left; apply (ge_ret _ _ _ _ _ _ HG t _ _ Hne Hc)|].
          right. apply (XS_loadmiss.JM_step eqd hash idx tophash nslots seeds grow_needed shrink_policy nstripes minlen grow_only
                          Hslots Hnslots Hidx Hminlen t k SLPlain tab s u s' ls HB HNQ HB' E); [split; assumption | split; assumption | exact Hjm].
        * left. apply (ge_ret _ _ _ _ _ _ HG t _ _ Hne). eapply end_miss; [exact HL | exact Hon |].
          intros v Hv. apply Hn. exists v. exact Hv.
      + left. eapply end_miss'; [exact Hle' | exact P1' | exact P2' | apply Hag; exact Hle' |].
        intros v Hv. apply Hn'. exists v. exact Hv.
  Qed.


  (* ---------------- the scope with Range: frames, Range program counters, recorded decisions, todo lists ---------------- *)

  Lemma nonidle_step s u s' ls : sstep s u = Some (s', ls) -> h_pc s u <> QIdle -> sstep_pc s u (h_pc s u) = Some (s', ls).
  Proof.
    intros E Hn. destruct (sstep_split eqd hash idx tophash nslots seeds grow_needed shrink_policy nstripes minlen grow_only s u s' ls E)
      as [[_ H]|[H _]]; [exact H | contradiction].
  Qed.

  Lemma norange_rgvf' (p : spc) : norange p -> rgvf p = None.
  Proof.
    destruct p; cbn [norange rgvf]; intros H; try reflexivity; try contradiction;
      try (destruct lk; [reflexivity | reflexivity | contradiction]); destruct H as [-> _]; reflexivity.
  Qed.

  Lemma idle_or (p : spc) : p = QIdle \/ p <> QIdle.
  Proof. destruct p; (left; reflexivity) || (right; discriminate). Qed.

  Lemma frames_others s u s' ls : sstep s u = Some (s', ls) -> forall t, t <> u -> h_frame s' t = h_frame s t.
  Proof.
    intros E t Hne.
    destruct (sstep_split eqd hash idx tophash nslots seeds grow_needed shrink_policy nstripes minlen grow_only s u s' ls E)
      as [[_ Es]|[_ [o [rest [ls0 [_ [_ Es]]]]]]];
      apply (step_frame_oth eqd hash idx tophash nslots seeds grow_needed shrink_policy nstripes minlen grow_only _ u _ s' _ Es t Hne).
  Qed.

  Lemma start_cx_scope (cx : scx) : norange (sstart_cx cx) /\ sdec (sstart_cx cx) /\ rgvf (sstart_cx cx) = None /\ sontab (sstart_cx cx) = None /\ srdk (sstart_cx cx) = None.
  Proof. unfold sstart_cx. destruct (sc_lie cx); cbn; auto. Qed.

  (* where a return lands: scope facts *)
  Lemma retpc_scope (fr : option rframe) : match fr with Some f => rgafter (rf_vf f) (rf_after f) | None => True end ->
    sdec (retpc fr) /\ sontab (retpc fr) = None /\ srdk (retpc fr) = None
    /\ match retframe fr with
       | Some f' => norange (retpc fr) /\ rgafter (rf_vf f') (rf_after f')
       | None => norange (retpc fr) \/ (rgvf (retpc fr) <> None /\ rgwf (retpc fr))
       end.
  Proof.
    destruct fr as [f|]; cbn [retpc retframe]; [|intros _; cbn; auto].
    intros Ha. destruct (vout (rf_rest f) (rf_vf f)) as [[cx r']|].
    - destruct (start_cx_scope cx) as [A [B [C [D E]]]]. cbn [rf_vf rf_after]. auto.
    - destruct Ha as [->|[tab [b ->]]]; cbn; auto. split; [exact I|]. split; [reflexivity|]. split; [reflexivity|]. right. split; [discriminate | exact I].
  Qed.

  (* everything about a step that returns *)
  Lemma ret_facts s u s' ls r : NR2 s -> norange (h_pc s u) -> isret s u s' ls r ->
    h_pc s' u = retpc (h_frame s u) /\ h_frame s' u = retframe (h_frame s u) /\ hstep s u ls = retev u (h_frame s u) r
    /\ h_todo s' = h_todo s /\ h_cur s' = h_cur s.
  Proof.
    intros HN Hnr [S0 [l0 [-> [-> [Hpl [Ef [Ep [Et Ec]]]]]]]].
    assert (Hpre : match h_frame S0 u with Some f => rgafter (rf_vf f) (rf_after f) /\ norange (h_pc S0 u) | None => rgvf (h_pc S0 u) = None end).
    { rewrite Ef, Ep. specialize (HN u). destruct (h_frame s u) as [f|]; [destruct HN as [A B]; auto | apply norange_rgvf'; exact Hnr]. }
    destruct (ret_outcome S0 u r l0 Hpl Hpre) as [A [B [C D]]].
    rewrite Ef in A, B, C. split; [exact A|]. split; [exact B|]. split.
    - unfold XS_linpoints2.hstep. assert (Ectx : ctxof s u = ctxof S0 u) by (unfold XS_linpoints2.ctxof; rewrite Ef, Ep; reflexivity).
      rewrite Ectx. exact C.
    - split; [rewrite D; exact Et | rewrite hcur_goto; exact Ec].
  Qed.

  Lemma start_scope (o : sop) : sokop2 o ->
    (norange (sstart_pc o) /\ sdec (sstart_pc o)) \/ (exists vf, o = SRange vf).
  Proof.
    destruct o; cbn [sokop2]; try contradiction; intros _; try (left; cbn; tauto); [|right; eexists; reflexivity].
    left. cbn [sstart_pc]. match goal with |- norange (sstart_cx ?cx) /\ _ => destruct (start_cx_scope cx) as [A [B _]] end. split; assumption.
  Qed.

  Lemma scope_sstep s G u s' ls : LI s G -> sstep s u = Some (s', ls) ->
    NR2 s' /\ XF s' /\ (forall t, sdec (h_pc s' t)) /\ (forall t, Forall sokop2 (h_todo s' t)) /\ (h_pc s u <> QIdle -> h_todo s' = h_todo s).
  Proof.
    intros HL E. pose proof (li_nr s G HL) as HN. pose proof (LI_XB s G HL) as HB.
    pose proof (others_step s u s' ls HB E) as Hoth. pose proof (frames_others s u s' ls E) as Hfo.
    assert (HX' : XF s') by (eapply (XF_sstep eqd hash idx tophash nslots seeds grow_needed shrink_policy nstripes minlen grow_only); [apply (li_xf s G HL) | exact E]).
    (* the stepping thread *)
    assert (Hown : match h_frame s' u with
                   | Some fr => norange (h_pc s' u) /\ rgafter (rf_vf fr) (rf_after fr)
                   | None => norange (h_pc s' u) \/ (rgvf (h_pc s' u) <> None /\ rgwf (h_pc s' u))
                   end /\ sdec (h_pc s' u)
                   /\ (h_pc s u <> QIdle -> h_todo s' = h_todo s)
                   /\ (forall o rest, h_pc s u = QIdle -> h_todo s u = o :: rest -> h_todo s' = fun t' => if Nat.eq_dec t' u then rest else h_todo s t')).
    { assert (Hcall : forall s1 p ls1, sstep_pc s1 u p = Some (s', ls1) -> h_frame s1 = h_frame s -> h_pc s1 u = p -> norange p -> sdec p ->
                        match h_frame s' u with
                        | Some fr => norange (h_pc s' u) /\ rgafter (rf_vf fr) (rf_after fr)
                        | None => norange (h_pc s' u) \/ (rgvf (h_pc s' u) <> None /\ rgwf (h_pc s' u))
                        end /\ sdec (h_pc s' u) /\ h_todo s' = h_todo s1).
      { intros s1 p ls1 Es Ef Ep Hnr Hd.
        assert (HN1 : match h_frame s1 u with Some f => rgafter (rf_vf f) (rf_after f) | None => True end).
        { rewrite Ef. specialize (HN u). destruct (h_frame s u); [tauto | exact I]. }
        destruct (step_scope_g eqd hash idx tophash nslots seeds grow_needed shrink_policy nstripes minlen grow_only s1 u p s' ls1 Es Hnr)
          as [[r [S0 [l0 [Es' [El [Hpl [Ef0 [Ep0 [Et0 Ec0]]]]]]]]]|[[Hpl [Ef' Et']] [Hn' Hd']]].
        - assert (Hpre : match h_frame S0 u with Some f => rgafter (rf_vf f) (rf_after f) /\ norange (h_pc S0 u) | None => rgvf (h_pc S0 u) = None end).
          { rewrite Ef0, Ep0, Ep. destruct (h_frame s1 u) as [f|]; [split; assumption | apply norange_rgvf'; exact Hnr]. }
          destruct (ret_outcome S0 u r l0 Hpl Hpre) as [A [B [_ D]]]. rewrite <- Es' in A, B, D. rewrite Ef0 in A, B.
          destruct (retpc_scope (h_frame s1 u) HN1) as [R1 [_ [_ R4]]].
          rewrite A, B. split; [exact R4|]. split; [exact R1 | rewrite D; exact Et0].
        - rewrite Ef'. split; [|split; [apply Hd'; exact Hd | exact Et']].
          rewrite Ef. specialize (HN u). destruct (h_frame s u) as [f|]; [split; [exact Hn' | tauto] | left; exact Hn']. }
      assert (Hrg : forall s1 p ls1 vf, sstep_pc s1 u p = Some (s', ls1) -> h_frame s1 u = None -> rgvf p = Some vf -> rgwf p ->
                      match h_frame s' u with
                      | Some fr => norange (h_pc s' u) /\ rgafter (rf_vf fr) (rf_after fr)
                      | None => norange (h_pc s' u) \/ (rgvf (h_pc s' u) <> None /\ rgwf (h_pc s' u))
                      end /\ sdec (h_pc s' u) /\ h_todo s' = h_todo s1).
      { intros s1 p ls1 vf Es Hf1 Hv Hw.
        destruct (L_rg eqd hash idx tophash nslots seeds grow_needed shrink_policy nstripes minlen grow_only s1 u p s' ls1 vf Es Hf1 Hv Hw)
          as [Htd [[A [B [C _]]]|[[A [B _]]|[cx [r' [a [A [B [C _]]]]]]]]].
        - rewrite A. split; [right; split; [rewrite B; discriminate | exact C]|]. split; [|exact Htd].
          destruct (h_pc s' u); cbn in B |- *; try discriminate B; try exact I;
            try (match goal with rg : option _ |- _ => destruct rg as [[? ?]|]; try discriminate B end); cbn in C |- *;
            destruct C as [->|[? [? ->]]]; exact I.
        - rewrite A, B. split; [left; exact I|]. split; [exact I | exact Htd].
        - destruct (start_cx_scope cx) as [S1 [S2 _]]. rewrite B, A. split; [split; [exact S1 | exact C]|]. split; [exact S2 | exact Htd]. }
      destruct (sstep_split eqd hash idx tophash nslots seeds grow_needed shrink_policy nstripes minlen grow_only s u s' ls E)
        as [[Hn Es]|[Hp [o [rest [ls0 [Et [El Es]]]]]]].
      - assert (Hres : match h_frame s' u with
                       | Some fr => norange (h_pc s' u) /\ rgafter (rf_vf fr) (rf_after fr)
                       | None => norange (h_pc s' u) \/ (rgvf (h_pc s' u) <> None /\ rgwf (h_pc s' u))
                       end /\ sdec (h_pc s' u) /\ h_todo s' = h_todo s).
        { pose proof (HN u) as HNu. destruct (h_frame s u) as [f|] eqn:Ef.
          - destruct HNu as [Hnr _]. apply (Hcall s _ ls Es eq_refl eq_refl Hnr (li_dec s G HL u)).
          - destruct HNu as [Hnr|[Hv Hw]]; [apply (Hcall s _ ls Es eq_refl eq_refl Hnr (li_dec s G HL u))|].
            destruct (rgvf (h_pc s u)) as [vf|] eqn:Ev; [|exfalso; apply Hv; reflexivity].
            apply (Hrg s _ ls vf Es Ef Ev Hw). }
        destruct Hres as [A [B C]]. split; [exact A|]. split; [exact B|]. split; [intros _; exact C | intros ? ? Hc; contradiction].
      - assert (Hf1 : h_frame (sinvoke s u o rest) u = None).
        { apply (xf_idle s (li_xf s G HL) u). rewrite Hp. cbn. tauto. }
        assert (Epc : h_pc (sinvoke s u o rest) u = sstart_pc o) by (cbn [XS_count.sinvoke h_pc]; destruct (Nat.eq_dec u u); congruence).
        pose proof (li_todo s G HL u) as Htd. rewrite Et in Htd. inversion Htd as [|? ? Ho Hrest]; subst.
        assert (Hres : match h_frame s' u with
                       | Some fr => norange (h_pc s' u) /\ rgafter (rf_vf fr) (rf_after fr)
                       | None => norange (h_pc s' u) \/ (rgvf (h_pc s' u) <> None /\ rgwf (h_pc s' u))
                       end /\ sdec (h_pc s' u) /\ h_todo s' = h_todo (sinvoke s u o rest)).
        { destruct (start_scope o Ho) as [[N1 N2]|[vf ->]].
          - apply (Hcall (sinvoke s u o rest) _ ls0 Es eq_refl Epc N1 N2).
          - apply (Hrg (sinvoke s u (SRange vf) rest) _ ls0 vf Es Hf1 eq_refl I). }
        destruct Hres as [A [B C]]. split; [exact A|]. split; [exact B|]. split; [intros Hc; contradiction|].
        intros o' rest' _ Et'. rewrite Et in Et'. inversion Et'; subst. exact C. }
    destruct Hown as [O1 [O2 [O3 O4]]].
    split; [|split; [exact HX'|split; [|split]]].
    - intros t. destruct (Nat.eq_dec t u) as [->|Hne]; [exact O1|].
      rewrite (Hfo t Hne). specialize (HN t).
      destruct (Hoth t Hne) as [Ep|Ep]; rewrite Ep; [exact HN|].
      destruct (h_frame s t); [destruct HN as [A B]; split; [apply norange_swake; exact A | exact B]|].
      destruct HN as [A|[A B]]; [left; apply norange_swake; exact A | right; rewrite rgvf_swake; split; [exact A | apply rgwf_swake; exact B]].
    - intros t. destruct (Nat.eq_dec t u) as [->|Hne]; [exact O2|].
      destruct (Hoth t Hne) as [Ep|Ep]; rewrite Ep; [|apply sdec_swake]; apply (li_dec s G HL).
    - intros t. destruct (idle_or (h_pc s u)) as [Hid|Hni].
      + destruct (h_todo s u) as [|o rest] eqn:Et.
        * exfalso. unfold XMachineS.sstep in E. rewrite Hid, Et in E. discriminate E.
        * rewrite (O4 o rest Hid eq_refl). pose proof (li_todo s G HL u) as Htd. rewrite Et in Htd. inversion Htd; subst.
          destruct (Nat.eq_dec t u); [assumption | apply (li_todo s G HL t)].
      + rewrite (O3 Hni). apply (li_todo s G HL).
    - exact O3.
  Qed.

  (* ---------------- what every step keeps for the threads that do not step ---------------- *)

  Lemma LI_frame s G u s' ls G' :
    LI s G -> sstep s u = Some (s', ls) ->
    gext u (h_cur s) G (h_cur s') G' ->
    (gc G' (h_cur s') = [] /\ forall j, h_cur s' < j -> gb G' j = [] /\ gc G' j = []) ->
    lok aempty (gI G' (h_cur s')) ->
    (forall j, j <= h_cur s' -> agree (gSE G' j) (svis (tabT (h_tabs s') j))) ->
    (forall j, j < h_cur s' ->
       (gc G' j = [] /\ forall w, swtab (h_pc s' w) <> Some j) \/ exists c, gc G' j = [ILin c SClear SRUnit]) ->
    tproto u TIdle (gI G' (h_cur s')) (gst G' u) ->
    sTOK (gst G' u) (h_pc s' u) ->
    (rgvf (h_pc s' u) <> None -> gst G' u = TIdle) ->
    (forall j, sontab (h_pc s' u) = Some j -> no_ev u (gc G' j) /\ forall j', j < j' <= h_cur s' -> no_ev u (gseg G' j')) ->
    (forall k lc tab h o, srdk (h_pc s' u) = Some (k, lc, tab, h) -> gst G' u = TInvoked o ->
       inlookup u k lc tab s'
       /\ (forall v, JJ u k tab v (can_ret G' (h_cur s') u o (shitres lc v)) s')
       /\ (lc = SLPlain -> can_ret G' (h_cur s') u o (SRVal None false) \/ JM u k tab s')) ->
    LI s' G'.
  Proof.
    intros HL E HG Hemp Hlok Hag Hcl Htp Htok Hrgi Hpos Hrd.
    pose proof (LI_XB s G HL) as HB.
    pose proof (others_step s u s' ls HB E) as Hoth.
    destruct (scope_sstep s G u s' ls HL E) as [Hnr' [Hxf' [Hdec' [Htodo' _]]]].
    constructor.
    - eapply SJ_step; [apply (li_si s G HL) | exact E].
    - exact Hxf'.
    - exact Hnr'.
    - intros t. destruct (Nat.eq_dec t u) as [->|Hne]; [exact Hrgi|]. rewrite (ge_st _ _ _ _ _ _ HG t Hne).
      intros Hv. apply (li_rgidle s G HL t). destruct (Hoth t Hne) as [Ep|Ep]; rewrite Ep in Hv; [exact Hv | rewrite rgvf_swake in Hv; exact Hv].
    - exact Hdec'.
    - exact Htodo'.
    - exact Hemp.
    - exact Hlok.
    - exact Hag.
    - exact Hcl.
    - intros t. destruct (Nat.eq_dec t u) as [->|Hne]; [exact Htp|].
      rewrite (ge_st _ _ _ _ _ _ HG t Hne). apply (ge_tp _ _ _ _ _ _ HG t _ Hne). apply (li_tp s G HL t).
    - intros t. destruct (Nat.eq_dec t u) as [->|Hne]; [exact Htok|].
      rewrite (ge_st _ _ _ _ _ _ HG t Hne). destruct (Hoth t Hne) as [Ep|Ep]; rewrite Ep; [|apply sTOK2_swake]; apply (li_tok s G HL t).
    - intros t j. destruct (Nat.eq_dec t u) as [->|Hne]; [apply Hpos|].
      intros Ho. assert (Ho0 : sontab (h_pc s t) = Some j).
      { destruct (Hoth t Hne) as [Ep|Ep]; rewrite Ep in Ho; [exact Ho | rewrite sontab_swake in Ho; exact Ho]. }
      destruct (li_pos s G HL t j Ho0) as [P1 P2].
      apply (ge_pos _ _ _ _ _ _ HG t j Hne (ontab_le s t j HB Ho0) P1 P2).
    - intros t k lc tab h o. destruct (Nat.eq_dec t u) as [->|Hne]; [apply Hrd|].
      intros Hr Hst. rewrite (ge_st _ _ _ _ _ _ HG t Hne) in Hst.
      assert (Hr0 : srdk (h_pc s t) = Some (k, lc, tab, h)).
      { destruct (Hoth t Hne) as [Ep|Ep]; rewrite Ep in Hr; [exact Hr | rewrite srdk_swake in Hr; exact Hr]. }
      eapply (rd_pres s G u s' ls u G' t); eassumption.
  Qed.

  (* a step of a thread that is not about to make a linearization store changes no published table *)
  Lemma vis_same s G u s' ls j : LI s G -> sstep s u = Some (s', ls) -> slres (h_pc s u) = None -> j <= h_cur s ->
    forall k v, svis (tabT (h_tabs s') j) k v <-> svis (tabT (h_tabs s) j) k v.
  Proof.
    intros HL E Hl Hj k v.
    rewrite (vis_sstep eqd hash idx tophash nslots seeds grow_needed shrink_policy nstripes minlen grow_only Hslots Hnslots Hidx Hminlen
               s u s' ls j k v (LI_XB s G HL) E Hj).
    rewrite (slres_lin _ j Hl). reflexivity.
  Qed.

  Lemma agree_same s G u s' ls G' : LI s G -> sstep s u = Some (s', ls) -> slres (h_pc s u) = None -> h_cur s' = h_cur s ->
    (forall j, j <= h_cur s -> gSE G' j = gSE G j) ->
    forall j, j <= h_cur s' -> agree (gSE G' j) (svis (tabT (h_tabs s') j)).
  Proof.
    intros HL E Hl Hc HSE j Hj. rewrite Hc in Hj. rewrite (HSE j Hj).
    eapply X_linpoints.agree_iff; [apply (vis_same s G u s' ls j HL E Hl Hj) | apply (li_agree s G HL j Hj)].
  Qed.

  Lemma close_same s G u s' ls G' : LI s G -> sstep s u = Some (s', ls) -> h_cur s' = h_cur s ->
    (forall j, gc G' j = gc G j) ->
    forall j, j < h_cur s' ->
      (gc G' j = [] /\ forall w, swtab (h_pc s' w) <> Some j) \/ exists c, gc G' j = [ILin c SClear SRUnit].
  Proof.
    intros HL E Hc Hgc j Hj. rewrite Hc in Hj. rewrite Hgc.
    destruct (li_close s G HL j Hj) as [[A B]|B]; [left | right; exact B].
    split; [exact A|]. intros w Hw. apply (B w).
    eapply (@sstep_swtab_stale K V eqd hash idx tophash nslots seeds grow_needed shrink_policy nstripes minlen grow_only);
      first [exact Hslots | exact Hnslots | exact Hidx | exact Hminlen | exact (LI_XB s G HL) | exact E | exact Hw | lia].
  Qed.

  Lemma LI_GOK s G : LI s G -> GOK (h_cur s) G.
  Proof. intros HL. constructor; [apply (li_empty s G HL) | apply (li_lok s G HL) | apply (li_tp s G HL)]. Qed.

  Lemma LI_frame2 s G u s' ls G' :
    LI s G -> sstep s u = Some (s', ls) ->
    gext u (h_cur s) G (h_cur s') G' -> GOK (h_cur s') G' ->
    (forall j, j <= h_cur s' -> agree (gSE G' j) (svis (tabT (h_tabs s') j))) ->
    (forall j, j < h_cur s' ->
       (gc G' j = [] /\ forall w, swtab (h_pc s' w) <> Some j) \/ exists c, gc G' j = [ILin c SClear SRUnit]) ->
    sTOK (gst G' u) (h_pc s' u) ->
    (rgvf (h_pc s' u) <> None -> gst G' u = TIdle) ->
    (forall j, sontab (h_pc s' u) = Some j -> no_ev u (gc G' j) /\ forall j', j < j' <= h_cur s' -> no_ev u (gseg G' j')) ->
    (forall k lc tab h o, srdk (h_pc s' u) = Some (k, lc, tab, h) -> gst G' u = TInvoked o ->
       inlookup u k lc tab s'
       /\ (forall v, JJ u k tab v (can_ret G' (h_cur s') u o (shitres lc v)) s')
       /\ (lc = SLPlain -> can_ret G' (h_cur s') u o (SRVal None false) \/ JM u k tab s')) ->
    LI s' G'.
  Proof.
    intros HL E HG HK Hag Hcl Htok Hrgi Hpos Hrd.
    eapply LI_frame; try eassumption; [apply (gk_empty _ _ _ HK) | apply (gk_lok _ _ _ HK) | apply (gk_tp _ _ _ HK)].
  Qed.

  (* ---------------- a step that is no linearization point and no invocation / response ---------------- *)

  Lemma pend_rdk (p : spc) r : spend p = Some r -> srdk p = None.
  Proof. destruct p; cbn; intros E; try reflexivity; discriminate E. Qed.
  Lemma clr_rdk (p : spc) : sclr p = true -> srdk p = None.
  Proof. destruct p; cbn; intros E; try reflexivity; discriminate E. Qed.

  Lemma swtab_step s G u s' ls w j : LI s G -> sstep s u = Some (s', ls) -> swtab (h_pc s' w) = Some j ->
    swtab (h_pc s w) = Some j \/ (w = u /\ h_cur s = j /\ exists cx, h_pc s u = QW_ChkTab cx j).
  Proof.
    intros HL E Hw.
    eapply (@sstep_swtab K V eqd hash idx tophash nslots seeds grow_needed shrink_policy nstripes minlen grow_only);
      first [exact Hslots | exact Hnslots | exact Hidx | exact Hminlen | exact (LI_XB s G HL) | exact E | exact Hw].
  Qed.

  (* the position facts of the stepping thread, when the step inserts nothing behind the body of its table *)
  Lemma pos_keep s G u s' ls G' : LI s G -> sstep s u = Some (s', ls) -> h_cur s' = h_cur s ->
    (forall j, gc G' j = gc G j) ->
    (forall j, sontab (h_pc s u) = Some j -> forall j', j < j' -> gseg G' j' = gseg G j') ->
    (forall x, srdk (h_pc s' u) = Some x -> srdk (h_pc s u) = Some x) ->
    forall j, sontab (h_pc s' u) = Some j -> no_ev u (gc G' j) /\ forall j', j < j' <= h_cur s' -> no_ev u (gseg G' j').
  Proof.
    intros HL E Hc Hgc Hseg Hrd j Ho. rewrite Hc.
    assert (Hcase : sontab (h_pc s u) = Some j \/ j = h_cur s).
    { destruct (ontab_inv _ _ Ho) as [[k [lc [h Hr]]]|Hw].
      - left. eapply ontab_rdk. apply Hrd. exact Hr.
      - destruct (swtab_step s G u s' ls u j HL E Hw) as [H|[_ [H _]]];
          [left; apply ontab_wtab; exact H | right; symmetry; exact H]. }
    destruct Hcase as [Ho0| ->].
    - destruct (li_pos s G HL u j Ho0) as [P1 P2]. split; [rewrite Hgc; exact P1|].
      intros j' Hj'. rewrite (Hseg j Ho0 j') by lia. apply P2. exact Hj'.
    - split; [rewrite Hgc; destruct (li_empty s G HL) as [A _]; rewrite A; apply no_ev_nil | intros j' Hj'; lia].
  Qed.

  Lemma K_silent s G u s' ls : LI s G -> sstep s u = Some (s', ls) ->
    slres (h_pc s u) = None -> (forall kt new, h_pc s u <> QR_Publish kt new) ->
    sTOK (gst G u) (h_pc s' u) ->
    (rgvf (h_pc s' u) <> None -> gst G u = TIdle) ->
    (forall x, srdk (h_pc s' u) = Some x -> srdk (h_pc s u) = Some x) ->
    LI s' G.
  Proof.
    intros HL E Hl Hnp Htok Hrgi Hrd.
    pose proof (LI_XB s G HL) as HB.
    pose proof (cur_same s u s' ls HB E Hnp) as Hc.
    eapply (LI_frame2 s G u s' ls G); try eassumption.
    - rewrite Hc. apply gext_refl.
    - rewrite Hc. apply LI_GOK. exact HL.
    - apply (agree_same s G u s' ls G HL E Hl Hc). reflexivity.
    - apply (close_same s G u s' ls G HL E Hc). reflexivity.
    - apply (pos_keep s G u s' ls G HL E Hc); auto.
    - intros k lc tab h o Hr Hst. pose proof (Hrd _ Hr) as Hr0.
      apply (rd_pres s G u s' ls (S u) G u k lc tab h o HL E); try assumption; [rewrite Hc; apply gext_refl | lia |].
      apply (agree_same s G u s' ls G HL E Hl Hc). reflexivity.
  Qed.


  (* ---------------- invocation / response events: appended at the end of the history ---------------- *)

  Definition nonmark (e : iev) : Prop := match e with ILin _ _ _ => False | _ => True end.

  Lemma gend_ok cur G e st' : GOK cur G -> nonmark e -> tmove (evt e) (gst G (evt e)) e st' ->
    let G' := g_setst (g_ins G cur (gb G cur) e []) (evt e) st' in
    GOK cur G' /\ gext (evt e) cur G cur G' /\ (forall i, gc G' i = gc G i) /\ (forall i, i <= cur -> gSE G' i = gSE G i)
    /\ gst G' (evt e) = st'
    /\ erase sop sres (gI G' cur) = erase sop sres (gI G cur) ++ erase sop sres [e].
  Proof.
    intros HK Hnm Hm G'.
    destruct (gk_empty _ _ _ HK) as [Hc0 _].
    assert (Hb : gb G cur = gb G cur ++ []) by (symmetry; apply app_nil_r).
    assert (Hnoop : lrun (lrun (gSS G cur) (gb G cur)) [e] = lrun (gSS G cur) (gb G cur)) by (destruct e; try contradiction; reflexivity).
    assert (Hst : stable G cur cur (gb G cur) [] e) by (left; exact Hnoop).
    assert (Heok : LinGen.eok ML (lrun (gSS G cur) (gb G cur)) e) by (destruct e; try contradiction; exact I).
    destruct (gins_ok ML cur G cur (gb G cur) [] e st' HK (le_n _) Hb Hst Heok) as [HK' [HG [Ggc [Ggb [Ggbj [GSS [GSE [GSEj [Gst Gsto]]]]]]]]].
    { apply no_ev_nil. } { rewrite Hc0. apply no_ev_nil. } { intros j' Hj'. lia. } { exact Hm. }
    fold G' in HK', HG, Ggc, Ggb, Ggbj, GSS, GSE, GSEj, Gst, Gsto.
    split; [exact HK'|]. split; [exact HG|]. split; [exact Ggc|]. split.
    - intros i Hi. destruct (Nat.eq_dec i cur) as [->|Hne]; [rewrite GSEj; apply gins_SE_noop; assumption | apply GSE; assumption].
    - split; [exact Gst|]. change (gI G' cur) with (gI (g_ins G cur (gb G cur) e []) cur). apply (ins_erase_end ML). exact Hc0.
  Qed.

  (* a chain of invocation / response events of thread u *)
  Inductive tchain (u : nat) : tstat -> list iev -> tstat -> Prop :=
  | tc_nil st : tchain u st [] st
  | tc_cons st e st1 es st' : nonmark e -> evt e = u -> tmove u st e st1 -> tchain u st1 es st' -> tchain u st (e :: es) st'.

  Lemma K_tail s u s' ls es : forall G G1 st', LI s G -> sstep s u = Some (s', ls) -> slres (h_pc s u) = None -> h_cur s' = h_cur s ->
    GOK (h_cur s) G1 -> gext u (h_cur s) G (h_cur s) G1 -> (forall i, gc G1 i = gc G i) -> (forall i, i <= h_cur s -> gSE G1 i = gSE G i) ->
    tchain u (gst G1 u) es st' ->
    sTOK st' (h_pc s' u) -> (rgvf (h_pc s' u) <> None -> st' = TIdle) -> sontab (h_pc s' u) = None ->
    exists G', LI s' G' /\ erase sop sres (gI G' (h_cur s')) = erase sop sres (gI G1 (h_cur s)) ++ erase sop sres es.
  Proof.
    induction es as [|e es IH]; intros G G1 st' HL E Hl Hc HK HG Hgc HSE Hch Htok Hrgi Hon.
    - inversion Hch; subst. exists G1. split; [|rewrite Hc, app_nil_r; reflexivity].
      eapply (LI_frame2 s G u s' ls G1); try eassumption.
      + rewrite Hc. exact HG.
      + rewrite Hc. exact HK.
      + apply (agree_same s G u s' ls G1 HL E Hl Hc). exact HSE.
      + apply (close_same s G u s' ls G1 HL E Hc). exact Hgc.
      + intros j Ho. rewrite Hon in Ho. discriminate Ho.
      + intros k lc tab h o Hr. unfold XS_linpoints.sontab in Hon. rewrite Hr in Hon. discriminate Hon.
    - inversion Hch as [|? ? st1 ? ? Hnm He Hm Hch']; subst.
      destruct (gend_ok (h_cur s) G1 e st1 HK Hnm) as [HK' [HG' [Ggc [GSE [Gst Ger]]]]]; [exact Hm|].
      set (G2 := g_setst (g_ins G1 (h_cur s) (gb G1 (h_cur s)) e []) (evt e) st1) in *.
      destruct (IH G G2 st' HL E Hl Hc HK') as [G' [HL' Er]].
      + eapply gext_trans; eassumption.
      + intros i. rewrite Ggc. apply Hgc.
      + intros i Hi. rewrite (GSE i Hi). apply HSE. exact Hi.
      + rewrite Gst. exact Hch'.
      + exact Htok.
      + exact Hrgi.
      + exact Hon.
      + exists G'. split; [exact HL'|]. rewrite Er, Ger, <- app_assoc. f_equal. change (e :: es) with ([e] ++ es). rewrite (LinGen.erase_app ML). reflexivity.
  Qed.

  (* ---------------- a call returns: to its caller, or to the Range whose visitor made it ---------------- *)

  Lemma cxop_tok (cx : scx) : sTOK (TInvoked (cxop cx)) (sstart_cx cx).
  Proof.
    destruct cx as [k f ev lie co]. unfold sstart_cx, cxop. cbn [sc_k sc_f sc_ev sc_lie sc_co sTOK2]. destruct lie; cbn [spend].
    - split; [reflexivity|]. left. split; [reflexivity|]. right. reflexivity.
    - split; [reflexivity|]. right. split; reflexivity.
  Qed.

  Lemma K_ret s G u s' ls G1 o r : LI s G -> sstep s u = Some (s', ls) -> norange (h_pc s u) -> slres (h_pc s u) = None ->
    isret s u s' ls r ->
    GOK (h_cur s) G1 -> gext u (h_cur s) G (h_cur s) G1 -> (forall i, gc G1 i = gc G i) -> (forall i, i <= h_cur s -> gSE G1 i = gSE G i) ->
    gst G1 u = TLinearized o r ->
    exists G', LI s' G' /\ erase sop sres (gI G' (h_cur s')) = erase sop sres (gI G1 (h_cur s)) ++ hstep s u ls.
  Proof.
    intros HL E Hnr Hl Hret HK HG Hgc HSE Hst.
    pose proof (li_nr s G HL) as HN.
    destruct (ret_facts s u s' ls r HN Hnr Hret) as [Ep' [Ef' [Eh [_ Hc]]]].
    assert (Hfr : match h_frame s u with Some f => rgafter (rf_vf f) (rf_after f) | None => True end).
    { specialize (HN u). destruct (h_frame s u); [tauto | exact I]. }
    destruct (retpc_scope (h_frame s u) Hfr) as [_ [Hon [_ _]]].
    rewrite Eh. rewrite <- Ep' in Hon.
    destruct (h_frame s u) as [f|] eqn:Ef; cbn [retpc retev] in Ep' |- *.
    - destruct (vout (rf_rest f) (rf_vf f)) as [[cx r']|] eqn:Ev.
      + (* the next visit calls the map *)
        destruct (K_tail s u s' ls [IRes u r; IInv u (cxop cx)] G G1 (TInvoked (cxop cx)) HL E Hl Hc HK HG Hgc HSE) as [G' [HL' Er]].
        * eapply tc_cons; [exact I | reflexivity | rewrite Hst; constructor |].
          eapply tc_cons; [exact I | reflexivity | constructor | constructor].
        * rewrite Ep'. apply cxop_tok.
        * rewrite Ep'. destruct (start_cx_scope cx) as [_ [_ [X _]]]. rewrite X. intros Hx. exfalso. apply Hx. reflexivity.
        * exact Hon.
        * exists G'. split; [exact HL'|]. unfold retev. rewrite ?Ev. exact Er.
      + (* the visits are over: the Range goes on, or returns *)
        destruct (K_tail s u s' ls [IRes u r] G G1 TIdle HL E Hl Hc HK HG Hgc HSE) as [G' [HL' Er]].
        * eapply tc_cons; [exact I | reflexivity | rewrite Hst; constructor | constructor].
        * rewrite Ep'. cbn [sTOK2]. destruct Hfr as [->|[tab [b ->]]]; cbn [snorm]; [left; reflexivity | right; right; discriminate].
        * intros _. reflexivity.
        * exact Hon.
        * exists G'. split; [exact HL'|]. unfold retev. rewrite ?Ev. exact Er.
    - destruct (K_tail s u s' ls [IRes u r] G G1 TIdle HL E Hl Hc HK HG Hgc HSE) as [G' [HL' Er]].
      + eapply tc_cons; [exact I | reflexivity | rewrite Hst; constructor | constructor].
      + rewrite Ep'. left. reflexivity.
      + intros _. reflexivity.
      + exact Hon.
      + exists G'. split; [exact HL'|]. unfold retev. exact Er.
  Qed.

  Lemma LI_ext_refl s G : LI s G -> GOK (h_cur s) G /\ gext (S 0) (h_cur s) G (h_cur s) G.
  Proof. intros HL. split; [apply LI_GOK; exact HL | apply gext_refl]. Qed.

  (* a call that has taken effect returns *)
  Lemma K_response s G u s' ls o r : LI s G -> sstep s u = Some (s', ls) -> norange (h_pc s u) ->
    gst G u = TLinearized o r -> isret s u s' ls r ->
    exists G', LI s' G' /\ erase sop sres (gI G' (h_cur s')) = erase sop sres (gI G (h_cur s)) ++ hstep s u ls.
  Proof.
    intros HL E Hnr Hst Hret.
    pose proof (li_tok s G HL u) as Htok. rewrite Hst in Htok. destruct Htok as [Hok Hpend].
    assert (Hl : slres (h_pc s u) = None) by (eapply spend_slres; exact Hpend).
    apply (K_ret s G u s' ls G o r HL E Hnr Hl Hret (LI_GOK s G HL)); [apply gext_refl | reflexivity | reflexivity | exact Hst].
  Qed.

  Lemma K_end s G u s' ls e st' : LI s G -> sstep s u = Some (s', ls) ->
    slres (h_pc s u) = None -> h_cur s' = h_cur s ->
    evt e = u -> (match e with ILin _ _ _ => False | _ => True end) ->
    tmove u (gst G u) e st' ->
    sTOK st' (h_pc s' u) -> (rgvf (h_pc s' u) <> None -> st' = TIdle) ->
    let G' := g_setst (g_ins G (h_cur s) (gb G (h_cur s)) e []) u st' in
    (forall j, sontab (h_pc s' u) = Some j -> j = h_cur s) ->
    (forall k lc tab h o, srdk (h_pc s' u) = Some (k, lc, tab, h) -> st' = TInvoked o ->
       inlookup u k lc tab s'
       /\ (forall v, JJ u k tab v (can_ret G' (h_cur s') u o (shitres lc v)) s')
       /\ (lc = SLPlain -> can_ret G' (h_cur s') u o (SRVal None false) \/ JM u k tab s')) ->
    LI s' G' /\ erase sop sres (gI G' (h_cur s')) = erase sop sres (gI G (h_cur s)) ++ erase sop sres [e].
  Proof.
    intros HL E Hl Hc He Hnm Hm Htok Hrgi G' Hpos Hrd.
    set (cur := h_cur s) in *.
    destruct (li_empty s G HL) as [Hc0 Hemp]. fold cur in Hc0, Hemp.
    assert (Hb : gb G cur = gb G cur ++ []) by (symmetry; apply app_nil_r).
    assert (Hnoop : lrun (lrun (gSS G cur) (gb G cur)) [e] = lrun (gSS G cur) (gb G cur)) by (destruct e; try contradiction; reflexivity).
    assert (Hst : stable G cur cur (gb G cur) [] e) by (left; exact Hnoop).
    assert (Heok : LinGen.eok ML (lrun (gSS G cur) (gb G cur)) e) by (destruct e; try contradiction; exact I).
    rewrite <- He in Hm.
    destruct (gins_ok ML cur G cur (gb G cur) [] e st' (LI_GOK s G HL) (le_n _) Hb Hst Heok) as [HK [HG [Ggc [Ggb [Ggbj [GSS [GSE [GSEj [Gst Gsto]]]]]]]]].
    { apply no_ev_nil. } { rewrite Hc0. apply no_ev_nil. } { intros j' Hj'. lia. } { exact Hm. }
    rewrite He in *. fold G' in HK, HG, Ggc, Ggb, Ggbj, GSS, GSE, GSEj, Gst, Gsto.
    split.
    - eapply (LI_frame2 s G u s' ls G'); try eassumption.
      + rewrite Hc. exact HG.
      + rewrite Hc. exact HK.
      + apply (agree_same s G u s' ls G' HL E Hl Hc). intros j Hj. destruct (Nat.eq_dec j cur) as [->|Hne].
        * rewrite GSEj. apply gins_SE_noop; assumption.
        * apply GSE; assumption.
      + apply (close_same s G u s' ls G' HL E Hc). exact Ggc.
      + rewrite Gst. exact Htok.
      + rewrite Gst. exact Hrgi.
      + intros j Ho. rewrite (Hpos j Ho), Hc. fold cur. split; [rewrite Ggc, Hc0; apply no_ev_nil | intros j' Hj'; lia].
      + intros k lc tab h o Hr Hs. rewrite Gst in Hs. apply (Hrd k lc tab h o Hr Hs).
    - rewrite Hc. fold cur. change (gI G' cur) with (gI (g_ins G cur (gb G cur) e []) cur). apply (ins_erase_end ML). exact Hc0.
  Qed.


  (* ---------------- labels ---------------- *)

  Lemma hstep_plain s u ls : plainl ls -> hstep s u ls = [].
  Proof. intros H. unfold XS_linpoints2.hstep. rewrite <- (app_nil_r ls). rewrite (hst_plain _ _ ls [] H). reflexivity. Qed.

  Lemma ret_label s u s' (ls : list slabel) r : isret s u s' ls r -> In (SRes u r) ls \/ In (SSubRes u r) ls.
  Proof.
    intros [S0 [l0 [_ [-> _]]]]. cbn [XMachineS.sgoto]. destruct (h_frame S0 u) as [f|].
    - right. rewrite svisits_snd. apply in_or_app. left. apply in_or_app. right. left. reflexivity.
    - left. cbn [snd]. apply in_or_app. right. left. reflexivity.
  Qed.

  Lemma plainl_noret u (ls : list slabel) (r : sres) : plainl ls -> ~ (In (@SRes K V u r) ls \/ In (@SSubRes K V u r) ls).
  Proof.
    intros H [Hi|Hi]; unfold XS_linpoints2.plainl in H; rewrite Forall_forall in H; specialize (H _ Hi); exact H.
  Qed.

  Lemma rdk_norange (p : spc) x : srdk p = Some x -> norange p.
  Proof. destruct p; cbn; intros E; try discriminate E; exact I. Qed.

  (* a step of a thread inside a call that does not return stays inside the call *)
  Lemma nr_step s u s' ls : sstep_pc s u (h_pc s u) = Some (s', ls) -> norange (h_pc s u) -> stepq s s' ls -> norange (h_pc s' u).
  Proof.
    intros Es Hnr [Hpl _].
    destruct (step_scope_g eqd hash idx tophash nslots seeds grow_needed shrink_policy nstripes minlen grow_only s u _ s' ls Es Hnr)
      as [[r Hret]|[_ [H _]]]; [|exact H].
    exfalso. exact (plainl_noret u ls r Hpl (ret_label s u s' ls r Hret)).
  Qed.

  (* ---------------- a lookup returns: its mark goes to a point of the past ---------------- *)

  Lemma K_rdret s G u s' ls o r x : LI s G -> sstep s u = Some (s', ls) ->
    srdk (h_pc s u) = Some x -> gst G u = TInvoked o -> can_ret G (h_cur s) u o r -> isret s u s' ls r ->
    exists G', LI s' G' /\ erase sop sres (gI G' (h_cur s')) = erase sop sres (gI G (h_cur s)) ++ hstep s u ls.
  Proof.
    intros HL E Hr Hst [j [b1 [b2 [Hj [Hb [N1 [N2 [N3 [Hok [Hres Hnx]]]]]]]]]] Hret.
    set (cur := h_cur s) in *.
    assert (Hl : slres (h_pc s u) = None) by (eapply srdk_slres; exact Hr).
    set (e1 := @ILin sop sres u o r).
    assert (Hn1 : lrun (lrun (gSS G j) b1) [e1] = lrun (gSS G j) b1) by exact Hnx.
    destruct (gins_ok ML cur G j b1 b2 e1 (TLinearized o r) (LI_GOK s G HL) Hj Hb (or_introl Hn1)) as [HK1 [HG1 [Ggc1 [Ggb1 [Ggbj1 [GSS1 [GSE1 [GSEj1 [Gst1 Gsto1]]]]]]]]].
    { split; [exact Hok | exact Hres]. } { exact N1. } { exact N2. } { exact N3. } { change (evt e1) with u. rewrite Hst. constructor. }
    change (evt e1) with u in *. set (G1 := g_setst (g_ins G j b1 e1 b2) u (TLinearized o r)) in *.
    assert (HSE : forall i, i <= cur -> gSE G1 i = gSE G i).
    { intros i Hi. destruct (Nat.eq_dec i j) as [->|Hne]; [rewrite GSEj1; apply gins_SE_noop; assumption | apply GSE1; assumption]. }
    destruct (K_ret s G u s' ls G1 o r HL E (rdk_norange _ _ Hr) Hl Hret HK1 HG1 Ggc1 HSE Gst1) as [G' [HL' Er]].
    exists G'. split; [exact HL'|]. rewrite Er. f_equal. fold cur.
    change (gI G1 cur) with (gI (g_ins G j b1 e1 b2) cur).
    erewrite (ins_erase_mark ML); [reflexivity | first [exact Hj | exact Hb | (left; exact Hn1) | exact I] ..].
  Qed.

  Lemma K_rdhit s G u s' ls k lc tab h o v : LI s G -> sstep s u = Some (s', ls) ->
    srdk (h_pc s u) = Some (k, lc, tab, h) -> gst G u = TInvoked o -> isret s u s' ls (shitres lc v) ->
    exists G', LI s' G' /\ erase sop sres (gI G' (h_cur s')) = erase sop sres (gI G (h_cur s)) ++ hstep s u ls.
  Proof.
    intros HL E Hr Hst Hret.
    destruct (li_si s G HL) as [_ [_ HNQ]].
    destruct (li_rd s G HL u k lc tab h o Hr Hst) as [Hin [HJ _]].
    assert (Hhit : exists l, In l ls /\ hit u v l).
    { destruct (ret_label s u s' ls _ Hret) as [Hi|Hi]; [exists (SRes u (shitres lc v)) | exists (SSubRes u (shitres lc v))];
        (split; [exact Hi|]); destruct lc; cbn [shitres]; eexists; first [left; reflexivity | right; reflexivity]. }
    assert (Hcr : can_ret G (h_cur s) u o (shitres lc v)).
    { exact (XS_loadhit.hit_step eqd hash idx tophash nslots seeds grow_needed shrink_policy nstripes minlen grow_only
               u k lc tab v _ s s' ls HNQ Hin (HJ v) E Hhit). }
    eapply K_rdret; eassumption.
  Qed.

  Lemma K_rdmiss s G u s' ls k tab h o : LI s G -> sstep s u = Some (s', ls) ->
    srdk (h_pc s u) = Some (k, SLPlain, tab, h) -> gst G u = TInvoked o -> isret s u s' ls (SRVal None false) ->
    exists G', LI s' G' /\ erase sop sres (gI G' (h_cur s')) = erase sop sres (gI G (h_cur s)) ++ hstep s u ls.
  Proof.
    intros HL E Hr Hst Hret.
    pose proof (LI_XB s G HL) as HB. destruct (li_si s G HL) as [_ [_ HNQ]].
    destruct (li_rd s G HL u k SLPlain tab h o Hr Hst) as [Hin [_ HM]].
    destruct (tok_rd _ _ k SLPlain tab h (li_tok s G HL u) Hr) as [o' [Eo Hop]]. rewrite Hst in Eo. inversion Eo; subst o'. clear Eo.
    cbn [XS_linpoints.srd_op] in Hop. subst o.
    assert (Hend : XS_loadmiss.endchain u s ls).
    { apply (XS_loadmiss.absent_end eqd hash idx tophash nslots seeds grow_needed shrink_policy nstripes minlen grow_only u k SLPlain tab s s' ls HNQ Hin E).
      exact (ret_label s u s' ls _ Hret). }
    assert (Hcr : can_ret G (h_cur s) u (SLoad k) (SRVal None false)).
    { destruct (HM eq_refl) as [H|Hjm]; [exact H|].
      destruct (XS_loadmiss.vis_dec eqd hash idx tophash nslots nstripes minlen Hslots Hnslots Hminlen k tab s) as [Hp|Hn].
      - exfalso.
        exact (XS_loadmiss.miss_step eqd hash idx tophash nslots seeds grow_needed shrink_policy nstripes minlen grow_only
                 Hslots Hnslots Hidx Hminlen u k SLPlain tab s s' ls HB (conj Hin Hp) Hjm E Hend).
      - eapply end_miss; [exact HL | eapply ontab_rdk; exact Hr |].
        intros v Hv. apply Hn. exists v. exact Hv. }
    eapply K_rdret; eassumption.
  Qed.

  (* ---------------- a writer takes effect: its mark goes to the end of the body of its table's generation ---------------- *)

  Lemma K_mark s G u s' ls o r tab : LI s G -> sstep s u = Some (s', ls) -> h_pc s u <> QIdle ->
    gst G u = TInvoked o -> sokop o -> tab <= h_cur s ->
    no_ev u (gc G tab) -> (forall j', tab < j' <= h_cur s -> no_ev u (gseg G j')) ->
    stable G (h_cur s) tab (gb G tab) [] (ILin u o r) -> r = sspec_res (gSE G tab) o ->
    h_cur s' = h_cur s -> hstep s u ls = [] -> spend (h_pc s' u) = Some r -> norange (h_pc s' u) ->
    (forall i, i <= h_cur s -> i <> tab -> forall k v, svis (tabT (h_tabs s') i) k v <-> svis (tabT (h_tabs s) i) k v) ->
    agree (sspec_next (gSE G tab) o) (svis (tabT (h_tabs s') tab)) ->
    (forall j, sontab (h_pc s' u) = Some j -> j = tab) ->
    exists G', LI s' G' /\ erase sop sres (gI G' (h_cur s')) = erase sop sres (gI G (h_cur s)) ++ hstep s u ls.
  Proof.
    intros HL E Hni Hst Hok Htab P1 P2 Hstab Hres Hc Hh Hpend Hnr' Hvis Hag Hpos.
    set (cur := h_cur s) in *.
    set (e := @ILin sop sres u o r).
    assert (Hb : gb G tab = gb G tab ++ []) by (symmetry; apply app_nil_r).
    destruct (gins_ok ML cur G tab (gb G tab) [] e (TLinearized o r) (LI_GOK s G HL) Htab Hb Hstab) as [HK [HG [Ggc [Ggb [Ggbj [GSS [GSE [GSEj [Gst Gsto]]]]]]]]].
    { split; [exact Hok | exact Hres]. } { apply no_ev_nil. } { exact P1. } { exact P2. } { change (evt e) with u. rewrite Hst. constructor. }
    change (evt e) with u in *. set (G' := g_setst (g_ins G tab (gb G tab) e []) u (TLinearized o r)) in *.
    assert (HSEj : gSE G' tab = sspec_next (gSE G tab) o).
    { rewrite GSEj. rewrite (LinGen.lrun_app ML). reflexivity. }
    exists G'. split.
    - eapply (LI_frame2 s G u s' ls G'); try eassumption.
      + rewrite Hc. exact HG.
      + rewrite Hc. exact HK.
      + intros i Hi. rewrite Hc in Hi. fold cur in Hi. destruct (Nat.eq_dec i tab) as [->|Hne].
        * rewrite HSEj. exact Hag.
        * rewrite (GSE i Hi Hne). eapply X_linpoints.agree_iff; [apply (Hvis i Hi Hne) | apply (li_agree s G HL i Hi)].
      + apply (close_same s G u s' ls G' HL E Hc). exact Ggc.
      + rewrite Gst. split; assumption.
      + intros Hx. exfalso. apply Hx. apply norange_rgvf'. exact Hnr'.
      + intros j Ho. rewrite (Hpos j Ho), Hc. fold cur. split; [rewrite Ggc; exact P1|].
        intros j' Hj'. assert (Hs : gseg G' j' = gseg G j'). { unfold LinGen.gseg. rewrite Ggc, Ggb by lia. reflexivity. }
        rewrite Hs. apply P2. exact Hj'.
      + intros k lc tab0 h o0 Hr0. rewrite (pend_rdk _ _ Hpend) in Hr0. discriminate Hr0.
    - rewrite Hc, Hh, app_nil_r. fold cur. change (gI G' cur) with (gI (g_ins G tab (gb G tab) e []) cur).
      erewrite (ins_erase_mark ML); [reflexivity | first [exact Htab | exact Hb | exact Hstab | exact I] ..].
  Qed.

  Lemma lin_other (p : spc) tab i : swtab p = Some tab -> i <> tab -> lin_effect p i = None.
  Proof.
    destruct p; cbn; intros E Hne; try reflexivity; try discriminate E; inversion E; subst;
      (destruct (Nat.eq_dec tab i); [exfalso; apply Hne; symmetry; assumption | reflexivity]).
  Qed.

  Lemma lres_wtab (p : spc) r : slres p = Some r -> exists tab, swtab p = Some tab.
  Proof. destruct p; cbn; intros E; try discriminate E; eexists; reflexivity. Qed.

  Lemma clr_wcx (p : spc) : sclr p = true -> swcx p = None.
  Proof.
    destruct p; cbn [sclr swcx]; try discriminate; try reflexivity; intros H;
      repeat match type of H with context [match ?x with _ => _ end] => destruct x end; try discriminate H; reflexivity.
  Qed.

  Lemma tok_wr st (p : spc) cx : sTOK st p -> norange p -> spend p = None -> srdk p = None -> swcx p = Some cx ->
    exists o, st = TInvoked o /\ sopcx o = Some cx /\ sokop o.
  Proof.
    intros Ht Hnr Hp Hr Hw. destruct st as [|o|o r]; cbn [sTOK2] in Ht.
    - exfalso. destruct Ht as [-> | [-> | Ht]]; try discriminate Hw. apply Ht. apply norange_rgvf'. exact Hnr.
    - exists o. split; [reflexivity|]. destruct Ht as [_ Ht]. destruct o; try contradiction.
      + destruct Ht as [tab [h E]]. rewrite E in Hr. discriminate Hr.
      + destruct Ht as [[_ [[tab [h E]]|E]]|[_ E]]; [rewrite E in Hr; discriminate Hr | rewrite E in Hw; discriminate Hw |].
        rewrite E in Hw. inversion Hw; subst cx. cbn. auto.
      + rewrite (clr_wcx _ Ht) in Hw. discriminate Hw.
    - destruct Ht as [_ Ht]. rewrite Ht in Hp. discriminate Hp.
  Qed.

  (* the marks of a writer that is past its checks on table tab: where they go *)
  Lemma writer_place s G u tab : LI s G -> swtab (h_pc s u) = Some tab ->
    tab <= h_cur s /\ no_ev u (gc G tab) /\ (forall j', tab < j' <= h_cur s -> no_ev u (gseg G j'))
    /\ ((tab = h_cur s /\ gc G tab = []) \/ LinGen.starts_clear ML (gc G tab)).
  Proof.
    intros HL Hwt. pose proof (ontab_wtab _ _ Hwt) as Hon.
    pose proof (ontab_le s u tab (LI_XB s G HL) Hon) as Htab.
    destruct (li_pos s G HL u tab Hon) as [P1 P2].
    split; [exact Htab|]. split; [exact P1|]. split; [exact P2|].
    destruct (Nat.eq_dec tab (h_cur s)) as [Et|Hne].
    - left. split; [exact Et|]. rewrite Et. destruct (li_empty s G HL) as [A _]. exact A.
    - right. destruct (li_close s G HL tab ltac:(lia)) as [[_ B]|[c Ec]]; [exfalso; exact (B u Hwt)|].
      rewrite Ec. exists c, SRUnit, []. reflexivity.
  Qed.

  (* the linearization store of a writer *)
  Lemma K_lin s G u s' ls cx r : LI s G -> sstep s u = Some (s', ls) -> h_pc s u <> QIdle -> norange (h_pc s u) ->
    spend (h_pc s u) = None -> srdk (h_pc s u) = None -> swcx (h_pc s u) = Some cx ->
    slres (h_pc s u) = Some r -> hstep s u ls = [] -> spend (h_pc s' u) = Some r -> norange (h_pc s' u) ->
    exists G', LI s' G' /\ erase sop sres (gI G' (h_cur s')) = erase sop sres (gI G (h_cur s)) ++ hstep s u ls.
  Proof.
    intros HL E Hni Hnr0 Hp Hr Hw Hl Hh Hp' Hnr'.
    pose proof (LI_XB s G HL) as HB.
    destruct (tok_wr _ _ cx (li_tok s G HL u) Hnr0 Hp Hr Hw) as [o [Hst [Hox Hok]]].
    destruct (lres_wtab _ _ Hl) as [tab Hwt].
    destruct (writer_place s G u tab HL Hwt) as [Htab [P1 [P2 Hplace]]].
    pose proof (li_agree s G HL tab Htab) as Hag.
    destruct (slin_store_spec eqd hash idx tophash nslots nstripes s u o cx tab r (gSE G tab) HB (li_dec s G HL u) Hox Hw Hl Hwt Hag)
      as [Hres [nw [Hle Hnx]]].
    assert (Hnp : forall kt new, h_pc s u <> QR_Publish kt new) by (intros kt new Ep; rewrite Ep in Hl; discriminate Hl).
    pose proof (cur_same s u s' ls HB E Hnp) as Hc.
    eapply (K_mark s G u s' ls o r tab); try eassumption.
    - right. split; [reflexivity | exact Hplace].
    - intros i Hi Hne k v.
      rewrite (vis_sstep eqd hash idx tophash nslots seeds grow_needed shrink_policy nstripes minlen grow_only Hslots Hnslots Hidx Hminlen
                 s u s' ls i k v HB E Hi).
      rewrite (lin_other _ tab i Hwt Hne). reflexivity.
    - rewrite Hnx. eapply X_linpoints.agree_iff; [|apply (sagree_upd eqd _ _ (sc_k cx) nw Hag)].
      intros k v.
      rewrite (vis_sstep eqd hash idx tophash nslots seeds grow_needed shrink_policy nstripes minlen grow_only Hslots Hnslots Hidx Hminlen
                 s u s' ls tab k v HB E Htab).
      rewrite Hle. reflexivity.
    - intros j Ho. destruct (ontab_inv _ _ Ho) as [[k [lc [h Hr0]]]|Hw0]; [rewrite (pend_rdk _ _ Hp') in Hr0; discriminate Hr0|].
      destruct (swtab_step s G u s' ls u j HL E Hw0) as [H|[_ [_ [cx0 H]]]].
      + rewrite Hwt in H. inversion H. reflexivity.
      + rewrite H in Hl. discriminate Hl.
  Qed.

  Lemma nooplin_tab s (p : spc) r : snooplin s p r -> exists tab, swtab p = Some tab /\ (forall kt new, p <> QR_Publish kt new).
  Proof.
    destruct p; cbn [XS_linpoints.snooplin]; try contradiction; intros _; eexists; (split; [reflexivity | intros ? ? X; discriminate X]).
  Qed.

  (* a decision of doCompute that answers without writing *)
  Lemma K_noop s G u s' ls cx r : LI s G -> sstep s u = Some (s', ls) -> h_pc s u <> QIdle -> norange (h_pc s u) ->
    spend (h_pc s u) = None -> srdk (h_pc s u) = None -> swcx (h_pc s u) = Some cx ->
    slres (h_pc s u) = None -> snooplin s (h_pc s u) r -> hstep s u ls = [] -> spend (h_pc s' u) = Some r -> norange (h_pc s' u) ->
    exists G', LI s' G' /\ erase sop sres (gI G' (h_cur s')) = erase sop sres (gI G (h_cur s)) ++ hstep s u ls.
  Proof.
    intros HL E Hni Hnr0 Hp Hr Hw Hl Hn Hh Hp' Hnr'.
    pose proof (LI_XB s G HL) as HB.
    destruct (tok_wr _ _ cx (li_tok s G HL u) Hnr0 Hp Hr Hw) as [o [Hst [Hox Hok]]].
    destruct (nooplin_tab s _ r Hn) as [tab [Hwt Hnp]].
    pose proof (cur_same s u s' ls HB E Hnp) as Hc.
    destruct (writer_place s G u tab HL Hwt) as [Htab [P1 [P2 _]]].
    pose proof (li_agree s G HL tab Htab) as Hag.
    destruct (snooplin_spec eqd hash idx tophash nslots nstripes minlen Hslots Hnslots Hidx Hminlen
                s u o cx tab r (gSE G tab) HB Hox Hw Hn Hwt Hag) as [Hres Hnx].
    eapply (K_mark s G u s' ls o r tab); try eassumption.
    - left. exact Hnx.
    - intros i Hi Hne. apply (vis_same s G u s' ls i HL E Hl Hi).
    - rewrite Hnx. eapply X_linpoints.agree_iff; [apply (vis_same s G u s' ls tab HL E Hl Htab) | exact Hag].
    - intros j Ho. destruct (ontab_inv _ _ Ho) as [[k [lc [h Hr0]]]|Hw0]; [rewrite (pend_rdk _ _ Hp') in Hr0; discriminate Hr0|].
      destruct (swtab_step s G u s' ls u j HL E Hw0) as [H|[_ [_ [cx0 H]]]].
      + rewrite Hwt in H. inversion H. reflexivity.
      + rewrite H in Hwt. discriminate Hwt.
  Qed.

  (* ---------------- the store that publishes a new table ---------------- *)

  Lemma K_publish s G u s' ls kt new cl st' : LI s G -> sstep s u = Some (s', ls) ->
    h_pc s u = QR_Publish kt new -> hstep s u ls = [] ->
    ((~ clear_kt kt /\ cl = [] /\ st' = gst G u)
     \/ (clear_kt kt /\ cl = [ILin u (@SClear K V) (@SRUnit V)] /\ gst G u = TInvoked (@SClear K V)
         /\ st' = TLinearized (@SClear K V) (@SRUnit V))) ->
    sTOK st' (QR_FinLock kt) ->
    exists G', LI s' G' /\ erase sop sres (gI G' (h_cur s')) = erase sop sres (gI G (h_cur s)) ++ hstep s u ls.
  Proof.
    intros HL E Hp Hh Hkind Htok.
    pose proof (LI_XB s G HL) as HB. destruct (li_si s G HL) as [HI _].
    assert (Hpn : new = S (h_cur s) /\ h_cur s' = S (h_cur s) /\ h_tabs s' = h_tabs s).
    { eapply (@publish_next_s K V eqd hash idx tophash nslots seeds grow_needed shrink_policy nstripes minlen grow_only); eassumption. }
    destruct Hpn as [-> [Hc Htabs]].
    set (cur := h_cur s) in *.
    assert (Ep' : h_pc s' u = QR_FinLock kt).
    { pose proof (nonidle_step s u s' ls E) as Es. rewrite Hp in Es. specialize (Es ltac:(discriminate)).
      cbn [XMachineS.sstep_pc] in Es. apply some_pair_l in Es. destruct Es as [E1 _].
      rewrite E1. apply sgoto_pc_eq. intros r0. discriminate. }
    assert (Hl : slres (h_pc s u) = None) by (rewrite Hp; reflexivity).
    pose proof (abs_step_all eqd hash idx tophash nslots seeds grow_needed shrink_policy nstripes minlen grow_only Hslots Hnslots Hidx Hminlen
                  s u s' ls HI E) as Habs. rewrite Hp in Habs.
    assert (Habs' : forall k v, sabs s' k v <-> svis (tabT (h_tabs s') (S cur)) k v) by (intros k v; unfold XS_abs.sabs; rewrite Hc; reflexivity).
    assert (Hlokcl : lok (gSE G cur) cl).
    { destruct Hkind as [[_ [-> _]]|[_ [-> _]]]; cbn; auto. }
    assert (Hnoev : forall t, t <> u -> no_ev t cl).
    { intros t Hne. destruct Hkind as [[_ [-> _]]|[_ [-> _]]]; [apply no_ev_nil|]. apply no_ev_cons. split; [cbn; congruence | apply no_ev_nil]. }
    assert (Hmove : cl = [] /\ st' = gst G u \/ exists c, cl = [c] /\ tmove u (gst G u) c st').
    { destruct Hkind as [[_ [-> ->]]|[_ [-> [Est ->]]]]; [left; auto|]. right. eexists. split; [reflexivity|]. rewrite Est. constructor. }
    destruct (gpub_ok ML cur G cl u st' (LI_GOK s G HL) Hlokcl Hnoev Hmove) as [HK [HG [Ggc [Ggcc [Ggb [GSE [GSEn [GI Gst]]]]]]]].
    set (G' := g_setst (g_pub G cur cl) u st') in *.
    exists G'. split.
    - eapply (LI_frame2 s G u s' ls G'); try eassumption.
      + rewrite Hc. exact HG.
      + rewrite Hc. exact HK.
      + intros j Hj. rewrite Hc in Hj. destruct (Nat.eq_dec j (S cur)) as [->|Hne].
        * rewrite GSEn. destruct Hkind as [[Hnc [-> _]]|[Hcl [-> _]]].
          -- change (lrun (gSE G cur) []) with (gSE G cur). destruct Habs as [[Hx _]|[_ Hsame]]; [contradiction|].
             eapply X_linpoints.agree_iff; [|apply (li_agree s G HL cur (le_n _))]. intros k v. rewrite <- Habs'. apply Hsame.
          -- change (lrun (gSE G cur) [ILin u SClear SRUnit]) with aempty. destruct Habs as [[_ Hemp]|[Hx _]]; [|contradiction].
             intros k v. split; [intros Hv; exfalso; apply (Hemp k v); apply Habs'; exact Hv | discriminate].
        * assert (Hj' : j <= cur) by lia. rewrite (GSE j Hj').
          eapply X_linpoints.agree_iff; [apply (vis_same s G u s' ls j HL E Hl Hj') | apply (li_agree s G HL j Hj')].
      + intros j Hj. rewrite Hc in Hj. destruct (Nat.eq_dec j cur) as [->|Hne].
        * rewrite Ggcc. destruct Hkind as [[Hnc [-> _]]|[_ [-> _]]]; [left | right; eexists; reflexivity].
          split; [reflexivity|]. intros w Hw.
          destruct (swtab_step s G u s' ls w cur HL E Hw) as [H|[_ [_ [cx0 H]]]].
          -- exact (publish_grow_quiet_s hash idx tophash nslots nstripes s u kt (S cur) HI Hp Hnc w H).
          -- rewrite Hp in H. discriminate H.
        * rewrite (Ggc j Hne). destruct (li_close s G HL j ltac:(lia)) as [[A B]|B]; [left | right; exact B].
          split; [exact A|]. intros w Hw. apply (B w).
          destruct (swtab_step s G u s' ls w j HL E Hw) as [H|[_ [Hcj _]]]; [exact H | fold cur in Hcj; lia].
      + rewrite Gst, Ep'. exact Htok.
      + rewrite Ep'. intros Hx. exfalso. apply Hx. reflexivity.
      + intros j Ho. rewrite Ep' in Ho. discriminate Ho.
      + intros k lc tab h o0 Hr0. rewrite Ep' in Hr0. discriminate Hr0.
    - rewrite Hc, Hh, app_nil_r, GI, (LinGen.erase_app ML).
      assert (Ecl : erase (Op ML) (Res ML) cl = []) by (destruct Hkind as [[_ [-> _]]|[_ [-> _]]]; reflexivity).
      rewrite Ecl, app_nil_r. reflexivity.
  Qed.


  (* ---------------- the steps of the Range itself ---------------- *)

  Lemma cur_same_np s u s' ls : XB s -> sstep s u = Some (s', ls) -> slres (h_pc s u) = None ->
    (forall kt new, h_pc s u <> QR_Publish kt new) -> h_cur s' = h_cur s.
  Proof. intros HB E _ Hnp. apply (cur_same s u s' ls HB E Hnp). Qed.

  (* the outcome of a step of the Range's own code (XS_linpoints2.L_rg), as a step of the history *)
  Lemma K_rgout s G u s' ls vf : LI s G -> sstep s u = Some (s', ls) -> gst G u = TIdle ->
    slres (h_pc s u) = None -> (forall kt new, h_pc s u <> QR_Publish kt new) -> sontab (h_pc s u) = None ->
    ( (h_frame s' u = None /\ rgvf (h_pc s' u) = Some vf /\ rgwf (h_pc s' u) /\ hstep s u ls = [])
      \/ (h_frame s' u = None /\ h_pc s' u = QIdle /\ hstep s u ls = [])
      \/ (exists cx r' a, h_pc s' u = sstart_cx cx /\ h_frame s' u = Some {| rf_rest := r'; rf_vf := vf; rf_after := a |}
                          /\ rgafter vf a /\ hstep s u ls = [HInv u (cxop cx)]) ) ->
    exists G', LI s' G' /\ erase sop sres (gI G' (h_cur s')) = erase sop sres (gI G (h_cur s)) ++ hstep s u ls.
  Proof.
    intros HL E Hst Hl Hnp Hon0 Hout. pose proof (LI_XB s G HL) as HB.
    pose proof (cur_same s u s' ls HB E Hnp) as Hc.
    destruct Hout as [[A [B [C Hh]]]|[[A [B Hh]]|[cx [r' [a [A [B [C Hh]]]]]]]].
    - exists G. split; [|rewrite Hh, app_nil_r, Hc; reflexivity].
      apply (K_silent s G u s' ls HL E Hl Hnp).
      + rewrite Hst. cbn [sTOK2]. right. right. rewrite B. discriminate.
      + intros _. exact Hst.
      + intros x X. exfalso. destruct (h_pc s' u); cbn in B, X; try discriminate X; discriminate B.
    - exists G. split; [|rewrite Hh, app_nil_r, Hc; reflexivity].
      apply (K_silent s G u s' ls HL E Hl Hnp).
      + rewrite Hst, B. left. reflexivity.
      + intros _. exact Hst.
      + intros x X. rewrite B in X. discriminate X.
    - destruct (start_cx_scope cx) as [_ [_ [S3 [S4 _]]]].
      destruct (K_tail s u s' ls [IInv u (cxop cx)] G G (TInvoked (cxop cx)) HL E Hl Hc (LI_GOK s G HL)) as [G' [HL' Er]].
      + apply gext_refl.
      + reflexivity.
      + reflexivity.
      + eapply tc_cons; [exact I | reflexivity | rewrite Hst; constructor | constructor].
      + rewrite A. apply cxop_tok.
      + rewrite A, S3. intros Hx. exfalso. apply Hx. reflexivity.
      + rewrite A. exact S4.
      + exists G'. split; [exact HL'|]. rewrite Er, Hh. reflexivity.
  Qed.

  (* ---------------- the invocation of a call (with its first primitive, a load of m.table) ---------------- *)

  Definition first_pc (s : mstate) (o : sop) : spc :=
    match o with
    | SLoad k => QL_Top k SLPlain (h_cur s) (hash k (m_seed (stab_at s (h_cur s)))) 0
    | SCompute k f ev lie co =>
        let cx := {| sc_k := k; sc_f := f; sc_ev := ev; sc_lie := lie; sc_co := co |} in
        if lie then QL_Top k (SLFast cx) (h_cur s) (hash k (m_seed (stab_at s (h_cur s)))) 0
        else QK_Load (h_cur s) (shome hash idx (stab_at s (h_cur s)) k) (LKCompute cx)
    | SClear => QR_CAS SHClear (SKReturn SRUnit)
    | _ => QIdle
    end.

  Lemma invoke_facts s u s' ls : h_pc s u = QIdle -> h_frame s u = None -> sstep s u = Some (s', ls) ->
    exists o rest, h_todo s u = o :: rest /\
      (sokop o -> hstep s u ls = [HInv u o] /\ h_cur s' = h_cur s /\ h_tabs s' = h_tabs s /\ h_pc s' u = first_pc s o).
  Proof.
    intros Hp Hf E.
    destruct (sstep_split eqd hash idx tophash nslots seeds grow_needed shrink_policy nstripes minlen grow_only s u s' ls E)
      as [[Hn _]|[_ [o [rest [ls0 [Et [El Es]]]]]]]; [contradiction|].
    exists o, rest. split; [exact Et|]. intros Ho.
    assert (Hctx : ctxof s u = None) by (unfold XS_linpoints2.ctxof; rewrite Hf, Hp; reflexivity).
    unfold XS_linpoints2.hstep. rewrite Hctx.
    destruct o; try contradiction; cbn [sstart_pc] in Es; unfold sstart_cx in Es; cbn [sc_lie] in Es; try (destruct lie);
      cbn [XMachineS.sstep_pc] in Es; cbv zeta in Es;
      apply some_pair_l in Es; destruct Es as [E1 E2]; subst s' ls0 ls;
      rewrite sgoto_pc_eq by (intros r0; discriminate); rewrite hcur_goto, XS_cells.htabs_goto;
      cbn [XMachineS.sgoto snd XS_linpoints2.hst first_pc]; (split; [reflexivity|]); (split; [reflexivity|]); (split; reflexivity).
  Qed.

  Lemma tok_idle st : sTOK st (@QIdle K V) -> st = TIdle.
  Proof.
    destruct st as [|o|o r]; cbn [sTOK2]; [reflexivity | |].
    - intros [_ H]. destruct o; try contradiction.
      + destruct H as [tab [h H]]. discriminate H.
      + destruct H as [[_ [[tab [h H]]|H]]|[_ H]]; discriminate H.
      + discriminate H.
    - intros [_ H]. discriminate H.
  Qed.

  Lemma sokop2_cases (o : sop) : sokop2 o -> sokop o \/ exists vf, o = SRange vf.
  Proof. destruct o; cbn; try tauto. intros _. right. eexists; reflexivity. Qed.

  Lemma K_invoke s G u s' ls : LI s G -> sstep s u = Some (s', ls) -> h_pc s u = QIdle ->
    exists G', LI s' G' /\ erase sop sres (gI G' (h_cur s')) = erase sop sres (gI G (h_cur s)) ++ hstep s u ls.
  Proof.
    intros HL E Hp.
    assert (Hf : h_frame s u = None) by (apply (xf_idle s (li_xf s G HL) u); rewrite Hp; cbn; tauto).
    pose proof (li_tok s G HL u) as Htok. rewrite Hp in Htok. apply tok_idle in Htok.
    destruct (sstep_split eqd hash idx tophash nslots seeds grow_needed shrink_policy nstripes minlen grow_only s u s' ls E)
      as [[Hn _]|[_ [o0 [rest0 [ls0 [Et0 [El0 Es0]]]]]]]; [contradiction|].
    pose proof (li_todo s G HL u) as Htd. rewrite Et0 in Htd. inversion Htd as [|? ? Ho2 Hrest]; subst.
    destruct (sokop2_cases o0 Ho2) as [Ho|[vf ->]].
    - (* a call of the specification *)
      destruct (invoke_facts s u s' _ Hp Hf E) as [o [rest [Et Hfacts]]]. rewrite Et0 in Et. inversion Et; subst o rest. clear Et.
      destruct (Hfacts Ho) as [Hh [Hc [Htabs Hp']]].
      eexists. rewrite Hh.
      apply (K_end s G u s' _ (IInv u o0) (TInvoked o0) HL E); [rewrite Hp; reflexivity | exact Hc | reflexivity | exact I | rewrite Htok; constructor | | | |].
      + rewrite Hp'. destruct o0; try contradiction; cbn [sTOK2 first_pc].
        * split; [reflexivity|]. eexists; eexists; reflexivity.
        * destruct lie; (split; [reflexivity|]).
          -- left. split; [reflexivity|]. left. eexists; eexists; reflexivity.
          -- right. split; reflexivity.
        * split; reflexivity.
      + rewrite Hp'. intros Hx. exfalso. apply Hx. destruct o0; try contradiction; cbn [first_pc rgvf]; try reflexivity. destruct lie; reflexivity.
      + intros j Hj. rewrite Hp' in Hj. destruct o0; try contradiction; cbn in Hj; try (destruct lie; cbn in Hj); try discriminate Hj; inversion Hj; reflexivity.
      + intros k lc tab h o1 Hr Est. inversion Est; subst o1. clear Est.
        assert (Htab : forall j, stab_at s' j = stab_at s j) by (intros j; unfold XMachineS.stab_at; rewrite Htabs; reflexivity).
        assert (Hgen : forall k0 lc0, h_pc s' u = QL_Top k0 lc0 (h_cur s) (hash k0 (m_seed (stab_at s (h_cur s)))) 0 ->
                  srdk (h_pc s' u) = Some (k, lc, tab, h) ->
                  inlookup u k lc tab s'
                  /\ (forall v, JJ u k tab v (can_ret (g_setst (g_ins G (h_cur s) (gb G (h_cur s)) (IInv u o0) []) u (TInvoked o0)) (h_cur s') u o0 (shitres lc v)) s')
                  /\ (lc = SLPlain -> can_ret (g_setst (g_ins G (h_cur s) (gb G (h_cur s)) (IInv u o0) []) u (TInvoked o0)) (h_cur s') u o0 (SRVal None false) \/ JM u k tab s')).
        { intros k0 lc0 Epc Hr0. rewrite Epc in Hr0. cbn [srdk] in Hr0. inversion Hr0; subst. clear Hr0.
          split; [|split].
          - unfold XS_loadhit.inlookup. rewrite Epc, Htab. auto.
          - intros v. unfold XS_loadhit.JJ. rewrite Epc. exact I.
          - intros _. right. intros q _. rewrite Epc. cbn. lia. }
        rewrite Hp' in Hgen. destruct o0; try contradiction; cbn [first_pc] in Hgen, Hp'.
        * apply (Hgen _ _ eq_refl). rewrite <- Hp'. exact Hr.
        * destruct lie.
          -- apply (Hgen _ _ eq_refl). rewrite <- Hp'. exact Hr.
          -- rewrite Hp' in Hr. discriminate Hr.
        * rewrite Hp' in Hr. discriminate Hr.
    - (* a Range: it is not an event of the history *)
      assert (Hf1 : h_frame (sinvoke s u (SRange vf) rest0) u = None) by exact Hf.
      destruct (L_rg eqd hash idx tophash nslots seeds grow_needed shrink_policy nstripes minlen grow_only
                  (sinvoke s u (SRange vf) rest0) u _ s' ls0 vf Es0 Hf1 eq_refl I) as [_ Hout].
      assert (Hctx : ctxof s u = None) by (unfold XS_linpoints2.ctxof; rewrite Hf, Hp; reflexivity).
      assert (Eh : hstep s u (SInv u (SRange vf) :: ls0) = XS_linpoints2.hst (Some vf) None ls0).
      { unfold XS_linpoints2.hstep. rewrite Hctx. reflexivity. }
      apply (K_rgout s G u s' _ vf HL E Htok); [rewrite Hp; reflexivity | rewrite Hp; intros; discriminate | rewrite Hp; reflexivity |].
      rewrite Eh. exact Hout.
  Qed.

  (* a visitor's load-or-compute starts: the load of the table pointer *)
  Lemma K_rdstart s G u s' ls k cx o : LI s G -> sstep s u = Some (s', ls) ->
    h_pc s u = QL_Table k (SLFast cx) -> gst G u = TInvoked o -> srd_op o k (SLFast cx) ->
    exists G', LI s' G' /\ erase sop sres (gI G' (h_cur s')) = erase sop sres (gI G (h_cur s)) ++ hstep s u ls.
  Proof.
    intros HL E Hp Hst Hop. pose proof (LI_XB s G HL) as HB.
    pose proof (nonidle_step s u s' ls E) as Es. rewrite Hp in Es. specialize (Es ltac:(discriminate)).
    cbn [XMachineS.sstep_pc] in Es. cbv zeta in Es. apply some_pair_l in Es. destruct Es as [E1 E2].
    assert (Ep' : h_pc s' u = QL_Top k (SLFast cx) (h_cur s) (hash k (m_seed (stab_at s (h_cur s)))) 0).
    { rewrite E1. apply sgoto_pc_eq. intros r0. discriminate. }
    assert (Htabs : h_tabs s' = h_tabs s) by (rewrite E1; apply XS_cells.htabs_goto).
    assert (Hh : hstep s u ls = []) by (apply hstep_plain; rewrite E2; cbn [XMachineS.sgoto snd]; apply plainl_step).
    assert (Hl : slres (h_pc s u) = None) by (rewrite Hp; reflexivity).
    assert (Hnp : forall kt new, h_pc s u <> QR_Publish kt new) by (rewrite Hp; intros; discriminate).
    pose proof (cur_same s u s' ls HB E Hnp) as Hc.
    exists G. split; [|rewrite Hh, app_nil_r, Hc; reflexivity].
    eapply (LI_frame2 s G u s' ls G); try eassumption.
    - rewrite Hc. apply gext_refl.
    - rewrite Hc. apply LI_GOK. exact HL.
    - apply (agree_same s G u s' ls G HL E Hl Hc). reflexivity.
    - apply (close_same s G u s' ls G HL E Hc). reflexivity.
    - rewrite Hst, Ep'. destruct o; cbn [XS_linpoints.srd_op] in Hop; destruct Hop as [Ho [Hk Hlie]]; cbn [sopcx] in Ho; try discriminate Ho.
      inversion Ho; subst cx. cbn [sc_k sc_lie] in Hk, Hlie. subst. cbn [sTOK2 spend]. split; [reflexivity|]. left. split; [reflexivity|]. left. eexists; eexists; reflexivity.
    - rewrite Ep'. intros Hx. exfalso. apply Hx. reflexivity.
    - intros j Ho. rewrite Ep' in Ho. inversion Ho; subst j. rewrite Hc.
      split; [destruct (li_empty s G HL) as [A _]; rewrite A; apply no_ev_nil | intros j' Hj'; lia].
    - intros k0 lc tab h o0 Hr Hst0. rewrite Ep' in Hr. cbn [srdk] in Hr. injection Hr as Ek Elc Etab Eh. subst k0 lc tab h.
      assert (Htab : forall j, stab_at s' j = stab_at s j) by (intros j; unfold XMachineS.stab_at; rewrite Htabs; reflexivity).
      split; [|split].
      + unfold XS_loadhit.inlookup. rewrite Ep', Htab. auto.
      + intros v. unfold XS_loadhit.JJ. rewrite Ep'. exact I.
      + intros X. discriminate X.
  Qed.

  (* ---------------- every step keeps the invariant and extends the history by its own events ---------------- *)

  Lemma publish_dec (p : spc) : {x | p = QR_Publish (fst x) (snd x)} + {forall kt new, p <> QR_Publish kt new}.
  Proof. destruct p; try (right; intros; discriminate). left. exists (kt, new). reflexivity. Qed.

  Lemma rdk_pend (p : spc) x : srdk p = Some x -> spend p = None.
  Proof. destruct p; cbn; intros E; try reflexivity; discriminate E. Qed.
  Lemma clr_pend (p : spc) : sclr p = true -> spend p = None.
  Proof.
    destruct p; cbn [sclr spend]; try discriminate; try reflexivity; intros H;
      repeat match type of H with context [match ?x with _ => _ end] => destruct x end; try discriminate H; reflexivity.
  Qed.
  Lemma kres_nc_kres (kt : scont) r : skres_nc kt = Some r -> skres kt = Some r /\ ~ clear_kt kt.
  Proof.
    destruct kt as [cx|r0]; cbn; [discriminate|]. destruct r0; intros E; inversion E; subst; (split; [reflexivity|]); unfold clear_kt; discriminate.
  Qed.
  Lemma publish_hist s u kt new s' ls : sstep_pc s u (QR_Publish kt new) = Some (s', ls) -> plainl ls /\ h_pc s' u = QR_FinLock kt.
  Proof.
    cbn [XMachineS.sstep_pc]. intros E. apply some_pair_l in E. destruct E as [E1 E2]. subst.
    split; [cbn [XMachineS.sgoto snd]; apply plainl_step | apply sgoto_pc_eq; intros r0; discriminate].
  Qed.

  Lemma rgvf_facts (p : spc) vf : rgvf p = Some vf -> slres p = None /\ sontab p = None /\ (forall kt new, p <> QR_Publish kt new).
  Proof.
    destruct p; cbn [rgvf]; intros E; try discriminate E; (split; [reflexivity|]); (split; [|intros ? ? X; discriminate X]);
      try reflexivity; try (destruct lk; try discriminate E; reflexivity); destruct rg as [[? ?]|]; try discriminate E; reflexivity.
  Qed.

  Theorem LI_sstep s G u s' ls : LI s G -> sstep s u = Some (s', ls) ->
    exists G', LI s' G' /\ erase sop sres (gI G' (h_cur s')) = erase sop sres (gI G (h_cur s)) ++ hstep s u ls.
  Proof.
    intros HL E.
    destruct (idle_or (h_pc s u)) as [Hid|Hni]; [apply (K_invoke s G u s' ls HL E Hid)|].
    pose proof (LI_XB s G HL) as HB. pose proof (li_nr s G HL u) as HNu.
    pose proof (nonidle_step s u s' ls E Hni) as Es.
    pose proof (li_tok s G HL u) as Htok.
    assert (Hcase : norange (h_pc s u) \/ (h_frame s u = None /\ exists vf, rgvf (h_pc s u) = Some vf /\ rgwf (h_pc s u))).
    { destruct (h_frame s u) as [f|]; [left; tauto|]. destruct HNu as [H|[H1 H2]]; [left; exact H|]. right. split; [reflexivity|].
      destruct (rgvf (h_pc s u)) as [vf|]; [exists vf; auto | exfalso; apply H1; reflexivity]. }
    destruct Hcase as [Hnr|[Hf [vf [Hv Hw]]]].
    2:{ (* the Range's own code *)
        destruct (rgvf_facts _ vf Hv) as [Hl [Hon Hnp]].
        assert (Hst : gst G u = TIdle) by (apply (li_rgidle s G HL u); rewrite Hv; discriminate).
        destruct (L_rg eqd hash idx tophash nslots seeds grow_needed shrink_policy nstripes minlen grow_only s u _ s' ls vf Es Hf Hv Hw) as [_ Hout].
        assert (Eh : hstep s u ls = XS_linpoints2.hst (Some vf) None ls).
        { unfold XS_linpoints2.hstep, XS_linpoints2.ctxof. rewrite Hf, Hv. reflexivity. }
        apply (K_rgout s G u s' ls vf HL E Hst Hl Hnp Hon). rewrite Eh. exact Hout. }
    (* a thread inside a call *)
    assert (Hsil : forall (Hl : slres (h_pc s u) = None) (Hnp : forall kt new, h_pc s u <> QR_Publish kt new) (Hq : stepq s s' ls)
                          (Ht : sTOK (gst G u) (h_pc s' u)) (Hr : forall x, srdk (h_pc s' u) = Some x -> srdk (h_pc s u) = Some x),
               exists G', LI s' G' /\ erase sop sres (gI G' (h_cur s')) = erase sop sres (gI G (h_cur s)) ++ hstep s u ls).
    { intros Hl Hnp Hq Ht Hr. exists G. split.
      - apply (K_silent s G u s' ls HL E Hl Hnp Ht); [|exact Hr].
        intros Hx. exfalso. apply Hx. apply norange_rgvf'. apply (nr_step s u s' ls Es Hnr Hq).
      - rewrite (hstep_plain s u ls (proj1 Hq)), app_nil_r. rewrite (cur_same s u s' ls HB E Hnp). reflexivity. }
    destruct (gst G u) as [|o|o r] eqn:Hst; cbn [sTOK2] in Htok.
    - (* the goroutine starts *)
      destruct Htok as [Hc|[Hps|Hc]]; [contradiction | | exfalso; apply Hc; apply norange_rgvf'; exact Hnr].
      rewrite Hps in Es. cbn [XMachineS.sstep_pc] in Es. apply some_pair_l in Es. destruct Es as [E1 E2].
      assert (Ep' : h_pc s' u = QIdle) by (rewrite E1; cbn [fst]; apply sset_pc_same).
      apply Hsil; [rewrite Hps; reflexivity | rewrite Hps; intros; discriminate | | rewrite Ep'; left; reflexivity | rewrite Ep'; intros x X; discriminate X].
      rewrite E1, E2. split; [apply plainl_step | split; reflexivity].
    - (* a call that has not taken effect yet *)
      destruct Htok as [Hpend Hkind].
      destruct o as [k|k f ev lie co| | |]; try contradiction.
      + (* Load *)
        destruct Hkind as [tab [h Hr]].
        destruct (L_rd_g eqd hash idx tophash nslots seeds grow_needed shrink_policy nstripes minlen grow_only s u _ s' ls k SLPlain tab h Es Hr)
          as [_ [Hc [[Hq Hr']|[[v Hret]|[[_ Hret]|[cx [Hx _]]]]]]].
        * apply Hsil; [eapply srdk_slres; exact Hr | intros kt new X; rewrite X in Hr; discriminate Hr | exact Hq | | intros x X; rewrite Hr' in X; rewrite Hr; exact X].
          cbn [sTOK2]. split; [eapply rdk_pend; exact Hr' | eexists; eexists; exact Hr'].
        * eapply K_rdhit; eassumption.
        * eapply K_rdmiss; eassumption.
        * discriminate Hx.
      + (* Compute *)
        set (cx := {| sc_k := k; sc_f := f; sc_ev := ev; sc_lie := lie; sc_co := co |}) in *.
        destruct Hkind as [[Hlie [[tab [h Hr]]|Hpt]]|[Hr Hw]].
        * (* the read-only path of load-or-compute *)
          destruct (L_rd_g eqd hash idx tophash nslots seeds grow_needed shrink_policy nstripes minlen grow_only s u _ s' ls k _ tab h Es Hr)
            as [_ [Hc [[Hq Hr']|[[v Hret]|[[Hx _]|[cx0 [Hx [Hq Hp']]]]]]]].
          -- apply Hsil; [eapply srdk_slres; exact Hr | intros kt new X; rewrite X in Hr; discriminate Hr | exact Hq | | intros x X; rewrite Hr' in X; rewrite Hr; exact X].
             cbn [sTOK2]. split; [eapply rdk_pend; exact Hr' | left; split; [exact Hlie | left; eexists; eexists; exact Hr']].
          -- eapply K_rdhit; eassumption.
          -- discriminate Hx.
          -- inversion Hx; subst cx0.
             apply Hsil; [eapply srdk_slres; exact Hr | intros kt new X; rewrite X in Hr; discriminate Hr | exact Hq | | intros x X; rewrite Hp' in X; discriminate X].
             cbn [sTOK2]. rewrite Hp'. split; [reflexivity|]. right. split; reflexivity.
        * (* a visitor's load-or-compute loads the table pointer *)
          apply (K_rdstart s G u s' ls k cx _ HL E Hpt Hst). cbn [XS_linpoints.srd_op sopcx]. fold cx. subst lie. auto.
        * (* the locked path *)
          destruct (publish_dec (h_pc s u)) as [[[kt new] Hpub]|Hnp].
          -- cbn [fst snd] in Hpub. rewrite Hpub in Es, Hw. destruct (publish_hist s u kt new s' ls Es) as [Hpl Hp'].
             cbn [swcx] in Hw. destruct kt as [cx0|r0]; cbn [skcx] in Hw; [|discriminate Hw]. inversion Hw; subst cx0.
             eapply (K_publish s G u s' ls (SKRetry cx) new [] (gst G u) HL E Hpub (hstep_plain s u ls Hpl)).
             ++ left. split; [unfold clear_kt; discriminate | split; reflexivity].
             ++ rewrite Hst. cbn [sTOK2]. split; [reflexivity|]. right. split; reflexivity.
          -- destruct (L_wr_g eqd hash idx tophash nslots seeds grow_needed shrink_policy nstripes minlen grow_only s u _ s' ls cx Es Hnr Hpend Hr Hw)
               as [Hq [[Hl [Hp' [Hr' Hw']]]|[[r [Hl Hp']]|[r [Hl [Hn Hp']]]]]].
             ++ apply Hsil; [exact Hl | exact Hnp | exact Hq | | intros x X; rewrite Hr' in X; discriminate X].
                cbn [sTOK2]. split; [exact Hp'|]. right. split; [exact Hr' | exact Hw'].
             ++ eapply (K_lin s G u s' ls cx r HL E Hni Hnr Hpend Hr Hw Hl (hstep_plain s u ls (proj1 Hq)) Hp' (nr_step s u s' ls Es Hnr Hq)).
             ++ eapply (K_noop s G u s' ls cx r HL E Hni Hnr Hpend Hr Hw Hl Hn (hstep_plain s u ls (proj1 Hq)) Hp' (nr_step s u s' ls Es Hnr Hq)).
      + (* Clear *)
        destruct (L_clr_g eqd hash idx tophash nslots seeds grow_needed shrink_policy nstripes minlen grow_only s u _ s' ls Es Hkind)
          as [Hq [[Hc' Hnp]|[new [Hpub Hp']]]].
        * apply Hsil; [apply sclr_slres; exact Hkind | exact Hnp | exact Hq | | intros x X; rewrite (clr_rdk _ Hc') in X; discriminate X].
          cbn [sTOK2]. split; [apply clr_pend; exact Hc' | exact Hc'].
        * eapply (K_publish s G u s' ls (SKReturn SRUnit) new [ILin u SClear SRUnit] (TLinearized SClear SRUnit) HL E Hpub (hstep_plain s u ls (proj1 Hq))).
          -- right. split; [reflexivity|]. split; [reflexivity|]. split; [exact Hst | reflexivity].
          -- cbn [sTOK2]. split; [exact I | reflexivity].
    - (* a call that has taken effect *)
      destruct Htok as [Hok Hpend].
      destruct (publish_dec (h_pc s u)) as [[[kt new] Hpub]|Hnp].
      + cbn [fst snd] in Hpub. rewrite Hpub in Es, Hpend. destruct (publish_hist s u kt new s' ls Es) as [Hpl Hp'].
        cbn [spend] in Hpend. destruct (kres_nc_kres kt r Hpend) as [Hk Hnc].
        eapply (K_publish s G u s' ls kt new [] (gst G u) HL E Hpub (hstep_plain s u ls Hpl)).
        * left. split; [exact Hnc | split; reflexivity].
        * rewrite Hst. cbn [sTOK2]. split; [exact Hok | exact Hk].
      + destruct (L_pend_g eqd hash idx tophash nslots seeds grow_needed shrink_policy nstripes minlen grow_only s u _ s' ls r Es Hnr Hpend)
          as [[Hq Hp']|Hret].
        * apply Hsil; [eapply spend_slres; exact Hpend | exact Hnp | exact Hq | | intros x X; rewrite (pend_rdk _ _ Hp') in X; discriminate X].
          cbn [sTOK2]. split; [exact Hok | exact Hp'].
        * eapply K_response; eassumption.
  Qed.

  (* ---------------- runs ---------------- *)

  (* the history of a run: the steps' events, each read with the Range context of the state it starts from *)
  Fixpoint srunh (s : mstate) (sched : list nat) : list (Lin.hev sop sres) :=
    match sched with
    | [] => []
    | t :: r => match sstep s t with
                | Some (s', ls) => hstep s t ls ++ srunh s' r
                | None => srunh s r
                end
    end.

  Theorem LI_srun sched : forall s G, LI s G ->
    exists G', LI (fst (srun s sched)) G'
      /\ erase sop sres (gI G' (h_cur (fst (srun s sched)))) = erase sop sres (gI G (h_cur s)) ++ srunh s sched.
  Proof.
    induction sched as [|u r IH]; intros s G HL; cbn [XMachineS.srun srunh].
    - exists G. split; [exact HL|]. rewrite app_nil_r. reflexivity.
    - destruct (sstep s u) as [[s1 ls1]|] eqn:E.
      + destruct (LI_sstep s G u s1 ls1 HL E) as [G1 [HL1 E1]].
        destruct (IH s1 G1 HL1) as [G2 [HL2 E2]].
        destruct (XMachineS.srun _ _ _ _ _ _ _ _ _ _ _ s1 r) as [s2 ls2]. cbn [fst snd] in *.
        exists G2. split; [exact HL2|]. rewrite E2, E1, app_assoc. reflexivity.
      + apply IH. exact HL.
  Qed.

  Definition G0 : ghost := LinGen.Build_ghost ML (fun _ => []) (fun _ => []) (fun _ => TIdle).

  Lemma svis_new len seed k v : ~ svis (new_mtable nslots nstripes len seed) k v.
  Proof.
    unfold XS_vis.svis, XS_vis.cvis, XS_vis.pvis. intros [pos [_ [Hk _]]]. revert Hk.
    unfold schain_of, new_mtable. cbn [m_chains].
    set (b := shome hash idx _ k). clearbody b.
    set (l := repeat (repeat (@empty_mslot K V) nslots) len).
    assert (Hsl : nth pos (nth b l []) empty_mslot = @empty_mslot K V); [|rewrite Hsl; discriminate].
    destruct (nth_in_or_default b l []) as [Hin|Hd].
    - apply repeat_spec in Hin. rewrite Hin.
      destruct (nth_in_or_default pos (repeat (@empty_mslot K V) nslots) empty_mslot) as [Hin2|Hd2]; [apply repeat_spec in Hin2; exact Hin2 | exact Hd2].
    - rewrite Hd. destruct pos; reflexivity.
  Qed.

  Lemma LI_init len0 todo : 0 < len0 -> (forall t, Forall sokop2 (todo t)) -> LI (sinit nslots seeds nstripes len0 todo) G0.
  Proof.
    intros Hl Htodo. constructor.
    - apply (SJ_init eqd hash idx tophash nslots seeds grow_needed shrink_policy nstripes minlen grow_only Hslots Hnslots Hminlen len0 todo Hl).
    - apply (reachable_XF eqd hash idx tophash nslots seeds grow_needed shrink_policy nstripes minlen grow_only len0 todo []).
    - intros t. cbn. left. exact I.
    - intros t Hx. exfalso. apply Hx. reflexivity.
    - intros t. exact I.
    - exact Htodo.
    - split; [reflexivity | intros j _; split; reflexivity].
    - exact I.
    - intros j Hj. cbn in Hj. assert (j = 0) by lia. subst j. intros k v. split.
      + intros Hv. exfalso. exact (svis_new _ _ k v Hv).
      + discriminate.
    - intros j Hj. cbn in Hj. lia.
    - intros t. cbn. constructor.
    - intros t. right. left. reflexivity.
    - intros t j Ho. discriminate Ho.
    - intros t k lc tab h o Hr. discriminate Hr.
  Qed.

  (* every run whose calls are Load / Compute / Clear / Range is linearizable, the visitors' calls being calls of their own *)
  Theorem smachine_linearizable2 len0 todo sched : 0 < len0 -> (forall t, Forall sokop2 (todo t)) ->
    linearizable sop sres amap sspec aempty (srunh (sinit nslots seeds nstripes len0 todo) sched).
  Proof.
    intros Hl Htodo.
    destruct (LI_srun sched _ G0 (LI_init len0 todo Hl Htodo)) as [G' [HL E]].
    set (s' := fst (srun (sinit nslots seeds nstripes len0 todo) sched)) in *.
    exists (gI G' (h_cur s')). split; [|split].
    - rewrite E. reflexivity.
    - apply (tproto_wf ML). intros t. exists (gst G' t). apply (li_tp s' G' HL t).
    - apply (lok_legal ML). apply (li_lok s' G' HL).
  Qed.

End SLinInv2.

(* ---------------- consistency with XS_linearizable.v: without Range, [srunh] is the list of SInv / SRes labels ---------------- *)
From CacheV.proofs Require XS_linearizable.
Section Consistency.
  Context {K V : Type}.
  Variable eqd : forall a b : K, {a = b} + {a <> b}.
  Variable hash : K -> N -> N.
  Variable idx : N -> nat -> nat.
  Variable tophash : N -> N.
  Variable nslots : nat.
  Variable seeds : nat -> N.
  Variable grow_needed shrink_policy : nat -> Z -> bool.
  Variable nstripes : nat -> nat.
  Variable minlen : nat.
  Variable grow_only : bool.

  Hypothesis Hslots : nslots <= 3.
  Hypothesis Hnslots : 0 < nslots.
  Hypothesis Htop : forall k sd, (tophash (hash k sd) < 1048576)%N.
  Hypothesis Hidx : forall h len, 0 < len -> idx h len < len.
  Hypothesis Hminlen : 0 < minlen.

  Notation mstate := (@mstate K V).
  Notation sop := (@sop K V).
  Notation slabel := (@slabel K V).
  Notation sstep_pc := (@sstep_pc K V eqd hash idx tophash nslots seeds grow_needed shrink_policy nstripes minlen grow_only).
  Notation sstep := (@sstep K V eqd hash idx tophash nslots seeds grow_needed shrink_policy nstripes minlen grow_only).
  Notation srun := (@srun K V eqd hash idx tophash nslots seeds grow_needed shrink_policy nstripes minlen grow_only).
  Notation srunh := (@srunh K V eqd hash idx tophash nslots seeds grow_needed shrink_policy nstripes minlen grow_only).
  Notation LI1 := (@XS_linearizable.LI K V eqd hash idx tophash nslots nstripes).
  Notation sinvoke := (@sinvoke K V).

  Lemma hst_ret_noframe u (l0 : list slabel) r : plainl l0 -> hst None None (l0 ++ [SRes u r]) = [HRes u r] /\ shist (l0 ++ [SRes u r]) = [HRes u r].
  Proof. intros H. rewrite (hst_plain None None l0 _ H), shist_app, (shist_plain l0 H). split; reflexivity. Qed.

  Lemma hstep_pc_shist (s1 : mstate) u p s' ls : sstep_pc s1 u p = Some (s', ls) -> norange p -> h_frame s1 u = None ->
    hst None None ls = shist ls.
  Proof.
    intros Es Hnr Hf.
    destruct (step_scope_g eqd hash idx tophash nslots seeds grow_needed shrink_policy nstripes minlen grow_only s1 u p s' ls Es Hnr)
      as [[r [S0 [l0 [_ [El [Hpl [Ef _]]]]]]]|[[Hpl _] _]].
    - rewrite El. cbn [XMachineS.sgoto]. rewrite Ef, Hf. cbn [snd]. destruct (hst_ret_noframe u l0 r Hpl) as [A B]. rewrite A, B. reflexivity.
    - rewrite (shist_plain ls Hpl). rewrite <- (app_nil_r ls). rewrite (hst_plain None None ls [] Hpl). reflexivity.
  Qed.

  Lemma hstep_shist s G u s' ls : LI1 s G -> sstep s u = Some (s', ls) -> hstep s u ls = shist ls.
  Proof.
    intros HL E. destruct (XS_linearizable.li_nr _ _ _ _ _ _ s G HL) as [Hfr Hnor].
    assert (Hctx : ctxof s u = None).
    { unfold XS_linpoints2.ctxof. rewrite (Hfr u). destruct (h_pc s u) eqn:Ep; try reflexivity; pose proof (Hnor u) as Hn; rewrite Ep in Hn; cbn in Hn;
        try contradiction; try (destruct lk; try contradiction; reflexivity); destruct Hn as [-> _]; reflexivity. }
    unfold XS_linpoints2.hstep. rewrite Hctx.
    destruct (sstep_split eqd hash idx tophash nslots seeds grow_needed shrink_policy nstripes minlen grow_only s u s' ls E)
      as [[Hn Es]|[Hp [o [rest [ls0 [Et [El Es]]]]]]].
    - apply (hstep_pc_shist s u _ s' ls Es (Hnor u) (Hfr u)).
    - pose proof (XS_linearizable.li_todo _ _ _ _ _ _ s G HL u) as Htd. rewrite Et in Htd. inversion Htd as [|? ? Ho _]; subst.
      assert (N1 : norange (sstart_pc o)).
      { destruct o; try contradiction; cbn; try exact I. unfold sstart_cx. destruct lie; exact I. }
      assert (Hf1 : h_frame (sinvoke s u o rest) u = None) by (apply Hfr).
      pose proof (hstep_pc_shist (sinvoke s u o rest) u _ s' ls0 Es N1 Hf1) as H.
      destruct o; try contradiction; cbn [XS_linpoints2.hst XS_linpoints.shist]; rewrite H; reflexivity.
  Qed.

  Theorem srunh_shist sched : forall s G, LI1 s G -> srunh s sched = shist (snd (srun s sched)).
  Proof.
    induction sched as [|u r IH]; intros s G HL; cbn [XS_linearizable2.srunh XMachineS.srun]; [reflexivity|].
    destruct (sstep s u) as [[s1 ls1]|] eqn:E; [|apply (IH s G HL)].
    destruct (XS_linearizable.LI_sstep eqd hash idx tophash nslots seeds grow_needed shrink_policy nstripes minlen grow_only
                Hslots Hnslots Htop Hidx Hminlen s G u s1 ls1 HL E) as [G1 [HL1 _]].
    rewrite (hstep_shist s G u s1 ls1 HL E), (IH s1 G1 HL1).
    destruct (XMachineS.srun _ _ _ _ _ _ _ _ _ _ _ s1 r) as [s2 ls2]. cbn [snd]. rewrite shist_app. reflexivity.
  Qed.

  (* when no Range (and no Size) is ever called, the history of XS_linearizable2 is the history of XS_linearizable *)
  Theorem srunh_no_range len0 todo sched : 0 < len0 -> (forall t, Forall sokop (todo t)) ->
    srunh (sinit nslots seeds nstripes len0 todo) sched = shist (snd (srun (sinit nslots seeds nstripes len0 todo) sched)).
  Proof.
    intros Hl Htodo. apply (srunh_shist sched _ (XS_linearizable.G0 eqd)).
    eapply (@XS_linearizable.LI_init K V eqd hash idx tophash nslots seeds grow_needed shrink_policy nstripes minlen grow_only); eassumption.
  Qed.
End Consistency.

(* ---------------- the statements under rhyps ---------------- *)
Section Final2.
  Context {K V : Type}.
  Variable eqd : forall a b : K, {a = b} + {a <> b}.
  Variable hash : K -> N -> N.
  Variable idx : N -> nat -> nat.
  Variable tophash : N -> N.
  Variable nslots : nat.
  Variable seeds : nat -> N.
  Variable grow_needed shrink_policy : nat -> Z -> bool.
  Variable nstripes : nat -> nat.
  Variable minlen : nat.
  Variable grow_only : bool.

  Notation srun := (@srun K V eqd hash idx tophash nslots seeds grow_needed shrink_policy nstripes minlen grow_only).
  Notation srunh := (@srunh K V eqd hash idx tophash nslots seeds grow_needed shrink_policy nstripes minlen grow_only).
  Notation rhyps := (@XS_resize.rhyps K hash idx tophash nslots minlen).

  (* every run of XMachineS whose calls are Load / Compute / Clear / Range is linearizable with respect to an ordinary map,
     the calls made by the Range visitors being calls of their own and the Ranges themselves left out of the history *)
  Theorem smachine_linearizable2_proof :
    rhyps -> forall len0 todo sched, 0 < len0 -> (forall t, Forall sokop2 (todo t)) ->
    linearizable (@sop K V) (@sres V) (X_linpoints.amap K V) (sspec eqd) X_linpoints.aempty
      (srunh (sinit nslots seeds nstripes len0 todo) sched).
  Proof.
    intros [[H1 H2] [H3 [H4 H5]]] len0 todo sched Hl Htodo.
    exact (smachine_linearizable2 eqd hash idx tophash nslots seeds grow_needed shrink_policy nstripes minlen grow_only
             H1 H2 H3 H4 H5 len0 todo sched Hl Htodo).
  Qed.

  (* the history used here is the one of XS_linearizable.v when no Range is called *)
  Theorem s_srunh_no_range_proof :
    rhyps -> forall len0 todo sched, 0 < len0 -> (forall t, Forall sokop (todo t)) ->
    srunh (sinit nslots seeds nstripes len0 todo) sched = shist (snd (srun (sinit nslots seeds nstripes len0 todo) sched)).
  Proof.
    intros [[H1 H2] [H3 [H4 H5]]] len0 todo sched Hl Htodo.
    exact (srunh_no_range eqd hash idx tophash nslots seeds grow_needed shrink_policy nstripes minlen grow_only
             H1 H2 H3 H4 H5 len0 todo sched Hl Htodo).
  Qed.
End Final2.

Print Assumptions smachine_linearizable2_proof.
Print Assumptions s_srunh_no_range_proof.

(* ---------------- the executable instance (XExecS) and a run with a Range whose visitor deletes ---------------- *)
From CacheV Require Import TabExec Exec XExec XExecS.
From CacheV.gen Require Import Params.
From CacheV.proofs Require Import XS_cinst XS_rinst.

Theorem smachine_linearizable2_instance :
  forall (o : oracle) (sds : list N) (hint : Z) (todo : nat -> list sop_z) sched, oracle64 o ->
    (forall t, Forall sokop2 (todo t)) ->
    linearizable sop_z (@sres sval) (X_linpoints.amap Z sval) (sspec zeqd) X_linpoints.aempty
      (@srunh Z sval zeqd (hash_of o) idx_map tag_map (nslots_of false) (seeds_of sds)
              grow_needed_s shrink_policy_s nstripes_x (minlen_of_hint false hint) false
              (s_machine_init sds hint todo) sched).
Proof.
  intros o sds hint todo sched Ho Htodo.
  apply (smachine_linearizable2_proof zeqd (hash_of o) idx_map tag_map (nslots_of false) (seeds_of sds)
           grow_needed_s shrink_policy_s nstripes_x (minlen_of_hint false hint) false (s_instance_rhyps o hint Ho)
           (minlen_of_hint false hint) todo sched); [|exact Htodo].
  destruct (s_instance_rhyps o hint Ho) as [_ [_ [_ H]]]. exact H.
Qed.
Print Assumptions smachine_linearizable2_instance.

Definition ex_srunh (todo : nat -> list sop_z) (sched : list nat) :=
  @srunh Z sval zeqd (hash_of []) idx_map tag_map (nslots_of false) (seeds_of []) grow_needed_s shrink_policy_s nstripes_x
        (minlen_of_hint false 0%Z) false (s_machine_init [] 0%Z todo) sched.
Definition ex_srun2 (todo : nat -> list sop_z) (sched : list nat) :=
  @srun Z sval zeqd (hash_of []) idx_map tag_map (nslots_of false) (seeds_of []) grow_needed_s shrink_policy_s nstripes_x
        (minlen_of_hint false 0%Z) false (s_machine_init [] 0%Z todo) sched.

Ltac slin_witness2 :=
  repeat first [ apply legal_nil | apply legal_inv | apply legal_res
               | eapply legal_lin; [split; [exact I | split; reflexivity]|] ].
Ltac swf_witness2 :=
  repeat first [ apply wf_nil | apply wf_inv; [reflexivity|] | eapply wf_lin; [reflexivity|] | eapply wf_res; [reflexivity|] ].

(* Thread 0 stores 7 := 1 and then runs Range with the visitor "Delete(k)" over the whole table (32 buckets): for the
   copied pair (7, 1) the visitor calls Delete 7 -- a call of its own in the history, made below the Range frame.
   Thread 1 loads 7 twice: the first Load runs while the visitor's Delete has locked the bucket and is about to scan
   (it answers 1), the second after the Delete's word store (it answers "absent") but before the Delete returns.
   The Range's own invocation and response are not in the history; the Delete's are (as thread 0's). *)
Definition ex_stodoR (t : nat) : list sop_z :=
  match t with O => [s_store 7%Z (Some 1%Z); s_range_del] | S O => [SLoad 7%Z; SLoad 7%Z] | _ => [] end.
Definition ex_sR1 := repeat 0 19.          (* the store, then the Range up to the first visit: the visitor's Delete is invoked *)
Definition ex_sR := ex_sR1 ++ repeat 0 5 ++ repeat 1 6 ++ repeat 0 6 ++ repeat 1 3 ++ repeat 0 130.

Definition ex_sinstR : list (iev sop_z (@sres sval)) :=
  [IInv 0 (s_store 7%Z (Some 1%Z)); ILin 0 (s_store 7%Z (Some 1%Z)) (SRVal (Some (Some 1%Z)) false); IRes 0 (SRVal (Some (Some 1%Z)) false);
   IInv 0 (s_loadanddelete 7%Z);                                                   (* the visitor's call *)
   IInv 1 (SLoad 7%Z); ILin 1 (SLoad 7%Z) (SRVal (Some (Some 1%Z)) true); IRes 1 (SRVal (Some (Some 1%Z)) true);
   ILin 0 (s_loadanddelete 7%Z) (SRVal (Some (Some 1%Z)) true);
   IInv 1 (SLoad 7%Z); ILin 1 (SLoad 7%Z) (SRVal None false); IRes 1 (SRVal None false);
   IRes 0 (SRVal (Some (Some 1%Z)) true)].

Example s_linearizable_range_visitor :
  (let s := fst (ex_srun2 ex_stodoR ex_sR1) in
   h_pc s 0 = QW_Table (cx_delete 7%Z) /\ (exists fr, h_frame s 0 = Some fr /\ rf_rest fr = []))
  /\ (let s := fst (ex_srun2 ex_stodoR ex_sR) in h_pc s 0 = QIdle /\ h_todo s 0 = [] /\ h_frame s 0 = None)
  /\ ex_srunh ex_stodoR ex_sR
     = [HInv 0 (s_store 7%Z (Some 1%Z)); HRes 0 (SRVal (Some (Some 1%Z)) false);
        HInv 0 (s_loadanddelete 7%Z);
        HInv 1 (SLoad 7%Z); HRes 1 (SRVal (Some (Some 1%Z)) true);
        HInv 1 (SLoad 7%Z); HRes 1 (SRVal None false);
        HRes 0 (SRVal (Some (Some 1%Z)) true)]
  /\ erase _ _ ex_sinstR = ex_srunh ex_stodoR ex_sR
  /\ wf_inst _ _ (fun _ => TIdle) ex_sinstR
  /\ legal _ _ _ (sspec zeqd) X_linpoints.aempty ex_sinstR.
Proof.
  split; [split; [vm_compute; reflexivity | eexists; split; vm_compute; reflexivity]|].
  split; [split; [vm_compute; reflexivity | split; vm_compute; reflexivity]|].
  split; [vm_compute; reflexivity|]. split; [vm_compute; reflexivity|].
  split; [unfold ex_sinstR; swf_witness2 | unfold ex_sinstR; slin_witness2].
Qed.
Print Assumptions s_linearizable_range_visitor.
