(* CX_rangeS2.v -- C07 (Range) at the CACHE level under concurrency over XMachineS (Map, map.go):
   (b) no phantom and (c) completeness, the port of CX_range2.v on top of CX_rangeS.v.

   The product machine of CX_map2.v has silent visitors only (the traversal of a cache method is
   [s2_range] = SRange (fun _ _ => None)), so a traversing thread never has a Range frame and the
   "what does this step visit" fact specialises ([own_step]): a step of a traversal on table tab
   ([rgok tab pc]: lockBucket / unlockBucket of Range with a silent visitor, continuation in the same
   table) hands to the visitor exactly [pendS pc] -- the copied pairs when the step is the StoreUint64
   of unlockBucket, nothing otherwise -- and leaves the thread in a traversal of the same table or idle.
   From XS_range.v: range_snapshot_proof (the pairs copied under the bucket lock are what is visible
   in that bucket of the walked table), JP_step (the completeness invariant; it asks for visibility in
   the state AFTER each step), range_once_proof; through [Reach] of CX_rangeS.v.
   Theorems (generic in the cache text): [cacheS_range_window2], readings [rS_once], [rS_no_phantom],
   [rS_no_phantom_tab], [rS_complete]; instances at the end. *)
From CacheV Require Import Base SpecMap Client CacheModel CacheOfModel Ops SpecTTL Lin Conc XMachineS.
From CacheV.gen Require Import Params.
From CacheV.proofs Require X_linpoints.
From CacheV.proofs Require Import XS_lock XS_cells XS_vis XS_fn XS_read XS_range XS_linpoints XS_linpoints2
  CX_trans CX_compose CX_product CX_map CX_product2 CX_map2 C07_range CX_range CX_range2 CX_range3 CX_rangeS.
From Coq Require Import NArith Lia Permutation.
Local Open Scope nat_scope.

Section MachineS2.
  Context {K V : Type}.
  Variable eqd : forall a b : K, {a = b} + {a <> b}.
  Variable hash : K -> N -> N.
  Variable idx : N -> nat -> nat.
  Variable tophash : N -> N.
  Variable nslots : nat.
  Variable seeds : nat -> N.
  Variable grow_needed shrink_policy : nat -> Z -> bool.
  Variable nstripes : nat -> nat.
  Variable minlen : nat.
  Variable grow_only : bool.
  Variable len0 : nat.

  Notation item := (item V).
  Notation mstate := (@mstate K item).
  Notation sop := (@sop K item).
  Notation sres := (@sres item).
  Notation slabel := (@slabel K item).
  Notation spc := (@spc K item).
  Notation sstep_pc := (@sstep_pc K item eqd hash idx tophash nslots seeds grow_needed shrink_policy nstripes minlen grow_only).
  Notation sstep := (@sstep K item eqd hash idx tophash nslots seeds grow_needed shrink_policy nstripes minlen grow_only).
  Notation srun := (@srun K item eqd hash idx tophash nslots seeds grow_needed shrink_policy nstripes minlen grow_only).
  Notation swith_todo := (@CX_map.swith_todo K item).
  Notation svis_of := (@CX_map2.svis_of K V).
  Notation sso_of := (@CX_map2.sso_of K V).
  Notation silent := (@CX_map2.silent K item).
  Notation lby := (@XS_fn.lby K item).
  Notation allvis := (@XS_range.allvis K item).
  Notation Reach := (@CX_rangeS.Reach K V eqd hash idx tophash nslots seeds grow_needed shrink_policy nstripes minlen grow_only len0).
  Notation tabT := (@XS_lock.tabT K item nslots nstripes).
  Notation svis := (@XS_vis.svis K item hash idx tophash nslots).
  Notation jfact := (@XS_range.jfact K item hash idx nslots nstripes).
  Notation JP := (@XS_range.JP K item hash idx nslots nstripes).
  Notation mk_so := (@CX_product2.Build_sout K V sop sres).
  Notation stab_at := (@XMachineS.stab_at K item nslots nstripes).

  (* ---------------- a traversal with a silent visitor, on table tab ---------------- *)

  Definition rgok (tab : nat) (p : spc) : Prop :=
    match p with
    | QK_Load tab' _ (LKRange vf) | QK_Spin tab' _ (LKRange vf) | QK_Yield tab' _ (LKRange vf) | QK_CAS tab' _ _ (LKRange vf) =>
        tab' = tab /\ silent vf
    | QU_Load tab' _ (Some (_, vf)) a | QU_Store tab' _ _ (Some (_, vf)) a =>
        tab' = tab /\ silent vf /\ (a = QRet SRUnit \/ exists b, a = QK_Load tab b (LKRange vf))
    | _ => False
    end.

  (* the pairs the next step hands to the visitor *)
  Definition pendS (p : spc) : list (K * item) :=
    match p with QU_Store _ _ _ (Some (snap, _)) _ => snap | _ => [] end.

  Lemma rgok_wake tab (p : spc) : rgok tab p -> swake p = p.
  Proof. destruct p; cbn; try contradiction; reflexivity. Qed.

  Lemma rgok_not_idle tab (p : spc) : rgok tab p -> p <> XMachineS.QIdle.
  Proof. intros H E. rewrite E in H. exact H. Qed.

  Definition vlabS (t : nat) (l : list (K * item)) : list slabel := map (fun kv => SVisit t (fst kv) (snd kv)) l.

  Lemma svis_of_app (a b : list slabel) : svis_of (a ++ b) = svis_of a ++ svis_of b.
  Proof. unfold CX_map2.svis_of. apply flat_map_app. Qed.

  Lemma svis_of_vlab t l : svis_of (vlabS t l) = l.
  Proof. induction l as [|[k v] r IH]; [reflexivity|]. unfold CX_map2.svis_of in *. cbn [vlabS map flat_map fst snd app]. f_equal. exact IH. Qed.

  Lemma allvis_vlab t l : allvis t (vlabS t l) = l.
  Proof.
    induction l as [|[k v] r IH]; [reflexivity|]. cbn [vlabS map XS_range.allvis fst snd].
    destruct (Nat.eq_dec t t) as [_|Hc]; [|congruence]. f_equal. exact IH.
  Qed.

  Lemma svisits_silent (vf : K -> item -> option (@scx K item)) t (a : spc) : silent vf -> forall rest (s : mstate) ls,
    svisits s t rest vf a ls =
    match a with
    | QRet r => (sset_pc (sset_frame s t None) t XMachineS.QIdle, (ls ++ vlabS t rest) ++ [SRes t r])
    | _ => (sset_pc (sset_frame s t None) t a, ls ++ vlabS t rest)
    end.
  Proof.
    intros Hs. induction rest as [|[k v] r IH]; intros s ls; cbn [svisits vlabS map].
    - rewrite app_nil_r. destruct a; reflexivity.
    - rewrite (Hs k v). rewrite IH. cbn [fst snd]. rewrite <- !app_assoc. cbn [app]. destruct a; reflexivity.
  Qed.

  Lemma some_pairS {A B} (g : A * B) a b : Some g = Some (a, b) -> a = fst g /\ b = snd g.
  Proof. intros H. inversion H. auto. Qed.

  (* one step of a traversal *)
  Lemma own_step x t tab x' ls : rgok tab (h_pc x t) -> h_frame x t = None -> sstep x t = Some (x', ls) ->
    svis_of ls = pendS (h_pc x t) /\ (rgok tab (h_pc x' t) \/ h_pc x' t = XMachineS.QIdle).
  Proof.
    intros Hok Hfr Ex.
    rewrite (CX_map.sstep_nonidle eqd hash idx tophash nslots seeds grow_needed shrink_policy nstripes minlen grow_only x t (rgok_not_idle _ _ Hok)) in Ex.
    destruct (h_pc x t) as [] eqn:Hp; cbn [rgok] in Hok; try contradiction;
      try (match goal with lk : lockk |- _ => destruct lk; try contradiction end);
      try (match goal with rg : option _ |- _ => destruct rg as [[snap vf0]|]; try contradiction end);
      cbn [XMachineS.sstep_pc] in Ex; cbv zeta in Ex; cbn [pendS].
    - (* QK_Load *)
      destruct Hok as [-> Hs]. apply some_pairS in Ex. destruct Ex as [-> ->].
      destruct (w_lock _); cbn [sgoto fst snd]; rewrite sset_pc_same; (split; [reflexivity|]); left; cbn [rgok]; auto.
    - (* QK_Spin *)
      destruct Hok as [-> Hs]. apply some_pairS in Ex. destruct Ex as [-> ->]. cbn [sgoto fst snd]. rewrite sset_pc_same. split; [reflexivity|]. left. cbn [rgok]. auto.
    - (* QK_CAS *)
      destruct Hok as [-> Hs]. destruct (N.eqb _ _).
      + cbn [after_lock] in Ex. apply some_pairS in Ex. destruct Ex as [-> ->]. cbn [sgoto fst snd]. rewrite sset_pc_same. split; [reflexivity|]. left. cbn [rgok].
        split; [reflexivity|]. split; [exact Hs|]. destruct (Nat.ltb _ _); [right; eexists; reflexivity | left; reflexivity].
      + apply some_pairS in Ex. destruct Ex as [-> ->]. cbn [sgoto fst snd]. rewrite sset_pc_same. split; [reflexivity|]. left. cbn [rgok]. auto.
    - (* QK_Yield *)
      destruct Hok as [-> Hs]. apply some_pairS in Ex. destruct Ex as [-> ->]. cbn [sgoto fst snd]. rewrite sset_pc_same. split; [reflexivity|]. left. cbn [rgok]. auto.
    - (* QU_Load *)
      destruct Hok as [-> [Hs Ha]]. apply some_pairS in Ex. destruct Ex as [-> ->]. cbn [sgoto fst snd]. rewrite sset_pc_same. split; [reflexivity|]. left. cbn [rgok]. auto.
    - (* QU_Store: the visits *)
      destruct Hok as [-> [Hs Ha]]. rewrite (svisits_silent _ t _ Hs) in Ex.
      destruct Ha as [->|[b0 ->]]; apply some_pairS in Ex; destruct Ex as [-> ->]; cbn [fst snd]; rewrite sset_pc_same.
      + split; [|right; reflexivity]. rewrite !svis_of_app, svis_of_vlab. unfold CX_map2.svis_of. cbn [flat_map app]. rewrite app_nil_r. reflexivity.
      + split; [|left; cbn [rgok]; auto]. rewrite svis_of_app, svis_of_vlab. unfold CX_map2.svis_of. cbn [flat_map app]. reflexivity.
  Qed.

  (* the invocation of the traversal *)
  Lemma invoke_step x t x' ls : h_pc x t = XMachineS.QIdle -> h_todo x t = [@s2_range K V] -> 0 < m_len (stab_at x (h_cur x)) ->
    sstep x t = Some (x', ls) ->
    h_pc x' t = QK_Load (h_cur x) 0 (LKRange (fun _ _ => None)) /\ h_tabs x' = h_tabs x /\ svis_of ls = [].
  Proof.
    intros Hp Htd Hl Ex. unfold XMachineS.sstep in Ex. rewrite Hp, Htd in Ex. unfold s2_range in Ex. cbn [sstart_pc XMachineS.sstep_pc] in Ex. cbv zeta in Ex.
    cbn [h_cur] in Ex.
    match type of Ex with context [Nat.ltb 0 ?n] => replace (Nat.ltb 0 n) with true in Ex by (symmetry; apply Nat.ltb_lt; exact Hl) end.
    cbn [sgoto] in Ex. apply some_pairS in Ex. destruct Ex as [-> ->]. cbn [fst snd]. rewrite sset_pc_same. auto.
  Qed.

  (* a step of another thread leaves a traversal where it is *)
  Lemma other_step x u x' ls t tab : sstep x u = Some (x', ls) -> t <> u -> rgok tab (h_pc x t) -> h_pc x' t = h_pc x t.
  Proof.
    intros Ex Hn Hok.
    assert (Hw : h_pc x' t = h_pc x t \/ h_pc x' t = swake (h_pc x t)).
    { destruct (spc_idle_dec (h_pc x u)) as [Hp|Hp].
      - rewrite (CX_map.sstep_idle eqd hash idx tophash nslots seeds grow_needed shrink_policy nstripes minlen grow_only x u Hp) in Ex.
        destruct (h_todo x u) as [|o rest]; [discriminate Ex|].
        destruct (sstep_pc (sinvoke x u o rest) u (sstart_pc o)) as [[s2 ls2]|] eqn:E2; inversion Ex; subst x' ls; clear Ex.
        + destruct (sstep_pc_shape eqd hash idx tophash nslots seeds grow_needed shrink_policy nstripes minlen grow_only _ _ _ _ _ E2) as [_ [Ho _]].
          destruct (Ho t Hn) as [A|A]; rewrite A; cbn [CX_map.sinvoke h_pc]; (destruct (Nat.eq_dec t u) as [Hc|_]; [contradiction|]); auto.
        + cbn [CX_map.sinvoke h_pc]. destruct (Nat.eq_dec t u) as [Hc|_]; [contradiction|]. auto.
      - rewrite (CX_map.sstep_nonidle eqd hash idx tophash nslots seeds grow_needed shrink_policy nstripes minlen grow_only x u Hp) in Ex.
        destruct (sstep_pc_shape eqd hash idx tophash nslots seeds grow_needed shrink_policy nstripes minlen grow_only _ _ _ _ _ Ex) as [_ [Ho _]].
        apply (Ho t Hn). }
    destruct Hw as [E|E]; [exact E|]. rewrite E. eapply rgok_wake. exact Hok.
  Qed.

  (* the labels of a step, as visits of thread t *)
  Lemma allvis_by t u (ls : list slabel) : Forall (lby u) ls -> allvis t ls = if Nat.eq_dec u t then svis_of ls else [].
  Proof.
    induction 1 as [|l r Hl _ IH]; [destruct (Nat.eq_dec u t); reflexivity|].
    unfold CX_map2.svis_of in *. destruct l; cbn [XS_range.allvis flat_map app XS_fn.lby] in *; try exact IH.
    subst t0. destruct (Nat.eq_dec u t); [rewrite IH; reflexivity | exact IH].
  Qed.

  Lemma allvis_sstep x u x' ls t : sstep x u = Some (x', ls) -> allvis t ls = if Nat.eq_dec u t then svis_of ls else [].
  Proof.
    intros Ex. apply allvis_by.
    destruct (spc_idle_dec (h_pc x u)) as [Hp|Hp].
    - rewrite (CX_map.sstep_idle eqd hash idx tophash nslots seeds grow_needed shrink_policy nstripes minlen grow_only x u Hp) in Ex.
      destruct (h_todo x u) as [|o rest]; [discriminate Ex|].
      destruct (sstep_pc (sinvoke x u o rest) u (sstart_pc o)) as [[s2 ls2]|] eqn:E2; inversion Ex; subst x' ls; clear Ex.
      + constructor; [reflexivity|]. apply (step_pc_labels eqd hash idx tophash nslots seeds grow_needed shrink_policy nstripes minlen grow_only _ _ _ _ _ E2).
      + constructor; [reflexivity | constructor].
    - rewrite (CX_map.sstep_nonidle eqd hash idx tophash nslots seeds grow_needed shrink_policy nstripes minlen grow_only x u Hp) in Ex.
      apply (step_pc_labels eqd hash idx tophash nslots seeds grow_needed shrink_policy nstripes minlen grow_only _ _ _ _ _ Ex).
  Qed.

  (* ---------------- XS_range.v on a product configuration ---------------- *)

  Hypothesis Hr : rdhyps hash idx tophash nslots minlen.
  Hypothesis Hlen : 0 < len0.

  Lemma reach_XB x L : Reach x L -> exists td, (forall u, td u = h_todo x u)
    /\ XB hash idx tophash nslots nstripes (swith_todo x td) /\ XF (swith_todo x td).
  Proof.
    intros HR. destruct (HR (fun _ => [])) as [fut [m [td [Htd Hrun]]]].
    destruct Hr as [[H1 H2] [H3 [H4 H5]]].
    pose proof (reachable_RV eqd hash idx tophash nslots seeds grow_needed shrink_policy nstripes minlen grow_only H1 H4 H5 H2 H3 len0 fut m Hlen) as H.
    cbv zeta in H. rewrite Hrun in H. cbn [fst snd] in H. destruct H as [HB [HF _]].
    exists td. split; [intros u; rewrite Htd, app_nil_r; reflexivity|]. auto.
  Qed.

  (* the table a traversal starts on has buckets *)
  Lemma reach_lenS x L : Reach x L -> 0 < m_len (stab_at x (h_cur x)) /\ h_cur x < length (h_tabs x).
  Proof.
    intros HR. destruct (reach_XB x L HR) as [td [_ [[_ [HL _]] _]]].
    pose proof (xl_cur _ _ _ _ _ HL) as Hc. pose proof (xl_tabs _ _ _ _ _ HL) as Ht. cbn [CX_map.swith_todo h_cur h_tabs] in Hc, Ht.
    split; [|exact Hc]. unfold XMachineS.stab_at. rewrite Forall_forall in Ht.
    destruct (Ht (nth (h_cur x) (h_tabs x) (@new_mtable K item nslots nstripes 1 0%N))) as [H _]; [apply nth_In; exact Hc | exact H].
  Qed.

  (* what the traversal holds before the StoreUint64 of unlockBucket is visible in the walked table *)
  Lemma reach_snapshotS x L t tab b w snap vf a : Reach x L -> h_pc x t = QU_Store tab b w (Some (snap, vf)) a ->
    forall k v, In (k, v) snap -> svis (tabT (h_tabs x) tab) k v.
  Proof.
    intros HR Hp k v Hin. destruct (HR (fun _ => [])) as [fut [m [td [_ Hrun]]]].
    pose proof (range_snapshot_proof eqd hash idx tophash nslots seeds grow_needed shrink_policy nstripes minlen grow_only Hr len0 fut m t tab b w snap vf a Hlen) as H.
    cbv zeta in H. rewrite Hrun in H. cbn [fst] in H. destruct (H (or_intror Hp)) as [_ [H2 _]]. apply (proj1 (H2 k v) Hin).
  Qed.

  (* the completeness invariant of XS_range.v over pairs *)
  Definition JQS (t tab : nat) (k : K) (v : item) (x : mstate) (acc : list (K * item)) : Prop :=
    In (k, v) acc \/ (tab < length (h_tabs x) /\ jfact tab k v (h_tabs x) (h_frame x t) (h_pc x t)).

  Lemma JQS_JP t tab k (v : item) (x : mstate) acc : JQS t tab k v x acc <-> JP t tab k v x (vlabS t acc).
  Proof. unfold JQS, XS_range.JP. rewrite allvis_vlab. reflexivity. Qed.

  Lemma reach_jqs_step x L t tab k v acc u x' ls : Reach x L -> svis (tabT (h_tabs x') tab) k v ->
    JQS t tab k v x acc -> sstep x u = Some (x', ls) -> JQS t tab k v x' (acc ++ allvis t ls).
  Proof.
    intros HR Hv HJ Ex. destruct (reach_XB x L HR) as [td [Htd [HB HF]]].
    destruct Hr as [[H1 H2] [H3 [H4 H5]]].
    destruct (sstep_frame eqd hash idx tophash nslots seeds grow_needed shrink_policy nstripes minlen grow_only x u x' ls td (fun _ => []) Ex)
      as [td' [Ex' _]]; [intros w; rewrite Htd, app_nil_r; reflexivity|].
    apply JQS_JP in HJ.
    pose proof (XS_range.JP_step eqd hash idx tophash nslots seeds grow_needed shrink_policy nstripes minlen grow_only H1 H4 H5 H2 H3
                  t tab k v (swith_todo x td) (vlabS t acc) u (swith_todo x' td') ls HB HF Hv HJ Ex') as HJ'.
    apply JQS_JP. unfold XS_range.JP in *. rewrite XS_range.allvis_app, allvis_vlab in HJ'. rewrite allvis_vlab. exact HJ'.
  Qed.

End MachineS2.

Section WindowS2.
  Context {K V : Type}.
  Variable eqd : forall a b : K, {a = b} + {a <> b}.
  Variable hash : K -> N -> N.
  Variable idx : N -> nat -> nat.
  Variable tophash : N -> N.
  Variable nslots : nat.
  Variable seeds : nat -> N.
  Variable grow_needed shrink_policy : nat -> Z -> bool.
  Variable nstripes : nat -> nat.
  Variable minlen : nat.
  Variable grow_only : bool.
  Variable len0 : nat.
  Variable progs : cop K V -> prog K V (cres K V).
  Variables NOW DFLT : Z.
  Variable CB : cbid.
  Variable sup : cmop K V -> bool.

  Notation item := (item V).
  Notation mstate := (@mstate K item).
  Notation sop := (@sop K item).
  Notation sres := (@sres item).
  Notation slabel := (@slabel K item).
  Notation spc := (@spc K item).
  Notation cop := (cop K V).
  Notation cres := (cres K V).
  Notation prog := (prog K V cres).
  Notation imres := (imres K V).
  Notation env0 := (Conc.env0 NOW DFLT).
  Notation sstep := (@sstep K item eqd hash idx tophash nslots seeds grow_needed shrink_policy nstripes minlen grow_only).
  Notation swith_todo := (@CX_map.swith_todo K item).
  Notation pconf := (@CX_product2.pconf K V mstate).
  Notation qst := (@CX_product2.qst K V).
  Notation out := (@out K V).
  Notation px := (@p_x K V mstate).
  Notation pthr := (@p_thr K V mstate).
  Notation ptodo := (@p_todo K V mstate).
  Notation feed := (@CX_product2.feed K V sop sres (sback env0)).
  Notation mach := (@mach K V).
  Notation cv := (@XS_range.cv K item).
  Notation svis_of := (@CX_map2.svis_of K V).
  Notation sso_of := (@CX_map2.sso_of K V).
  Notation tabT := (@XS_lock.tabT K item nslots nstripes).
  Notation svis := (@XS_vis.svis K item hash idx tophash nslots).
  Notation gstep := (@CX_rangeS.gstep K V eqd hash idx tophash nslots seeds grow_needed shrink_policy nstripes minlen grow_only progs NOW DFLT CB sup).
  Notation ginit := (@CX_rangeS.ginit K V nslots seeds nstripes len0).
  Notation pafter := (@CX_rangeS.pafter K V eqd hash idx tophash nslots seeds grow_needed shrink_policy nstripes minlen grow_only progs NOW DFLT CB sup).
  Notation pouts := (@CX_rangeS.pouts K V eqd hash idx tophash nslots seeds grow_needed shrink_policy nstripes minlen grow_only progs NOW DFLT CB sup).
  Notation plabs := (@CX_rangeS.plabs K V eqd hash idx tophash nslots seeds grow_needed shrink_policy nstripes minlen grow_only progs NOW DFLT CB sup).
  Notation plab := (@CX_rangeS.plab K V eqd hash idx tophash nslots seeds grow_needed shrink_policy nstripes minlen grow_only).
  Notation Reach := (@CX_rangeS.Reach K V eqd hash idx tophash nslots seeds grow_needed shrink_policy nstripes minlen grow_only len0).
  Notation TI := (@CX_rangeS.TI K V NOW DFLT).
  Notation JQS := (@JQS K V hash idx nslots nstripes).
  Notation rgok := (@rgok K V).
  Notation pendS := (@pendS K V).
  Notation Gmach := (CX_rangeS.gstep_mach eqd hash idx tophash nslots seeds grow_needed shrink_policy nstripes minlen grow_only progs NOW DFLT CB sup).
  Notation Gclient := (CX_rangeS.gstep_client eqd hash idx tophash nslots seeds grow_needed shrink_policy nstripes minlen grow_only progs NOW DFLT CB sup).
  Notation Gother := (CX_rangeS.gstep_other eqd hash idx tophash nslots seeds grow_needed shrink_policy nstripes minlen grow_only progs NOW DFLT CB sup).
  Notation Geqs := (CX_rangeS.gstep_eqs eqd hash idx tophash nslots seeds grow_needed shrink_policy nstripes minlen grow_only progs NOW DFLT CB sup).
  Notation CVstep := (CX_rangeS.cv_sstep eqd hash idx tophash nslots seeds grow_needed shrink_policy nstripes minlen grow_only).

  Hypothesis Hr : rdhyps hash idx tophash nslots minlen.
  Hypothesis Hlen : 0 < len0.
  Hypothesis Hsup : sup CSize = false.

  Variable rloop : Z -> (K -> V -> bool) -> list (K * item) -> list (K * V) -> prog.
  Variable reord : list K -> list (K * item) -> list (K * item).
  Hypothesis Hrl : forall now f l vs, rl (vs ++ visits now f l) (rloop now f l vs).
  Hypothesis Hperm : forall hint l, Permutation l (reord hint l).
  Hypothesis Hrange : forall f hint, progs (ORange (Some f) hint) = RangeP rloop reord f hint.

  Variable todo0 : nat -> list cop.
  Variable sched0 : list nat.
  Variable t : nat.
  Variable f : K -> V -> bool.
  Variable hint : list K.
  Variable rest : list cop.
  Notation o := (ORange (Some f) hint).
  Notation KN := (K0 rloop reord NOW f hint).

  Let p0 : pconf := pafter (ginit todo0) sched0.
  Let L0 : list slabel := plabs (ginit todo0) sched0.

  Hypothesis H0thr : pthr p0 t = QIdle.
  Hypothesis H0todo : ptodo p0 t = o :: rest.

  Definition prephase2 (q : qst) : Prop :=
    q = QRun o (RangeP rloop reord f hint) \/ q = QRun o (MapCall CSnapshot KN) \/ q = QSPushed o KN.

  (* the traversal of thread t is under way, on table tab *)
  Definition traversingS (p : pconf) (tab : nat) : Prop := rgok tab (h_pc (px p) t).

  Definition tabof (p : pconf) (tab : nat) := tabT (h_tabs (px p)) tab.

  Definition WitS (s1 : list nat) (tab : nat) (k : K) (i : item) : Prop :=
    exists a b, s1 = a ++ b /\ traversingS (pafter p0 a) tab /\ svis (tabof (pafter p0 a) tab) k i.

  Definition CurS (s1 : list nat) (tab : nat) : Prop :=
    exists a b, s1 = a ++ b /\ h_cur (px (pafter p0 a)) = tab.

  (* the traversal is under way at the configuration after a, or was one move earlier *)
  Definition nearS (a : list nat) (tab : nat) : Prop :=
    traversingS (pafter p0 a) tab \/ exists a' u, a = a' ++ [u] /\ traversingS (pafter p0 a') tab.

  Definition HcS (s1 : list nat) (k : K) (i : item) : Prop :=
    forall a b tab, s1 = a ++ b -> nearS a tab -> svis (tabof (pafter p0 a) tab) k i.

  Definition FactsS (s1 : list nat) (tab : nat) (accF : list (K * item)) : Prop :=
    NoDup (map fst accF) /\ (forall k i, In (k, i) accF -> WitS s1 tab k i) /\ (forall k i, HcS s1 k i -> In (k, i) accF)
    /\ CurS s1 tab.

  Lemma WitS_mono s1 u tab k i : WitS s1 tab k i -> WitS (s1 ++ [u]) tab k i.
  Proof. intros [a [b [-> H]]]. exists a, (b ++ [u]). rewrite app_assoc. auto. Qed.

  Lemma CurS_mono s1 u tab : CurS s1 tab -> CurS (s1 ++ [u]) tab.
  Proof. intros [a [b [-> H]]]. exists a, (b ++ [u]). rewrite app_assoc. auto. Qed.

  Lemma HcS_mono s1 u k i : HcS (s1 ++ [u]) k i -> HcS s1 k i.
  Proof. intros H a b tab -> Hn. apply (H a (b ++ [u]) tab); [rewrite app_assoc; reflexivity | exact Hn]. Qed.

  Lemma FactsS_mono s1 u tab accF : FactsS s1 tab accF -> FactsS (s1 ++ [u]) tab accF.
  Proof.
    intros [A [B [C D]]]. split; [exact A|]. split; [|split].
    - intros k i Hin. apply WitS_mono. apply B. exact Hin.
    - intros k i H. apply C. eapply HcS_mono. exact H.
    - apply CurS_mono. exact D.
  Qed.

  (* visibility after the move, from the hypothesis of (c) *)
  Lemma HcS_next s1 u tab k i : HcS (s1 ++ [u]) k i -> traversingS (pafter p0 s1) tab -> svis (tabof (pafter p0 (s1 ++ [u])) tab) k i.
  Proof. intros H Ht. apply (H (s1 ++ [u]) [] tab); [rewrite app_nil_r; reflexivity|]. right. exists s1, u. auto. Qed.

  Inductive W2 (s1 : list nat) (p : pconf) (L : list slabel) (ot : list (hev cop cres)) : Prop :=
  | W2_A : pthr p t = QIdle -> ptodo p t = o :: rest -> ot = [] -> W2 s1 p L ot
  | W2_pre : prephase2 (pthr p t) -> ptodo p t = rest -> ot = [HInv t o] -> W2 s1 p L ot
  | W2_E tab acc : pthr p t = QSWait o KN acc -> ptodo p t = rest -> ot = [HInv t o] ->
                   rgok tab (h_pc (px p) t) -> acc = cv t [] L ->
                   (forall k i, In (k, i) acc -> WitS s1 tab k i) ->
                   (forall k i, HcS s1 k i -> JQS t tab k i (px p) acc) -> CurS s1 tab -> W2 s1 p L ot
  | W2_F tab accF pr : pthr p t = QRun o pr -> rl (visits NOW f (reord hint accF)) pr -> ptodo p t = rest -> ot = [HInv t o] ->
                   FactsS s1 tab accF -> W2 s1 p L ot
  | W2_G tab accF : pthr p t = QIdle -> ptodo p t = rest -> ot = [HInv t o; HRes t (CList (visits NOW f (reord hint accF)))] ->
                FactsS s1 tab accF -> W2 s1 p L ot
  | W2_Past : length (ptodo p t) < length rest -> W2 s1 p L ot.

  Lemma W2_none s1 p L ot u : W2 s1 p L ot -> W2 (s1 ++ [u]) p L ot.
  Proof.
    intros [A B C|A B C|tab acc A B C D E F G HC|tab accF pr A B C D E|tab accF A B C D|A].
    - apply W2_A; assumption.
    - apply W2_pre; assumption.
    - eapply W2_E; try eassumption.
      + intros k i Hin. apply WitS_mono. apply F. exact Hin.
      + intros k i H. apply G. eapply HcS_mono. exact H.
      + apply CurS_mono. exact HC.
    - eapply W2_F; try eassumption. apply FactsS_mono. exact E.
    - eapply W2_G; try eassumption. apply FactsS_mono. exact D.
    - apply W2_Past. exact A.
  Qed.

  Lemma todo_len p u p1 os h : gstep p u = Some (p1, os, h) -> length (ptodo p1 t) <= length (ptodo p t).
  Proof.
    intros E. destruct (Nat.eq_dec t u) as [->|Hn]; [|destruct (Gother p u p1 os h t E Hn) as [_ [-> _]]; lia].
    destruct (mach (pthr p u)) eqn:Hm.
    - destruct (Gmach p u p1 os h Hm E) as [ls [_ [_ [_ [-> _]]]]]. lia.
    - unfold CX_rangeS.gstep, CX_product2.pstep in E. destruct (pthr p u) as [|o1 pr| | | |] eqn:Eq; try discriminate Hm.
      + destruct (ptodo p u) as [|o1 r1] eqn:Et; [discriminate E|]. inversion E; subst. cbn [p_todo]. rewrite upd_eq. cbn [length]. lia.
      + destruct pr as [r|mo k|k|k|d k|k|cb k|e k]; try discriminate E; try (inversion E; subst; cbn [CX_product2.pset p_todo]; lia).
        destruct mo.
        1-7: match type of E with context [sup ?m] => destruct (sup m) eqn:Hs end; [|discriminate E]; inversion E; subst; cbn [p_todo]; lia.
        inversion E; subst; cbn [p_todo]; lia.
  Qed.

  Lemma JQS_same (x x' : mstate) tab k i acc : h_pc x' t = h_pc x t -> h_tabs x' = h_tabs x -> h_frame x' t = h_frame x t ->
    JQS t tab k i x acc -> JQS t tab k i x' acc.
  Proof. intros E1 E2 E3. unfold CX_rangeS2.JQS. rewrite E1, E2, E3. exact (fun H => H). Qed.

  (* a move of another thread *)
  Lemma W2_other s1 p L ot u p1 os h : W2 s1 p L ot -> p = pafter p0 s1 -> p1 = pafter p0 (s1 ++ [u]) -> Reach (px p) L ->
    gstep p u = Some (p1, os, h) -> t <> u -> W2 (s1 ++ [u]) p1 (L ++ plab p u) (ot ++ thist t (cproj os)).
  Proof.
    intros HW Ep Ep1 HR E Hn.
    destruct (Gother p u p1 os h t E Hn) as [Eth [Etd Eos]].
    rewrite Eos, app_nil_r.
    destruct HW as [A B C|A B C|tab acc A B C D EE F G HC|tab accF pr A B C D EE|tab accF A B C D|A].
    - apply W2_A; congruence.
    - apply W2_pre; congruence.
    - assert (Htr : traversingS (pafter p0 s1) tab) by (unfold traversingS; rewrite <- Ep; exact D).
      assert (Hst : h_pc (px p1) t = h_pc (px p) t /\ cv t acc (plab p u) = acc
                    /\ (forall k i, svis (tabof p1 tab) k i -> JQS t tab k i (px p) acc -> JQS t tab k i (px p1) acc)).
      { destruct (mach (pthr p u)) eqn:Hm.
        - destruct (Gmach p u p1 os h Hm E) as [ls [Ex [El _]]]. rewrite El.
          split; [eapply other_step; [exact Ex | exact Hn | exact D]|]. split.
          + rewrite (CVstep _ _ _ _ t acc Ex). destruct (Nat.eq_dec u t); [exfalso; apply Hn; congruence | reflexivity].
          + intros k i Hv HJ.
            pose proof (reach_jqs_step eqd hash idx tophash nslots seeds grow_needed shrink_policy nstripes minlen grow_only len0 Hr Hlen
                          _ _ t tab k i acc u _ _ HR Hv HJ Ex) as HJ'.
            rewrite (allvis_sstep eqd hash idx tophash nslots seeds grow_needed shrink_policy nstripes minlen grow_only _ _ _ _ t Ex) in HJ'.
            destruct (Nat.eq_dec u t); [exfalso; apply Hn; congruence|]. rewrite app_nil_r in HJ'. exact HJ'.
        - destruct (Gclient p u p1 os h Hm E) as [El [Ex|[xo Ex]]]; rewrite El, Ex;
            (split; [reflexivity|]); (split; [reflexivity|]); intros k i _ HJ; [exact HJ|].
          eapply JQS_same; [| | |exact HJ]; reflexivity. }
      destruct Hst as [Hpc [Hcv HJ]].
      eapply (W2_E _ _ _ _ tab acc); [congruence | congruence | exact C | | | | | apply CurS_mono; exact HC].
      + rewrite Hpc. exact D.
      + rewrite XS_range.cv_app, <- EE. symmetry. exact Hcv.
      + intros k i Hin. apply WitS_mono. apply F. exact Hin.
      + intros k i H. apply HJ.
        * rewrite Ep1. eapply HcS_next; [exact H | exact Htr].
        * apply G. eapply HcS_mono. exact H.
    - eapply W2_F; try eassumption; try congruence. apply FactsS_mono. exact EE.
    - eapply W2_G; try eassumption; try congruence. apply FactsS_mono. exact D.
    - apply W2_Past. congruence.
  Qed.

  Lemma thist_inv2 (x : cop) : thist t [@HInv cop cres t x] = [HInv t x].
  Proof. unfold thist. cbn [filter ev_thread]. rewrite Nat.eqb_refl. reflexivity. Qed.

  Lemma thist_res2 (r : cres) : thist t [@HRes cop cres t r] = [HRes t r].
  Proof. unfold thist. cbn [filter ev_thread]. rewrite Nat.eqb_refl. reflexivity. Qed.

  (* a move of thread t itself *)
  Lemma W2_own s1 p L ot p1 os h : W2 s1 p L ot -> p = pafter p0 s1 -> p1 = pafter p0 (s1 ++ [t]) -> Reach (px p) L -> TI p -> TI p1 ->
    gstep p t = Some (p1, os, h) -> W2 (s1 ++ [t]) p1 (L ++ plab p t) (ot ++ thist t (cproj os)).
  Proof.
    intros HW Ep Ep1 HR HT HT1 E.
    destruct HW as [A B C|B A C|tab acc A B C D EE F G HC|tab accF pr A B C D EE|tab accF A B C D|A].
    - destruct (Geqs t p o) as [G1 _]. rewrite (G1 rest A B) in E. inversion E; subst p1 os h; clear E.
      apply W2_pre; cbn [p_thr p_todo]; rewrite ?upd_eq.
      + unfold prephase2. rewrite Hrange. auto.
      + reflexivity.
      + rewrite C. cbn [cproj app]. apply thist_inv2.
    - destruct B as [Eq|[Eq|Eq]].
      + unfold RangeP in Eq. destruct (Geqs t p o) as [_ [_ [_ [G4 _]]]]. rewrite (G4 _ Eq) in E. inversion E; subst p1 os h; clear E.
        apply W2_pre; cbn [p_thr p_todo cproj thist filter]; rewrite ?upd_eq, ?app_nil_r; [unfold prephase2; auto | exact A | exact C].
      + destruct (Geqs t p o) as [_ [_ [_ [_ [_ G6]]]]]. rewrite (G6 _ Eq) in E. inversion E; subst p1 os h; clear E.
        apply W2_pre; cbn [p_thr p_todo cproj thist filter]; rewrite ?upd_eq, ?app_nil_r; [unfold prephase2; auto | exact A | exact C].
      + (* the traversal is in the todo list of t's map thread *)
        assert (Hm : mach (pthr p t) = true) by (rewrite Eq; reflexivity).
        destruct (Gmach p t p1 os h Hm E) as [ls [Ex [El [Eth [Etd Eo]]]]].
        assert (Hot : ot ++ thist t (cproj os) = [HInv t o]) by (rewrite Eo, CX_rangeS.feed_cproj; cbn [thist filter]; rewrite app_nil_r; exact C).
        rewrite Hot, El.
        pose proof (HT t) as Ht. unfold CX_rangeS.TIq in Ht. rewrite Eq in Ht. destruct Ht as [Htd [[Hs|Hi] Hfr]].
        * (* the goroutine starts *)
          assert (Hne : h_pc (px p) t <> XMachineS.QIdle) by (rewrite Hs; discriminate).
          rewrite (CX_map.sstep_nonidle eqd hash idx tophash nslots seeds grow_needed shrink_policy nstripes minlen grow_only _ _ Hne) in Ex.
          destruct (sstep_pc_shape eqd hash idx tophash nslots seeds grow_needed shrink_policy nstripes minlen grow_only _ _ _ _ _ Ex) as [_ [_ Hsh]].
          assert (Hinv : so_inv sop sres (sso_of ls) = None).
          { unfold CX_map2.sso_of. cbn [so_inv]. apply (shape_inv t). destruct Hsh as [H|[r [H _]]]; [left; exact H | right; exists r; exact H]. }
          apply W2_pre; [| rewrite Etd; exact A | reflexivity].
          rewrite Eth, upd_eq, Eq. cbn [CX_product2.feed]. rewrite Hinv. cbn [fst]. unfold prephase2. auto.
        * (* the invocation: the table pointer is loaded *)
          destruct (reach_lenS eqd hash idx tophash nslots seeds grow_needed shrink_policy nstripes minlen grow_only len0 Hr Hlen _ _ HR) as [Hl Hcl].
          destruct (invoke_step eqd hash idx tophash nslots seeds grow_needed shrink_policy nstripes minlen grow_only _ _ _ _ Hi Htd Hl Ex) as [Hpc1 [Htabs Hsv0]].
          pose proof Ex as Ex0.
          rewrite (CX_map.sstep_idle eqd hash idx tophash nslots seeds grow_needed shrink_policy nstripes minlen grow_only _ _ Hi), Htd in Ex.
          assert (Hinv : so_inv sop sres (sso_of ls) = Some (@s2_range K V)).
          { destruct (XMachineS.sstep_pc _ _ _ _ _ _ _ _ _ _ _ (sinvoke (px p) t s2_range []) t (sstart_pc s2_range)) as [[s2 ls2]|]; inversion Ex; subst; reflexivity. }
          assert (Hvis0 : so_vis sop sres (sso_of ls) = []) by exact Hsv0.
          assert (Hcv : so_vis sop sres (sso_of ls) = cv t [] (L ++ ls)).
          { rewrite XS_range.cv_app, (CVstep _ _ _ _ t _ Ex0). destruct (Nat.eq_dec t t) as [_|Hc]; [|congruence].
            destruct (spc_idle_dec (h_pc (px p) t)) as [_|Hc]; [reflexivity | contradiction]. }
          pose proof (HT1 t) as Ht1. unfold CX_rangeS.TIq in Ht1. rewrite Eth, upd_eq, Eq in Ht1. cbn [CX_product2.feed] in Ht1. rewrite Hinv in Ht1.
          destruct (so_res sop sres (sso_of ls)) as [r|] eqn:Er; cbn [fst] in Ht1.
          -- exfalso. destruct Ht1 as [_ [[Hc|Hc] _]]; rewrite Hpc1 in Hc; discriminate Hc.
          -- destruct Ht1 as [_ [Hfr1 _]].
             eapply (W2_E _ _ _ _ (h_cur (px p)) (so_vis sop sres (sso_of ls))); [| rewrite Etd; exact A | reflexivity | | exact Hcv | | |].
             ++ rewrite Eth, upd_eq, Eq. cbn [CX_product2.feed]. rewrite Hinv, Er. reflexivity.
             ++ rewrite Hpc1. cbn [CX_rangeS2.rgok]. split; [reflexivity | intros k v; reflexivity].
             ++ rewrite Hvis0. intros k i [].
             ++ intros k i _. right. rewrite Htabs. split; [exact Hcl|]. rewrite Hfr1, Hpc1. unfold XS_range.jfact. cbn [XS_range.rk XS_range.lkr].
                right. exists 0. split; [reflexivity | lia].
             ++ exists s1, [t]. rewrite <- Ep. auto.
    - (* the traversal runs *)
      assert (Hm : mach (pthr p t) = true) by (rewrite A; reflexivity).
      destruct (Gmach p t p1 os h Hm E) as [ls [Ex [El [Eth [Etd Eo]]]]].
      assert (Hot : ot ++ thist t (cproj os) = [HInv t o]) by (rewrite Eo, CX_rangeS.feed_cproj; cbn [thist filter]; rewrite app_nil_r; exact C).
      rewrite Hot, El.
      pose proof (HT t) as Ht. unfold CX_rangeS.TIq in Ht. rewrite A in Ht. destruct Ht as [Htd [Hfr _]].
      assert (Htr : traversingS (pafter p0 s1) tab) by (unfold traversingS; rewrite <- Ep; exact D).
      assert (Hne : h_pc (px p) t <> XMachineS.QIdle) by (eapply rgok_not_idle; exact D).
      destruct (own_step eqd hash idx tophash nslots seeds grow_needed shrink_policy nstripes minlen grow_only _ _ _ _ _ D Hfr Ex) as [Hsv Hnext].
      assert (Hsov : so_vis sop sres (sso_of ls) = pendS (h_pc (px p) t)) by exact Hsv.
      set (sv := pendS (h_pc (px p) t)) in *.
      assert (Hcv : acc ++ sv = cv t [] (L ++ ls)).
      { rewrite XS_range.cv_app, <- EE, (CVstep _ _ _ _ t _ Ex). destruct (Nat.eq_dec t t) as [_|Hc]; [|congruence].
        destruct (spc_idle_dec (h_pc (px p) t)) as [Hc|_]; [contradiction|]. rewrite Hsv. reflexivity. }
      assert (Hsvv : forall k i, In (k, i) sv -> svis (tabof p tab) k i).
      { intros k i Hin. unfold sv in Hin. destruct (h_pc (px p) t) eqn:Hpc; cbn [CX_rangeS2.pendS] in Hin; try contradiction.
        destruct rg as [[snap vf0]|]; [|contradiction]. cbn [CX_rangeS2.rgok] in D. destruct D as [-> _].
        apply (reach_snapshotS eqd hash idx tophash nslots seeds grow_needed shrink_policy nstripes minlen grow_only len0 Hr Hlen _ _ _ _ _ _ _ _ _ HR Hpc k i Hin). }
      assert (HWit : forall k i, In (k, i) (acc ++ sv) -> WitS (s1 ++ [t]) tab k i).
      { intros k i Hin. apply in_app_or in Hin. destruct Hin as [Hin|Hin]; [apply WitS_mono; apply F; exact Hin|].
        exists s1, [t]. split; [reflexivity|]. split; [exact Htr|]. rewrite <- Ep. apply Hsvv. exact Hin. }
      assert (HJ : forall k i, HcS (s1 ++ [t]) k i -> JQS t tab k i (px p1) (acc ++ sv)).
      { intros k i H.
        assert (Hv : svis (tabof p1 tab) k i) by (rewrite Ep1; eapply HcS_next; [exact H | exact Htr]).
        pose proof (reach_jqs_step eqd hash idx tophash nslots seeds grow_needed shrink_policy nstripes minlen grow_only len0 Hr Hlen
                      _ _ t tab k i acc t _ _ HR Hv (G k i (HcS_mono _ _ _ _ H)) Ex) as HJ'.
        rewrite (allvis_sstep eqd hash idx tophash nslots seeds grow_needed shrink_policy nstripes minlen grow_only _ _ _ _ t Ex) in HJ'.
        destruct (Nat.eq_dec t t) as [_|Hc]; [|congruence]. rewrite Hsv in HJ'. exact HJ'. }
      pose proof (HT1 t) as Ht1. unfold CX_rangeS.TIq in Ht1. rewrite Eth, upd_eq, A in Ht1. cbn [CX_product2.feed] in Ht1.
      destruct (so_res sop sres (sso_of ls)) as [r|] eqn:Er; cbn [fst] in Ht1.
      + destruct Ht1 as [_ [Hid1 Hfr1]].
        eapply (W2_F _ _ _ _ tab (acc ++ sv) (rloop NOW f (reord hint (acc ++ sv)) [])); [| apply (Hrl NOW f _ []) | rewrite Etd; exact B | reflexivity |].
        * rewrite Eth, upd_eq, A. cbn [CX_product2.feed]. rewrite Er, Hsov. reflexivity.
        * split; [|split; [exact HWit|split; [|apply CurS_mono; exact HC]]].
          -- rewrite Hcv. apply (CX_rangeS.reach_once eqd hash idx tophash nslots seeds grow_needed shrink_policy nstripes minlen grow_only len0 Hr Hlen (px p1) (L ++ ls) t).
             eapply CX_rangeS.Reach_step; eassumption.
          -- intros k i H. destruct (HJ k i H) as [Hin|[_ Hj]]; [exact Hin|]. exfalso. rewrite Hfr1 in Hj. unfold XS_range.jfact in Hj.
             destruct Hid1 as [Hc|Hc]; rewrite Hc in Hj; exact Hj.
      + destruct Ht1 as [_ [_ [vf1 [Hrg1 _]]]].
        assert (Hok1 : rgok tab (h_pc (px p1) t)).
        { destruct Hnext as [H|H]; [exact H|]. rewrite H in Hrg1. discriminate Hrg1. }
        eapply (W2_E _ _ _ _ tab (acc ++ sv)); [| rewrite Etd; exact B | reflexivity | exact Hok1 | exact Hcv | exact HWit | exact HJ | apply CurS_mono; exact HC].
        rewrite Eth, upd_eq, A. cbn [CX_product2.feed]. rewrite Er, Hsov. reflexivity.
    - inversion B as [Er|e k Hk Er]; subst pr.
      + destruct (Geqs t p o) as [_ [_ [G3 _]]]. rewrite (G3 _ A) in E. inversion E; subst p1 os h; clear E.
        eapply (W2_G _ _ _ _ tab accF); cbn [p_thr p_todo]; rewrite ?upd_eq; [reflexivity | exact C | | apply FactsS_mono; exact EE].
        rewrite D. cbn [cproj]. rewrite thist_res2. reflexivity.
      + destruct (Geqs t p o) as [_ [_ [_ [_ [G5 _]]]]]. rewrite (G5 _ _ A) in E. inversion E; subst p1 os h; clear E.
        eapply (W2_F _ _ _ _ tab accF k); cbn [p_thr p_todo cproj thist filter]; rewrite ?upd_eq, ?app_nil_r;
          [reflexivity | exact Hk | exact C | exact D | apply FactsS_mono; exact EE].
    - destruct (ptodo p t) as [|o' rest'] eqn:Et.
      + destruct (Geqs t p o) as [_ [G2 _]]. rewrite (G2 A Et) in E. discriminate E.
      + destruct (Geqs t p o') as [G1 _]. rewrite (G1 rest' A Et) in E. inversion E; subst p1 os h; clear E.
        apply W2_Past. cbn [p_todo]. rewrite upd_eq. rewrite <- B. cbn [length]. lia.
    - apply W2_Past. pose proof (todo_len p t p1 os h E). lia.
  Qed.

  Lemma TI_p0 s1 : TI (pafter p0 s1).
  Proof.
    apply (CX_rangeS.TI_run eqd hash idx tophash nslots seeds grow_needed shrink_policy nstripes minlen grow_only progs NOW DFLT CB sup Hsup).
    apply (CX_rangeS.TI_run eqd hash idx tophash nslots seeds grow_needed shrink_policy nstripes minlen grow_only progs NOW DFLT CB sup Hsup).
    apply CX_rangeS.TI_init.
  Qed.

  Lemma Reach_p0 s1 : Reach (px (pafter p0 s1)) (L0 ++ plabs p0 s1).
  Proof. apply CX_rangeS.Reach_run. apply CX_rangeS.Reach_from_init. Qed.

  Theorem W2_all s1 : W2 s1 (pafter p0 s1) (L0 ++ plabs p0 s1) (thist t (cproj (pouts p0 s1))).
  Proof.
    induction s1 as [|u s1 IH] using rev_ind.
    - apply W2_A; [exact H0thr | exact H0todo | reflexivity].
    - pose proof (TI_p0 (s1 ++ [u])) as HT1. revert HT1.
      rewrite CX_rangeS.pouts_snoc, CX_rangeS.plabs_snoc.
      pose proof (CX_rangeS.pafter_snoc eqd hash idx tophash nslots seeds grow_needed shrink_policy nstripes minlen grow_only progs NOW DFLT CB sup p0 s1 u) as Esn.
      destruct (gstep (pafter p0 s1) u) as [[[p1 os] h]|] eqn:E.
      + rewrite Esn. intros HT1. rewrite cproj_app, thist_app, app_assoc.
        destruct (Nat.eq_dec t u) as [<-|Hn].
        * eapply W2_own; [exact IH | reflexivity | symmetry; exact Esn | apply Reach_p0 | apply TI_p0 | exact HT1 | exact E].
        * eapply W2_other; [exact IH | reflexivity | symmetry; exact Esn | apply Reach_p0 | exact E | exact Hn].
      + rewrite Esn. intros _. rewrite !app_nil_r. apply W2_none. exact IH.
  Qed.

  (* ---------------- the theorems ---------------- *)

  Theorem cacheS_range_window2 sched :
    pthr (pafter p0 sched) t = QIdle -> ptodo (pafter p0 sched) t = rest ->
    exists tab accF, thist t (cproj (pouts p0 sched)) = [HInv t o; HRes t (CList (visits NOW f (reord hint accF)))]
                     /\ FactsS sched tab accF.
  Proof.
    intros Hq Htd.
    destruct (W2_all sched) as [A B C|B A C|tab acc A B C D EE F G HC|tab accF pr A B C D EE|tab accF A B C D|A].
    - rewrite Htd in B. exfalso. assert (Hl : length rest = length (o :: rest)) by (rewrite <- B; reflexivity). cbn [length] in Hl. lia.
    - rewrite Hq in B. unfold prephase2 in B. exfalso. destruct B as [B|[B|B]]; discriminate B.
    - rewrite Hq in A. discriminate A.
    - rewrite Hq in A. discriminate A.
    - exists tab, accF. auto.
    - rewrite Htd in A. lia.
  Qed.

  Section ReadingsS.
    Variable sched : list nat.
    Hypothesis Hq : pthr (pafter p0 sched) t = QIdle.
    Hypothesis Htd : ptodo (pafter p0 sched) t = rest.
    Variable l : list (K * V).
    Hypothesis Hl : In (HRes t (CList l)) (thist t (cproj (pouts p0 sched))).

    Lemma the_resultS : exists tab accF, l = visits NOW f (reord hint accF) /\ FactsS sched tab accF.
    Proof.
      destruct (cacheS_range_window2 sched Hq Htd) as [tab [accF [Eh HF]]]. exists tab, accF.
      rewrite Eh in Hl. destruct Hl as [Hc0|[Hc0|[]]]; [discriminate Hc0|]. inversion Hc0; subst l. auto.
    Qed.

    (* (a) *)
    Theorem rS_once : NoDup (map fst l).
    Proof.
      destruct the_resultS as [tab [accF [-> [Hnd _]]]]. apply visits_nodup.
      eapply Permutation_NoDup; [apply Permutation_map; apply Hperm | exact Hnd].
    Qed.

    (* (b): ONE table tab, current at a configuration of the window; every pair of l was visible in it at a
       configuration of the window at which the traversal was under way *)
    Theorem rS_no_phantom_tab :
      exists tab, (exists a0 b0, sched = a0 ++ b0 /\ h_cur (px (pafter p0 a0)) = tab)
        /\ forall k v, In (k, v) l ->
             exists a b i, sched = a ++ b /\ traversingS (pafter p0 a) tab /\ svis (tabof (pafter p0 a) tab) k i
                           /\ iv i = v /\ expiredWithNow NOW i = false.
    Proof.
      destruct the_resultS as [tab [accF [-> [_ [HW [_ HC]]]]]]. exists tab. split; [exact HC|].
      intros k v Hin. apply visits_sound in Hin. destruct Hin as [i [Hin [He Hv]]].
      apply (Permutation_in _ (Permutation_sym (Hperm hint accF))) in Hin.
      destruct (HW k i Hin) as [a [b [E1 [E2 E3]]]]. exists a, b, i. auto.
    Qed.

    Theorem rS_no_phantom k v : In (k, v) l ->
      exists a b tab i, sched = a ++ b /\ traversingS (pafter p0 a) tab /\ svis (tabof (pafter p0 a) tab) k i
                        /\ iv i = v /\ expiredWithNow NOW i = false.
    Proof.
      intros Hin. destruct rS_no_phantom_tab as [tab [_ H]]. destruct (H k v Hin) as [a [b [i H1]]]. exists a, b, tab, i. exact H1.
    Qed.

    (* (c): visible in the walked table at every configuration of the window at which the traversal is under way
       or was under way one move earlier *)
    Theorem rS_complete k i :
      expiredWithNow NOW i = false ->
      (forall a b tab, sched = a ++ b -> nearS a tab -> svis (tabof (pafter p0 a) tab) k i) ->
      (forall k' v', In (k', v') l -> f k' v' = true) ->
      In (k, iv i) l.
    Proof.
      destruct the_resultS as [tab0 [accF [-> [_ [_ [HC _]]]]]]. intros He Hv Hf.
      assert (Hin : In (k, i) accF) by (apply HC; exact Hv).
      apply (Permutation_in _ (Hperm hint accF)) in Hin.
      destruct (visits_end NOW f (reord hint accF)) as [[pre [k' [v' [E Hfv]]]]|[_ H]].
      - exfalso. rewrite (Hf k' v') in Hfv; [discriminate Hfv|]. rewrite E. apply in_or_app. right. left. reflexivity.
      - apply H; assumption.
    Qed.
  End ReadingsS.

End WindowS2.

(* ---------------- the two cache texts over XMachineS: (b), (c) ---------------- *)
Section StatementsS2.
  Context {K V : Type}.
  Variable eqd : forall a b : K, {a = b} + {a <> b}.
  Variable hash : K -> N -> N.
  Variable idx : N -> nat -> nat.
  Variable tophash : N -> N.
  Variable nslots : nat.
  Variable seeds : nat -> N.
  Variable grow_needed shrink_policy : nat -> Z -> bool.
  Variable nstripes : nat -> nat.
  Variable minlen : nat.
  Variable grow_only : bool.
  Variable len0 : nat.
  Variable zero : V.
  Notation item := (item V).
  Notation cop := (cop K V).
  Notation cres := (cres K V).
  Notation mstate := (@mstate K item).
  Notation pconf := (@CX_product2.pconf K V mstate).
  Notation px := (@p_x K V mstate).
  Notation svis := (@XS_vis.svis K item hash idx tophash nslots).
  Notation tabof := (@tabof K V nslots nstripes).

  Hypothesis Hr : rdhyps hash idx tophash nslots minlen.
  Hypothesis Hlen : 0 < len0.
  Variable sup : cmop K V -> bool.
  Hypothesis Hsup : sup CSize = false.
  Variables NOW DFLT : Z.
  Variable CB : cbid.
  Variable todo0 : nat -> list cop.
  Variables sched0 sched : list nat.
  Variable t : nat.
  Variable f : K -> V -> bool.
  Variable hint : list K.
  Variable rest : list cop.

  (* the configuration after the moves sched0 ++ a *)
  Definition conf_atS (progs : cop -> prog K V cres) (a : list nat) : pconf :=
    CX_rangeS.pafter eqd hash idx tophash nslots seeds grow_needed shrink_policy nstripes minlen grow_only progs NOW DFLT CB sup
      (CX_rangeS.pafter eqd hash idx tophash nslots seeds grow_needed shrink_policy nstripes minlen grow_only progs NOW DFLT CB sup (CX_rangeS.ginit nslots seeds nstripes len0 todo0) sched0) a.

  (* thread t's call Range f hint over the window sched, with result l (cf. range_call of CX_range3.v) *)
  Definition range_callS (progs : cop -> prog K V cres) (l : list (K * V)) : Prop :=
    call_windowS eqd hash idx tophash nslots seeds grow_needed shrink_policy nstripes minlen grow_only len0 progs sup NOW DFLT CB todo0 sched0 sched t (ORange (Some f) hint) rest
    /\ In (HRes t (CList l)) (window_histS eqd hash idx tophash nslots seeds grow_needed shrink_policy nstripes minlen grow_only len0 progs sup NOW DFLT CB todo0 sched0 sched t).

  (* the traversal of thread t is under way on table tab (it stands in lockBucket / unlockBucket of the Range), and
     (k, i) is visible in that table *)
  Definition seen_atS (p : pconf) (tab : nat) (k : K) (i : item) : Prop :=
    traversingS t p tab /\ svis (tabof p tab) k i.

  (* the traversal is under way at the configuration after sched0 ++ a, or was one move earlier *)
  Definition under_wayS (progs : cop -> prog K V cres) (a : list nat) (tab : nat) : Prop :=
    traversingS t (conf_atS progs a) tab \/ exists a' u, a = a' ++ [u] /\ traversingS t (conf_atS progs a') tab.

  Notation pc := (prog_cache eqd zero).
  Notation pco := (prog_cacheof eqd zero).

  (* ---------------- xsync_map.go ---------------- *)

  (* (b) *)
  Theorem cacheS_range_no_phantom l k v : range_callS pc l -> In (k, v) l ->
    exists a b tab i, sched = a ++ b /\ seen_atS (conf_atS pc a) tab k i /\ iv i = v /\ expiredWithNow NOW i = false.
  Proof.
    intros [[H1 [H2 [H3 H4]]] H5] Hin.
    destruct (rS_no_phantom eqd hash idx tophash nslots seeds grow_needed shrink_policy nstripes minlen grow_only len0 pc NOW DFLT CB sup Hr Hlen Hsup (@CacheModel.range_loop K V) (CacheModel.reorder eqd) (fun now f0 l vs => CX_range3.rl_range_loop now f0 l vs) (fun h l => reorder_perm eqd h l) (fun _ _ => eq_refl) todo0 sched0 t f hint rest H1 H2 sched H3 H4 l H5 k v Hin) as [a [b [tab [i [E1 [E2 [E3 [E4 E5]]]]]]]].
    exists a, b, tab, i. unfold seen_atS, conf_atS. auto.
  Qed.

  (* (b), sharper: one table for all the pairs, current at a configuration of the window *)
  Theorem cacheS_range_no_phantom_tab l : range_callS pc l ->
    exists tab, (exists a0 b0, sched = a0 ++ b0 /\ h_cur (px (conf_atS pc a0)) = tab)
      /\ forall k v, In (k, v) l ->
           exists a b i, sched = a ++ b /\ seen_atS (conf_atS pc a) tab k i /\ iv i = v /\ expiredWithNow NOW i = false.
  Proof.
    intros [[H1 [H2 [H3 H4]]] H5].
    destruct (rS_no_phantom_tab eqd hash idx tophash nslots seeds grow_needed shrink_policy nstripes minlen grow_only len0 pc NOW DFLT CB sup Hr Hlen Hsup (@CacheModel.range_loop K V) (CacheModel.reorder eqd) (fun now f0 l vs => CX_range3.rl_range_loop now f0 l vs) (fun h l => reorder_perm eqd h l) (fun _ _ => eq_refl) todo0 sched0 t f hint rest H1 H2 sched H3 H4 l H5) as [tab [HC H]].
    exists tab. split; [exact HC|]. intros k v Hin. destruct (H k v Hin) as [a [b [i [E1 [E2 [E3 [E4 E5]]]]]]].
    exists a, b, i. unfold seen_atS, conf_atS. auto.
  Qed.

  (* (c) *)
  Theorem cacheS_range_complete l k i : range_callS pc l ->
    expiredWithNow NOW i = false ->
    (forall a b tab, sched = a ++ b -> under_wayS pc a tab -> svis (tabof (conf_atS pc a) tab) k i) ->
    (forall k' v', In (k', v') l -> f k' v' = true) ->
    In (k, iv i) l.
  Proof.
    intros [[H1 [H2 [H3 H4]]] H5] He Hv Hf.
    exact (rS_complete eqd hash idx tophash nslots seeds grow_needed shrink_policy nstripes minlen grow_only len0 pc NOW DFLT CB sup Hr Hlen Hsup (@CacheModel.range_loop K V) (CacheModel.reorder eqd) (fun now f0 l vs => CX_range3.rl_range_loop now f0 l vs) (fun h l => reorder_perm eqd h l) (fun _ _ => eq_refl) todo0 sched0 t f hint rest H1 H2 sched H3 H4 l H5 k i He Hv Hf).
  Qed.

  (* ---------------- xsync_mapof.go ---------------- *)

  (* (b) *)
  Theorem cacheofS_range_no_phantom l k v : range_callS pco l -> In (k, v) l ->
    exists a b tab i, sched = a ++ b /\ seen_atS (conf_atS pco a) tab k i /\ iv i = v /\ expiredWithNow NOW i = false.
  Proof.
    intros [[H1 [H2 [H3 H4]]] H5] Hin.
    destruct (rS_no_phantom eqd hash idx tophash nslots seeds grow_needed shrink_policy nstripes minlen grow_only len0 pco NOW DFLT CB sup Hr Hlen Hsup (@CacheOfModel.range_loop K V) (CacheOfModel.reorder eqd) (fun now f0 l vs => CX_range3.rl_range_loop_of now f0 l vs) (fun h l => CX_range3.reorder_perm_of eqd h l) (fun _ _ => eq_refl) todo0 sched0 t f hint rest H1 H2 sched H3 H4 l H5 k v Hin) as [a [b [tab [i [E1 [E2 [E3 [E4 E5]]]]]]]].
    exists a, b, tab, i. unfold seen_atS, conf_atS. auto.
  Qed.

  (* (b), sharper: one table for all the pairs, current at a configuration of the window *)
  Theorem cacheofS_range_no_phantom_tab l : range_callS pco l ->
    exists tab, (exists a0 b0, sched = a0 ++ b0 /\ h_cur (px (conf_atS pco a0)) = tab)
      /\ forall k v, In (k, v) l ->
           exists a b i, sched = a ++ b /\ seen_atS (conf_atS pco a) tab k i /\ iv i = v /\ expiredWithNow NOW i = false.
  Proof.
    intros [[H1 [H2 [H3 H4]]] H5].
    destruct (rS_no_phantom_tab eqd hash idx tophash nslots seeds grow_needed shrink_policy nstripes minlen grow_only len0 pco NOW DFLT CB sup Hr Hlen Hsup (@CacheOfModel.range_loop K V) (CacheOfModel.reorder eqd) (fun now f0 l vs => CX_range3.rl_range_loop_of now f0 l vs) (fun h l => CX_range3.reorder_perm_of eqd h l) (fun _ _ => eq_refl) todo0 sched0 t f hint rest H1 H2 sched H3 H4 l H5) as [tab [HC H]].
    exists tab. split; [exact HC|]. intros k v Hin. destruct (H k v Hin) as [a [b [i [E1 [E2 [E3 [E4 E5]]]]]]].
    exists a, b, i. unfold seen_atS, conf_atS. auto.
  Qed.

  (* (c) *)
  Theorem cacheofS_range_complete l k i : range_callS pco l ->
    expiredWithNow NOW i = false ->
    (forall a b tab, sched = a ++ b -> under_wayS pco a tab -> svis (tabof (conf_atS pco a) tab) k i) ->
    (forall k' v', In (k', v') l -> f k' v' = true) ->
    In (k, iv i) l.
  Proof.
    intros [[H1 [H2 [H3 H4]]] H5] He Hv Hf.
    exact (rS_complete eqd hash idx tophash nslots seeds grow_needed shrink_policy nstripes minlen grow_only len0 pco NOW DFLT CB sup Hr Hlen Hsup (@CacheOfModel.range_loop K V) (CacheOfModel.reorder eqd) (fun now f0 l vs => CX_range3.rl_range_loop_of now f0 l vs) (fun h l => CX_range3.reorder_perm_of eqd h l) (fun _ _ => eq_refl) todo0 sched0 t f hint rest H1 H2 sched H3 H4 l H5 k i He Hv Hf).
  Qed.

End StatementsS2.

Print Assumptions cacheS_range_no_phantom.
Print Assumptions cacheS_range_no_phantom_tab.
Print Assumptions cacheS_range_complete.
Print Assumptions cacheofS_range_no_phantom.
Print Assumptions cacheofS_range_no_phantom_tab.
Print Assumptions cacheofS_range_complete.
