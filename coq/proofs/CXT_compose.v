(* CXT_compose.v -- Stage B with a ticking clock: CX_compose.v's composition theorem
   for ConcT.v's machine.

   A TIMED COMBINED TRACE is what threads running the cache programs do when a map
   call is an invocation followed later by a response (the map's answers being
   anything at this level), interleaved arbitrarily with each other and with TICKS
   of the clock.  The map does not know the clock: a map-level call is a pair
   (mo, ci) of the call and the clock its closure was given, and its sequential
   semantics [cmspecE] is one [map_step] of [to_mop (env0 ci DFLT) mo] -- untimed.

   THE ASSUMPTION ([stampb] and [quiet]).  In ConcT.v's atomic machine a closure
   sees the clock of the instant of its (atomic) map call.  Over a concurrent map
   the closure of a Compute is handed to the map when the call is invoked and the
   map runs it at some step of the call; the composition places the atomic call at
   the call's linearization mark, somewhere between invocation and response.  For the
   two to agree the clock must not move while a Compute call (a call with a closure)
   is in flight:
     - a Compute is invoked with the current clock (ci = now; other calls carry a ci
       that nobody reads);
     - a tick is a move only when no thread waits for the answer of a Compute
       ([quiet]).
   Ticks inside Load / Store / LoadAndDelete / Delete / Clear calls, and between any
   two steps of the cache methods, are unrestricted.  Without the assumption the
   statement is FALSE for a product machine that fixes the closure's clock at the
   invocation (proofs/CXT_mapof.v, [closure_clock_refuted]).

     [compose_traceT]  if the map-level projection of a timed combined trace is
                linearizable w.r.t. [cmspecE], then ConcT.v's machine has a run with the
                same cache-level history, ticks included, in order. *)
From CacheV Require Import Base SpecMap Client CacheModel Ops SpecTTL Lin LinT Conc ConcT.
From CacheV.proofs Require Import C01_sim C02_good C02_lin CX_trans CX_compose LinT_facts C02T_good C02T_lin.
Local Open Scope Z_scope.

Section ComposeT.
  Context {K V : Type}.
  Variable eqd : forall a b : K, {a = b} + {a <> b}.
  Variable progs : cop K V -> prog K V (cres K V).
  Variable DFLT : Z.
  Variable CB : cbid.

  Notation item := (item V).
  Notation cop := (cop K V).
  Notation cres := (cres K V).
  Notation cmop := (cmop K V).
  Notation imres := (imres K V).
  Notation prog := (prog K V cres).
  Notation cconf := (@cconf K V).
  Notation label := (@label K V).
  Notation tstate := (@tstate K V).
  Notation tconf := (@tconf K V).
  Notation env0 now := (Conc.env0 now DFLT).
  Notation trun := (trun eqd progs DFLT CB).
  Notation tstep := (tstep eqd progs DFLT CB).

  (* a map-level call: the call and the clock its closure (if any) is given *)
  Definition emop := (cmop * Z)%type.

  Definition is_compute (mo : cmop) : bool := match mo with CCompute _ _ => true | _ => false end.

  Definition cmspecE (m : amap K item) (o : emop) (r : imres) (m' : amap K item) : Prop :=
    @cmspec K V eqd (env0 (snd o)) m (fst o) r m'.

  Notation mstat := (tstat emop imres).

  (* ---------------- timed combined traces ---------------- *)

  Inductive vstT :=
  | VIdleT
  | VRunT (o : cop) (p : prog)
  | VWaitT (o : cop) (mo : cmop) (ci : Z) (k : imres -> prog).

  Record vconfT := { vt_thr : nat -> vstT; vt_todo : nat -> list cop }.

  Inductive actT :=
  | AInvT (t : nat)
  | ARetT (t : nat)
  | AMInvT (t : nat) (ci : Z)                    (* the pending MapCall is invoked on the map, its closure given the clock ci *)
  | AMResT (t : nat) (r : imres)
  | ASnapT (t : nat) (l : list (K * item))
  | ATauT (t : nat).

  Inductive outT :=
  | OCT (e : hev cop cres)
  | OMT (e : hev emop imres)
  | OTickT (dt : Z).

  Definition vsetT (c : vconfT) (t : nat) (x : vstT) : vconfT :=
    {| vt_thr := upd (vt_thr c) t x; vt_todo := vt_todo c |}.

  (* a Compute is invoked with the current clock *)
  Definition stampb (mo : cmop) (ci now : Z) : bool := if is_compute mo then ci =? now else true.

  Definition vstepT (now : Z) (c : vconfT) (a : actT) : option (vconfT * list outT) :=
    match a with
    | AInvT t =>
        match vt_thr c t, vt_todo c t with
        | VIdleT, o :: rest =>
            Some ({| vt_thr := upd (vt_thr c) t (VRunT o (progs o)); vt_todo := upd (vt_todo c) t rest |}, [OCT (HInv t o)])
        | _, _ => None
        end
    | ARetT t =>
        match vt_thr c t with
        | VRunT o (Ret r) => Some (vsetT c t VIdleT, [OCT (HRes t r)])
        | _ => None
        end
    | AMInvT t ci =>
        match vt_thr c t with
        | VRunT o (MapCall mo k) =>
            match mo with
            | CSnapshot => None
            | _ => if stampb mo ci now then Some (vsetT c t (VWaitT o mo ci k), [OMT (HInv t (mo, ci))]) else None
            end
        | _ => None
        end
    | AMResT t r =>
        match vt_thr c t with
        | VWaitT o mo ci k => Some (vsetT c t (VRunT o (k r)), [OMT (HRes t r)])
        | _ => None
        end
    | ASnapT t l =>
        match vt_thr c t with
        | VRunT o (MapCall CSnapshot k) => Some (vsetT c t (VRunT o (k (RSnap l))), [])
        | _ => None
        end
    | ATauT t =>
        match vt_thr c t with
        | VRunT o (ReadNow k) => Some (vsetT c t (VRunT o (k now)), [])
        | VRunT o (ReadDflt k) => Some (vsetT c t (VRunT o (k DFLT)), [])
        | VRunT o (ReadCb k) => Some (vsetT c t (VRunT o (k CB)), [])
        | VRunT o (Emit _ k) => Some (vsetT c t (VRunT o k), [])
        | _ => None
        end
    end.

  Definition vinitT (todo : nat -> list cop) : vconfT := {| vt_thr := fun _ => VIdleT; vt_todo := todo |}.

  (* nobody waits for the answer of a Compute *)
  Definition quiet (c : vconfT) : Prop :=
    forall t o mo ci k, vt_thr c t = VWaitT o mo ci k -> is_compute mo = false.

  Definition veqT (c c' : vconfT) : Prop :=
    (forall t, vt_thr c t = vt_thr c' t) /\ (forall t, vt_todo c t = vt_todo c' t).

  (* the traces, the clock standing at [now] at their beginning *)
  Inductive vtraceT : Z -> vconfT -> list outT -> Prop :=
  | vtT_nil now c : vtraceT now c []
  | vtT_step now c a c1 os c1' outs :
      vstepT now c a = Some (c1, os) -> veqT c1 c1' -> vtraceT now c1' outs -> vtraceT now c (os ++ outs)
  | vtT_tick now c dt outs :
      0 <= dt -> quiet c -> vtraceT (now + dt) c outs -> vtraceT now c (OTickT dt :: outs).

  Fixpoint cprojT (os : list outT) : list (hevT cop cres) :=
    match os with
    | [] => []
    | OCT (HInv t o) :: r => HTInv t o :: cprojT r
    | OCT (HRes t x) :: r => HTRes t x :: cprojT r
    | OMT _ :: r => cprojT r
    | OTickT dt :: r => HTTick dt :: cprojT r
    end.

  Fixpoint mprojT (os : list outT) : list (hev emop imres) :=
    match os with
    | [] => []
    | OMT e :: r => e :: mprojT r
    | _ :: r => mprojT r
    end.

  Lemma cprojT_app a b : cprojT (a ++ b) = cprojT a ++ cprojT b.
  Proof. induction a as [|[[]| |] a IH]; cbn; try rewrite IH; reflexivity. Qed.

  Lemma mprojT_app a b : mprojT (a ++ b) = mprojT a ++ mprojT b.
  Proof. induction a as [|[] a IH]; cbn; try rewrite IH; reflexivity. Qed.

  (* ---------------- runs of the atomic machine ---------------- *)

  Definition treach (now : Z) (s : cconf) (ls : list (@tlabel K V)) (now' : Z) (s' : cconf) : Prop :=
    exists sched, trun {| t_conf := s; t_now := now |} sched = ({| t_conf := s'; t_now := now' |}, ls).

  Lemma trun_app a : forall s b,
    trun s (a ++ b) = let '(s1, l1) := trun s a in let '(s2, l2) := trun s1 b in (s2, l1 ++ l2).
  Proof.
    induction a as [|mv r IH]; intros s b; cbn [ConcT.trun app].
    - destruct (trun s b); reflexivity.
    - destruct (tstep s mv) as [[s1 l1]|]; [|apply IH].
      rewrite IH. destruct (trun s1 r) as [s2 l2]. destruct (trun s2 b) as [s3 l3]. rewrite app_assoc. reflexivity.
  Qed.

  Lemma treach_refl now s : treach now s [] now s.
  Proof. exists []. reflexivity. Qed.

  Lemma treach_trans now s l1 now1 s1 l2 now2 s2 :
    treach now s l1 now1 s1 -> treach now1 s1 l2 now2 s2 -> treach now s (l1 ++ l2) now2 s2.
  Proof. intros [a Ha] [b Hb]. exists (a ++ b). rewrite trun_app, Ha, Hb. reflexivity. Qed.

  Lemma treach_step now s t orc s1 l1 :
    cstep eqd progs now DFLT CB s t orc = Some (s1, l1) -> treach now s (map TL l1) now s1.
  Proof.
    intros E. exists [MThr t orc]. cbn [ConcT.trun ConcT.tstep t_conf t_now]. rewrite E. rewrite app_nil_r. reflexivity.
  Qed.

  Lemma treach_tick now s dt : 0 <= dt -> treach now s [LTick dt] (now + dt) s.
  Proof.
    intros H. exists [MTick dt]. cbn [ConcT.trun ConcT.tstep t_conf t_now].
    apply Z.leb_le in H. rewrite H. reflexivity.
  Qed.

  Lemma historyT_mapstep t (evs : list (event K V)) (g : list (K * V)) :
    historyT (map TL (map (LEv t) evs ++ map (fun kv => LGone t (fst kv) (snd kv)) g ++ [LTau t])) = [].
  Proof. rewrite historyT_TL, (history_mapstep t evs g). reflexivity. Qed.

  (* the clock of the call matters to a Compute only *)
  Lemma to_mop_clock (mo : cmop) ci now : (is_compute mo = true -> ci = now) ->
    to_mop (env0 ci) mo = to_mop (env0 now) mo.
  Proof. destruct mo; cbn; intros H; try reflexivity. rewrite (H eq_refl). reflexivity. Qed.

  (* ---------------- the simulation relation ---------------- *)

  Definition TRT (now : Z) (v : vstT) (st : mstat) (ts : tstate) : Prop :=
    match v, st with
    | VIdleT, TIdle => ts = Idle
    | VRunT o p, TIdle => ts = Running o p
    | VWaitT o mo ci k, TInvoked mo' =>
        mo' = (mo, ci) /\ ts = Running o (MapCall mo k) /\ (is_compute mo = true -> ci = now)
    | VWaitT o mo ci k, TLinearized mo' r => mo' = (mo, ci) /\ ts = Running o (k r)
    | _, _ => False
    end.

  Record RELT (now : Z) (st : nat -> mstat) (c : vconfT) (s : cconf) : Prop := {
    rt_todo : forall t, c_todo s t = vt_todo c t;
    rt_thr : forall t, TRT now (vt_thr c t) (st t) (c_thr s t);
  }.

  Lemma RELT_tick now dt st c s : quiet c -> RELT now st c s -> RELT (now + dt) st c s.
  Proof.
    intros Hq [A B]. constructor; [exact A|]. intros t. specialize (B t). unfold TRT in *.
    destruct (vt_thr c t) as [|o p|o mo ci k] eqn:Ev; try exact B.
    destruct (st t); try exact B. destruct B as [E1 [E2 _]]. split; [exact E1|]. split; [exact E2|].
    intros Hc. rewrite (Hq t o mo ci k Ev) in Hc. discriminate Hc.
  Qed.

  Lemma RELT_veq now st c c' s : veqT c c' -> RELT now st c s -> RELT now st c' s.
  Proof.
    intros [A B] [C D]. constructor.
    - intros t. rewrite <- B. apply C.
    - intros t. rewrite <- A. apply D.
  Qed.

  (* the marks that precede the next event of the map-level history: the atomic machine
     executes those map calls now *)
  Lemma lin_prefixT now : forall (i : list (iev emop imres)) st c s e h,
    wf_inst emop imres st i -> legal emop imres _ cmspecE (c_map s) i -> erase emop imres i = e :: h -> RELT now st c s ->
    exists st' s' ie i' ls,
      treach now s ls now s' /\ historyT ls = [] /\ RELT now st' c s'
      /\ wf_inst emop imres st' (ie :: i') /\ legal emop imres _ cmspecE (c_map s') (ie :: i')
      /\ erase emop imres [ie] = [e] /\ erase emop imres i' = h.
  Proof.
    induction i as [|x i IH]; intros st c s e h Hw Hl He HR; [discriminate He|].
    destruct x as [t o|u o r|t r].
    - exists st, s, (IInv t o), i, []. cbn in He. inversion He; subst.
      split; [apply treach_refl|]. split; [reflexivity|]. split; [exact HR|]. split; [exact Hw|]. split; [exact Hl|]. split; reflexivity.
    - apply wf_lin_i in Hw. destruct Hw as [Hst Hw]. apply legal_lin_i in Hl. destruct Hl as [m1 [[Hns Hms] Hl]].
      pose proof (rt_thr now st c s HR u) as Hu. rewrite Hst in Hu.
      destruct (vt_thr c u) as [|o' p|o' mo ci k] eqn:Ev; cbn [TRT] in Hu; try contradiction.
      destruct Hu as [Eo [Ets Hci]]. subst o. cbn [fst snd] in Hns, Hms.
      rewrite (to_mop_clock mo ci now Hci) in Hms.
      pose proof (cstep_mapcall eqd progs now DFLT CB s u [] o' mo k m1 r Ets Hns Hms) as Hstep.
      set (s1 := {| c_map := m1; c_thr := upd (c_thr s) u (Running o' (k r)); c_todo := c_todo s |}) in *.
      assert (HR1 : RELT now (upd st u (TLinearized (mo, ci) r)) c s1).
      { constructor.
        - intros t. apply (rt_todo now st c s HR).
        - intros t. unfold s1; cbn [c_thr]. unfold upd. destruct (Nat.eq_dec t u) as [->|Hn].
          + rewrite Ev. cbn. auto.
          + apply (rt_thr now st c s HR). }
      cbn [erase] in He.
      destruct (IH (upd st u (TLinearized (mo, ci) r)) c s1 e h Hw Hl He HR1) as [st' [s' [ie [i' [ls [A [B [C D]]]]]]]].
      match type of Hstep with _ = Some (_, ?l) => set (l1 := l) in * end.
      exists st', s', ie, i', (map TL l1 ++ ls). split; [|split; [|split; [exact C | exact D]]].
      + eapply treach_trans; [eapply treach_step; exact Hstep | exact A].
      + rewrite historyT_app. unfold l1. rewrite historyT_mapstep, B. reflexivity.
    - exists st, s, (IRes t r), i, []. cbn in He. inversion He; subst.
      split; [apply treach_refl|]. split; [reflexivity|]. split; [exact HR|]. split; [exact Hw|]. split; [exact Hl|]. split; reflexivity.
  Qed.

  (* a step of the atomic machine that is not a map call: one for one *)
  Lemma silent_stepT now st c s t o p p' l :
    RELT now st c s -> vt_thr c t = VRunT o p ->
    (forall s0 : cconf, c_thr s0 t = Running o p ->
        cstep eqd progs now DFLT CB s0 t l = Some (set_thr s0 t (Running o p'), [LTau t])
        \/ exists e, cstep eqd progs now DFLT CB s0 t l = Some (set_thr s0 t (Running o p'), [LEv t e])) ->
    exists s1 ls, treach now s ls now s1 /\ historyT ls = [] /\ c_map s1 = c_map s /\ RELT now st (vsetT c t (VRunT o p')) s1.
  Proof.
    intros HR Ev Hc.
    pose proof (rt_thr now st c s HR t) as Ht. rewrite Ev in Ht. cbn [TRT] in Ht.
    destruct (st t) eqn:Est; try contradiction.
    exists (set_thr s t (Running o p')).
    assert (HR' : RELT now st (vsetT c t (VRunT o p')) (set_thr s t (Running o p'))).
    { constructor; cbn.
      - apply (rt_todo now st c s HR).
      - intros t'. unfold upd. destruct (Nat.eq_dec t' t) as [->|]; [rewrite Est; reflexivity | apply (rt_thr now st c s HR)]. }
    destruct (Hc s Ht) as [E|[e E]].
    - exists (map TL [LTau t]). split; [eapply treach_step; exact E|]. split; [reflexivity|]. split; [reflexivity | exact HR'].
    - exists (map TL [LEv t e]). split; [eapply treach_step; exact E|]. split; [reflexivity|]. split; [reflexivity | exact HR'].
  Qed.

  (* one move of the combined trace, mirrored by the atomic machine *)
  Lemma step_simT now c a c1 os (i : list (iev emop imres)) st s h :
    vstepT now c a = Some (c1, os) ->
    wf_inst emop imres st i -> legal emop imres _ cmspecE (c_map s) i ->
    erase emop imres i = mprojT os ++ h -> RELT now st c s ->
    exists st' i' s1 ls1,
      treach now s ls1 now s1 /\ historyT ls1 = cprojT os /\ RELT now st' c1 s1
      /\ wf_inst emop imres st' i' /\ legal emop imres _ cmspecE (c_map s1) i' /\ erase emop imres i' = h.
  Proof.
    intros Ev Hw Hl He HR.
    destruct a as [t|t|t ci|t r|t l|t]; cbn [vstepT] in Ev.
    - (* invoke a cache method *)
      destruct (vt_thr c t) eqn:Et; try discriminate Ev.
      destruct (vt_todo c t) as [|o rest] eqn:Etd; try discriminate Ev.
      inversion Ev; subst c1 os; clear Ev. cbn [mprojT cprojT app] in He |- *.
      pose proof (rt_thr now st c s HR t) as Ht. rewrite Et in Ht. cbn [TRT] in Ht.
      destruct (st t) eqn:Est; try contradiction.
      set (s1 := {| c_map := c_map s; c_thr := upd (c_thr s) t (Running o (progs o)); c_todo := upd (c_todo s) t rest |}).
      assert (Hstep : cstep eqd progs now DFLT CB s t [] = Some (s1, [LInv t o])).
      { unfold Conc.cstep. rewrite Ht. rewrite (rt_todo now st c s HR t), Etd. reflexivity. }
      exists st, i, s1, (map TL [LInv t o]). split; [eapply treach_step; exact Hstep|]. split; [reflexivity|].
      split; [|split; [exact Hw | split; [exact Hl | exact He]]].
      constructor; cbn.
      + intros t'. unfold upd. destruct (Nat.eq_dec t' t); [reflexivity | apply (rt_todo now st c s HR)].
      + intros t'. unfold upd. destruct (Nat.eq_dec t' t) as [->|]; [rewrite Est; reflexivity | apply (rt_thr now st c s HR)].
    - (* return *)
      destruct (vt_thr c t) as [|o p|] eqn:Et; try discriminate Ev.
      destruct p; try discriminate Ev.
      inversion Ev; subst c1 os; clear Ev. cbn [mprojT cprojT app] in He |- *.
      pose proof (rt_thr now st c s HR t) as Ht. rewrite Et in Ht. cbn [TRT] in Ht.
      destruct (st t) eqn:Est; try contradiction.
      assert (Hstep : cstep eqd progs now DFLT CB s t [] = Some (set_thr s t Idle, [LRes t r])).
      { unfold Conc.cstep. rewrite Ht. reflexivity. }
      exists st, i, (set_thr s t Idle), (map TL [LRes t r]). split; [eapply treach_step; exact Hstep|]. split; [reflexivity|].
      split; [|split; [exact Hw | split; [exact Hl | exact He]]].
      constructor; cbn.
      + apply (rt_todo now st c s HR).
      + intros t'. unfold upd. destruct (Nat.eq_dec t' t) as [->|]; [rewrite Est; reflexivity | apply (rt_thr now st c s HR)].
    - (* map-level invocation *)
      destruct (vt_thr c t) as [|o p|] eqn:Et; try discriminate Ev.
      destruct p as [|mo k| | | | | |]; try discriminate Ev.
      assert (Hns : mo <> CSnapshot) by (intros ->; discriminate Ev).
      assert (Ev' : stampb mo ci now = true /\ c1 = vsetT c t (VWaitT o mo ci k) /\ os = [OMT (HInv t (mo, ci))]).
      { destruct mo; try (exfalso; apply Hns; reflexivity);
          (destruct (stampb _ ci now) eqn:Es; [|discriminate Ev]); inversion Ev; auto. }
      destruct Ev' as [Hsb [-> ->]]. clear Ev. cbn [mprojT cprojT app] in He |- *.
      destruct (lin_prefixT now i st c s _ _ Hw Hl He HR) as [st' [s' [ie [i' [ls0 [A [B [C [D [E [F G]]]]]]]]]]].
      destruct ie as [t' o'|t' o' r'|t' r']; cbn in F; try discriminate F. inversion F; subst t' o'. clear F.
      apply wf_inv_i in D. destruct D as [Hst D]. apply legal_inv_i in E.
      pose proof (rt_thr now st' c s' C t) as Ht. rewrite Et, Hst in Ht. cbn [TRT] in Ht.
      exists (upd st' t (TInvoked (mo, ci))), i', s', ls0. split; [exact A|]. split; [exact B|].
      split; [|split; [exact D | split; [exact E | exact G]]].
      constructor; cbn.
      + apply (rt_todo now st' c s' C).
      + intros t'. unfold upd. destruct (Nat.eq_dec t' t) as [->|]; [|apply (rt_thr now st' c s' C)].
        cbn. split; [reflexivity|]. split; [exact Ht|]. intros Hc. unfold stampb in Hsb. rewrite Hc in Hsb.
        apply Z.eqb_eq. exact Hsb.
    - (* map-level response *)
      destruct (vt_thr c t) as [| |o mo ci k] eqn:Et; try discriminate Ev.
      inversion Ev; subst c1 os; clear Ev. cbn [mprojT cprojT app] in He |- *.
      destruct (lin_prefixT now i st c s _ _ Hw Hl He HR) as [st' [s' [ie [i' [ls0 [A [B [C [D [E [F G]]]]]]]]]]].
      destruct ie as [t' o'|t' o' r'|t' r']; cbn in F; try discriminate F. inversion F; subst t' r'. clear F.
      apply wf_res_i in D. destruct D as [o1 [Hst D]]. apply legal_res_i in E.
      pose proof (rt_thr now st' c s' C t) as Ht. rewrite Et, Hst in Ht. cbn [TRT] in Ht. destruct Ht as [_ Ht].
      exists (upd st' t TIdle), i', s', ls0. split; [exact A|]. split; [exact B|].
      split; [|split; [exact D | split; [exact E | exact G]]].
      constructor; cbn.
      + apply (rt_todo now st' c s' C).
      + intros t'. unfold upd. destruct (Nat.eq_dec t' t) as [->|]; [cbn; exact Ht | apply (rt_thr now st' c s' C)].
    - (* snapshot: one step, any answer *)
      destruct (vt_thr c t) as [|o p|] eqn:Et; try discriminate Ev.
      destruct p as [|mo k| | | | | |]; try discriminate Ev.
      destruct mo; try discriminate Ev.
      inversion Ev; subst c1 os; clear Ev. cbn [mprojT cprojT app] in He |- *.
      destruct (silent_stepT now st c s t o _ (k (RSnap l)) l HR Et) as [s1 [ls1 [A [B [Em HR1]]]]].
      { intros s0 H0. left. unfold Conc.cstep. rewrite H0. reflexivity. }
      rewrite <- Em in Hl. exists st, i, s1, ls1. auto 10.
    - (* reads of the clock and of the settings, emitted events *)
      destruct (vt_thr c t) as [|o p|] eqn:Et; try discriminate Ev.
      destruct p as [|mo k|k|k|d k|k|cb k|e k]; try discriminate Ev;
        inversion Ev; subst c1 os; clear Ev; cbn [mprojT cprojT app] in He |- *.
      + destruct (silent_stepT now st c s t o _ (k now) [] HR Et) as [s1 [ls1 [A [B [Em HR1]]]]].
        { intros s0 H0. left. unfold Conc.cstep. rewrite H0. reflexivity. }
        rewrite <- Em in Hl. exists st, i, s1, ls1. auto 10.
      + destruct (silent_stepT now st c s t o _ (k DFLT) [] HR Et) as [s1 [ls1 [A [B [Em HR1]]]]].
        { intros s0 H0. left. unfold Conc.cstep. rewrite H0. reflexivity. }
        rewrite <- Em in Hl. exists st, i, s1, ls1. auto 10.
      + destruct (silent_stepT now st c s t o _ (k CB) [] HR Et) as [s1 [ls1 [A [B [Em HR1]]]]].
        { intros s0 H0. left. unfold Conc.cstep. rewrite H0. reflexivity. }
        rewrite <- Em in Hl. exists st, i, s1, ls1. auto 10.
      + destruct (silent_stepT now st c s t o _ k [] HR Et) as [s1 [ls1 [A [B [Em HR1]]]]].
        { intros s0 H0. right. exists e. unfold Conc.cstep. rewrite H0. reflexivity. }
        rewrite <- Em in Hl. exists st, i, s1, ls1. auto 10.
  Qed.

  Theorem compose_mainT now c outs : vtraceT now c outs ->
    forall (i : list (iev emop imres)) st s,
    wf_inst emop imres st i -> legal emop imres _ cmspecE (c_map s) i ->
    erase emop imres i = mprojT outs -> RELT now st c s ->
    exists ls now' s', treach now s ls now' s' /\ historyT ls = cprojT outs.
  Proof.
    induction 1 as [now c | now c a c1 os c1' outs Ev Hq Hv IH | now c dt outs Hdt Hquiet Hv IH]; intros i st s Hw Hl He HR.
    - exists [], now, s. split; [apply treach_refl | reflexivity].
    - rewrite mprojT_app in He.
      destruct (step_simT now c a c1 os i st s _ Ev Hw Hl He HR) as [st' [i' [s1 [ls1 [A [B [C [D [E F]]]]]]]]].
      destruct (IH i' st' s1 D E F (RELT_veq now st' c1 c1' s1 Hq C)) as [ls [now' [s' [A' B']]]].
      exists (ls1 ++ ls), now', s'. split; [eapply treach_trans; eassumption|].
      rewrite historyT_app, cprojT_app, B, B'. reflexivity.
    - cbn [mprojT] in He.
      destruct (IH i st s Hw Hl He (RELT_tick now dt st c s Hquiet HR)) as [ls [now' [s' [A' B']]]].
      exists ([LTick dt] ++ ls), now', s'. split; [eapply treach_trans; [apply treach_tick; exact Hdt | exact A']|].
      cbn. rewrite B'. reflexivity.
  Qed.

  (* ---------------- the composition theorem ---------------- *)

  Theorem compose_traceT (now0 : Z) (m0 : amap K item) (todo : nat -> list cop) (outs : list outT) :
    vtraceT now0 (vinitT todo) outs ->
    linearizable emop imres _ cmspecE m0 (mprojT outs) ->
    exists sched, historyT (snd (trun (tinit now0 m0 todo) sched)) = cprojT outs.
  Proof.
    intros Hv [i [E [W L]]].
    destruct (compose_mainT _ _ _ Hv i (fun _ => TIdle) (cinit m0 todo) W L E) as [ls [now' [s' [[sched A] B]]]].
    - constructor; cbn; [reflexivity | intros t; reflexivity].
    - exists sched. unfold tinit. rewrite A. exact B.
  Qed.

  (* whatever holds of the histories of all runs of ConcT.v's machine holds of the
     cache-level projection of the timed combined trace *)
  Theorem compose_trace_allT (P : list (hevT cop cres) -> Prop) (now0 : Z) (m0 : amap K item)
      (todo : nat -> list cop) (outs : list outT) :
    (forall sched, P (historyT (snd (trun (tinit now0 m0 todo) sched)))) ->
    vtraceT now0 (vinitT todo) outs ->
    linearizable emop imres _ cmspecE m0 (mprojT outs) ->
    P (cprojT outs).
  Proof.
    intros Hall Hv Hm. destruct (compose_traceT now0 m0 todo outs Hv Hm) as [sched E]. rewrite <- E. apply Hall.
  Qed.

End ComposeT.

Print Assumptions compose_traceT.
