(* XS_stale.v -- what happens to a table of XMachineS (Map, map.go) after it has been replaced
   (the sibling of X_stale.v).

   [swtab p = Some tab]: the thread is a writer PAST its post-lock checks on table tab: it has
   found the resizing flag clear and the table current (QW_ChkTab), and is scanning its locked
   chain or storing into it (QW_Scan, D1 D2 D3, U1, I0 I1 I2 I3, Sum, N1).  Unlike MapOf the scan
   takes one step per bucket of the chain, so already the DECISION of a doCompute (QW_Scan) can
   be overtaken by a Clear.
   ([XS_resize.committed] also contains QW_ChkTab, at which a thread can stand for a table that
   is no longer current -- see X_stale.v / NOTES.md.)

     sstep_split             one sstep = (the invocation, for an idle thread) + one sstep_pc
     sstep_swtab(_stale)     a thread becomes past its checks on a table only by the QW_ChkTab
                             step that finds this table current; never on a table that is not
     publish_next_s          a publish makes table (m.table + 1) current (index = generation)
     publish_grow_quiet_s    at the publish of a grow / shrink nobody is past its checks on the
                             table that is being replaced
     vis_quiet_sstep         a step of a thread that is not past its checks on a published
                             table leaves [svis] of that table unchanged
     SJ                      the bundle XI /\ XID /\ NQ of invariants, kept by every step
   and over runs, from every state satisfying SJ (hence from every reachable state):
     stale_grow_frozen_s     (a) after the publish of a grow / shrink: in every later state
                             nobody is past its checks on the replaced table and [svis] of it
                             is what [sabs] was just before the publish
     stale_clear_writers_s   (b) after any publish: a thread that is past its checks on the
                             replaced table in a later state has been so, with that table,
                             in every state since before the publish. *)
From CacheV Require Import Base SpecMap XMachineS.
From CacheV.proofs Require Import X_maps XS_inv XS_lock XS_own XS_count XS_cells XS_vis XS_abs XS_resize XS_read XS_loadhit XS_loadmiss.
From Coq Require Import NArith.
Local Open Scope nat_scope.

Section SStale.
  Context {K V : Type}.
  Variable eqd : forall a b : K, {a = b} + {a <> b}.
  Variable hash : K -> N -> N.
  Variable idx : N -> nat -> nat.
  Variable tophash : N -> N.
  Variable nslots : nat.
  Variable seeds : nat -> N.
  Variable grow_needed : nat -> Z -> bool.
  Variable shrink_policy : nat -> Z -> bool.
  Variable nstripes : nat -> nat.
  Variable minlen : nat.
  Variable grow_only : bool.

  Hypothesis Hslots : nslots <= 3.
  Hypothesis Hnslots : 0 < nslots.
  Hypothesis Htop : forall k sd, (tophash (hash k sd) < 1048576)%N.
  Hypothesis Hidx : forall h len, 0 < len -> idx h len < len.
  Hypothesis Hminlen : 0 < minlen.

  Notation mtable := (@mtable K V).
  Notation mstate := (@mstate K V).
  Notation spc := (@spc K V).
  Notation sop := (@sop K V).
  Notation slabel := (@slabel K V).
  Notation sstep_pc := (@sstep_pc K V eqd hash idx tophash nslots seeds grow_needed shrink_policy nstripes minlen grow_only).
  Notation sstep := (@sstep K V eqd hash idx tophash nslots seeds grow_needed shrink_policy nstripes minlen grow_only).
  Notation srun := (@srun K V eqd hash idx tophash nslots seeds grow_needed shrink_policy nstripes minlen grow_only).
  Notation stab_at := (@stab_at K V nslots nstripes).
  Notation tabT := (@tabT K V nslots nstripes).
  Notation XL := (@XL K V hash idx nslots nstripes).
  Notation XB := (@XB K V hash idx tophash nslots nstripes).
  Notation XI := (@XS_resize.XI K V hash idx tophash nslots nstripes).
  Notation XID := (@XS_loadhit.XID K V).
  Notation NQ := (@XS_loadhit.NQ K V).
  Notation svis := (@svis K V hash idx tophash nslots).
  Notation sabs := (@sabs K V hash idx tophash nslots nstripes).
  Notation sinvoke := (@sinvoke K V).
  Notation committed := (@XS_resize.committed K V).
  Notation salong := (@XS_loadhit.salong K V eqd hash idx tophash nslots seeds grow_needed shrink_policy nstripes minlen grow_only).

  (* ---------------- past the checks ---------------- *)

  Definition swtab (p : spc) : option nat :=
    match p with
    | QW_Scan _ tab _ _ _ | QW_D1 _ tab _ _ _ _ | QW_D2 _ tab _ _ _ | QW_D3 _ tab _ _ _ | QW_U1 _ tab _ _ _
    | QW_I0 _ tab _ _ | QW_I1 _ tab _ _ _ | QW_I2 _ tab _ _ | QW_I3 _ tab _ _ | QW_Sum _ tab _ _ | QW_N1 _ tab _ => Some tab
    | _ => None
    end.

  Lemma swtab_swake (p : spc) : swtab (swake p) = swtab p.
  Proof. destruct p; reflexivity. Qed.

  Lemma swtab_committed (p : spc) j : swtab p = Some j -> exists k, committed p = Some (j, k).
  Proof. destruct p; cbn; intros E; try discriminate E; inversion E; subst; eexists; reflexivity. Qed.

  Lemma lin_swtab (p : spc) j e : lin_effect p j = Some e -> swtab p = Some j.
  Proof.
    destruct p; cbn; intros E; try discriminate E; destruct (Nat.eq_dec tab j); try discriminate E; subst; reflexivity.
  Qed.

  (* ---------------- one sstep = (invocation) + one sstep_pc ---------------- *)

  Lemma sstart_never_blocks (s1 : mstate) t (o : sop) : sstep_pc s1 t (sstart_pc o) <> None.
  Proof. destruct o; cbn; try discriminate. unfold sstart_cx. destruct lie; cbn; discriminate. Qed.

  Lemma sstep_split s t s' ls : sstep s t = Some (s', ls) ->
    (h_pc s t <> QIdle /\ sstep_pc s t (h_pc s t) = Some (s', ls))
    \/ (h_pc s t = QIdle /\ exists o rest ls0, h_todo s t = o :: rest /\ ls = SInv t o :: ls0
          /\ sstep_pc (sinvoke s t o rest) t (sstart_pc o) = Some (s', ls0)).
  Proof.
    intros E. unfold XMachineS.sstep in E.
    destruct (h_pc s t) eqn:Hp; try (left; split; [discriminate | exact E]).
    right. split; [reflexivity|]. destruct (h_todo s t) as [|o rest]; [discriminate|].
    change (match sstep_pc (sinvoke s t o rest) t (sstart_pc o) with
            | Some (s2, ls0) => Some (s2, SInv t o :: ls0)
            | None => Some (sinvoke s t o rest, [SInv t o])
            end = Some (s', ls)) in E.
    destruct (sstep_pc (sinvoke s t o rest) t (sstart_pc o)) as [[s2 ls0]|] eqn:E2.
    - inversion E; subst. exists o, rest, ls0. auto.
    - exfalso. exact (sstart_never_blocks _ _ _ E2).
  Qed.

  Lemma sinvoke_pc s t o rest u : h_pc (sinvoke s t o rest) u = if Nat.eq_dec u t then sstart_pc o else h_pc s u.
  Proof. reflexivity. Qed.

  (* ---------------- becoming past the checks ---------------- *)

  Lemma some_fst_st {A B} (g : A * B) a b : Some g = Some (a, b) -> a = fst g.
  Proof. intros H. inversion H. reflexivity. Qed.

  Lemma step_swtab s t p s' ls j : XL s -> h_pc s t = p -> sstep_pc s t p = Some (s', ls) -> swtab (h_pc s' t) = Some j ->
    swtab p = Some j \/ (exists cx, p = QW_ChkTab cx j) /\ h_cur s = j.
  Proof.
    intros HS Hp Hs Hw. destruct (swtab_committed _ _ Hw) as [k Hc].
    destruct (step_committed eqd hash idx tophash nslots seeds grow_needed shrink_policy nstripes minlen grow_only s t p s' ls j k HS Hp Hs Hc)
      as [H|[_ [cx [E _]]]].
    - (* it was past resizeInProgress() already: past the table check too, or at it *)
      destruct p; cbn [XS_resize.committed] in H; try discriminate H; inversion H; subst; try (left; reflexivity).
      (* QW_ChkTab *)
      cbn [XMachineS.sstep_pc] in Hs. cbv zeta in Hs. destruct (Nat.eqb (h_cur s) j) eqn:Ec.
      + right. split; [eexists; reflexivity | apply Nat.eqb_eq; exact Ec].
      + exfalso. apply some_fst_st in Hs. subst s'. rewrite sgoto_pc_eq in Hw by (intros r; discriminate). discriminate Hw.
    - (* QW_ChkRes goes to QW_ChkTab or to the unlock *)
      exfalso. rewrite E in Hs. cbn [XMachineS.sstep_pc] in Hs. cbv zeta in Hs. apply some_fst_st in Hs. subst s'.
      rewrite sgoto_pc_eq in Hw by (intros r; destruct (h_resizing s); discriminate). destruct (h_resizing s); discriminate Hw.
  Qed.

  Lemma sstart_swtab (o : sop) : swtab (sstart_pc o) = None.
  Proof. destruct o; cbn; try reflexivity. unfold sstart_cx. destruct lie; reflexivity. Qed.

  Lemma sstep_others s t s' ls : XB s -> sstep s t = Some (s', ls) ->
    forall u, u <> t -> h_pc s' u = h_pc s u \/ h_pc s' u = swake (h_pc s u).
  Proof.
    intros HB E. pose proof (step_facts_sstep eqd hash idx tophash nslots seeds grow_needed shrink_policy nstripes minlen grow_only
                          Hslots Hnslots Hidx Hminlen s t s' ls HB E) as [_ Ho _ _]. exact Ho.
  Qed.

  Theorem sstep_swtab s t s' ls u j : XB s -> sstep s t = Some (s', ls) -> swtab (h_pc s' u) = Some j ->
    swtab (h_pc s u) = Some j \/ (u = t /\ h_cur s = j /\ exists cx, h_pc s t = QW_ChkTab cx j).
  Proof.
    intros HB E Hw. pose proof HB as [_ [HS _]]. destruct (Nat.eq_dec u t) as [->|Hne].
    - destruct (sstep_split s t s' ls E) as [[Hn Es]|[Hp [o [rest [ls0 [Et [El Es]]]]]]].
      + destruct (step_swtab s t _ s' ls j HS eq_refl Es Hw) as [H|[[cx H] Hc]]; [left; exact H|].
        right. split; [reflexivity|]. split; [exact Hc|]. exists cx. exact H.
      + exfalso. pose proof (invoke_XB hash idx tophash nslots nstripes s t o rest Hp HB) as [_ [HS1 _]].
        assert (Epc : h_pc (sinvoke s t o rest) t = sstart_pc o) by (rewrite sinvoke_pc; destruct (Nat.eq_dec t t); congruence).
        destruct (step_swtab (sinvoke s t o rest) t _ s' ls0 j HS1 Epc Es Hw) as [H|[[cx H] _]].
        * rewrite sstart_swtab in H. discriminate.
        * destruct o; cbn in H; try discriminate. unfold sstart_cx in H. destruct lie; discriminate.
    - left. pose proof (step_facts_sstep eqd hash idx tophash nslots seeds grow_needed shrink_policy nstripes minlen grow_only
                          Hslots Hnslots Hidx Hminlen s t s' ls HB E) as HF.
      destruct HF as [_ Ho _ _]. destruct (Ho u Hne) as [E0|E0]; rewrite E0 in Hw; [exact Hw|].
      rewrite swtab_swake in Hw. exact Hw.
  Qed.

  Corollary sstep_swtab_stale s t s' ls u j : XB s -> sstep s t = Some (s', ls) -> j <> h_cur s ->
    swtab (h_pc s' u) = Some j -> swtab (h_pc s u) = Some j.
  Proof.
    intros HB E Hne Hw. destruct (sstep_swtab s t s' ls u j HB E Hw) as [H|[_ [Hc _]]]; [exact H|]. congruence.
  Qed.

  (* ---------------- the publish ---------------- *)

  Theorem publish_next_s s t kt new s' ls : XB s -> h_pc s t = QR_Publish kt new -> sstep s t = Some (s', ls) ->
    new = S (h_cur s) /\ h_cur s' = S (h_cur s) /\ h_tabs s' = h_tabs s.
  Proof.
    intros HB Hp E.
    destruct (sstep_cur eqd hash idx tophash nslots seeds grow_needed shrink_policy nstripes minlen grow_only s t s' ls HB E)
      as [Hc|[kt' [new' [E1 [E2 [E3 [E4 E5]]]]]]].
    - exfalso. unfold XMachineS.sstep in E. rewrite Hp in E. cbn [XMachineS.sstep_pc] in E. apply some_fst_st in E. subst s'.
      rewrite hcur_goto in Hc. cbn [sset_flags h_cur] in Hc.
      destruct HB as [_ [_ [HT _]]]. destruct (xt_pc s HT t) as [_ Hn]. rewrite Hp in Hn. destruct (Hn new eq_refl). lia.
    - rewrite Hp in E1. inversion E1; subst kt' new'.
      assert (En : new = S (h_cur s)).
      { destruct (Nat.eq_dec new (S (h_cur s))) as [H|Hne]; [exact H|]. exfalso.
        assert (Hlt : S (h_cur s) < length (h_tabs s)) by lia.
        destruct HB as [_ [_ [HT [HX _]]]]. destruct (HX (S (h_cur s)) ltac:(lia) Hlt) as [u Eu].
        destruct (xt_pc s HT u) as [_ Hn]. destruct (Hn _ Eu). lia. }
      subst new. auto.
  Qed.

  Theorem publish_grow_quiet_s s t kt new : XI s -> h_pc s t = QR_Publish kt new -> ~ clear_kt kt ->
    forall u, swtab (h_pc s u) <> Some (h_cur s).
  Proof.
    intros [_ [_ HR]] Hp Hnc u Hw.
    assert (Epub : pubpc (h_pc s t) = Some (kt, new)) by (rewrite Hp; reflexivity).
    destruct (xr_publish _ _ _ _ _ s HR t kt new Epub) as [[Hc _]|[_ [_ Hno]]]; [exact (Hnc Hc)|].
    destruct (swtab_committed _ _ Hw) as [k Hk]. exact (Hno u k Hk).
  Qed.

  (* ---------------- a table nobody is at work on does not change ---------------- *)

  Theorem vis_quiet_sstep s t s' ls j : XB s -> sstep s t = Some (s', ls) -> j <= h_cur s ->
    swtab (h_pc s t) <> Some j -> forall k v, svis (tabT (h_tabs s') j) k v <-> svis (tabT (h_tabs s) j) k v.
  Proof.
    intros HB E Hj Hw k v.
    rewrite (vis_sstep eqd hash idx tophash nslots seeds grow_needed shrink_policy nstripes minlen grow_only Hslots Hnslots Hidx Hminlen
               s t s' ls j k v HB E Hj).
    destruct (lin_effect (h_pc s t) j) as [e|] eqn:El; [|reflexivity].
    exfalso. apply Hw. eapply lin_swtab. exact El.
  Qed.

  Lemma sstep_cur_mono s t s' ls : XB s -> sstep s t = Some (s', ls) -> h_cur s <= h_cur s'.
  Proof.
    intros HB E.
    destruct (sstep_cur eqd hash idx tophash nslots seeds grow_needed shrink_policy nstripes minlen grow_only s t s' ls HB E)
      as [Hc|[kt' [new' [E1 [E2 [E3 [E4 E5]]]]]]]; lia.
  Qed.

  (* ---------------- the invariants, bundled ---------------- *)

  Definition SJ (s : mstate) : Prop := XI s /\ XID s /\ NQ s.

  Lemma SJ_sstep s t s' ls : SJ s -> sstep s t = Some (s', ls) -> SJ s'.
  Proof.
    intros [H1 [H2 H3]] E. split; [|split].
    - eapply (XI_sstep eqd hash idx tophash nslots seeds grow_needed shrink_policy nstripes minlen grow_only Hslots Hnslots Htop Hidx Hminlen); eassumption.
    - eapply (XID_sstep eqd hash idx tophash nslots seeds grow_needed shrink_policy nstripes minlen grow_only Hslots Hnslots Hminlen); eassumption.
    - eapply (NQ_sstep eqd hash idx tophash nslots seeds grow_needed shrink_policy nstripes minlen grow_only); eassumption.
  Qed.

  Lemma SJ_init len0 todo : 0 < len0 -> SJ (sinit nslots seeds nstripes len0 todo).
  Proof.
    intros Hl. split; [|split].
    - apply (XI_init hash idx tophash nslots seeds nstripes minlen Hslots Hnslots Hminlen len0 todo Hl).
    - apply (reachable_XID eqd hash idx tophash nslots seeds grow_needed shrink_policy nstripes minlen grow_only Hslots Hnslots Hminlen len0 todo []).
    - apply (reachable_NQ eqd hash idx tophash nslots seeds grow_needed shrink_policy nstripes minlen grow_only len0 todo []).
  Qed.

  Lemma SJ_srun sched : forall s, SJ s -> SJ (fst (srun s sched)).
  Proof.
    induction sched as [|t r IH]; intros s H; cbn [XMachineS.srun]; [exact H|].
    destruct (sstep s t) as [[s' ls]|] eqn:E.
    - specialize (IH s' (SJ_sstep s t s' ls H E)). destruct (XMachineS.srun _ _ _ _ _ _ _ _ _ _ _ s' r). exact IH.
    - apply IH. exact H.
  Qed.

  Lemma SJ_reachable len0 todo sched : 0 < len0 -> SJ (fst (srun (sinit nslots seeds nstripes len0 todo) sched)).
  Proof. intros Hl. apply SJ_srun. apply SJ_init. exact Hl. Qed.

  (* ---------------- over runs ---------------- *)

  Lemma salong_inductive (P : mstate -> Prop) :
    (forall s t s' ls, SJ s -> P s -> sstep s t = Some (s', ls) -> P s') ->
    forall sched s, SJ s -> P s -> salong P s sched.
  Proof.
    intros Hstep. induction sched as [|u r IH]; intros s HS HP; cbn [XS_loadhit.salong]; (split; [exact HP|]); [exact I|].
    destruct (sstep s u) as [[s' ls]|] eqn:E.
    - apply IH; [eapply SJ_sstep; eassumption | eapply Hstep; eassumption].
    - apply IH; assumption.
  Qed.

  Lemma salong_weaken (P Q : mstate -> Prop) : (forall s, P s -> Q s) -> forall sched s, salong P s sched -> salong Q s sched.
  Proof.
    intros HPQ. induction sched as [|u r IH]; intros s [H Hr]; cbn [XS_loadhit.salong]; (split; [apply HPQ; exact H|]); [exact I|].
    destruct (sstep s u) as [[s' ls]|]; apply IH; exact Hr.
  Qed.

  Lemma salong_head (P : mstate -> Prop) sched s : salong P s sched -> P s.
  Proof. destruct sched; cbn [XS_loadhit.salong]; intros [H _]; exact H. Qed.

  (* (a) *)
  Theorem stale_grow_frozen_s s t kt new s1 ls sched : SJ s -> h_pc s t = QR_Publish kt new -> ~ clear_kt kt ->
    sstep s t = Some (s1, ls) ->
    salong (fun s' => (forall u, swtab (h_pc s' u) <> Some (h_cur s))
                      /\ forall k v, svis (tabT (h_tabs s') (h_cur s)) k v <-> sabs s k v) s1 sched.
  Proof.
    intros HS Hp Hnc E. pose proof HS as [HI _]. pose proof HI as [HB _].
    destruct (publish_next_s s t kt new s1 ls HB Hp E) as [-> [Hc1 Ht1]].
    set (old := h_cur s) in *.
    apply (salong_weaken (fun s' => old < h_cur s' /\ (forall u, swtab (h_pc s' u) <> Some old)
                                    /\ forall k v, svis (tabT (h_tabs s') old) k v <-> sabs s k v)); [intros s2 [_ H]; exact H|].
    apply salong_inductive.
    - intros s2 u s3 ls3 [[HB2 _] _] [Hlt [Hq Hv]] E2.
      pose proof (sstep_cur_mono s2 u s3 ls3 HB2 E2) as Hm.
      split; [lia|]. split.
      + intros w Hw. apply (Hq w). eapply sstep_swtab_stale; [exact HB2 | exact E2 | lia | exact Hw].
      + intros k v. rewrite <- Hv. apply (vis_quiet_sstep s2 u s3 ls3 old HB2 E2); [lia | apply Hq].
    - eapply SJ_sstep; eassumption.
    - assert (Hq : forall u, swtab (h_pc s u) <> Some old) by (apply (publish_grow_quiet_s s t kt (S old) HI Hp Hnc)).
      split; [lia|]. split.
      + intros u Hw. destruct (sstep_swtab s t s1 ls u old HB E Hw) as [H|[_ [_ [cx H]]]]; [exact (Hq u H)|].
        rewrite Hp in H. discriminate.
      + intros k v. unfold XS_abs.sabs. fold old. apply (vis_quiet_sstep s t s1 ls old HB E); [unfold old; lia | apply Hq].
  Qed.

  (* (b) *)
  Theorem stale_clear_writers_s s t kt new s1 ls sched : SJ s -> h_pc s t = QR_Publish kt new ->
    sstep s t = Some (s1, ls) ->
    forall u, swtab (h_pc (fst (srun s1 sched)) u) = Some (h_cur s) ->
      swtab (h_pc s u) = Some (h_cur s) /\ salong (fun s' => swtab (h_pc s' u) = Some (h_cur s)) s1 sched.
  Proof.
    intros HS Hp E u. pose proof HS as [[HB _] _].
    destruct (publish_next_s s t kt new s1 ls HB Hp E) as [-> [Hc1 Ht1]].
    set (old := h_cur s) in *.
    assert (HS1 : SJ s1) by (eapply SJ_sstep; eassumption).
    assert (Hlt : old < h_cur s1) by lia.
    assert (Hgen : forall sch s2, SJ s2 -> old < h_cur s2 -> swtab (h_pc (fst (srun s2 sch)) u) = Some old ->
                   salong (fun s' => swtab (h_pc s' u) = Some old) s2 sch).
    { clear Hlt HS1 Hc1 Ht1 E Hp. induction sch as [|w r IH]; intros s2 HS2 Hlt2 Hw; cbn [XMachineS.srun XS_loadhit.salong] in *.
      - split; [exact Hw | exact I].
      - destruct (sstep s2 w) as [[s3 ls3]|] eqn:E3.
        + pose proof HS2 as [[HB2 _] _].
          assert (Hlt3 : old < h_cur s3) by (pose proof (sstep_cur_mono s2 w s3 ls3 HB2 E3); lia).
          assert (Hw3 : swtab (h_pc (fst (srun s3 r)) u) = Some old).
          { destruct (XMachineS.srun _ _ _ _ _ _ _ _ _ _ _ s3 r) as [s4 ls4]. exact Hw. }
          pose proof (IH s3 (SJ_sstep s2 w s3 ls3 HS2 E3) Hlt3 Hw3) as Hal.
          split; [|exact Hal].
          eapply sstep_swtab_stale; [exact HB2 | exact E3 | lia | apply (salong_head _ _ _ Hal)].
        + pose proof (IH s2 HS2 Hlt2 Hw) as Hal. split; [|exact Hal]. apply (salong_head _ _ _ Hal). }
    intros Hw. pose proof (Hgen sched s1 HS1 Hlt Hw) as Hal. split; [|exact Hal].
    pose proof (salong_head _ _ _ Hal) as H1.
    destruct (sstep_swtab s t s1 ls u old HB E H1) as [H|[_ [_ [cx H]]]]; [exact H|]. rewrite Hp in H. discriminate.
  Qed.

End SStale.

(* ---------------- for every reachable state, under rhyps ---------------- *)
Section Final.
  Context {K V : Type}.
  Variable eqd : forall a b : K, {a = b} + {a <> b}.
  Variable hash : K -> N -> N.
  Variable idx : N -> nat -> nat.
  Variable tophash : N -> N.
  Variable nslots : nat.
  Variable seeds : nat -> N.
  Variable grow_needed shrink_policy : nat -> Z -> bool.
  Variable nstripes : nat -> nat.
  Variable minlen : nat.
  Variable grow_only : bool.

  Notation srun := (@srun K V eqd hash idx tophash nslots seeds grow_needed shrink_policy nstripes minlen grow_only).
  Notation sstep := (@sstep K V eqd hash idx tophash nslots seeds grow_needed shrink_policy nstripes minlen grow_only).
  Notation salong := (@XS_loadhit.salong K V eqd hash idx tophash nslots seeds grow_needed shrink_policy nstripes minlen grow_only).
  Notation sabs := (@sabs K V hash idx tophash nslots nstripes).
  Notation svis := (@svis K V hash idx tophash nslots).
  Notation tabT := (@tabT K V nslots nstripes).
  Notation rhyps := (@XS_resize.rhyps K hash idx tophash nslots minlen).

  Theorem s_stale_grow_frozen_proof :
    rhyps -> forall len0 todo sched0 t kt new s1 ls sched, 0 < len0 ->
    let s := fst (srun (sinit nslots seeds nstripes len0 todo) sched0) in
    h_pc s t = QR_Publish kt new -> ~ clear_kt kt -> sstep s t = Some (s1, ls) ->
    h_cur s1 = S (h_cur s) /\
    salong (fun s' => (forall u, swtab (h_pc s' u) <> Some (h_cur s))
                      /\ forall k v, svis (tabT (h_tabs s') (h_cur s)) k v <-> sabs s k v) s1 sched.
  Proof.
    intros [[H1 H2] [H3 [H4 H5]]] len0 todo sched0 t kt new s1 ls sched Hl s Hp Hnc E.
    pose proof (SJ_reachable eqd hash idx tophash nslots seeds grow_needed shrink_policy nstripes minlen grow_only
                  H1 H2 H3 H4 H5 len0 todo sched0 Hl) as HS. fold s in HS.
    split.
    - destruct HS as [[HB _] _].
      edestruct (@publish_next_s K V eqd hash idx tophash nslots seeds grow_needed shrink_policy nstripes minlen grow_only) as [_ [A _]]; try eassumption.
    - exact (stale_grow_frozen_s eqd hash idx tophash nslots seeds grow_needed shrink_policy nstripes minlen grow_only
               H1 H2 H3 H4 H5 s t kt new s1 ls sched HS Hp Hnc E).
  Qed.

  Theorem s_stale_clear_writers_proof :
    rhyps -> forall len0 todo sched0 t kt new s1 ls sched u, 0 < len0 ->
    let s := fst (srun (sinit nslots seeds nstripes len0 todo) sched0) in
    h_pc s t = QR_Publish kt new -> sstep s t = Some (s1, ls) ->
    swtab (h_pc (fst (srun s1 sched)) u) = Some (h_cur s) ->
    swtab (h_pc s u) = Some (h_cur s) /\ salong (fun s' => swtab (h_pc s' u) = Some (h_cur s)) s1 sched.
  Proof.
    intros [[H1 H2] [H3 [H4 H5]]] len0 todo sched0 t kt new s1 ls sched u Hl s Hp E.
    pose proof (SJ_reachable eqd hash idx tophash nslots seeds grow_needed shrink_policy nstripes minlen grow_only
                  H1 H2 H3 H4 H5 len0 todo sched0 Hl) as HS. fold s in HS.
    exact (stale_clear_writers_s eqd hash idx tophash nslots seeds grow_needed shrink_policy nstripes minlen grow_only
             H1 H2 H3 H4 H5 s t kt new s1 ls sched HS Hp E u).
  Qed.

  Theorem s_no_commit_on_stale_proof :
    rhyps -> forall len0 todo sched0 t s1 ls u j, 0 < len0 ->
    let s := fst (srun (sinit nslots seeds nstripes len0 todo) sched0) in
    sstep s t = Some (s1, ls) -> j <> h_cur s -> swtab (h_pc s1 u) = Some j -> swtab (h_pc s u) = Some j.
  Proof.
    intros [[H1 H2] [H3 [H4 H5]]] len0 todo sched0 t s1 ls u j Hl s E Hne Hw.
    pose proof (SJ_reachable eqd hash idx tophash nslots seeds grow_needed shrink_policy nstripes minlen grow_only
                  H1 H2 H3 H4 H5 len0 todo sched0 Hl) as [[HB _] _]. fold s in HB.
    eapply (@sstep_swtab_stale K V eqd hash idx tophash nslots seeds grow_needed shrink_policy nstripes minlen grow_only); eassumption.
  Qed.
End Final.

Print Assumptions s_stale_grow_frozen_proof.
Print Assumptions s_stale_clear_writers_proof.
Print Assumptions s_no_commit_on_stale_proof.
