(* C09_exp.v -- expiration instants: computed, stored, reported, left alone. *)
From CacheV Require Import Base SpecMap Client CacheModel CacheOfModel Ops SpecTTL.
From CacheV.gen Require Import Params.

(* facts about the sentinels as the source defines them today (regenerated Params.v) *)
Lemma sentinels_distinct : DefaultExpiration <> NoExpiration.
Proof. unfold DefaultExpiration, NoExpiration. lia. Qed.
Lemma sentinels_nonpositive : DefaultExpiration < 1 /\ NoExpiration < 1.
Proof. unfold DefaultExpiration, NoExpiration. lia. Qed.

(* the TTL actually used: the argument, or the default when the argument is the sentinel *)
Definition effective (dflt d : Z) : Z := if d =? DefaultExpiration then dflt else d.

Lemma expiration_positive dflt now d :
  0 < effective dflt d -> in_int64 (now + effective dflt d) ->
  spec_expiration dflt now d = now + effective dflt d.
Proof.
  unfold spec_expiration, effective. intros Hpos Hr.
  destruct (d =? DefaultExpiration); (destruct (0 <? _) eqn:E; [apply wrap64_id; exact Hr | apply Z.ltb_ge in E; lia]).
Qed.

Lemma expiration_never dflt now d :
  effective dflt d <= 0 -> spec_expiration dflt now d = 0.
Proof.
  unfold spec_expiration, effective. intros Hle.
  destruct (d =? DefaultExpiration); (destruct (0 <? _) eqn:E; [apply Z.ltb_lt in E; lia | reflexivity]).
Qed.

(* any d <= 0 other than the sentinel never expires, whatever the default *)
Lemma expiration_nonpositive_arg dflt now d :
  d <= 0 -> d <> DefaultExpiration -> spec_expiration dflt now d = 0.
Proof.
  intros Hd Hne. apply expiration_never. unfold effective.
  destruct (d =? DefaultExpiration) eqn:E; [apply Z.eqb_eq in E; contradiction | exact Hd].
Qed.

(* the overflow branch, explicitly: a positive duration whose sum with the clock
   leaves int64 wraps to a non-positive "instant", i.e. the entry never expires *)
Lemma expiration_overflow_refuted :
  exists dflt now d, 0 < now /\ 0 < d /\ in_int64 now /\ in_int64 d /\ d <> DefaultExpiration
    /\ spec_expiration dflt now d < 0.
Proof.
  exists 0, 1000000000000000000, 9223372036854775807.
  unfold in_int64, two63, DefaultExpiration. vm_compute. repeat split; try discriminate; congruence.
Qed.

Section Cfg.
  Context {K V : Type}.

  (* config normalisation on every constructor path (string twin) *)
  Lemma new_normalised now0 opts :
    let b := @CacheModel.New K V now0 opts in
    let cfg := fold_left CacheModel.apply_opt opts CacheModel.DefaultConfig in
    st_dflt (CacheModel.b_state b) = (if CacheModel.cfg_dflt cfg <? 1 then NoExpiration else CacheModel.cfg_dflt cfg)
    /\ CacheModel.b_janitor b = (0 <? CacheModel.cfg_interval cfg)
    /\ DefaultMinCapacity <= CacheModel.b_presize b
    /\ st_map (CacheModel.b_state b) = [] /\ st_now (CacheModel.b_state b) = now0
    /\ st_cb (CacheModel.b_state b) = CacheModel.cfg_cb cfg.
  Proof.
    cbn. set (cfg := fold_left CacheModel.apply_opt opts CacheModel.DefaultConfig).
    repeat split.
    - destruct (CacheModel.cfg_interval cfg <? 0) eqn:E; [|reflexivity].
      apply Z.ltb_lt in E. symmetry. apply Z.ltb_ge. lia.
    - destruct (CacheModel.cfg_mincap cfg <? DefaultMinCapacity) eqn:E; [lia|apply Z.ltb_ge in E; lia].
  Qed.

  Lemma newdefault_normalised now0 dflt interval cbs :
    let b := @CacheModel.NewDefault K V now0 dflt interval cbs in
    st_dflt (CacheModel.b_state b) = (if dflt <? 1 then NoExpiration else dflt)
    /\ CacheModel.b_janitor b = (0 <? interval)
    /\ CacheModel.b_presize b = DefaultMinCapacity
    /\ st_map (CacheModel.b_state b) = [] /\ st_now (CacheModel.b_state b) = now0.
  Proof.
    cbn. repeat split.
    destruct (interval <? 0) eqn:E; [|reflexivity].
    apply Z.ltb_lt in E. symmetry. apply Z.ltb_ge. lia.
  Qed.

  (* the generic twin builds the same thing *)
  Lemma newof_same now0 opts :
    let b := @CacheModel.New K V now0 opts in
    let b' := @CacheOfModel.NewOf K V now0
                (map (fun o => match o with
                               | CacheModel.WithDefaultExpiration d => CacheOfModel.WithDefaultExpiration d
                               | CacheModel.WithCleanupInterval d => CacheOfModel.WithCleanupInterval d
                               | CacheModel.WithEvictedCallback c => CacheOfModel.WithEvictedCallback c
                               | CacheModel.WithMinCapacity n => CacheOfModel.WithMinCapacity n
                               end) opts) in
    CacheOfModel.b_state b' = CacheModel.b_state b /\ CacheOfModel.b_janitor b' = CacheModel.b_janitor b
    /\ CacheOfModel.b_interval b' = CacheModel.b_interval b /\ CacheOfModel.b_presize b' = CacheModel.b_presize b.
  Proof.
    cbn.
    assert (H : forall c c',
      CacheModel.cfg_dflt c = CacheOfModel.cfg_dflt c' -> CacheModel.cfg_interval c = CacheOfModel.cfg_interval c' ->
      CacheModel.cfg_cb c = CacheOfModel.cfg_cb c' -> CacheModel.cfg_mincap c = CacheOfModel.cfg_mincap c' ->
      let f := fold_left CacheModel.apply_opt opts c in
      let f' := fold_left CacheOfModel.apply_opt
                  (map (fun o => match o with
                               | CacheModel.WithDefaultExpiration d => CacheOfModel.WithDefaultExpiration d
                               | CacheModel.WithCleanupInterval d => CacheOfModel.WithCleanupInterval d
                               | CacheModel.WithEvictedCallback c => CacheOfModel.WithEvictedCallback c
                               | CacheModel.WithMinCapacity n => CacheOfModel.WithMinCapacity n
                               end) opts) c' in
      CacheModel.cfg_dflt f = CacheOfModel.cfg_dflt f' /\ CacheModel.cfg_interval f = CacheOfModel.cfg_interval f' /\
      CacheModel.cfg_cb f = CacheOfModel.cfg_cb f' /\ CacheModel.cfg_mincap f = CacheOfModel.cfg_mincap f').
    { induction opts as [|o t IH]; intros c c' H1 H2 H3 H4; cbn; auto.
      apply IH; destruct o; cbn; auto. }
    destruct (H CacheModel.DefaultConfig CacheOfModel.DefaultConfig eq_refl eq_refl eq_refl eq_refl) as [E1 [E2 [E3 E4]]].
    rewrite <- E1, <- E2, <- E3, <- E4. auto.
  Qed.

End Cfg.

Section Arm.
  Context {K V : Type}.
  Variable eqd : forall a b : K, {a = b} + {a <> b}.
  Variable zero : V.
  Notation next := (spec_next eqd zero).
  Notation L s := (st_map s).

  (* which calls arm (or re-arm) key k, with which TTL argument *)
  Definition arms (s : cstate K V) (o : cop K V) (k : K) : option Z :=
    match o with
    | OSet k' _ d | OGetAndSet k' _ d => if eqd k k' then Some d else None
    | OSetDefault k' _ => if eqd k k' then Some DefaultExpiration else None
    | OSetForever k' _ => if eqd k k' then Some NoExpiration else None
    | OGetOrSet k' _ d | OGetOrCompute k' _ d =>
        if eqd k k' then match vw eqd s k' with Some _ => None | None => Some d end else None
    | OGetAndRefresh k' d =>
        if eqd k k' then match vw eqd s k' with Some _ => Some d | None => None end else None
    | OCompute k' fn d =>
        if eqd k k' then
          let '(_, del) := match vw eqd s k' with Some i => fn (iv i) true | None => fn zero false end in
          if del then None else Some d
        else None
    | _ => None
    end.

  (* a call that removes key k from the specification state *)
  Definition removes (s : cstate K V) (o : cop K V) (k : K) : bool :=
    match o with
    | OGetAndDelete k' | ODelete k' => if eqd k k' then true else false
    | OClear => true
    | OCompute k' fn _ =>
        if eqd k k' then
          snd (match vw eqd s k' with Some i => fn (iv i) true | None => fn zero false end)
        else false
    | _ => false
    end.

  (* armed from the time of that call, with the default in force at that call *)
  Theorem arm_sets s o k d : arms s o k = Some d ->
    exists i, lookup eqd k (L (next s o)) = Some i
              /\ ie i = spec_expiration (st_dflt s) (st_now s) d.
  Proof.
    unfold arms. destruct o; try discriminate; cbn [spec_next].
    all: try (destruct (eqd k k0) as [->|]; [|discriminate]).
    - intros H; inversion H; subst. cbn. rewrite lookup_insert_eq. eexists; split; [reflexivity|reflexivity].
    - intros H; inversion H; subst. cbn. rewrite lookup_insert_eq. eexists; split; [reflexivity|reflexivity].
    - intros H; inversion H; subst. cbn. rewrite lookup_insert_eq. eexists; split; [reflexivity|reflexivity].
    - destruct (vw eqd s k0); [discriminate|]. intros H; inversion H; subst. cbn. rewrite lookup_insert_eq.
      eexists; split; [reflexivity|reflexivity].
    - intros H; inversion H; subst. cbn. rewrite lookup_insert_eq. eexists; split; [reflexivity|reflexivity].
    - destruct (vw eqd s k0); [|discriminate]. intros H; inversion H; subst. cbn. rewrite lookup_insert_eq.
      eexists; split; [reflexivity|reflexivity].
    - destruct (vw eqd s k0); [discriminate|]. intros H; inversion H; subst. cbn. rewrite lookup_insert_eq.
      eexists; split; [reflexivity|reflexivity].
    - destruct (match vw eqd s k0 with Some i => fn (iv i) true | None => fn zero false end) as [v del].
      destruct del; [discriminate|]. intros H; inversion H; subst. cbn. rewrite lookup_insert_eq.
      eexists; split; [reflexivity|reflexivity].
  Qed.

  (* everything else leaves the stored item -- value and instant -- untouched:
     Get*, Range, Items, Count, a hit in GetOrSet/GetOrCompute, changing the
     default, changing the callback, DeleteExpired, the passage of time, and any
     call on another key *)
  Theorem untouched s o k : arms s o k = None -> removes s o k = false ->
    lookup eqd k (L (next s o)) = lookup eqd k (L s).
  Proof.
    unfold arms, removes. destruct o; cbn [spec_next]; intros Ha Hr; try reflexivity.
    all: repeat match goal with
         | H : context [eqd ?a ?b] |- _ => destruct (eqd a b); [subst|]
         end.
    all: repeat match goal with
         | H : context [match vw eqd ?s ?x with _ => _ end] |- _ => destruct (vw eqd s x)
         | |- context [match vw eqd ?s ?x with _ => _ end] => destruct (vw eqd s x)
         end.
    all: repeat match goal with
         | H : context [let '(_, _) := ?e in _] |- _ =>
             lazymatch e with (_, _) => fail | _ => destruct e as [? []]; cbn in * end
         | H : context [snd ?e] |- _ =>
             lazymatch e with (_, _) => fail | _ => destruct e as [? []]; cbn in * end
         | |- context [let '(_, _) := ?e in _] =>
             lazymatch e with (_, _) => fail | _ => destruct e as [? []]; cbn in * end
         end.
    all: cbn in *; try discriminate; try reflexivity.
    all: rewrite ?lookup_insert_neq, ?lookup_remove_neq by auto; reflexivity.
  Qed.

  (* what the two reporting calls say, in terms of the stored instant *)
  Theorem reported s k i :
    vw eqd s k = Some i ->
    spec_ok eqd zero s (OGetWithExpiration k) (CValExp (iv i) (if 0 <? ie i then ie i else 0) true)
    /\ spec_ok eqd zero s (OGetWithTTL k)
         (CValTTL (iv i) (if 0 <? ie i then ie i - st_now s else NoExpiration) true).
  Proof. intros H. cbn. rewrite H. auto. Qed.

End Arm.
