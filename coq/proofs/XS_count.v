(* XS_count.v -- the size counter of XMachineS (map.go) is exact: for every
   table ever allocated, in every reachable state and for every schedule,
       number of slots whose key pointer is set
         =  sum of the counter stripes  +  the additions still owed
   where a thread owes +1 between the StorePointer that sets the key of its
   insert (or links its new bucket) and its addSize(+1), and -1 between the
   StorePointer that clears the key of its delete and its addSize(-1)
   (the program counters QU_Load / QU_Store / QA_Add carrying a QA_Add).
   copyBucket counts exactly the slots whose key is set, and adds that number.
   Hence whenever no thread owes anything, Size of a table is the number of its keys.
   The threads that ever run are those of a finite list. *)
From CacheV Require Import Base SpecMap XMachineS.
From CacheV.proofs Require Import X_maps XS_inv XS_lock XS_own.
From Coq Require Import NArith.
Local Open Scope nat_scope.

Section Count0.
  Context {K V : Type}.
  Notation mslot := (@mslot K V).
  Notation mtable := (@mtable K V).
  Notation empty_mslot := (@empty_mslot K V).

  Definition counted (sl : mslot) : bool := match ms_key sl with Some _ => true | None => false end.
  Definition nvis (c : list mslot) : nat := length (filter counted c).
  Fixpoint sum_nat (l : list nat) : nat := match l with [] => 0 | x :: r => x + sum_nat r end.
  (* the number of keys of a table *)
  Definition tcount (tb : mtable) : Z := Z.of_nat (sum_nat (map nvis (m_chains tb))).

  Lemma nvis_upd (c : list mslot) pos f : pos < length c ->
    Z.of_nat (nvis (supd_nth c pos f)) =
    (Z.of_nat (nvis c) - sb1 (counted (nth pos c empty_mslot)) + sb1 (counted (f (nth pos c empty_mslot))))%Z.
  Proof.
    revert pos. induction c as [|sl r IH]; intros pos Hp; [cbn in Hp; lia|].
    destruct pos as [|pos]; cbn [supd_nth nth].
    - unfold nvis. cbn [filter]. destruct (counted sl), (counted (f sl)); cbn [length sb1]; lia.
    - assert (Hp' : pos < length r) by (cbn in Hp; lia). specialize (IH pos Hp').
      unfold nvis in *. cbn [filter]. destruct (counted sl); cbn [length]; lia.
  Qed.

  Lemma nvis_supd_same (c : list mslot) pos f : (forall x, counted (f x) = counted x) -> nvis (supd_nth c pos f) = nvis c.
  Proof.
    intros Hf. revert pos. induction c as [|sl r IH]; intros pos; [destruct pos; reflexivity|].
    destruct pos as [|pos]; cbn [supd_nth]; unfold nvis in *; cbn [filter].
    - rewrite Hf. destruct (counted sl); reflexivity.
    - destruct (counted sl); cbn [length]; rewrite IH; reflexivity.
  Qed.

  Lemma nvis_app (a b : list mslot) : nvis (a ++ b) = nvis a + nvis b.
  Proof. unfold nvis. rewrite filter_app, app_length. reflexivity. Qed.

  Lemma nvis_repeat_empty n : nvis (repeat empty_mslot n) = 0.
  Proof. induction n as [|n IH]; [reflexivity|]. unfold nvis in *. cbn. exact IH. Qed.

  Lemma sum_upd (l : list (list mslot)) b g : b < length l ->
    Z.of_nat (sum_nat (map nvis (supd_nth l b g))) =
    (Z.of_nat (sum_nat (map nvis l)) - Z.of_nat (nvis (nth b l [])) + Z.of_nat (nvis (g (nth b l []))))%Z.
  Proof.
    revert b. induction l as [|c r IH]; intros b Hb; [cbn in Hb; lia|].
    destruct b as [|b]; cbn [supd_nth nth map sum_nat]; [lia|].
    assert (Hb' : b < length r) by (cbn in Hb; lia). specialize (IH b Hb'). lia.
  Qed.

  Lemma sum_supd_same (l : list (list mslot)) b g : (forall c, nvis (g c) = nvis c) ->
    sum_nat (map nvis (supd_nth l b g)) = sum_nat (map nvis l).
  Proof.
    intros Hg. revert b. induction l as [|c r IH]; intros b; [destruct b; reflexivity|].
    destruct b as [|b]; cbn [supd_nth map sum_nat]; [rewrite Hg; reflexivity | rewrite IH; reflexivity].
  Qed.

  Lemma tcount_set_chain (tb : mtable) b g : b < m_len tb ->
    tcount (sset_chain tb b g) = (tcount tb - Z.of_nat (nvis (schain_of tb b)) + Z.of_nat (nvis (g (schain_of tb b))))%Z.
  Proof. intros Hb. unfold tcount, sset_chain, schain_of. cbn [m_chains]. apply sum_upd. exact Hb. Qed.

  Lemma tcount_set_chain_same (tb : mtable) b g : (forall c, nvis (g c) = nvis c) -> tcount (sset_chain tb b g) = tcount tb.
  Proof. intros Hg. unfold tcount, sset_chain. cbn [m_chains]. rewrite sum_supd_same by exact Hg. reflexivity. Qed.

  Lemma tcount_set_words (tb : mtable) b g : tcount (sset_words tb b g) = tcount tb.
  Proof. reflexivity. Qed.
  Lemma tcount_add_size (tb : mtable) b d : tcount (sadd_size tb b d) = tcount tb.
  Proof. reflexivity. Qed.

  Lemma ssum_z_upd (l : list Z) i d : i < length l -> ssum_z (supd_nth l i (fun z => (z + d)%Z)) = (ssum_z l + d)%Z.
  Proof.
    revert i. induction l as [|x r IH]; intros i Hi; [cbn in Hi; lia|].
    destruct i as [|i]; cbn [supd_nth ssum_z fold_right]; [lia|].
    assert (Hi' : i < length r) by (cbn in Hi; lia). specialize (IH i Hi'). unfold ssum_z in IH. lia.
  Qed.

  Lemma N_land_le_l a b : (N.land a b <= a)%N.
  Proof.
    assert (E : a = (N.land a b + N.ldiff a b)%N).
    { rewrite N.add_nocarry_lxor.
      - rewrite N.lxor_lor.
        + rewrite N.lor_comm. symmetry. apply N.lor_ldiff_and.
        + apply N.bits_inj. intros n. rewrite N.land_spec, N.land_spec, N.ldiff_spec, N.bits_0.
          destruct (N.testbit a n), (N.testbit b n); reflexivity.
      - apply N.bits_inj. intros n. rewrite N.land_spec, N.land_spec, N.ldiff_spec, N.bits_0.
        destruct (N.testbit a n), (N.testbit b n); reflexivity. }
    lia.
  Qed.

  Lemma cidx_lt (tb : mtable) b : 0 < length (m_size tb) -> cidx_of tb b < length (m_size tb).
  Proof. intros H. unfold cidx_of. pose proof (N_land_le_l (N.of_nat (length (m_size tb) - 1)) (N.of_nat b)). lia. Qed.

  Lemma size_add_size (tb : mtable) b d : 0 < length (m_size tb) ->
    ssum_z (m_size (sadd_size tb b d)) = (ssum_z (m_size tb) + d)%Z.
  Proof. intros H. unfold sadd_size. cbn [m_size]. apply ssum_z_upd. apply cidx_lt. exact H. Qed.

End Count0.

Section SCount.
  Context {K V : Type}.
  Variable eqd : forall a b : K, {a = b} + {a <> b}.
  Variable hash : K -> N -> N.
  Variable idx : N -> nat -> nat.
  Variable tophash : N -> N.
  Variable nslots : nat.
  Variable seeds : nat -> N.
  Variable grow_needed : nat -> Z -> bool.
  Variable shrink_policy : nat -> Z -> bool.
  Variable nstripes : nat -> nat.
  Variable minlen : nat.
  Variable grow_only : bool.

  Notation mslot := (@mslot K V).
  Notation mtable := (@mtable K V).
  Notation mstate := (@mstate K V).
  Notation spc := (@spc K V).
  Notation rframe := (@rframe K V).
  Notation empty_mslot := (@empty_mslot K V).
  Notation sstep_pc := (@sstep_pc K V eqd hash idx tophash nslots seeds grow_needed shrink_policy nstripes minlen grow_only).
  Notation sstep := (@sstep K V eqd hash idx tophash nslots seeds grow_needed shrink_policy nstripes minlen grow_only).
  Notation srun := (@srun K V eqd hash idx tophash nslots seeds grow_needed shrink_policy nstripes minlen grow_only).
  Notation stab_at := (@stab_at K V nslots nstripes).
  Notation shome := (@shome K V hash idx).
  Notation sword_at := (@sword_at K V nslots).
  Notation XL := (@XL K V hash idx nslots nstripes).
  Notation sholds := (@sholds K V hash idx nslots nstripes).
  Notation sholdsT := (@sholdsT K V hash idx nslots nstripes).
  Notation lock_of := (@lock_of K V nslots nstripes).
  Notation tabT := (@tabT K V nslots nstripes).
  Notation XT := (@XT K V).

  (* ---------------- what a thread still owes to the counter of table tab ---------------- *)

  Fixpoint owed (tab : nat) (p : spc) : Z :=
    match p with
    | QA_Add tab' _ d a => ((if Nat.eq_dec tab' tab then d else 0) + owed tab a)%Z
    | QU_Load _ _ _ a | QU_Store _ _ _ _ a => owed tab a
    | _ => 0%Z
    end.

  Definition owed_all (s : mstate) (tab : nat) (ths : list nat) : Z :=
    fold_right (fun t acc => (owed tab (h_pc s t) + acc)%Z) 0%Z ths.

  Lemma owed_swake tab (p : spc) : owed tab (swake p) = owed tab p.
  Proof. destruct p; reflexivity. Qed.

  Lemma owed_le tab n (p : spc) : tabs_le n p -> n < tab -> owed tab p = 0%Z.
  Proof.
    intros H Hn. induction p; cbn [owed tabs_le] in *; try reflexivity.
    - apply IHp. tauto.
    - apply IHp. tauto.
    - destruct H as [H1 H2]. rewrite (IHp H2). destruct (Nat.eq_dec tab0 tab); [lia | reflexivity].
  Qed.

  Lemma owed_all_same (s s' : mstate) tab ths :
    (forall t, In t ths -> owed tab (h_pc s' t) = owed tab (h_pc s t)) -> owed_all s' tab ths = owed_all s tab ths.
  Proof.
    induction ths as [|t r IH]; intros H; [reflexivity|]. cbn [owed_all fold_right].
    rewrite (H t (or_introl eq_refl)). fold (owed_all s' tab r) (owed_all s tab r). rewrite IH; [reflexivity|].
    intros u Hu. apply H. right. exact Hu.
  Qed.

  Lemma owed_all_upd (s s' : mstate) tab ths t : NoDup ths -> In t ths ->
    (forall u, u <> t -> In u ths -> owed tab (h_pc s' u) = owed tab (h_pc s u)) ->
    owed_all s' tab ths = (owed_all s tab ths - owed tab (h_pc s t) + owed tab (h_pc s' t))%Z.
  Proof.
    induction ths as [|u r IH]; intros Hnd Hin Hoth; [destruct Hin|].
    inversion Hnd as [|? ? Hnin Hnd']; subst. cbn [owed_all fold_right]. fold (owed_all s' tab r) (owed_all s tab r).
    destruct Hin as [->|Hin].
    - rewrite (owed_all_same s s' tab r); [lia|]. intros w Hw. apply Hoth; [intros ->; contradiction | right; exact Hw].
    - assert (u <> t) by (intros ->; contradiction).
      rewrite (Hoth u H (or_introl eq_refl)). rewrite IH; [lia | exact Hnd' | exact Hin |].
      intros w Hw Hw'. apply Hoth; [exact Hw | right; exact Hw'].
  Qed.

  Lemma owed_all_zero s tab ths : (forall u, owed tab (h_pc s u) = 0%Z) -> owed_all s tab ths = 0%Z.
  Proof. intros H. induction ths as [|u r IH]; [reflexivity|]. cbn [owed_all fold_right]. rewrite H. exact IH. Qed.

  (* ---------------- what the locals of a program counter say about the keys of the locked chain ---------------- *)

  (* Range's continuation: the next bucket's lockBucket, or the return *)
  Definition fsimple (p : spc) : Prop := match p with QK_Load _ _ (LKRange _) | QRet _ => True | _ => False end.

  (* the key pointer of slot pos of the home chain of k in table tab *)
  Definition skey (T : list mtable) (tab : nat) (k : K) (pos : nat) : option (option K) :=
    let tb := tabT T tab in
    let c := schain_of tb (shome tb k) in
    if Nat.ltb pos (length c) then Some (ms_key (nth pos c empty_mslot)) else None.

  Fixpoint CPT (T : list mtable) (p : spc) : Prop :=
    match p with
    | QW_Scan cx tab _ emp _ => match emp with Some pos => skey T tab (sc_k cx) pos = Some None | None => True end
    | QW_I0 cx tab pos _ | QW_I1 cx tab pos _ _ | QW_I2 cx tab pos _ | QW_I3 cx tab pos _ => skey T tab (sc_k cx) pos = Some None
    | QW_D1 cx tab pos _ _ _ | QW_D2 cx tab pos _ _ | QW_D3 cx tab pos _ _ => exists k', skey T tab (sc_k cx) pos = Some (Some k')
    | QU_Load _ _ rg a | QU_Store _ _ _ rg a => (rg <> None -> fsimple a) /\ CPT T a
    | QA_Add tab _ _ a => tab < length T /\ CPT T a
    | _ => True
    end.

  Definition FS (fr : nat -> option rframe) : Prop := forall u f, fr u = Some f -> fsimple (rf_after f).

  Record XC (s : mstate) : Prop := {
    xc_pc : forall t, CPT (h_tabs s) (h_pc s t);
    xc_fr : FS (h_frame s);
    xc_size : Forall (fun tb : mtable => 0 < length (m_size tb)) (h_tabs s);
  }.

  Lemma fsimple_owed (p : spc) tab : fsimple p -> owed tab p = 0%Z.
  Proof. destruct p; cbn; intros H; try contradiction; reflexivity. Qed.

  Lemma fsimple_CPT (p : spc) T : fsimple p -> CPT T p.
  Proof. destruct p; cbn; intros H; try contradiction; exact I. Qed.

  Lemma start_cx_cp (cx : @scx K V) T : CPT T (sstart_cx cx) /\ forall tab, owed tab (sstart_cx cx) = 0%Z.
  Proof. unfold sstart_cx. destruct (sc_lie cx); split; first [exact I | reflexivity]. Qed.

  Lemma svisits_cp (S0 : mstate) t rest vf after ls T :
    FS (h_frame S0) -> fsimple after ->
    let s' := fst (svisits S0 t rest vf after ls) in
    CPT T (h_pc s' t) /\ (forall tab, owed tab (h_pc s' t) = 0%Z) /\ FS (h_frame s').
  Proof.
    intros HF Ha. cbv zeta. revert ls. induction rest as [|[k v] r IH]; intros ls; cbn [svisits].
    - assert (HF' : FS (fun t' => if Nat.eq_dec t' t then None else h_frame S0 t')).
      { intros u f. destruct (Nat.eq_dec u t); [discriminate | apply HF]. }
      destruct after; try contradiction; cbn [fst sset_pc sset_frame h_pc h_frame];
        (destruct (Nat.eq_dec t t) as [_|Hc]; [|exfalso; apply Hc; reflexivity]);
        (split; [first [exact I | apply fsimple_CPT; exact Ha] | split; [intros ?; reflexivity | exact HF']]).
    - destruct (vf k v) as [cx|]; [|apply IH]. cbn [fst sset_pc sset_frame h_pc h_frame].
      destruct (Nat.eq_dec t t) as [_|Hc]; [|exfalso; apply Hc; reflexivity].
      destruct (start_cx_cp cx T) as [A B]. split; [exact A|]. split; [exact B|].
      intros u f. destruct (Nat.eq_dec u t) as [->|]; [|apply HF]. intros E. inversion E; subst f. exact Ha.
  Qed.

  Lemma sgoto_cp (S0 : mstate) t q ls T :
    FS (h_frame S0) -> CPT T q ->
    let s' := fst (sgoto S0 t q ls) in
    CPT T (h_pc s' t) /\ (forall tab, owed tab (h_pc s' t) = owed tab q) /\ FS (h_frame s').
  Proof.
    intros HF Hq. cbv zeta.
    destruct q; cbn [sgoto fst sset_pc h_pc h_frame];
      try (destruct (Nat.eq_dec t t) as [_|Hc]; [|exfalso; apply Hc; reflexivity]; split; [exact Hq | split; [reflexivity | exact HF]]).
    destruct (h_frame S0 t) as [fr|] eqn:E.
    - apply svisits_cp; [exact HF | apply (HF t fr E)].
    - cbn [fst sset_pc h_pc h_frame]. destruct (Nat.eq_dec t t) as [_|Hc]; [|exfalso; apply Hc; reflexivity].
      split; [exact I | split; [reflexivity | exact HF]].
  Qed.


  (* ---------------- the locked scan ---------------- *)

  Lemma nth_firstn' {X} (l : list X) n j d : j < n -> nth j (firstn n l) d = nth j l d.
  Proof.
    revert n j. induction l as [|x r IH]; intros n j H; [rewrite firstn_nil; reflexivity|].
    destruct n; [lia|]. destruct j; cbn [firstn nth]; [reflexivity|]. apply IH. lia.
  Qed.

  Lemma nth_skipn' {X} (l : list X) m j d : nth j (skipn m l) d = nth (m + j) l d.
  Proof.
    revert m. induction l as [|x r IH]; intros m; [rewrite skipn_nil; destruct j, m; reflexivity|].
    destruct m; [reflexivity|]. cbn [skipn Nat.add nth]. apply IH.
  Qed.

  Lemma sbucket_nth (c : list mslot) bi j d : j < length (sbucket_slots nslots c bi) ->
    bi * nslots + j < length c /\ nth j (sbucket_slots nslots c bi) d = nth (bi * nslots + j) c d.
  Proof.
    unfold sbucket_slots. rewrite firstn_length, skipn_length. intros H. split; [lia|].
    rewrite nth_firstn' by lia. apply nth_skipn'.
  Qed.

  Lemma scan_found_key k th w (sl : list mslot) base i emp ne pos vp :
    scan_slots eqd k th w sl base i emp ne = ScFound pos vp ->
    exists j k', j < length sl /\ pos = base + i + j /\ ms_key (nth j sl empty_mslot) = Some k'.
  Proof.
    revert i emp ne. induction sl as [|x r IH]; intros i emp ne; cbn [scan_slots length]; [discriminate|].
    assert (Hrec : forall emp0 ne0, scan_slots eqd k th w r base (S i) emp0 ne0 = ScFound pos vp ->
                     exists j k', j < S (length r) /\ pos = base + i + j /\ ms_key (nth j (x :: r) empty_mslot) = Some k').
    { intros emp0 ne0 E. destruct (IH _ _ _ E) as [j [k' [A [B C]]]]. exists (S j), k'. split; [lia|]. split; [lia | exact C]. }
    destruct (ms_key x) as [k'|] eqn:Ek; [|apply Hrec].
    destruct (top_match th w i); [destruct (eqd k k')|]; try apply Hrec.
    intros E. inversion E; subst. exists 0, k'. split; [lia|]. split; [lia | exact Ek].
  Qed.

  Lemma scan_miss_emp k th w (sl : list mslot) base i emp ne emp' ne' :
    scan_slots eqd k th w sl base i emp ne = ScMiss emp' ne' ->
    emp' = emp \/ exists j, j < length sl /\ emp' = Some (base + i + j) /\ ms_key (nth j sl empty_mslot) = None.
  Proof.
    revert i emp ne. induction sl as [|x r IH]; intros i emp ne; cbn [scan_slots length].
    - intros E. inversion E. left. reflexivity.
    - assert (Hrec : forall ne0, scan_slots eqd k th w r base (S i) emp ne0 = ScMiss emp' ne' ->
                       emp' = emp \/ exists j, j < S (length r) /\ emp' = Some (base + i + j) /\ ms_key (nth j (x :: r) empty_mslot) = None).
      { intros ne0 E. destruct (IH _ _ _ E) as [A|[j [A [B C]]]]; [left; exact A|].
        right. exists (S j). split; [lia|]. split; [rewrite B; f_equal; lia | exact C]. }
      destruct (ms_key x) as [k'|] eqn:Ek.
      + destruct (top_match th w i); [destruct (eqd k k')|]; try apply Hrec. discriminate.
      + intros E. destruct (IH _ _ _ E) as [A|[j [A [B C]]]].
        * destruct emp as [e|]; [left; exact A|]. right. exists 0. split; [lia|]. split; [rewrite A; f_equal; lia | exact Ek].
        * right. exists (S j). split; [lia|]. split; [rewrite B; f_equal; lia | exact C].
  Qed.

  Lemma skey_at T tab k pos : pos < length (schain_of (tabT T tab) (shome (tabT T tab) k)) ->
    skey T tab k pos = Some (ms_key (nth pos (schain_of (tabT T tab) (shome (tabT T tab) k)) empty_mslot)).
  Proof. intros H. unfold skey. cbv zeta. apply Nat.ltb_lt in H. rewrite H. reflexivity. Qed.

  (* ---------------- updates of one table that leave the keys alone ---------------- *)

  Definition keys_same_at (b : nat) (tb tb' : mtable) : Prop :=
    m_len tb' = m_len tb /\ m_seed tb' = m_seed tb
    /\ map (@ms_key K V) (schain_of tb' b) = map (@ms_key K V) (schain_of tb b).

  Definition keys_same (tb tb' : mtable) : Prop := forall b, keys_same_at b tb tb'.

  Lemma skey_same T T' tab k pos : keys_same_at (shome (tabT T tab) k) (tabT T tab) (tabT T' tab) -> skey T' tab k pos = skey T tab k pos.
  Proof.
    intros [A [B C]]. unfold skey. cbv zeta. rewrite (shome_ext hash idx _ _ k A B).
    assert (L : length (schain_of (tabT T' tab) (shome (tabT T tab) k)) = length (schain_of (tabT T tab) (shome (tabT T tab) k))).
    { rewrite <- (map_length (@ms_key K V)), C, map_length. reflexivity. }
    rewrite L. destruct (Nat.ltb pos _) eqn:E; [|reflexivity]. f_equal.
    change (ms_key (nth pos ?c empty_mslot)) with (ms_key (nth pos c empty_mslot)).
    rewrite <- !(map_nth (@ms_key K V)). rewrite C. reflexivity.
  Qed.

  Lemma keys_same_refl tb : keys_same tb tb.
  Proof. intros b. split; [reflexivity | split; [reflexivity | reflexivity]]. Qed.

  Lemma keys_same_set_words (tb : mtable) b g : keys_same tb (sset_words tb b g).
  Proof. intros b'. split; [reflexivity | split; [reflexivity | reflexivity]]. Qed.

  Lemma keys_same_add_size (tb : mtable) b d : keys_same tb (sadd_size tb b d).
  Proof. intros b'. split; [reflexivity | split; [reflexivity | reflexivity]]. Qed.

  Lemma map_supd_same {X Y} (h : X -> Y) (l : list X) i g : (forall x, h (g x) = h x) -> map h (supd_nth l i g) = map h l.
  Proof.
    intros H. revert i. induction l as [|x r IH]; intros [|i]; cbn [supd_nth map]; try reflexivity.
    - rewrite H. reflexivity.
    - rewrite IH. reflexivity.
  Qed.

  Lemma keys_same_set_val (tb : mtable) b pos g : (forall sl, ms_key (g sl) = ms_key sl) -> keys_same tb (sset_slot tb b pos g).
  Proof.
    intros Hg b'. unfold sset_slot, sset_chain, keys_same_at, m_len, schain_of. cbn [m_chains m_seed].
    split; [apply supd_nth_length|]. split; [reflexivity|]. rewrite nth_supd_nth.
    destruct (Nat.eq_dec b' b) as [->|]; [|reflexivity].
    destruct (Nat.ltb b (length (m_chains tb))) eqn:E; [apply map_supd_same; exact Hg|].
    apply Nat.ltb_ge in E. rewrite (nth_overflow _ _ E). reflexivity.
  Qed.

  Lemma keys_same_supd T tab0 (f : mtable -> mtable) tab :
    keys_same (tabT T tab0) (f (tabT T tab0)) -> keys_same (tabT T tab) (tabT (supd_nth T tab0 f) tab).
  Proof.
    intros H. rewrite tabT_supd. destruct (Nat.eq_dec tab tab0) as [->|]; [|apply keys_same_refl].
    destruct (Nat.ltb tab0 (length T)); [exact H | apply keys_same_refl].
  Qed.

  Lemma CPT_nolock T T' (p : spc) : nolock p = true -> length T <= length T' -> CPT T p -> CPT T' p.
  Proof.
    intros Hn HL. induction p; cbn [CPT nolock] in *; intros H; auto; try discriminate Hn.
    split; [lia | apply IHp; tauto].
  Qed.

  (* the facts of a program counter only depend on the keys of the chain it has locked *)
  Lemma CPT_ext T T' t (p : spc) : PCI hash idx nslots nstripes T t p -> length T <= length T' ->
    (forall tab b, sholdsT T p = Some (tab, b) -> keys_same_at b (tabT T tab) (tabT T' tab)) ->
    CPT T p -> CPT T' p.
  Proof.
    intros Hpc HL. destruct p; cbn [CPT XS_lock.sholdsT PCI] in *; intros Hk H; auto.
    all: try (rewrite (skey_same T T') by (eapply Hk; reflexivity); exact H).
    all: try (split; [tauto|]; apply (CPT_nolock T T'); tauto).
    - destruct emp; [|exact I]. rewrite (skey_same T T') by (eapply Hk; reflexivity). exact H.
    - split; [lia|]. apply (CPT_nolock T T'); tauto.
  Qed.


  (* ---------------- the stepping thread: its new program counter ---------------- *)

  Lemma cp_goto (S0 : mstate) t q ls : FS (h_frame S0) -> CPT (h_tabs S0) q ->
    CPT (h_tabs (fst (sgoto S0 t q ls))) (h_pc (fst (sgoto S0 t q ls)) t) /\ FS (h_frame (fst (sgoto S0 t q ls))).
  Proof.
    intros HF Hq. destruct (sgoto_shared S0 t q ls) as [[A _] _]. rewrite A.
    destruct (sgoto_cp S0 t q ls (h_tabs S0) HF Hq) as [B [_ C]]. split; assumption.
  Qed.

  Lemma cp_visits (S0 : mstate) t rest vf after ls : FS (h_frame S0) -> fsimple after ->
    CPT (h_tabs (fst (svisits S0 t rest vf after ls))) (h_pc (fst (svisits S0 t rest vf after ls)) t)
    /\ FS (h_frame (fst (svisits S0 t rest vf after ls))).
  Proof.
    intros HF Ha. destruct (svisits_shared S0 t rest vf after ls) as [[A _] _]. rewrite A.
    destruct (svisits_cp S0 t rest vf after ls (h_tabs S0) HF Ha) as [B [_ C]]. split; assumption.
  Qed.

  Lemma scan_found_skey T tab k th w bi emp ne pos vp :
    scan_slots eqd k th w (sbucket_slots nslots (schain_of (tabT T tab) (shome (tabT T tab) k)) bi) (bi * nslots) 0 emp ne = ScFound pos vp ->
    exists k', skey T tab k pos = Some (Some k').
  Proof.
    intros E. destruct (scan_found_key _ _ _ _ _ _ _ _ _ _ E) as [j [k' [A [B C]]]].
    destruct (sbucket_nth _ bi j empty_mslot A) as [D F]. exists k'. rewrite F in C.
    replace pos with (bi * nslots + j) by lia. rewrite skey_at by exact D. rewrite C. reflexivity.
  Qed.

  Lemma scan_miss_skey T tab k th w bi emp ne emp' ne' :
    scan_slots eqd k th w (sbucket_slots nslots (schain_of (tabT T tab) (shome (tabT T tab) k)) bi) (bi * nslots) 0 emp ne = ScMiss emp' ne' ->
    match emp with Some pos => skey T tab k pos = Some None | None => True end ->
    match emp' with Some pos => skey T tab k pos = Some None | None => True end.
  Proof.
    intros E H. destruct (scan_miss_emp _ _ _ _ _ _ _ _ _ _ E) as [->|[j [A [B C]]]]; [exact H|].
    destruct (sbucket_nth _ bi j empty_mslot A) as [D F]. rewrite B. rewrite F in C.
    replace (bi * nslots + 0 + j) with (bi * nslots + j) by lia. rewrite skey_at by exact D. rewrite C. reflexivity.
  Qed.

  Lemma after_lock_cp (S1 : mstate) t tab b lk T :
    CPT T (snd (after_lock hash idx tophash nslots nstripes S1 t tab b lk)).
  Proof.
    unfold after_lock. destruct lk; cbv zeta.
    - exact I.
    - match goal with |- context [scopy_chain ?a ?b ?c ?d ?e ?f] => destruct (scopy_chain a b c d e f) as [nt cp] end.
      cbn [snd CPT]. split; [intros Hn; exfalso; apply Hn; reflexivity|].
      match goal with |- context [Nat.ltb ?x ?y] => destruct (Nat.ltb x y) end; exact I.
    - cbn [snd CPT]. match goal with |- context [Nat.ltb ?x ?y] => destruct (Nat.ltb x y) end; split; try (intros _); exact I.
  Qed.

  Hypothesis Hslots : nslots <= 3.

  Lemma some_fst'' {A B} (g : A * B) a b : Some g = Some (a, b) -> a = fst g.
  Proof. intros H. inversion H. reflexivity. Qed.

  Lemma XC_t s t p s' ls : XL s -> XC s -> h_pc s t = p -> sstep_pc s t p = Some (s', ls) ->
    CPT (h_tabs s') (h_pc s' t) /\ FS (h_frame s').
  Proof.
    intros HS HC Hp Hs. pose proof (xc_pc s HC t) as Hcp. rewrite Hp in Hcp. pose proof (xc_fr s HC) as HF.
    pose proof (xl_pc _ _ _ _ s HS t) as Hpc. rewrite Hp in Hpc.
    destruct p; cbn [XMachineS.sstep_pc] in Hs; cbv zeta in Hs;
      repeat match type of Hs with context [match ?x with _ => _ end] => destruct x eqn:? end;
      try discriminate Hs; apply some_fst'' in Hs; subst s'; cbn [CPT PCI] in Hcp, Hpc.
    all: try match goal with |- context [srun_cont ?kt] => destruct kt; cbn [srun_cont] end.
    all: try (apply cp_goto; [exact HF | cbn [h_tabs sset_tab sset_flags spush_tab sbump CPT];
                                          repeat match goal with |- _ /\ _ => split end;
                                          try exact I; try (intros Hn; exfalso; apply Hn; reflexivity); try tauto]).
    all: try (rewrite supd_nth_length; tauto).
    all: try (apply (CPT_nolock (h_tabs s)); [tauto | rewrite supd_nth_length; lia | tauto]).
    all: try (rewrite (skey_same (h_tabs s));
              [ exact Hcp | apply keys_same_supd; first [apply keys_same_set_words | apply keys_same_set_val; intros; reflexivity] ]).
    all: try match goal with Hx : exists _, skey _ _ _ _ = _ |- _ =>
               destruct Hx as [k0 Hk0]; exists k0; rewrite (skey_same (h_tabs s));
               [ exact Hk0 | apply keys_same_supd; first [apply keys_same_set_words | apply keys_same_set_val; intros; reflexivity] ] end.
    all: try match goal with Hsc : scan_slots _ _ _ _ _ _ _ _ _ = ScFound _ _ |- _ => exact (scan_found_skey _ _ _ _ _ _ _ _ _ _ Hsc) end.
    all: try match goal with Hsc : scan_slots _ _ _ _ _ _ _ _ _ = ScMiss _ _ |- _ => exact (scan_miss_skey _ _ _ _ _ _ _ _ _ _ Hsc Hcp) end.
    - (* the goroutine starts *)
      cbn [fst sset_pc h_tabs h_pc h_frame]. destruct (Nat.eq_dec t t) as [_|Hc]; [|exfalso; apply Hc; reflexivity]. split; [exact I | exact HF].
    - (* lockBucket's CAS succeeded *)
      match goal with Ha : after_lock _ _ _ _ _ ?S1 ?T ?TAB ?B ?LK = (_, _) |- _ =>
        pose proof (after_lock_ok hash idx tophash nslots nstripes S1 T TAB B LK) as [_ [A2 _]];
        pose proof (after_lock_cp S1 T TAB B LK (h_tabs m)) as A3; rewrite Ha in A2, A3; cbn [fst snd] in A2, A3 end.
      apply cp_goto; [rewrite A2; exact HF | exact A3].
    - (* unlockBucket of a Range *)
      apply cp_visits; [exact HF | apply Hcp; discriminate].
  Qed.


  (* ---------------- the other threads: their locked chains are not touched ---------------- *)

  Hypothesis Hidx : forall h len, 0 < len -> idx h len < len.
  Hypothesis Hminlen : 0 < minlen.

  Lemma holds_tab_lt T t (p : spc) tab b : PCI hash idx nslots nstripes T t p -> sholdsT T p = Some (tab, b) -> tab < length T.
  Proof. destruct p; cbn [PCI XS_lock.sholdsT]; intros H E; try discriminate E; inversion E; subst; unfold inr in *; tauto. Qed.

  Lemma holds_tabs_le n T (p : spc) tab b : tabs_le n p -> sholdsT T p = Some (tab, b) -> tab <= n.
  Proof. destruct p; cbn [tabs_le XS_lock.sholdsT]; intros H E; try discriminate E; inversion E; subst; tauto. Qed.

  Lemma swake_CPT T (p : spc) : CPT T p -> CPT T (swake p).
  Proof. destruct p; cbn; auto. Qed.

  Lemma XC_oth s t p s' ls u : XL s -> XT s -> XC s -> h_pc s t = p -> sstep_pc s t p = Some (s', ls) -> u <> t ->
    CPT (h_tabs s') (h_pc s' u).
  Proof.
    intros HS HT HC Hp Hs Hne.
    pose proof (sstep_pc_eff eqd hash idx tophash nslots seeds grow_needed shrink_policy nstripes minlen grow_only
                  Hslots Hidx Hminlen s t p s' ls HS Hp Hs) as HE.
    assert (Hc : CPT (h_tabs s') (h_pc s u)).
    { apply (CPT_ext (h_tabs s) (h_tabs s') u); [apply (xl_pc _ _ _ _ s HS) | apply (se_ext _ _ _ _ _ _ _ HE) | | apply (xc_pc s HC)].
      intros tab b Hh. pose proof (holds_tab_lt _ _ _ _ _ (xl_pc _ _ _ _ s HS u) Hh) as Htab.
      destruct (se_ext _ _ _ _ _ _ _ HE) as [_ X]. destruct (X tab Htab) as [E1 E2]. split; [exact E1 | split; [exact E2|]].
      destruct (step_cells_frame eqd hash idx tophash nslots seeds grow_needed shrink_policy nstripes minlen grow_only Hslots
                  s t p s' ls HS Hp Hs tab b Htab) as [C|[C|C]].
      - unfold cells in C. injection C as C1 C2.
        change (schain_of (tabT (h_tabs s') tab) b = schain_of (tabT (h_tabs s) tab) b) in C1. rewrite C1. reflexivity.
      - exfalso. apply Hne. apply (lock_mutex hash idx nslots nstripes s u t tab b HS); [exact Hh | rewrite Hp; exact C].
      - exfalso. destruct (xt_pc s HT t) as [_ Hn]. rewrite Hp in Hn. destruct (Hn tab C) as [_ Hlt].
        destruct (xt_pc s HT u) as [Hle _]. pose proof (holds_tabs_le _ _ _ _ _ Hle Hh). lia. }
    destruct (se_oth _ _ _ _ _ _ _ HE u Hne) as [E|E]; rewrite E; [exact Hc | apply swake_CPT; exact Hc].
  Qed.


  (* ---------------- the counter stripes of every table are there ---------------- *)

  Hypothesis Hstripes : forall len, 0 < nstripes len.

  Definition sized (tb : mtable) : Prop := 0 < length (m_size tb).

  Lemma htabs_goto (S0 : mstate) t q ls : h_tabs (fst (sgoto S0 t q ls)) = h_tabs S0.
  Proof. destruct (sgoto_shared S0 t q ls) as [[A _] _]. exact A. Qed.
  Lemma htabs_visits (S0 : mstate) t rest vf after ls : h_tabs (fst (svisits S0 t rest vf after ls)) = h_tabs S0.
  Proof. destruct (svisits_shared S0 t rest vf after ls) as [[A _] _]. exact A. Qed.

  Lemma sappend_size (tb : mtable) b th k vp : m_size (sappend nslots tb b th k vp) = m_size tb.
  Proof. unfold sappend. destruct (first_nil_key _ _); reflexivity. Qed.

  Lemma scopy_size src (dst : mtable) : m_size (fst (scopy_chain hash idx tophash nslots src dst)) = m_size dst.
  Proof.
    unfold scopy_chain. generalize 0%Z. revert dst. induction src as [|sl r IH]; intros dst z; cbn [fold_left fst]; [reflexivity|].
    destruct (ms_key sl) as [k|]; [|apply IH]. cbn [fst snd]. rewrite IH. apply sappend_size.
  Qed.

  Lemma sized_new len seed : sized (new_mtable nslots nstripes len seed : mtable).
  Proof. unfold sized, new_mtable. cbn [m_size]. rewrite repeat_length. apply Hstripes. Qed.

  Lemma sized_tabT T i : Forall sized T -> sized (tabT T i).
  Proof.
    intros H. unfold XS_lock.tabT. destruct (Nat.lt_ge_cases i (length T)) as [L|L].
    - rewrite Forall_forall in H. apply H. apply nth_In. exact L.
    - rewrite nth_overflow by exact L. apply sized_new.
  Qed.

  Lemma after_lock_sizes (S1 : mstate) t tab b lk : Forall sized (h_tabs S1) ->
    Forall sized (h_tabs (fst (after_lock hash idx tophash nslots nstripes S1 t tab b lk))).
  Proof.
    intros H. unfold after_lock. destruct lk; cbv zeta; try exact H.
    match goal with |- context [scopy_chain ?a ?b ?c ?d ?e ?f] => destruct (scopy_chain a b c d e f) as [nt cp] eqn:Ec end.
    cbn [fst h_tabs sset_tab]. apply Forall_supd_nth; [exact H|]. intros _ _.
    unfold sized, sadd_size. cbn [m_size]. rewrite supd_nth_length.
    pose proof (scopy_size (schain_of (stab_at S1 tab) b) (stab_at S1 new)) as E. rewrite Ec in E. cbn [fst] in E. rewrite E.
    apply (sized_tabT (h_tabs S1) new H).
  Qed.

  Lemma step_sizes s t p s' ls : sstep_pc s t p = Some (s', ls) -> Forall sized (h_tabs s) -> Forall sized (h_tabs s').
  Proof.
    intros Hs H.
    destruct p; cbn [XMachineS.sstep_pc] in Hs; cbv zeta in Hs;
      repeat match type of Hs with context [match ?x with _ => _ end] => destruct x eqn:? end;
      try discriminate Hs; apply some_fst'' in Hs; subst s'; rewrite ?htabs_goto, ?htabs_visits;
      cbn [fst h_tabs sset_pc sset_tab sset_flags spush_tab sbump]; try exact H.
    all: try (apply Forall_supd_nth; [exact H|]; intros x Hx; unfold sized, sadd_size in *; cbn [m_size sset_word sset_words sset_slot sset_chain];
              rewrite ?supd_nth_length; exact Hx).
    all: try (apply Forall_app; split; [exact H | constructor; [apply sized_new | constructor]]).
    match goal with Ha : after_lock _ _ _ _ _ ?S1 ?T ?TAB ?B ?LK = (_, _) |- _ =>
      pose proof (after_lock_sizes S1 T TAB B LK) as A; rewrite Ha in A; cbn [fst] in A; apply A end.
    cbn [h_tabs sset_tab]. apply Forall_supd_nth; [exact H|]. intros x Hx. exact Hx.
  Qed.


  Theorem XC_step_pc s t p s' ls : XL s -> XT s -> XC s -> h_pc s t = p -> sstep_pc s t p = Some (s', ls) -> XC s'.
  Proof.
    intros HS HT HC Hp Hs. destruct (XC_t s t p s' ls HS HC Hp Hs) as [A B]. constructor.
    - intros u. destruct (Nat.eq_dec u t) as [->|Hne]; [exact A | eapply XC_oth; eassumption].
    - exact B.
    - eapply step_sizes; [exact Hs | apply (xc_size s HC)].
  Qed.

  Lemma sstart_cp (o : @sop K V) T : CPT T (sstart_pc o) /\ forall tab, owed tab (sstart_pc o) = 0%Z.
  Proof. destruct o; cbn [sstart_pc]; try (split; [exact I | reflexivity]). apply start_cx_cp. Qed.

  (* the state after the invocation of the next call of an idle thread *)
  Definition sinvoke (s : mstate) (t : nat) (o : @sop K V) (rest : list (@sop K V)) : mstate :=
    {| h_tabs := h_tabs s; h_cur := h_cur s; h_resizing := h_resizing s; h_rmu := h_rmu s;
       h_growths := h_growths s; h_shrinks := h_shrinks s; h_alloc := h_alloc s;
       h_pc := fun t' => if Nat.eq_dec t' t then sstart_pc o else h_pc s t';
       h_todo := fun t' => if Nat.eq_dec t' t then rest else h_todo s t'; h_frame := h_frame s |}.

  Lemma invoke_inv s t o rest : h_pc s t = QIdle -> SI s -> XL s -> XT s -> XC s ->
    SI (sinvoke s t o rest) /\ XL (sinvoke s t o rest) /\ XT (sinvoke s t o rest) /\ XC (sinvoke s t o rest).
  Proof.
    intros Hp HI HS HT HC. set (s1 := sinvoke s t o rest).
    destruct (sstart_plain o) as [[P1 [P2 [P3 [P4 P5]]]] Pw].
    destruct (sstart_nolock hash idx nslots nstripes o (h_tabs s) t) as [N1 N2].
    destruct (sstart_tp o (h_cur s)) as [Q1 Q2]. destruct (sstart_cp o (h_tabs s)) as [R1 R2].
    assert (Hpc : forall u, h_pc s1 u = if Nat.eq_dec u t then sstart_pc o else h_pc s u) by reflexivity.
    assert (Hsame : forall (f : spc -> bool), f (sstart_pc o) = false -> f QIdle = false -> forall u, f (h_pc s1 u) = f (h_pc s u)).
    { intros f F1 F2 u. rewrite Hpc. destruct (Nat.eq_dec u t) as [->|]; [rewrite Hp; congruence | reflexivity]. }
    assert (Hh : forall u, sholds s1 (h_pc s1 u) = sholds s (h_pc s u)).
    { intros u. unfold XS_lock.sholds. rewrite Hpc. change (h_tabs s1) with (h_tabs s). destruct (Nat.eq_dec u t) as [->|]; [|reflexivity].
      rewrite Hp. apply nolock_holds. exact N1. }
    assert (Ht : h_tabs s1 = h_tabs s) by reflexivity. assert (Hc : h_cur s1 = h_cur s) by reflexivity.
    assert (Hf : h_frame s1 = h_frame s) by reflexivity.
    assert (Hm : h_rmu s1 = h_rmu s) by reflexivity. assert (Hz : h_resizing s1 = h_resizing s) by reflexivity.
    clearbody s1.
    split; [|split; [|split]].
    - constructor; rewrite ?Hm, ?Hz, ?Hf.
      + intros u. rewrite Hpc. destruct (Nat.eq_dec u t); [exact Pw | apply (si_wf s HI)].
      + intros u. rewrite (Hsame smu P1 eq_refl). apply (si_muA s HI).
      + intros u H. rewrite (Hsame smu P1 eq_refl). apply (si_muB s HI u H).
      + intros u. rewrite (Hsame srz P2 eq_refl). apply (si_rzA s HI).
      + intros u u'. rewrite !(Hsame srz P2 eq_refl). apply (si_rzB s HI).
      + intros H. destruct (si_rzC s HI H) as [u Hu]. exists u. rewrite (Hsame srz P2 eq_refl). exact Hu.
      + intros u. rewrite (Hsame swait P4 eq_refl). apply (si_wait s HI).
      + intros u. rewrite (Hsame swaiting P3 eq_refl). intros H. destruct (si_waiting s HI u H) as [A|[w A]]; [left; exact A|].
        right. exists w. rewrite (Hsame sbcast P5 eq_refl). exact A.
      + apply (si_frame s HI).
    - constructor; rewrite ?Ht, ?Hc, ?Hf.
      + apply (xl_tabs _ _ _ _ s HS).
      + apply (xl_cur _ _ _ _ s HS).
      + intros u. rewrite Hpc. destruct (Nat.eq_dec u t) as [->|]; [exact N2 | apply (xl_pc _ _ _ _ s HS)].
      + apply (xl_frame _ _ _ _ s HS).
      + intros u tab0 b0. rewrite Hh. unfold XS_lock.lock_of. rewrite Ht. apply (xl_lockA _ _ _ _ s HS).
      + intros u tab0 b0. rewrite Hh. unfold XS_lock.lock_of. rewrite Ht. apply (xl_lockB _ _ _ _ s HS u tab0 b0).
    - constructor; rewrite ?Ht, ?Hc, ?Hf; [apply (xt_cur s HT) | | apply (xt_fr s HT)].
      intros u. rewrite Hpc. destruct (Nat.eq_dec u t); [apply TP_none; assumption | apply (xt_pc s HT)].
    - constructor; rewrite ?Ht, ?Hf; [| apply (xc_fr s HC) | apply (xc_size s HC)].
      intros u. rewrite Hpc. destruct (Nat.eq_dec u t); [exact R1 | apply (xc_pc s HC)].
  Qed.


  (* ---------------- the balance of a table ---------------- *)

  Lemma svisits_owed (S0 : mstate) t rest vf after ls x : fsimple after ->
    owed x (h_pc (fst (svisits S0 t rest vf after ls)) t) = 0%Z.
  Proof.
    intros Ha. revert ls. induction rest as [|[k v] r IH]; intros ls; cbn [svisits].
    - destruct after; try contradiction; cbn [fst sset_pc sset_frame h_pc];
        (destruct (Nat.eq_dec t t) as [_|Hc]; [|exfalso; apply Hc; reflexivity]); reflexivity.
    - destruct (vf k v) as [cx|]; [|apply IH]. cbn [fst sset_pc sset_frame h_pc].
      destruct (Nat.eq_dec t t) as [_|Hc]; [|exfalso; apply Hc; reflexivity]. apply start_cx_cp. exact [].
  Qed.

  Lemma sgoto_owed (S0 : mstate) t q ls x : FS (h_frame S0) ->
    owed x (h_pc (fst (sgoto S0 t q ls)) t) = owed x q.
  Proof.
    intros HF. destruct q; cbn [sgoto fst sset_pc h_pc];
      try (destruct (Nat.eq_dec t t) as [_|Hc]; [|exfalso; apply Hc; reflexivity]; reflexivity).
    destruct (h_frame S0 t) as [fr|] eqn:E.
    - apply svisits_owed. apply (HF t fr E).
    - cbn [fst sset_pc h_pc]. destruct (Nat.eq_dec t t) as [_|Hc]; [|exfalso; apply Hc; reflexivity]. reflexivity.
  Qed.

  (* keys minus counter *)
  Definition tbal (tb : mtable) : Z := (tcount tb - ssum_z (m_size tb))%Z.
  Definition bal (T : list mtable) (x : nat) (p : spc) : Z := (tbal (tabT T x) - owed x p)%Z.

  Lemma bal_goto (S0 : mstate) t q ls x : FS (h_frame S0) ->
    bal (h_tabs (fst (sgoto S0 t q ls))) x (h_pc (fst (sgoto S0 t q ls)) t) = bal (h_tabs S0) x q.
  Proof. intros HF. unfold bal. rewrite htabs_goto, sgoto_owed by exact HF. reflexivity. Qed.

  Lemma bal_visits (S0 : mstate) t rest vf after ls x : fsimple after ->
    bal (h_tabs (fst (svisits S0 t rest vf after ls))) x (h_pc (fst (svisits S0 t rest vf after ls)) t) = bal (h_tabs S0) x after.
  Proof. intros Ha. unfold bal. rewrite htabs_visits, svisits_owed by exact Ha. rewrite (fsimple_owed _ _ Ha). reflexivity. Qed.

  Lemma tbal_supd T tab0 (f : mtable -> mtable) x d : tab0 < length T -> tbal (f (tabT T tab0)) = (tbal (tabT T tab0) + d)%Z ->
    tbal (tabT (supd_nth T tab0 f) x) = (tbal (tabT T x) + if Nat.eq_dec tab0 x then d else 0)%Z.
  Proof.
    intros Hl Hf. rewrite tabT_supd. destruct (Nat.eq_dec x tab0) as [->|Hne].
    - apply Nat.ltb_lt in Hl. rewrite Hl. destruct (Nat.eq_dec tab0 tab0); [exact Hf | congruence].
    - destruct (Nat.eq_dec tab0 x); [congruence | lia].
  Qed.

  Lemma tbal_set_words (tb : mtable) b g : tbal (sset_words tb b g) = (tbal tb + 0)%Z.
  Proof. unfold tbal. cbn [m_size sset_words]. rewrite tcount_set_words. lia. Qed.

  Lemma tbal_set_val (tb : mtable) b pos g : (forall sl, ms_key (g sl) = ms_key sl) -> tbal (sset_slot tb b pos g) = (tbal tb + 0)%Z.
  Proof.
    intros Hg. unfold tbal, sset_slot. rewrite tcount_set_chain_same; [cbn [m_size sset_chain]; lia|].
    intros c. apply nvis_supd_same. intros sl. unfold counted. rewrite Hg. reflexivity.
  Qed.

  Lemma tbal_add_size (tb : mtable) b d : sized tb -> tbal (sadd_size tb b d) = (tbal tb + - d)%Z.
  Proof. intros H. unfold tbal. rewrite tcount_add_size, size_add_size by exact H. lia. Qed.

  Lemma tbal_set_key (tb : mtable) b pos g ko : b < m_len tb -> pos < length (schain_of tb b) ->
    (forall sl, ms_key (g sl) = ko) ->
    tbal (sset_slot tb b pos g)
    = (tbal tb + (sb1 (match ko with Some _ => true | None => false end) - sb1 (counted (nth pos (schain_of tb b) empty_mslot))))%Z.
  Proof.
    intros Hb Hp Hg. unfold tbal, sset_slot. rewrite tcount_set_chain by exact Hb. rewrite nvis_upd by exact Hp.
    cbn [m_size sset_chain]. unfold counted at 2. rewrite Hg. lia.
  Qed.

  Lemma tbal_app_cell (tb : mtable) b (cell : mslot) n : b < m_len tb -> counted cell = true ->
    tbal (sset_chain tb b (fun c => c ++ cell :: repeat empty_mslot n)) = (tbal tb + 1)%Z.
  Proof.
    intros Hb Hc. unfold tbal. rewrite tcount_set_chain by exact Hb. rewrite nvis_app. cbn [m_size sset_chain].
    unfold nvis at 3. cbn [filter]. rewrite Hc. cbn [length]. fold (nvis (repeat empty_mslot n)). rewrite nvis_repeat_empty. lia.
  Qed.

  Lemma skey_some T tab k pos ko : skey T tab k pos = Some ko ->
    pos < length (schain_of (tabT T tab) (shome (tabT T tab) k))
    /\ ms_key (nth pos (schain_of (tabT T tab) (shome (tabT T tab) k)) empty_mslot) = ko.
  Proof.
    unfold skey. cbv zeta. destruct (Nat.ltb pos _) eqn:E; [|discriminate]. intros H. inversion H. apply Nat.ltb_lt in E. auto.
  Qed.


  (* ---- the resize copy: every copied key adds one key to the new table and one to the tally ---- *)

  Lemma first_nil_spec (c : list mslot) pos0 pos : first_nil_key c pos0 = Some pos ->
    pos0 <= pos < pos0 + length c /\ ms_key (nth (pos - pos0) c empty_mslot) = None.
  Proof.
    revert pos0. induction c as [|x r IH]; intros pos0; cbn [first_nil_key length]; [discriminate|].
    destruct (ms_key x) eqn:E.
    - intros H. destruct (IH _ H) as [A B]. split; [lia|]. replace (pos - pos0) with (S (pos - S pos0)) by lia. exact B.
    - intros H. inversion H; subst. split; [lia|]. rewrite Nat.sub_diag. exact E.
  Qed.

  Lemma tbal_sappend (tb : mtable) b th k vp : b < m_len tb -> tbal (sappend nslots tb b th k vp) = (tbal tb + 1)%Z.
  Proof.
    intros Hb. unfold sappend. destruct (first_nil_key (schain_of tb b) 0) as [pos|] eqn:E.
    - destruct (first_nil_spec _ _ _ E) as [A B]. rewrite Nat.sub_0_r in B.
      unfold sset_word. rewrite tbal_set_words.
      rewrite (tbal_set_key tb b pos _ (Some k)) by (try exact Hb; try lia; reflexivity).
      unfold counted. rewrite B. cbn [sb1]. lia.
    - rewrite tbal_set_words. rewrite tbal_app_cell by (try exact Hb; reflexivity). lia.
  Qed.

  Lemma scopy_tbal src (dst : mtable) : 0 < m_len dst ->
    tbal (fst (scopy_chain hash idx tophash nslots src dst)) = (tbal dst + snd (scopy_chain hash idx tophash nslots src dst))%Z.
  Proof.
    unfold scopy_chain. intros Hl.
    assert (G : forall (acc : mtable * Z), 0 < m_len (fst acc) ->
              let r := fold_left (fun (acc : mtable * Z) s =>
                match ms_key s with
                | Some k => let h := hash k (m_seed (fst acc)) in
                            (sappend nslots (fst acc) (idx h (m_len (fst acc))) (tophash h) k (ms_val s), (snd acc + 1)%Z)
                | None => acc end) src acc in
              (tbal (fst r) - snd r = tbal (fst acc) - snd acc)%Z).
    { induction src as [|sl r IH]; intros acc Ha; cbn [fold_left]; [reflexivity|].
      destruct (ms_key sl) as [k|]; [|apply IH; exact Ha]. cbv zeta.
      set (tb' := sappend nslots (fst acc) _ _ _ _).
      assert (Hl' : m_len tb' = m_len (fst acc)) by (apply (neutral_sappend nslots Hslots)).
      specialize (IH (tb', (snd acc + 1)%Z)). cbn [fst snd] in IH. rewrite Hl' in IH. cbv zeta in IH. rewrite (IH Ha).
      unfold tb'. rewrite tbal_sappend by (apply Hidx; exact Ha). lia. }
    specialize (G (dst, 0%Z) Hl). cbv zeta in G. cbn [fst snd] in G. lia.
  Qed.

  Lemma after_lock_bal (S1 : mstate) t tab b lk x :
    Forall tb_ok (h_tabs S1) -> Forall sized (h_tabs S1) -> (forall new, lk_new lk = Some new -> new < length (h_tabs S1)) ->
    tbal (tabT (h_tabs (fst (after_lock hash idx tophash nslots nstripes S1 t tab b lk))) x) = tbal (tabT (h_tabs S1) x)
    /\ owed x (snd (after_lock hash idx tophash nslots nstripes S1 t tab b lk)) = 0%Z.
  Proof.
    intros Hok Hsz Hn. unfold after_lock. destruct lk; cbv zeta.
    - split; reflexivity.
    - destruct (scopy_chain hash idx tophash nslots (schain_of (stab_at S1 tab) b) (stab_at S1 new)) as [nt cp] eqn:Ec.
      cbn [fst snd h_tabs sset_tab]. split; [|match goal with |- context [Nat.ltb ?a ?c] => destruct (Nat.ltb a c) end; reflexivity].
      rewrite (tbal_supd _ _ _ _ 0%Z); [destruct (Nat.eq_dec new x); lia | apply Hn; reflexivity |].
      pose proof (scopy_tbal (schain_of (stab_at S1 tab) b) (stab_at S1 new)) as E1.
      pose proof (scopy_size (schain_of (stab_at S1 tab) b) (stab_at S1 new)) as E2.
      rewrite Ec in E1, E2. cbn [fst snd] in E1, E2.
      rewrite tbal_add_size by (unfold sized; rewrite E2; apply (sized_tabT (h_tabs S1) new Hsz)).
      rewrite E1 by (apply (tb_ok_tabT nslots nstripes Hslots (h_tabs S1) new Hok)).
      change (stab_at S1 new) with (tabT (h_tabs S1) new). lia.
    - split; [reflexivity|]. cbn [snd owed]. match goal with |- context [Nat.ltb ?a ?c] => destruct (Nat.ltb a c) end; reflexivity.
  Qed.

  (* keys - counter - owed of the stepping thread is unchanged by its step, for every table *)
  Lemma step_balance s t p s' ls x : XL s -> XC s -> h_pc s t = p -> sstep_pc s t p = Some (s', ls) ->
    x < length (h_tabs s) ->
    bal (h_tabs s') x (h_pc s' t) = bal (h_tabs s) x p.
  Proof.
    intros HS HC Hp Hs Hx. pose proof (xc_pc s HC t) as Hcp. rewrite Hp in Hcp. pose proof (xc_fr s HC) as HF.
    pose proof (xl_pc _ _ _ _ s HS t) as Hpc. rewrite Hp in Hpc.
    pose proof (xl_tabs _ _ _ _ s HS) as Hok. pose proof (xc_size s HC) as Hsz.
    destruct p; cbn [XMachineS.sstep_pc] in Hs; cbv zeta in Hs;
      repeat match type of Hs with context [match ?x with _ => _ end] => destruct x eqn:? end;
      try discriminate Hs; apply some_fst'' in Hs; subst s'; cbn [CPT PCI] in Hcp, Hpc.
    all: try match goal with |- context [srun_cont ?kt] => destruct kt; cbn [srun_cont] end.
    all: try (rewrite bal_goto by exact HF; cbn [h_tabs sset_tab sset_flags spush_tab sbump]; unfold bal; cbn [owed]; try reflexivity).
    all: try (unfold XS_lock.tabT; rewrite app_nth1 by exact Hx; reflexivity).
    all: try (rewrite (tbal_supd _ _ _ _ 0%Z);
              [ destruct (Nat.eq_dec tab x); lia | unfold inr in *; tauto
              | first [apply tbal_set_words | apply tbal_set_val; intros; reflexivity] ]).
    all: try (rewrite (tbal_supd _ _ _ _ (- delta)%Z);
              [ destruct (Nat.eq_dec tab x); lia | tauto | apply tbal_add_size; apply sized_tabT; exact Hsz ]).
    all: try (assert (Hb : shome (tabT (h_tabs s) tab) (sc_k cx) < m_len (tabT (h_tabs s) tab))
                by (apply (shome_lt hash idx Hidx); apply (tb_ok_tabT nslots nstripes Hslots _ _ Hok))).
    all: try change (stab_at s tab) with (tabT (h_tabs s) tab).
    - (* the goroutine starts *)
      cbn [fst sset_pc h_tabs h_pc]. destruct (Nat.eq_dec t t) as [_|Hc]; [|exfalso; apply Hc; reflexivity]. reflexivity.
    - (* lockBucket's CAS succeeded *)
      destruct Hpc as (Hin & Hlk & Hv & Hw).
      destruct (set_lock_tabs nslots nstripes Hslots (h_tabs s) tab b (with_lock v (Some t)) Hin Hok Hw) as [X1 [X2 _]].
      match goal with Ha : after_lock _ _ _ _ _ ?S1 ?T ?TAB ?B ?LK = (_, _) |- _ =>
        pose proof (after_lock_ok hash idx tophash nslots nstripes S1 T TAB B LK) as [_ [A2 _]];
        assert (A3 : tbal (tabT (h_tabs (fst (after_lock hash idx tophash nslots nstripes S1 T TAB B LK))) x) = tbal (tabT (h_tabs S1) x)
                     /\ owed x (snd (after_lock hash idx tophash nslots nstripes S1 T TAB B LK)) = 0%Z);
        [ apply after_lock_bal; [exact X2 | cbn [h_tabs sset_tab]; apply Forall_supd_nth; [exact Hsz | intros y Hy; exact Hy] |]
        | rewrite Ha in A2, A3; cbn [fst snd] in A2, A3 ] end.
      + intros new E. destruct lk; try discriminate E. cbn [lk_new] in E. inversion E; subst. cbn [lkok] in Hlk.
        cbn [h_tabs sset_tab]. rewrite supd_nth_length. exact Hlk.
      + rewrite bal_goto by (rewrite A2; exact HF). unfold bal. destruct A3 as [A3 A4]. rewrite A3, A4. cbn [h_tabs sset_tab owed].
        rewrite (tbal_supd _ _ _ _ 0%Z); [destruct (Nat.eq_dec tab x); lia | apply Hin | apply tbal_set_words].
    - (* unlockBucket of a Range *)
      rewrite bal_visits by (apply Hcp; discriminate). unfold bal. cbn [h_tabs sset_tab owed].
      rewrite (tbal_supd _ _ _ _ 0%Z); [destruct (Nat.eq_dec tab x); lia | apply Hpc | apply tbal_set_words].
    - (* the key pointer of the deleted slot is cleared *)
      destruct Hcp as [k' Hk]. destruct (skey_some _ _ _ _ _ Hk) as [A B].
      rewrite (tbal_supd _ _ _ _ (-1)%Z); [destruct (Nat.eq_dec tab x); lia | exact Hpc |].
      rewrite (tbal_set_key _ _ _ _ None) by (try exact Hb; try exact A; reflexivity). unfold counted. rewrite B. cbn [sb1]. lia.
    - destruct Hcp as [k' Hk]. destruct (skey_some _ _ _ _ _ Hk) as [A B].
      rewrite (tbal_supd _ _ _ _ (-1)%Z); [destruct (Nat.eq_dec tab x); lia | exact Hpc |].
      rewrite (tbal_set_key _ _ _ _ None) by (try exact Hb; try exact A; reflexivity). unfold counted. rewrite B. cbn [sb1]. lia.
    - destruct Hcp as [k' Hk]. destruct (skey_some _ _ _ _ _ Hk) as [A B].
      rewrite (tbal_supd _ _ _ _ (-1)%Z); [destruct (Nat.eq_dec tab x); lia | exact Hpc |].
      rewrite (tbal_set_key _ _ _ _ None) by (try exact Hb; try exact A; reflexivity). unfold counted. rewrite B. cbn [sb1]. lia.
    - (* the key pointer of the inserted slot is set *)
      destruct (skey_some _ _ _ _ _ Hcp) as [A B].
      rewrite (tbal_supd _ _ _ _ 1%Z); [destruct (Nat.eq_dec tab x); lia | exact Hpc |].
      rewrite (tbal_set_key _ _ _ _ (Some (sc_k cx))) by (try exact Hb; try exact A; reflexivity). unfold counted. rewrite B. cbn [sb1]. lia.
    - (* a new bucket with one key is linked *)
      rewrite (tbal_supd _ _ _ _ 1%Z); [destruct (Nat.eq_dec tab x); lia | exact Hpc |].
      rewrite tbal_set_words. rewrite tbal_app_cell by (try exact Hb; reflexivity). lia.
  Qed.


  (* ---------------- a table that a step creates starts empty, with a zero counter ---------------- *)

  Lemma tbal_new len seed : tbal (new_mtable nslots nstripes len seed : mtable) = 0%Z.
  Proof.
    unfold tbal, tcount, new_mtable. cbn [m_chains m_size].
    assert (A : sum_nat (map (@nvis K V) (repeat (repeat empty_mslot nslots) len)) = 0).
    { induction len as [|n IH]; [reflexivity|]. cbn [repeat map sum_nat]. rewrite nvis_repeat_empty. exact IH. }
    assert (B : ssum_z (repeat 0%Z (nstripes len)) = 0%Z).
    { induction (nstripes len) as [|n IH]; [reflexivity|]. cbn [repeat]. unfold ssum_z in *. cbn [fold_right]. rewrite IH. reflexivity. }
    rewrite A, B. reflexivity.
  Qed.

  Lemma after_lock_len (S1 : mstate) t tab b lk :
    length (h_tabs (fst (after_lock hash idx tophash nslots nstripes S1 t tab b lk))) = length (h_tabs S1)
    /\ h_cur (fst (after_lock hash idx tophash nslots nstripes S1 t tab b lk)) = h_cur S1.
  Proof.
    unfold after_lock. destruct lk; cbv zeta; try (split; reflexivity).
    match goal with |- context [scopy_chain ?a ?b ?c ?d ?e ?f] => destruct (scopy_chain a b c d e f) as [nt cp] end.
    cbn [fst h_tabs h_cur sset_tab]. rewrite supd_nth_length. split; reflexivity.
  Qed.

  Lemma hcur_goto (S0 : mstate) t q ls : h_cur (fst (sgoto S0 t q ls)) = h_cur S0.
  Proof. destruct (sgoto_shared S0 t q ls) as [[_ [A _]] _]. exact A. Qed.
  Lemma hcur_visits (S0 : mstate) t rest vf after ls : h_cur (fst (svisits S0 t rest vf after ls)) = h_cur S0.
  Proof. destruct (svisits_shared S0 t rest vf after ls) as [[_ [A _]] _]. exact A. Qed.

  Lemma step_newtabs s t p s' ls : sstep_pc s t p = Some (s', ls) ->
    forall x, length (h_tabs s) <= x < length (h_tabs s') -> tbal (tabT (h_tabs s') x) = 0%Z /\ h_cur s' = h_cur s.
  Proof.
    intros Hs.
    destruct p; cbn [XMachineS.sstep_pc] in Hs; cbv zeta in Hs;
      repeat match type of Hs with context [match ?x with _ => _ end] => destruct x eqn:? end;
      try discriminate Hs; apply some_fst'' in Hs; subst s'; rewrite ?htabs_goto, ?htabs_visits, ?hcur_goto, ?hcur_visits;
      cbn [fst h_tabs h_cur sset_pc sset_tab sset_flags spush_tab sbump];
      rewrite ?supd_nth_length, ?app_length; cbn [length]; intros x Hx; try (exfalso; lia).
    all: try (assert (Ex : x = length (h_tabs s)) by lia; subst x; split; [|reflexivity];
              unfold XS_lock.tabT; rewrite app_nth2 by lia; rewrite Nat.sub_diag; cbn [nth]; apply tbal_new).
    match goal with Ha : after_lock _ _ _ _ _ ?S1 ?T ?TAB ?B ?LK = (_, _) |- _ =>
      pose proof (after_lock_len S1 T TAB B LK) as [A1 A2]; rewrite Ha in A1, A2; cbn [fst h_tabs h_cur sset_tab] in A1, A2;
      rewrite supd_nth_length in A1 end.
    exfalso. lia.
  Qed.

  (* ---------------- the invariant ---------------- *)

  (* every table ever allocated: its keys are the counter plus the additions still owed *)
  Definition XS (ths : list nat) (s : mstate) : Prop :=
    forall x, x < length (h_tabs s) ->
      tcount (tabT (h_tabs s) x) = (ssum_z (m_size (tabT (h_tabs s) x)) + owed_all s x ths)%Z.

  Lemma XS_step_pc ths s t p s' ls : XL s -> XT s -> XC s -> XT s' -> NoDup ths -> In t ths ->
    h_pc s t = p -> sstep_pc s t p = Some (s', ls) -> XS ths s -> XS ths s'.
  Proof.
    intros HS HT HC HT' Hnd Hin Hp Hs HX x Hx.
    pose proof (sstep_pc_eff eqd hash idx tophash nslots seeds grow_needed shrink_policy nstripes minlen grow_only
                  Hslots Hidx Hminlen s t p s' ls HS Hp Hs) as HE.
    destruct (Nat.lt_ge_cases x (length (h_tabs s))) as [Hold|Hge].
    - pose proof (step_balance s t p s' ls x HS HC Hp Hs Hold) as Hb. unfold bal, tbal in Hb.
      rewrite (owed_all_upd s s' x ths t Hnd Hin).
      + rewrite Hp. specialize (HX x Hold). lia.
      + intros u Hu _. destruct (se_oth _ _ _ _ _ _ _ HE u Hu) as [E|E]; rewrite E; [reflexivity | apply owed_swake].
    - destruct (step_newtabs s t p s' ls Hs x (conj Hge Hx)) as [E1 E2]. unfold tbal in E1.
      rewrite owed_all_zero; [lia|]. intros u. eapply owed_le; [apply (xt_pc s' HT' u)|].
      rewrite E2. pose proof (xt_cur s HT). lia.
  Qed.

  Definition XA (s : mstate) : Prop := SI s /\ XL s /\ XT s /\ XC s.

  Lemma XA_sstep s t s' ls : XA s -> sstep s t = Some (s', ls) -> XA s'.
  Proof.
    intros [HI [HS [HT HC]]] E. split; [|split; [|split]].
    - eapply SI_sstep; eassumption.
    - eapply (XL_sstep eqd hash idx tophash nslots seeds grow_needed shrink_policy nstripes minlen grow_only Hslots Hidx Hminlen); eassumption.
    - eapply XT_sstep; eassumption.
    - unfold XMachineS.sstep in E.
      destruct (h_pc s t) eqn:Hp; try (eapply XC_step_pc; [exact HS | exact HT | exact HC | exact Hp | exact E]).
      destruct (h_todo s t) as [|o rest]; [discriminate|].
      destruct (invoke_inv s t o rest Hp HI HS HT HC) as [HI1 [HS1 [HT1 HC1]]].
      change (match sstep_pc (sinvoke s t o rest) t (sstart_pc o) with
              | Some (s2, ls0) => Some (s2, SInv t o :: ls0)
              | None => Some (sinvoke s t o rest, [SInv t o])
              end = Some (s', ls)) in E.
      destruct (sstep_pc (sinvoke s t o rest) t (sstart_pc o)) as [[s2 ls0]|] eqn:E2.
      + inversion E; subst s2 ls. eapply XC_step_pc; [exact HS1 | exact HT1 | exact HC1 | | exact E2].
        cbn [sinvoke h_pc]. destruct (Nat.eq_dec t t); congruence.
      + inversion E; subst s'. exact HC1.
  Qed.

  Lemma XS_sstep ths s t s' ls : XA s -> NoDup ths -> In t ths -> XS ths s -> sstep s t = Some (s', ls) -> XS ths s'.
  Proof.
    intros HA Hnd Hin HX E. destruct (XA_sstep s t s' ls HA E) as [_ [_ [HT' _]]]. destruct HA as [HI [HS [HT HC]]].
    unfold XMachineS.sstep in E.
    destruct (h_pc s t) eqn:Hp;
      try (eapply XS_step_pc; [exact HS | exact HT | exact HC | exact HT' | exact Hnd | exact Hin | exact Hp | exact E | exact HX]).
    destruct (h_todo s t) as [|o rest]; [discriminate|].
    destruct (invoke_inv s t o rest Hp HI HS HT HC) as [HI1 [HS1 [HT1 HC1]]].
    assert (HX1 : XS ths (sinvoke s t o rest)).
    { intros x Hx. change (h_tabs (sinvoke s t o rest)) with (h_tabs s) in *. rewrite (HX x Hx). f_equal.
      symmetry. apply owed_all_same. intros u _. cbn [sinvoke h_pc].
      destruct (Nat.eq_dec u t) as [->|_]; [rewrite Hp; apply sstart_cp; exact [] | reflexivity]. }
    change (match sstep_pc (sinvoke s t o rest) t (sstart_pc o) with
            | Some (s2, ls0) => Some (s2, SInv t o :: ls0)
            | None => Some (sinvoke s t o rest, [SInv t o])
            end = Some (s', ls)) in E.
    destruct (sstep_pc (sinvoke s t o rest) t (sstart_pc o)) as [[s2 ls0]|] eqn:E2.
    - inversion E; subst s2 ls.
      eapply XS_step_pc; [exact HS1 | exact HT1 | exact HC1 | exact HT' | exact Hnd | exact Hin | | exact E2 | exact HX1].
      cbn [sinvoke h_pc]. destruct (Nat.eq_dec t t); congruence.
    - inversion E; subst s'. exact HX1.
  Qed.

  Lemma XS_srun ths sched : Forall (fun t => In t ths) sched -> NoDup ths ->
    forall s, XA s -> XS ths s -> XA (fst (srun s sched)) /\ XS ths (fst (srun s sched)).
  Proof.
    intros Hall Hnd. induction sched as [|t rest IH]; intros s HA HX; cbn [XMachineS.srun]; [split; assumption|].
    inversion Hall as [|? ? Hin Hrest]; subst.
    destruct (sstep s t) as [[s' ls]|] eqn:E.
    - specialize (IH Hrest s' (XA_sstep s t s' ls HA E) (XS_sstep ths s t s' ls HA Hnd Hin HX E)).
      destruct (XMachineS.srun _ _ _ _ _ _ _ _ _ _ _ s' rest) as [s'' ls']. exact IH.
    - apply IH; assumption.
  Qed.

  Lemma XC_init len0 todo : XC (sinit nslots seeds nstripes len0 todo).
  Proof.
    constructor; cbn [sinit h_tabs h_pc h_frame].
    - intros t. exact I.
    - intros u f E. discriminate E.
    - constructor; [apply sized_new | constructor].
  Qed.

  Lemma XS_init ths len0 todo : XS ths (sinit nslots seeds nstripes len0 todo).
  Proof.
    intros x Hx. cbn [sinit h_tabs length] in *. assert (x = 0) by lia. subst x.
    pose proof (tbal_new len0 (seeds 0)) as E. unfold tbal in E. unfold XS_lock.tabT. cbn [nth].
    rewrite owed_all_zero; [lia|]. intros u. reflexivity.
  Qed.

  (* every reachable state, for the threads of any schedule *)
  Theorem reachable_count len0 todo sched : 0 < len0 ->
    XS (nodup Nat.eq_dec sched) (fst (srun (sinit nslots seeds nstripes len0 todo) sched)).
  Proof.
    intros Hl. apply XS_srun.
    - apply Forall_forall. intros t Ht. apply nodup_In. exact Ht.
    - apply NoDup_nodup.
    - split; [apply SI_init | split; [apply (XL_init hash idx nslots seeds nstripes Hslots); exact Hl | split; [apply XT_init | apply XC_init]]].
    - apply XS_init.
  Qed.

  Theorem reachable_XC len0 todo sched : 0 < len0 -> XC (fst (srun (sinit nslots seeds nstripes len0 todo) sched)).
  Proof.
    intros Hl.
    assert (HA : XA (sinit nslots seeds nstripes len0 todo))
      by (split; [apply SI_init | split; [apply (XL_init hash idx nslots seeds nstripes Hslots); exact Hl | split; [apply XT_init | apply XC_init]]]).
    destruct (XS_srun (nodup Nat.eq_dec sched) sched) with (s := sinit nslots seeds nstripes len0 todo) as [[_ [_ [_ H]]] _]; try assumption.
    - apply Forall_forall. intros t Ht. apply nodup_In. exact Ht.
    - apply NoDup_nodup.
    - apply XS_init.
  Qed.

  (* no thread owes anything to table x: its counter is exact.  In particular when every thread is idle *)
  Theorem quiescent_size len0 todo sched x : 0 < len0 ->
    let s := fst (srun (sinit nslots seeds nstripes len0 todo) sched) in
    x < length (h_tabs s) -> (forall t, owed x (h_pc s t) = 0%Z) ->
    ssum_z (m_size (stab_at s x)) = tcount (stab_at s x).
  Proof.
    intros Hl s Hx Hq. pose proof (reachable_count len0 todo sched Hl x Hx) as H. fold s in H.
    rewrite owed_all_zero in H by exact Hq. change (stab_at s x) with (tabT (h_tabs s) x). lia.
  Qed.

  Lemma owed_idle x : owed x (@QIdle K V) = 0%Z /\ owed x (@QStart K V) = 0%Z.
  Proof. split; reflexivity. Qed.

End SCount.
