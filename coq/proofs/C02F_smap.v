(* C02F_smap.v -- stage 1 for XMachineS (Map): linearizability WITH THE FINAL STATE, from the
   invariant LI of XS_linearizable.v exactly as C02F_map.v does it for XMachine. *)
From CacheV Require Import Base SpecMap Lin LinF.
From CacheV.proofs Require X_linpoints.
From CacheV.proofs Require Import LinGen XS_resize XS_abs XS_linpoints XS_linearizable.
From CacheV Require Import XMachineS.
From Coq Require Import NArith.
Local Open Scope nat_scope.

Section SMapFinal.
  Context {K V : Type}.
  Variable eqd : forall a b : K, {a = b} + {a <> b}.
  Variable hash : K -> N -> N.
  Variable idx : N -> nat -> nat.
  Variable tophash : N -> N.
  Variable nslots : nat.
  Variable seeds : nat -> N.
  Variable grow_needed shrink_policy : nat -> Z -> bool.
  Variable nstripes : nat -> nat.
  Variable minlen : nat.
  Variable grow_only : bool.

  Notation sop := (@sop K V).
  Notation sres := (@sres V).
  Notation srun := (@srun K V eqd hash idx tophash nslots seeds grow_needed shrink_policy nstripes minlen grow_only).
  Notation ML := (@XS_linpoints.ML K V eqd).
  Notation amap := (X_linpoints.amap K V).

  Lemma lok_legalF_gen (m : amap) l : LinGen.lok ML m l -> legalF sop sres amap (sspec eqd) m l (LinGen.lrun ML m l).
  Proof.
    revert m. induction l as [|[] l IH]; intros m H; cbn in H |- *.
    - constructor.
    - apply lf_inv. auto.
    - destruct H as [A [B C]]. eapply lf_lin; [split; [exact A | split; [exact B | reflexivity]] | auto].
    - apply lf_res. auto.
  Qed.

  Theorem smachine_linearizable_final :
    @XS_resize.rhyps K hash idx tophash nslots minlen -> forall len0 todo sched, 0 < len0 ->
    (forall t, Forall sokop (todo t)) ->
    let s := fst (srun (sinit nslots seeds nstripes len0 todo) sched) in
    exists mfin : amap,
      linearizableF sop sres amap (sspec eqd) X_linpoints.aempty (shist (snd (srun (sinit nslots seeds nstripes len0 todo) sched))) mfin
      /\ forall k v, sabs hash idx tophash nslots nstripes s k v <-> mfin k = Some v.
  Proof.
    intros Hr len0 todo sched Hl Htodo s.
    destruct (s_LI_reachable_proof eqd hash idx tophash nslots seeds grow_needed shrink_policy nstripes minlen grow_only
                Hr len0 todo sched Hl Htodo) as [G [HL E]]. fold s in HL, E.
    exists (LinGen.lrun ML X_linpoints.aempty (LinGen.gI ML G (h_cur s))). split.
    - exists (LinGen.gI ML G (h_cur s)). split; [exact E|]. split.
      + apply (LinGen.tproto_wf ML). intros t. exists (LinGen.gst ML G t). apply (li_tp _ _ _ _ _ _ s G HL t).
      + apply lok_legalF_gen. apply (li_lok _ _ _ _ _ _ s G HL).
    - assert (Eg : LinGen.lrun ML X_linpoints.aempty (LinGen.gI ML G (h_cur s)) = LinGen.gSE ML G (h_cur s)).
      { unfold LinGen.gI, LinGen.gSE, LinGen.gSS. replace (S (h_cur s)) with (h_cur s + 1) by lia.
        rewrite (LinGen.gflat_app ML), (LinGen.gflat_one ML). cbn [Nat.add]. unfold LinGen.gseg.
        destruct (li_empty _ _ _ _ _ _ s G HL) as [Ec _]. rewrite Ec, app_nil_r. apply (LinGen.lrun_app ML). }
      rewrite Eg. apply (li_agree _ _ _ _ _ _ s G HL (h_cur s) (le_n _)).
  Qed.

End SMapFinal.
Print Assumptions smachine_linearizable_final.
