(* C02T_good.v -- C02_good.v's [good] for a clock that advances during the call.

   [goodT o ci p now S owe nfn]: the call o, invoked at clock ci, having reached
   the program point p while the clock stands at [now] OR LATER, will answer what
   LinT.v's specification allows, whatever the other threads do to the shared map
   and however much time passes in between.

   What is new with respect to [good]:
   - every clock read and every map call is quantified over the clock of that
     instant (any now' >= now);
   - the linearization status is a SET S of candidates (None = not yet marked,
     Some (r, tau) = marked, will answer r, used the timestamp tau).  Where the
     mark of a call has to be placed can depend on clock reads the call has not
     made yet (Get: the Load is the point if the entry is still live at the read
     that follows, else the re-checking Compute is; GetWithTTL: the answer contains a
     clock value read after the mark).  A step may add candidates ([link]) and a clock read
     discards those it falsifies; the main theorem (C02T_lin.v) reads the sets
     backwards, from the end of the run. *)
From CacheV Require Import Base SpecMap Client CacheModel Ops SpecTTL Lin LinT Conc.
From CacheV.gen Require Import Params.
From CacheV.proofs Require Import C01_sim C01_ops C02_good.

Section GoodT.
  Context {K V : Type}.
  Variable eqd : forall a b : K, {a = b} + {a <> b}.
  Variable zero : V.
  Variable DFLT : Z.
  Variable CB : cbid.

  Notation item := (item V).
  Notation cop := (cop K V).
  Notation cres := (cres K V).
  Notation prog := (prog K V).

  (* the state of the phase at clock now *)
  Notation mkT now := (mk now DFLT CB).
  Notation RmT now := (Rm eqd now DFLT CB).

  Definition lstat := option (cres * Z)%type.
  Definition lset := lstat -> Prop.

  (* how a candidate x' after a step at clock now descends from a candidate x before it:
     unchanged, or the step was the call's mark *)
  Definition link (o : cop) (ci now : Z) (L L' : amap K item) (x x' : lstat) : Prop :=
    (x' = x /\ L' = L)
    \/ (x = None /\ exists r tau, x' = Some (r, tau) /\ stampT o ci now tau
                                  /\ tspecT eqd zero (mkT now L) tau o r (mkT now L')).

  (* what a map step at clock now must achieve: new candidates S' and ONE specification map L' *)
  Definition call_okT (o : cop) (ci now : Z) (S : lset) (P' L : amap K item) (G : lset -> Prop) : Prop :=
    exists (S' : lset) (L' : amap K item),
      (exists x', S' x') /\ RmT now P' L' /\ G S'
      /\ forall x', S' x' -> exists x, S x /\ link o ci now L L' x x'.

  Fixpoint goodT (o : cop) (ci : Z) (p : prog cres) {struct p} : Z -> lset -> list (K * V) -> nat -> Prop :=
    fun now S owe nfn =>
    match p with
    | Ret r => (forall x, S x -> exists tau, x = Some (r, tau) /\ tau <= now) /\ owe = [] /\ fn_ok o r nfn
    | ReadNow k =>
        forall now', now <= now' ->
          exists S' : lset, (exists x, S' x) /\ (forall x, S' x -> S x) /\ goodT o ci (k now') now' S' owe nfn
    | ReadDflt k => goodT o ci (k DFLT) now S owe nfn
    | ReadCb k => goodT o ci (k CB) now S owe nfn
    | WriteDflt _ _ | WriteCb _ _ => False
    | Emit e k =>
        match e with
        | EFire c k0 v => exists owe', CB = Some c /\ owe = (k0, v) :: owe' /\ goodT o ci k now S owe' nfn
        | EFn _ => False
        | EVisit _ _ => goodT o ci k now S owe nfn
        end
    | MapCall mo k =>
        forall now', now <= now' -> forall P L, RmT now' P L ->
          match mo with
          | CSnapshot => forall l, call_okT o ci now' S P L (fun S' => goodT o ci (k (RSnap l)) now' S' owe nfn)
          | _ =>
              let '(P', r') := map_step eqd P (to_mop (env0 now' DFLT) mo) in
              call_okT o ci now' S P' L (fun S' =>
                goodT o ci (k r') now' S' (track eqd CB o P P' owe) (nfn + length (fn_events mo r')))
          end
    end.

  (* time may pass *)
  Lemma goodT_mono o ci (p : prog cres) : forall now now2 S owe nfn,
    now <= now2 -> goodT o ci p now S owe nfn -> goodT o ci p now2 S owe nfn.
  Proof.
    induction p as [r|mo k IH|k IH|k IH|d k IH|k IH|c k IH|e k IH]; intros now now2 S owe nfn Hle Hg; cbn [goodT] in *.
    - destruct Hg as [Hs Hr]. split; [|exact Hr]. intros x Hx. destruct (Hs x Hx) as [tau [E Ht]]. exists tau. split; [exact E|lia].
    - intros now' Hle'. apply Hg. lia.
    - intros now' Hle'. apply Hg. lia.
    - eapply IH; eassumption.
    - exact Hg.
    - eapply IH; eassumption.
    - exact Hg.
    - destruct e as [c k0 v|k0|k0 v].
      + destruct Hg as [owe' [A [B C]]]. exists owe'. split; [exact A|]. split; [exact B|]. eapply IH; eassumption.
      + exact Hg.
      + eapply IH; eassumption.
  Qed.

  Lemma call_okT_mono o ci now (S : lset) (P' L : amap K item) (G G' : lset -> Prop) :
    (forall S', G S' -> G' S') -> call_okT o ci now S P' L G -> call_okT o ci now S P' L G'.
  Proof.
    intros HG [S' [L' [A [B [C D]]]]]. exists S', L'. auto.
  Qed.

  (* ---------------- the settings at clock now ---------------- *)

  Lemma expired_mono now now' (i : item) : now <= now' -> expiredWithNow now i = true -> expiredWithNow now' i = true.
  Proof.
    unfold expiredWithNow. intros Hle H. apply andb_true_iff in H. destruct H as [H1 H2].
    apply andb_true_iff. split; [exact H1|]. apply Z.ltb_lt in H2. apply Z.ltb_lt. lia.
  Qed.

  Lemma live_mono now now' (i : item) : now <= now' -> expiredWithNow now' i = false -> expiredWithNow now i = false.
  Proof.
    intros Hle H. destruct (expiredWithNow now i) eqn:E; [|reflexivity].
    rewrite (expired_mono now now' i Hle E) in H. discriminate.
  Qed.

  Lemma RmT_tick now dt (P L : amap K item) : 0 <= dt -> RmT now P L -> RmT (now + dt) P L.
  Proof. intros Hdt HR. exact (R_advance eqd (mkT now P) (mkT now L) dt Hdt HR). Qed.

  (* ---------------- a method that is one map call followed by a pure return, and whose
     specification does not use a timestamp of its own: [good] at every clock is enough ---------------- *)

  Lemma goodT_single (o : cop) ci now mo (k : imres K V -> prog cres) :
    conc_ok o ->
    match mo with CSnapshot => False | _ => True end ->
    (forall r', exists x, k r' = Ret x) ->
    kindT o = SExact ->
    (forall s tau r s', tspecT eqd zero s tau o r s' = (spec_ok eqd zero s o r /\ s' = spec_next eqd zero s o)) ->
    (forall NOW, good eqd zero NOW DFLT CB o None [] 0 (MapCall mo k)) ->
    goodT o ci (MapCall mo k) now (eq None) [] 0.
  Proof.
    intros Hc Hmo Hk Hkind Hdef Hgood. cbn [goodT]. intros now' Hle P L HR.
    specialize (Hgood now'). cbn [good] in Hgood. specialize (Hgood P L HR).
    assert (Hmain : forall P' r' owe' n',
      call_ok eqd zero now' DFLT CB o None P' L (fun lin' => good eqd zero now' DFLT CB o lin' owe' n' (k r')) ->
      call_okT o ci now' (eq None) P' L (fun S' => goodT o ci (k r') now' S' owe' n')).
    { intros P' r' owe' n' H. destruct (Hk r') as [x Hx]. rewrite Hx in *. cbn [call_ok good] in H.
      destruct H as [[_ [Hbad _]]|[res [Hok [HR' [Hres [Howe Hfn]]]]]]; [discriminate|].
      injection Hres as ->.
      exists (eq (Some (x, now'))), (st_map (spec_next eqd zero (mkT now' L) o)).
      split; [eauto|]. split; [exact HR'|]. split.
      - cbn [goodT]. split; [|auto]. intros y <-. exists now'. split; [reflexivity|lia].
      - intros y <-. exists None. split; [reflexivity|]. right. split; [reflexivity|].
        exists x, now'. split; [reflexivity|]. split.
        + unfold stampT. rewrite Hkind. reflexivity.
        + rewrite Hdef. split; [exact Hok|]. symmetry. apply spec_next_mk. exact Hc. }
    destruct mo; try contradiction;
      (destruct (map_step eqd P (to_mop (env0 now' DFLT) _)) as [P' r']; apply Hmain; exact Hgood).
  Qed.

End GoodT.
