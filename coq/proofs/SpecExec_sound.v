(* SpecExec_sound.v -- the boolean checker only accepts what [spec_ok] admits. *)
From CacheV Require Import Base SpecMap Client Ops SpecTTL SpecTTLExec.
From CacheV.gen Require Import Params.

Section Sound.
  Context {K V : Type}.
  Variable eqd : forall a b : K, {a = b} + {a <> b}.
  Variable veqd : forall a b : V, {a = b} + {a <> b}.
  Variable zero : V.

  Lemma nodupb_sound l : nodupb eqd l = true -> NoDup l.
  Proof.
    induction l as [|k t IH]; cbn; [constructor|].
    intros H. apply andb_true_iff in H. destruct H as [H1 H2].
    destruct (in_dec eqd k t); [discriminate|]. constructor; auto.
  Qed.

  Lemma go_onb_sound (f : K -> V -> bool) (l : list (K * V)) : go_onb f l = true ->
    forall pre k v post, l = pre ++ (k, v) :: post -> post <> [] -> f k v = true.
  Proof.
    induction l as [|[k0 v0] t IH]; intros H pre k v post E Hp.
    - destruct pre; discriminate.
    - destruct t as [|p t'].
      + destruct pre as [|q pre]; cbn in E; inversion E; subst; [congruence|]. destruct pre; discriminate.
      + cbn [go_onb] in H. apply andb_true_iff in H. destruct H as [H1 H2].
        destruct pre as [|q pre]; cbn in E; inversion E; subst; [auto|].
        eapply IH; eauto.
  Qed.

  Lemma last_falseb_sound (f : K -> V -> bool) (l : list (K * V)) : last_falseb f l = true ->
    exists pre k v, l = pre ++ [(k, v)] /\ f k v = false.
  Proof.
    unfold last_falseb. intros H. destruct (rev l) as [|[k v] r] eqn:E; [discriminate|].
    exists (rev r), k, v. split.
    - rewrite <- (rev_involutive l), E. reflexivity.
    - apply negb_true_iff in H. exact H.
  Qed.

  Lemma inb_sound l k v : inb eqd veqd l k v = true -> In (k, v) l.
  Proof.
    unfold inb. intros H. apply existsb_exists in H. destruct H as [[k' v'] [Hin H]].
    cbn in H. destruct (eqd k' k); [|discriminate]. destruct (veqd v' v); [|discriminate]. subst. exact Hin.
  Qed.

  Lemma range_okb_sound s f l : range_okb eqd veqd s f l = true -> range_ok eqd s f l.
  Proof.
    unfold range_okb. intros H.
    apply andb_true_iff in H. destruct H as [H H4].
    apply andb_true_iff in H. destruct H as [H H3].
    apply andb_true_iff in H. destruct H as [H1 H2].
    split; [apply nodupb_sound; exact H1|].
    split.
    { intros k v Hin. rewrite forallb_forall in H2. specialize (H2 _ Hin).
      unfold pair_liveb in H2. cbn in H2. destruct (vw eqd s k) as [i|]; [|discriminate].
      destruct (veqd (iv i) v); [|discriminate]. eauto. }
    split; [apply go_onb_sound; exact H3|].
    apply orb_true_iff in H4. destruct H4 as [H4|H4]; [left; apply last_falseb_sound; exact H4|].
    right. apply andb_true_iff in H4. destruct H4 as [H5 H6]. split.
    - intros k v Hin. rewrite forallb_forall in H5. exact (H5 _ Hin).
    - intros k i Hv. rewrite forallb_forall in H6.
      assert (Hk : In k (keys (st_map s))).
      { unfold vw, view in Hv. destruct (lookup eqd k (st_map s)) eqn:E; [|discriminate].
        eapply lookup_in_keys; eauto. }
      specialize (H6 _ Hk). rewrite Hv in H6. apply inb_sound; exact H6.
  Qed.

  Theorem spec_okb_sound s o r : spec_okb eqd veqd zero s o r = true -> spec_ok eqd zero s o r.
  Proof.
    unfold spec_okb. destruct (det eqd zero s o) as [r'|] eqn:Hd.
    - unfold cres_eqb. destruct (cres_eq_dec eqd veqd r r'); [|discriminate]. intros _. subst r'.
      destruct o; cbn in Hd; cbn [spec_ok]; try (inversion Hd; subst; reflexivity); try discriminate.
      destruct f; [discriminate|]. inversion Hd; reflexivity.
    - destruct o; cbn in Hd; try discriminate.
      + destruct f as [f|]; [|discriminate]. destruct r; try discriminate.
        intros H. cbn. eexists; split; [reflexivity|]. apply range_okb_sound; exact H.
      + destruct r; try discriminate.
        intros H. cbn. eexists; split; [reflexivity|]. apply range_okb_sound; exact H.
      + destruct r; try discriminate.
        intros H. cbn. eexists; split; [reflexivity|].
        apply andb_true_iff in H. destruct H as [H1 H2].
        apply Nat.leb_le in H1. apply Nat.leb_le in H2. auto.
  Qed.

End Sound.
