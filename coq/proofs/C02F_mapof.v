(* C02F_mapof.v -- stages 2-3: the cache over XMachine, linearizability WITH FINAL-STATE
   AGREEMENT.

   [cache_over_xmachine_linearizable_final]: every run of the product machine of CX_mapof.v (the
   cache methods of CacheModel over XMachine, every map call executed primitive by primitive;
   conc_ok calls; constant clock; from the empty cache) has a linearization w.r.t. [tspec] whose
   run ends in a specification state s_fin such that
        C01_sim.R (mk NOW DFLT CB l) s_fin,    l = X_count.tpairs (the machine's current table):
   what is physically visible in the machine at the end of the run is related to the
   specification state reached by the linearization exactly as C01 relates the sequential
   cache to SpecTTL (same entry, or absent where the specification's entry has expired).
   This holds at EVERY reachable product state, quiescent or not (calls in flight that have passed
   their linearization store are marked); at a quiescent one every call of the history is marked.
   Chain: X_linearizable's invariant (C02F_map) -> transfer to the cache's map calls (C02F_trans)
   -> the atomic run with the same history ends with that map (C02F_compose) -> the invariant of
   C02_lin relates the atomic run's final map to the final specification state (C02F_lin).
   [count_allowed_at_quiescence]: the hypothesis of C08X's count_answer_allowed, discharged. *)
From CacheV Require Import Base SpecMap Client CacheModel CacheOfModel Ops SpecTTL Lin LinF Conc XMachine.
From CacheV.gen Require Import Params.
From CacheV.proofs Require Import C01_sim C01_hist C02_good C02_methods C02_methods_of C02_lin C02_lin_gen
  X_basic X_lin X_linpoints X_resize X_count X_linearizable
  CX_trans CX_compose CX_product CX_mapof C08X_product C08X_mapof C02F_map C02F_trans C02F_compose C02F_lin.
From Coq Require Import NArith.
Local Open Scope nat_scope.
Local Arguments p_x {K V XS} p.
Local Arguments p_thr {K V XS} p _.
Local Arguments p_todo {K V XS} p _.

(* ---------------- the prophecy with the states AND the well-formedness of the calls ---------------- *)
Section ProphecyOk.
  Context {K V : Type}.
  Variable progs : cop K V -> prog K V (cres K V).
  Variables NOW DFLT : Z.
  Variable CB : cbid.
  Variables XS XO XR : Type.
  Variable step : XS -> nat -> option (XS * list (hev XO XR)).
  Variable todo : XS -> nat -> list XO.
  Variable wtodo : XS -> (nat -> list XO) -> XS.
  Variable xok : XO -> Prop.
  Variable tr : cmop K V -> XO.
  Variable bk : cmop K V -> XR -> imres K V.
  Variable sup : cmop K V -> bool.

  Notation mrun := (mrun XS XO XR step).
  Notation prun := (prun progs NOW DFLT CB XS XO XR step todo wtodo tr bk sup).
  Notation pstep := (pstep progs NOW DFLT CB XS XO XR step todo wtodo tr bk sup).

  Hypothesis H_todo_w : forall s td t, todo (wtodo s td) t = td t.
  Hypothesis H_ww : forall s a b, wtodo (wtodo s a) b = wtodo s b.
  Hypothesis H_frame : forall s t s' h td fut,
    step s t = Some (s', h) -> (forall u, td u = todo s u ++ fut u) ->
    exists td', step (wtodo s td) t = Some (wtodo s' td', h) /\ forall u, td' u = todo s' u ++ fut u.
  Hypothesis H_ok : forall o, mok sup o -> xok (tr o).

  Theorem prophecy_state_ok sched : forall (p : pconf XS),
    exists fut, (forall t, Forall xok (fut t))
      /\ forall s', aheadS XS XO todo wtodo fut (p_x p) s' ->
           exists sched' s'', mrun s' sched' = (s'', snd (prun p sched))
                              /\ aheadS XS XO todo wtodo (fun _ => []) (p_x (fst (fst (prun p sched)))) s''.
  Proof.
    induction sched as [|[t orc] rest IH]; intros p.
    - exists (fun _ => []). split; [intros t; constructor|]. intros s' Ha. exists [], s'. split; [reflexivity | exact Ha].
    - rewrite (prun_cons progs NOW DFLT CB XS XO XR step todo wtodo tr bk sup).
      destruct (pstep p t orc) as [[[p1 os] h]|] eqn:E; [|apply IH].
      cbn [fst snd]. destruct (IH p1) as [fut1 [Hok1 Hf1]].
      destruct (pstep_kind progs NOW DFLT CB XS XO XR step todo wtodo tr bk sup p t orc p1 os h E) as [[Ex Eh]|[[mo [Hmok [Ex Eh]]]|Es]].
      + subst h. exists fut1. split; [exact Hok1|]. intros s' Ha. rewrite <- Ex in Ha. apply (Hf1 s' Ha).
      + subst h. exists (upd fut1 t (tr mo :: fut1 t)). split.
        * intros u. unfold upd. destruct (Nat.eq_dec u t) as [->|]; [constructor; [apply H_ok; exact Hmok | apply Hok1] | apply Hok1].
        * intros s' [td [Es' Htd]]. apply Hf1. rewrite Ex. exists td. split.
          -- unfold CX_product.push. rewrite H_ww. exact Es'.
          -- intros u. unfold CX_product.push. rewrite H_todo_w. rewrite Htd. unfold upd.
             destruct (Nat.eq_dec u t) as [->|]; [rewrite <- app_assoc; reflexivity | reflexivity].
      + exists fut1. split; [exact Hok1|]. intros s' [td [Es' Htd]]. subst s'.
        destruct (H_frame _ _ _ _ td fut1 Es Htd) as [td' [Es1 Htd']].
        destruct (Hf1 (wtodo (p_x p1) td')) as [sched' [s'' [Hs' Ha']]]; [exists td'; split; [reflexivity | exact Htd']|].
        exists (t :: sched'), s''. split; [|exact Ha'].
        rewrite (mrun_cons XS XO XR step), Es1. rewrite Hs'. reflexivity.
  Qed.
End ProphecyOk.

(* a list of pairs without repeated keys that has the lookups of a map related to a specification state *)
Lemma R_same_lookups {K V : Type} (eqd : forall a b : K, {a = b} + {a <> b}) NOW DFLT CB
    (l m : Base.amap K (item V)) (s : cstate K V) :
  NoDup (keys l) -> (forall k, lookup eqd k l = lookup eqd k m) ->
  R eqd (mk NOW DFLT CB m) s -> R eqd (mk NOW DFLT CB l) s.
Proof.
  intros Hnd He HR. destruct HR as [A B C D E F]. constructor; cbn in *; auto.
  intros k. rewrite He. apply F.
Qed.

Lemma lookup_of_pairs {K V : Type} (eqd : forall a b : K, {a = b} + {a <> b}) (l m : Base.amap K V) k :
  NoDup (keys l) -> (forall v, In (k, v) l <-> lookup eqd k m = Some v) -> lookup eqd k l = lookup eqd k m.
Proof.
  intros Hnd H. destruct (lookup eqd k l) as [v|] eqn:El.
  - symmetry. apply H. apply (lookup_In eqd). exact El.
  - destruct (lookup eqd k m) as [v|] eqn:Em; [|reflexivity].
    assert (Hin : In (k, v) l) by (apply H; reflexivity).
    rewrite (In_lookup eqd k v l Hnd Hin) in El. discriminate El.
Qed.

Section CacheFinal.
  Context {K V : Type}.
  Variable eqd : forall a b : K, {a = b} + {a <> b}.
  Variable hash : K -> N -> N.
  Variable idx : N -> nat -> nat.
  Variable tag : N -> N.
  Variable nslots : nat.
  Variable seeds : nat -> N.
  Variable grow_needed shrink_policy : nat -> Z -> bool.
  Variable probe : list (option N) -> N -> list nat.
  Variable nstripes : nat -> nat.
  Variable minlen : nat.
  Variable grow_only : bool.
  Variable len0 : nat.
  Variable zero : V.
  Variable progs : cop K V -> prog K V (cres K V).
  Variables NOW DFLT : Z.
  Variable CB : cbid.

  Notation item := (item V).
  Notation xstate := (@xstate K item).
  Notation xop := (@xop K item).
  Notation xres := (@xres K item).
  Notation env0 := (Conc.env0 NOW DFLT).
  Notation xp_step := (@xp_step K item eqd hash idx tag nslots seeds grow_needed shrink_policy probe nstripes minlen grow_only).
  Notation xrun := (@xrun K item eqd hash idx tag nslots seeds grow_needed shrink_policy probe nstripes minlen grow_only).
  Notation xp_init := (@xp_init K V nslots seeds nstripes len0).
  Notation cxrun := (cxrun eqd hash idx tag nslots seeds grow_needed shrink_policy probe nstripes minlen grow_only progs NOW DFLT CB).
  Notation cxinit := (cxinit nslots seeds nstripes len0).
  Notation cxhist := (cxhist eqd hash idx tag nslots seeds grow_needed shrink_policy probe nstripes minlen grow_only len0 progs NOW DFLT CB).

  Hypothesis Hx : xhyps4 idx nstripes minlen nslots probe.
  Hypothesis Hlen : 0 < len0.
  Hypothesis Hinit : forall o : cop K V, conc_ok o -> good eqd zero NOW DFLT CB o None [] 0 (progs o).

  Theorem cache_over_xmachine_final (todo : nat -> list (cop K V)) sched :
    (forall t, Forall conc_ok (todo t)) ->
    let p := fst (fst (cxrun (cxinit todo) sched)) in
    let tb := tab_at nslots nstripes (p_x p) (g_cur (p_x p)) in
    let l := X_count.tpairs tb in
    exists Lfin,
      linearizableF _ _ _ (tspec eqd zero) (mk NOW DFLT CB []) (cxhist todo sched) (mk NOW DFLT CB Lfin)
      /\ R eqd (mk NOW DFLT CB l) (mk NOW DFLT CB Lfin)
      /\ (forall k v, In (k, v) l <-> X_lin.vis hash idx tb k v) /\ NoDup (map fst l).
  Proof.
    intros Htodo p tb l.
    (* the run, as a combined trace and as a history of the machine *)
    destruct (prun_ok progs NOW DFLT CB xstate xop xres xp_step (@g_todo K item) with_todo (@xidle K item)
                (translate env0) (back env0) xsup (fun s td u => eq_refl) (fun s td u => conj (fun H => H) (fun H => H))
                (@xp_proto K item eqd hash idx tag nslots seeds grow_needed shrink_policy probe nstripes minlen grow_only)
                sched (cxinit todo)) as [Hh Hv].
    { apply PI_init; [intros td u; reflexivity | intros td u; left; reflexivity]. }
    fold cxrun in Hh, Hv.
    (* the machine inside the product sits on a run with todo lists fixed in advance *)
    destruct (prophecy_state_ok progs NOW DFLT CB xstate xop xres xp_step (@g_todo K item) with_todo (okop (K:=K) (V:=item))
                (translate env0) (back env0) xsup (fun s td u => eq_refl) (fun s a b => eq_refl)
                (@xp_frame K item eqd hash idx tag nslots seeds grow_needed shrink_policy probe nstripes minlen grow_only)) with (sched := sched) (p := cxinit todo)
      as [fut [Hok Hf]].
    { intros o Ho. apply translate_okop. unfold mok in Ho. destruct o; cbn in Ho |- *; try exact I; discriminate Ho. }
    destruct (Hf (xp_init fut)) as [sched' [s'' [Hrun [td [Es Htd]]]]].
    { exists fut. split; [reflexivity|]. intros u. reflexivity. }
    fold cxrun in Hrun, Es. fold p in Es.
    assert (Er : s'' = fst (xrun (xp_init fut) sched')).
    { rewrite <- (xp_mrun_fst eqd hash idx tag nslots seeds grow_needed shrink_policy probe nstripes minlen grow_only), Hrun. reflexivity. }
    assert (Eh : snd (cxrun (cxinit todo) sched) = xhist (snd (xrun (xp_init fut) sched'))).
    { rewrite <- (xp_mrun eqd hash idx tag nslots seeds grow_needed shrink_policy probe nstripes minlen grow_only), Hrun. reflexivity. }
    (* stage 1: the machine's linearization and its final map *)
    destruct (xmachine_linearizable_final eqd hash idx tag nslots seeds grow_needed shrink_policy probe nstripes minlen grow_only
                Hx len0 fut sched' Hlen Hok) as [mxf [Hlx Hvis]].
    unfold CX_mapof.xp_init in Er, Eh. rewrite <- Er in Hvis. rewrite <- Eh in Hlx.
    assert (Etb : tab_at nslots nstripes s'' (g_cur s'') = tb) by (rewrite Es; reflexivity).
    rewrite Etb in Hvis.
    (* the cache's map calls *)
    destruct (mapof_lin_transfer_final eqd env0 (snd (cxrun (cxinit todo) sched)) (mproj (snd (fst (cxrun (cxinit todo) sched)))) mxf)
      as [mf [Hlm HRst]].
    { eapply hrel_ok_mono; [|exact Hh]. intros o Ho. unfold mok in Ho. destruct o; cbn in Ho |- *; try exact I; discriminate Ho. }
    { exact Hlx. }
    (* the atomic run *)
    destruct (compose_trace_final eqd progs NOW DFLT CB [] mf todo _ Hv Hlm) as [scheda [Hha Hma]].
    (* its linearization, and the relation between its final map and the final specification state *)
    destruct (gen_linearizable_final eqd zero NOW DFLT CB progs Hinit [] [] todo scheda) as [Lfin [Hlc HRm]].
    { apply C01_hist.R_init. reflexivity. }
    { exact Htodo. }
    rewrite Hha in Hlc. rewrite Hma in HRm.
    (* what is visible in the table *)
    destruct Hx as [[H1 [H2 H3]] [H4 [H5 H6]]].
    pose proof (reachable_inv5 eqd hash idx tag nslots seeds grow_needed shrink_policy probe nstripes minlen grow_only
                  H1 H2 H3 H4 H5 H6 len0 fut sched' Hlen) as H5'. rewrite <- Er in H5'.
    destruct H5' as [[HI [_ [HT HC]]] _].
    destruct (X_count.tpairs_spec hash idx tag nslots nstripes minlen H1 H3 H4 s'' (g_cur s'') HI HC
                (X_inv.xi_cur _ _ _ _ s'' HI) (X_count.cur_public nslots minlen H3 H4 s'' HT)) as [P1 P2].
    rewrite Etb in P1, P2. fold l in P1, P2.
    exists Lfin. split; [exact Hlc|]. split; [|split; [exact P1 | exact P2]].
    apply (R_same_lookups eqd NOW DFLT CB l mf); [exact P2 | | exact HRm].
    intros k. apply lookup_of_pairs; [exact P2|]. intros v. rewrite P1, Hvis, (HRst k). reflexivity.
  Qed.

End CacheFinal.

(* ---------------- the statements ---------------- *)

Section FinalF.
  Context {K V : Type}.
  Variable eqd : forall a b : K, {a = b} + {a <> b}.
  Variable hash : K -> N -> N.
  Variable idx : N -> nat -> nat.
  Variable tag : N -> N.
  Variable nslots : nat.
  Variable seeds : nat -> N.
  Variable grow_needed shrink_policy : nat -> Z -> bool.
  Variable probe : list (option N) -> N -> list nat.
  Variable nstripes : nat -> nat.
  Variable minlen : nat.
  Variable grow_only : bool.
  Variable zero : V.
  Variables NOW DFLT : Z.
  Variable CB : cbid.

  Notation runP progs := (cxrun eqd hash idx tag nslots seeds grow_needed shrink_policy probe nstripes minlen grow_only progs NOW DFLT CB).
  Notation histP progs len0 := (cxhist eqd hash idx tag nslots seeds grow_needed shrink_policy probe nstripes minlen grow_only len0 progs NOW DFLT CB).

  Theorem cache_over_xmachine_linearizable_final :
    xhyps4 idx nstripes minlen nslots probe -> forall len0 (todo : nat -> list (cop K V)) sched, 0 < len0 ->
    (forall t, Forall conc_ok (todo t)) ->
    let p := fst (fst (runP (prog_cache eqd zero) (cxinit nslots seeds nstripes len0 todo) sched)) in
    let tb := tab_at nslots nstripes (p_x p) (g_cur (p_x p)) in
    let l := X_count.tpairs tb in
    exists Lfin,
      linearizableF _ _ _ (tspec eqd zero) (mk NOW DFLT CB []) (histP (prog_cache eqd zero) len0 todo sched) (mk NOW DFLT CB Lfin)
      /\ R eqd (mk NOW DFLT CB l) (mk NOW DFLT CB Lfin)
      /\ (forall k v, In (k, v) l <-> X_lin.vis hash idx tb k v) /\ NoDup (map fst l).
  Proof.
    intros Hx len0 todo sched Hlen Htodo.
    apply (cache_over_xmachine_final eqd hash idx tag nslots seeds grow_needed shrink_policy probe nstripes minlen grow_only
             len0 zero (prog_cache eqd zero) NOW DFLT CB Hx Hlen (good_init eqd zero NOW DFLT CB) todo sched Htodo).
  Qed.

  Theorem cacheof_over_xmachine_linearizable_final :
    xhyps4 idx nstripes minlen nslots probe -> forall len0 (todo : nat -> list (cop K V)) sched, 0 < len0 ->
    (forall t, Forall conc_ok (todo t)) ->
    let p := fst (fst (runP (prog_cacheof eqd zero) (cxinit nslots seeds nstripes len0 todo) sched)) in
    let tb := tab_at nslots nstripes (p_x p) (g_cur (p_x p)) in
    let l := X_count.tpairs tb in
    exists Lfin,
      linearizableF _ _ _ (tspec eqd zero) (mk NOW DFLT CB []) (histP (prog_cacheof eqd zero) len0 todo sched) (mk NOW DFLT CB Lfin)
      /\ R eqd (mk NOW DFLT CB l) (mk NOW DFLT CB Lfin)
      /\ (forall k v, In (k, v) l <-> X_lin.vis hash idx tb k v) /\ NoDup (map fst l).
  Proof.
    intros Hx len0 todo sched Hlen Htodo.
    apply (cache_over_xmachine_final eqd hash idx tag nslots seeds grow_needed shrink_policy probe nstripes minlen grow_only
             len0 zero (prog_cacheof eqd zero) NOW DFLT CB Hx Hlen (good_init_of eqd zero NOW DFLT CB) todo sched Htodo).
  Qed.

  (* what the final-state agreement buys: ANY cache call made sequentially afterwards on the content of the table
     (Get, GetWithTTL, Count, Range, ... : the sequential cache of C01 started on the pairs l) answers what SpecTTL
     allows in the final state of the linearization; so does the call after it (the relation R is kept), and so on.
     In particular a deleted, cleared or expired value does not reappear and a completed unexpired write is there. *)
  Theorem sequential_call_after_final :
    xhyps4 idx nstripes minlen nslots probe -> forall len0 (todo : nat -> list (cop K V)) sched, 0 < len0 ->
    (forall t, Forall conc_ok (todo t)) ->
    let p := fst (fst (runP (prog_cache eqd zero) (cxinit nslots seeds nstripes len0 todo) sched)) in
    let l := X_count.tpairs (tab_at nslots nstripes (p_x p) (g_cur (p_x p))) in
    exists Lfin,
      linearizableF _ _ _ (tspec eqd zero) (mk NOW DFLT CB []) (histP (prog_cache eqd zero) len0 todo sched) (mk NOW DFLT CB Lfin)
      /\ forall o, match o with OAdvance dt => (0 <= dt)%Z | _ => True end ->
           let '(m', r, evs) := step_cache eqd zero (mk NOW DFLT CB l) o in
           spec_ok eqd zero (mk NOW DFLT CB Lfin) o r /\ R eqd m' (SpecTTL.spec_next eqd zero (mk NOW DFLT CB Lfin) o).
  Proof.
    intros Hx len0 todo sched Hlen Htodo p l.
    destruct (cache_over_xmachine_linearizable_final Hx len0 todo sched Hlen Htodo) as [Lfin [Hl [HR _]]].
    exists Lfin. split; [exact Hl|]. intros o Ho. exact (C01_ops.sim_step eqd zero o Ho _ _ HR).
  Qed.

  (* the hypothesis of C08X's count_answer_allowed, discharged: the number of pairs of the table -- what Count answers
     at quiescence (C08X_mapof.cache_count_quiescent_over_xmachine) -- is what SpecTTL allows in the final state of the
     linearization: live_keys <= n <= entries of the specification *)
  Theorem count_allowed_at_final :
    xhyps4 idx nstripes minlen nslots probe -> forall len0 (todo : nat -> list (cop K V)) sched, 0 < len0 ->
    (forall t, Forall conc_ok (todo t)) ->
    let p := fst (fst (runP (prog_cache eqd zero) (cxinit nslots seeds nstripes len0 todo) sched)) in
    let l := X_count.tpairs (tab_at nslots nstripes (p_x p) (g_cur (p_x p))) in
    exists Lfin,
      linearizableF _ _ _ (tspec eqd zero) (mk NOW DFLT CB []) (histP (prog_cache eqd zero) len0 todo sched) (mk NOW DFLT CB Lfin)
      /\ spec_ok eqd zero (mk NOW DFLT CB Lfin) OCount (CNat (length l))
      /\ (length (live_keys eqd (mk NOW DFLT CB Lfin)) <= length l <= length Lfin).
  Proof.
    intros Hx len0 todo sched Hlen Htodo p l.
    destruct (cache_over_xmachine_linearizable_final Hx len0 todo sched Hlen Htodo) as [Lfin [Hl [HR _]]].
    exists Lfin. split; [exact Hl|].
    pose proof (count_answer_allowed eqd zero NOW DFLT CB l _ HR) as Hc. split; [exact Hc|].
    cbn [spec_ok] in Hc. destruct Hc as [n [En Hn]]. inversion En; subst n. exact Hn.
  Qed.

End FinalF.

Print Assumptions cache_over_xmachine_linearizable_final.
Print Assumptions cacheof_over_xmachine_linearizable_final.
Print Assumptions sequential_call_after_final.
Print Assumptions count_allowed_at_final.
