(* X_inst.v -- the executable instance of XMachine (XExec: the numbers of
   mapof.go) meets the hypotheses under which the protocol theorems are proved. *)
From CacheV Require Import Base SpecMap XMachine TabExec Exec XExec.
From CacheV.gen Require Import Params.
From Coq Require Import NArith Lia.

Lemma N_land_le_r a b : (N.land a b <= b)%N.
Proof.
  assert (E : b = (N.land b a + N.ldiff b a)%N).
  { rewrite N.add_nocarry_lxor.
    - rewrite N.lxor_lor.
      + rewrite N.lor_comm. symmetry. apply N.lor_ldiff_and.
      + apply N.bits_inj. intros n. rewrite N.land_spec, N.land_spec, N.ldiff_spec, N.bits_0.
        destruct (N.testbit b n), (N.testbit a n); reflexivity.
    - apply N.bits_inj. intros n. rewrite N.land_spec, N.land_spec, N.ldiff_spec, N.bits_0.
      destruct (N.testbit b n), (N.testbit a n); reflexivity. }
  rewrite (N.land_comm a b). lia.
Qed.

Lemma idx_mapof_lt h len : (0 < len)%nat -> (idx_mapof h len < len)%nat.
Proof.
  intros H. unfold idx_mapof.
  pose proof (N_land_le_r (N.shiftr h 7) (N.of_nat len - 1)). lia.
Qed.

Lemma nstripes_x_pos len : (0 < nstripes_x len)%nat.
Proof.
  unfold nstripes_x. destruct (Nat.ltb _ _) eqn:E1; [vm_compute; lia|].
  destruct (Nat.ltb (Z.to_nat maxMapCounterLen) _) eqn:E2; [vm_compute; lia|].
  apply Nat.ltb_ge in E1. change (Z.to_nat minMapCounterLen) with 8%nat in E1. lia.
Qed.

Lemma next_pow2_ge f : forall p v, (0 < p)%Z -> (p <= next_pow2_fuel f p v)%Z.
Proof.
  induction f as [|f IH]; intros p v Hp; cbn [next_pow2_fuel]; [lia|].
  destruct (v <=? p)%Z; [lia|]. specialize (IH (2 * p)%Z v). lia.
Qed.

Lemma minlen_of_hint_pos variant hint : (0 < minlen_of_hint variant hint)%nat.
Proof.
  unfold minlen_of_hint. destruct (hint <=? _)%Z; [vm_compute; lia|].
  pose proof (next_pow2_ge 40 1 (hint * mapLoadFactor_den / (Z.of_nat (nslots_of variant) * mapLoadFactor_num)) ltac:(lia)).
  unfold nextPowOf2. lia.
Qed.

From CacheV.proofs Require Import X_c13.
Lemma x_instance_hyps hint : xhyps idx_mapof nstripes_x (minlen_of_hint true hint).
Proof. split; [exact idx_mapof_lt | split; [exact nstripes_x_pos | apply minlen_of_hint_pos]]. Qed.
