(* XS_own.v -- who may touch what in XMachineS (map.go):
     XT   table-index discipline in every reachable state: a thread (its program
          counter with the continuations it carries, and the Range frame below a
          visitor's call) only refers to tables that were current at some time
          (index <= m.table), except the one resizer, whose new table is the last
          one allocated and is not yet published;
     step_cells_frame / write_ownership   a step changes the slots of a bucket
          chain, or the bits above bit 0 of one of its topHashMutex words, only if
          the stepping thread holds that bucket's lock before the step, or the
          chain belongs to the stepping resizer's own unpublished table. *)
From CacheV Require Import Base SpecMap XMachineS.
From CacheV.proofs Require Import X_maps XS_inv XS_lock.
From Coq Require Import NArith.
Local Open Scope nat_scope.

Section SOwn.
  Context {K V : Type}.
  Variable eqd : forall a b : K, {a = b} + {a <> b}.
  Variable hash : K -> N -> N.
  Variable idx : N -> nat -> nat.
  Variable tophash : N -> N.
  Variable nslots : nat.
  Variable seeds : nat -> N.
  Variable grow_needed : nat -> Z -> bool.
  Variable shrink_policy : nat -> Z -> bool.
  Variable nstripes : nat -> nat.
  Variable minlen : nat.
  Variable grow_only : bool.

  Notation mtable := (@mtable K V).
  Notation mstate := (@mstate K V).
  Notation spc := (@spc K V).
  Notation sstep_pc := (@sstep_pc K V eqd hash idx tophash nslots seeds grow_needed shrink_policy nstripes minlen grow_only).
  Notation sstep := (@sstep K V eqd hash idx tophash nslots seeds grow_needed shrink_policy nstripes minlen grow_only).
  Notation srun := (@srun K V eqd hash idx tophash nslots seeds grow_needed shrink_policy nstripes minlen grow_only).
  Notation stab_at := (@stab_at K V nslots nstripes).
  Notation shome := (@shome K V hash idx).
  Notation sword_at := (@sword_at K V nslots).
  Notation XL := (@XL K V hash idx nslots nstripes).
  Notation sholds := (@sholds K V hash idx nslots nstripes).
  Notation lock_of := (@lock_of K V nslots nstripes).
  Notation tabT := (@tabT K V nslots nstripes).

  (* ---------------- table indices in program counters ---------------- *)

  Fixpoint tabs_le (n : nat) (p : spc) : Prop :=
    match p with
    | QL_Top _ _ tab _ _ | QL_Val _ _ tab _ _ _ | QL_Key _ _ tab _ _ _ _ | QL_Val2 _ _ tab _ _ _ _ _ | QL_Next _ _ tab _ _ => tab <= n
    | QK_Load tab _ _ | QK_Spin tab _ _ | QK_CAS tab _ _ _ | QK_Yield tab _ _ => tab <= n
    | QU_Load tab _ _ a | QU_Store tab _ _ _ a | QA_Add tab _ _ a => tab <= n /\ tabs_le n a
    | QW_ChkRes _ tab | QW_ChkTab _ tab | QW_Scan _ tab _ _ _ | QW_D1 _ tab _ _ _ _ | QW_D2 _ tab _ _ _
    | QW_D3 _ tab _ _ _ | QW_U1 _ tab _ _ _ | QW_I0 _ tab _ _ | QW_I1 _ tab _ _ _ | QW_I2 _ tab _ _
    | QW_I3 _ tab _ _ | QW_Sum _ tab _ _ | QW_N1 _ tab _ => tab <= n
    | QR_FastSum known _ _ _ => known <= n
    | QR_ShSum _ tab _ _ | QR_Stat _ _ tab => tab <= n
    | QS_Sum tab _ _ => tab <= n
    | _ => True
    end.

  Definition lk_new (lk : @lockk K V) : option nat := match lk with LKCopy _ _ new => Some new | _ => None end.

  (* the unpublished table of the resize the thread is running *)
  Fixpoint snewtab (p : spc) : option nat :=
    match p with
    | QK_Load _ _ lk | QK_Spin _ _ lk | QK_CAS _ _ _ lk | QK_Yield _ _ lk => lk_new lk
    | QR_Publish _ new => Some new
    | QU_Load _ _ _ a | QU_Store _ _ _ _ a | QA_Add _ _ _ a => snewtab a
    | _ => None
    end.

  Definition TP (n L : nat) (p : spc) : Prop :=
    tabs_le n p /\ forall new, snewtab p = Some new -> S new = L /\ n < new.

  Definition FT (n : nat) (fr : nat -> option (@rframe K V)) : Prop :=
    forall u f, fr u = Some f -> tabs_le n (rf_after f) /\ snewtab (rf_after f) = None.

  Record XT (s : mstate) : Prop := {
    xt_cur : h_cur s < length (h_tabs s);
    xt_pc : forall t, TP (h_cur s) (length (h_tabs s)) (h_pc s t);
    xt_fr : FT (h_cur s) (h_frame s);
  }.

  Lemma tabs_le_mono n m (p : spc) : n <= m -> tabs_le n p -> tabs_le m p.
  Proof. intros H. induction p; cbn [tabs_le]; intros; try lia; auto. all: destruct H0; split; [lia | auto]. Qed.

  Lemma snewtab_srz (p : spc) new : snewtab p = Some new -> srz p = true.
  Proof. induction p; cbn [snewtab srz]; intros E; try discriminate E; auto; destruct lk; try discriminate E; reflexivity. Qed.

  Lemma swake_tabs n (p : spc) : tabs_le n p -> tabs_le n (swake p).
  Proof. destruct p; cbn; auto. Qed.
  Lemma swake_newtab (p : spc) : snewtab (swake p) = snewtab p.
  Proof. destruct p; reflexivity. Qed.

  Lemma FT_mono n m fr : n <= m -> FT n fr -> FT m fr.
  Proof. intros H HF u f E. destruct (HF u f E) as [A B]. split; [eapply tabs_le_mono; eassumption | exact B]. Qed.

  Lemma start_cx_tp (cx : @scx K V) n : tabs_le n (sstart_cx cx) /\ snewtab (sstart_cx cx) = None.
  Proof. unfold sstart_cx. destruct (sc_lie cx); split; first [exact I | reflexivity]. Qed.

  Lemma TP_none n L (p : spc) : tabs_le n p -> snewtab p = None -> TP n L p.
  Proof. intros A B. split; [exact A|]. intros new E. congruence. Qed.

  (* ---------------- where a thread stands after sgoto / svisits ---------------- *)

  Lemma svisits_xt (S0 : mstate) t rest vf after ls n L :
    FT n (h_frame S0) -> tabs_le n after -> snewtab after = None ->
    let s' := fst (svisits S0 t rest vf after ls) in
    TP n L (h_pc s' t) /\ FT n (h_frame s').
  Proof.
    intros HF Ha Hn. cbv zeta. revert ls. induction rest as [|[k v] r IH]; intros ls; cbn [svisits].
    - assert (HF' : FT n (fun t' => if Nat.eq_dec t' t then None else h_frame S0 t')).
      { intros u f. destruct (Nat.eq_dec u t); [discriminate | apply HF]. }
      destruct after; cbn [fst sset_pc sset_frame h_pc h_frame]; (destruct (Nat.eq_dec t t) as [_|Hc]; [|exfalso; apply Hc; reflexivity]);
        (split; [apply TP_none; first [exact Ha | exact I | exact Hn | reflexivity] | exact HF']).
    - destruct (vf k v) as [cx|]; [|apply IH]. cbn [fst sset_pc sset_frame h_pc h_frame].
      destruct (Nat.eq_dec t t) as [_|Hc]; [|exfalso; apply Hc; reflexivity].
      destruct (start_cx_tp cx n) as [A B]. split; [apply TP_none; assumption|].
      intros u f. destruct (Nat.eq_dec u t) as [->|]; [|apply HF]. intros E. inversion E; subst f. cbn [rf_after]. auto.
  Qed.

  Lemma sgoto_xt (S0 : mstate) t q ls n L :
    FT n (h_frame S0) -> TP n L q ->
    let s' := fst (sgoto S0 t q ls) in
    TP n L (h_pc s' t) /\ FT n (h_frame s').
  Proof.
    intros HF Hq. cbv zeta.
    destruct q; cbn [sgoto fst sset_pc h_pc h_frame];
      try (destruct (Nat.eq_dec t t) as [_|Hc]; [|exfalso; apply Hc; reflexivity]; split; [exact Hq | exact HF]).
    destruct (h_frame S0 t) as [fr|] eqn:E.
    - destruct (HF t fr E) as [F1 F2]. apply svisits_xt; assumption.
    - cbn [fst sset_pc h_pc h_frame]. destruct (Nat.eq_dec t t) as [_|Hc]; [|exfalso; apply Hc; reflexivity].
      split; [apply TP_none; [exact I | reflexivity] | exact HF].
  Qed.


  (* ---------------- one step ---------------- *)

  (* at most one thread is the resizer (XS_inv.si_rzB) *)
  Definition RZ1 (s : mstate) : Prop := forall u u', srz (h_pc s u) = true -> srz (h_pc s u') = true -> u = u'.

  Lemma xt_others s t (S0 : mstate) : RZ1 s -> XT s ->
    (forall u, u <> t -> h_pc S0 u = h_pc s u \/ h_pc S0 u = swake (h_pc s u)) ->
    h_cur s <= h_cur S0 ->
    ((h_cur S0 = h_cur s /\ length (h_tabs S0) = length (h_tabs s)) \/ srz (h_pc s t) = true) ->
    forall u, u <> t -> TP (h_cur S0) (length (h_tabs S0)) (h_pc S0 u).
  Proof.
    intros HI HT Hoth Hle Hsame u Hne. destruct (xt_pc s HT u) as [A B].
    assert (HA : tabs_le (h_cur S0) (h_pc S0 u)).
    { destruct (Hoth u Hne) as [E|E]; rewrite E; [|apply swake_tabs]; eapply tabs_le_mono; eassumption. }
    split; [exact HA|]. intros new E.
    assert (E0 : snewtab (h_pc s u) = Some new).
    { destruct (Hoth u Hne) as [E1|E1]; rewrite E1 in E; [exact E | rewrite swake_newtab in E; exact E]. }
    destruct Hsame as [[C D]|C].
    - rewrite C, D. apply B. exact E0.
    - exfalso. apply Hne. apply (HI u t); [eapply snewtab_srz; exact E0 | exact C].
  Qed.

  Lemma xt_goto s t (S0 : mstate) q ls : RZ1 s -> XT s ->
    h_frame S0 = h_frame s ->
    (forall u, u <> t -> h_pc S0 u = h_pc s u \/ h_pc S0 u = swake (h_pc s u)) ->
    h_cur s <= h_cur S0 ->
    ((h_cur S0 = h_cur s /\ length (h_tabs S0) = length (h_tabs s)) \/ srz (h_pc s t) = true) ->
    h_cur S0 < length (h_tabs S0) ->
    TP (h_cur S0) (length (h_tabs S0)) q ->
    XT (fst (sgoto S0 t q ls)).
  Proof.
    intros HI HT Hfr Hoth Hle Hsame Hc Hq.
    assert (HF : FT (h_cur S0) (h_frame S0)) by (rewrite Hfr; eapply FT_mono; [exact Hle | apply (xt_fr s HT)]).
    destruct (sgoto_shared S0 t q ls) as [[A [B _]] [C _]].
    destruct (sgoto_xt S0 t q ls (h_cur S0) (length (h_tabs S0)) HF Hq) as [P1 P2].
    constructor; rewrite ?A, ?B; [exact Hc | | exact P2].
    intros u. destruct (Nat.eq_dec u t) as [->|Hne]; [exact P1|]. rewrite (C u Hne).
    eapply xt_others; eassumption.
  Qed.

  Lemma xt_visits s t (S0 : mstate) rest vf after ls : RZ1 s -> XT s ->
    h_frame S0 = h_frame s ->
    (forall u, u <> t -> h_pc S0 u = h_pc s u \/ h_pc S0 u = swake (h_pc s u)) ->
    h_cur s <= h_cur S0 ->
    ((h_cur S0 = h_cur s /\ length (h_tabs S0) = length (h_tabs s)) \/ srz (h_pc s t) = true) ->
    h_cur S0 < length (h_tabs S0) ->
    tabs_le (h_cur S0) after -> snewtab after = None ->
    XT (fst (svisits S0 t rest vf after ls)).
  Proof.
    intros HI HT Hfr Hoth Hle Hsame Hc Ha Hn.
    assert (HF : FT (h_cur S0) (h_frame S0)) by (rewrite Hfr; eapply FT_mono; [exact Hle | apply (xt_fr s HT)]).
    destruct (svisits_shared S0 t rest vf after ls) as [[A [B _]] [C _]].
    destruct (svisits_xt S0 t rest vf after ls (h_cur S0) (length (h_tabs S0)) HF Ha Hn) as [P1 P2].
    constructor; rewrite ?A, ?B; [exact Hc | | exact P2].
    intros u. destruct (Nat.eq_dec u t) as [->|Hne]; [exact P1|]. rewrite (C u Hne).
    eapply xt_others; eassumption.
  Qed.

  Lemma after_lock_xt (S1 : mstate) t tab b lk n L : tab <= n -> (forall new, lk_new lk = Some new -> S new = L /\ n < new) ->
    h_pc (fst (after_lock hash idx tophash nslots nstripes S1 t tab b lk)) = h_pc S1
    /\ h_frame (fst (after_lock hash idx tophash nslots nstripes S1 t tab b lk)) = h_frame S1
    /\ h_cur (fst (after_lock hash idx tophash nslots nstripes S1 t tab b lk)) = h_cur S1
    /\ length (h_tabs (fst (after_lock hash idx tophash nslots nstripes S1 t tab b lk))) = length (h_tabs S1)
    /\ TP n L (snd (after_lock hash idx tophash nslots nstripes S1 t tab b lk)).
  Proof.
    intros Ht Hn. unfold after_lock. destruct lk; cbv zeta.
    - cbn [fst snd]. repeat (split; [reflexivity|]). apply TP_none; [exact Ht | reflexivity].
    - match goal with |- context [scopy_chain ?a ?b ?c ?d ?e ?f] => destruct (scopy_chain a b c d e f) as [nt cp] end.
      cbn [fst snd sset_tab h_pc h_frame h_cur h_tabs]. rewrite supd_nth_length. repeat (split; [reflexivity|]).
      match goal with |- context [Nat.ltb ?x ?y] => destruct (Nat.ltb x y) end; (split; [cbn [tabs_le]; auto | cbn [snewtab lk_new]; exact Hn]).
    - cbn [fst snd]. repeat (split; [reflexivity|]).
      match goal with |- context [Nat.ltb ?x ?y] => destruct (Nat.ltb x y) end; apply TP_none; cbn [tabs_le snewtab]; auto.
  Qed.

  Lemma some_fst' {A B} (g : A * B) a b : Some g = Some (a, b) -> a = fst g.
  Proof. intros H. inversion H. reflexivity. Qed.

  Theorem XT_step_pc s t p s' ls : RZ1 s -> swf p -> XT s -> h_pc s t = p -> sstep_pc s t p = Some (s', ls) -> XT s'.
  Proof.
    intros HI Hwf HT Hp Hs. destruct (xt_pc s HT t) as [Hle Hnew]. rewrite Hp in Hle, Hnew.
    pose proof (xt_cur s HT) as Hcur.
    destruct p; cbn [XMachineS.sstep_pc] in Hs; cbv zeta in Hs;
      repeat match type of Hs with context [match ?x with _ => _ end] => destruct x eqn:? end;
      try discriminate Hs; apply some_fst' in Hs; subst s'; cbn [tabs_le snewtab lk_new] in Hle, Hnew.
    all: try match goal with |- context [srun_cont ?kt] => destruct kt; cbn [srun_cont] end.
    all: try (apply (xt_goto s);
              [ exact HI | exact HT | reflexivity | intros u _; first [left; reflexivity | right; reflexivity]
              | cbn [h_cur sset_tab sset_flags spush_tab sbump]; try lia
              | cbn [h_cur h_tabs sset_tab sset_flags spush_tab sbump]; rewrite ?supd_nth_length;
                first [left; split; reflexivity | right; rewrite Hp; reflexivity]
              | cbn [h_cur h_tabs sset_tab sset_flags spush_tab sbump]; rewrite ?supd_nth_length, ?app_length; cbn [length]; try lia
              | cbn [h_cur h_tabs sset_tab sset_flags spush_tab sbump]; rewrite ?supd_nth_length, ?app_length; cbn [length];
                split; [cbn [tabs_le]; try exact I; try tauto; try lia
                       | cbn [snewtab lk_new]; try (intros ? E; discriminate E) ] ]).
    all: try exact Hnew.
    all: try (intros new E; inversion E; subst; lia).
    all: try (destruct (Hnew _ eq_refl); lia).
    - (* the goroutine starts *)
      change (fst (sset_pc s t QIdle, [SStep t SKStart])) with (fst (sgoto s t QIdle [SStep t SKStart])).
      apply (xt_goto s); [exact HI | exact HT | reflexivity | intros u _; left; reflexivity | lia | left; split; reflexivity | exact Hcur |].
      apply TP_none; [exact I | reflexivity].
    - (* lockBucket's CAS succeeded *)
      match goal with Ha : after_lock _ _ _ _ _ ?S1 _ _ _ _ = (_, _) |- _ =>
        pose proof (after_lock_xt S1 t tab b lk (h_cur s) (length (h_tabs s)) Hle Hnew) as (A1 & A2 & A3 & A4 & A5);
        rewrite Ha in A1, A2, A3, A4, A5; cbn [fst snd h_pc h_frame h_cur h_tabs sset_tab] in A1, A2, A3, A4, A5;
        rewrite supd_nth_length in A4 end.
      apply (xt_goto s); [exact HI | exact HT | exact A2 | intros u _; left; rewrite A1; reflexivity | rewrite A3; lia
                         | left; split; assumption | rewrite A3, A4; exact Hcur | rewrite A3, A4; exact A5].
    - (* unlockBucket of a Range: the visits follow *)
      destruct Hwf as [Hpl _]. specialize (Hpl ltac:(discriminate)). destruct Hpl as (_ & Hrz & _).
      apply (xt_visits s); [exact HI | exact HT | reflexivity | intros u _; left; reflexivity | cbn [h_cur sset_tab]; lia
                           | left; cbn [h_cur h_tabs sset_tab]; rewrite supd_nth_length; split; reflexivity
                           | cbn [h_cur h_tabs sset_tab]; rewrite supd_nth_length; exact Hcur
                           | cbn [h_cur sset_tab]; tauto | ].
      destruct (snewtab p) eqn:En; [apply snewtab_srz in En; congruence | reflexivity].
  Qed.

  Lemma sstart_tp (o : @sop K V) n : tabs_le n (sstart_pc o) /\ snewtab (sstart_pc o) = None.
  Proof. destruct o; cbn [sstart_pc]; try (split; [exact I | reflexivity]). apply start_cx_tp. Qed.

  Lemma XT_sstep s t s' ls : SI s -> XT s -> sstep s t = Some (s', ls) -> XT s'.
  Proof.
    intros HI HT Hs. unfold XMachineS.sstep in Hs. pose proof (si_wf s HI t) as Hw. revert Hw.
    destruct (h_pc s t) eqn:Hp; intros Hw;
      try (eapply XT_step_pc; [exact (si_rzB s HI) | exact Hw | exact HT | exact Hp | exact Hs]).
    destruct (h_todo s t) as [|o rest]; [discriminate|].
    set (s1 := {| h_tabs := h_tabs s; h_cur := h_cur s; h_resizing := h_resizing s; h_rmu := h_rmu s;
                  h_growths := h_growths s; h_shrinks := h_shrinks s; h_alloc := h_alloc s;
                  h_pc := fun t' => if Nat.eq_dec t' t then sstart_pc o else h_pc s t';
                  h_todo := fun t' => if Nat.eq_dec t' t then rest else h_todo s t'; h_frame := h_frame s |}) in *.
    destruct (sstart_tp o (h_cur s)) as [Q1 Q2]. destruct (sstart_plain o) as [[_ [Q3 _]] Q4].
    assert (HT1 : XT s1).
    { constructor; unfold s1; cbn [h_tabs h_cur h_pc h_frame]; [apply (xt_cur s HT) | | apply (xt_fr s HT)].
      intros u. destruct (Nat.eq_dec u t); [apply TP_none; assumption | apply (xt_pc s HT)]. }
    assert (HR1 : RZ1 s1).
    { intros u u'. unfold s1. cbn [h_pc]. destruct (Nat.eq_dec u t), (Nat.eq_dec u' t); try congruence; apply (si_rzB s HI). }
    destruct (sstep_pc s1 t (sstart_pc o)) as [[s2 ls0]|] eqn:E.
    - inversion Hs; subst. eapply XT_step_pc; [exact HR1 | exact Q4 | exact HT1 | | exact E].
      cbn. destruct (Nat.eq_dec t t); congruence.
    - inversion Hs; subst. exact HT1.
  Qed.

  Lemma XT_init len0 todo : XT (sinit nslots seeds nstripes len0 todo).
  Proof.
    constructor; cbn [sinit h_tabs h_cur h_pc h_frame]; [cbn; lia | | intros u f E; discriminate E].
    intros t. apply TP_none; [exact I | reflexivity].
  Qed.

  (* the table discipline in every reachable state *)
  Theorem reachable_XT len0 todo sched : XT (fst (srun (sinit nslots seeds nstripes len0 todo) sched)).
  Proof.
    pose proof (SI_init nslots seeds nstripes len0 todo) as H0. pose proof (XT_init len0 todo) as H1.
    revert H0 H1. generalize (sinit nslots seeds nstripes len0 todo).
    induction sched as [|t rest IH]; intros s H0 H1; cbn [XMachineS.srun]; [exact H1|].
    destruct (sstep s t) as [[s' ls]|] eqn:E.
    - specialize (IH s' (SI_sstep eqd hash idx tophash nslots seeds grow_needed shrink_policy nstripes minlen grow_only s t s' ls H0 E)
                       (XT_sstep s t s' ls H0 H1 E)).
      destruct (XMachineS.srun _ _ _ _ _ _ _ _ _ _ _ s' rest). exact IH.
    - apply IH; assumption.
  Qed.


  (* ---------------- the cells of a bucket: its slots, and the bits above the mutex bit of its words ---------------- *)

  Hypothesis Hslots : nslots <= 3.

  Definition topbits (w : bword) : N := top_val (w_top w) 0.
  Definition cells (tb : mtable) (b : nat) : list (@mslot K V) * list N := (schain_of tb b, map topbits (swords_of tb b)).

  Lemma cells_set_chain (tb : mtable) b0 g b : b <> b0 -> cells (sset_chain tb b0 g) b = cells tb b.
  Proof.
    intros Hne. unfold cells, schain_of, swords_of, sset_chain. cbn [m_chains m_words]. rewrite nth_supd_nth.
    destruct (Nat.eq_dec b b0); [contradiction | reflexivity].
  Qed.

  Lemma cells_set_words (tb : mtable) b0 g b : b <> b0 -> cells (sset_words tb b0 g) b = cells tb b.
  Proof.
    intros Hne. unfold cells, schain_of, swords_of, sset_words. cbn [m_chains m_words]. rewrite nth_supd_nth.
    destruct (Nat.eq_dec b b0); [contradiction | reflexivity].
  Qed.

  Lemma cells_add_size (tb : mtable) b0 d b : cells (sadd_size tb b0 d) b = cells tb b.
  Proof. reflexivity. Qed.

  (* only bit 0 of the root word is written *)
  Lemma cells_set_lock (tb : mtable) b0 w' b : topbits w' = topbits (sword_at tb b0 0) ->
    cells (sset_word tb b0 0 (fun _ => w')) b = cells tb b.
  Proof.
    intros Ht. unfold cells, schain_of, swords_of, sset_word, sset_words. cbn [m_chains m_words]. f_equal.
    rewrite nth_supd_nth. destruct (Nat.eq_dec b b0) as [->|]; [|reflexivity].
    destruct (Nat.ltb b0 (length (m_words tb))) eqn:E; [|apply Nat.ltb_ge in E; rewrite (nth_overflow _ _ E); reflexivity].
    unfold XMachineS.sword_at, swords_of in Ht. destruct (nth b0 (m_words tb) []) as [|w ws]; [reflexivity|].
    cbn [supd_nth map nth] in *. rewrite Ht. reflexivity.
  Qed.

  Lemma cells_supd T tab0 (f : mtable -> mtable) tab b :
    (tab = tab0 -> cells (f (tabT T tab0)) b = cells (tabT T tab0) b) ->
    cells (tabT (supd_nth T tab0 f) tab) b = cells (tabT T tab) b.
  Proof.
    intros H. rewrite tabT_supd. destruct (Nat.eq_dec tab tab0) as [->|]; [|reflexivity].
    destruct (Nat.ltb tab0 (length T)); [apply H; reflexivity | reflexivity].
  Qed.

  (* an update of table tab0 that touches bucket b0 only *)
  Lemma cells_bucket T tab0 b0 (f : mtable -> mtable) tab b :
    (forall b', b' <> b0 -> cells (f (tabT T tab0)) b' = cells (tabT T tab0) b') ->
    cells (tabT (supd_nth T tab0 f) tab) b = cells (tabT T tab) b \/ (tab = tab0 /\ b = b0).
  Proof.
    intros H. destruct (Nat.eq_dec tab tab0) as [->|Hne].
    - destruct (Nat.eq_dec b b0) as [->|Hb]; [right; auto|]. left. apply cells_supd. intros _. apply H. exact Hb.
    - left. apply cells_supd. intros E. contradiction.
  Qed.

  Lemma stab_goto (S0 : mstate) t q ls i : stab_at (fst (sgoto S0 t q ls)) i = tabT (h_tabs S0) i.
  Proof. destruct (sgoto_shared S0 t q ls) as [[A _] _]. unfold XMachineS.stab_at, XS_lock.tabT. rewrite A. reflexivity. Qed.

  Lemma stab_visits (S0 : mstate) t rest vf after ls i : stab_at (fst (svisits S0 t rest vf after ls)) i = tabT (h_tabs S0) i.
  Proof. destruct (svisits_shared S0 t rest vf after ls) as [[A _] _]. unfold XMachineS.stab_at, XS_lock.tabT. rewrite A. reflexivity. Qed.

  Lemma cas_topbits s t tab b v lk : XL s -> h_pc s t = QK_CAS tab b v lk ->
    word_val (sword_at (stab_at s tab) b 0) = word_val v -> topbits (with_lock v (Some t)) = topbits (sword_at (tabT (h_tabs s) tab) b 0).
  Proof.
    intros HS Hp E. pose proof (cas_free hash idx nslots nstripes Hslots s t tab b v lk HS Hp E) as Hf.
    pose proof (xl_pc _ _ _ _ s HS t) as Hpc. rewrite Hp in Hpc. cbn [PCI] in Hpc. destruct Hpc as (_ & _ & Hv & _).
    unfold XS_lock.lock_of, lockT in Hf. unfold word_val in E. change (stab_at s tab) with (tabT (h_tabs s) tab) in E.
    rewrite Hf, Hv in E. unfold topbits. cbn [with_lock w_top]. lia.
  Qed.


  (* ---------------- ownership: what a step may write ---------------- *)

  Lemma cells_push T (tb : mtable) tab b : tab < length T -> cells (tabT (T ++ [tb]) tab) b = cells (tabT T tab) b.
  Proof. intros H. unfold XS_lock.tabT. rewrite app_nth1 by exact H. reflexivity. Qed.

  Lemma after_lock_cells (S1 : mstate) t tab b lk tab' b' :
    cells (tabT (h_tabs (fst (after_lock hash idx tophash nslots nstripes S1 t tab b lk))) tab') b' = cells (tabT (h_tabs S1) tab') b'
    \/ lk_new lk = Some tab'.
  Proof.
    unfold after_lock. destruct lk; cbv zeta; try (left; reflexivity).
    match goal with |- context [scopy_chain ?a ?b ?c ?d ?e ?f] => destruct (scopy_chain a b c d e f) as [nt cp] end.
    cbn [fst h_tabs sset_tab lk_new]. destruct (Nat.eq_dec tab' new) as [->|Hne]; [right; reflexivity|].
    left. apply cells_supd. intros E. contradiction.
  Qed.

  Ltac bucket_frame :=
    match goal with
    | |- cells (XS_lock.tabT _ _ (supd_nth ?T ?tab0 ?f) ?tab') ?b' = _ \/ Some (_, ?b0) = _ \/ _ =>
        destruct (cells_bucket T tab0 b0 f tab' b') as [E|[-> ->]];
        [ intros b'' Hb''; cbv beta;
          first [ apply cells_set_chain; exact Hb'' | apply cells_set_words; exact Hb''
                | rewrite cells_set_words by exact Hb''; apply cells_set_chain; exact Hb'' ]
        | left; exact E | right; left; reflexivity ]
    end.

  Theorem step_cells_frame s t p s' ls : XL s -> h_pc s t = p -> sstep_pc s t p = Some (s', ls) ->
    forall tab b, tab < length (h_tabs s) ->
      cells (stab_at s' tab) b = cells (stab_at s tab) b
      \/ sholds s p = Some (tab, b)
      \/ snewtab p = Some tab.
  Proof.
    intros HS Hp Hs tab' b' Htab'.
    destruct p; cbn [XMachineS.sstep_pc] in Hs; cbv zeta in Hs;
      repeat match type of Hs with context [match ?x with _ => _ end] => destruct x eqn:? end;
      try discriminate Hs; apply some_fst' in Hs; subst s'; rewrite ?stab_goto, ?stab_visits;
      change (stab_at s tab') with (tabT (h_tabs s) tab');
      cbn [fst h_tabs sset_pc sset_tab sset_flags spush_tab sbump]; try (left; reflexivity).
    all: try (left; apply cells_push; exact Htab').
    all: try (left; apply cells_supd; intros _; apply cells_add_size).
    all: cbn [XS_lock.sholds sholdsT].
    all: try bucket_frame.
    (* lockBucket's CAS succeeded: bit 0 of the root word, and the resizer's own new table *)
    apply N.eqb_eq in Heqb0.
    match goal with Ha : after_lock _ _ _ _ _ ?S1 _ _ _ _ = (_, _) |- _ =>
      destruct (after_lock_cells S1 t tab b lk tab' b') as [E|E]; rewrite ?Ha in E; cbn [fst] in E end.
    - left. rewrite E. cbn [h_tabs sset_tab]. apply cells_supd. intros _. apply cells_set_lock.
      apply (cas_topbits s t tab b v lk HS Hp Heqb0).
    - right. right. exact E.
  Qed.

  (* the same for the step of a thread, invocation included *)
  Theorem sstep_cells_frame s t s' ls : XL s -> sstep s t = Some (s', ls) ->
    forall tab b, tab < length (h_tabs s) ->
      cells (stab_at s' tab) b = cells (stab_at s tab) b
      \/ sholds s (h_pc s t) = Some (tab, b)
      \/ snewtab (h_pc s t) = Some tab.
  Proof.
    intros HS Hs tab b Htab. unfold XMachineS.sstep in Hs.
    destruct (h_pc s t) eqn:Hp; try (eapply step_cells_frame; [exact HS | exact Hp | exact Hs | exact Htab]).
    destruct (h_todo s t) as [|o rest]; [discriminate|].
    set (s1 := {| h_tabs := h_tabs s; h_cur := h_cur s; h_resizing := h_resizing s; h_rmu := h_rmu s;
                  h_growths := h_growths s; h_shrinks := h_shrinks s; h_alloc := h_alloc s;
                  h_pc := fun t' => if Nat.eq_dec t' t then sstart_pc o else h_pc s t';
                  h_todo := fun t' => if Nat.eq_dec t' t then rest else h_todo s t'; h_frame := h_frame s |}) in *.
    destruct (sstart_nolock hash idx nslots nstripes o (h_tabs s) t) as [N1 N2]. destruct (sstart_tp o 0) as [_ Q2].
    assert (Hh : forall u, sholds s1 (h_pc s1 u) = sholds s (h_pc s u)).
    { intros u. unfold XS_lock.sholds, s1. cbn [h_tabs h_pc]. destruct (Nat.eq_dec u t) as [->|]; [|reflexivity].
      rewrite Hp. apply nolock_holds. exact N1. }
    assert (H1 : XL s1).
    { constructor; unfold s1; cbn [h_tabs h_cur h_frame].
      - apply (xl_tabs _ _ _ _ s HS).
      - apply (xl_cur _ _ _ _ s HS).
      - intros u. cbn [h_pc]. destruct (Nat.eq_dec u t) as [->|]; [exact N2 | apply (xl_pc _ _ _ _ s HS)].
      - apply (xl_frame _ _ _ _ s HS).
      - intros u tab0 b0. fold s1. rewrite Hh. apply (xl_lockA _ _ _ _ s HS).
      - intros u tab0 b0 Hl. fold s1. rewrite Hh. apply (xl_lockB _ _ _ _ s HS u tab0 b0 Hl). }
    destruct (sstep_pc s1 t (sstart_pc o)) as [[s2 ls0]|] eqn:E.
    - inversion Hs; subst. left.
      assert (Epc : h_pc s1 t = sstart_pc o) by (cbn; destruct (Nat.eq_dec t t); congruence).
      destruct (step_cells_frame s1 t _ s' ls0 H1 Epc E tab b Htab) as [H|[H|H]]; [exact H | |].
      + unfold XS_lock.sholds in H. rewrite (nolock_holds hash idx nslots nstripes _ _ N1) in H. discriminate H.
      + rewrite Q2 in H. discriminate H.
    - inversion Hs; subst. left. reflexivity.
  Qed.


  (* the step of thread t from s changed the slots of chain (tab, b) or the bits above the mutex bit of one
     of its words: then t held that bucket's lock, or the table is t's own unpublished one, which no other
     thread and no Range frame refers to *)
  Theorem write_ownership s t s' ls tab b : SI s -> XL s -> XT s -> sstep s t = Some (s', ls) ->
    tab < length (h_tabs s) -> cells (stab_at s' tab) b <> cells (stab_at s tab) b ->
    lock_of s tab b = Some t
    \/ (snewtab (h_pc s t) = Some tab /\ h_cur s < tab /\ S tab = length (h_tabs s)
        /\ (forall t', t' <> t -> tabs_le (h_cur s) (h_pc s t') /\ snewtab (h_pc s t') = None)
        /\ (forall t' fr, h_frame s t' = Some fr -> tabs_le (h_cur s) (rf_after fr) /\ snewtab (rf_after fr) = None)).
  Proof.
    intros HI HS HT E Htab Hch.
    destruct (sstep_cells_frame s t s' ls HS E tab b Htab) as [H|[H|H]]; [contradiction | left | right].
    - apply (xl_lockA _ _ _ _ s HS t tab b H).
    - destruct (xt_pc s HT t) as [_ Hn]. destruct (Hn tab H) as [A B].
      split; [exact H|]. split; [exact B|]. split; [exact A|]. split.
      + intros t' Hne. destruct (xt_pc s HT t') as [C _]. split; [exact C|].
        destruct (snewtab (h_pc s t')) eqn:En; [|reflexivity]. exfalso. apply Hne.
        apply (si_rzB s HI t' t); eapply snewtab_srz; eassumption.
      + intros t' fr Ef. apply (xt_fr s HT t' fr Ef).
  Qed.

  (* ---------------- every reachable state ---------------- *)

  Hypothesis Hidx : forall h len, 0 < len -> idx h len < len.
  Hypothesis Hminlen : 0 < minlen.

  Definition XO (s : mstate) : Prop := SI s /\ XL s /\ XT s.

  Lemma XO_sstep s t s' ls : XO s -> sstep s t = Some (s', ls) -> XO s'.
  Proof.
    intros [HI [HS HT]] E. split; [|split].
    - eapply SI_sstep; eassumption.
    - eapply (XL_sstep eqd hash idx tophash nslots seeds grow_needed shrink_policy nstripes minlen grow_only Hslots Hidx Hminlen); eassumption.
    - eapply XT_sstep; eassumption.
  Qed.

  Theorem XO_srun sched : forall s, XO s -> XO (fst (srun s sched)).
  Proof.
    induction sched as [|t rest IH]; intros s H; cbn [XMachineS.srun]; [exact H|].
    destruct (sstep s t) as [[s' ls]|] eqn:E.
    - specialize (IH s' (XO_sstep s t s' ls H E)). destruct (XMachineS.srun _ _ _ _ _ _ _ _ _ _ _ s' rest). exact IH.
    - apply IH. exact H.
  Qed.

  Theorem reachable_XO len0 todo sched : 0 < len0 -> XO (fst (srun (sinit nslots seeds nstripes len0 todo) sched)).
  Proof.
    intros Hl. apply XO_srun. split; [apply SI_init | split; [apply (XL_init hash idx nslots seeds nstripes Hslots); exact Hl | apply XT_init]].
  Qed.

  Theorem reachable_write_ownership len0 todo sched t s' ls tab b : 0 < len0 ->
    let s := fst (srun (sinit nslots seeds nstripes len0 todo) sched) in
    sstep s t = Some (s', ls) ->
    tab < length (h_tabs s) -> cells (stab_at s' tab) b <> cells (stab_at s tab) b ->
    lock_of s tab b = Some t
    \/ (snewtab (h_pc s t) = Some tab /\ h_cur s < tab /\ S tab = length (h_tabs s)
        /\ (forall t', t' <> t -> tabs_le (h_cur s) (h_pc s t') /\ snewtab (h_pc s t') = None)
        /\ (forall t' fr, h_frame s t' = Some fr -> tabs_le (h_cur s) (rf_after fr) /\ snewtab (rf_after fr) = None)).
  Proof.
    intros Hl s E Htab Hch. destruct (reachable_XO len0 todo sched Hl) as [HI [HS HT]]. fold s in HI, HS, HT.
    eapply write_ownership; eassumption.
  Qed.

End SOwn.
