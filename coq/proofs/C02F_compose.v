(* C02F_compose.v -- CX_compose.compose WITH THE FINAL MAP: if the map-level projection of a
   combined trace has a linearization (one map_step per call) whose run ends in the map mf, then
   Conc.v's atomic-map machine has a run with the same cache-level history that ENDS WITH THE
   SHARED MAP mf.  The marks that follow the last map-level event of the trace (calls invoked and
   not yet answered, already linearized) are executed by the atomic machine too ([drain]).
   The lemmas lin_prefixF / step_simF are CX_compose's lin_prefix / step_sim with the final state
   carried along. *)
From CacheV Require Import Base SpecMap Client CacheModel Ops SpecTTL Lin LinF Conc.
From CacheV.proofs Require Import CX_trans CX_compose.
Local Open Scope nat_scope.

Section ComposeF.
  Context {K V : Type}.
  Variable eqd : forall a b : K, {a = b} + {a <> b}.
  Variable progs : cop K V -> prog K V (cres K V).
  Variables NOW DFLT : Z.
  Variable CB : cbid.

  Notation item := (item V).
  Notation cop := (cop K V).
  Notation cres := (cres K V).
  Notation cmop := (cmop K V).
  Notation imres := (imres K V).
  Notation prog := (prog K V cres).
  Notation cconf := (@cconf K V).
  Notation label := (@label K V).
  Notation cstep := (cstep eqd progs NOW DFLT CB).
  Notation crun := (crun eqd progs NOW DFLT CB).
  Notation env0 := (Conc.env0 NOW DFLT).
  Notation cmspec := (@cmspec K V eqd env0).
  Notation history := (@history K V).
  Notation vstep := (vstep progs NOW DFLT CB).
  Notation vtrace := (vtrace progs NOW DFLT CB).
  Notation creach := (creach eqd progs NOW DFLT CB).
  Notation creach_refl := (creach_refl eqd progs NOW DFLT CB).
  Notation creach_trans := (creach_trans eqd progs NOW DFLT CB).
  Notation creach_step := (creach_step eqd progs NOW DFLT CB).
  Notation cstep_mapcall := (cstep_mapcall eqd progs NOW DFLT CB).
  Notation silent_step := (silent_step eqd progs NOW DFLT CB).
  Notation legalF_lin_i := (legalF_lin_i cmop imres _ cmspec).
  Notation legalF_inv_i := (legalF_inv_i cmop imres _ cmspec).
  Notation legalF_res_i := (legalF_res_i cmop imres _ cmspec).
  Notation vconf := (@vconf K V).
  Notation out := (@out K V).

  Lemma lin_prefixF mf : forall (i : list (iev cmop imres)) st c s e h,
    wf_inst cmop imres st i -> legalF cmop imres _ cmspec (c_map s) i mf -> erase cmop imres i = e :: h -> REL st c s ->
    exists st' s' ie i' ls,
      creach s ls s' /\ history ls = [] /\ REL st' c s'
      /\ wf_inst cmop imres st' (ie :: i') /\ legalF cmop imres _ cmspec (c_map s') (ie :: i') mf
      /\ erase cmop imres [ie] = [e] /\ erase cmop imres i' = h.
  Proof.
    induction i as [|x i IH]; intros st c s e h Hw Hl He HR; [discriminate He|].
    destruct x as [t o|u o r|t r].
    - exists st, s, (IInv t o), i, []. cbn in He. inversion He; subst.
      split; [apply creach_refl|]. split; [reflexivity|]. split; [exact HR|]. split; [exact Hw|]. split; [exact Hl|]. split; reflexivity.
    - apply wf_lin_i in Hw. destruct Hw as [Hst Hw]. apply legalF_lin_i in Hl. destruct Hl as [m1 [[Hns Hms] Hl]].
      pose proof (r_thr st c s HR u) as Hu. rewrite Hst in Hu.
      destruct (v_thr c u) as [|o' p|o' mo k] eqn:Ev; cbn [TR] in Hu; try contradiction.
      destruct Hu as [Eo Ets]. subst o.
      pose proof (cstep_mapcall s u [] o' mo k m1 r Ets Hns Hms) as Hstep.
      set (s1 := {| c_map := m1; c_thr := upd (c_thr s) u (Running o' (k r)); c_todo := c_todo s |}) in *.
      assert (HR1 : REL (upd st u (TLinearized mo r)) c s1).
      { constructor.
        - intros t. apply (r_todo st c s HR).
        - intros t. unfold s1; cbn [c_thr]. unfold upd. destruct (Nat.eq_dec t u) as [->|Hn].
          + rewrite Ev. cbn. auto.
          + apply (r_thr st c s HR). }
      cbn [erase] in He.
      destruct (IH (upd st u (TLinearized mo r)) c s1 e h Hw Hl He HR1) as [st' [s' [ie [i' [ls [A [B [C D]]]]]]]].
      match type of Hstep with _ = Some (_, ?l) => set (l1 := l) in * end.
      exists st', s', ie, i', (l1 ++ ls). split; [|split; [|split; [exact C | exact D]]].
      + eapply creach_trans; [eapply creach_step; exact Hstep | exact A].
      + rewrite history_app. unfold l1. rewrite history_mapstep, B. reflexivity.
    - exists st, s, (IRes t r), i, []. cbn in He. inversion He; subst.
      split; [apply creach_refl|]. split; [reflexivity|]. split; [exact HR|]. split; [exact Hw|]. split; [exact Hl|]. split; reflexivity.
  Qed.

  (* one move of the combined trace, mirrored by the atomic machine *)
  Lemma step_simF mf c a c1 os (i : list (iev cmop imres)) st s h :
    vstep c a = Some (c1, os) ->
    wf_inst cmop imres st i -> legalF cmop imres _ cmspec (c_map s) i mf ->
    erase cmop imres i = mproj os ++ h -> REL st c s ->
    exists st' i' s1 ls1,
      creach s ls1 s1 /\ history ls1 = cproj os /\ REL st' c1 s1
      /\ wf_inst cmop imres st' i' /\ legalF cmop imres _ cmspec (c_map s1) i' mf /\ erase cmop imres i' = h.
  Proof.
    intros Ev Hw Hl He HR.
    destruct a as [t|t|t|t r|t l|t]; cbn [vstep] in Ev.
    - (* invoke a cache method *)
      destruct (v_thr c t) eqn:Et; try discriminate Ev.
      destruct (v_todo c t) as [|o rest] eqn:Etd; try discriminate Ev.
      inversion Ev; subst c1 os; clear Ev. cbn [mproj cproj app] in He |- *.
      pose proof (r_thr st c s HR t) as Ht. rewrite Et in Ht. cbn [TR] in Ht.
      destruct (st t) eqn:Est; try contradiction.
      set (s1 := {| c_map := c_map s; c_thr := upd (c_thr s) t (Running o (progs o)); c_todo := upd (c_todo s) t rest |}).
      assert (Hstep : cstep s t [] = Some (s1, [LInv t o])).
      { unfold Conc.cstep. rewrite Ht. rewrite (r_todo st c s HR t), Etd. reflexivity. }
      exists st, i, s1, [LInv t o]. split; [eapply creach_step; exact Hstep|]. split; [reflexivity|].
      split; [|split; [exact Hw | split; [exact Hl | exact He]]].
      constructor; cbn.
      + intros t'. unfold upd. destruct (Nat.eq_dec t' t); [reflexivity | apply (r_todo st c s HR)].
      + intros t'. unfold upd. destruct (Nat.eq_dec t' t) as [->|]; [rewrite Est; reflexivity | apply (r_thr st c s HR)].
    - (* return *)
      destruct (v_thr c t) as [|o p|] eqn:Et; try discriminate Ev.
      destruct p; try discriminate Ev.
      inversion Ev; subst c1 os; clear Ev. cbn [mproj cproj app] in He |- *.
      pose proof (r_thr st c s HR t) as Ht. rewrite Et in Ht. cbn [TR] in Ht.
      destruct (st t) eqn:Est; try contradiction.
      assert (Hstep : cstep s t [] = Some (set_thr s t Idle, [LRes t r])).
      { unfold Conc.cstep. rewrite Ht. reflexivity. }
      exists st, i, (set_thr s t Idle), [LRes t r]. split; [eapply creach_step; exact Hstep|]. split; [reflexivity|].
      split; [|split; [exact Hw | split; [exact Hl | exact He]]].
      constructor; cbn.
      + apply (r_todo st c s HR).
      + intros t'. unfold upd. destruct (Nat.eq_dec t' t) as [->|]; [rewrite Est; reflexivity | apply (r_thr st c s HR)].
    - (* map-level invocation *)
      destruct (v_thr c t) as [|o p|] eqn:Et; try discriminate Ev.
      destruct p as [|mo k| | | | | |]; try discriminate Ev.
      assert (Hns : mo <> CSnapshot) by (intros ->; discriminate Ev).
      assert (Ev' : c1 = vset c t (VWait o mo k) /\ os = [OM (HInv t mo)]).
      { destruct mo; try discriminate Ev; inversion Ev; auto. }
      destruct Ev' as [-> ->]. clear Ev. cbn [mproj cproj app] in He |- *.
      destruct (lin_prefixF mf i st c s _ _ Hw Hl He HR) as [st' [s' [ie [i' [ls0 [A [B [C [D [E [F G]]]]]]]]]]].
      destruct ie as [t' o'|t' o' r'|t' r']; cbn in F; try discriminate F. inversion F; subst t' o'. clear F.
      apply wf_inv_i in D. destruct D as [Hst D]. apply legalF_inv_i in E.
      pose proof (r_thr st' c s' C t) as Ht. rewrite Et, Hst in Ht. cbn [TR] in Ht.
      exists (upd st' t (TInvoked mo)), i', s', ls0. split; [exact A|]. split; [exact B|].
      split; [|split; [exact D | split; [exact E | exact G]]].
      constructor; cbn.
      + apply (r_todo st' c s' C).
      + intros t'. unfold upd. destruct (Nat.eq_dec t' t) as [->|]; [cbn; auto | apply (r_thr st' c s' C)].
    - (* map-level response *)
      destruct (v_thr c t) as [| |o mo k] eqn:Et; try discriminate Ev.
      inversion Ev; subst c1 os; clear Ev. cbn [mproj cproj app] in He |- *.
      destruct (lin_prefixF mf i st c s _ _ Hw Hl He HR) as [st' [s' [ie [i' [ls0 [A [B [C [D [E [F G]]]]]]]]]]].
      destruct ie as [t' o'|t' o' r'|t' r']; cbn in F; try discriminate F. inversion F; subst t' r'. clear F.
      apply wf_res_i in D. destruct D as [o1 [Hst D]]. apply legalF_res_i in E.
      pose proof (r_thr st' c s' C t) as Ht. rewrite Et, Hst in Ht. cbn [TR] in Ht. destruct Ht as [_ Ht].
      exists (upd st' t TIdle), i', s', ls0. split; [exact A|]. split; [exact B|].
      split; [|split; [exact D | split; [exact E | exact G]]].
      constructor; cbn.
      + apply (r_todo st' c s' C).
      + intros t'. unfold upd. destruct (Nat.eq_dec t' t) as [->|]; [cbn; exact Ht | apply (r_thr st' c s' C)].
    - (* snapshot: one step, any answer *)
      destruct (v_thr c t) as [|o p|] eqn:Et; try discriminate Ev.
      destruct p as [|mo k| | | | | |]; try discriminate Ev.
      destruct mo; try discriminate Ev.
      inversion Ev; subst c1 os; clear Ev. cbn [mproj cproj app] in He |- *.
      destruct (silent_step st c s t o _ (k (RSnap l)) l HR Et) as [s1 [ls1 [A [B [Em HR1]]]]].
      { intros s0 H0. left. unfold Conc.cstep. rewrite H0. reflexivity. }
      rewrite <- Em in Hl. exists st, i, s1, ls1. auto 10.
    - (* reads of the clock and of the settings, emitted events *)
      destruct (v_thr c t) as [|o p|] eqn:Et; try discriminate Ev.
      destruct p as [|mo k|k|k|d k|k|cb k|e k]; try discriminate Ev;
        inversion Ev; subst c1 os; clear Ev; cbn [mproj cproj app] in He |- *.
      + destruct (silent_step st c s t o _ (k NOW) [] HR Et) as [s1 [ls1 [A [B [Em HR1]]]]].
        { intros s0 H0. left. unfold Conc.cstep. rewrite H0. reflexivity. }
        rewrite <- Em in Hl. exists st, i, s1, ls1. auto 10.
      + destruct (silent_step st c s t o _ (k DFLT) [] HR Et) as [s1 [ls1 [A [B [Em HR1]]]]].
        { intros s0 H0. left. unfold Conc.cstep. rewrite H0. reflexivity. }
        rewrite <- Em in Hl. exists st, i, s1, ls1. auto 10.
      + destruct (silent_step st c s t o _ (k CB) [] HR Et) as [s1 [ls1 [A [B [Em HR1]]]]].
        { intros s0 H0. left. unfold Conc.cstep. rewrite H0. reflexivity. }
        rewrite <- Em in Hl. exists st, i, s1, ls1. auto 10.
      + destruct (silent_step st c s t o _ k [] HR Et) as [s1 [ls1 [A [B [Em HR1]]]]].
        { intros s0 H0. right. exists e. unfold Conc.cstep. rewrite H0. reflexivity. }
        rewrite <- Em in Hl. exists st, i, s1, ls1. auto 10.
  Qed.


  (* the marks that are left when the trace has ended *)
  Lemma drain mf : forall (i : list (iev cmop imres)) st c s,
    wf_inst cmop imres st i -> legalF cmop imres _ cmspec (c_map s) i mf -> erase cmop imres i = [] -> REL st c s ->
    exists s' ls, creach s ls s' /\ history ls = [] /\ c_map s' = mf.
  Proof.
    induction i as [|x i IH]; intros st c s Hw Hl He HR.
    - inversion Hl; subst. exists s, []. split; [apply creach_refl|]. split; reflexivity.
    - destruct x as [t o|u o r|t r]; cbn [erase] in He; try discriminate He.
      apply wf_lin_i in Hw. destruct Hw as [Hst Hw]. apply legalF_lin_i in Hl. destruct Hl as [m1 [[Hns Hms] Hl]].
      pose proof (r_thr st c s HR u) as Hu. rewrite Hst in Hu.
      destruct (v_thr c u) as [|o' p|o' mo k] eqn:Ev; cbn [TR] in Hu; try contradiction.
      destruct Hu as [Eo Ets]. subst o.
      pose proof (cstep_mapcall s u [] o' mo k m1 r Ets Hns Hms) as Hstep.
      set (s1 := {| c_map := m1; c_thr := upd (c_thr s) u (Running o' (k r)); c_todo := c_todo s |}) in *.
      assert (HR1 : REL (upd st u (TLinearized mo r)) c s1).
      { constructor.
        - intros t. apply (r_todo st c s HR).
        - intros t. unfold s1; cbn [c_thr]. unfold upd. destruct (Nat.eq_dec t u) as [->|Hn].
          + rewrite Ev. cbn. auto.
          + apply (r_thr st c s HR). }
      destruct (IH (upd st u (TLinearized mo r)) c s1 Hw Hl He HR1) as [s' [ls [A [B C]]]].
      match type of Hstep with _ = Some (_, ?l) => set (l1 := l) in * end.
      exists s', (l1 ++ ls). split; [eapply creach_trans; [eapply creach_step; exact Hstep | exact A]|].
      split; [|exact C]. rewrite history_app. unfold l1. rewrite history_mapstep, B. reflexivity.
  Qed.

  Theorem compose_mainF mf c outs : vtrace c outs ->
    forall (i : list (iev cmop imres)) st s,
    wf_inst cmop imres st i -> legalF cmop imres _ cmspec (c_map s) i mf ->
    erase cmop imres i = mproj outs -> REL st c s ->
    exists ls s', creach s ls s' /\ history ls = cproj outs /\ c_map s' = mf.
  Proof.
    induction 1 as [c | c a c1 os c1' outs Ev Hq Hv IH]; intros i st s Hw Hl He HR.
    - destruct (drain mf i st c s Hw Hl He HR) as [s' [ls [A [B C]]]]. exists ls, s'. auto.
    - rewrite mproj_app in He.
      destruct (step_simF mf c a c1 os i st s _ Ev Hw Hl He HR) as [st' [i' [s1 [ls1 [A [B [C [D [E F]]]]]]]]].
      destruct (IH i' st' s1 D E F (REL_veq st' c1 c1' s1 Hq C)) as [ls [s' [A' [B' C']]]].
      exists (ls1 ++ ls), s'. split; [eapply creach_trans; eassumption|]. split; [|exact C'].
      rewrite history_app, cproj_app, B, B'. reflexivity.
  Qed.

  (* a combined trace whose map-level projection is linearizable with final map mf has the cache-level history of
     a run of the atomic machine that ends with the shared map mf *)
  Theorem compose_trace_final (m0 mf : amap K item) (todo : nat -> list cop) (outs : list out) :
    vtrace (vinit todo) outs ->
    linearizableF cmop imres _ cmspec m0 (mproj outs) mf ->
    exists sched, history (snd (crun (cinit m0 todo) sched)) = cproj outs
                  /\ c_map (fst (crun (cinit m0 todo) sched)) = mf.
  Proof.
    intros Hv [i [E [W L]]].
    destruct (compose_mainF mf _ _ Hv i (fun _ => TIdle) (cinit m0 todo) W L E) as [ls [s' [[sched A] [B C]]]].
    - constructor; cbn; [reflexivity | intros t; reflexivity].
    - exists sched. rewrite A. split; [exact B | exact C].
  Qed.

End ComposeF.
Print Assumptions compose_trace_final.
