(* SkelCb.v -- the evicted-callback accesses and invocations of the cache methods (C06): projection P_cb of the budgets *)
From CacheV Require Import Base SpecMap Client CacheModel CacheOfModel Ops.
From CacheV.gen Require Import Params SrcFacts.
From CacheV.proofs Require Export SkelDefs.
From CacheV.proofs Require Import SkelTac.
From Coq Require Import String ZArith List Lia Bool.
Import ListNotations.
Local Open Scope nat_scope.

Section Within.
  Context {K V : Type}.
  Variable eqd : forall a b : K, {a = b} + {a <> b}.
  Variable zero : V.

  Theorem cache_within_on (o : cop K V) :
    is_call o -> within (relax P_cb false budgets_map) (prog_cache eqd zero) o.
  Proof. solve_within_cache. Qed.

  Theorem cacheof_within_on (o : cop K V) :
    is_call o -> within (relax P_cb false budgets_mapof) (prog_cacheof eqd zero) o.
  Proof. solve_within_cacheof. Qed.
End Within.

Theorem attained_on :
  unattained_on P_cb false budgets_map (prog_cache Z.eq_dec 0%Z) = [] /\
  unattained_on P_cb false budgets_mapof (prog_cacheof Z.eq_dec 0%Z) = [].
Proof. split; vm_compute; reflexivity. Qed.

(* C06 / C13: no closure that the map runs under a bucket lock invokes the evicted callback (the translator gives such a
   method the primitive TFireLocked, which no model program has) *)
Definition no_fire_locked (tbl : list (string * (budget * nat))) : bool :=
  forallb (fun e => forallb (fun tn => negb (stok_beq (fst tn) TFireLocked)) (fst (snd e))) tbl.

Theorem no_callback_under_lock : no_fire_locked budgets_map = true /\ no_fire_locked budgets_mapof = true.
Proof. split; vm_compute; reflexivity. Qed.

(* C06: the callback is fired by removers only *)
Definition fires (tbl : list (string * (budget * nat))) : list string :=
  map fst (filter (fun e => existsb (fun tn => stok_beq (fst tn) TFire) (fst (snd e))) tbl).

Definition remover_names : list string := ["Delete"; "DeleteExpired"; "GetAndDelete"]%string.

Theorem only_removers_fire :
  fires budgets_map = remover_names /\ fires budgets_mapof = remover_names.
Proof. split; vm_compute; reflexivity. Qed.

