(* Skel.v -- theorems about the definitions of SkelDefs.v (see the comment there) *)
From CacheV Require Import Base SpecMap Client CacheModel CacheOfModel Ops.
From CacheV.gen Require Import Params SrcFacts.
From CacheV.proofs Require Export SkelDefs.
From Coq Require Import String ZArith List Lia Bool.
Import ListNotations.
Local Open Scope nat_scope.

(* ------------------------------------------------------------------ *)
(* lemmas for the loops *)

Lemma take_none_some (b : budget) (t : stok) b' :
  take b t = Some b' -> In (t, None) b -> (forall n, In (t, Some n) b -> False) -> b' = b.
Proof.
  revert b'. induction b as [|[t' n] r IH]; intros b' H Hin Hno; [discriminate|].
  cbn [take] in H. destruct (stok_beq t t') eqn:E.
  - apply internal_stok_dec_bl in E. subst t'. destruct n as [[|m]|].
    + discriminate.
    + exfalso. apply (Hno (S m)). left. reflexivity.
    + congruence.
  - destruct (take r t) as [r'|] eqn:Er; [|discriminate]. inversion H; subst b'. f_equal.
    apply IH; [reflexivity| |].
    + destruct Hin as [Hin|Hin]; [|exact Hin]. inversion Hin; subst.
      rewrite (internal_stok_dec_lb t t eq_refl) in E. discriminate.
    + intros n0 Hn. apply (Hno n0). right. exact Hn.
Qed.

Section Loops.
  Context {K V : Type}.
  Variable eqd : forall a b : K, {a = b} + {a <> b}.
  Variable zero : V.

  (* a budget in which t is unlimited *)
  Definition unl (b : budget) (t : stok) : Prop := take b t = Some b.

  Lemma fire_all_bounded {R} cf b c l (p : prog K V R) :
    unl b TFire -> bounded cf b p -> bounded cf b (CacheModel.fire_all c l p).
  Proof.
    intros Hf Hp. induction l as [|[k v] t IH]; cbn [CacheModel.fire_all]; [exact Hp|].
    cbn [bounded tk_ev]. rewrite Hf. exact IH.
  Qed.

  Lemma fire_all_bounded_of {R} cf b c l (p : prog K V R) :
    unl b TFire -> bounded cf b p -> bounded cf b (CacheOfModel.fire_all c l p).
  Proof.
    intros Hf Hp. induction l as [|[k v] t IH]; cbn [CacheOfModel.fire_all]; [exact Hp|].
    cbn [bounded tk_ev]. rewrite Hf. exact IH.
  Qed.

End Loops.

(* ------------------------------------------------------------------ *)
(* direction 1: every path of every model program stays within the source budget *)

Ltac lookup_budget :=
  match goal with
  | |- context [lookup_s ?n ?t] =>
      let x := eval vm_compute in (lookup_s n t) in change (lookup_s n t) with x
  end.

Ltac crunch :=
  repeat (first
    [ progress intros
    | match goal with
      | |- _ /\ _ => split
      | |- True => exact I
      | |- _ <= _ => solve [cbn; lia]
      end
    | progress cbn
    | match goal with
      | |- context [if ?c then _ else _] => destruct c
      | |- context [match ?x with _ => _ end] => destruct x
      end ]).

Section Bounded.
  Context {K V : Type}.
  Variable eqd : forall a b : K, {a = b} + {a <> b}.
  Variable zero : V.

  Lemma delexp_loop_bounded cf b ec now (snap : list (K * item V)) (ev : list (K * V)) :
    unl b TCompute -> unl b TFire ->
    bounded cf b (CacheModel.delexp_loop zero ec now snap ev).
  Proof.
    intros Hc Hf. revert ev. induction snap as [|[k i] t IH]; intros ev; cbn [CacheModel.delexp_loop].
    - destruct ec as [c|]; [|exact I]. apply fire_all_bounded; [exact Hf|exact I].
    - destruct (expiredWithNow now i); [|apply IH].
      cbn [bounded tk_of]. rewrite Hc. split.
      + cbn [closure_ok]. intros e x. unfold CacheModel.delexp_closure.
        destruct x as [cur|]; [destruct (expiredWithNow now cur)|]; cbn; lia.
      + intros r. destruct r as [|o ok a|n|l]; try apply IH.
        destruct a as [a|]; [|apply IH].
        destruct (a_ok a); [|apply IH]. destruct (a_old a); [|apply IH]. destruct ec; apply IH.
  Qed.

  Lemma range_loop_bounded cf b now (f : K -> V -> bool) (l : list (K * item V)) (vis : list (K * V)) :
    unl b TUserFn -> bounded cf b (CacheModel.range_loop now f l vis).
  Proof.
    intros Hu. revert vis. induction l as [|[k i] t IH]; intros vis; cbn [CacheModel.range_loop]; [exact I|].
    destruct (expiredWithNow now i); [apply IH|].
    cbn [bounded tk_ev]. rewrite Hu. destruct (f k (iv i)); [apply IH|exact I].
  Qed.

  Theorem cache_within_budget (o : cop K V) :
    is_call o -> within budgets_map (prog_cache eqd zero) o.
  Proof.
    intros Hcall. unfold within. destruct o; cbn [opname]; lookup_budget; cbn [prog_cache]; try (exfalso; exact Hcall).
    all: try (unfold CacheModel.SetDefault, CacheModel.SetForever, CacheModel.Set_, CacheModel.expiration_prog,
                CacheModel.Get, CacheModel.GetWithExpiration, CacheModel.GetWithTTL, CacheModel.get, CacheModel.bind,
                CacheModel.GetOrSet, CacheModel.GetAndSet, CacheModel.GetAndRefresh, CacheModel.GetOrCompute,
                CacheModel.Compute, CacheModel.GetAndDelete, CacheModel.Delete, CacheModel.fire, CacheModel.get_closure,
                CacheModel.Clear, CacheModel.Count, CacheModel.GetDefaultExpiration, CacheModel.SetDefaultExpiration,
                CacheModel.GetEvictedCallback, CacheModel.SetEvictedCallback, CacheModel.expired, CacheModel.expiration_env).
    all: try solve [crunch].
    - unfold CacheModel.GetAndDelete, CacheModel.bind, CacheModel.fire. crunch.
    - unfold CacheModel.DeleteExpired. cbn. intros ec now. split; [exact I|]. intros r. destruct r; try exact I.
      apply delexp_loop_bounded; reflexivity.
    - unfold CacheModel.Range. destruct f as [f|]; [|exact I]. cbn. intros now. split; [exact I|]. intros r. destruct r; try exact I.
      apply range_loop_bounded; reflexivity.
    - unfold CacheModel.Items, CacheModel.Range. cbn. split; [exact I|]. intros _ now. split; [exact I|]. intros r. destruct r; try exact I.
      apply range_loop_bounded; reflexivity.
  Qed.
End Bounded.

Section BoundedOf.
  Context {K V : Type}.
  Variable eqd : forall a b : K, {a = b} + {a <> b}.
  Variable zero : V.

  Lemma delexp_loop_bounded_of cf b ec now (snap : list (K * item V)) (ev : list (K * V)) :
    unl b TCompute -> unl b TFire ->
    bounded cf b (CacheOfModel.delexp_loop zero ec now snap ev).
  Proof.
    intros Hc Hf. revert ev. induction snap as [|[k i] t IH]; intros ev; cbn [CacheOfModel.delexp_loop].
    - destruct ec as [c|]; [|exact I]. apply fire_all_bounded_of; [exact Hf|exact I].
    - destruct (expiredWithNow now i); [|apply IH].
      cbn [bounded tk_of]. rewrite Hc. split.
      + cbn [closure_ok]. intros e x. unfold CacheOfModel.delexp_closure, CacheOfModel.arg.
        destruct x as [cur|]; cbn; [destruct (expiredWithNow now cur)|]; cbn; lia.
      + intros r. destruct r as [|o ok a|n|l]; try apply IH.
        destruct a as [a|]; [|apply IH].
        destruct (a_ok a); [|apply IH]. destruct (a_old a); [|apply IH]. destruct ec; apply IH.
  Qed.

  Lemma range_loop_bounded_of cf b now (f : K -> V -> bool) (l : list (K * item V)) (vis : list (K * V)) :
    unl b TUserFn -> bounded cf b (CacheOfModel.range_loop now f l vis).
  Proof.
    intros Hu. revert vis. induction l as [|[k i] t IH]; intros vis; cbn [CacheOfModel.range_loop]; [exact I|].
    destruct (expiredWithNow now i); [apply IH|].
    cbn [bounded tk_ev]. rewrite Hu. destruct (f k (iv i)); [apply IH|exact I].
  Qed.

  Theorem cacheof_within_budget (o : cop K V) :
    is_call o -> within budgets_mapof (prog_cacheof eqd zero) o.
  Proof.
    intros Hcall. unfold within. destruct o; cbn [opname]; lookup_budget; cbn [prog_cacheof]; try (exfalso; exact Hcall).
    all: try (unfold CacheOfModel.SetDefault, CacheOfModel.SetForever, CacheOfModel.Set_, CacheOfModel.expiration_prog,
                CacheOfModel.Get, CacheOfModel.GetWithExpiration, CacheOfModel.GetWithTTL, CacheOfModel.get, CacheOfModel.bind,
                CacheOfModel.GetOrSet, CacheOfModel.GetAndSet, CacheOfModel.GetAndRefresh, CacheOfModel.GetOrCompute,
                CacheOfModel.Compute, CacheOfModel.fire,
                CacheOfModel.Clear, CacheOfModel.Count, CacheOfModel.GetDefaultExpiration, CacheOfModel.SetDefaultExpiration,
                CacheOfModel.GetEvictedCallback, CacheOfModel.SetEvictedCallback, CacheOfModel.expired, CacheOfModel.expiration_env,
                CacheOfModel.arg).
    all: try solve [crunch].
    - unfold CacheOfModel.GetAndDelete, CacheOfModel.fire. crunch.
    - unfold CacheOfModel.Delete, CacheOfModel.GetAndDelete, CacheOfModel.bind, CacheOfModel.fire. crunch.
    - unfold CacheOfModel.DeleteExpired. cbn. intros ec now. split; [exact I|]. intros r. destruct r; try exact I.
      apply delexp_loop_bounded_of; reflexivity.
    - unfold CacheOfModel.Range. destruct f as [f|]; [|exact I]. cbn. intros now. split; [exact I|]. intros r. destruct r; try exact I.
      apply range_loop_bounded_of; reflexivity.
    - unfold CacheOfModel.Items, CacheOfModel.Range. cbn. split; [exact I|]. intros _ now. split; [exact I|]. intros r. destruct r; try exact I.
      apply range_loop_bounded_of; reflexivity.
  Qed.
End BoundedOf.


Local Open Scope Z_scope.

Theorem cache_budget_attained : unattained budgets_map (prog_cache Z.eq_dec 0) = [].
Proof. vm_compute. reflexivity. Qed.

Theorem cacheof_budget_attained : unattained budgets_mapof (prog_cacheof Z.eq_dec 0) = [].
Proof. vm_compute. reflexivity. Qed.

(* every public method of the source is a call of the model and vice versa *)
Definition model_methods : list string :=
  map (fun pr => opname (fst pr)) probes.

Theorem methods_covered :
  forallb (fun e => existsb (String.eqb (fst e)) model_methods) budgets_map = true /\
  forallb (fun e => existsb (String.eqb (fst e)) model_methods) budgets_mapof = true.
Proof. split; vm_compute; reflexivity. Qed.

(* C12, statically: the two texts have the same call structure *)
Theorem twins_same_budgets : budgets_map = budgets_mapof.
Proof. reflexivity. Qed.


(* what the diagnostics print on the unchanged tree: no probe exceeds its budget *)
Theorem no_probe_exceeds : exceeds budgets_map (prog_cache Z.eq_dec 0) = [] /\ exceeds budgets_mapof (prog_cacheof Z.eq_dec 0) = [].
Proof. split; vm_compute; reflexivity. Qed.

(* ------------------------------------------------------------------ *)
(* facts about the translated source that the properties name *)

Local Open Scope nat_scope.

(* C02's mechanism: each read-modify-write method is ONE Compute on the map and nothing else outside it *)
Definition rmw_methods : list string := ["GetOrSet"; "GetAndSet"; "GetAndRefresh"; "GetOrCompute"; "Compute"]%string.

Definition single_compute (tbl : list (string * (budget * nat))) : bool :=
  forallb (fun m => match lookup_s m tbl with
                    | Some ([(TCompute, Some 1)], _) => true
                    | _ => false
                    end) rmw_methods.

Theorem rmw_single_compute : single_compute budgets_map = true /\ single_compute budgets_mapof = true.
Proof. split; vm_compute; reflexivity. Qed.

(* C05: no closure of the source can invoke a user function twice, and only GetOrCompute / Compute have one *)
Definition fn_budget_ok (tbl : list (string * (budget * nat))) : bool :=
  forallb (fun e => let '(n, (_, cf)) := e in
                    if String.eqb n "GetOrCompute" || String.eqb n "Compute" then Nat.eqb cf 1 else Nat.eqb cf 0) tbl.

Theorem fn_once_per_closure : fn_budget_ok budgets_map = true /\ fn_budget_ok budgets_mapof = true.
Proof. split; vm_compute; reflexivity. Qed.

(* C06 / C13: the translator met nothing it could not account for -- in particular no closure run under a
   bucket lock fires the evicted callback or calls back into the map, and no goroutine is started by a method *)
Definition no_unknown (tbl : list (string * (budget * nat))) : bool :=
  forallb (fun e => forallb (fun tn => negb (stok_beq (fst tn) TUnknown)) (fst (snd e))) tbl.

Theorem source_fully_translated : no_unknown budgets_map = true /\ no_unknown budgets_mapof = true.
Proof. split; vm_compute; reflexivity. Qed.

(* C06: the callback is fired by removers only *)
Definition fires (tbl : list (string * (budget * nat))) : list string :=
  map fst (filter (fun e => existsb (fun tn => stok_beq (fst tn) TFire) (fst (snd e))) tbl).

Definition remover_names : list string := ["Delete"; "DeleteExpired"; "GetAndDelete"]%string.

Theorem only_removers_fire :
  fires budgets_map = remover_names /\ fires budgets_mapof = remover_names.
Proof. split; vm_compute; reflexivity. Qed.

(* non-vacuity of [bounded]: a program that makes two map calls is NOT within a budget of one *)
Example bounded_discriminates :
  ~ bounded (K := Z) (V := Z) 0 [(TCompute, Some 1)]
      (MapCall (CLoad 1%Z) (fun _ => MapCall (CStore 1%Z (it 1 0)) (fun _ => Ret (@CUnit Z Z)))).
Proof. cbn. intros [_ H]. exact H. Qed.

Example unattained_discriminates :
  unattained [("Set"%string, ([(TDflt, Some 1); (TNow, Some 1); (TStore, Some 1); (TLoad, Some 1)], 0))]
             (prog_cache Z.eq_dec 0%Z) = [("Set"%string, Some TLoad)].
Proof. vm_compute. reflexivity. Qed.
