(* Skel.v -- the full tie: all primitives (see SkelDefs.v for the definitions, SkelTac.v for the scripts) *)
From CacheV Require Import Base SpecMap Client CacheModel CacheOfModel Ops.
From CacheV.gen Require Import Params SrcFacts.
From CacheV.proofs Require Export SkelDefs.
From CacheV.proofs Require Import SkelTac.
From Coq Require Import String ZArith List Lia Bool.
Import ListNotations.
Local Open Scope nat_scope.


Section Bounded.
  Context {K V : Type}.
  Variable eqd : forall a b : K, {a = b} + {a <> b}.
  Variable zero : V.

  Theorem cache_within_budget (o : cop K V) :
    is_call o -> within budgets_map (prog_cache eqd zero) o.
  Proof. solve_within_cache. Qed.

  Theorem cacheof_within_budget (o : cop K V) :
    is_call o -> within budgets_mapof (prog_cacheof eqd zero) o.
  Proof. solve_within_cacheof. Qed.
End Bounded.



Local Open Scope Z_scope.

Theorem cache_budget_attained : unattained budgets_map (prog_cache Z.eq_dec 0) = [].
Proof. vm_compute. reflexivity. Qed.

Theorem cacheof_budget_attained : unattained budgets_mapof (prog_cacheof Z.eq_dec 0) = [].
Proof. vm_compute. reflexivity. Qed.

(* every public method of the source is a call of the model and vice versa *)
Definition model_methods : list string :=
  map (fun pr => opname (fst pr)) probes.

Theorem methods_covered :
  forallb (fun e => existsb (String.eqb (fst e)) model_methods) budgets_map = true /\
  forallb (fun e => existsb (String.eqb (fst e)) model_methods) budgets_mapof = true.
Proof. split; vm_compute; reflexivity. Qed.

(* C12, statically: the two texts have the same call structure *)
Theorem twins_same_budgets : budgets_map = budgets_mapof.
Proof. reflexivity. Qed.


(* what the diagnostics print on the unchanged tree: no probe exceeds its budget *)
Theorem no_probe_exceeds : exceeds budgets_map (prog_cache Z.eq_dec 0) = [] /\ exceeds budgets_mapof (prog_cacheof Z.eq_dec 0) = [].
Proof. split; vm_compute; reflexivity. Qed.

Local Open Scope nat_scope.

(* non-vacuity of [bounded]: a program that makes two map calls is NOT within a budget of one *)
Example bounded_discriminates :
  ~ bounded (K := Z) (V := Z) 0 [(TCompute, Some 1)]
      (MapCall (CLoad 1%Z) (fun _ => MapCall (CStore 1%Z (it 1 0)) (fun _ => Ret (@CUnit Z Z)))).
Proof. cbn. intros [_ H]. exact H. Qed.

Example unattained_discriminates :
  unattained [("Set"%string, ([(TDflt, Some 1); (TNow, Some 1); (TStore, Some 1); (TLoad, Some 1)], 0))]
             (prog_cache Z.eq_dec 0%Z) = [("Set"%string, Some TLoad)].
Proof. vm_compute. reflexivity. Qed.
