(* CX_range_ex.v -- C07 at the cache level under concurrency: concrete runs (vm_compute).

   The executable instance of CX_mapof2.v (MapOf, 32 buckets, hash given by an oracle that puts
   key 1 in bucket 0, key 6 in bucket 1, key 2 in bucket 5, key 3 in bucket 10, key 4 in bucket 20).
   Thread 0: Set 1, Set 2, Set 4, then Range (visitor always true).  While the traversal of the
   Range stands before bucket 8 (it has visited keys 1 and 2), thread 1 runs Set(3) and Set(6)
   from invocation to response and thread 2 runs Delete(4) from invocation to response.  The Range
   then goes on and returns [(1,10); (2,20); (3,30)]:
     - key 3, stored DURING the traversal in a bucket still ahead, is visited;
     - key 6, stored during the traversal in a bucket already passed, is not;
     - key 4, present when the traversal began, deleted during it in a bucket still ahead, is not
       (it did not stay present for the whole duration of the call: C07 does not promise it).
   A Range is not a snapshot; the theorems of CX_range3.v say exactly what it is.
   [range_overlap_call]: the window hypotheses of those theorems hold of this run (non-vacuity);
   [items_blocked_under_xsup] / [items_runs]: with sup := xsup (cx2step) Items never gets past its
   Size call; with sup := everything it runs (Size on the machine, then the traversal). *)
From CacheV Require Import Base SpecMap Client CacheModel CacheOfModel Ops SpecTTL Lin Conc XMachine TabExec Exec XExec.
From CacheV.gen Require Import Params.
From CacheV.proofs Require Import X_swar X_lin X_range CX_compose CX_mapof CX_product2 CX_mapof2 CX_range CX_range2 CX_range3.
From Coq Require Import NArith ZArith List.
Import ListNotations.
Local Open Scope nat_scope.

Definition rx_ft : Z -> Z -> bool := fun _ _ => true.
Definition rx_or : oracle := [(1%Z,0%N,1%N); (2%Z,0%N,642%N); (4%Z,0%N,2564%N); (3%Z,0%N,1283%N); (6%Z,0%N,134%N)].
Definition rx_range : cop Z Z := ORange (Some rx_ft) [].
Definition rx_todo (t : nat) : list (cop Z Z) :=
  match t with
  | 0 => [OSet 1%Z 10%Z 0%Z; OSet 2%Z 20%Z 0%Z; OSet 4%Z 40%Z 0%Z; rx_range]
  | 1 => [OSet 3%Z 30%Z 0%Z; OSet 6%Z 60%Z 0%Z]
  | 2 => [ODelete 4%Z]
  | _ => []
  end.
Definition rx_len := minlen_of_hint true 0%Z.
Definition rx_nslots := Z.to_nat entriesPerMapOfBucket.

Definition rx_conf sup todo sched0 a :=
  conf_at zeqd (hash_of rx_or) idx_mapof tag_mapof rx_nslots (seeds_of []) grow_needed_m shrink_policy_m probe_x nstripes_x rx_len false rx_len
          (prog_cache zeqd 0%Z) sup 100%Z 0%Z None todo sched0 a.
Definition rx_whist sup todo sched0 sched t :=
  window_hist zeqd (hash_of rx_or) idx_mapof tag_mapof rx_nslots (seeds_of []) grow_needed_m shrink_policy_m probe_x nstripes_x rx_len false rx_len
          (prog_cache zeqd 0%Z) sup 100%Z 0%Z None todo sched0 sched t.
Definition rx_call sup todo sched0 sched t o rest l :=
  range_call zeqd (hash_of rx_or) idx_mapof tag_mapof rx_nslots (seeds_of []) grow_needed_m shrink_policy_m probe_x nstripes_x rx_len false rx_len
          (prog_cache zeqd 0%Z) sup 100%Z 0%Z None todo sched0 sched t o rest l.
Definition rx_hist sup todo sched :=
  cproj (pouts zeqd (hash_of rx_or) idx_mapof tag_mapof rx_nslots (seeds_of []) grow_needed_m shrink_policy_m probe_x nstripes_x rx_len false
               (prog_cache zeqd 0%Z) 100%Z 0%Z None sup
               (ginit rx_nslots (seeds_of []) nstripes_x rx_len todo) sched).

(* thread 0 up to just before it invokes the Range *)
Definition rx_s0 : list nat := repeat 0 34.
(* the Range is invoked, runs on the machine up to bucket 8 *)
Definition rx_w1 : list nat := repeat 0 20.
(* thread 1: Set 3, Set 6; thread 2: Delete 4 -- whole calls *)
Definition rx_w2 : list nat := rx_w1 ++ repeat 1 24 ++ repeat 2 20.
(* the Range goes on to the end and returns *)
Definition rx_w3 : list nat := rx_w2 ++ repeat 0 52.

Definition rx_thr sup todo sched0 a t := p_thr _ (rx_conf sup todo sched0 a) t.
Definition rx_pc sup todo sched0 a t := g_pc (p_x _ (rx_conf sup todo sched0 a)) t.

Example range_overlaps_set_and_delete :
  (* the traversal stands before bucket 8 of table 0 and has visited keys 1 and 2 *)
  (exists o k, rx_thr (@xsup Z Z) rx_todo rx_s0 rx_w1 0 = QSWait o k [(1%Z, {| iv := 10%Z; ie := 0%Z |}); (2%Z, {| iv := 20%Z; ie := 0%Z |})])
  /\ rx_pc (@xsup Z Z) rx_todo rx_s0 rx_w1 0 = PG_Lock 0 8
  (* the other threads' calls have all returned, the traversal has not moved *)
  /\ rx_hist (@xsup Z Z) rx_todo (rx_s0 ++ rx_w2)
     = [HInv 0 (OSet 1%Z 10%Z 0%Z); HRes 0 CUnit; HInv 0 (OSet 2%Z 20%Z 0%Z); HRes 0 CUnit; HInv 0 (OSet 4%Z 40%Z 0%Z); HRes 0 CUnit;
        HInv 0 rx_range;
        HInv 1 (OSet 3%Z 30%Z 0%Z); HRes 1 CUnit; HInv 1 (OSet 6%Z 60%Z 0%Z); HRes 1 CUnit;
        HInv 2 (ODelete 4%Z); HRes 2 CUnit]
  /\ rx_pc (@xsup Z Z) rx_todo rx_s0 rx_w2 0 = PG_Lock 0 8
  (* the whole window, seen by thread 0 *)
  /\ rx_whist (@xsup Z Z) rx_todo rx_s0 rx_w3 0 = [HInv 0 rx_range; HRes 0 (CList [(1%Z, 10%Z); (2%Z, 20%Z); (3%Z, 30%Z)])].
Proof.
  split; [eexists; eexists; vm_compute; reflexivity|].
  split; [vm_compute; reflexivity|].
  split; [vm_compute; reflexivity|].
  split; [vm_compute; reflexivity|].
  vm_compute; reflexivity.
Qed.

(* the hypotheses of the theorems of CX_range3.v hold of this run *)
Example range_overlap_call :
  rx_call (@xsup Z Z) rx_todo rx_s0 rx_w3 0 rx_range [] [(1%Z, 10%Z); (2%Z, 20%Z); (3%Z, 30%Z)].
Proof.
  split.
  - split; [vm_compute; reflexivity|]. split; [vm_compute; reflexivity|]. split; vm_compute; reflexivity.
  - vm_compute. right. left. reflexivity.
Qed.

(* ... so they apply: e.g. (b) for the pair (3, 30), which was stored during the traversal *)
Example range_overlap_no_phantom :
  exists a b tab i, rx_w3 = a ++ b /\ seen_at (hash_of rx_or) idx_mapof rx_nslots nstripes_x (rx_conf (@xsup Z Z) rx_todo rx_s0 a) 0 tab 3%Z i
                    /\ iv i = 30%Z /\ expiredWithNow 100%Z i = false.
Proof.
  assert (Hlen : 0 < rx_len) by (destruct (x_instance_hyps4 0%Z) as [[_ [_ H]] _]; exact H).
  apply (cache_range_no_phantom zeqd (hash_of rx_or) idx_mapof tag_mapof rx_nslots (seeds_of []) grow_needed_m shrink_policy_m probe_x nstripes_x
           rx_len false rx_len 0%Z (x_instance_hyps4 0%Z) Hlen (@xsup Z Z) 100%Z 0%Z None rx_todo rx_s0 rx_w3 0 rx_range rx_ft [] []
           (or_introl eq_refl) _ 3%Z 30%Z range_overlap_call).
  right. right. left. reflexivity.
Qed.

(* ---------------- Items ---------------- *)

Definition rx_todo_items (t : nat) : list (cop Z Z) :=
  match t with
  | 0 => [OSet 1%Z 10%Z 0%Z; OSet 2%Z 20%Z 0%Z; OItems []]
  | _ => []
  end.
Definition rx_all : cmop Z Z -> bool := fun _ => true.

(* under cx2step (sup := xsup) Items stops at its Size call, for ever *)
Example items_blocked_under_xsup :
  (exists o k, rx_thr (@xsup Z Z) rx_todo_items [] (repeat 0 24) 0 = QRun o (MapCall CSize k))
  /\ rx_conf (@xsup Z Z) rx_todo_items [] (repeat 0 200) = rx_conf (@xsup Z Z) rx_todo_items [] (repeat 0 24).
Proof. split; [eexists; eexists; vm_compute; reflexivity | vm_compute; reflexivity]. Qed.

(* with every map call run on the machine it returns what is there *)
Example items_runs :
  rx_call rx_all rx_todo_items (repeat 0 23) (repeat 0 90) 0 (OItems []) [] [(1%Z, 10%Z); (2%Z, 20%Z)].
Proof.
  split.
  - split; [vm_compute; reflexivity|]. split; [vm_compute; reflexivity|]. split; vm_compute; reflexivity.
  - vm_compute. right. left. reflexivity.
Qed.


(* ---------------- a traversal overlapped by Clear: the walked table goes stale ---------------- *)

(* Thread 0: Set 1, Set 2, Range.  The traversal has visited key 1 and stands before bucket 2 of table 0
   when thread 1 runs Clear (a new, empty table 1 is published: g_cur = 1) and then Get 2, which answers
   "not there" -- both from invocation to response.  The traversal goes on IN TABLE 0 and hands (2, 20) to
   the visitor afterwards.  So the strict reading of "no phantom" -- the pair is in the map (the CURRENT
   table, [abs]) at the moment it is handed to the visitor, or at any moment after some other thread has
   observed its absence -- is FALSE of the model (as it is of the Go code: Range walks the table whose
   pointer it loaded).  What holds is cache_range_no_phantom / _tab: (2, 20) was visible in the walked table
   while the traversal was under way, and that table was the current one at a configuration of the window
   (here: up to the publication by Clear, which lies inside the window); _abs needs "no table published
   during the window", which fails here. *)
Definition rx_todo_clear (t : nat) : list (cop Z Z) :=
  match t with
  | 0 => [OSet 1%Z 10%Z 0%Z; OSet 2%Z 20%Z 0%Z; rx_range]
  | 1 => [OClear; OGet 2%Z]
  | _ => []
  end.
Definition rx_c0 : list nat := repeat 0 23.
Definition rx_c1 : list nat := repeat 0 8.
Definition rx_c2 : list nat := rx_c1 ++ repeat 1 40.
Definition rx_c3 : list nat := rx_c2 ++ repeat 0 85.

Example range_visit_in_current_table_refuted :
  (* before Clear: the traversal walks table 0, the current one; it has visited key 1 only *)
  (exists o k, rx_thr (@xsup Z Z) rx_todo_clear rx_c0 rx_c1 0 = QSWait o k [(1%Z, {| iv := 10%Z; ie := 0%Z |})])
  /\ rx_pc (@xsup Z Z) rx_todo_clear rx_c0 rx_c1 0 = PG_Lock 0 2
  /\ g_cur (p_x _ (rx_conf (@xsup Z Z) rx_todo_clear rx_c0 rx_c1)) = 0
  (* after Clear and Get 2 of thread 1: table 1 is current, the traversal has not moved, Get 2 found nothing *)
  /\ g_cur (p_x _ (rx_conf (@xsup Z Z) rx_todo_clear rx_c0 rx_c2)) = 1
  /\ rx_pc (@xsup Z Z) rx_todo_clear rx_c0 rx_c2 0 = PG_Lock 0 2
  /\ (exists o k, rx_thr (@xsup Z Z) rx_todo_clear rx_c0 rx_c2 0 = QSWait o k [(1%Z, {| iv := 10%Z; ie := 0%Z |})])
  /\ rx_hist (@xsup Z Z) rx_todo_clear (rx_c0 ++ rx_c2)
     = [HInv 0 (OSet 1%Z 10%Z 0%Z); HRes 0 CUnit; HInv 0 (OSet 2%Z 20%Z 0%Z); HRes 0 CUnit; HInv 0 rx_range;
        HInv 1 OClear; HRes 1 CUnit; HInv 1 (OGet 2%Z); HRes 1 (CVal 0%Z false)]
  (* ... and yet the Range hands (2, 20) to the visitor afterwards *)
  /\ rx_whist (@xsup Z Z) rx_todo_clear rx_c0 rx_c3 0 = [HInv 0 rx_range; HRes 0 (CList [(1%Z, 10%Z); (2%Z, 20%Z)])]
  /\ rx_call (@xsup Z Z) rx_todo_clear rx_c0 rx_c3 0 rx_range [] [(1%Z, 10%Z); (2%Z, 20%Z)].
Proof.
  split; [eexists; eexists; vm_compute; reflexivity|].
  split; [vm_compute; reflexivity|].
  split; [vm_compute; reflexivity|].
  split; [vm_compute; reflexivity|].
  split; [vm_compute; reflexivity|].
  split; [eexists; eexists; vm_compute; reflexivity|].
  split; [vm_compute; reflexivity|].
  split; [vm_compute; reflexivity|].
  split.
  - split; [vm_compute; reflexivity|]. split; [vm_compute; reflexivity|]. split; vm_compute; reflexivity.
  - vm_compute. right. left. reflexivity.
Qed.

Print Assumptions range_overlaps_set_and_delete.
Print Assumptions range_overlap_no_phantom.
Print Assumptions items_runs.
Print Assumptions range_visit_in_current_table_refuted.
