(* X_maps.v -- first facts about XMachineS (map.go): the lock-free read path of
   Map -- Load with its value / key / value snapshot, the read-only fast path of
   doCompute, Size -- never blocks, performs loads only and changes nothing
   shared, in every reachable state. *)
From CacheV Require Import Base SpecMap XMachineS.
From Coq Require Import NArith.
Local Open Scope nat_scope.

Section MapS.
  Context {K V : Type}.
  Variable eqd : forall a b : K, {a = b} + {a <> b}.
  Variable hash : K -> N -> N.
  Variable idx : N -> nat -> nat.
  Variable tophash : N -> N.
  Variable nslots : nat.
  Variable seeds : nat -> N.
  Variable grow_needed : nat -> Z -> bool.
  Variable shrink_policy : nat -> Z -> bool.
  Variable nstripes : nat -> nat.
  Variable minlen : nat.
  Variable grow_only : bool.

  Notation mstate := (@mstate K V).
  Notation spc := (@spc K V).
  Notation sstep_pc := (@sstep_pc K V eqd hash idx tophash nslots seeds grow_needed shrink_policy nstripes minlen grow_only).
  Notation sstep := (@sstep K V eqd hash idx tophash nslots seeds grow_needed shrink_policy nstripes minlen grow_only).
  Notation srun := (@srun K V eqd hash idx tophash nslots seeds grow_needed shrink_policy nstripes minlen grow_only).

  Definition sreader_pc (p : spc) : bool :=
    match p with
    | QL_Table _ _ | QL_Top _ _ _ _ _ | QL_Val _ _ _ _ _ _ | QL_Key _ _ _ _ _ _ _ | QL_Val2 _ _ _ _ _ _ _ _
    | QL_Next _ _ _ _ _ | QS_Table | QS_Sum _ _ _ => true
    | _ => false
    end.

  (* the slots still to probe in a bucket are never the empty list while the reader stands on one *)
  Fixpoint todo_ok (p : spc) : Prop :=
    match p with
    | QL_Val _ _ _ _ _ todo | QL_Key _ _ _ _ _ todo _ | QL_Val2 _ _ _ _ _ todo _ _ => todo <> []
    | QU_Load _ _ _ a | QU_Store _ _ _ _ a | QA_Add _ _ _ a => todo_ok a
    | _ => True
    end.

  Definition sload_kind (k : skind) : bool :=
    match k with SKLoadPtr _ | SKLoadU64 _ | SKLoadI64 _ => true | _ => false end.

  (* what a step on the read path may emit: loads by t; its return; and, when the read was
     the fast path of a call made by a Range visitor, that Range's next visits *)
  Definition sread_label (t : nat) (l : @slabel K V) : Prop :=
    match l with
    | SStep t' k => t' = t /\ sload_kind k = true
    | SRes t' _ | SSubRes t' _ | SVisit t' _ _ | SSubInv t' _ => t' = t
    | _ => False
    end.

  Definition sshared_eq (s s' : mstate) : Prop :=
    h_tabs s' = h_tabs s /\ h_cur s' = h_cur s /\ h_resizing s' = h_resizing s /\ h_rmu s' = h_rmu s
    /\ h_growths s' = h_growths s /\ h_shrinks s' = h_shrinks s /\ h_alloc s' = h_alloc s.

  Lemma svisits_shared (s : mstate) t rest vf after ls :
    sshared_eq s (fst (svisits s t rest vf after ls))
    /\ (forall t', t' <> t -> h_pc (fst (svisits s t rest vf after ls)) t' = h_pc s t')
    /\ (Forall (sread_label t) ls -> Forall (sread_label t) (snd (svisits s t rest vf after ls))).
  Proof.
    revert ls. induction rest as [|[k v] r IH]; intros ls; cbn [svisits].
    - destruct after; cbn; (split; [unfold sshared_eq; cbn; auto 10|]);
        (split; [intros t' Hne; destruct (Nat.eq_dec t' t); [contradiction|reflexivity]|]); intros H; auto.
      apply Forall_app. split; [exact H | constructor; [reflexivity | constructor]].
    - destruct (vf k v) as [cx|].
      + cbn. split; [unfold sshared_eq; cbn; auto 10|]. split; [intros t' Hne; destruct (Nat.eq_dec t' t); [contradiction|reflexivity]|].
        intros H. apply Forall_app. split; [exact H|]. constructor; [reflexivity|]. constructor; [reflexivity | constructor].
      + destruct (IH (ls ++ [SVisit t k v])) as [A [B C]]. split; [exact A|]. split; [exact B|].
        intros H. apply C. apply Forall_app. split; [exact H | constructor; [reflexivity | constructor]].
  Qed.

  Lemma sgoto_shared (s : mstate) t p ls :
    sshared_eq s (fst (sgoto s t p ls))
    /\ (forall t', t' <> t -> h_pc (fst (sgoto s t p ls)) t' = h_pc s t')
    /\ (Forall (sread_label t) ls -> Forall (sread_label t) (snd (sgoto s t p ls))).
  Proof.
    assert (Hd : sshared_eq s (sset_pc s t p) /\ (forall t', t' <> t -> h_pc (sset_pc s t p) t' = h_pc s t')).
    { split; [unfold sshared_eq; cbn; auto 10|]. intros t' Hne. cbn. destruct (Nat.eq_dec t' t); [contradiction|reflexivity]. }
    destruct p; cbn [sgoto fst snd]; try (destruct Hd as [A B]; split; [exact A|]; split; [exact B | auto]).
    destruct (h_frame s t) as [fr|].
    - destruct (svisits_shared s t (rf_rest fr) (rf_vf fr) (rf_after fr) (ls ++ [SSubRes t r])) as [A [B C]].
      split; [exact A|]. split; [exact B|]. intros H. apply C. apply Forall_app. split; [exact H | constructor; [reflexivity | constructor]].
    - cbn. split; [unfold sshared_eq; cbn; auto 10|]. split; [intros t' Hne; destruct (Nat.eq_dec t' t); [contradiction|reflexivity]|].
      intros H. apply Forall_app. split; [exact H | constructor; [reflexivity | constructor]].
  Qed.

  Lemma some_pair {A B} (g : A * B) a b : Some g = Some (a, b) -> a = fst g /\ b = snd g.
  Proof. intros H. inversion H. auto. Qed.

  (* one step on the read path: loads only, nothing shared changes *)
  Theorem sreader_step s t p s' ls : sreader_pc p = true -> sstep_pc s t p = Some (s', ls) ->
    sshared_eq s s' /\ (forall t', t' <> t -> h_pc s' t' = h_pc s t') /\ Forall (sread_label t) ls.
  Proof.
    intros Hr Hs. destruct p; try discriminate Hr; cbn [XMachineS.sstep_pc] in Hs; cbv zeta in Hs;
      repeat match type of Hs with
             | context [match ?x with _ => _ end] => destruct x eqn:?
             end; try discriminate Hs; apply some_pair in Hs; destruct Hs as [-> ->];
      match goal with |- context [sgoto ?S0 ?T ?P ?L] =>
        destruct (sgoto_shared S0 T P L) as [A [B C]]; split; [exact A|]; split; [exact B|]; apply C;
        repeat constructor end.
  Qed.

  (* a reader never blocks *)
  Theorem sreader_enabled s t p : sreader_pc p = true -> todo_ok p -> sstep_pc s t p <> None.
  Proof.
    intros Hr Ht. destruct p; try discriminate Hr; cbn [XMachineS.sstep_pc]; cbv zeta; cbn [todo_ok] in Ht;
      try (destruct todo; [contradiction|]);
      repeat match goal with |- context [match ?x with _ => _ end] => destruct x end; discriminate.
  Qed.


  (* ---------------- every reachable state ---------------- *)

  Definition SV (s : mstate) : Prop :=
    (forall t, todo_ok (h_pc s t)) /\ (forall t fr, h_frame s t = Some fr -> todo_ok (rf_after fr)).

  Lemma start_cx_ok (cx : @scx K V) : todo_ok (sstart_cx cx).
  Proof. unfold sstart_cx. destruct (sc_lie cx); exact I. Qed.

  Lemma SV_set_pc s t p : SV s -> todo_ok p -> SV (sset_pc s t p).
  Proof.
    intros [A B] Hp. split; [|exact B]. intros t'. cbn. destruct (Nat.eq_dec t' t); [exact Hp | apply A].
  Qed.

  Lemma SV_svisits s t rest vf after ls : SV s -> todo_ok after -> SV (fst (svisits s t rest vf after ls)).
  Proof.
    intros HS Ha. revert ls. induction rest as [|[k v] r IH]; intros ls; cbn [svisits].
    - destruct HS as [A B].
      assert (H0 : SV (sset_frame s t None)).
      { split; [exact A|]. intros t' fr. cbn. destruct (Nat.eq_dec t' t); [discriminate | apply B]. }
      destruct after; cbn [fst]; first [apply SV_set_pc; [exact H0 | exact Ha] | apply SV_set_pc; [exact H0 | exact I]].
    - destruct (vf k v) as [cx|]; [|apply IH]. cbn [fst]. destruct HS as [A B]. apply SV_set_pc; [|apply start_cx_ok].
      split; [exact A|]. intros t' fr. cbn. destruct (Nat.eq_dec t' t); [intros E; inversion E; subst; exact Ha | apply B].
  Qed.

  Lemma SV_sgoto s t p ls : SV s -> todo_ok p -> SV (fst (sgoto s t p ls)).
  Proof.
    intros HS Hp. destruct p; cbn [sgoto fst]; try (apply SV_set_pc; assumption).
    destruct (h_frame s t) as [fr|] eqn:E.
    - apply SV_svisits; [exact HS|]. destruct HS as [_ B]. apply (B t fr E).
    - apply SV_set_pc; [exact HS | exact I].
  Qed.

  Lemma SV_same (s s' : mstate) : h_pc s' = h_pc s -> h_frame s' = h_frame s -> SV s -> SV s'.
  Proof. intros E1 E2 [A B]. split; [intros t; rewrite E1; apply A | intros t fr; rewrite E2; apply B]. Qed.

  Lemma after_lock_ok (s : mstate) t tab b lk :
    h_pc (fst (after_lock hash idx tophash nslots nstripes s t tab b lk)) = h_pc s
    /\ h_frame (fst (after_lock hash idx tophash nslots nstripes s t tab b lk)) = h_frame s
    /\ todo_ok (snd (after_lock hash idx tophash nslots nstripes s t tab b lk)).
  Proof.
    unfold after_lock. destruct lk; cbv zeta.
    - cbn. auto.
    - match goal with |- context [scopy_chain ?a ?b ?c ?d ?e ?f] => destruct (scopy_chain a b c d e f) as [nt cp] end.
      match goal with |- context [Nat.ltb ?x ?y] => destruct (Nat.ltb x y) end; cbn; auto.
    - match goal with |- context [Nat.ltb ?x ?y] => destruct (Nat.ltb x y) end; cbn; auto.
  Qed.


  Theorem SV_sstep_pc s t p s' ls : SV s -> h_pc s t = p -> sstep_pc s t p = Some (s', ls) -> SV s'.
  Proof.
    intros HS Hp Hs. pose proof (proj1 HS t) as Ht. rewrite Hp in Ht.
    destruct p; cbn [XMachineS.sstep_pc] in Hs; cbv zeta in Hs;
      repeat match type of Hs with
             | context [match ?x with _ => _ end] => destruct x eqn:?
             end; try discriminate Hs; apply some_pair in Hs; destruct Hs as [-> _]; cbn [todo_ok] in Ht.
    all: try (apply SV_set_pc; [exact HS | exact I]).
    all: try match goal with
             | Ha : after_lock _ _ _ _ _ ?S1 ?T ?TAB ?B ?LK = (_, _) |- _ =>
                 destruct (after_lock_ok S1 T TAB B LK) as [A1 [A2 A3]]; rewrite Ha in A1, A2, A3; cbn [fst snd] in A1, A2, A3;
                 apply SV_sgoto; [apply (SV_same s); [rewrite A1; reflexivity | rewrite A2; reflexivity | exact HS] | exact A3]
             end.
    all: try (apply SV_sgoto; [apply (SV_same s); [reflexivity | reflexivity | exact HS] | cbn [todo_ok]; auto; try discriminate]).
    all: try (apply SV_svisits; [apply (SV_same s); [reflexivity | reflexivity | exact HS] | exact Ht]).
    all: try (destruct lc; exact I).
    all: try match goal with |- context [srun_cont ?kt] => destruct kt; exact I end.
    (* Broadcast: the waiters move to the relock *)
    apply SV_sgoto; [|exact I]. destruct HS as [A B]. split; [|exact B].
    intros t'. cbn [h_pc]. pose proof (A t') as H. destruct (h_pc s t'); cbn; auto.
  Qed.


  Lemma sstart_ok (o : @sop K V) : todo_ok (sstart_pc o).
  Proof. destruct o; cbn; auto. apply start_cx_ok. Qed.

  Lemma SV_sstep s t s' ls : SV s -> sstep s t = Some (s', ls) -> SV s'.
  Proof.
    intros HS Hs. unfold XMachineS.sstep in Hs.
    destruct (h_pc s t) eqn:Hp; try (eapply SV_sstep_pc; [exact HS | exact Hp | exact Hs]).
    destruct (h_todo s t) as [|o rest]; [discriminate|].
    set (s1 := {| h_tabs := h_tabs s; h_cur := h_cur s; h_resizing := h_resizing s; h_rmu := h_rmu s;
                  h_growths := h_growths s; h_shrinks := h_shrinks s; h_alloc := h_alloc s;
                  h_pc := fun t' => if Nat.eq_dec t' t then sstart_pc o else h_pc s t';
                  h_todo := fun t' => if Nat.eq_dec t' t then rest else h_todo s t'; h_frame := h_frame s |}) in *.
    assert (H1 : SV s1).
    { destruct HS as [A B]. split; [|exact B]. intros t'. cbn. destruct (Nat.eq_dec t' t); [apply sstart_ok | apply A]. }
    destruct (sstep_pc s1 t (sstart_pc o)) as [[s2 ls0]|] eqn:E.
    - inversion Hs; subst. eapply SV_sstep_pc; [exact H1 | | exact E]. cbn. destruct (Nat.eq_dec t t); congruence.
    - inversion Hs; subst. exact H1.
  Qed.

  Theorem SV_reachable len0 todo sched : SV (fst (srun (sinit nslots seeds nstripes len0 todo) sched)).
  Proof.
    assert (H0 : SV (sinit nslots seeds nstripes len0 todo)) by (split; cbn; intros; [exact I | discriminate]).
    revert H0. generalize (sinit nslots seeds nstripes len0 todo). induction sched as [|t rest IH]; intros s H; cbn [XMachineS.srun]; [exact H|].
    destruct (sstep s t) as [[s' ls]|] eqn:E.
    - specialize (IH s' (SV_sstep s t s' ls H E)). destruct (XMachineS.srun _ _ _ _ _ _ _ _ _ _ _ s' rest). exact IH.
    - apply IH. exact H.
  Qed.

  (* Map: in every reachable state a thread on the read path can take its next step, and that step
     is a load that changes nothing shared *)
  Theorem map_reads_never_block len0 todo sched t :
    let s := fst (srun (sinit nslots seeds nstripes len0 todo) sched) in
    sreader_pc (h_pc s t) = true ->
    exists s' ls, sstep s t = Some (s', ls)
      /\ sshared_eq s s' /\ (forall t', t' <> t -> h_pc s' t' = h_pc s t') /\ Forall (sread_label t) ls.
  Proof.
    intros s Hr. pose proof (SV_reachable len0 todo sched) as [A _]. fold s in A.
    assert (Es : sstep s t = sstep_pc s t (h_pc s t)).
    { unfold XMachineS.sstep. destruct (h_pc s t); try reflexivity. discriminate Hr. }
    destruct (sstep_pc s t (h_pc s t)) as [[s' ls]|] eqn:E.
    - exists s', ls. split; [rewrite Es; reflexivity|]. apply (sreader_step s t _ s' ls Hr E).
    - exfalso. eapply sreader_enabled; [exact Hr | apply A | exact E].
  Qed.

End MapS.
