(* C12_maps.v -- Map and MapOf, both refining SpecMap, answer alike. *)
From CacheV Require Import Base SpecMap TableModel.
From CacheV.proofs Require Import C11_lists C11_table.
From Coq Require Import NArith.

Section M.
  Context {K V A : Type}.
  Variable eqd : forall a b : K, {a = b} + {a <> b}.

  Lemma res_equiv_sym_trans (r1 r2 r : mres K V A) : res_equiv r1 r -> res_equiv r2 r -> res_equiv r1 r2.
  Proof.
    unfold res_equiv. destruct r1, r2, r; intros H1 H2; try congruence; try discriminate.
    eapply Permutation_trans; [exact H1 | apply Permutation_sym; exact H2].
  Qed.

  Lemma Forall2_res_equiv (l1 l2 l : list (mres K V A)) :
    Forall2 res_equiv l1 l -> Forall2 res_equiv l2 l -> Forall2 res_equiv l1 l2.
  Proof.
    intros H1. revert l2. induction H1 as [|x y l1 l Hxy H1 IH]; intros l2 H2; inversion H2; subst; constructor.
    - eapply res_equiv_sym_trans; eauto.
    - apply IH. assumption.
  Qed.

  (* two maps -- any two variants, hashers, seeds, bucket sizes, policies, size
     hints, resize histories -- given the same calls answer alike *)
  Theorem two_instances
      (hash1 hash2 : K -> N -> N) (idx1 idx2 : N -> nat -> nat) (tag1 tag2 : N -> N) (n1 n2 : nat)
      (seeds1 seeds2 : nat -> N) (v1 v2 : bool) (g1 g2 s1 s2 : nat -> nat -> bool) :
    (forall h len, (0 < len)%nat -> (idx1 h len < len)%nat) ->
    (forall h len, (0 < len)%nat -> (idx2 h len < len)%nat) ->
    forall fuel1 fuel2 (ops : list (mop K V A)) (m1 m2 : @tmap K V) a m1' m2' rs1 rs2,
      WFm hash1 idx1 tag1 n1 m1 -> meq eqd (abs n1 m1) a ->
      WFm hash2 idx2 tag2 n2 m2 -> meq eqd (abs n2 m2) a ->
      run_table eqd hash1 idx1 tag1 n1 seeds1 v1 g1 s1 fuel1 m1 ops = Some (m1', rs1) ->
      run_table eqd hash2 idx2 tag2 n2 seeds2 v2 g2 s2 fuel2 m2 ops = Some (m2', rs2) ->
      Forall2 res_equiv rs1 rs2 /\ meq eqd (abs n1 m1') (abs n2 m2').
  Proof.
    intros Hi1 Hi2 fuel1 fuel2 ops m1 m2 a m1' m2' rs1 rs2 W1 Q1 W2 Q2 R1 R2.
    pose proof (run_refines eqd hash1 idx1 tag1 n1 seeds1 v1 g1 s1 Hi1 fuel1 ops m1 a m1' rs1 W1 Q1 R1) as H1.
    pose proof (run_refines eqd hash2 idx2 tag2 n2 seeds2 v2 g2 s2 Hi2 fuel2 ops m2 a m2' rs2 W2 Q2 R2) as H2.
    destruct (run_spec eqd a ops) as [a' rs']. destruct H1 as [_ [E1 F1]]. destruct H2 as [_ [E2 F2]].
    split; [eapply Forall2_res_equiv; eauto | eapply meq_trans; [exact E1 | apply meq_sym; exact E2]].
  Qed.

End M.
