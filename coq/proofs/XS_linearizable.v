(* XS_linearizable.v -- every run of XMachineS (Map, map.go, string keys) whose calls are Load,
   Compute (everything doCompute does) and Clear is LINEARIZABLE with respect to an ordinary map
   ([sspec] of XS_linpoints.v: the same specification as for MapOf), under every schedule, across
   grow, shrink and Clear.  The sibling of X_linearizable.v; same proof: a forward invariant
   [LI s G] carrying the instrumented history G by table generations (LinGen.v).

   Scope: the todo lists contain only Load / Compute / Clear ([sokop]).  Then no Range frame ever
   exists and no SSubInv / SSubRes label is ever emitted ([NR], part of the invariant), so the
   history is the list of SInv / SRes labels of the trace.

   Linearization points: writers at QW_U1 (value store), QW_I3 (key store), QW_N1, QW_D1 (word
   store), or at the decision that answers without writing (last QW_Scan, last QW_Sum); the mark
   goes to the END OF THE BODY OF THE GENERATION OF THE WRITER'S TABLE (end of the history if
   current, just before the mark of the Clear that replaced it otherwise); Clear at its publish
   store; readers (Load, the read-only path of load-or-compute) when they return, at a point of the
   past kept by the invariant (XS_loadhit's JJ / XS_loadmiss's JM with "a point exists" as the
   witness; a hit returns the value of the first value load confirmed by the second). *)
From CacheV Require Import Base SpecMap XMachineS Lin.
From CacheV.proofs Require X_linpoints.
From CacheV.proofs Require Import X_maps XS_inv XS_lock XS_own XS_count XS_cells XS_vis XS_abs XS_resize XS_read XS_loadhit XS_loadmiss XS_stale LinGen XS_linpoints.
From Coq Require Import NArith.
Local Open Scope nat_scope.

Section SLinInv.
  Context {K V : Type}.
  Variable eqd : forall a b : K, {a = b} + {a <> b}.
  Variable hash : K -> N -> N.
  Variable idx : N -> nat -> nat.
  Variable tophash : N -> N.
  Variable nslots : nat.
  Variable seeds : nat -> N.
  Variable grow_needed : nat -> Z -> bool.
  Variable shrink_policy : nat -> Z -> bool.
  Variable nstripes : nat -> nat.
  Variable minlen : nat.
  Variable grow_only : bool.

  Hypothesis Hslots : nslots <= 3.
  Hypothesis Hnslots : 0 < nslots.
  Hypothesis Htop : forall k sd, (tophash (hash k sd) < 1048576)%N.
  Hypothesis Hidx : forall h len, 0 < len -> idx h len < len.
  Hypothesis Hminlen : 0 < minlen.

  Notation mstate := (@mstate K V).
  Notation spc := (@spc K V).
  Notation sop := (@sop K V).
  Notation sres := (@sres V).
  Notation slabel := (@slabel K V).
  Notation scx := (@scx K V).
  Notation scont := (@scont K V).
  Notation slcont := (@slcont K V).
  Notation ML := (@XS_linpoints.ML K V eqd).
  Notation iev := (Lin.iev sop sres).
  Notation tstat := (Lin.tstat sop sres).
  Notation ghost := (LinGen.ghost ML).
  Notation gb := (LinGen.gb ML).
  Notation gc := (LinGen.gc ML).
  Notation gst := (LinGen.gst ML).
  Notation gseg := (LinGen.gseg ML).
  Notation gI := (LinGen.gI ML).
  Notation gSE := (LinGen.gSE ML).
  Notation gSS := (LinGen.gSS ML).
  Notation lrun := (LinGen.lrun ML).
  Notation lok := (LinGen.lok ML).
  Notation no_ev := (LinGen.no_ev ML).
  Notation tproto := (LinGen.tproto ML).
  Notation tmove := (LinGen.tmove ML).
  Notation evt := (LinGen.evt ML).
  Notation g_ins := (LinGen.g_ins ML).
  Notation g_pub := (LinGen.g_pub ML).
  Notation g_setst := (LinGen.g_setst ML).
  Notation can_ret := (LinGen.can_ret ML).
  Notation gext := (LinGen.gext ML).
  Notation GOK := (LinGen.GOK ML).
  Notation stable := (LinGen.stable ML).
  Notation tabT := (@tabT K V nslots nstripes).
  Notation stab_at := (@stab_at K V nslots nstripes).
  Notation sstep_pc := (@sstep_pc K V eqd hash idx tophash nslots seeds grow_needed shrink_policy nstripes minlen grow_only).
  Notation sstep := (@sstep K V eqd hash idx tophash nslots seeds grow_needed shrink_policy nstripes minlen grow_only).
  Notation srun := (@srun K V eqd hash idx tophash nslots seeds grow_needed shrink_policy nstripes minlen grow_only).
  Notation XL := (@XL K V hash idx nslots nstripes).
  Notation XB := (@XB K V hash idx tophash nslots nstripes).
  Notation XI := (@XS_resize.XI K V hash idx tophash nslots nstripes).
  Notation SJ := (@XS_stale.SJ K V hash idx tophash nslots nstripes).
  Notation svis := (@svis K V hash idx tophash nslots).
  Notation sabs := (@sabs K V hash idx tophash nslots nstripes).
  Notation swtab := (@XS_stale.swtab K V).
  Notation inlookup := (@XS_loadhit.inlookup K V hash nslots nstripes).
  Notation JJ := (@XS_loadhit.JJ K V hash idx nslots nstripes).
  Notation JM := (@XS_loadmiss.JM K V hash idx tophash nslots nstripes).
  Notation stays := (@XS_loadmiss.stays K V hash idx tophash nslots nstripes).
  Notation hit := (@XS_loadhit.hit K V).
  Notation amap := (X_linpoints.amap K V).
  Notation aempty := (@X_linpoints.aempty K V).
  Notation agree := (@X_linpoints.agree K V).
  Notation sspec_res := (@sspec_res K V).
  Notation sspec_next := (@sspec_next K V eqd).
  Notation sspec := (@sspec K V eqd).
  Notation snooplin := (@snooplin K V eqd hash idx tophash nslots nstripes).
  Notation shist := (@shist K V).
  Notation NR := (@NR K V).
  Notation srd_op := (@srd_op K V).
  Notation sinvoke := (@sinvoke K V).

  (* ---------------- the invariant ---------------- *)

  Record LI (s : mstate) (G : ghost) : Prop := {
    li_si : SJ s;
    li_nr : NR s;
    li_dec : forall t, sdec (h_pc s t);
    li_todo : forall t, Forall sokop (h_todo s t);
    li_empty : gc G (h_cur s) = [] /\ forall j, h_cur s < j -> gb G j = [] /\ gc G j = [];
    li_lok : lok aempty (gI G (h_cur s));
    li_agree : forall j, j <= h_cur s -> agree (gSE G j) (svis (tabT (h_tabs s) j));
    li_close : forall j, j < h_cur s ->
                 (gc G j = [] /\ forall u, swtab (h_pc s u) <> Some j) \/ exists c, gc G j = [ILin c SClear SRUnit];
    li_tp : forall t, tproto t TIdle (gI G (h_cur s)) (gst G t);
    li_tok : forall t, sTOK (gst G t) (h_pc s t);
    li_pos : forall t j, sontab (h_pc s t) = Some j ->
               no_ev t (gc G j) /\ forall j', j < j' <= h_cur s -> no_ev t (gseg G j');
    li_rd : forall t k lc tab h o, srdk (h_pc s t) = Some (k, lc, tab, h) -> gst G t = TInvoked o ->
              inlookup t k lc tab s
              /\ (forall v, JJ t k tab v (can_ret G (h_cur s) t o (shitres lc v)) s)
              /\ (lc = SLPlain -> can_ret G (h_cur s) t o (SRVal None false) \/ JM t k tab s);
  }.

  Lemma LI_XB s G : LI s G -> XB s.
  Proof. intros HL. destruct (li_si s G HL) as [[HB _] _]. exact HB. Qed.

  (* ---------------- small facts ---------------- *)

  Lemma tok_rd st (p : spc) k lc tab h : sTOK st p -> srdk p = Some (k, lc, tab, h) -> exists o, st = TInvoked o /\ srd_op o k lc.
  Proof.
    intros Ht Hr. destruct st as [|o|o r]; cbn [sTOK] in Ht.
    - destruct Ht as [-> | ->]; discriminate Hr.
    - exists o. split; [reflexivity|]. destruct Ht as [_ Ht]. destruct o; try contradiction.
      + destruct Ht as [tab' [h' E]]. rewrite E in Hr. inversion Hr; subst. reflexivity.
      + destruct Ht as [[Hl [tab' [h' E]]]|[E _]]; [|rewrite E in Hr; discriminate Hr].
        rewrite E in Hr. inversion Hr; subst. cbn. auto.
      + destruct p; cbn in Ht, Hr; discriminate.
    - destruct Ht as [_ Ht]. destruct p; cbn in Ht, Hr; discriminate.
  Qed.

  Lemma inlookup_rdk s t k lc tab h : srdk (h_pc s t) = Some (k, lc, tab, h) ->
    h = hash k (m_seed (stab_at s tab)) -> inlookup t k lc tab s.
  Proof.
    intros Hr Hh. unfold XS_loadhit.inlookup.
    destruct (h_pc s t); cbn [srdk] in Hr; try discriminate Hr; inversion Hr; subst; auto.
  Qed.

  Lemma rdk_inlookup s t k lc tab : inlookup t k lc tab s ->
    srdk (h_pc s t) = Some (k, lc, tab, hash k (m_seed (stab_at s tab))).
  Proof.
    unfold XS_loadhit.inlookup. destruct (h_pc s t); try contradiction; intros [-> [-> [-> ->]]]; reflexivity.
  Qed.

  Lemma JJ_mono t k tab v (W W' : Prop) s : (W -> W') -> JJ t k tab v W s -> JJ t k tab v W' s.
  Proof.
    intros HW. unfold XS_loadhit.JJ, XS_loadhit.JJp. destruct (h_pc s t); auto.
    - intros H i Hi Hh. apply HW. apply (H i Hi Hh).
    - intros [H1 H2]. split; [intros i Hi Hh; apply HW; apply (H1 i Hi Hh) | exact H2].
    - intros [H1 H2]. split; [intros i Hi Hh; apply HW; apply (H1 i Hi Hh)|].
      destruct todo as [|i r]; [exact I|]. destruct H2 as [A B]. split; [exact A|]. intros y Hy. destruct (B y Hy) as [B1 B2].
      split; [exact B1 | intros E; apply HW; apply B2; exact E].
  Qed.

  Lemma ontab_le s t j : XB s -> sontab (h_pc s t) = Some j -> j <= h_cur s.
  Proof.
    intros [_ [_ [HT _]]] Ho. destruct (xt_pc s HT t) as [Hle _]. unfold XS_linpoints.sontab in Ho.
    destruct (h_pc s t); cbn in Ho, Hle; try discriminate Ho; inversion Ho; subst; tauto || lia.
  Qed.

  Lemma ontab_rdk (p : spc) k lc tab h : srdk p = Some (k, lc, tab, h) -> sontab p = Some tab.
  Proof. intros H. unfold XS_linpoints.sontab. rewrite H. reflexivity. Qed.

  Lemma ontab_wtab (p : spc) j : swtab p = Some j -> sontab p = Some j.
  Proof. intros H. unfold XS_linpoints.sontab. destruct p; cbn in *; try discriminate H; exact H. Qed.

  Lemma ontab_inv (p : spc) j : sontab p = Some j -> (exists k lc h, srdk p = Some (k, lc, j, h)) \/ swtab p = Some j.
  Proof.
    unfold XS_linpoints.sontab. destruct (srdk p) as [[[[k lc] tab] h]|] eqn:E; intros H.
    - inversion H; subst. left. exists k, lc, h. reflexivity.
    - right. exact H.
  Qed.

  (* the visible value of k in table tab, read off the abstract map at the end of the table's generation *)
  Lemma end_hit' (R : K -> V -> Prop) G cur t o k lc tab v : tab <= cur ->
    no_ev t (gc G tab) -> (forall j', tab < j' <= cur -> no_ev t (gseg G j')) ->
    agree (gSE G tab) R -> srd_op o k lc -> R k v -> can_ret G cur t o (shitres lc v).
  Proof.
    intros Hle P1 P2 Ha Hop Hv. apply Ha in Hv.
    destruct (srd_hit_spec eqd o k lc _ v Hop Hv) as [A [B C]]. rewrite B.
    exact (can_ret_end ML G cur t o tab Hle P1 P2 A C).
  Qed.

  Lemma end_miss' (R : K -> V -> Prop) G cur t k tab : tab <= cur ->
    no_ev t (gc G tab) -> (forall j', tab < j' <= cur -> no_ev t (gseg G j')) ->
    agree (gSE G tab) R -> (forall v, ~ R k v) -> can_ret G cur t (SLoad k) (SRVal None false).
  Proof.
    intros Hle P1 P2 Ha Hv. pose proof (X_linpoints.agree_none _ _ k Ha Hv) as Hm.
    destruct (srd_miss_spec eqd k _ Hm) as [A [B C]]. rewrite B.
    exact (can_ret_end ML G cur t (SLoad k) tab Hle P1 P2 A C).
  Qed.

  Lemma end_hit s G t o k lc tab v : LI s G -> sontab (h_pc s t) = Some tab -> srd_op o k lc ->
    svis (tabT (h_tabs s) tab) k v -> can_ret G (h_cur s) t o (shitres lc v).
  Proof.
    intros HL Ho Hop Hv. pose proof (ontab_le s t tab (LI_XB s G HL) Ho) as Hle.
    destruct (li_pos s G HL t tab Ho) as [P1 P2].
    eapply end_hit'; try eassumption. apply (li_agree s G HL tab Hle).
  Qed.

  Lemma end_miss s G t k tab : LI s G -> sontab (h_pc s t) = Some tab ->
    (forall v, ~ svis (tabT (h_tabs s) tab) k v) -> can_ret G (h_cur s) t (SLoad k) (SRVal None false).
  Proof.
    intros HL Ho Hv. pose proof (ontab_le s t tab (LI_XB s G HL) Ho) as Hle.
    destruct (li_pos s G HL t tab Ho) as [P1 P2].
    eapply end_miss'; try eassumption. apply (li_agree s G HL tab Hle).
  Qed.

  (* ---------------- one step: the bundle, the other threads, the tables ---------------- *)

  Lemma SJ_step s u s' ls : SJ s -> sstep s u = Some (s', ls) -> SJ s'.
  Proof.
    intros HS E. eapply (SJ_sstep eqd hash idx tophash nslots seeds grow_needed shrink_policy nstripes minlen grow_only Hslots Hnslots Htop Hidx Hminlen); eassumption.
  Qed.

  Lemma others_step s u s' ls : XB s -> sstep s u = Some (s', ls) ->
    forall t, t <> u -> h_pc s' t = h_pc s t \/ h_pc s' t = swake (h_pc s t).
  Proof.
    intros HB E. apply (sstep_others eqd hash idx tophash nslots seeds grow_needed shrink_policy nstripes minlen grow_only Hslots Hnslots Hidx Hminlen s u s' ls HB E).
  Qed.

  Lemma seed_sstep s u s' ls tab : XB s -> sstep s u = Some (s', ls) -> tab <= h_cur s ->
    m_seed (stab_at s' tab) = m_seed (stab_at s tab).
  Proof.
    intros HB E Ht.
    pose proof (step_facts_sstep eqd hash idx tophash nslots seeds grow_needed shrink_policy nstripes minlen grow_only
                  Hslots Hnslots Hidx Hminlen s u s' ls HB E) as [_ _ Hf _].
    destruct (Hf tab Ht) as [_ [A _]]. exact A.
  Qed.

  Lemma cur_mono s u s' ls : XB s -> sstep s u = Some (s', ls) -> h_cur s <= h_cur s'.
  Proof.
    intros HB E. eapply (@sstep_cur_mono K V eqd hash idx tophash nslots seeds grow_needed shrink_policy nstripes minlen grow_only); eassumption.
  Qed.

  Lemma cur_same s u s' ls : XB s -> sstep s u = Some (s', ls) -> (forall kt new, h_pc s u <> QR_Publish kt new) -> h_cur s' = h_cur s.
  Proof.
    intros HB E Hnp.
    destruct (sstep_cur eqd hash idx tophash nslots seeds grow_needed shrink_policy nstripes minlen grow_only s u s' ls HB E)
      as [Hc|[kt [new [E1 _]]]]; [exact Hc | exfalso; exact (Hnp kt new E1)].
  Qed.

  (* ---------------- a thread that stays inside its lookup over a step ---------------- *)

  Lemma rd_pres s G u s' ls w G' t k lc tab h o :
    LI s G -> sstep s u = Some (s', ls) ->
    gext w (h_cur s) G (h_cur s') G' -> t <> w ->
    (forall j, j <= h_cur s' -> agree (gSE G' j) (svis (tabT (h_tabs s') j))) ->
    srdk (h_pc s t) = Some (k, lc, tab, h) -> srdk (h_pc s' t) = Some (k, lc, tab, h) ->
    gst G t = TInvoked o ->
    inlookup t k lc tab s'
    /\ (forall v, JJ t k tab v (can_ret G' (h_cur s') t o (shitres lc v)) s')
    /\ (lc = SLPlain -> can_ret G' (h_cur s') t o (SRVal None false) \/ JM t k tab s').
  Proof.
    intros HL E HG Hne Hag Hr Hr' Hst.
    pose proof (li_si s G HL) as HS. pose proof HS as [[HB _] [HID HNQ]].
    pose proof (SJ_step s u s' ls HS E) as HS'. pose proof HS' as [[HB' _] _].
    destruct (li_rd s G HL t k lc tab h o Hr Hst) as [Hin [HJ HM]].
    pose proof (ge_cur _ _ _ _ _ _ HG) as Hcm.
    pose proof (rdk_inlookup s t k lc tab Hin) as Hrk. rewrite Hr in Hrk. inversion Hrk as [Hh]. clear Hrk.
    pose proof (ontab_rdk _ k lc tab h Hr) as Hon.
    pose proof (ontab_le s t tab HB Hon) as Hle.
    assert (Hin' : inlookup t k lc tab s').
    { apply (inlookup_rdk s' t k lc tab h Hr'). rewrite (seed_sstep s u s' ls tab HB E Hle). exact Hh. }
    destruct (tok_rd _ _ k lc tab h (li_tok s G HL t) Hr) as [o' [Eo Hop]]. rewrite Hst in Eo. inversion Eo; subst o'. clear Eo.
    destruct (li_pos s G HL t tab Hon) as [P1 P2].
    destruct (ge_pos _ _ _ _ _ _ HG t tab Hne Hle P1 P2) as [P1' P2'].
    assert (Hle' : tab <= h_cur s') by lia.
    split; [exact Hin'|]. split.
    - intros v.
      pose proof (XS_loadhit.JJ_step eqd hash idx tophash nslots seeds grow_needed shrink_policy nstripes minlen grow_only
                    Hslots Hnslots Hidx Hminlen t k lc tab v _ s u s' ls HB HID HNQ HB' E Hin Hin' (HJ v)) as HJ'.
      eapply JJ_mono; [|exact HJ']. intros [Hw|Hv].
      + apply (ge_ret _ _ _ _ _ _ HG t o _ Hne Hw).
      + apply (ge_ret _ _ _ _ _ _ HG t o _ Hne). eapply end_hit; eassumption.
    - intros Hlc. subst lc. cbn [XS_linpoints.srd_op] in Hop. subst o.
      destruct (XS_loadmiss.vis_dec eqd hash idx tophash nslots nstripes minlen Hslots Hnslots Hminlen k tab s') as [Hp'|Hn'].
      + destruct (XS_loadmiss.vis_dec eqd hash idx tophash nslots nstripes minlen Hslots Hnslots Hminlen k tab s) as [Hp|Hn].
        * destruct (HM eq_refl) as [Hc|Hjm]; [left; apply (ge_ret _ _ _ _ _ _ HG t _ _ Hne Hc)|].
          right. apply (XS_loadmiss.JM_step eqd hash idx tophash nslots seeds grow_needed shrink_policy nstripes minlen grow_only
                          Hslots Hnslots Hidx Hminlen t k SLPlain tab s u s' ls HB HNQ HB' E); [split; assumption | split; assumption | exact Hjm].
        * left. apply (ge_ret _ _ _ _ _ _ HG t _ _ Hne). eapply end_miss; [exact HL | exact Hon |].
          intros v Hv. apply Hn. exists v. exact Hv.
      + left. eapply end_miss'; [exact Hle' | exact P1' | exact P2' | apply Hag; exact Hle' |].
        intros v Hv. apply Hn'. exists v. exact Hv.
  Qed.

  (* ---------------- the scope: no frames, no Range / Size, recorded decisions, todo lists ---------------- *)

  Lemma start_norange (o : sop) : sokop o -> norange (sstart_pc o) /\ sdec (sstart_pc o).
  Proof. destruct o; cbn; try tauto. intros _. unfold sstart_cx. destruct lie; cbn; tauto. Qed.

  Lemma nonidle_step s u s' ls : sstep s u = Some (s', ls) -> h_pc s u <> QIdle -> sstep_pc s u (h_pc s u) = Some (s', ls).
  Proof.
    intros E Hn. destruct (sstep_split eqd hash idx tophash nslots seeds grow_needed shrink_policy nstripes minlen grow_only s u s' ls E)
      as [[_ H]|[H _]]; [exact H | contradiction].
  Qed.

  Lemma scope_sstep s G u s' ls : LI s G -> sstep s u = Some (s', ls) ->
    NR s' /\ (forall t, sdec (h_pc s' t)) /\ (forall t, Forall sokop (h_todo s' t)) /\ (h_pc s u <> QIdle -> h_todo s' = h_todo s).
  Proof.
    intros HL E. destruct (li_nr s G HL) as [Hfr Hnor]. pose proof (LI_XB s G HL) as HB.
    pose proof (others_step s u s' ls HB E) as Hoth.
    assert (Hgen : forall s1 p ls1, sstep_pc s1 u p = Some (s', ls1) -> h_frame s1 = h_frame s -> norange p -> sdec p ->
                     (forall t, t <> u -> h_pc s1 t = h_pc s t) ->
                     NR s' /\ (forall t, sdec (h_pc s' t)) /\ h_todo s' = h_todo s1).
    { intros s1 p ls1 Es Ef Hn Hd Hpo.
      destruct (step_scope eqd hash idx tophash nslots seeds grow_needed shrink_policy nstripes minlen grow_only s1 u p s' ls1 Es) as [A [B [C D]]];
        [rewrite Ef; apply Hfr | exact Hn|].
      split; [split|split].
      - intros t. rewrite A, Ef. apply Hfr.
      - intros t. destruct (Nat.eq_dec t u) as [->|Hne]; [exact C|].
        destruct (Hoth t Hne) as [Ep|Ep]; rewrite Ep; [|apply norange_swake]; apply Hnor.
      - intros t. destruct (Nat.eq_dec t u) as [->|Hne]; [exact (D Hd)|].
        destruct (Hoth t Hne) as [Ep|Ep]; rewrite Ep; [|apply sdec_swake]; apply (li_dec s G HL).
      - exact B. }
    destruct (sstep_split eqd hash idx tophash nslots seeds grow_needed shrink_policy nstripes minlen grow_only s u s' ls E)
      as [[Hn Es]|[Hp [o [rest [ls0 [Et [El Es]]]]]]].
    - destruct (Hgen s _ ls Es eq_refl (Hnor u) (li_dec s G HL u) (fun t _ => eq_refl)) as [A [B C]].
      split; [exact A|]. split; [exact B|]. split; [intros t; rewrite C; apply (li_todo s G HL) | intros _; exact C].
    - pose proof (li_todo s G HL u) as Htd. rewrite Et in Htd. inversion Htd as [|? ? Ho Hrest]; subst.
      destruct (start_norange o Ho) as [N1 N2].
      destruct (Hgen (sinvoke s u o rest) _ ls0 Es eq_refl N1 N2) as [A [B C]].
      { intros t Hne. cbn [XS_count.sinvoke h_pc]. destruct (Nat.eq_dec t u); [contradiction | reflexivity]. }
      split; [exact A|]. split; [exact B|]. split; [|intros Hc; contradiction].
      intros t. rewrite C. cbn [XS_count.sinvoke h_todo]. destruct (Nat.eq_dec t u); [exact Hrest | apply (li_todo s G HL t)].
  Qed.

  (* ---------------- what every step keeps for the threads that do not step ---------------- *)

  Lemma LI_frame s G u s' ls G' :
    LI s G -> sstep s u = Some (s', ls) ->
    gext u (h_cur s) G (h_cur s') G' ->
    (gc G' (h_cur s') = [] /\ forall j, h_cur s' < j -> gb G' j = [] /\ gc G' j = []) ->
    lok aempty (gI G' (h_cur s')) ->
    (forall j, j <= h_cur s' -> agree (gSE G' j) (svis (tabT (h_tabs s') j))) ->
    (forall j, j < h_cur s' ->
       (gc G' j = [] /\ forall w, swtab (h_pc s' w) <> Some j) \/ exists c, gc G' j = [ILin c SClear SRUnit]) ->
    tproto u TIdle (gI G' (h_cur s')) (gst G' u) ->
    sTOK (gst G' u) (h_pc s' u) ->
    (forall j, sontab (h_pc s' u) = Some j -> no_ev u (gc G' j) /\ forall j', j < j' <= h_cur s' -> no_ev u (gseg G' j')) ->
    (forall k lc tab h o, srdk (h_pc s' u) = Some (k, lc, tab, h) -> gst G' u = TInvoked o ->
       inlookup u k lc tab s'
       /\ (forall v, JJ u k tab v (can_ret G' (h_cur s') u o (shitres lc v)) s')
       /\ (lc = SLPlain -> can_ret G' (h_cur s') u o (SRVal None false) \/ JM u k tab s')) ->
    LI s' G'.
  Proof.
    intros HL E HG Hemp Hlok Hag Hcl Htp Htok Hpos Hrd.
    pose proof (LI_XB s G HL) as HB.
    pose proof (others_step s u s' ls HB E) as Hoth.
    destruct (scope_sstep s G u s' ls HL E) as [Hnr' [Hdec' [Htodo' _]]].
    constructor.
    - eapply SJ_step; [apply (li_si s G HL) | exact E].
    - exact Hnr'.
    - exact Hdec'.
    - exact Htodo'.
    - exact Hemp.
    - exact Hlok.
    - exact Hag.
    - exact Hcl.
    - intros t. destruct (Nat.eq_dec t u) as [->|Hne]; [exact Htp|].
      rewrite (ge_st _ _ _ _ _ _ HG t Hne). apply (ge_tp _ _ _ _ _ _ HG t _ Hne). apply (li_tp s G HL t).
    - intros t. destruct (Nat.eq_dec t u) as [->|Hne]; [exact Htok|].
      rewrite (ge_st _ _ _ _ _ _ HG t Hne). destruct (Hoth t Hne) as [Ep|Ep]; rewrite Ep; [|apply sTOK_swake]; apply (li_tok s G HL t).
    - intros t j. destruct (Nat.eq_dec t u) as [->|Hne]; [apply Hpos|].
      intros Ho. assert (Ho0 : sontab (h_pc s t) = Some j).
      { destruct (Hoth t Hne) as [Ep|Ep]; rewrite Ep in Ho; [exact Ho | rewrite sontab_swake in Ho; exact Ho]. }
      destruct (li_pos s G HL t j Ho0) as [P1 P2].
      apply (ge_pos _ _ _ _ _ _ HG t j Hne (ontab_le s t j HB Ho0) P1 P2).
    - intros t k lc tab h o. destruct (Nat.eq_dec t u) as [->|Hne]; [apply Hrd|].
      intros Hr Hst. rewrite (ge_st _ _ _ _ _ _ HG t Hne) in Hst.
      assert (Hr0 : srdk (h_pc s t) = Some (k, lc, tab, h)).
      { destruct (Hoth t Hne) as [Ep|Ep]; rewrite Ep in Hr; [exact Hr | rewrite srdk_swake in Hr; exact Hr]. }
      eapply (rd_pres s G u s' ls u G' t); eassumption.
  Qed.

  (* a step of a thread that is not about to make a linearization store changes no published table *)
  Lemma vis_same s G u s' ls j : LI s G -> sstep s u = Some (s', ls) -> slres (h_pc s u) = None -> j <= h_cur s ->
    forall k v, svis (tabT (h_tabs s') j) k v <-> svis (tabT (h_tabs s) j) k v.
  Proof.
    intros HL E Hl Hj k v.
    rewrite (vis_sstep eqd hash idx tophash nslots seeds grow_needed shrink_policy nstripes minlen grow_only Hslots Hnslots Hidx Hminlen
               s u s' ls j k v (LI_XB s G HL) E Hj).
    rewrite (slres_lin _ j Hl). reflexivity.
  Qed.

  Lemma agree_same s G u s' ls G' : LI s G -> sstep s u = Some (s', ls) -> slres (h_pc s u) = None -> h_cur s' = h_cur s ->
    (forall j, j <= h_cur s -> gSE G' j = gSE G j) ->
    forall j, j <= h_cur s' -> agree (gSE G' j) (svis (tabT (h_tabs s') j)).
  Proof.
    intros HL E Hl Hc HSE j Hj. rewrite Hc in Hj. rewrite (HSE j Hj).
    eapply X_linpoints.agree_iff; [apply (vis_same s G u s' ls j HL E Hl Hj) | apply (li_agree s G HL j Hj)].
  Qed.

  Lemma close_same s G u s' ls G' : LI s G -> sstep s u = Some (s', ls) -> h_cur s' = h_cur s ->
    (forall j, gc G' j = gc G j) ->
    forall j, j < h_cur s' ->
      (gc G' j = [] /\ forall w, swtab (h_pc s' w) <> Some j) \/ exists c, gc G' j = [ILin c SClear SRUnit].
  Proof.
    intros HL E Hc Hgc j Hj. rewrite Hc in Hj. rewrite Hgc.
    destruct (li_close s G HL j Hj) as [[A B]|B]; [left | right; exact B].
    split; [exact A|]. intros w Hw. apply (B w).
    eapply (@sstep_swtab_stale K V eqd hash idx tophash nslots seeds grow_needed shrink_policy nstripes minlen grow_only);
      first [exact Hslots | exact Hnslots | exact Hidx | exact Hminlen | exact (LI_XB s G HL) | exact E | exact Hw | lia].
  Qed.

  Lemma LI_GOK s G : LI s G -> GOK (h_cur s) G.
  Proof. intros HL. constructor; [apply (li_empty s G HL) | apply (li_lok s G HL) | apply (li_tp s G HL)]. Qed.

  Lemma LI_frame2 s G u s' ls G' :
    LI s G -> sstep s u = Some (s', ls) ->
    gext u (h_cur s) G (h_cur s') G' -> GOK (h_cur s') G' ->
    (forall j, j <= h_cur s' -> agree (gSE G' j) (svis (tabT (h_tabs s') j))) ->
    (forall j, j < h_cur s' ->
       (gc G' j = [] /\ forall w, swtab (h_pc s' w) <> Some j) \/ exists c, gc G' j = [ILin c SClear SRUnit]) ->
    sTOK (gst G' u) (h_pc s' u) ->
    (forall j, sontab (h_pc s' u) = Some j -> no_ev u (gc G' j) /\ forall j', j < j' <= h_cur s' -> no_ev u (gseg G' j')) ->
    (forall k lc tab h o, srdk (h_pc s' u) = Some (k, lc, tab, h) -> gst G' u = TInvoked o ->
       inlookup u k lc tab s'
       /\ (forall v, JJ u k tab v (can_ret G' (h_cur s') u o (shitres lc v)) s')
       /\ (lc = SLPlain -> can_ret G' (h_cur s') u o (SRVal None false) \/ JM u k tab s')) ->
    LI s' G'.
  Proof.
    intros HL E HG HK Hag Hcl Htok Hpos Hrd.
    eapply LI_frame; try eassumption; [apply (gk_empty _ _ _ HK) | apply (gk_lok _ _ _ HK) | apply (gk_tp _ _ _ HK)].
  Qed.

  (* ---------------- a step that is no linearization point and no invocation / response ---------------- *)

  Lemma pend_rdk (p : spc) r : spend p = Some r -> srdk p = None.
  Proof. destruct p; cbn; intros E; try reflexivity; discriminate E. Qed.
  Lemma clr_rdk (p : spc) : sclr p = true -> srdk p = None.
  Proof. destruct p; cbn; intros E; try reflexivity; discriminate E. Qed.

  Lemma swtab_step s G u s' ls w j : LI s G -> sstep s u = Some (s', ls) -> swtab (h_pc s' w) = Some j ->
    swtab (h_pc s w) = Some j \/ (w = u /\ h_cur s = j /\ exists cx, h_pc s u = QW_ChkTab cx j).
  Proof.
    intros HL E Hw.
    eapply (@sstep_swtab K V eqd hash idx tophash nslots seeds grow_needed shrink_policy nstripes minlen grow_only);
      first [exact Hslots | exact Hnslots | exact Hidx | exact Hminlen | exact (LI_XB s G HL) | exact E | exact Hw].
  Qed.

  (* the position facts of the stepping thread, when the step inserts nothing behind the body of its table *)
  Lemma pos_keep s G u s' ls G' : LI s G -> sstep s u = Some (s', ls) -> h_cur s' = h_cur s ->
    (forall j, gc G' j = gc G j) ->
    (forall j, sontab (h_pc s u) = Some j -> forall j', j < j' -> gseg G' j' = gseg G j') ->
    (forall x, srdk (h_pc s' u) = Some x -> srdk (h_pc s u) = Some x) ->
    forall j, sontab (h_pc s' u) = Some j -> no_ev u (gc G' j) /\ forall j', j < j' <= h_cur s' -> no_ev u (gseg G' j').
  Proof.
    intros HL E Hc Hgc Hseg Hrd j Ho. rewrite Hc.
    assert (Hcase : sontab (h_pc s u) = Some j \/ j = h_cur s).
    { destruct (ontab_inv _ _ Ho) as [[k [lc [h Hr]]]|Hw].
      - left. eapply ontab_rdk. apply Hrd. exact Hr.
      - destruct (swtab_step s G u s' ls u j HL E Hw) as [H|[_ [H _]]];
          [left; apply ontab_wtab; exact H | right; symmetry; exact H]. }
    destruct Hcase as [Ho0| ->].
    - destruct (li_pos s G HL u j Ho0) as [P1 P2]. split; [rewrite Hgc; exact P1|].
      intros j' Hj'. rewrite (Hseg j Ho0 j') by lia. apply P2. exact Hj'.
    - split; [rewrite Hgc; destruct (li_empty s G HL) as [A _]; rewrite A; apply no_ev_nil | intros j' Hj'; lia].
  Qed.

  Lemma K_silent s G u s' ls : LI s G -> sstep s u = Some (s', ls) ->
    slres (h_pc s u) = None -> (forall kt new, h_pc s u <> QR_Publish kt new) ->
    sTOK (gst G u) (h_pc s' u) ->
    (forall x, srdk (h_pc s' u) = Some x -> srdk (h_pc s u) = Some x) ->
    LI s' G.
  Proof.
    intros HL E Hl Hnp Htok Hrd.
    pose proof (LI_XB s G HL) as HB.
    pose proof (cur_same s u s' ls HB E Hnp) as Hc.
    eapply (LI_frame2 s G u s' ls G); try eassumption.
    - rewrite Hc. apply gext_refl.
    - rewrite Hc. apply LI_GOK. exact HL.
    - apply (agree_same s G u s' ls G HL E Hl Hc). reflexivity.
    - apply (close_same s G u s' ls G HL E Hc). reflexivity.
    - apply (pos_keep s G u s' ls G HL E Hc); auto.
    - intros k lc tab h o Hr Hst. pose proof (Hrd _ Hr) as Hr0.
      apply (rd_pres s G u s' ls (S u) G u k lc tab h o HL E); try assumption; [rewrite Hc; apply gext_refl | lia |].
      apply (agree_same s G u s' ls G HL E Hl Hc). reflexivity.
  Qed.

  (* ---------------- an invocation / response event: appended at the end of the history ---------------- *)

  Lemma K_end s G u s' ls e st' : LI s G -> sstep s u = Some (s', ls) ->
    slres (h_pc s u) = None -> h_cur s' = h_cur s ->
    evt e = u -> (match e with ILin _ _ _ => False | _ => True end) ->
    tmove u (gst G u) e st' ->
    sTOK st' (h_pc s' u) ->
    let G' := g_setst (g_ins G (h_cur s) (gb G (h_cur s)) e []) u st' in
    (forall j, sontab (h_pc s' u) = Some j -> j = h_cur s) ->
    (forall k lc tab h o, srdk (h_pc s' u) = Some (k, lc, tab, h) -> st' = TInvoked o ->
       inlookup u k lc tab s'
       /\ (forall v, JJ u k tab v (can_ret G' (h_cur s') u o (shitres lc v)) s')
       /\ (lc = SLPlain -> can_ret G' (h_cur s') u o (SRVal None false) \/ JM u k tab s')) ->
    LI s' G' /\ erase sop sres (gI G' (h_cur s')) = erase sop sres (gI G (h_cur s)) ++ erase sop sres [e].
  Proof.
    intros HL E Hl Hc He Hnm Hm Htok G' Hpos Hrd.
    set (cur := h_cur s) in *.
    destruct (li_empty s G HL) as [Hc0 Hemp]. fold cur in Hc0, Hemp.
    assert (Hb : gb G cur = gb G cur ++ []) by (symmetry; apply app_nil_r).
    assert (Hnoop : lrun (lrun (gSS G cur) (gb G cur)) [e] = lrun (gSS G cur) (gb G cur)) by (destruct e; try contradiction; reflexivity).
    assert (Hst : stable G cur cur (gb G cur) [] e) by (left; exact Hnoop).
    assert (Heok : LinGen.eok ML (lrun (gSS G cur) (gb G cur)) e) by (destruct e; try contradiction; exact I).
    rewrite <- He in Hm.
    destruct (gins_ok ML cur G cur (gb G cur) [] e st' (LI_GOK s G HL) (le_n _) Hb Hst Heok) as [HK [HG [Ggc [Ggb [Ggbj [GSS [GSE [GSEj [Gst Gsto]]]]]]]]].
    { apply no_ev_nil. } { rewrite Hc0. apply no_ev_nil. } { intros j' Hj'. lia. } { exact Hm. }
    rewrite He in *. fold G' in HK, HG, Ggc, Ggb, Ggbj, GSS, GSE, GSEj, Gst, Gsto.
    split.
    - eapply (LI_frame2 s G u s' ls G'); try eassumption.
      + rewrite Hc. exact HG.
      + rewrite Hc. exact HK.
      + apply (agree_same s G u s' ls G' HL E Hl Hc). intros j Hj. destruct (Nat.eq_dec j cur) as [->|Hne].
        * rewrite GSEj. apply gins_SE_noop; assumption.
        * apply GSE; assumption.
      + apply (close_same s G u s' ls G' HL E Hc). exact Ggc.
      + rewrite Gst. exact Htok.
      + intros j Ho. rewrite (Hpos j Ho), Hc. fold cur. split; [rewrite Ggc, Hc0; apply no_ev_nil | intros j' Hj'; lia].
      + intros k lc tab h o Hr Hs. rewrite Gst in Hs. apply (Hrd k lc tab h o Hr Hs).
    - rewrite Hc. fold cur. change (gI G' cur) with (gI (g_ins G cur (gb G cur) e []) cur). apply (ins_erase_end ML). exact Hc0.
  Qed.

  (* a call that has taken effect returns *)
  Lemma K_response s G u s' ls o r : LI s G -> sstep s u = Some (s', ls) -> h_pc s u <> QIdle ->
    gst G u = TLinearized o r -> shist ls = [HRes u r] -> h_pc s' u = QIdle ->
    exists G', LI s' G' /\ erase sop sres (gI G' (h_cur s')) = erase sop sres (gI G (h_cur s)) ++ shist ls.
  Proof.
    intros HL E Hni Hst Hh Hp'.
    pose proof (LI_XB s G HL) as HB.
    pose proof (li_tok s G HL u) as Htok. rewrite Hst in Htok. destruct Htok as [Hok Hpend].
    pose proof (nonidle_step s u s' ls E Hni) as Es.
    assert (Hl : slres (h_pc s u) = None) by (eapply spend_slres; exact Hpend).
    destruct (li_nr s G HL) as [Hfr _].
    assert (Hnp : forall kt new, h_pc s u <> QR_Publish kt new).
    { intros kt new Ep. rewrite Ep in Es. cbn [XMachineS.sstep_pc] in Es. apply some_pair_l in Es. destruct Es as [Es1 _].
      rewrite Es1 in Hp'. rewrite sgoto_pc_nf in Hp' by (cbn; apply Hfr). discriminate Hp'. }
    pose proof (cur_same s u s' ls HB E Hnp) as Hc.
    eexists. rewrite Hh.
    apply (K_end s G u s' ls (IRes u r) TIdle HL E Hl Hc eq_refl I).
    - rewrite Hst. constructor.
    - rewrite Hp'. left. reflexivity.
    - intros j Ho. rewrite Hp' in Ho. discriminate Ho.
    - intros k lc tab h o0 Hr. rewrite Hp' in Hr. discriminate Hr.
  Qed.

  (* ---------------- the invocation of a call (with its first primitive, a load of m.table) ---------------- *)

  Definition first_pc (s : mstate) (o : sop) : spc :=
    match o with
    | SLoad k => QL_Top k SLPlain (h_cur s) (hash k (m_seed (stab_at s (h_cur s)))) 0
    | SCompute k f ev lie co =>
        let cx := {| sc_k := k; sc_f := f; sc_ev := ev; sc_lie := lie; sc_co := co |} in
        if lie then QL_Top k (SLFast cx) (h_cur s) (hash k (m_seed (stab_at s (h_cur s)))) 0
        else QK_Load (h_cur s) (shome hash idx (stab_at s (h_cur s)) k) (LKCompute cx)
    | SClear => QR_CAS SHClear (SKReturn SRUnit)
    | _ => QIdle
    end.

  Lemma invoke_facts s u s' ls : h_pc s u = QIdle -> h_frame s u = None -> sstep s u = Some (s', ls) ->
    exists o rest, h_todo s u = o :: rest /\
      (sokop o -> shist ls = [HInv u o] /\ h_cur s' = h_cur s /\ h_tabs s' = h_tabs s /\ h_pc s' u = first_pc s o).
  Proof.
    intros Hp Hf E.
    destruct (sstep_split eqd hash idx tophash nslots seeds grow_needed shrink_policy nstripes minlen grow_only s u s' ls E)
      as [[Hn _]|[_ [o [rest [ls0 [Et [El Es]]]]]]]; [contradiction|].
    exists o, rest. split; [exact Et|]. intros Ho.
    assert (Hf1 : h_frame (sinvoke s u o rest) u = None) by exact Hf.
    destruct o; try contradiction; cbn [sstart_pc] in Es; unfold sstart_cx in Es; cbn [sc_lie] in Es; try (destruct lie);
      cbn [XMachineS.sstep_pc] in Es; cbv zeta in Es;
      apply some_pair_l in Es; destruct Es as [E1 E2]; subst s' ls0 ls; cbn [XS_linpoints.shist];
      rewrite ?sgoto_hist_nf, ?sgoto_pc_nf by exact Hf1; rewrite hcur_goto, XS_cells.htabs_goto;
      cbn [XS_linpoints.shist app snorm first_pc]; (split; [reflexivity|]); (split; [reflexivity|]); (split; reflexivity).
  Qed.

  Lemma tok_idle st : sTOK st (@QIdle K V) -> st = TIdle.
  Proof.
    destruct st as [|o|o r]; cbn [sTOK]; [reflexivity | |].
    - intros [_ H]. destruct o; try contradiction.
      + destruct H as [tab [h H]]. discriminate H.
      + destruct H as [[_ [tab [h H]]]|[_ H]]; discriminate H.
      + discriminate H.
    - intros [_ H]. discriminate H.
  Qed.

  Lemma K_invoke s G u s' ls : LI s G -> sstep s u = Some (s', ls) -> h_pc s u = QIdle ->
    exists G', LI s' G' /\ erase sop sres (gI G' (h_cur s')) = erase sop sres (gI G (h_cur s)) ++ shist ls.
  Proof.
    intros HL E Hp. destruct (li_nr s G HL) as [Hfr _].
    destruct (invoke_facts s u s' ls Hp (Hfr u) E) as [o [rest [Et Hf]]].
    pose proof (li_todo s G HL u) as Htd. rewrite Et in Htd. inversion Htd as [|? ? Ho Hrest]; subst.
    destruct (Hf Ho) as [Hh [Hc [Htabs Hp']]].
    pose proof (li_tok s G HL u) as Htok. rewrite Hp in Htok. apply tok_idle in Htok.
    eexists. rewrite Hh.
    apply (K_end s G u s' ls (IInv u o) (TInvoked o) HL E); [rewrite Hp; reflexivity | exact Hc | reflexivity | exact I | rewrite Htok; constructor | | |].
    - rewrite Hp'. destruct o; try contradiction; cbn [sTOK first_pc].
      + split; [reflexivity|]. eexists; eexists; reflexivity.
      + destruct lie; (split; [reflexivity|]).
        * left. split; [reflexivity|]. eexists; eexists; reflexivity.
        * right. split; reflexivity.
      + split; reflexivity.
    - intros j Hj. rewrite Hp' in Hj. destruct o; try contradiction; cbn in Hj; try (destruct lie; cbn in Hj); try discriminate Hj; inversion Hj; reflexivity.
    - intros k lc tab h o0 Hr Est. inversion Est; subst o0. clear Est.
      assert (Htab : forall j, stab_at s' j = stab_at s j) by (intros j; unfold XMachineS.stab_at; rewrite Htabs; reflexivity).
      assert (Hgen : forall k0 lc0, h_pc s' u = QL_Top k0 lc0 (h_cur s) (hash k0 (m_seed (stab_at s (h_cur s)))) 0 ->
                srdk (h_pc s' u) = Some (k, lc, tab, h) ->
                inlookup u k lc tab s'
                /\ (forall v, JJ u k tab v (can_ret (g_setst (g_ins G (h_cur s) (gb G (h_cur s)) (IInv u o) []) u (TInvoked o)) (h_cur s') u o (shitres lc v)) s')
                /\ (lc = SLPlain -> can_ret (g_setst (g_ins G (h_cur s) (gb G (h_cur s)) (IInv u o) []) u (TInvoked o)) (h_cur s') u o (SRVal None false) \/ JM u k tab s')).
      { intros k0 lc0 Epc Hr0. rewrite Epc in Hr0. cbn [srdk] in Hr0. inversion Hr0; subst. clear Hr0.
        split; [|split].
        - unfold XS_loadhit.inlookup. rewrite Epc, Htab. auto.
        - intros v. unfold XS_loadhit.JJ. rewrite Epc. exact I.
        - intros _. right. intros q _. rewrite Epc. cbn. lia. }
      rewrite Hp' in Hgen. destruct o; try contradiction; cbn [first_pc] in Hgen, Hp'.
      + apply (Hgen _ _ eq_refl). rewrite <- Hp'. exact Hr.
      + destruct lie.
        * apply (Hgen _ _ eq_refl). rewrite <- Hp'. exact Hr.
        * rewrite Hp' in Hr. discriminate Hr.
      + rewrite Hp' in Hr. discriminate Hr.
  Qed.

  (* ---------------- a lookup returns: its mark goes to a point of the past ---------------- *)

  Lemma todo_same s G u s' ls : LI s G -> sstep s u = Some (s', ls) -> h_pc s u <> QIdle -> h_todo s' = h_todo s.
  Proof. intros HL E Hni. destruct (scope_sstep s G u s' ls HL E) as [_ [_ [_ H]]]. exact (H Hni). Qed.

  Lemma K_rdret s G u s' ls o r x : LI s G -> sstep s u = Some (s', ls) -> h_pc s u <> QIdle ->
    srdk (h_pc s u) = Some x -> gst G u = TInvoked o -> can_ret G (h_cur s) u o r ->
    h_cur s' = h_cur s -> shist ls = [HRes u r] -> h_pc s' u = QIdle ->
    exists G', LI s' G' /\ erase sop sres (gI G' (h_cur s')) = erase sop sres (gI G (h_cur s)) ++ shist ls.
  Proof.
    intros HL E Hni Hr Hst [j [b1 [b2 [Hj [Hb [N1 [N2 [N3 [Hok [Hres Hnx]]]]]]]]]] Hc Hh Hp'.
    set (cur := h_cur s) in *.
    assert (Hl : slres (h_pc s u) = None) by (eapply srdk_slres; exact Hr).
    destruct (li_empty s G HL) as [Hc0 Hemp]. fold cur in Hc0, Hemp.
    (* the mark *)
    set (e1 := @ILin sop sres u o r).
    assert (Hn1 : lrun (lrun (gSS G j) b1) [e1] = lrun (gSS G j) b1) by exact Hnx.
    destruct (gins_ok ML cur G j b1 b2 e1 (TLinearized o r) (LI_GOK s G HL) Hj Hb (or_introl Hn1)) as [HK1 [HG1 [Ggc1 [Ggb1 [Ggbj1 [GSS1 [GSE1 [GSEj1 [Gst1 Gsto1]]]]]]]]].
    { split; [exact Hok | exact Hres]. } { exact N1. } { exact N2. } { exact N3. } { change (evt e1) with u. rewrite Hst. constructor. }
    change (evt e1) with u in *. set (G1 := g_setst (g_ins G j b1 e1 b2) u (TLinearized o r)) in *.
    (* the response *)
    set (e2 := @IRes sop sres u r).
    assert (Hb2 : gb G1 cur = gb G1 cur ++ []) by (symmetry; apply app_nil_r).
    assert (Hn2 : lrun (lrun (gSS G1 cur) (gb G1 cur)) [e2] = lrun (gSS G1 cur) (gb G1 cur)) by reflexivity.
    destruct (gins_ok ML cur G1 cur (gb G1 cur) [] e2 TIdle HK1 (le_n _) Hb2 (or_introl Hn2)) as [HK2 [HG2 [Ggc2 [Ggb2 [Ggbj2 [GSS2 [GSE2 [GSEj2 [Gst2 Gsto2]]]]]]]]].
    { exact I. } { apply no_ev_nil. } { rewrite Ggc1, Hc0. apply no_ev_nil. } { intros j' Hj'. lia. } { change (evt e2) with u. rewrite Gst1. constructor. }
    change (evt e2) with u in *. set (G2 := g_setst (g_ins G1 cur (gb G1 cur) e2 []) u TIdle) in *.
    assert (HSE : forall i, i <= cur -> gSE G2 i = gSE G i).
    { intros i Hi. transitivity (gSE G1 i).
      - destruct (Nat.eq_dec i cur) as [->|Hne]; [rewrite GSEj2; apply gins_SE_noop; assumption | apply GSE2; assumption].
      - destruct (Nat.eq_dec i j) as [->|Hne]; [rewrite GSEj1; apply gins_SE_noop; assumption | apply GSE1; assumption]. }
    exists G2. split.
    - eapply (LI_frame2 s G u s' ls G2); try eassumption.
      + rewrite Hc. eapply gext_trans; eassumption.
      + rewrite Hc. exact HK2.
      + apply (agree_same s G u s' ls G2 HL E Hl Hc). exact HSE.
      + apply (close_same s G u s' ls G2 HL E Hc). intros i. rewrite Ggc2, Ggc1. reflexivity.
      + rewrite Gst2, Hp'. left. reflexivity.
      + intros i Ho. rewrite Hp' in Ho. discriminate Ho.
      + intros k lc tab h o0 Hr0. rewrite Hp' in Hr0. discriminate Hr0.
    - rewrite Hc, Hh. fold cur.
      change (gI G2 cur) with (gI (g_ins G1 cur (gb G1 cur) e2 []) cur).
      rewrite (ins_erase_end ML) by (rewrite Ggc1; exact Hc0).
      change (gI G1 cur) with (gI (g_ins G j b1 e1 b2) cur).
      erewrite (ins_erase_mark ML); [reflexivity | first [exact Hj | exact Hb | (left; exact Hn1) | exact I] ..].
  Qed.

  Lemma K_rdhit s G u s' ls k lc tab h o v : LI s G -> sstep s u = Some (s', ls) -> h_pc s u <> QIdle ->
    srdk (h_pc s u) = Some (k, lc, tab, h) -> gst G u = TInvoked o ->
    h_cur s' = h_cur s -> shist ls = [HRes u (shitres lc v)] -> h_pc s' u = QIdle -> (exists l, In l ls /\ hit u v l) ->
    exists G', LI s' G' /\ erase sop sres (gI G' (h_cur s')) = erase sop sres (gI G (h_cur s)) ++ shist ls.
  Proof.
    intros HL E Hni Hr Hst Hc Hh Hp' Hhit.
    destruct (li_si s G HL) as [_ [_ HNQ]].
    destruct (li_rd s G HL u k lc tab h o Hr Hst) as [Hin [HJ _]].
    assert (Hcr : can_ret G (h_cur s) u o (shitres lc v)).
    { exact (XS_loadhit.hit_step eqd hash idx tophash nslots seeds grow_needed shrink_policy nstripes minlen grow_only
               u k lc tab v _ s s' ls HNQ Hin (HJ v) E Hhit). }
    eapply K_rdret; eassumption.
  Qed.

  Lemma K_rdmiss s G u s' ls k tab h o : LI s G -> sstep s u = Some (s', ls) -> h_pc s u <> QIdle ->
    srdk (h_pc s u) = Some (k, SLPlain, tab, h) -> gst G u = TInvoked o ->
    h_cur s' = h_cur s -> shist ls = [HRes u (SRVal None false)] -> h_pc s' u = QIdle -> In (SRes u (SRVal None false)) ls ->
    exists G', LI s' G' /\ erase sop sres (gI G' (h_cur s')) = erase sop sres (gI G (h_cur s)) ++ shist ls.
  Proof.
    intros HL E Hni Hr Hst Hc Hh Hp' Hmiss.
    pose proof (LI_XB s G HL) as HB. destruct (li_si s G HL) as [_ [_ HNQ]].
    destruct (li_rd s G HL u k SLPlain tab h o Hr Hst) as [Hin [_ HM]].
    destruct (tok_rd _ _ k SLPlain tab h (li_tok s G HL u) Hr) as [o' [Eo Hop]]. rewrite Hst in Eo. inversion Eo; subst o'. clear Eo.
    cbn [XS_linpoints.srd_op] in Hop. subst o.
    assert (Hend : XS_loadmiss.endchain u s ls).
    { apply (XS_loadmiss.absent_end eqd hash idx tophash nslots seeds grow_needed shrink_policy nstripes minlen grow_only u k SLPlain tab s s' ls HNQ Hin E).
      left. exact Hmiss. }
    assert (Hcr : can_ret G (h_cur s) u (SLoad k) (SRVal None false)).
    { destruct (HM eq_refl) as [H|Hjm]; [exact H|].
      destruct (XS_loadmiss.vis_dec eqd hash idx tophash nslots nstripes minlen Hslots Hnslots Hminlen k tab s) as [Hp|Hn].
      - exfalso.
        exact (XS_loadmiss.miss_step eqd hash idx tophash nslots seeds grow_needed shrink_policy nstripes minlen grow_only
                 Hslots Hnslots Hidx Hminlen u k SLPlain tab s s' ls HB (conj Hin Hp) Hjm E Hend).
      - eapply end_miss; [exact HL | eapply ontab_rdk; exact Hr |].
        intros v Hv. apply Hn. exists v. exact Hv. }
    eapply K_rdret; eassumption.
  Qed.

  (* ---------------- a writer takes effect: its mark goes to the end of the body of its table's generation ---------------- *)

  Lemma K_mark s G u s' ls o r tab : LI s G -> sstep s u = Some (s', ls) -> h_pc s u <> QIdle ->
    gst G u = TInvoked o -> sokop o -> tab <= h_cur s ->
    no_ev u (gc G tab) -> (forall j', tab < j' <= h_cur s -> no_ev u (gseg G j')) ->
    stable G (h_cur s) tab (gb G tab) [] (ILin u o r) -> r = sspec_res (gSE G tab) o ->
    h_cur s' = h_cur s -> shist ls = [] -> spend (h_pc s' u) = Some r ->
    (forall i, i <= h_cur s -> i <> tab -> forall k v, svis (tabT (h_tabs s') i) k v <-> svis (tabT (h_tabs s) i) k v) ->
    agree (sspec_next (gSE G tab) o) (svis (tabT (h_tabs s') tab)) ->
    (forall j, sontab (h_pc s' u) = Some j -> j = tab) ->
    exists G', LI s' G' /\ erase sop sres (gI G' (h_cur s')) = erase sop sres (gI G (h_cur s)) ++ shist ls.
  Proof.
    intros HL E Hni Hst Hok Htab P1 P2 Hstab Hres Hc Hh Hpend Hvis Hag Hpos.
    set (cur := h_cur s) in *.
    set (e := @ILin sop sres u o r).
    assert (Hb : gb G tab = gb G tab ++ []) by (symmetry; apply app_nil_r).
    destruct (gins_ok ML cur G tab (gb G tab) [] e (TLinearized o r) (LI_GOK s G HL) Htab Hb Hstab) as [HK [HG [Ggc [Ggb [Ggbj [GSS [GSE [GSEj [Gst Gsto]]]]]]]]].
    { split; [exact Hok | exact Hres]. } { apply no_ev_nil. } { exact P1. } { exact P2. } { change (evt e) with u. rewrite Hst. constructor. }
    change (evt e) with u in *. set (G' := g_setst (g_ins G tab (gb G tab) e []) u (TLinearized o r)) in *.
    assert (HSEj : gSE G' tab = sspec_next (gSE G tab) o).
    { rewrite GSEj. rewrite (LinGen.lrun_app ML). reflexivity. }
    exists G'. split.
    - eapply (LI_frame2 s G u s' ls G'); try eassumption.
      + rewrite Hc. exact HG.
      + rewrite Hc. exact HK.
      + intros i Hi. rewrite Hc in Hi. fold cur in Hi. destruct (Nat.eq_dec i tab) as [->|Hne].
        * rewrite HSEj. exact Hag.
        * rewrite (GSE i Hi Hne). eapply X_linpoints.agree_iff; [apply (Hvis i Hi Hne) | apply (li_agree s G HL i Hi)].
      + apply (close_same s G u s' ls G' HL E Hc). exact Ggc.
      + rewrite Gst. split; assumption.
      + intros j Ho. rewrite (Hpos j Ho), Hc. fold cur. split; [rewrite Ggc; exact P1|].
        intros j' Hj'. assert (Hs : gseg G' j' = gseg G j'). { unfold LinGen.gseg. rewrite Ggc, Ggb by lia. reflexivity. }
        rewrite Hs. apply P2. exact Hj'.
      + intros k lc tab0 h o0 Hr0. rewrite (pend_rdk _ _ Hpend) in Hr0. discriminate Hr0.
    - rewrite Hc, Hh, app_nil_r. fold cur. change (gI G' cur) with (gI (g_ins G tab (gb G tab) e []) cur).
      erewrite (ins_erase_mark ML); [reflexivity | first [exact Htab | exact Hb | exact Hstab | exact I] ..].
  Qed.

  Lemma lin_other (p : spc) tab i : swtab p = Some tab -> i <> tab -> lin_effect p i = None.
  Proof.
    destruct p; cbn; intros E Hne; try reflexivity; try discriminate E; inversion E; subst;
      (destruct (Nat.eq_dec tab i); [exfalso; apply Hne; symmetry; assumption | reflexivity]).
  Qed.

  Lemma lres_wtab (p : spc) r : slres p = Some r -> exists tab, swtab p = Some tab.
  Proof. destruct p; cbn; intros E; try discriminate E; eexists; reflexivity. Qed.

  Lemma clr_wcx (p : spc) : sclr p = true -> swcx p = None.
  Proof.
    destruct p; cbn [sclr swcx]; try discriminate; try reflexivity; intros H;
      repeat match type of H with context [match ?x with _ => _ end] => destruct x end; try discriminate H; reflexivity.
  Qed.

  Lemma tok_wr st (p : spc) cx : sTOK st p -> spend p = None -> srdk p = None -> swcx p = Some cx ->
    exists o, st = TInvoked o /\ sopcx o = Some cx /\ sokop o.
  Proof.
    intros Ht Hp Hr Hw. destruct st as [|o|o r]; cbn [sTOK] in Ht.
    - destruct Ht as [-> | ->]; discriminate Hw.
    - exists o. split; [reflexivity|]. destruct Ht as [_ Ht]. destruct o; try contradiction.
      + destruct Ht as [tab [h E]]. rewrite E in Hr. discriminate Hr.
      + destruct Ht as [[_ [tab [h E]]]|[_ E]]; [rewrite E in Hr; discriminate Hr|].
        rewrite E in Hw. inversion Hw; subst cx. cbn. auto.
      + rewrite (clr_wcx _ Ht) in Hw. discriminate Hw.
    - destruct Ht as [_ Ht]. rewrite Ht in Hp. discriminate Hp.
  Qed.

  (* the marks of a writer that is past its checks on table tab: where they go *)
  Lemma writer_place s G u tab : LI s G -> swtab (h_pc s u) = Some tab ->
    tab <= h_cur s /\ no_ev u (gc G tab) /\ (forall j', tab < j' <= h_cur s -> no_ev u (gseg G j'))
    /\ ((tab = h_cur s /\ gc G tab = []) \/ LinGen.starts_clear ML (gc G tab)).
  Proof.
    intros HL Hwt. pose proof (ontab_wtab _ _ Hwt) as Hon.
    pose proof (ontab_le s u tab (LI_XB s G HL) Hon) as Htab.
    destruct (li_pos s G HL u tab Hon) as [P1 P2].
    split; [exact Htab|]. split; [exact P1|]. split; [exact P2|].
    destruct (Nat.eq_dec tab (h_cur s)) as [Et|Hne].
    - left. split; [exact Et|]. rewrite Et. destruct (li_empty s G HL) as [A _]. exact A.
    - right. destruct (li_close s G HL tab ltac:(lia)) as [[_ B]|[c Ec]]; [exfalso; exact (B u Hwt)|].
      rewrite Ec. exists c, SRUnit, []. reflexivity.
  Qed.

  (* the linearization store of a writer *)
  Lemma K_lin s G u s' ls cx r : LI s G -> sstep s u = Some (s', ls) -> h_pc s u <> QIdle ->
    spend (h_pc s u) = None -> srdk (h_pc s u) = None -> swcx (h_pc s u) = Some cx ->
    slres (h_pc s u) = Some r -> shist ls = [] -> spend (h_pc s' u) = Some r ->
    exists G', LI s' G' /\ erase sop sres (gI G' (h_cur s')) = erase sop sres (gI G (h_cur s)) ++ shist ls.
  Proof.
    intros HL E Hni Hp Hr Hw Hl Hh Hp'.
    pose proof (LI_XB s G HL) as HB.
    destruct (tok_wr _ _ cx (li_tok s G HL u) Hp Hr Hw) as [o [Hst [Hox Hok]]].
    destruct (lres_wtab _ _ Hl) as [tab Hwt].
    destruct (writer_place s G u tab HL Hwt) as [Htab [P1 [P2 Hplace]]].
    pose proof (li_agree s G HL tab Htab) as Hag.
    destruct (slin_store_spec eqd hash idx tophash nslots nstripes s u o cx tab r (gSE G tab) HB (li_dec s G HL u) Hox Hw Hl Hwt Hag)
      as [Hres [nw [Hle Hnx]]].
    assert (Hnp : forall kt new, h_pc s u <> QR_Publish kt new) by (intros kt new Ep; rewrite Ep in Hl; discriminate Hl).
    pose proof (cur_same s u s' ls HB E Hnp) as Hc.
    eapply (K_mark s G u s' ls o r tab); try eassumption.
    - right. split; [reflexivity | exact Hplace].
    - intros i Hi Hne k v.
      rewrite (vis_sstep eqd hash idx tophash nslots seeds grow_needed shrink_policy nstripes minlen grow_only Hslots Hnslots Hidx Hminlen
                 s u s' ls i k v HB E Hi).
      rewrite (lin_other _ tab i Hwt Hne). reflexivity.
    - rewrite Hnx. eapply X_linpoints.agree_iff; [|apply (sagree_upd eqd _ _ (sc_k cx) nw Hag)].
      intros k v.
      rewrite (vis_sstep eqd hash idx tophash nslots seeds grow_needed shrink_policy nstripes minlen grow_only Hslots Hnslots Hidx Hminlen
                 s u s' ls tab k v HB E Htab).
      rewrite Hle. reflexivity.
    - intros j Ho. destruct (ontab_inv _ _ Ho) as [[k [lc [h Hr0]]]|Hw0]; [rewrite (pend_rdk _ _ Hp') in Hr0; discriminate Hr0|].
      destruct (swtab_step s G u s' ls u j HL E Hw0) as [H|[_ [_ [cx0 H]]]].
      + rewrite Hwt in H. inversion H. reflexivity.
      + rewrite H in Hl. discriminate Hl.
  Qed.

  Lemma nooplin_tab s (p : spc) r : snooplin s p r -> exists tab, swtab p = Some tab /\ (forall kt new, p <> QR_Publish kt new).
  Proof.
    destruct p; cbn [XS_linpoints.snooplin]; try contradiction; intros _; eexists; (split; [reflexivity | intros ? ? X; discriminate X]).
  Qed.

  (* a decision of doCompute that answers without writing *)
  Lemma K_noop s G u s' ls cx r : LI s G -> sstep s u = Some (s', ls) -> h_pc s u <> QIdle ->
    spend (h_pc s u) = None -> srdk (h_pc s u) = None -> swcx (h_pc s u) = Some cx ->
    slres (h_pc s u) = None -> snooplin s (h_pc s u) r -> shist ls = [] -> spend (h_pc s' u) = Some r ->
    exists G', LI s' G' /\ erase sop sres (gI G' (h_cur s')) = erase sop sres (gI G (h_cur s)) ++ shist ls.
  Proof.
    intros HL E Hni Hp Hr Hw Hl Hn Hh Hp'.
    pose proof (LI_XB s G HL) as HB.
    destruct (tok_wr _ _ cx (li_tok s G HL u) Hp Hr Hw) as [o [Hst [Hox Hok]]].
    destruct (nooplin_tab s _ r Hn) as [tab [Hwt Hnp]].
    pose proof (cur_same s u s' ls HB E Hnp) as Hc.
    destruct (writer_place s G u tab HL Hwt) as [Htab [P1 [P2 _]]].
    pose proof (li_agree s G HL tab Htab) as Hag.
    destruct (snooplin_spec eqd hash idx tophash nslots nstripes minlen Hslots Hnslots Hidx Hminlen
                s u o cx tab r (gSE G tab) HB Hox Hw Hn Hwt Hag) as [Hres Hnx].
    eapply (K_mark s G u s' ls o r tab); try eassumption.
    - left. exact Hnx.
    - intros i Hi Hne. apply (vis_same s G u s' ls i HL E Hl Hi).
    - rewrite Hnx. eapply X_linpoints.agree_iff; [apply (vis_same s G u s' ls tab HL E Hl Htab) | exact Hag].
    - intros j Ho. destruct (ontab_inv _ _ Ho) as [[k [lc [h Hr0]]]|Hw0]; [rewrite (pend_rdk _ _ Hp') in Hr0; discriminate Hr0|].
      destruct (swtab_step s G u s' ls u j HL E Hw0) as [H|[_ [_ [cx0 H]]]].
      + rewrite Hwt in H. inversion H. reflexivity.
      + rewrite H in Hwt. discriminate Hwt.
  Qed.

  (* ---------------- the store that publishes a new table ---------------- *)

  Lemma K_publish s G u s' ls kt new cl st' : LI s G -> sstep s u = Some (s', ls) ->
    h_pc s u = QR_Publish kt new -> shist ls = [] ->
    ((~ clear_kt kt /\ cl = [] /\ st' = gst G u)
     \/ (clear_kt kt /\ cl = [ILin u (@SClear K V) (@SRUnit V)] /\ gst G u = TInvoked (@SClear K V)
         /\ st' = TLinearized (@SClear K V) (@SRUnit V))) ->
    sTOK st' (QR_FinLock kt) ->
    exists G', LI s' G' /\ erase sop sres (gI G' (h_cur s')) = erase sop sres (gI G (h_cur s)) ++ shist ls.
  Proof.
    intros HL E Hp Hh Hkind Htok.
    pose proof (LI_XB s G HL) as HB. destruct (li_si s G HL) as [HI _]. destruct (li_nr s G HL) as [Hfr _].
    assert (Hpn : new = S (h_cur s) /\ h_cur s' = S (h_cur s) /\ h_tabs s' = h_tabs s).
    { eapply (@publish_next_s K V eqd hash idx tophash nslots seeds grow_needed shrink_policy nstripes minlen grow_only); eassumption. }
    destruct Hpn as [-> [Hc Htabs]].
    set (cur := h_cur s) in *.
    assert (Ep' : h_pc s' u = QR_FinLock kt).
    { pose proof (nonidle_step s u s' ls E) as Es. rewrite Hp in Es. specialize (Es ltac:(discriminate)).
      cbn [XMachineS.sstep_pc] in Es. apply some_pair_l in Es. destruct Es as [E1 _].
      rewrite E1, sgoto_pc_nf by (cbn; apply Hfr). reflexivity. }
    assert (Hl : slres (h_pc s u) = None) by (rewrite Hp; reflexivity).
    pose proof (abs_step_all eqd hash idx tophash nslots seeds grow_needed shrink_policy nstripes minlen grow_only Hslots Hnslots Hidx Hminlen
                  s u s' ls HI E) as Habs. rewrite Hp in Habs.
    assert (Habs' : forall k v, sabs s' k v <-> svis (tabT (h_tabs s') (S cur)) k v) by (intros k v; unfold XS_abs.sabs; rewrite Hc; reflexivity).
    assert (Hlokcl : lok (gSE G cur) cl).
    { destruct Hkind as [[_ [-> _]]|[_ [-> _]]]; cbn; auto. }
    assert (Hnoev : forall t, t <> u -> no_ev t cl).
    { intros t Hne. destruct Hkind as [[_ [-> _]]|[_ [-> _]]]; [apply no_ev_nil|]. apply no_ev_cons. split; [cbn; congruence | apply no_ev_nil]. }
    assert (Hmove : cl = [] /\ st' = gst G u \/ exists c, cl = [c] /\ tmove u (gst G u) c st').
    { destruct Hkind as [[_ [-> ->]]|[_ [-> [Est ->]]]]; [left; auto|]. right. eexists. split; [reflexivity|]. rewrite Est. constructor. }
    destruct (gpub_ok ML cur G cl u st' (LI_GOK s G HL) Hlokcl Hnoev Hmove) as [HK [HG [Ggc [Ggcc [Ggb [GSE [GSEn [GI Gst]]]]]]]].
    set (G' := g_setst (g_pub G cur cl) u st') in *.
    exists G'. split.
    - eapply (LI_frame2 s G u s' ls G'); try eassumption.
      + rewrite Hc. exact HG.
      + rewrite Hc. exact HK.
      + intros j Hj. rewrite Hc in Hj. destruct (Nat.eq_dec j (S cur)) as [->|Hne].
        * rewrite GSEn. destruct Hkind as [[Hnc [-> _]]|[Hcl [-> _]]].
          -- change (lrun (gSE G cur) []) with (gSE G cur). destruct Habs as [[Hx _]|[_ Hsame]]; [contradiction|].
             eapply X_linpoints.agree_iff; [|apply (li_agree s G HL cur (le_n _))]. intros k v. rewrite <- Habs'. apply Hsame.
          -- change (lrun (gSE G cur) [ILin u SClear SRUnit]) with aempty. destruct Habs as [[_ Hemp]|[Hx _]]; [|contradiction].
             intros k v. split; [intros Hv; exfalso; apply (Hemp k v); apply Habs'; exact Hv | discriminate].
        * assert (Hj' : j <= cur) by lia. rewrite (GSE j Hj').
          eapply X_linpoints.agree_iff; [apply (vis_same s G u s' ls j HL E Hl Hj') | apply (li_agree s G HL j Hj')].
      + intros j Hj. rewrite Hc in Hj. destruct (Nat.eq_dec j cur) as [->|Hne].
        * rewrite Ggcc. destruct Hkind as [[Hnc [-> _]]|[_ [-> _]]]; [left | right; eexists; reflexivity].
          split; [reflexivity|]. intros w Hw.
          destruct (swtab_step s G u s' ls w cur HL E Hw) as [H|[_ [_ [cx0 H]]]].
          -- exact (publish_grow_quiet_s hash idx tophash nslots nstripes s u kt (S cur) HI Hp Hnc w H).
          -- rewrite Hp in H. discriminate H.
        * rewrite (Ggc j Hne). destruct (li_close s G HL j ltac:(lia)) as [[A B]|B]; [left | right; exact B].
          split; [exact A|]. intros w Hw. apply (B w).
          destruct (swtab_step s G u s' ls w j HL E Hw) as [H|[_ [Hcj _]]]; [exact H | fold cur in Hcj; lia].
      + rewrite Gst, Ep'. exact Htok.
      + intros j Ho. rewrite Ep' in Ho. discriminate Ho.
      + intros k lc tab h o0 Hr0. rewrite Ep' in Hr0. discriminate Hr0.
    - rewrite Hc, Hh, app_nil_r, GI, (LinGen.erase_app ML).
      assert (Ecl : erase (Op ML) (Res ML) cl = []) by (destruct Hkind as [[_ [-> _]]|[_ [-> _]]]; reflexivity).
      rewrite Ecl, app_nil_r. reflexivity.
  Qed.

  (* ---------------- every step keeps the invariant and extends the history by its own events ---------------- *)

  Lemma idle_dec (p : spc) : {p = QIdle} + {p <> QIdle}.
  Proof. destruct p; (left; reflexivity) || (right; discriminate). Qed.

  Lemma publish_dec (p : spc) : {x | p = QR_Publish (fst x) (snd x)} + {forall kt new, p <> QR_Publish kt new}.
  Proof. destruct p; try (right; intros; discriminate). left. exists (kt, new). reflexivity. Qed.

  Lemma rdk_pend (p : spc) x : srdk p = Some x -> spend p = None.
  Proof. destruct p; cbn; intros E; try reflexivity; discriminate E. Qed.
  Lemma clr_pend (p : spc) : sclr p = true -> spend p = None.
  Proof.
    destruct p; cbn [sclr spend]; try discriminate; try reflexivity; intros H;
      repeat match type of H with context [match ?x with _ => _ end] => destruct x end; try discriminate H; reflexivity.
  Qed.
  Lemma kres_nc_kres (kt : scont) r : skres_nc kt = Some r -> skres kt = Some r /\ ~ clear_kt kt.
  Proof.
    destruct kt as [cx|r0]; cbn; [discriminate|]. destruct r0; intros E; inversion E; subst; (split; [reflexivity|]); unfold clear_kt; discriminate.
  Qed.
  Lemma publish_hist s u kt new s' ls : h_frame s u = None -> sstep_pc s u (QR_Publish kt new) = Some (s', ls) -> shist ls = [] /\ h_pc s' u = QR_FinLock kt.
  Proof.
    intros Hf. cbn [XMachineS.sstep_pc]. intros E. apply some_pair_l in E. destruct E as [E1 E2]. subst.
    rewrite sgoto_pc_nf, sgoto_hist_nf by (cbn; exact Hf). split; reflexivity.
  Qed.

  Theorem LI_sstep s G u s' ls : LI s G -> sstep s u = Some (s', ls) ->
    exists G', LI s' G' /\ erase sop sres (gI G' (h_cur s')) = erase sop sres (gI G (h_cur s)) ++ shist ls.
  Proof.
    intros HL E.
    destruct (idle_dec (h_pc s u)) as [Hid|Hni]; [apply (K_invoke s G u s' ls HL E Hid)|].
    pose proof (LI_XB s G HL) as HB. destruct (li_nr s G HL) as [Hfr Hnor].
    pose proof (nonidle_step s u s' ls E Hni) as Es.
    pose proof (li_tok s G HL u) as Htok.
    pose proof (Hfr u) as Hf. pose proof (Hnor u) as Hnr.
    assert (Hsil : forall (Hl : slres (h_pc s u) = None) (Hnp : forall kt new, h_pc s u <> QR_Publish kt new) (Hh : shist ls = [])
                          (Ht : sTOK (gst G u) (h_pc s' u)) (Hr : forall x, srdk (h_pc s' u) = Some x -> srdk (h_pc s u) = Some x),
               exists G', LI s' G' /\ erase sop sres (gI G' (h_cur s')) = erase sop sres (gI G (h_cur s)) ++ shist ls).
    { intros Hl Hnp Hh Ht Hr. exists G. split; [apply (K_silent s G u s' ls HL E Hl Hnp Ht Hr)|].
      rewrite Hh, app_nil_r. rewrite (cur_same s u s' ls HB E Hnp). reflexivity. }
    destruct (gst G u) as [|o|o r] eqn:Hst; cbn [sTOK] in Htok.
    - (* the goroutine starts *)
      destruct Htok as [Hc|Hps]; [contradiction|]. rewrite Hps in Es. cbn [XMachineS.sstep_pc] in Es. apply some_pair_l in Es. destruct Es as [E1 E2].
      assert (Ep' : h_pc s' u = QIdle) by (rewrite E1; cbn [fst]; apply sset_pc_same).
      apply Hsil; [rewrite Hps; reflexivity | rewrite Hps; intros; discriminate | rewrite E2; reflexivity | rewrite Ep'; left; reflexivity | rewrite Ep'; intros x X; discriminate X].
    - (* a call that has not taken effect yet *)
      destruct Htok as [Hpend Hkind].
      destruct o as [k|k f ev lie co| | |]; try contradiction.
      + (* Load *)
        destruct Hkind as [tab [h Hr]].
        destruct (L_rd_s eqd hash idx tophash nslots seeds grow_needed shrink_policy nstripes minlen grow_only s u _ s' ls k SLPlain tab h Es Hf Hr)
          as [_ [Hc [[Hr' Hh]|[[v [Hh [Hp' Hhit]]]|[[_ [Hh [Hp' Hm]]]|[cx [Hx _]]]]]]].
        * apply Hsil; [eapply srdk_slres; exact Hr | intros kt new X; rewrite X in Hr; discriminate Hr | exact Hh | | intros x X; rewrite Hr' in X; rewrite Hr; exact X].
          cbn [sTOK]. split; [eapply rdk_pend; exact Hr' | eexists; eexists; exact Hr'].
        * eapply K_rdhit; eassumption.
        * eapply K_rdmiss; eassumption.
        * discriminate Hx.
      + (* Compute *)
        destruct Hkind as [[Hlie [tab [h Hr]]]|[Hr Hw]].
        * (* the read-only path of load-or-compute *)
          destruct (L_rd_s eqd hash idx tophash nslots seeds grow_needed shrink_policy nstripes minlen grow_only s u _ s' ls k _ tab h Es Hf Hr)
            as [_ [Hc [[Hr' Hh]|[[v [Hh [Hp' Hhit]]]|[[Hx _]|[cx [Hx [Hp' Hh]]]]]]]].
          -- apply Hsil; [eapply srdk_slres; exact Hr | intros kt new X; rewrite X in Hr; discriminate Hr | exact Hh | | intros x X; rewrite Hr' in X; rewrite Hr; exact X].
             cbn [sTOK]. split; [eapply rdk_pend; exact Hr' | left; split; [exact Hlie | eexists; eexists; exact Hr']].
          -- eapply K_rdhit; eassumption.
          -- discriminate Hx.
          -- inversion Hx; subst cx.
             apply Hsil; [eapply srdk_slres; exact Hr | intros kt new X; rewrite X in Hr; discriminate Hr | exact Hh | | intros x X; rewrite Hp' in X; discriminate X].
             cbn [sTOK]. rewrite Hp'. split; [reflexivity|]. right. split; reflexivity.
        * (* the locked path *)
          set (cx := {| sc_k := k; sc_f := f; sc_ev := ev; sc_lie := lie; sc_co := co |}) in *.
          destruct (publish_dec (h_pc s u)) as [[[kt new] Hpub]|Hnp].
          -- cbn [fst snd] in Hpub. rewrite Hpub in Es, Hw. destruct (publish_hist s u kt new s' ls Hf Es) as [Hh Hp'].
             cbn [swcx] in Hw. destruct kt as [cx0|r0]; cbn [skcx] in Hw; [|discriminate Hw]. inversion Hw; subst cx0.
             eapply (K_publish s G u s' ls (SKRetry cx) new [] (gst G u) HL E Hpub Hh).
             ++ left. split; [unfold clear_kt; discriminate | split; reflexivity].
             ++ rewrite Hst. cbn [sTOK]. split; [reflexivity|]. right. split; reflexivity.
          -- destruct (L_wr_s eqd hash idx tophash nslots seeds grow_needed shrink_policy nstripes minlen grow_only s u _ s' ls cx Es Hf Hnr Hpend Hr Hw)
               as [Hh [[Hl [Hp' [Hr' Hw']]]|[[r [Hl Hp']]|[r [Hl [Hn Hp']]]]]].
             ++ apply Hsil; [exact Hl | exact Hnp | exact Hh | | intros x X; rewrite Hr' in X; discriminate X].
                cbn [sTOK]. split; [exact Hp'|]. right. split; [exact Hr' | exact Hw'].
             ++ eapply K_lin; eassumption.
             ++ eapply K_noop; eassumption.
      + (* Clear *)
        destruct (L_clr_s eqd hash idx tophash nslots seeds grow_needed shrink_policy nstripes minlen grow_only s u _ s' ls Es Hf Hkind)
          as [Hh [[Hc' Hnp]|[new [Hpub Hp']]]].
        * apply Hsil; [apply sclr_slres; exact Hkind | exact Hnp | exact Hh | | intros x X; rewrite (clr_rdk _ Hc') in X; discriminate X].
          cbn [sTOK]. split; [apply clr_pend; exact Hc' | exact Hc'].
        * eapply (K_publish s G u s' ls (SKReturn SRUnit) new [ILin u SClear SRUnit] (TLinearized SClear SRUnit) HL E Hpub Hh).
          -- right. split; [reflexivity|]. split; [reflexivity|]. split; [exact Hst | reflexivity].
          -- cbn [sTOK]. split; [exact I | reflexivity].
    - (* a call that has taken effect *)
      destruct Htok as [Hok Hpend].
      destruct (publish_dec (h_pc s u)) as [[[kt new] Hpub]|Hnp].
      + cbn [fst snd] in Hpub. rewrite Hpub in Es, Hpend. destruct (publish_hist s u kt new s' ls Hf Es) as [Hh Hp'].
        cbn [spend] in Hpend. destruct (kres_nc_kres kt r Hpend) as [Hk Hnc].
        eapply (K_publish s G u s' ls kt new [] (gst G u) HL E Hpub Hh).
        * left. split; [exact Hnc | split; reflexivity].
        * rewrite Hst. cbn [sTOK]. split; [exact Hok | exact Hk].
      + destruct (L_pend_s eqd hash idx tophash nslots seeds grow_needed shrink_policy nstripes minlen grow_only s u _ s' ls r Es Hf Hnr Hpend)
          as [[Hh Hp']|[Hh Hp']].
        * apply Hsil; [eapply spend_slres; exact Hpend | exact Hnp | exact Hh | | intros x X; rewrite (pend_rdk _ _ Hp') in X; discriminate X].
          cbn [sTOK]. split; [exact Hok | exact Hp'].
        * eapply K_response; eassumption.
  Qed.

  (* ---------------- runs ---------------- *)

  Theorem LI_srun sched : forall s G, LI s G ->
    exists G', LI (fst (srun s sched)) G'
      /\ erase sop sres (gI G' (h_cur (fst (srun s sched)))) = erase sop sres (gI G (h_cur s)) ++ shist (snd (srun s sched)).
  Proof.
    induction sched as [|u r IH]; intros s G HL; cbn [XMachineS.srun].
    - exists G. split; [exact HL|]. cbn. rewrite app_nil_r. reflexivity.
    - destruct (sstep s u) as [[s1 ls1]|] eqn:E.
      + destruct (LI_sstep s G u s1 ls1 HL E) as [G1 [HL1 E1]].
        destruct (IH s1 G1 HL1) as [G2 [HL2 E2]].
        destruct (XMachineS.srun _ _ _ _ _ _ _ _ _ _ _ s1 r) as [s2 ls2]. cbn [fst snd] in *.
        exists G2. split; [exact HL2|]. rewrite E2, E1, shist_app, app_assoc. reflexivity.
      + apply IH. exact HL.
  Qed.

  Definition G0 : ghost := LinGen.Build_ghost ML (fun _ => []) (fun _ => []) (fun _ => TIdle).

  Lemma svis_new len seed k v : ~ svis (new_mtable nslots nstripes len seed) k v.
  Proof.
    unfold XS_vis.svis, XS_vis.cvis, XS_vis.pvis. intros [pos [_ [Hk _]]]. revert Hk.
    unfold schain_of, new_mtable. cbn [m_chains].
    set (b := shome hash idx _ k). clearbody b.
    set (l := repeat (repeat (@empty_mslot K V) nslots) len).
    assert (Hsl : nth pos (nth b l []) empty_mslot = @empty_mslot K V); [|rewrite Hsl; discriminate].
    destruct (nth_in_or_default b l []) as [Hin|Hd].
    - apply repeat_spec in Hin. rewrite Hin.
      destruct (nth_in_or_default pos (repeat (@empty_mslot K V) nslots) empty_mslot) as [Hin2|Hd2]; [apply repeat_spec in Hin2; exact Hin2 | exact Hd2].
    - rewrite Hd. destruct pos; reflexivity.
  Qed.

  Lemma LI_init len0 todo : 0 < len0 -> (forall t, Forall sokop (todo t)) -> LI (sinit nslots seeds nstripes len0 todo) G0.
  Proof.
    intros Hl Htodo. constructor.
    - apply (SJ_init eqd hash idx tophash nslots seeds grow_needed shrink_policy nstripes minlen grow_only Hslots Hnslots Hminlen len0 todo Hl).
    - split; intros t; [reflexivity | exact I].
    - intros t. exact I.
    - exact Htodo.
    - split; [reflexivity | intros j _; split; reflexivity].
    - exact I.
    - intros j Hj. cbn in Hj. assert (j = 0) by lia. subst j. intros k v. split.
      + intros Hv. exfalso. exact (svis_new _ _ k v Hv).
      + discriminate.
    - intros j Hj. cbn in Hj. lia.
    - intros t. cbn. constructor.
    - intros t. right. reflexivity.
    - intros t j Ho. discriminate Ho.
    - intros t k lc tab h o Hr. discriminate Hr.
  Qed.

  Theorem LI_reachable len0 todo sched : 0 < len0 -> (forall t, Forall sokop (todo t)) ->
    exists G, LI (fst (srun (sinit nslots seeds nstripes len0 todo) sched)) G
      /\ erase sop sres (gI G (h_cur (fst (srun (sinit nslots seeds nstripes len0 todo) sched))))
         = shist (snd (srun (sinit nslots seeds nstripes len0 todo) sched)).
  Proof.
    intros Hl Htodo. destruct (LI_srun sched _ G0 (LI_init len0 todo Hl Htodo)) as [G' [HL E]].
    exists G'. split; [exact HL | exact E].
  Qed.

  (* under the scope hypothesis no Range frame ever exists, and no thread is ever inside a Range or a Size *)
  Theorem no_frames len0 todo sched : 0 < len0 -> (forall t, Forall sokop (todo t)) ->
    NR (fst (srun (sinit nslots seeds nstripes len0 todo) sched)).
  Proof. intros Hl Htodo. destruct (LI_reachable len0 todo sched Hl Htodo) as [G [HL _]]. apply (li_nr _ G HL). Qed.

  (* every run whose calls are Load / Compute / Clear is linearizable with respect to an ordinary map *)
  Theorem smachine_linearizable len0 todo sched : 0 < len0 -> (forall t, Forall sokop (todo t)) ->
    linearizable sop sres amap sspec aempty (shist (snd (srun (sinit nslots seeds nstripes len0 todo) sched))).
  Proof.
    intros Hl Htodo.
    destruct (LI_srun sched _ G0 (LI_init len0 todo Hl Htodo)) as [G' [HL E]].
    set (s' := fst (srun (sinit nslots seeds nstripes len0 todo) sched)) in *.
    exists (gI G' (h_cur s')). split; [|split].
    - rewrite E. reflexivity.
    - apply (tproto_wf ML). intros t. exists (gst G' t). apply (li_tp s' G' HL t).
    - apply (lok_legal ML). apply (li_lok s' G' HL).
  Qed.

End SLinInv.

(* ---------------- the statements under rhyps ---------------- *)
Section Final.
  Context {K V : Type}.
  Variable eqd : forall a b : K, {a = b} + {a <> b}.
  Variable hash : K -> N -> N.
  Variable idx : N -> nat -> nat.
  Variable tophash : N -> N.
  Variable nslots : nat.
  Variable seeds : nat -> N.
  Variable grow_needed shrink_policy : nat -> Z -> bool.
  Variable nstripes : nat -> nat.
  Variable minlen : nat.
  Variable grow_only : bool.

  Notation srun := (@srun K V eqd hash idx tophash nslots seeds grow_needed shrink_policy nstripes minlen grow_only).
  Notation rhyps := (@XS_resize.rhyps K hash idx tophash nslots minlen).

  (* every run of XMachineS whose calls are Load / Compute / Clear is linearizable with respect to an ordinary map *)
  Theorem smachine_linearizable_proof :
    rhyps -> forall len0 todo sched, 0 < len0 -> (forall t, Forall sokop (todo t)) ->
    linearizable (@sop K V) (@sres V) (X_linpoints.amap K V) (sspec eqd) X_linpoints.aempty
      (shist (snd (srun (sinit nslots seeds nstripes len0 todo) sched))).
  Proof.
    intros [[H1 H2] [H3 [H4 H5]]] len0 todo sched Hl Htodo.
    exact (smachine_linearizable eqd hash idx tophash nslots seeds grow_needed shrink_policy nstripes minlen grow_only
             H1 H2 H3 H4 H5 len0 todo sched Hl Htodo).
  Qed.

  (* under the scope hypothesis there is never a Range frame, hence never a nested call *)
  Theorem s_no_frames_proof :
    rhyps -> forall len0 todo sched, 0 < len0 -> (forall t, Forall sokop (todo t)) ->
    NR (fst (srun (sinit nslots seeds nstripes len0 todo) sched)).
  Proof.
    intros [[H1 H2] [H3 [H4 H5]]] len0 todo sched Hl Htodo.
    exact (no_frames eqd hash idx tophash nslots seeds grow_needed shrink_policy nstripes minlen grow_only
             H1 H2 H3 H4 H5 len0 todo sched Hl Htodo).
  Qed.

  (* ... and the history is the whole visible behaviour: no SSubInv / SSubRes label is ever emitted *)

  (* the invariant behind it, for every reachable state *)
  Theorem s_LI_reachable_proof :
    rhyps -> forall len0 todo sched, 0 < len0 -> (forall t, Forall sokop (todo t)) ->
    let s := fst (srun (sinit nslots seeds nstripes len0 todo) sched) in
    exists G, LI eqd hash idx tophash nslots nstripes s G
      /\ erase (@sop K V) (@sres V) (LinGen.gI (ML eqd) G (h_cur s)) = shist (snd (srun (sinit nslots seeds nstripes len0 todo) sched)).
  Proof.
    intros [[H1 H2] [H3 [H4 H5]]] len0 todo sched Hl Htodo.
    exact (LI_reachable eqd hash idx tophash nslots seeds grow_needed shrink_policy nstripes minlen grow_only
             H1 H2 H3 H4 H5 len0 todo sched Hl Htodo).
  Qed.
End Final.

Print Assumptions smachine_linearizable_proof.
Print Assumptions s_no_frames_proof.
Print Assumptions s_LI_reachable_proof.

(* ---------------- the executable instance (XExecS), and runs that need the non-fixed linearization points ---------------- *)
From CacheV Require Import TabExec Exec XExec XExecS.
From CacheV.gen Require Import Params.
From CacheV.proofs Require Import XS_cinst XS_rinst.

Theorem smachine_linearizable_instance :
  forall (o : oracle) (sds : list N) (hint : Z) (todo : nat -> list sop_z) sched, oracle64 o ->
    (forall t, Forall sokop (todo t)) ->
    linearizable sop_z (@sres sval) (X_linpoints.amap Z sval) (sspec zeqd) X_linpoints.aempty
      (shist (snd (@srun Z sval zeqd (hash_of o) idx_map tag_map (nslots_of false) (seeds_of sds)
                         grow_needed_s shrink_policy_s nstripes_x (minlen_of_hint false hint) false
                         (s_machine_init sds hint todo) sched))).
Proof.
  intros o sds hint todo sched Ho Htodo.
  apply (smachine_linearizable_proof zeqd (hash_of o) idx_map tag_map (nslots_of false) (seeds_of sds)
           grow_needed_s shrink_policy_s nstripes_x (minlen_of_hint false hint) false (s_instance_rhyps o hint Ho)
           (minlen_of_hint false hint) todo sched); [|exact Htodo].
  destruct (s_instance_rhyps o hint Ho) as [_ [_ [_ H]]]. exact H.
Qed.
Print Assumptions smachine_linearizable_instance.

Definition ex_srun (todo : nat -> list sop_z) (sched : list nat) :=
  @srun Z sval zeqd (hash_of []) idx_map tag_map (nslots_of false) (seeds_of []) grow_needed_s shrink_policy_s nstripes_x
        (minlen_of_hint false 0%Z) false (s_machine_init [] 0%Z todo) sched.

Ltac slin_witness :=
  repeat first [ apply legal_nil | apply legal_inv | apply legal_res
               | eapply legal_lin; [split; [exact I | split; reflexivity]|] ].
Ltac swf_witness :=
  repeat first [ apply wf_nil | apply wf_inv; [reflexivity|] | eapply wf_lin; [reflexivity|] | eapply wf_res; [reflexivity|] ].

(* slot 0 of bucket 0 of table 0: its two pointer cells and its entry (presence bit, top hash) in the bucket word *)
Definition ex_sslot0 (s : mstate_z) : @mslot Z sval * (bool * N) :=
  (sslot_at (stab_at (nslots_of false) nstripes_x s 0) 0 0,
   nth 0 (w_top (sword_at (nslots_of false) (stab_at (nslots_of false) nstripes_x s 0) 0 0)) (false, 0%N)).

(* (A) a Load whose linearization point is none of its own steps (three-store insert, three-store delete).
   Thread 0 stores 7 := 1 and then deletes 7; thread 1 loads 7.  In the five states in which the reader takes a
   step of its call the pair is not visible: at the invocation and at the load of the bucket word the word has the
   presence bit (QW_I1 done) but value and key are nil; at the load of the value pointer the key is still nil; at
   the load of the key pointer and at the second load of the value pointer the presence bit has been cleared by
   the delete's first store (QW_D1).  The pair was visible only between thread 0's key store (QW_I3) and QW_D1.
   The reader returns 1 (second value load: same pointer identity). *)
Definition ex_stodoA (t : nat) : list sop_z :=
  match t with O => [s_store 7%Z (Some 1%Z); s_loadanddelete 7%Z] | S O => [SLoad 7%Z] | _ => [] end.
Definition ex_sA1 := repeat 0 9 ++ [1].                  (* reader about to invoke *)
Definition ex_sA2 := ex_sA1 ++ [1].                      (* ... to load the bucket word *)
Definition ex_sA3 := ex_sA2 ++ [1] ++ [0].               (* ... to load the value pointer *)
Definition ex_sA4 := ex_sA3 ++ [1] ++ repeat 0 11.       (* ... to load the key pointer *)
Definition ex_sA5 := ex_sA4 ++ [1].                      (* ... to load the value pointer again *)
Definition ex_sA := ex_sA5 ++ [1] ++ repeat 0 5.

Definition ex_sinstA : list (iev sop_z (@sres sval)) :=
  [IInv 0 (s_store 7%Z (Some 1%Z)); IInv 1 (SLoad 7%Z);
   ILin 0 (s_store 7%Z (Some 1%Z)) (SRVal (Some (Some 1%Z)) false);
   ILin 1 (SLoad 7%Z) (SRVal (Some (Some 1%Z)) true);                  (* between the insert and the delete *)
   IRes 0 (SRVal (Some (Some 1%Z)) false); IInv 0 (s_loadanddelete 7%Z);
   ILin 0 (s_loadanddelete 7%Z) (SRVal (Some (Some 1%Z)) true);
   IRes 1 (SRVal (Some (Some 1%Z)) true); IRes 0 (SRVal (Some (Some 1%Z)) true)].

Example s_linearizable_read_between_steps :
  map (fun p => let s := fst (ex_srun ex_stodoA p) in (h_pc s 1, ex_sslot0 s)) [ex_sA1; ex_sA2; ex_sA3; ex_sA4; ex_sA5]
  = [(QIdle, ({| ms_key := None; ms_val := None |}, (true, 0%N)));
     (QL_Top 7%Z SLPlain 0 0%N 0, ({| ms_key := None; ms_val := None |}, (true, 0%N)));
     (QL_Val 7%Z SLPlain 0 0%N 0 [0], ({| ms_key := None; ms_val := Some (Some 1%Z, 0) |}, (true, 0%N)));
     (QL_Key 7%Z SLPlain 0 0%N 0 [0] (Some (Some 1%Z, 0)), ({| ms_key := Some 7%Z; ms_val := Some (Some 1%Z, 0) |}, (false, 0%N)));
     (QL_Val2 7%Z SLPlain 0 0%N 0 [0] (Some 1%Z) 0, ({| ms_key := Some 7%Z; ms_val := Some (Some 1%Z, 0) |}, (false, 0%N)))]
  /\ shist (snd (ex_srun ex_stodoA ex_sA))
     = [HInv 0 (s_store 7%Z (Some 1%Z)); HInv 1 (SLoad 7%Z); HRes 0 (SRVal (Some (Some 1%Z)) false);
        HInv 0 (s_loadanddelete 7%Z); HRes 1 (SRVal (Some (Some 1%Z)) true); HRes 0 (SRVal (Some (Some 1%Z)) true)]
  /\ erase _ _ ex_sinstA = shist (snd (ex_srun ex_stodoA ex_sA))
  /\ wf_inst _ _ (fun _ => TIdle) ex_sinstA
  /\ legal _ _ _ (sspec zeqd) X_linpoints.aempty ex_sinstA.
Proof.
  split; [vm_compute; reflexivity|]. split; [vm_compute; reflexivity|]. split; [vm_compute; reflexivity|].
  split; [unfold ex_sinstA; swf_witness | unfold ex_sinstA; slin_witness].
Qed.
Print Assumptions s_linearizable_read_between_steps.

(* (B) a read of a replaced table.  Thread 0 stores 7 := 1; thread 1 invokes Load 7 and loads the table pointer
   (table 0); thread 2 runs a whole Clear (table 1 is current, empty), then loads 7: absent; thread 1 then walks
   table 0 and returns 1.  The Load of thread 1 returns after a later Load has answered "absent": it is
   linearized before the Clear. *)
Definition ex_stodoB (t : nat) : list sop_z :=
  match t with O => [s_store 7%Z (Some 1%Z)] | S O => [SLoad 7%Z] | S (S O) => [SClear; SLoad 7%Z] | _ => [] end.
Definition ex_sB1 := repeat 0 14 ++ [1; 1] ++ repeat 2 12.
Definition ex_sB := ex_sB1 ++ repeat 1 4.

Definition ex_sinstB : list (iev sop_z (@sres sval)) :=
  [IInv 0 (s_store 7%Z (Some 1%Z)); ILin 0 (s_store 7%Z (Some 1%Z)) (SRVal (Some (Some 1%Z)) false); IRes 0 (SRVal (Some (Some 1%Z)) false);
   IInv 1 (SLoad 7%Z); IInv 2 SClear;
   ILin 1 (SLoad 7%Z) (SRVal (Some (Some 1%Z)) true);      (* the read of the replaced table: before ... *)
   ILin 2 SClear SRUnit;                                     (* ... the Clear *)
   IRes 2 SRUnit; IInv 2 (SLoad 7%Z); ILin 2 (SLoad 7%Z) (SRVal None false); IRes 2 (SRVal None false);
   IRes 1 (SRVal (Some (Some 1%Z)) true)].

Example s_linearizable_stale_table_read :
  (let s := fst (ex_srun ex_stodoB ex_sB1) in
   h_pc s 1 = QL_Top 7%Z SLPlain 0 0%N 0 /\ h_pc s 2 = QIdle /\ h_cur s = 1)
  /\ shist (snd (ex_srun ex_stodoB ex_sB))
     = [HInv 0 (s_store 7%Z (Some 1%Z)); HRes 0 (SRVal (Some (Some 1%Z)) false); HInv 1 (SLoad 7%Z); HInv 2 SClear; HRes 2 SRUnit;
        HInv 2 (SLoad 7%Z); HRes 2 (SRVal None false); HRes 1 (SRVal (Some (Some 1%Z)) true)]
  /\ erase _ _ ex_sinstB = shist (snd (ex_srun ex_stodoB ex_sB))
  /\ wf_inst _ _ (fun _ => TIdle) ex_sinstB
  /\ legal _ _ _ (sspec zeqd) X_linpoints.aempty ex_sinstB.
Proof.
  split; [split; [vm_compute; reflexivity | split; vm_compute; reflexivity]|].
  split; [vm_compute; reflexivity|]. split; [vm_compute; reflexivity|].
  split; [unfold ex_sinstB; swf_witness | unfold ex_sinstB; slin_witness].
Qed.
Print Assumptions s_linearizable_stale_table_read.

(* (C) a store overtaken by a Clear.  Thread 0 stores 7 := 1 and has scanned its locked chain (it stands at QW_I0 on
   table 0); thread 1 runs a whole Clear and returns; thread 0 makes its three stores INTO TABLE 0 and returns; a
   later Load of 7 answers "absent".  The store is linearized before the Clear. *)
Definition ex_stodoC (t : nat) : list sop_z :=
  match t with O => [s_store 7%Z (Some 1%Z)] | S O => [SClear; SLoad 7%Z] | _ => [] end.
Definition ex_sC1 := repeat 0 7 ++ repeat 1 9.
Definition ex_sC := ex_sC1 ++ repeat 0 7 ++ repeat 1 3.

Definition ex_sinstC : list (iev sop_z (@sres sval)) :=
  [IInv 0 (s_store 7%Z (Some 1%Z)); IInv 1 SClear;
   ILin 0 (s_store 7%Z (Some 1%Z)) (SRVal (Some (Some 1%Z)) false);      (* the overtaken store: just before ... *)
   ILin 1 SClear SRUnit;                                                    (* ... the Clear, whose publish store came first *)
   IRes 1 SRUnit; IRes 0 (SRVal (Some (Some 1%Z)) false);
   IInv 1 (SLoad 7%Z); ILin 1 (SLoad 7%Z) (SRVal None false); IRes 1 (SRVal None false)].

Example s_linearizable_overtaken_store :
  (let s := fst (ex_srun ex_stodoC ex_sC1) in
   (exists cx, h_pc s 0 = QW_I0 cx 0 0 (Some 1%Z)) /\ h_pc s 1 = QIdle /\ h_cur s = 1)
  /\ shist (snd (ex_srun ex_stodoC ex_sC))
     = [HInv 0 (s_store 7%Z (Some 1%Z)); HInv 1 SClear; HRes 1 SRUnit; HRes 0 (SRVal (Some (Some 1%Z)) false);
        HInv 1 (SLoad 7%Z); HRes 1 (SRVal None false)]
  /\ erase _ _ ex_sinstC = shist (snd (ex_srun ex_stodoC ex_sC))
  /\ wf_inst _ _ (fun _ => TIdle) ex_sinstC
  /\ legal _ _ _ (sspec zeqd) X_linpoints.aempty ex_sinstC.
Proof.
  split; [split; [eexists; vm_compute; reflexivity | split; vm_compute; reflexivity]|].
  split; [vm_compute; reflexivity|]. split; [vm_compute; reflexivity|].
  split; [unfold ex_sinstC; swf_witness | unfold ex_sinstC; slin_witness].
Qed.
Print Assumptions s_linearizable_overtaken_store.

(* (D) Map only: a DECISION overtaken by a Clear.  In map.go the scan of the locked chain comes after the check
   "is this table still current" and takes its own steps.  Thread 1 calls LoadOrStore 7 5: its lock-free lookup misses
   (the map is empty); thread 0 stores 7 := 1; thread 1 locks the bucket, passes both checks on table 0 and stands before
   the scan (QW_Scan); thread 2 runs a whole Clear; thread 1 now scans table 0, FINDS (7, 1) and returns it, loaded,
   without writing; a later Load of 7 answers "absent".  The LoadOrStore takes effect -- as a read -- before the Clear
   that had returned before it decided. *)
Definition ex_stodoD (t : nat) : list sop_z :=
  match t with O => [s_store 7%Z (Some 1%Z)] | S O => [s_loadorstore 7%Z (Some 5%Z)] | S (S O) => [SClear; SLoad 7%Z] | _ => [] end.
Definition ex_sD1 := [1; 1; 1; 1] ++ repeat 0 14 ++ repeat 1 5 ++ repeat 2 9.
Definition ex_sD := ex_sD1 ++ repeat 1 3 ++ repeat 2 3.

Definition ex_sinstD : list (iev sop_z (@sres sval)) :=
  [IInv 1 (s_loadorstore 7%Z (Some 5%Z)); IInv 0 (s_store 7%Z (Some 1%Z));
   ILin 0 (s_store 7%Z (Some 1%Z)) (SRVal (Some (Some 1%Z)) false); IRes 0 (SRVal (Some (Some 1%Z)) false);
   IInv 2 SClear;
   ILin 1 (s_loadorstore 7%Z (Some 5%Z)) (SRVal (Some (Some 1%Z)) true);   (* decided after the Clear returned, takes effect before it *)
   ILin 2 SClear SRUnit; IRes 2 SRUnit;
   IRes 1 (SRVal (Some (Some 1%Z)) true);
   IInv 2 (SLoad 7%Z); ILin 2 (SLoad 7%Z) (SRVal None false); IRes 2 (SRVal None false)].

Example s_linearizable_overtaken_decision :
  (let s := fst (ex_srun ex_stodoD ex_sD1) in
   (exists cx, h_pc s 1 = QW_Scan cx 0 0 None 0) /\ h_pc s 2 = QIdle /\ h_cur s = 1)
  /\ shist (snd (ex_srun ex_stodoD ex_sD))
     = [HInv 1 (s_loadorstore 7%Z (Some 5%Z)); HInv 0 (s_store 7%Z (Some 1%Z)); HRes 0 (SRVal (Some (Some 1%Z)) false);
        HInv 2 SClear; HRes 2 SRUnit; HRes 1 (SRVal (Some (Some 1%Z)) true); HInv 2 (SLoad 7%Z); HRes 2 (SRVal None false)]
  /\ erase _ _ ex_sinstD = shist (snd (ex_srun ex_stodoD ex_sD))
  /\ wf_inst _ _ (fun _ => TIdle) ex_sinstD
  /\ legal _ _ _ (sspec zeqd) X_linpoints.aempty ex_sinstD.
Proof.
  split; [split; [eexists; vm_compute; reflexivity | split; vm_compute; reflexivity]|].
  split; [vm_compute; reflexivity|]. split; [vm_compute; reflexivity|].
  split; [unfold ex_sinstD; swf_witness | unfold ex_sinstD; slin_witness].
Qed.
Print Assumptions s_linearizable_overtaken_decision.
