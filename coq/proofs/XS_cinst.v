(* XS_cinst.v -- the executable instance of XMachineS (XExecS) meets the
   hypotheses of XS_cells.v (and XS_vis.v), provided the oracle's hashes are
   64-bit values; non-vacuity of the intermediate slot states. *)
From CacheV Require Import Base SpecMap XMachineS TabExec Exec XExec XExecS.
From CacheV.gen Require Import Params.
From CacheV.proofs Require Import X_inst XS_lock XS_inv XS_own XS_count XS_inst XS_cells XS_vis.
From Coq Require Import NArith Lia.

(* the hypotheses of XS_cells.v on the parameters *)
Definition shyps_cells {K : Type} (hash : K -> N -> N) (idx : N -> nat -> nat) (tophash : N -> N) (minlen nslots : nat) : Prop :=
  shyps idx minlen nslots /\ (0 < nslots)%nat /\ forall k sd, (tophash (hash k sd) < 1048576)%N.

(* every hash the oracle gives is a uint64 *)
Definition oracle64 (o : oracle) : Prop := Forall (fun e : Z * N * N => (snd e < 2 ^ 64)%N) o.

Lemma hash_of_64 o k sd : oracle64 o -> (hash_of o k sd < 2 ^ 64)%N.
Proof.
  intros H. induction H as [|[[k' s'] h] r Hh Hr IH]; cbn [hash_of]; [reflexivity|].
  destruct ((k =? k')%Z && (sd =? s')%N); [exact Hh | exact IH].
Qed.

Lemma tag_map_20 h : (h < 2 ^ 64)%N -> (tag_map h < 1048576)%N.
Proof.
  intros H. unfold tag_map. rewrite N.shiftr_div_pow2. apply N.div_lt_upper_bound; [discriminate|].
  change (2 ^ 44 * 1048576)%N with (2 ^ 64)%N. exact H.
Qed.

Lemma s_instance_hyps_cells o hint : oracle64 o -> shyps_cells (hash_of o) idx_map tag_map (minlen_of_hint false hint) (nslots_of false).
Proof.
  intros Ho. split; [apply s_instance_hyps|]. split; [vm_compute; lia|]. intros k sd. apply tag_map_20. apply hash_of_64. exact Ho.
Qed.

Notation s_srun o seeds hint todo sched :=
  (fst (srun zeqd (hash_of o) idx_map tag_map (nslots_of false) (seeds_of seeds) grow_needed_s shrink_policy_s
             nstripes_x (minlen_of_hint false hint) false (s_machine_init seeds hint todo) sched)).

(* resize protocol, bucket locks, table discipline and the cell invariant, every reachable state of the extracted machine *)
Theorem s_machine_XB (o : oracle) (seeds : list N) (hint : Z) (todo : nat -> list sop_z) (sched : list nat) : oracle64 o ->
  XB (hash_of o) idx_map tag_map (nslots_of false) nstripes_x (s_srun o seeds hint todo sched).
Proof.
  intros Ho. destruct (s_instance_hyps_cells o hint Ho) as [[H1 [H2 H3]] [H4 H5]]. unfold s_machine_init.
  apply reachable_XB; assumption.
Qed.

Theorem s_machine_XCS (o : oracle) (seeds : list N) (hint : Z) (todo : nat -> list sop_z) (sched : list nat) : oracle64 o ->
  XCS (hash_of o) idx_map tag_map (nslots_of false) nstripes_x (s_srun o seeds hint todo sched).
Proof. intros Ho. apply (s_machine_XB o seeds hint todo sched Ho). Qed.

(* what readers can find in a published table of the extracted machine changes only at linearization stores *)
Theorem s_machine_vis (o : oracle) (seeds : list N) (hint : Z) (todo : nat -> list sop_z) (sched : list nat) t s' ls tab k v : oracle64 o ->
  let s := s_srun o seeds hint todo sched in
  s_machine_step o seeds hint s t = Some (s', ls) -> (tab <= h_cur s)%nat ->
  (svis (hash_of o) idx_map tag_map (nslots_of false) (XS_lock.tabT (nslots_of false) nstripes_x (h_tabs s') tab) k v
   <-> upd_rel (svis (hash_of o) idx_map tag_map (nslots_of false) (XS_lock.tabT (nslots_of false) nstripes_x (h_tabs s) tab))
               (lin_effect (h_pc s t) tab) k v).
Proof.
  intros Ho. destruct (s_instance_hyps_cells o hint Ho) as [[H1 [H2 H3]] [H4 H5]]. unfold s_machine_init, s_machine_step.
  apply reachable_vis; assumption.
Qed.

(* ---------------- non-vacuity: a slot in the middle of an insert, as its writer's program counter tells ---------------- *)

Example cells_nonvacuous :
  let s := ex_sched [0; 0; 0; 0; 0; 0; 0; 0; 0; 0]%nat in
  let sl := nth 0 (schain_of (stab_at 3%nat (fun _ => 1%nat) s 0%nat) 0%nat) empty_mslot in
  (exists cx, h_pc s 0%nat = QW_I3 cx 0%nat 0%nat 1%nat)
  /\ ms_key sl = None /\ ms_val sl = Some (1%nat, 0%nat)
  /\ topent 3%nat (ctops (stab_at 3%nat (fun _ => 1%nat) s 0%nat) 0%nat) 0%nat = (true, 7%N).
Proof. split; [eexists; vm_compute; reflexivity|]. repeat split; vm_compute; reflexivity. Qed.
