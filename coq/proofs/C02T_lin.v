(* C02T_lin.v -- every run of ConcT.v's machine -- any number of threads, any
   schedule of thread moves and TICKS, any choice of what snapshots return -- is
   linearizable in the sense of LinT.v with respect to SpecTTL; along the way
   every thread's trace is accepted by the C05/C06 monitor of C02_lin.v.
   Generic in the method texts [progs]: the one fact used is that every call of
   a concurrent phase starts out [goodT] (C02T_good.v). *)
From CacheV Require Import Base SpecMap Client CacheModel Ops SpecTTL Lin LinT Conc ConcT.
From CacheV.gen Require Import Params.
From CacheV.proofs Require Import C01_sim C01_ops C02_good C02_lin C02_lin_gen LinT_facts C02T_good.

Section LinProofT.
  Context {K V : Type}.
  Variable eqd : forall a b : K, {a = b} + {a <> b}.
  Variable zero : V.
  Variable DFLT : Z.
  Variable CB : cbid.
  Variable progs : cop K V -> prog K V (cres K V).

  Notation item := (item V).
  Notation cop := (cop K V).
  Notation cres := (cres K V).
  Notation goodT := (goodT eqd zero DFLT CB).
  Notation call_okT := (call_okT eqd zero DFLT CB).
  Notation mkT now := (mk now DFLT CB).
  Notation RmT now := (Rm eqd now DFLT CB).
  Notation tconf := (@tconf K V).
  Notation cconf := (@cconf K V).
  Notation tstate := (@tstate K V).
  Notation label := (@label K V).
  Notation lset := (@lset K V).
  Notation lstat := (@lstat K V).
  Notation gh_t := (@gh_t K V).
  Notation legalT := (legalT cop cres (cstate K V) (@st_now K V) (@advance K V) (stampT (K:=K) (V:=V)) (tspecT eqd zero)).
  Notation eraseT := (eraseT cop cres).
  Notation tstatT := (tstatT cop cres).
  Notation mon_run := (mon_run CB).

  (* the one fact about the text *)
  Hypothesis Hinit : forall (o : cop) ci, conc_ok o -> goodT o ci (progs o) ci (eq None) [] 0.

  (* ---------------- the invariant ---------------- *)

  Definition stat_of (o : cop) (ci : Z) (x : lstat) : tstatT :=
    match x with
    | None => TInvokedT o ci
    | Some (r, tau) => TLinearizedT o r tau
    end.

  (* the statuses thread may have in an instrumented history of the REST of the run *)
  Definition okstat (ts : tstate) (ci : Z) (S : lset) (st : tstatT) : Prop :=
    match ts with
    | Idle => st = TIdleT
    | Running o _ => exists x, S x /\ st = stat_of o ci x
    end.

  (* ci: the clock at the invocation; S: the candidates; x: one of them *)
  Definition thr_okT (now : Z) (ts : tstate) (ci : Z) (S : lset) (x : lstat) (g : gh_t) : Prop :=
    match ts with
    | Idle => True
    | Running o p => conc_ok o /\ S x /\ goodT o ci p now S (fst g) (snd g)
    end.

  Record InvT (c : cconf) (now : Z) (cis : nat -> Z) (Ss : nat -> lset) (xs : nat -> lstat)
              (L : amap K item) (gh : nat -> gh_t) : Prop := {
    invT_R : RmT now (c_map c) L;
    invT_thr : forall t, thr_okT now (c_thr c t) (cis t) (Ss t) (xs t) (gh t);
    invT_todo : forall t, Forall conc_ok (c_todo c t);
  }.

  Lemma historyT_TL (ls : list label) : historyT (map TL ls) = embed _ _ (history ls).
  Proof. induction ls as [|[] ls IH]; cbn; auto; f_equal; auto. Qed.

  Lemma historyT_app (a b : list (@tlabel K V)) : historyT (a ++ b) = historyT a ++ historyT b.
  Proof. induction a as [|[[]|] a IH]; cbn; auto; f_equal; auto. Qed.

  Lemma untick_app (a b : list (@tlabel K V)) : untick (a ++ b) = untick a ++ untick b.
  Proof. induction a as [|[|] a IH]; cbn; auto; f_equal; auto. Qed.

  Lemma untick_TL (ls : list label) : untick (map TL ls) = ls.
  Proof. induction ls; cbn; auto; f_equal; auto. Qed.

  Lemma legalT_set s (ist : nat -> tstatT) t st st1 i :
    ist t = st1 -> legalT s ist i -> legalT s (upd (upd ist t st) t st1) i.
  Proof.
    intros E H. eapply legalT_ext; [exact H|]. intros t'. unfold upd. destruct (Nat.eq_dec t' t); congruence.
  Qed.

  Lemma legalT_same s (ist : nat -> tstatT) t st1 i :
    ist t = st1 -> legalT s ist i -> legalT s (upd ist t st1) i.
  Proof.
    intros E H. eapply legalT_ext; [exact H|]. intros t'. unfold upd. destruct (Nat.eq_dec t' t); congruence.
  Qed.

  (* an internal step of thread t that keeps candidates, specification map and physical map *)
  Lemma InvT_internal c now cis Ss xs L gh t (o : cop) p' (S1 : lset) (x1 : lstat) (g1 : gh_t) :
    InvT c now cis Ss xs L gh -> conc_ok o -> S1 x1 -> goodT o (cis t) p' now S1 (fst g1) (snd g1) ->
    InvT (set_thr c t (Running o p')) now (upd cis t (cis t)) (upd Ss t S1) (upd xs t x1) L (upd gh t g1).
  Proof.
    intros HI Hco Hx Hg. constructor; cbn.
    - exact (invT_R _ _ _ _ _ _ _ HI).
    - intros t'. unfold upd. destruct (Nat.eq_dec t' t) as [->|]; [|apply (invT_thr _ _ _ _ _ _ _ HI)].
      cbn. auto.
    - apply (invT_todo _ _ _ _ _ _ _ HI).
  Qed.

  (* one step of a thread: what it does to the invariant, to the instrumented history (read backwards:
     from any status st1 the thread may have AFTER the step to one it may have BEFORE) and to the monitors *)
  Lemma thr_step_inv c now cis Ss xs L gh t orc c1 ls1 :
    InvT c now cis Ss xs L gh ->
    cstep eqd progs now DFLT CB c t orc = Some (c1, ls1) ->
    exists ci1 S1 x1 L1 g1,
      InvT c1 now (upd cis t ci1) (upd Ss t S1) (upd xs t x1) L1 (upd gh t g1)
      /\ (forall st1, okstat (c_thr c1 t) ci1 S1 st1 ->
            exists st marks,
              okstat (c_thr c t) (cis t) (Ss t) st
              /\ eraseT marks = historyT (map TL ls1)
              /\ forall ist i, ist t = st1 -> legalT (mkT now L1) ist i -> legalT (mkT now L) (upd ist t st) (marks ++ i))
      /\ labels_of t ls1
      /\ (forall m', mon_run t (Some (mon_of (c_thr c t) (gh t))) ls1 m' -> m' = Some (mon_of (c_thr c1 t) g1)).
  Proof.
    intros HI Hstep.
    pose proof (invT_thr _ _ _ _ _ _ _ HI t) as Ht. pose proof (invT_R _ _ _ _ _ _ _ HI) as HR.
    unfold Conc.cstep in Hstep.
    destruct (c_thr c t) as [|o p] eqn:Ethr.
    - (* invocation *)
      destruct (c_todo c t) as [|o rest_ops] eqn:Etodo; [discriminate|].
      injection Hstep as <- <-.
      assert (Hco : conc_ok o /\ Forall conc_ok rest_ops).
      { pose proof (invT_todo _ _ _ _ _ _ _ HI t) as Hf. rewrite Etodo in Hf. inversion Hf; auto. }
      destruct Hco as [Hco Hrest].
      exists now, (eq None), None, L, ([], 0%nat).
      split; [|split; [|split]].
      + constructor; cbn.
        * exact HR.
        * intros t'. unfold upd. destruct (Nat.eq_dec t' t) as [->|]; [|apply (invT_thr _ _ _ _ _ _ _ HI)].
          cbn. split; [exact Hco|]. split; [reflexivity|]. apply Hinit. exact Hco.
        * intros t'. unfold upd. destruct (Nat.eq_dec t' t); [exact Hrest | apply (invT_todo _ _ _ _ _ _ _ HI)].
      + cbn [c_thr]. rewrite upd_same. intros st1 [x [<- ->]]. cbn [stat_of].
        exists TIdleT, [ITInv t o]. split; [reflexivity|]. split; [reflexivity|].
        intros ist i Hi Hl. cbn [app]. apply lt_inv; [apply upd_same|].
        cbn [st_now mk]. apply legalT_set; assumption.
      + repeat constructor.
      + intros m' Hr. apply mon_run_single in Hr. cbn in Hr. destruct (Nat.eq_dec t t); [|congruence].
        subst m'. cbn [c_thr]. rewrite upd_same. reflexivity.
    - (* a step of a running call *)
      cbn in Ht. destruct Ht as [Hco [Hx Hg]]. destruct (gh t) as [owe nfn] eqn:Egh. cbn [fst snd] in Hg.
      destruct p as [r|mo k|k|k|d k|k|cb k|e k].
      + (* Ret *)
        injection Hstep as <- <-. cbn [goodT] in Hg. destruct Hg as [Hs [Ho Hf]].
        exists (cis t), (Ss t), (xs t), L, ([], 0%nat).
        split; [|split; [|split]].
        * constructor; cbn.
          -- exact HR.
          -- intros t'. unfold upd. destruct (Nat.eq_dec t' t) as [->|]; [exact I | apply (invT_thr _ _ _ _ _ _ _ HI)].
          -- apply (invT_todo _ _ _ _ _ _ _ HI).
        * cbn [c_thr set_thr]. rewrite upd_same. intros st1 ->.
          destruct (Hs _ Hx) as [tau [Ex Htau]].
          exists (TLinearizedT o r tau), [ITRes t r]. split; [|split; [reflexivity|]].
          -- exists (xs t). split; [exact Hx|]. rewrite Ex. reflexivity.
          -- intros ist i Hi Hl. cbn [app]. eapply lt_res; [apply upd_same | exact Htau |].
             apply legalT_set; assumption.
        * repeat constructor.
        * intros m' Hr. apply mon_run_single in Hr. cbn in Hr. destruct (Nat.eq_dec t t); [|congruence].
          destruct Hr as [[_ [_ ->]]|[Hn _]]; [|exfalso; apply Hn; subst; auto].
          cbn [c_thr set_thr]. rewrite upd_same. reflexivity.
      + (* a map call *)
        assert (Hcases :
          exists m' k' g1, c1 = {| c_map := m'; c_thr := upd (c_thr c) t (Running o k'); c_todo := c_todo c |}
            /\ history ls1 = [] /\ labels_of t ls1
            /\ (forall mm, mon_run t (Some {| m_op := Some o; m_owe := owe; m_nfn := nfn |}) ls1 mm ->
                  mm = Some {| m_op := Some o; m_owe := fst g1; m_nfn := snd g1 |})
            /\ call_okT o (cis t) now (Ss t) m' L (fun S' => goodT o (cis t) k' now S' (fst g1) (snd g1))).
        { cbn [goodT] in Hg. specialize (Hg now (Z.le_refl _) _ _ HR).
          destruct mo.
          8:{ (* the snapshot *)
              injection Hstep as <- <-.
              exists (c_map c), (k (RSnap orc)), (owe, nfn). unfold set_thr.
              split; [reflexivity|]. split; [reflexivity|]. split; [repeat constructor|].
              split. { intros mm Hr. apply mon_run_single in Hr. cbn in Hr. subst. reflexivity. }
              cbn [fst snd]. apply Hg. }
          all: revert Hstep Hg;
               match goal with |- context [map_step eqd ?m ?op] => destruct (map_step eqd m op) as [m' r'] eqn:Ems end;
               intros Hstep Hg; injection Hstep as <- <-;
               match type of Ems with map_step _ _ (to_mop _ ?MO) = _ =>
                 exists m', (k r'), (track eqd CB o (c_map c) m' owe, (nfn + length (fn_events MO r'))%nat) end;
               (split; [reflexivity|]);
               match type of Ems with map_step _ _ (to_mop _ ?MO) = _ =>
                 (split; [exact (step_labels_history t (fn_events MO r') (gone eqd (c_map c) m'))|]);
                 (split; [exact (step_labels_of t (fn_events MO r') (gone eqd (c_map c) m'))|]);
                 (split; [intros mm Hmm; exact (mon_step_labels CB t o owe nfn MO r' (gone eqd (c_map c) m') mm Hmm)|])
               end;
               cbn [fst snd]; exact Hg. }
        destruct Hcases as [m' [k' [g1 [-> [Hh [Hlab [Hmon Hc]]]]]]].
        destruct Hc as [S' [L' [[x' Hx'] [HR' [Hg' Hlink]]]]].
        exists (cis t), S', x', L', g1.
        split; [|split; [|split]].
        * constructor; cbn.
          -- exact HR'.
          -- intros t'. unfold upd. destruct (Nat.eq_dec t' t) as [->|]; [|apply (invT_thr _ _ _ _ _ _ _ HI)].
             cbn. auto.
          -- apply (invT_todo _ _ _ _ _ _ _ HI).
        * cbn [c_thr]. rewrite upd_same. intros st1 [y' [Hy' ->]].
          destruct (Hlink _ Hy') as [y [Hy [[-> ->]|[-> [r [tau [-> [Hsk Hsp]]]]]]]].
          -- (* no mark at this step *)
             exists (stat_of o (cis t) y), []. split; [exists y; auto|]. split; [rewrite historyT_TL, Hh; reflexivity|].
             intros ist i Hi Hl. cbn [app]. apply legalT_same; assumption.
          -- (* the mark *)
             exists (TInvokedT o (cis t)), [ITLin t o tau r]. split; [exists None; auto|].
             split; [rewrite historyT_TL, Hh; reflexivity|].
             intros ist i Hi Hl. cbn [app]. eapply lt_lin; [apply upd_same | exact Hsk | exact Hsp |].
             apply legalT_set; assumption.
        * exact Hlab.
        * intros mm Hr. cbn [mon_of] in Hr. rewrite (Hmon _ Hr). cbn [c_thr]. rewrite upd_same. reflexivity.
      + (* ReadNow: some candidates are discarded *)
        injection Hstep as <- <-. cbn [goodT] in Hg. destruct (Hg now (Z.le_refl _)) as [S' [[x' Hx'] [Hsub Hg']]].
        exists (cis t), S', x', L, (owe, nfn).
        split; [|split; [|split]].
        * apply InvT_internal; auto.
        * cbn [c_thr set_thr]. rewrite upd_same. intros st1 [y [Hy ->]].
          exists (stat_of o (cis t) y), []. split; [exists y; auto|]. split; [reflexivity|].
          intros ist i Hi Hl. cbn [app]. apply legalT_same; assumption.
        * repeat constructor.
        * intros mm Hr. apply mon_run_single in Hr. cbn in Hr. subst mm. cbn [c_thr set_thr]. rewrite upd_same. reflexivity.
      + (* ReadDflt *)
        injection Hstep as <- <-. cbn [goodT] in Hg.
        exists (cis t), (Ss t), (xs t), L, (owe, nfn).
        split; [|split; [|split]].
        * apply InvT_internal; auto.
        * cbn [c_thr set_thr]. rewrite upd_same. intros st1 [y [Hy ->]].
          exists (stat_of o (cis t) y), []. split; [exists y; auto|]. split; [reflexivity|].
          intros ist i Hi Hl. cbn [app]. apply legalT_same; assumption.
        * repeat constructor.
        * intros mm Hr. apply mon_run_single in Hr. cbn in Hr. subst mm. cbn [c_thr set_thr]. rewrite upd_same. reflexivity.
      + discriminate.
      + (* ReadCb *)
        injection Hstep as <- <-. cbn [goodT] in Hg.
        exists (cis t), (Ss t), (xs t), L, (owe, nfn).
        split; [|split; [|split]].
        * apply InvT_internal; auto.
        * cbn [c_thr set_thr]. rewrite upd_same. intros st1 [y [Hy ->]].
          exists (stat_of o (cis t) y), []. split; [exists y; auto|]. split; [reflexivity|].
          intros ist i Hi Hl. cbn [app]. apply legalT_same; assumption.
        * repeat constructor.
        * intros mm Hr. apply mon_run_single in Hr. cbn in Hr. subst mm. cbn [c_thr set_thr]. rewrite upd_same. reflexivity.
      + discriminate.
      + (* Emit *)
        injection Hstep as <- <-. cbn [goodT] in Hg.
        destruct e as [c0 k0 v|k0|k0 v].
        * (* a callback: the thread owes it *)
          destruct Hg as [owe' [Hcb [Ho Hg']]].
          exists (cis t), (Ss t), (xs t), L, (owe', nfn).
          split; [|split; [|split]].
          -- apply InvT_internal; auto.
          -- cbn [c_thr set_thr]. rewrite upd_same. intros st1 [y [Hy ->]].
             exists (stat_of o (cis t) y), []. split; [exists y; auto|]. split; [reflexivity|].
             intros ist i Hi Hl. cbn [app]. apply legalT_same; assumption.
          -- repeat constructor.
          -- intros mm Hr. apply mon_run_single in Hr. cbn in Hr. destruct (Nat.eq_dec t t); [|congruence].
             destruct Hr as [[rest [_ [Hr1 ->]]]|[Hn _]].
             ++ cbn [m_owe] in Hr1. rewrite Ho in Hr1. inversion Hr1; subst. cbn [c_thr set_thr]. rewrite upd_same. reflexivity.
             ++ exfalso. apply (Hn owe'). cbn. auto.
        * contradiction.
        * exists (cis t), (Ss t), (xs t), L, (owe, nfn).
          split; [|split; [|split]].
          -- apply InvT_internal; auto.
          -- cbn [c_thr set_thr]. rewrite upd_same. intros st1 [y [Hy ->]].
             exists (stat_of o (cis t) y), []. split; [exists y; auto|]. split; [reflexivity|].
             intros ist i Hi Hl. cbn [app]. apply legalT_same; assumption.
          -- repeat constructor.
          -- intros mm Hr. apply mon_run_single in Hr. cbn in Hr. subst mm. cbn [c_thr set_thr]. rewrite upd_same. reflexivity.
  Qed.

  (* time passes *)
  Lemma InvT_tick c now cis Ss xs L gh dt : 0 <= dt -> InvT c now cis Ss xs L gh -> InvT c (now + dt) cis Ss xs L gh.
  Proof.
    intros Hdt HI. constructor.
    - apply RmT_tick; [exact Hdt | exact (invT_R _ _ _ _ _ _ _ HI)].
    - intros t. pose proof (invT_thr _ _ _ _ _ _ _ HI t) as Ht. unfold thr_okT in *.
      destruct (c_thr c t) as [|o p]; [exact I|]. destruct Ht as [A [B C]]. split; [exact A|]. split; [exact B|].
      eapply goodT_mono; [|exact C]. lia.
    - exact (invT_todo _ _ _ _ _ _ _ HI).
  Qed.

  Notation trun := (trun eqd progs DFLT CB).

  Theorem runs_linearizableT sched : forall c now cis Ss xs L gh,
    InvT c now cis Ss xs L gh ->
    let '(s', ls) := trun {| t_conf := c; t_now := now |} sched in
    exists ist i,
      (forall t, okstat (c_thr c t) (cis t) (Ss t) (ist t))
      /\ eraseT i = historyT ls /\ legalT (mkT now L) ist i.
  Proof.
    induction sched as [|mv rest IH]; intros c now cis Ss xs L gh HI; cbn [ConcT.trun].
    - exists (fun t => match c_thr c t with Idle => TIdleT | Running o _ => stat_of o (cis t) (xs t) end), [].
      split; [|split; [reflexivity | constructor]].
      intros t. pose proof (invT_thr _ _ _ _ _ _ _ HI t) as Ht. unfold okstat, thr_okT in *.
      destruct (c_thr c t) as [|o p]; [reflexivity|]. exists (xs t). split; [apply Ht | reflexivity].
    - destruct mv as [t orc|dt]; cbn [tstep t_conf t_now].
      + (* a thread moves *)
        destruct (cstep eqd progs now DFLT CB c t orc) as [[c1 ls1]|] eqn:Hstep; [|apply (IH _ _ _ _ _ _ _ HI)].
        destruct (thr_step_inv _ _ _ _ _ _ _ _ _ _ _ HI Hstep) as [ci1 [S1 [x1 [L1 [g1 [HI1 [Hback _]]]]]]].
        specialize (IH _ _ _ _ _ _ _ HI1). destruct (trun {| t_conf := c1; t_now := now |} rest) as [s2 ls2].
        destruct IH as [ist1 [i1 [Hok1 [He1 Hl1]]]].
        pose proof (Hok1 t) as Hokt. rewrite !upd_same in Hokt.
        destruct (Hback _ Hokt) as [st [marks [Hst [Hem Hleg]]]].
        exists (upd ist1 t st), (marks ++ i1). split; [|split].
        * intros t'. unfold upd at 1. destruct (Nat.eq_dec t' t) as [->|Hne]; [exact Hst|].
          specialize (Hok1 t'). rewrite !upd_other in Hok1 by exact Hne.
          rewrite (cstep_other eqd now DFLT CB progs _ _ _ _ _ _ Hstep Hne) in Hok1. exact Hok1.
        * rewrite eraseT_app, historyT_app, Hem, He1. reflexivity.
        * apply Hleg; [reflexivity | exact Hl1].
      + (* time passes *)
        destruct (0 <=? dt) eqn:Hdt; [|apply (IH _ _ _ _ _ _ _ HI)].
        apply Z.leb_le in Hdt.
        specialize (IH _ _ _ _ _ _ _ (InvT_tick _ _ _ _ _ _ _ dt Hdt HI)).
        destruct (trun {| t_conf := c; t_now := now + dt |} rest) as [s2 ls2].
        destruct IH as [ist1 [i1 [Hok1 [He1 Hl1]]]].
        exists ist1, (ITTick dt :: i1). split; [exact Hok1|]. split; [cbn; f_equal; exact He1|].
        apply lt_tick; [exact Hdt|]. exact Hl1.
  Qed.

  Notation mon_accepts := (mon_accepts CB).

  (* C06 / C05 under ticks: the Conc.v labels of the trace never violate a thread's monitor *)
  Theorem runs_monitoredT sched : forall c now cis Ss xs L gh,
    InvT c now cis Ss xs L gh ->
    forall t', mon_accepts t' (mon_of (c_thr c t') (gh t')) (untick (snd (trun {| t_conf := c; t_now := now |} sched))).
  Proof.
    induction sched as [|mv rest IH]; intros c now cis Ss xs L gh HI t'; cbn [ConcT.trun].
    - cbn. intros m' Hr. inversion Hr; subst. discriminate.
    - destruct mv as [t orc|dt]; cbn [tstep t_conf t_now].
      + destruct (cstep eqd progs now DFLT CB c t orc) as [[c1 ls1]|] eqn:Hstep; [|apply (IH _ _ _ _ _ _ _ HI)].
        destruct (thr_step_inv _ _ _ _ _ _ _ _ _ _ _ HI Hstep) as [ci1 [S1 [x1 [L1 [g1 [HI1 [_ [Hlab Hmon]]]]]]]].
        specialize (IH _ _ _ _ _ _ _ HI1 t'). destruct (trun {| t_conf := c1; t_now := now |} rest) as [s2 ls2]. cbn [snd] in *.
        rewrite untick_app, untick_TL.
        intros m' Hr. apply mon_run_app in Hr. destruct Hr as [mx [H1 H2]].
        destruct (Nat.eq_dec t' t) as [->|Hne].
        * rewrite (Hmon _ H1) in H2. rewrite upd_same in IH. exact (IH _ H2).
        * rewrite (mon_other CB _ _ _ _ _ Hne Hlab H1) in H2.
          rewrite upd_other in IH by exact Hne.
          rewrite (cstep_other eqd now DFLT CB progs _ _ _ _ _ _ Hstep Hne) in IH. exact (IH _ H2).
      + destruct (0 <=? dt) eqn:Hdt; [|apply (IH _ _ _ _ _ _ _ HI)].
        apply Z.leb_le in Hdt.
        specialize (IH _ _ _ _ _ _ _ (InvT_tick _ _ _ _ _ _ _ dt Hdt HI) t').
        destruct (trun {| t_conf := c; t_now := now + dt |} rest) as [s2 ls2]. cbn [snd untick app] in *. exact IH.
  Qed.

  Lemma InvT_init now0 (P0 L0 : amap K item) (todo : nat -> list cop) :
    RmT now0 P0 L0 -> (forall t, Forall conc_ok (todo t)) ->
    InvT (cinit P0 todo) now0 (fun _ => now0) (fun _ => eq None) (fun _ => None) L0 (fun _ => ([], 0%nat)).
  Proof. intros HR Htodo. constructor; cbn; auto. Qed.

  (* from any state reached sequentially (physical map P0 related to the specification
     state L0 at the clock now0, e.g. by C01), with every thread idle *)
  Theorem gen_linearizableT now0 (P0 L0 : amap K item) (todo : nat -> list cop) sched :
    RmT now0 P0 L0 -> (forall t, Forall conc_ok (todo t)) ->
    cache_linearizableT eqd zero (mkT now0 L0) (historyT (snd (trun (tinit now0 P0 todo) sched))).
  Proof.
    intros HR Htodo.
    pose proof (runs_linearizableT sched _ _ _ _ _ _ _ (InvT_init now0 P0 L0 todo HR Htodo)) as H.
    unfold tinit. destruct (trun {| t_conf := cinit P0 todo; t_now := now0 |} sched) as [s' ls]. cbn [snd].
    destruct H as [ist [i [Hok [He Hl]]]]. exists i. split; [exact He|].
    eapply legalT_ext; [exact Hl|]. intros t. exact (Hok t).
  Qed.

  Theorem gen_monitoredT now0 (P0 L0 : amap K item) (todo : nat -> list cop) sched t :
    RmT now0 P0 L0 -> (forall t, Forall conc_ok (todo t)) ->
    mon_accepts t mon_idle (untick (snd (trun (tinit now0 P0 todo) sched))).
  Proof.
    intros HR Htodo.
    exact (runs_monitoredT sched _ _ _ _ _ _ _ (InvT_init now0 P0 L0 todo HR Htodo) t).
  Qed.

End LinProofT.
