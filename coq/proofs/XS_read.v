(* XS_read.v -- what a Load that runs alone returns (XMachineS, map.go): a thread
   that is idle with Load k as its next call, run alone from any reachable state
   (every other thread frozen wherever it is), finishes within an explicit bound
   of its own steps, changes nothing shared, and returns v exactly when (k, v)
   is visible in the current table (svis), "absent" otherwise.
   Per matching slot the reader loads the value pointer, the key pointer and the
   value pointer again; run alone nothing changes, so the second value load has
   the identity of the first and the snapshot is accepted at once.
   Also here: XF, an idle thread has no Range frame (so a return is a return to
   the caller, not to a visitor). *)
From CacheV Require Import Base SpecMap XMachineS.
From CacheV.proofs Require Import X_maps XS_inv XS_lock XS_own XS_count XS_cells XS_vis XS_abs.
From Coq Require Import NArith.
Local Open Scope nat_scope.

Section SRead.
  Context {K V : Type}.
  Variable eqd : forall a b : K, {a = b} + {a <> b}.
  Variable hash : K -> N -> N.
  Variable idx : N -> nat -> nat.
  Variable tophash : N -> N.
  Variable nslots : nat.
  Variable seeds : nat -> N.
  Variable grow_needed : nat -> Z -> bool.
  Variable shrink_policy : nat -> Z -> bool.
  Variable nstripes : nat -> nat.
  Variable minlen : nat.
  Variable grow_only : bool.

  Notation mslot := (@mslot K V).
  Notation mtable := (@mtable K V).
  Notation mstate := (@mstate K V).
  Notation spc := (@spc K V).
  Notation rframe := (@rframe K V).
  Notation empty_mslot := (@empty_mslot K V).
  Notation sstep_pc := (@sstep_pc K V eqd hash idx tophash nslots seeds grow_needed shrink_policy nstripes minlen grow_only).
  Notation sstep := (@sstep K V eqd hash idx tophash nslots seeds grow_needed shrink_policy nstripes minlen grow_only).
  Notation srun := (@srun K V eqd hash idx tophash nslots seeds grow_needed shrink_policy nstripes minlen grow_only).
  Notation stab_at := (@stab_at K V nslots nstripes).
  Notation shome := (@shome K V hash idx).
  Notation tabT := (@tabT K V nslots nstripes).
  Notation sinvoke := (@sinvoke K V).

  (* ---------------- XF: an idle thread has no Range frame ---------------- *)

  Definition live (p : spc) : Prop := match p with QIdle | QStart => False | _ => True end.

  Fixpoint clive (p : spc) : Prop :=
    match p with
    | QU_Load _ _ _ a | QU_Store _ _ _ _ a | QA_Add _ _ _ a => live a /\ clive a
    | _ => True
    end.

  Record XF (s : mstate) : Prop := {
    xf_pc : forall t, clive (h_pc s t);
    xf_idle : forall t, ~ live (h_pc s t) -> h_frame s t = None;
    xf_fr : forall t fr, h_frame s t = Some fr -> live (rf_after fr) /\ clive (rf_after fr);
  }.

  Definition FRL (fr : nat -> option rframe) : Prop := forall u f, fr u = Some f -> live (rf_after f) /\ clive (rf_after f).

  Lemma start_cx_live (cx : @scx K V) : live (sstart_cx cx) /\ clive (sstart_cx cx).
  Proof. unfold sstart_cx. destruct (sc_lie cx); split; exact I. Qed.

  Lemma svisits_xf (S0 : mstate) t rest vf after ls : FRL (h_frame S0) -> live after -> clive after ->
    clive (h_pc (fst (svisits S0 t rest vf after ls)) t)
    /\ (~ live (h_pc (fst (svisits S0 t rest vf after ls)) t) -> h_frame (fst (svisits S0 t rest vf after ls)) t = None)
    /\ FRL (h_frame (fst (svisits S0 t rest vf after ls)))
    /\ (forall u, u <> t -> h_frame (fst (svisits S0 t rest vf after ls)) u = h_frame S0 u).
  Proof.
    intros HF Hl Hc. revert ls. induction rest as [|[k v] r IH]; intros ls; cbn [svisits].
    - assert (HF' : FRL (fun t' => if Nat.eq_dec t' t then None else h_frame S0 t')).
      { intros u f. destruct (Nat.eq_dec u t); [discriminate | apply HF]. }
      destruct after; cbn [fst sset_pc sset_frame h_pc h_frame]; (destruct (Nat.eq_dec t t) as [_|Hc0]; [|exfalso; apply Hc0; reflexivity]);
        (split; [first [exact Hc | exact I] | split; [intros _; reflexivity | split; [exact HF' | intros u Hne; destruct (Nat.eq_dec u t); [contradiction | reflexivity]]]]).
    - destruct (vf k v) as [cx|]; [|apply IH]. cbn [fst sset_pc sset_frame h_pc h_frame].
      destruct (Nat.eq_dec t t) as [_|Hc0]; [|exfalso; apply Hc0; reflexivity]. destruct (start_cx_live cx) as [A B].
      split; [exact B|]. split; [intros H; exfalso; apply H; exact A|]. split.
      + intros u f. destruct (Nat.eq_dec u t) as [->|]; [|apply HF]. intros E. inversion E; subst f. cbn [rf_after]. auto.
      + intros u Hne. destruct (Nat.eq_dec u t); [contradiction | reflexivity].
  Qed.

  Lemma sgoto_xf (S0 : mstate) t q ls : FRL (h_frame S0) -> live q -> clive q ->
    clive (h_pc (fst (sgoto S0 t q ls)) t)
    /\ (~ live (h_pc (fst (sgoto S0 t q ls)) t) -> h_frame (fst (sgoto S0 t q ls)) t = None)
    /\ FRL (h_frame (fst (sgoto S0 t q ls)))
    /\ (forall u, u <> t -> h_frame (fst (sgoto S0 t q ls)) u = h_frame S0 u).
  Proof.
    intros HF Hl Hc. destruct q; cbn [sgoto fst sset_pc h_pc h_frame]; try contradiction;
      try (destruct (Nat.eq_dec t t) as [_|Hc0]; [|exfalso; apply Hc0; reflexivity];
           split; [exact Hc | split; [intros H; exfalso; apply H; exact I | split; [exact HF | intros; reflexivity]]]).
    destruct (h_frame S0 t) as [fr|] eqn:E.
    - destruct (HF t fr E) as [A B]. apply svisits_xf; assumption.
    - cbn [fst sset_pc h_pc h_frame]. destruct (Nat.eq_dec t t) as [_|Hc0]; [|exfalso; apply Hc0; reflexivity].
      split; [exact I | split; [intros _; exact E | split; [exact HF | intros; reflexivity]]].
  Qed.

  Lemma some_fst_rd {A B} (g : A * B) a b : Some g = Some (a, b) -> a = fst g.
  Proof. intros H. inversion H. reflexivity. Qed.

  Lemma swake_live (p : spc) : (live p <-> live (swake p)) /\ (clive p -> clive (swake p)).
  Proof. destruct p; cbn; tauto. Qed.

  Lemma after_lock_live (S1 : mstate) t tab b lk :
    live (snd (after_lock hash idx tophash nslots nstripes S1 t tab b lk)) /\ clive (snd (after_lock hash idx tophash nslots nstripes S1 t tab b lk)).
  Proof.
    unfold after_lock. destruct lk; cbv zeta.
    - split; exact I.
    - match goal with |- context [scopy_chain ?a ?b ?c ?d ?e ?f] => destruct (scopy_chain a b c d e f) as [nt cp] end.
      cbn [snd live clive]. destruct (Nat.ltb _ _); repeat split.
    - cbn [snd live clive]. destruct (Nat.ltb _ _); repeat split.
  Qed.

  Lemma XF_step_pc s t p s' ls : XF s -> h_pc s t = p -> sstep_pc s t p = Some (s', ls) -> XF s'.
  Proof.
    intros HX Hp Hs. pose proof (xf_pc s HX t) as Hc. rewrite Hp in Hc. pose proof (xf_fr s HX) as HF.
    assert (Hfin : forall (S0 : mstate) q ls0, h_frame S0 = h_frame s ->
               (forall u, h_pc S0 u = h_pc s u \/ h_pc S0 u = swake (h_pc s u)) -> live q -> clive q -> XF (fst (sgoto S0 t q ls0))).
    { intros S0 q ls0 Ef Ho Hl Hq. destruct (sgoto_xf S0 t q ls0) as [A [B [C D]]]; [rewrite Ef; exact HF | exact Hl | exact Hq|].
      destruct (sgoto_shared S0 t q ls0) as [_ [G _]]. constructor; [| |exact C].
      - intros u. destruct (Nat.eq_dec u t) as [->|Hne]; [exact A|]. rewrite (G u Hne).
        destruct (Ho u) as [E|E]; rewrite E; [apply (xf_pc s HX) | apply swake_live; apply (xf_pc s HX)].
      - intros u Hu. destruct (Nat.eq_dec u t) as [->|Hne]; [apply B; exact Hu|]. rewrite (D u Hne), Ef. apply (xf_idle s HX).
        rewrite (G u Hne) in Hu. destruct (Ho u) as [E|E]; rewrite E in Hu; [exact Hu | intros H; apply Hu; apply (proj1 (proj1 (swake_live (h_pc s u)))); exact H]. }
    destruct p; cbn [XMachineS.sstep_pc] in Hs; cbv zeta in Hs;
      repeat match type of Hs with context [match ?x with _ => _ end] => destruct x eqn:? end;
      try discriminate Hs; apply some_fst_rd in Hs; subst s'; cbn [clive] in Hc.
    all: try match goal with |- context [srun_cont ?kt] => destruct kt; cbn [srun_cont] end.
    all: try (apply Hfin; [reflexivity | intros u; cbn [h_pc sset_tab sset_flags spush_tab sbump]; first [left; reflexivity | right; reflexivity]
                          | first [exact I | tauto] | cbn [clive live]; first [exact I | tauto | (split; [exact I | tauto])] ]).
    - (* the goroutine starts *)
      pose proof (xf_idle s HX t) as Hi. rewrite Hp in Hi. specialize (Hi (fun H => H)).
      constructor; cbn [fst sset_pc h_pc h_frame].
      + intros u. destruct (Nat.eq_dec u t); [exact I | apply (xf_pc s HX)].
      + intros u Hu. destruct (Nat.eq_dec u t) as [->|]; [exact Hi | apply (xf_idle s HX u Hu)].
      + exact HF.
    - match goal with Ha : after_lock _ _ _ _ _ ?S1 ?T ?TAB ?B ?LK = (_, _) |- _ =>
        destruct (after_lock_live S1 T TAB B LK) as [A1 A2];
        destruct (after_lock_ok hash idx tophash nslots nstripes S1 T TAB B LK) as [A3 [A4 _]];
        rewrite Ha in A1, A2, A3, A4; cbn [fst snd] in A1, A2, A3, A4 end.
      apply Hfin; [exact A4 | intros u; left; rewrite A3; reflexivity | exact A1 | exact A2].
    - set (S0 := sset_tab s tab (fun tb => sset_word tb b 0 (fun _ => with_lock v None))).
      destruct (svisits_xf S0 t l o p [SStep t (SKStoreU64 (word_val (with_lock v None)))] HF (proj1 Hc) (proj2 Hc)) as [A [B [C D]]].
      destruct (svisits_shared S0 t l o p [SStep t (SKStoreU64 (word_val (with_lock v None)))]) as [_ [G _]].
      constructor; [| |exact C].
      + intros u. destruct (Nat.eq_dec u t) as [->|Hne]; [exact A | rewrite (G u Hne); apply (xf_pc s HX)].
      + intros u Hu. destruct (Nat.eq_dec u t) as [->|Hne]; [apply B; exact Hu|]. rewrite (D u Hne). apply (xf_idle s HX). rewrite (G u Hne) in Hu. exact Hu.
  Qed.

  Lemma sstart_live (o : @sop K V) : live (sstart_pc o) /\ clive (sstart_pc o).
  Proof. destruct o; cbn [sstart_pc]; try (split; exact I). apply start_cx_live. Qed.

  Lemma XF_invoke s t o rest : XF s -> XF (sinvoke s t o rest).
  Proof.
    intros HX. destruct (sstart_live o) as [A B]. constructor; cbn [XS_count.sinvoke h_pc h_frame].
    - intros u. destruct (Nat.eq_dec u t); [exact B | apply (xf_pc s HX)].
    - intros u Hu. destruct (Nat.eq_dec u t); [exfalso; apply Hu; exact A | apply (xf_idle s HX u Hu)].
    - apply (xf_fr s HX).
  Qed.

  Lemma XF_sstep s t s' ls : XF s -> sstep s t = Some (s', ls) -> XF s'.
  Proof.
    intros HX E. unfold XMachineS.sstep in E.
    destruct (h_pc s t) eqn:Hp; try (eapply XF_step_pc; [exact HX | exact Hp | exact E]).
    destruct (h_todo s t) as [|o rest]; [discriminate|].
    change (match sstep_pc (sinvoke s t o rest) t (sstart_pc o) with
            | Some (s2, ls0) => Some (s2, SInv t o :: ls0)
            | None => Some (sinvoke s t o rest, [SInv t o])
            end = Some (s', ls)) in E.
    destruct (sstep_pc (sinvoke s t o rest) t (sstart_pc o)) as [[s2 ls0]|] eqn:E2.
    - inversion E; subst s2 ls. eapply XF_step_pc; [apply XF_invoke; exact HX | | exact E2]. cbn [XS_count.sinvoke h_pc]. destruct (Nat.eq_dec t t); congruence.
    - inversion E; subst s'. apply XF_invoke. exact HX.
  Qed.

  Theorem reachable_XF len0 todo sched : XF (fst (srun (sinit nslots seeds nstripes len0 todo) sched)).
  Proof.
    assert (H0 : XF (sinit nslots seeds nstripes len0 todo)).
    { constructor; cbn [sinit h_pc h_frame]; [intros t; exact I | intros; reflexivity | intros t fr E; discriminate E]. }
    revert H0. generalize (sinit nslots seeds nstripes len0 todo). induction sched as [|t rest IH]; intros s H; cbn [XMachineS.srun]; [exact H|].
    destruct (sstep s t) as [[s' ls]|] eqn:E.
    - specialize (IH s' (XF_sstep s t s' ls H E)). destruct (XMachineS.srun _ _ _ _ _ _ _ _ _ _ _ s' rest). exact IH.
    - apply IH. exact H.
  Qed.


  (* ---------------- what the reader computes on a chain that does not change ---------------- *)

  Hypothesis Hslots : nslots <= 3.
  Hypothesis Hnslots : 0 < nslots.
  Hypothesis Htop : forall k sd, (tophash (hash k sd) < 1048576)%N.
  Hypothesis Hidx : forall h len, 0 < len -> idx h len < len.
  Hypothesis Hminlen : 0 < minlen.

  Notation XB := (@XB K V hash idx tophash nslots nstripes).
  Notation svis := (@svis K V hash idx tophash nslots).
  Notation sabs := (@sabs K V hash idx tophash nslots nstripes).

  (* the slots of bucket bi still to probe *)
  Fixpoint rd_slots (c : list mslot) (k : K) (bi : nat) (todo : list nat) : option V :=
    match todo with
    | [] => None
    | i :: r =>
        match ms_key (nth (bi * nslots + i) c empty_mslot), ms_val (nth (bi * nslots + i) c empty_mslot) with
        | Some k', Some (v, _) => if eqd k k' then Some v else rd_slots c k bi r
        | _, _ => rd_slots c k bi r
        end
    end.

  Definition rd_todo (ws : list bword) (th : N) (bi : nat) : list nat :=
    filter (top_match th (nth bi ws (empty_bword nslots))) (seq 0 nslots).

  Fixpoint rd_from (c : list mslot) (ws : list bword) (k : K) (th : N) (bi fuel : nat) : option V :=
    match rd_slots c k bi (rd_todo ws th bi) with
    | Some v => Some v
    | None =>
        match fuel with
        | O => None
        | S f => if Nat.ltb (S bi) (snbuckets nslots c) then rd_from c ws k th (S bi) f else None
        end
    end.

  Definition rd_next (c : list mslot) (ws : list bword) (k : K) (th : N) (bi : nat) : option V :=
    if Nat.ltb (S bi) (snbuckets nslots c) then rd_from c ws k th (S bi) (snbuckets nslots c - S (S bi)) else None.

  Lemma rd_from_unfold c ws k th bi :
    rd_from c ws k th bi (snbuckets nslots c - S bi) =
    match rd_slots c k bi (rd_todo ws th bi) with Some v => Some v | None => rd_next c ws k th bi end.
  Proof.
    unfold rd_next. destruct (snbuckets nslots c - S bi) as [|f] eqn:E; cbn [rd_from].
    - destruct (rd_slots _ _ _ _); [reflexivity|]. destruct (Nat.ltb (S bi) (snbuckets nslots c)) eqn:El; [|reflexivity].
      apply Nat.ltb_lt in El. lia.
    - destruct (rd_slots _ _ _ _); [reflexivity|]. destruct (Nat.ltb (S bi) (snbuckets nslots c)) eqn:El; [|reflexivity].
      replace (snbuckets nslots c - S (S bi)) with f by lia. reflexivity.
  Qed.

  (* the first slot of the list that holds k with a value *)
  Lemma rd_slots_some (c : list mslot) k bi todo v : rd_slots c k bi todo = Some v ->
    exists i id, In i todo /\ ms_key (nth (bi * nslots + i) c empty_mslot) = Some k /\ ms_val (nth (bi * nslots + i) c empty_mslot) = Some (v, id).
  Proof.
    induction todo as [|i r IH]; cbn [rd_slots]; [discriminate|].
    destruct (ms_key (nth (bi * nslots + i) c empty_mslot)) as [k'|] eqn:Ek;
      [destruct (ms_val (nth (bi * nslots + i) c empty_mslot)) as [[v0 id]|] eqn:Ev; [destruct (eqd k k') as [->|]|]|];
      try (intros H; destruct (IH H) as [i0 [id0 [A B]]]; exists i0, id0; split; [right; exact A | exact B]).
    intros H. inversion H; subst. exists i, id. split; [left; reflexivity | auto].
  Qed.

  Lemma rd_slots_hit (c : list mslot) k bi todo i v id : uniq c -> In i todo ->
    ms_key (nth (bi * nslots + i) c empty_mslot) = Some k -> ms_val (nth (bi * nslots + i) c empty_mslot) = Some (v, id) ->
    rd_slots c k bi todo = Some v.
  Proof.
    intros Hu Hin Hk Hv. induction todo as [|j r IH]; [destruct Hin|]. cbn [rd_slots].
    assert (Hlt : forall p k0, ms_key (nth p c empty_mslot) = Some k0 -> p < length c).
    { intros p k0 E. destruct (Nat.lt_ge_cases p (length c)) as [L|L]; [exact L|]. rewrite nth_overflow in E by exact L. discriminate E. }
    destruct (ms_key (nth (bi * nslots + j) c empty_mslot)) as [k'|] eqn:Ek.
    - destruct (eqd k k') as [<-|Hne].
      + assert (Ep : bi * nslots + j = bi * nslots + i) by (apply (Hu _ _ k); eauto).
        rewrite Ep, Hv. destruct (eqd k k); [reflexivity | congruence].
      + destruct Hin as [->|Hin]; [congruence|].
        destruct (ms_val (nth (bi * nslots + j) c empty_mslot)) as [[v0 id0]|]; [destruct (eqd k k'); [contradiction|]|]; apply IH; exact Hin.
    - destruct Hin as [->|Hin]; [congruence | apply IH; exact Hin].
  Qed.

  (* the scan from bucket bi to the last one finds the slot that holds k with a value, among the slots that pass the top-hash filter *)
  Lemma rd_from_spec (c : list mslot) ws k th v : uniq c -> forall fuel bi, bi + S fuel = snbuckets nslots c ->
    (rd_from c ws k th bi fuel = Some v <->
     exists bi' i id, bi <= bi' < snbuckets nslots c /\ In i (rd_todo ws th bi')
                      /\ ms_key (nth (bi' * nslots + i) c empty_mslot) = Some k /\ ms_val (nth (bi' * nslots + i) c empty_mslot) = Some (v, id)).
  Proof.
    intros Hu. induction fuel as [|f IH]; intros bi Hb; cbn [rd_from].
    - destruct (rd_slots c k bi (rd_todo ws th bi)) as [v0|] eqn:E.
      + destruct (rd_slots_some _ _ _ _ _ E) as [i [id [A [B C]]]]. split.
        * intros H. inversion H; subst. exists bi, i, id. split; [lia | auto].
        * intros [bi' [i' [id' [H1 [H2 [H3 H4]]]]]]. assert (bi' = bi) by lia. subst bi'. rewrite (rd_slots_hit c k bi _ i' v id' Hu H2 H3 H4) in E. congruence.
      + split; [discriminate|]. intros [bi' [i' [id' [H1 [H2 [H3 H4]]]]]]. assert (bi' = bi) by lia. subst bi'.
        rewrite (rd_slots_hit c k bi _ i' v id' Hu H2 H3 H4) in E. discriminate E.
    - destruct (rd_slots c k bi (rd_todo ws th bi)) as [v0|] eqn:E.
      + destruct (rd_slots_some _ _ _ _ _ E) as [i [id [A [B C]]]]. split.
        * intros H. inversion H; subst. exists bi, i, id. split; [lia | auto].
        * intros [bi' [i' [id' [H1 [H2 [H3 H4]]]]]].
          assert (Hlt : forall p k0, ms_key (nth p c empty_mslot) = Some k0 -> p < length c).
          { intros p k0 E0. destruct (Nat.lt_ge_cases p (length c)) as [L|L]; [exact L|]. rewrite nth_overflow in E0 by exact L. discriminate E0. }
          assert (Ep : bi' * nslots + i' = bi * nslots + i) by (apply (Hu _ _ k); eauto). rewrite Ep in H4. congruence.
      + assert (El : Nat.ltb (S bi) (snbuckets nslots c) = true) by (apply Nat.ltb_lt; lia). rewrite El. rewrite (IH (S bi)) by lia. split.
        * intros [bi' [i' [id' [H1 H2]]]]. exists bi', i', id'. split; [lia | exact H2].
        * intros [bi' [i' [id' [H1 [H2 [H3 H4]]]]]]. destruct (Nat.eq_dec bi' bi) as [->|Hne].
          -- rewrite (rd_slots_hit c k bi _ i' v id' Hu H2 H3 H4) in E. discriminate E.
          -- exists bi', i', id'. split; [lia | auto].
  Qed.


  (* on a published table the lookup finds exactly what is visible *)
  Lemma rd_vis (tb : mtable) tab hp k v : tb_ok tb -> chain_ok hash idx tophash nslots tb tab (shome tb k) hp ->
    let c := schain_of tb (shome tb k) in let ws := swords_of tb (shome tb k) in
    (rd_from c ws k (ktop hash tophash tb k) 0 (snbuckets nslots c - 1) = Some v <-> svis tb k v).
  Proof.
    intros Hok [[Hsh1 Hsh2] [Hu _]] c ws. fold c in Hsh2, Hu.
    assert (Hnb : snbuckets nslots c = length (ctops tb (shome tb k))).
    { unfold snbuckets. rewrite Hsh2. apply Nat.div_mul. lia. }
    assert (Hpos : 0 < snbuckets nslots c) by (rewrite Hnb; destruct (ctops tb (shome tb k)); [contradiction | cbn; lia]).
    rewrite (rd_from_spec c ws k _ v Hu (snbuckets nslots c - 1) 0) by lia.
    unfold XS_vis.svis, XS_vis.cvis, XS_vis.pvis. fold c. split.
    - intros [bi [i [id [H1 [H2 [H3 H4]]]]]]. unfold rd_todo in H2. apply filter_In in H2. destruct H2 as [H2 H5]. apply in_seq in H2.
      assert (Hp : bi * nslots + i < length c) by (rewrite Hsh2, <- Hnb; nia).
      destruct (topent_bucket nslots Hslots Hnslots tb (shome tb k) bi i (conj Hsh1 Hsh2) Hp ltac:(lia)) as [T1 _].
      exists (bi * nslots + i). split; [exact Hp|]. split; [exact H3|]. split; [exists id; exact H4|].
      rewrite T1. apply top_match_true. exact H5.
    - intros [pos [Hp [H3 [[id H4] H5]]]].
      assert (Ed : pos = (pos / nslots) * nslots + pos mod nslots) by (rewrite Nat.mul_comm; apply Nat.div_mod; lia).
      assert (Hm : pos mod nslots < nslots) by (apply Nat.mod_upper_bound; lia).
      assert (Hbi : pos / nslots < snbuckets nslots c) by (unfold snbuckets; apply Nat.div_lt_upper_bound; [lia|]; rewrite Nat.mul_comm; fold (snbuckets nslots c); rewrite Hnb, <- Hsh2; exact Hp).
      exists (pos / nslots), (pos mod nslots), id. rewrite <- Ed. split; [lia|]. split; [|auto].
      unfold rd_todo. apply filter_In. split; [apply in_seq; lia|].
      rewrite Ed in Hp, H5. destruct (topent_bucket nslots Hslots Hnslots tb (shome tb k) (pos / nslots) (pos mod nslots) (conj Hsh1 Hsh2) Hp Hm) as [T1 _].
      rewrite T1 in H5. apply top_match_false. exact H5.
  Qed.


  (* ---------------- a plain Load, step by step ---------------- *)

  Definition plain_load (p : spc) : bool :=
    match p with
    | QL_Table _ SLPlain | QL_Top _ SLPlain _ _ _ | QL_Val _ SLPlain _ _ _ _ | QL_Key _ SLPlain _ _ _ _ _
    | QL_Val2 _ SLPlain _ _ _ _ _ _ | QL_Next _ SLPlain _ _ _ => true
    | _ => false
    end.

  Definition sres_of (o : option V) : @sres V :=
    match o with Some v => SRVal (Some v) true | None => SRVal None false end.

  Definition rchain (s : mstate) (tab : nat) (h : N) : list mslot := schain_of (stab_at s tab) (idx h (m_len (stab_at s tab))).
  Definition rwords (s : mstate) (tab : nat) (h : N) : list bword := swords_of (stab_at s tab) (idx h (m_len (stab_at s tab))).

  (* the value the lookup at program counter p comes back with, if nothing changes *)
  Definition rd_out (s : mstate) (p : spc) : option V :=
    match p with
    | QL_Table k _ =>
        let tab := h_cur s in let h := hash k (m_seed (stab_at s tab)) in
        rd_from (rchain s tab h) (rwords s tab h) k (tophash h) 0 (snbuckets nslots (rchain s tab h) - 1)
    | QL_Top k _ tab h bi => rd_from (rchain s tab h) (rwords s tab h) k (tophash h) bi (snbuckets nslots (rchain s tab h) - S bi)
    | QL_Val k _ tab h bi todo | QL_Key k _ tab h bi todo _ =>
        match rd_slots (rchain s tab h) k bi todo with Some v => Some v | None => rd_next (rchain s tab h) (rwords s tab h) k (tophash h) bi end
    | QL_Val2 _ _ _ _ _ _ v _ => Some v
    | QL_Next k _ tab h bi => rd_next (rchain s tab h) (rwords s tab h) k (tophash h) bi
    | _ => None
    end.

  (* the reader's locals agree with memory (they do when it runs alone) *)
  Definition rd_ok (s : mstate) (p : spc) : Prop :=
    match p with
    | QL_Val _ _ _ _ _ todo => todo <> []
    | QL_Key _ _ tab h bi todo vp =>
        match todo with i :: _ => vp = ms_val (nth (bi * nslots + i) (rchain s tab h) empty_mslot) | [] => False end
    | QL_Val2 k _ tab h bi todo v id =>
        match todo with
        | i :: _ => ms_key (nth (bi * nslots + i) (rchain s tab h) empty_mslot) = Some k
                    /\ ms_val (nth (bi * nslots + i) (rchain s tab h) empty_mslot) = Some (v, id)
        | [] => False
        end
    | _ => True
    end.

  (* the bound: per bucket one word load, three loads per slot, one load of the next pointer *)
  Definition rdB : nat := 3 * nslots + 2.
  Definition rd_bound (s : mstate) (p : spc) : nat :=
    match p with
    | QL_Table k _ =>
        let tab := h_cur s in let h := hash k (m_seed (stab_at s tab)) in
        1 + rdB + (snbuckets nslots (rchain s tab h) - 1) * rdB
    | QL_Top _ _ tab h bi => rdB + (snbuckets nslots (rchain s tab h) - S bi) * rdB
    | QL_Val _ _ tab h bi todo => 3 * length todo + 1 + (snbuckets nslots (rchain s tab h) - S bi) * rdB
    | QL_Key _ _ tab h bi todo _ => 3 * length todo + (snbuckets nslots (rchain s tab h) - S bi) * rdB
    | QL_Val2 _ _ tab h bi todo _ _ => 3 * length todo - 1 + (snbuckets nslots (rchain s tab h) - S bi) * rdB
    | QL_Next _ _ tab h bi => 1 + (snbuckets nslots (rchain s tab h) - S bi) * rdB
    | _ => 0
    end.

  Lemma filter_len {X} (f : X -> bool) l : length (filter f l) <= length l.
  Proof. induction l as [|x r IH]; cbn; [lia|]. destruct (f x); cbn; lia. Qed.

  Lemma some_pair_rd {A B} (g : A * B) a b : Some g = Some (a, b) -> a = fst g /\ b = snd g.
  Proof. intros H. inversion H. auto. Qed.

  Lemma sgoto_noframe (s : mstate) t q ls : h_frame s t = None ->
    sgoto s t q ls = match q with QRet r => (sset_pc s t QIdle, ls ++ [SRes t r]) | _ => (sset_pc s t q, ls) end.
  Proof. intros H. destruct q; cbn [sgoto]; try reflexivity. rewrite H. reflexivity. Qed.

  Lemma load_step s t p s' ls : plain_load p = true -> rd_ok s p -> h_frame s t = None -> sstep_pc s t p = Some (s', ls) ->
    (plain_load (h_pc s' t) = true /\ rd_ok s (h_pc s' t) /\ rd_out s (h_pc s' t) = rd_out s p /\ rd_bound s (h_pc s' t) < rd_bound s p)
    \/ (h_pc s' t = QIdle /\ In (SRes t (sres_of (rd_out s p))) ls).
  Proof.
    intros Hp Hok Hfr Hs.
    destruct p; try discriminate Hp; destruct lc; try discriminate Hp;
      cbn [XMachineS.sstep_pc] in Hs; cbv zeta in Hs;
      repeat match type of Hs with context [match ?x with _ => _ end] => destruct x eqn:? end;
      try discriminate Hs; apply some_pair_rd in Hs; destruct Hs as [-> ->];
      rewrite (sgoto_noframe s t _ _ Hfr); cbn [fst snd sset_pc h_pc]; (destruct (Nat.eq_dec t t) as [_|Hc]; [|exfalso; apply Hc; reflexivity]).
    all: unfold XMachineS.sslot_at, XMachineS.sword_at in *; try (fold (rchain s tab h) in *; fold (rwords s tab h) in *).
    all: cbn [plain_load rd_ok rd_bound] in *.
    - (* Table -> Top 0 *) left. split; [reflexivity|]. split; [exact I|]. split; [reflexivity|]. unfold rchain. lia.
    - (* Top -> Next: no slot passes the filter *)
      left. split; [reflexivity|]. split; [exact I|]. split; [|unfold rdB; lia].
      cbn [rd_out]. rewrite rd_from_unfold. unfold rd_todo. rewrite Heql. reflexivity.
    - (* Top -> Val *)
      left. split; [reflexivity|]. split; [discriminate|]. split.
      + cbn [rd_out]. rewrite rd_from_unfold. unfold rd_todo. rewrite Heql. reflexivity.
      + pose proof (filter_len (top_match (tophash h) (nth bi (rwords s tab h) (empty_bword nslots))) (seq 0 nslots)) as Hl.
        rewrite Heql, seq_length in Hl. cbn [length] in *. unfold rdB. lia.
    - (* Val -> Key *) left. split; [reflexivity|]. split; [reflexivity|]. split; [reflexivity | lia].
    - (* Key -> Val2: the key matches *)
      left. split; [reflexivity|]. split; [split; [rewrite Heqo; f_equal; symmetry; assumption | symmetry; exact Hok]|]. split.
      + cbn [rd_out rd_slots]. rewrite Heqo, <- Hok. destruct (eqd k k0) as [Hy|Hc]; [reflexivity | contradiction].
      + cbn [length]. lia.
    - (* Key: another key, last slot of the bucket *)
      left. split; [reflexivity|]. cbn [rd_ok rd_out rd_slots]. rewrite Heqo, <- Hok. destruct (eqd k k0) as [Hc|Hy]; [contradiction|].
      split; [exact I|]. split; [reflexivity | cbn [length]; lia].
    - left. split; [reflexivity|]. cbn [rd_ok rd_out rd_slots]. rewrite Heqo, <- Hok. destruct (eqd k k0) as [Hc|Hy]; [contradiction|].
      split; [discriminate|]. split; [reflexivity | cbn [length]; lia].
    - (* Key: the value pointer was nil *)
      left. split; [reflexivity|]. cbn [rd_ok rd_out rd_slots]. rewrite Heqo, <- Hok.
      split; [exact I|]. split; [reflexivity | cbn [length]; lia].
    - left. split; [reflexivity|]. cbn [rd_ok rd_out rd_slots]. rewrite Heqo, <- Hok.
      split; [discriminate|]. split; [reflexivity | cbn [length]; lia].
    - (* Key: the key pointer is nil *)
      left. split; [reflexivity|]. cbn [rd_ok rd_out rd_slots]. rewrite Heqo.
      split; [exact I|]. split; [reflexivity | cbn [length]; lia].
    - left. split; [reflexivity|]. cbn [rd_ok rd_out rd_slots]. rewrite Heqo.
      split; [discriminate|]. split; [reflexivity | cbn [length]; lia].
    - (* Val2: the same value pointer: return *)
      right. split; [reflexivity|]. cbn [rd_out sres_of]. apply in_or_app. right. left. reflexivity.
    - (* Val2: a different identity -- not when the thread runs alone *)
      exfalso. destruct Hok as [_ Hv]. rewrite Hv in Heqb. rewrite Nat.eqb_refl in Heqb. discriminate Heqb.
    - (* Next -> Top (S bi) *)
      left. split; [reflexivity|]. split; [exact I|]. split.
      + cbn [rd_out]. unfold rd_next. rewrite Heqb. reflexivity.
      + apply Nat.ltb_lt in Heqb. replace (snbuckets nslots (rchain s tab h) - S bi) with (S (snbuckets nslots (rchain s tab h) - S (S bi))) by lia.
        cbn [Nat.mul]. lia.
    - (* Next: the chain is over: absent *)
      right. split; [reflexivity|]. cbn [rd_out]. unfold rd_next. rewrite Heqb. cbn [sres_of]. apply in_or_app. right. left. reflexivity.
  Qed.


  Lemma plain_reader (p : spc) : plain_load p = true -> sreader_pc p = true.
  Proof. destruct p; cbn; try discriminate; auto. Qed.

  Lemma rd_ok_todo s (p : spc) : plain_load p = true -> rd_ok s p -> todo_ok p.
  Proof.
    destruct p; cbn; try discriminate; auto; intros _ H;
      match type of H with match ?td with _ => _ end => destruct td; [contradiction | discriminate] end.
  Qed.

  Lemma rd_same (s s' : mstate) p : sshared_eq s s' -> (rd_ok s' p <-> rd_ok s p) /\ rd_out s' p = rd_out s p /\ rd_bound s' p = rd_bound s p.
  Proof.
    intros [E1 [E2 _]]. unfold rd_ok, rd_out, rd_bound, rchain, rwords, XMachineS.stab_at. rewrite E1, E2. split; [tauto | split; reflexivity].
  Qed.

  Lemma reader_frame s t p s' ls : sreader_pc p = true -> h_frame s t = None -> sstep_pc s t p = Some (s', ls) -> h_frame s' = h_frame s.
  Proof.
    intros Hr Hfr Hs. destruct p; try discriminate Hr; cbn [XMachineS.sstep_pc] in Hs; cbv zeta in Hs;
      repeat match type of Hs with context [match ?x with _ => _ end] => destruct x eqn:? end;
      try discriminate Hs; apply some_pair_rd in Hs; destruct Hs as [-> _]; rewrite (sgoto_noframe s t _ _ Hfr);
      match goal with |- h_frame (fst (match ?q with _ => _ end)) = _ => destruct q; reflexivity | |- _ => reflexivity end.
  Qed.

  (* Load k run alone: it returns within [rd_bound] of its own steps what [rd_out] says *)
  Theorem solo_load t : forall n s, plain_load (h_pc s t) = true -> rd_ok s (h_pc s t) -> h_frame s t = None -> rd_bound s (h_pc s t) <= n ->
    exists m, m <= n /\
      h_pc (fst (srun s (repeat t m))) t = QIdle
      /\ In (SRes t (sres_of (rd_out s (h_pc s t)))) (snd (srun s (repeat t m)))
      /\ sshared_eq s (fst (srun s (repeat t m)))
      /\ (forall t', t' <> t -> h_pc (fst (srun s (repeat t m))) t' = h_pc s t').
  Proof.
    induction n as [|n IH]; intros s Hp Hok Hfr Hb.
    - exfalso. destruct (h_pc s t); try discriminate Hp; cbn [rd_bound rd_ok] in Hb, Hok; unfold rdB in *; try nia;
        match type of Hok with match ?td with _ => _ end => destruct td; [contradiction | cbn [length] in Hb; nia] end.
    - pose proof (plain_reader _ Hp) as Hr.
      destruct (sstep_pc s t (h_pc s t)) as [[s1 ls1]|] eqn:E.
      2:{ exfalso. eapply (sreader_enabled eqd hash idx tophash nslots seeds grow_needed shrink_policy nstripes minlen grow_only);
          [exact Hr | apply (rd_ok_todo s _ Hp Hok) | exact E]. }
      destruct (sreader_step eqd hash idx tophash nslots seeds grow_needed shrink_policy nstripes minlen grow_only s t _ s1 ls1 Hr E) as [Hsh [Hoth _]].
      pose proof (reader_frame s t _ s1 ls1 Hr Hfr E) as Hf1.
      assert (Ex : sstep s t = sstep_pc s t (h_pc s t)).
      { unfold XMachineS.sstep. destruct (h_pc s t); try reflexivity. discriminate Hp. }
      destruct (rd_same s s1 (h_pc s1 t) Hsh) as [R1 [R2 R3]].
      destruct (load_step s t _ s1 ls1 Hp Hok Hfr E) as [[Hp1 [Hok1 [Hout Hdec]]]|[Hidle Hin]].
      + destruct (IH s1 Hp1 (proj2 R1 Hok1)) as [m [Hm [F1 [F2 [F3 F4]]]]]; [rewrite Hf1; exact Hfr | rewrite R3; lia|].
        exists (S m). split; [lia|]. cbn [repeat XMachineS.srun]. rewrite Ex, E.
        destruct (XMachineS.srun _ _ _ _ _ _ _ _ _ _ _ s1 (repeat t m)) as [s2 ls2] eqn:E2. cbn [fst snd] in *.
        split; [exact F1|]. split; [apply in_or_app; right; rewrite R2, Hout in F2; exact F2|]. split.
        * destruct Hsh as (A1 & A2 & A3 & A4 & A5 & A6 & A7). destruct F3 as (B1 & B2 & B3 & B4 & B5 & B6 & B7).
          unfold sshared_eq. repeat split; congruence.
        * intros t' Hne. rewrite (F4 t' Hne). apply Hoth. exact Hne.
      + exists 1. split; [lia|]. cbn [repeat XMachineS.srun]. rewrite Ex, E. cbn [fst snd].
        split; [exact Hidle|]. split; [rewrite app_nil_r; exact Hin|]. split; [exact Hsh | exact Hoth].
  Qed.

  (* ---------------- from the call itself ---------------- *)

  (* the invocation is part of the thread's first step *)
  Lemma invoke_run s t o rest m : h_pc s t = QIdle -> h_todo s t = o :: rest ->
    sstep_pc (sinvoke s t o rest) t (sstart_pc o) <> None ->
    srun s (repeat t (S m)) = (fst (srun (sinvoke s t o rest) (repeat t (S m))), SInv t o :: snd (srun (sinvoke s t o rest) (repeat t (S m)))).
  Proof.
    intros Hp Ht Hne. cbn [repeat XMachineS.srun].
    assert (E1 : sstep s t = match sstep_pc (sinvoke s t o rest) t (sstart_pc o) with
                             | Some (s2, ls) => Some (s2, SInv t o :: ls)
                             | None => Some (sinvoke s t o rest, [SInv t o]) end).
    { unfold XMachineS.sstep. rewrite Hp, Ht. reflexivity. }
    assert (Ep : h_pc (sinvoke s t o rest) t = sstart_pc o) by (cbn [XS_count.sinvoke h_pc]; destruct (Nat.eq_dec t t); congruence).
    assert (E2 : sstep (sinvoke s t o rest) t = sstep_pc (sinvoke s t o rest) t (sstart_pc o)).
    { unfold XMachineS.sstep. rewrite Ep. destruct (sstart_live o) as [A _]. destruct (sstart_pc o); try reflexivity. contradiction. }
    rewrite E1, E2. destruct (sstep_pc (sinvoke s t o rest) t (sstart_pc o)) as [[s2 ls]|]; [|congruence].
    destruct (XMachineS.srun _ _ _ _ _ _ _ _ _ _ _ s2 (repeat t m)) as [s3 ls3]. reflexivity.
  Qed.

  (* thread t is idle and its next call is Load k; run alone (everybody else frozen wherever they are) it returns,
     within the bound, what is visible in the current table, and changes nothing shared *)
  Theorem s_call_load_visible s t k rest : XB s -> XF s -> h_pc s t = QIdle -> h_todo s t = SLoad k :: rest ->
    exists m o, m <= rd_bound s (QL_Table k SLPlain)
      /\ h_pc (fst (srun s (repeat t m))) t = QIdle
      /\ In (SRes t (sres_of o)) (snd (srun s (repeat t m)))
      /\ (forall v, o = Some v <-> sabs s k v)
      /\ sshared_eq s (fst (srun s (repeat t m)))
      /\ (forall t', t' <> t -> h_pc (fst (srun s (repeat t m))) t' = h_pc s t').
  Proof.
    intros HB HX Hp Ht. pose proof HB as [HI [HS [HT [HP HC]]]].
    set (s1 := sinvoke s t (SLoad k) rest).
    assert (Ep : h_pc s1 t = QL_Table k SLPlain) by (unfold s1; cbn [XS_count.sinvoke h_pc sstart_pc]; destruct (Nat.eq_dec t t); congruence).
    assert (Hfr : h_frame s1 t = None) by (unfold s1; cbn [XS_count.sinvoke h_frame]; apply (xf_idle s HX); rewrite Hp; exact (fun H => H)).
    destruct (solo_load t (rd_bound s1 (h_pc s1 t)) s1) as [m [Hm [F1 [F2 [F3 F4]]]]]; [rewrite Ep; reflexivity | rewrite Ep; exact I | exact Hfr | lia |].
    rewrite Ep in *.
    destruct m as [|m]; [cbn [repeat XMachineS.srun fst] in F1; rewrite Ep in F1; discriminate F1|].
    exists (S m), (rd_out s1 (QL_Table k SLPlain)). split; [exact Hm|].
    rewrite (invoke_run s t (SLoad k) rest m Hp Ht); [|cbn; discriminate]. fold s1. cbn [fst snd].
    split; [exact F1|]. split; [right; exact F2|]. split; [|split; [exact F3|]].
    - intros v. cbn [rd_out]. unfold rchain, rwords, sabs. change (stab_at s1 (h_cur s1)) with (tabT (h_tabs s) (h_cur s)).
      set (tb := tabT (h_tabs s) (h_cur s)).
      assert (Hok : tb_ok tb) by (apply (tb_ok_tabT nslots nstripes Hslots); apply (xl_tabs _ _ _ _ s HS)).
      assert (Hb : shome tb k < m_len tb) by (apply (shome_lt hash idx Hidx); exact Hok).
      apply (rd_vis tb (h_cur s) _ k v Hok (xcs_ch _ _ _ _ _ s HC (h_cur s) _ (le_n _) Hb)).
    - intros t' Hne. rewrite (F4 t' Hne). unfold s1. cbn [XS_count.sinvoke h_pc]. destruct (Nat.eq_dec t' t); [contradiction | reflexivity].
  Qed.

End SRead.

(* ---------------- the statement, every reachable state ---------------- *)
Section Final.
  Context {K V : Type}.
  Variable eqd : forall a b : K, {a = b} + {a <> b}.
  Variable hash : K -> N -> N.
  Variable idx : N -> nat -> nat.
  Variable tophash : N -> N.
  Variable nslots : nat.
  Variable seeds : nat -> N.
  Variable grow_needed shrink_policy : nat -> Z -> bool.
  Variable nstripes : nat -> nat.
  Variable minlen : nat.
  Variable grow_only : bool.

  Notation srun := (@srun K V eqd hash idx tophash nslots seeds grow_needed shrink_policy nstripes minlen grow_only).

  (* the hypotheses on the parameters: those of XS_cells.v *)
  Definition rdhyps : Prop :=
    (nslots <= 3 /\ 0 < nslots) /\ (forall k sd, (tophash (hash k sd) < 1048576)%N)
    /\ (forall h len, 0 < len -> idx h len < len) /\ 0 < minlen.

  Theorem s_call_load_visible_proof :
    rdhyps -> forall len0 todo sched t k rest, 0 < len0 ->
    let s := fst (srun (sinit nslots seeds nstripes len0 todo) sched) in
    h_pc s t = QIdle -> h_todo s t = SLoad k :: rest ->
    exists m o, m <= rd_bound hash idx nslots nstripes s (QL_Table k SLPlain)
      /\ h_pc (fst (srun s (repeat t m))) t = QIdle
      /\ In (SRes t (sres_of o)) (snd (srun s (repeat t m)))
      /\ (forall v, o = Some v <-> sabs hash idx tophash nslots nstripes s k v)
      /\ sshared_eq s (fst (srun s (repeat t m)))
      /\ (forall t', t' <> t -> h_pc (fst (srun s (repeat t m))) t' = h_pc s t').
  Proof.
    intros [[H1 H2] [H3 [H4 H5]]] len0 todo sched t k rest Hl s Hp Ht.
    apply (s_call_load_visible eqd hash idx tophash nslots seeds grow_needed shrink_policy nstripes minlen grow_only H1 H2 H4 H5 s t k rest); try assumption.
    - apply (reachable_XB eqd hash idx tophash nslots seeds grow_needed shrink_policy nstripes minlen grow_only H1 H2 H3 H4 H5 len0 todo sched Hl).
    - apply (reachable_XF eqd hash idx tophash nslots seeds grow_needed shrink_policy nstripes minlen grow_only len0 todo sched).
  Qed.
End Final.
