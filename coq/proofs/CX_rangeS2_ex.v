(* CX_rangeS2_ex.v -- non-vacuity of C07XS (b) over XMachineS: the run of CX_rangeS_ex.v (thread 0: Set 1,
   Set 2, Range; thread 1's Set 3 runs whole while the traversal stands between buckets 5 and 10; the Range
   returns [(1,10); (2,20); (3,30)]) satisfies [range_callS], and cacheS_range_no_phantom / _tab apply:
   (3, 30), stored during the call, was seen in the walked table while the traversal was under way. *)
From CacheV Require Import Base SpecMap Client CacheModel CacheOfModel Ops SpecTTL Lin Conc XMachineS TabExec Exec XExec XExecS.
From CacheV.gen Require Import Params.
From CacheV.proofs Require Import X_inst XS_cinst XS_rdinst XS_range CX_compose CX_map CX_product2 CX_map2 CX_range CX_rangeS CX_rangeS2 CX_rangeS_ex.
From Coq Require Import NArith ZArith List.
Import ListNotations.
Local Open Scope nat_scope.

Definition sx_call l :=
  range_callS zeqd (hash_of sx_or) idx_map tag_map (nslots_of false) (seeds_of []) grow_needed_s shrink_policy_s nstripes_x sx_len false sx_len
              (@ssup Z Z) 100%Z 0%Z None sx_todo sx_s0 sx_w3 0 sx_ft [] [] (prog_cache zeqd 0%Z) l.
Definition sx_conf a :=
  conf_atS zeqd (hash_of sx_or) idx_map tag_map (nslots_of false) (seeds_of []) grow_needed_s shrink_policy_s nstripes_x sx_len false sx_len
           (@ssup Z Z) 100%Z 0%Z None sx_todo sx_s0 (prog_cache zeqd 0%Z) a.

Lemma sx_oracle64 : oracle64 sx_or.
Proof. unfold oracle64, sx_or. repeat (constructor; [reflexivity|]). constructor. Qed.

Example rangeS_overlap_call : sx_call [(1%Z, 10%Z); (2%Z, 20%Z); (3%Z, 30%Z)].
Proof.
  split.
  - exact rangeS_overlap_window.
  - vm_compute. right. left. reflexivity.
Qed.

Example rangeS_overlap_no_phantom :
  exists tab, (exists a0 b0, sx_w3 = a0 ++ b0 /\ h_cur (p_x _ (sx_conf a0)) = tab)
    /\ exists a b i, sx_w3 = a ++ b
         /\ seen_atS (hash_of sx_or) idx_map tag_map (nslots_of false) nstripes_x 0 (sx_conf a) tab 3%Z i
         /\ iv i = 30%Z /\ expiredWithNow 100%Z i = false.
Proof.
  destruct (cacheS_range_no_phantom_tab zeqd (hash_of sx_or) idx_map tag_map (nslots_of false) (seeds_of []) grow_needed_s shrink_policy_s nstripes_x
              sx_len false sx_len 0%Z (s_instance_rdhyps sx_or 0%Z sx_oracle64) (minlen_of_hint_pos false 0%Z) (@ssup Z Z) eq_refl
              100%Z 0%Z None sx_todo sx_s0 sx_w3 0 sx_ft [] [] _ rangeS_overlap_call) as [tab [HC H]].
  exists tab. split; [exact HC|]. apply (H 3%Z 30%Z). right. right. left. reflexivity.
Qed.

Print Assumptions rangeS_overlap_no_phantom.
