(* C08X_map.v -- C08 at the cache level over XMachineS (the string-keyed Map of xsync_map.go's
   cache): C08X_mapof.v's development with XS_size.quiescent_size_exact in the place of
   X_count.quiescent_size_exact_proof.  [cache_count_quiescent_over_smachine]. *)
From CacheV Require Import Base SpecMap Client CacheModel CacheOfModel Ops SpecTTL Lin Conc.
From CacheV.gen Require Import Params.
From CacheV.proofs Require C01_sim C01_ops C02_good X_linpoints.
From CacheV.proofs Require Import XS_resize XS_linpoints XS_abs XS_count XS_size CX_trans CX_compose CX_product CX_map C08X_product.
From CacheV Require Import XMachineS.
From Coq Require Import NArith.
Local Open Scope nat_scope.
Local Arguments p_x {K V XS} p.
Local Arguments p_thr {K V XS} p _.
Local Arguments p_todo {K V XS} p _.

Section CountOverXMachineS.
  Context {K V : Type}.
  Variable eqd : forall a b : K, {a = b} + {a <> b}.
  Variable hash : K -> N -> N.
  Variable idx : N -> nat -> nat.
  Variable tophash : N -> N.
  Variable nslots : nat.
  Variable seeds : nat -> N.
  Variable grow_needed shrink_policy : nat -> Z -> bool.
  Variable nstripes : nat -> nat.
  Variable minlen : nat.
  Variable grow_only : bool.
  Variable len0 : nat.
  Variable progs : cop K V -> prog K V (cres K V).
  Variables NOW DFLT : Z.
  Variable CB : cbid.

  Notation item := (item V).
  Notation xstate := (@mstate K item).
  Notation xop := (@sop K item).
  Notation xres := (@sres item).
  Notation env0 := (Conc.env0 NOW DFLT).
  Notation xp_step := (@sp_step K item eqd hash idx tophash nslots seeds grow_needed shrink_policy nstripes minlen grow_only).
  Notation xrun := (@srun K item eqd hash idx tophash nslots seeds grow_needed shrink_policy nstripes minlen grow_only).
  Notation xstep := (@sstep K item eqd hash idx tophash nslots seeds grow_needed shrink_policy nstripes minlen grow_only).
  Notation xp_init := (@sp_init K V nslots seeds nstripes len0).
  Notation mrun := (mrun xstate xop xres xp_step).

  (* every map call but the snapshot goes to the machine; Size's answer is read back *)
  Definition sup8s (o : cmop K V) : bool := match o with CSnapshot => false | _ => true end.
  Definition back8s (o : cmop K V) (r : xres) : imres K V :=
    match o, r with
    | CSize, SRNat z => RSize (Z.to_nat z)
    | _, _ => sback env0 o r
    end.

  Definition c8sstep := pstep progs NOW DFLT CB xstate xop xres xp_step (@h_todo K item) swith_todo (stranslate env0) back8s sup8s.
  Definition c8srun := prun progs NOW DFLT CB xstate xop xres xp_step (@h_todo K item) swith_todo (stranslate env0) back8s sup8s.
  Definition c8sinit (todo : nat -> list (cop K V)) : pconf xstate := pinit xstate xop xp_init todo.

  (* ---------------- XMachine: the rest of the interface ---------------- *)

  Lemma sswith_todo_id (s : xstate) : swith_todo s (h_todo s) = s.
  Proof. destruct s; reflexivity. Qed.

  Lemma sp_mrun_fst sched : forall s, fst (mrun s sched) = fst (xrun s sched).
  Proof.
    induction sched as [|t rest IH]; intros s; [reflexivity|].
    cbn [CX_product.mrun XMachineS.srun]. unfold CX_map.sp_step at 1.
    destruct (xstep s t) as [[s1 ls]|]; [|apply IH].
    specialize (IH s1). destruct (mrun s1 rest) as [s2 h2]. destruct (xrun s1 rest) as [s3 ls3]. exact IH.
  Qed.

  Lemma shist_res (ls : list (@slabel K item)) t r : In (SRes t r) ls -> In (HRes t r) (XS_linpoints.shist ls).
  Proof.
    induction ls as [|l ls IH]; intros H; [contradiction|].
    destruct H as [->|H]; [left; reflexivity|]. destruct l; cbn; auto.
  Qed.

  Lemma srun_app_fst a : forall s b, fst (xrun s (a ++ b)) = fst (xrun (fst (xrun s a)) b).
  Proof.
    induction a as [|t r IH]; intros s b; [reflexivity|].
    cbn [app XMachineS.srun]. destruct (xstep s t) as [[s1 l1]|]; [|apply IH].
    specialize (IH s1 b). destruct (xrun s1 (r ++ b)) as [s2 l2]. destruct (xrun s1 r) as [s3 l3]. cbn [fst] in *. exact IH.
  Qed.

  Hypothesis Hx : szhyps hash idx tophash nslots nstripes minlen.
  Hypothesis Hlen : 0 < len0.

  (* what the machine's Size answers at a state that sits inside a reachable product state:
     thread t idle (started or not), every thread between calls with nothing to do *)
  Lemma smachine_size_quiescent (todo : nat -> list (cop K V)) sched t :
    let p := fst (fst (c8srun (c8sinit todo) sched)) in
    let x := p_x p in
    (forall u, h_todo x u = [] /\ sidle x u) ->
    let tb := stab_at nslots nstripes x (h_cur x) in
    let l := XS_size.tpairs tb in
    (exists m, In (HRes t (SRNat (Z.of_nat (length l))))
                  (snd (mrun (push xstate xop (@h_todo K item) swith_todo x t SSize) (repeat t m))))
    /\ (forall k v, In (k, v) l <-> sabs hash idx tophash nslots nstripes x k v) /\ NoDup (map fst l).
  Proof.
    intros p x Hq tb l.
    set (fa := upd (fun _ : nat => @nil xop) t [SSize]).
    destruct (prophecy_state progs NOW DFLT CB xstate xop xres xp_step (@h_todo K item) swith_todo
                (stranslate env0) back8s sup8s
                (fun s td u => eq_refl) (fun s a b => eq_refl) (@sp_frame K item eqd hash idx tophash nslots seeds grow_needed shrink_policy nstripes minlen grow_only)
                sched (c8sinit todo) fa) as [fut Hf].
    destruct (Hf (xp_init fut)) as [sched' [s'' [Hrun Ha]]].
    { exists fut. split; [reflexivity|]. intros u. reflexivity. }
    fold c8srun in Ha, Hrun. fold p in Ha. fold x in Ha.
    destruct Ha as [td [Es Htd]].
    assert (Er : s'' = fst (xrun (xp_init fut) sched')) by (rewrite <- sp_mrun_fst, Hrun; reflexivity).
    assert (Htd' : forall u, td u = fa u) by (intros u; rewrite Htd; destruct (Hq u) as [-> _]; reflexivity).
    subst s''.
    assert (Hpush : forall m, snd (mrun (push xstate xop (@h_todo K item) swith_todo x t SSize) (repeat t m))
                              = snd (mrun (swith_todo x td) (repeat t m))).
    { intros m. unfold CX_product.push.
      apply (todo_ext xstate xop xres xp_step (@h_todo K item) swith_todo (fun s td u => eq_refl) (fun s a b => eq_refl) sswith_todo_id
               (@sp_frame K item eqd hash idx tophash nslots seeds grow_needed shrink_policy nstripes minlen grow_only)).
      intros u. rewrite Htd'. unfold fa, upd. destruct (Nat.eq_dec u t) as [->|]; [destruct (Hq t) as [-> _]; reflexivity | destruct (Hq u) as [-> _]; reflexivity]. }
    assert (Hmod : forall s3 : xstate, (forall u, h_pc s3 u = h_pc x u \/ h_pc s3 u = XMachineS.QIdle) -> forall u, XS_size.modifying (h_pc s3 u) = false).
    { intros s3 H3 u. destruct (H3 u) as [E|E]; rewrite E; [|reflexivity]. destruct (Hq u) as [_ [E'|E']]; rewrite E'; reflexivity. }
    destruct (Hq t) as [_ [Ept|Ept]].
    - (* the goroutine has not run yet: its first step starts it *)
      set (s3 := sset_pc (swith_todo x td) t XMachineS.QIdle).
      assert (Est : xstep (swith_todo x td) t = Some (s3, [SStep t SKStart])).
      { unfold XMachineS.sstep. cbn [swith_todo h_pc]. rewrite Ept. reflexivity. }
      assert (Er3 : s3 = fst (xrun (xp_init fut) (sched' ++ [t]))).
      { rewrite srun_app_fst.
        rewrite <- Er. cbn [XMachineS.srun]. rewrite Est. reflexivity. }
      pose proof (XS_size.quiescent_size_exact eqd hash idx tophash nslots seeds grow_needed shrink_policy nstripes minlen grow_only
                    Hx len0 fut (sched' ++ [t]) t [] Hlen) as Hc.
      cbv zeta in Hc. unfold CX_map.sp_init in Er3. rewrite <- Er3 in Hc.
      destruct Hc as [H1 [H2 [H3 _]]].
      + apply Hmod. intros u. unfold s3. cbn [sset_pc h_pc swith_todo].
        destruct (Nat.eq_dec u t); [right; reflexivity | left; reflexivity].
      + unfold s3. cbn [sset_pc h_pc]. destruct (Nat.eq_dec t t); congruence.
      + unfold s3. cbn [sset_pc h_todo swith_todo]. rewrite Htd'. unfold fa. apply upd_same.
      + assert (Etb : stab_at nslots nstripes s3 (h_cur s3) = tb) by reflexivity.
        rewrite Etb in H1, H2, H3. split; [|split; [exact H2 | exact H3]].
        exists (S (S (snstr tb))). rewrite Hpush.
        rewrite (sp_mrun eqd hash idx tophash nslots seeds grow_needed shrink_policy nstripes minlen grow_only).
        apply shist_res.
        assert (Hcons : forall rest, snd (xrun (swith_todo x td) (t :: rest)) = [SStep t SKStart] ++ snd (xrun s3 rest)).
        { intros rest. cbn [XMachineS.srun]. rewrite Est. destruct (xrun s3 rest); reflexivity. }
        change (repeat t (S (S (snstr tb)))) with (t :: repeat t (S (snstr tb))). rewrite Hcons. right. exact H1.
    - pose proof (XS_size.quiescent_size_exact eqd hash idx tophash nslots seeds grow_needed shrink_policy nstripes minlen grow_only
                    Hx len0 fut sched' t [] Hlen) as Hc.
      cbv zeta in Hc. unfold CX_map.sp_init in Er. rewrite <- Er in Hc.
      destruct Hc as [H1 [H2 [H3 _]]].
      + apply Hmod. intros u. left. reflexivity.
      + cbn [swith_todo h_pc]. exact Ept.
      + cbn [swith_todo h_todo]. rewrite Htd'. unfold fa. apply upd_same.
      + assert (Etb : stab_at nslots nstripes (swith_todo x td) (h_cur (swith_todo x td)) = tb) by reflexivity.
        rewrite Etb in H1, H2, H3. split; [|split; [exact H2 | exact H3]].
        exists (S (snstr tb)). rewrite Hpush.
        rewrite (sp_mrun eqd hash idx tophash nslots seeds grow_needed shrink_policy nstripes minlen grow_only).
        apply shist_res. exact H1.
  Qed.

  (* ---------------- the cache level ---------------- *)

  (* the entries of a list of pairs that have not expired at NOW, and those that have *)
  Definition live_pairs_s (l : list (K * item)) : list (K * item) :=
    filter (fun kv => negb (expiredWithNow NOW (snd kv))) l.
  Definition dead_pairs_s (l : list (K * item)) : list (K * item) :=
    filter (fun kv => expiredWithNow NOW (snd kv)) l.

  Lemma live_dead_length_s (l : list (K * item)) : length l = length (live_pairs_s l) + length (dead_pairs_s l).
  Proof.
    unfold live_pairs_s, dead_pairs_s. induction l as [|[k i] l IH]; [reflexivity|]. cbn [filter snd].
    destruct (expiredWithNow NOW i); cbn [negb length]; rewrite IH; lia.
  Qed.

  Hypothesis Hcount : progs OCount = MapCall CSize (fun r => match r with RSize n => Ret (CNat n) | _ => Ret (CNat 0) end).

  Theorem count_quiescent_s (todo : nat -> list (cop K V)) sched t rest :
    let p := fst (fst (c8srun (c8sinit todo) sched)) in
    (* no thread is inside a cache call; thread t's next call is Count *)
    (forall u, p_thr p u = CX_product.QIdle) -> p_todo p t = OCount :: rest ->
    let tb := stab_at nslots nstripes (p_x p) (h_cur (p_x p)) in
    let l := XS_size.tpairs tb in
    (* run alone, thread t invokes Count and answers the number of pairs of the current table ... *)
    (exists j, let r := c8srun p (repeat (t, []) j) in
       cproj (snd (fst r)) = [HInv t OCount; HRes t (CNat (length l))]
       /\ p_thr (fst (fst r)) t = CX_product.QIdle /\ p_todo (fst (fst r)) t = rest)
    (* ... which enumerate, without repetition, exactly what lock-free readers can find in it ... *)
    /\ (forall k v, In (k, v) l <-> sabs hash idx tophash nslots nstripes (p_x p) k v) /\ NoDup (map fst l)
    (* ... the live entries plus the expired entries not yet removed *)
    /\ length l = length (live_pairs_s l) + length (dead_pairs_s l)
    /\ length (live_pairs_s l) <= length l.
  Proof.
    intros p Hidle Htd tb l.
    assert (HP : PI xstate xop (@h_todo K item) (@sidle K item) (stranslate env0) sup8s p).
    { apply (prun_PI progs NOW DFLT CB xstate xop xres xp_step (@h_todo K item) swith_todo (@sidle K item)
               (stranslate env0) back8s sup8s (fun s td u => eq_refl) (fun s td u => conj (fun H => H) (fun H => H))
               (@sp_proto K item eqd hash idx tophash nslots seeds grow_needed shrink_policy nstripes minlen grow_only)).
      apply PI_init; [intros td u; reflexivity | intros td u; left; reflexivity]. }
    assert (Hq : forall u, h_todo (p_x p) u = [] /\ sidle (p_x p) u).
    { intros u. pose proof (HP u) as Hu. rewrite (Hidle u) in Hu. exact Hu. }
    destruct (smachine_size_quiescent todo sched t Hq) as [[m Hin] [Hvis Hnd]].
    fold p in Hin, Hvis, Hnd. fold tb in Hin, Hvis, Hnd. fold l in Hin, Hvis, Hnd.
    split; [|split; [exact Hvis | split; [exact Hnd | split; [apply live_dead_length_s | rewrite (live_dead_length_s l); lia]]]].
    destruct (solo_call progs NOW DFLT CB xstate xop xres xp_step (@h_todo K item) swith_todo (@sidle K item)
                (stranslate env0) back8s sup8s (fun s td u => eq_refl) (fun s td u => conj (fun H => H) (fun H => H))
                (@sp_proto K item eqd hash idx tophash nslots seeds grow_needed shrink_policy nstripes minlen grow_only)
                t m p OCount rest CSize _ (SRNat (Z.of_nat (length l))) (CNat (length l))
                HP (Hidle t) Htd Hcount) as [j [A [B [C _]]]].
    - discriminate.
    - reflexivity.
    - cbn [back8s]. rewrite Nat2Z.id. reflexivity.
    - exact Hin.
    - exists j. fold c8srun in A, B, C. auto.
  Qed.

End CountOverXMachineS.

(* ---------------- the statements ---------------- *)

Section FinalCountS.
  Context {K V : Type}.
  Variable eqd : forall a b : K, {a = b} + {a <> b}.
  Variable hash : K -> N -> N.
  Variable idx : N -> nat -> nat.
  Variable tophash : N -> N.
  Variable nslots : nat.
  Variable seeds : nat -> N.
  Variable grow_needed shrink_policy : nat -> Z -> bool.
  Variable nstripes : nat -> nat.
  Variable minlen : nat.
  Variable grow_only : bool.
  Variable zero : V.
  Variables NOW DFLT : Z.
  Variable CB : cbid.

  Notation c8srunP progs len0 := (c8srun eqd hash idx tophash nslots seeds grow_needed shrink_policy nstripes minlen grow_only progs NOW DFLT CB).
  Notation c8sinitP len0 := (c8sinit nslots seeds nstripes len0).

  (* Cache (xsync_map.go's text) over MapOf's machine *)
  Theorem cache_count_quiescent_over_smachine :
    szhyps hash idx tophash nslots nstripes minlen ->
    forall len0 (todo : nat -> list (cop K V)) sched t rest, 0 < len0 ->
    let p := fst (fst (c8srunP (prog_cache eqd zero) len0 (c8sinitP len0 todo) sched)) in
    (forall u, p_thr p u = CX_product.QIdle) -> p_todo p t = OCount :: rest ->
    let tb := stab_at nslots nstripes (p_x p) (h_cur (p_x p)) in
    let l := XS_size.tpairs tb in
    (exists j, let r := c8srunP (prog_cache eqd zero) len0 p (repeat (t, []) j) in
       cproj (snd (fst r)) = [HInv t OCount; HRes t (CNat (length l))]
       /\ p_thr (fst (fst r)) t = CX_product.QIdle /\ p_todo (fst (fst r)) t = rest)
    /\ (forall k v, In (k, v) l <-> sabs hash idx tophash nslots nstripes (p_x p) k v) /\ NoDup (map fst l)
    /\ length l = length (live_pairs_s NOW l) + length (dead_pairs_s NOW l)
    /\ length (live_pairs_s NOW l) <= length l.
  Proof.
    intros Hx len0 todo sched t rest Hlen.
    apply (count_quiescent_s eqd hash idx tophash nslots seeds grow_needed shrink_policy nstripes minlen grow_only len0
             (prog_cache eqd zero) NOW DFLT CB Hx Hlen eq_refl).
  Qed.

  (* CacheOf (xsync_mapof.go's text) *)
  Theorem cacheof_count_quiescent_over_smachine :
    szhyps hash idx tophash nslots nstripes minlen ->
    forall len0 (todo : nat -> list (cop K V)) sched t rest, 0 < len0 ->
    let p := fst (fst (c8srunP (prog_cacheof eqd zero) len0 (c8sinitP len0 todo) sched)) in
    (forall u, p_thr p u = CX_product.QIdle) -> p_todo p t = OCount :: rest ->
    let tb := stab_at nslots nstripes (p_x p) (h_cur (p_x p)) in
    let l := XS_size.tpairs tb in
    (exists j, let r := c8srunP (prog_cacheof eqd zero) len0 p (repeat (t, []) j) in
       cproj (snd (fst r)) = [HInv t OCount; HRes t (CNat (length l))]
       /\ p_thr (fst (fst r)) t = CX_product.QIdle /\ p_todo (fst (fst r)) t = rest)
    /\ (forall k v, In (k, v) l <-> sabs hash idx tophash nslots nstripes (p_x p) k v) /\ NoDup (map fst l)
    /\ length l = length (live_pairs_s NOW l) + length (dead_pairs_s NOW l)
    /\ length (live_pairs_s NOW l) <= length l.
  Proof.
    intros Hx len0 todo sched t rest Hlen.
    apply (count_quiescent_s eqd hash idx tophash nslots seeds grow_needed shrink_policy nstripes minlen grow_only len0
             (prog_cacheof eqd zero) NOW DFLT CB Hx Hlen eq_refl).
  Qed.

  (* the specification side: the pairs of the table are an association list without repeated keys; IF it is
     related to a specification state by C01's simulation relation R (physical entry = specification entry, or
     absent where the specification's entry has expired), SpecTTL allows the answer:
     live entries <= n <= entries of the specification.  (That the table of a quiescent product state IS so
     related to the specification state of the linearized run is not proved here: it needs the abstraction
     function of X_resize.abs_step threaded through CX_compose.) *)
  Theorem count_answer_allowed_s (l : list (K * item V)) (s : cstate K V) :
    C01_sim.R eqd (C02_good.mk NOW DFLT CB l) s -> spec_ok eqd zero s OCount (CNat (length l)).
  Proof.
    intros HR. pose proof (C01_ops.sim_Count eqd zero _ _ HR) as H.
    unfold step_cache, step_with, prog_cache, CacheModel.Count in H. cbn in H. destruct H as [H _]. exact H.
  Qed.

End FinalCountS.

Print Assumptions cache_count_quiescent_over_smachine.
Print Assumptions cacheof_count_quiescent_over_smachine.
