(* XS_resize.v -- a grow / shrink of XMachineS (map.go) loses nothing and
   invents nothing; a Clear empties.
   While the resizer copies (XR):
     - its unpublished table holds exactly the pairs a reader can find in the
       buckets of the current table copied so far (content_upto);
     - no writer is past resizeInProgress() on a bucket already copied (frozen):
       a writer passes that check only while the resizing flag is clear, and the
       flag is set for as long as there is a resizer; the copier cannot pass a
       bucket whose lock a writer holds;
     - the resizer copies from the current table (xr_src);
   hence at the StorePointer that publishes the new table what readers find is
   what they found in the old one -- or nothing, when the resize is a Clear,
   which is recognisable by its continuation (XK, clear_kt). *)
From CacheV Require Import Base SpecMap XMachineS.
From CacheV.proofs Require Import X_maps XS_inv XS_lock XS_own XS_count XS_cells XS_vis XS_abs.
From Coq Require Import NArith.
Local Open Scope nat_scope.

Section SResize.
  Context {K V : Type}.
  Variable eqd : forall a b : K, {a = b} + {a <> b}.
  Variable hash : K -> N -> N.
  Variable idx : N -> nat -> nat.
  Variable tophash : N -> N.
  Variable nslots : nat.
  Variable seeds : nat -> N.
  Variable grow_needed : nat -> Z -> bool.
  Variable shrink_policy : nat -> Z -> bool.
  Variable nstripes : nat -> nat.
  Variable minlen : nat.
  Variable grow_only : bool.

  Hypothesis Hslots : nslots <= 3.
  Hypothesis Hnslots : 0 < nslots.
  Hypothesis Htop : forall k sd, (tophash (hash k sd) < 1048576)%N.
  Hypothesis Hidx : forall h len, 0 < len -> idx h len < len.
  Hypothesis Hminlen : 0 < minlen.

  Notation mslot := (@mslot K V).
  Notation mtable := (@mtable K V).
  Notation mstate := (@mstate K V).
  Notation spc := (@spc K V).
  Notation rframe := (@rframe K V).
  Notation empty_mslot := (@empty_mslot K V).
  Notation sstep_pc := (@sstep_pc K V eqd hash idx tophash nslots seeds grow_needed shrink_policy nstripes minlen grow_only).
  Notation sstep := (@sstep K V eqd hash idx tophash nslots seeds grow_needed shrink_policy nstripes minlen grow_only).
  Notation srun := (@srun K V eqd hash idx tophash nslots seeds grow_needed shrink_policy nstripes minlen grow_only).
  Notation stab_at := (@stab_at K V nslots nstripes).
  Notation shome := (@shome K V hash idx).
  Notation XL := (@XL K V hash idx nslots nstripes).
  Notation sholds := (@sholds K V hash idx nslots nstripes).
  Notation sholdsT := (@sholdsT K V hash idx nslots nstripes).
  Notation lock_of := (@lock_of K V nslots nstripes).
  Notation tabT := (@tabT K V nslots nstripes).
  Notation XB := (@XB K V hash idx tophash nslots nstripes).
  Notation XCS := (@XCS K V hash idx tophash nslots nstripes).
  Notation svis := (@svis K V hash idx tophash nslots).
  Notation sabs := (@sabs K V hash idx tophash nslots nstripes).
  Notation sinvoke := (@sinvoke K V).

  (* ---------------- what a program counter says about a resize ---------------- *)

  (* a writer that has passed resizeInProgress() after taking its bucket lock: (table, key) *)
  Definition committed (p : spc) : option (nat * K) :=
    match p with
    | QW_ChkTab cx tab | QW_Scan cx tab _ _ _ | QW_D1 cx tab _ _ _ _ | QW_D2 cx tab _ _ _ | QW_D3 cx tab _ _ _
    | QW_U1 cx tab _ _ _ | QW_I0 cx tab _ _ | QW_I1 cx tab _ _ _ | QW_I2 cx tab _ _ | QW_I3 cx tab _ _
    | QW_Sum cx tab _ _ | QW_N1 cx tab _ => Some (tab, sc_k cx)
    | _ => None
    end.

  (* (source table, new table, number of source buckets copied) *)
  Fixpoint progress (p : spc) : option (nat * nat * nat) :=
    match p with
    | QK_Load tab b lk | QK_Spin tab b lk | QK_CAS tab b _ lk | QK_Yield tab b lk =>
        match lk with LKCopy _ _ new => Some (tab, new, b) | _ => None end
    | QU_Load _ _ _ a | QU_Store _ _ _ _ a | QA_Add _ _ _ a => progress a
    | _ => None
    end.

  (* the copy is over (or there was none: Clear), the publish is still to come *)
  Fixpoint pubpc (p : spc) : option (scont * nat) :=
    match p with
    | QR_Publish kt new => Some (kt, new)
    | QU_Load _ _ _ a | QU_Store _ _ _ _ a | QA_Add _ _ _ a => pubpc a
    | _ => None
    end.

  (* the table a resizer has read as m.table *)
  Fixpoint srctab (p : spc) : option nat :=
    match p with
    | QR_ShSum _ tab _ _ | QR_Stat _ _ tab => Some tab
    | QK_Load tab _ lk | QK_Spin tab _ lk | QK_CAS tab _ _ lk | QK_Yield tab _ lk =>
        match lk with LKCopy _ _ _ => Some tab | _ => None end
    | QU_Load _ _ _ a | QU_Store _ _ _ _ a | QA_Add _ _ _ a => srctab a
    | _ => None
    end.

  (* ---------------- the continuation of a resize tells whether it is a Clear ---------------- *)

  Definition clear_kt (kt : @scont K V) : Prop := kt = SKReturn SRUnit.

  Definition hk (hn : shint) (kt : @scont K V) : Prop := hn = SHClear <-> clear_kt kt.

  Definition lk_hint (lk : @lockk K V) : Prop := match lk with LKCopy hn kt _ => hk hn kt /\ hn <> SHClear | _ => True end.

  Fixpoint hint_ok (p : spc) : Prop :=
    match p with
    | QR_CAS hn kt | QR_Table hn kt => hk hn kt
    | QR_Stat hn kt _ => hk hn kt /\ hn <> SHClear
    | QK_Load _ _ lk | QK_Spin _ _ lk | QK_CAS _ _ _ lk | QK_Yield _ _ lk => lk_hint lk
    | QT_Lock (Some hn) kt | QT_Load (Some hn) kt | QT_Wait (Some hn) kt | QT_Waiting (Some hn) kt
    | QT_Relock (Some hn) kt | QT_Unlock (Some hn) kt => hk hn kt
    | QR_FastSum _ kt _ _ | QR_ShSum kt _ _ _ => ~ clear_kt kt
    | QU_Load _ _ _ a | QU_Store _ _ _ _ a | QA_Add _ _ _ a => hint_ok a
    | _ => True
    end.

  Record XK (s : mstate) : Prop := {
    xk_pc : forall t, hint_ok (h_pc s t);
    xk_fr : forall t fr, h_frame s t = Some fr -> hint_ok (rf_after fr);
  }.

  (* ---------------- where a thread stands after sgoto / svisits, generically ---------------- *)

  Lemma svisits_P (P : spc -> Prop) (S0 : mstate) t rest vf after ls :
    P QIdle -> (forall cx, P (sstart_cx cx)) -> (forall u f, h_frame S0 u = Some f -> P (rf_after f)) -> P after ->
    P (h_pc (fst (svisits S0 t rest vf after ls)) t) /\ (forall u f, h_frame (fst (svisits S0 t rest vf after ls)) u = Some f -> P (rf_after f)).
  Proof.
    intros P0 P1 HF Ha. revert ls. induction rest as [|[k v] r IH]; intros ls; cbn [svisits].
    - assert (HF' : forall u f, (if Nat.eq_dec u t then None else h_frame S0 u) = Some f -> P (rf_after f)).
      { intros u f. destruct (Nat.eq_dec u t); [discriminate | apply HF]. }
      destruct after; cbn [fst sset_pc sset_frame h_pc h_frame]; (destruct (Nat.eq_dec t t) as [_|Hc]; [|exfalso; apply Hc; reflexivity]);
        (split; [first [exact Ha | exact P0] | exact HF']).
    - destruct (vf k v) as [cx|]; [|apply IH]. cbn [fst sset_pc sset_frame h_pc h_frame].
      destruct (Nat.eq_dec t t) as [_|Hc]; [|exfalso; apply Hc; reflexivity]. split; [apply P1|].
      intros u f. destruct (Nat.eq_dec u t) as [->|]; [|apply HF]. intros E. inversion E; subst f. exact Ha.
  Qed.

  Lemma sgoto_P (P : spc -> Prop) (S0 : mstate) t q ls :
    P QIdle -> (forall cx, P (sstart_cx cx)) -> (forall u f, h_frame S0 u = Some f -> P (rf_after f)) -> P q ->
    P (h_pc (fst (sgoto S0 t q ls)) t) /\ (forall u f, h_frame (fst (sgoto S0 t q ls)) u = Some f -> P (rf_after f)).
  Proof.
    intros P0 P1 HF Hq. destruct q; cbn [sgoto fst sset_pc h_pc h_frame];
      try (destruct (Nat.eq_dec t t) as [_|Hc]; [|exfalso; apply Hc; reflexivity]; split; [exact Hq | exact HF]).
    destruct (h_frame S0 t) as [fr|] eqn:E.
    - apply svisits_P; try assumption. apply (HF t fr E).
    - cbn [fst sset_pc h_pc h_frame]. destruct (Nat.eq_dec t t) as [_|Hc]; [|exfalso; apply Hc; reflexivity]. split; [exact P0 | exact HF].
  Qed.

  Lemma start_cx_hint (cx : @scx K V) : hint_ok (sstart_cx cx).
  Proof. unfold sstart_cx. destruct (sc_lie cx); exact I. Qed.

  Lemma swake_hint (p : spc) : hint_ok p -> hint_ok (swake p).
  Proof. destruct p; cbn; auto. Qed.

  Lemma some_fst_r {A B} (g : A * B) a b : Some g = Some (a, b) -> a = fst g.
  Proof. intros H. inversion H. reflexivity. Qed.

  Lemma after_lock_hint (S1 : mstate) t tab b lk : lk_hint lk ->
    hint_ok (snd (after_lock hash idx tophash nslots nstripes S1 t tab b lk))
    /\ h_frame (fst (after_lock hash idx tophash nslots nstripes S1 t tab b lk)) = h_frame S1
    /\ h_pc (fst (after_lock hash idx tophash nslots nstripes S1 t tab b lk)) = h_pc S1.
  Proof.
    intros H. unfold after_lock. destruct lk; cbv zeta.
    - repeat split.
    - match goal with |- context [scopy_chain ?a ?b ?c ?d ?e ?f] => destruct (scopy_chain a b c d e f) as [nt cp] end.
      cbn [fst snd hint_ok sset_tab h_frame h_pc]. split; [|split; reflexivity]. destruct (Nat.ltb _ _); cbn [hint_ok lk_hint]; [exact H | exact I].
    - cbn [fst snd hint_ok]. split; [|split; reflexivity]. destruct (Nat.ltb _ _); exact I.
  Qed.

  Lemma XK_step_pc s t p s' ls : XK s -> h_pc s t = p -> sstep_pc s t p = Some (s', ls) -> XK s'.
  Proof.
    intros HK Hp Hs. pose proof (xk_pc s HK t) as Ht. rewrite Hp in Ht. pose proof (xk_fr s HK) as HF.
    assert (Hfin : forall (S0 : mstate) q ls0, h_frame S0 = h_frame s ->
               (forall u, h_pc S0 u = h_pc s u \/ h_pc S0 u = swake (h_pc s u)) -> hint_ok q -> XK (fst (sgoto S0 t q ls0))).
    { intros S0 q ls0 Ef Ho Hq. destruct (sgoto_P hint_ok S0 t q ls0 I start_cx_hint) as [A B]; [rewrite Ef; exact HF | exact Hq|].
      destruct (sgoto_shared S0 t q ls0) as [_ [C _]]. constructor; [|exact B].
      intros u. destruct (Nat.eq_dec u t) as [->|Hne]; [exact A|]. rewrite (C u Hne).
      destruct (Ho u) as [E|E]; rewrite E; [apply (xk_pc s HK) | apply swake_hint; apply (xk_pc s HK)]. }
    destruct p; cbn [XMachineS.sstep_pc] in Hs; cbv zeta in Hs;
      repeat match type of Hs with context [match ?x with _ => _ end] => destruct x eqn:? end;
      try discriminate Hs; apply some_fst_r in Hs; subst s'; cbn [hint_ok] in Ht.
    all: try match goal with |- context [srun_cont ?kt] => destruct kt; cbn [srun_cont] end.
    all: try (apply Hfin; [reflexivity | intros u; cbn [h_pc sset_tab sset_flags spush_tab sbump]; first [left; reflexivity | right; reflexivity] |];
              cbn [hint_ok lk_hint]; unfold hk, clear_kt in *; try exact I; try tauto).
    all: try solve [intuition (try discriminate; try congruence)].
    - change (fst (sset_pc s t QIdle, [SStep t SKStart])) with (fst (sgoto s t QIdle [SStep t SKStart])).
      apply Hfin; [reflexivity | intros u; left; reflexivity | exact I].
    - match goal with Ha : after_lock _ _ _ _ _ ?S1 ?T ?TAB ?B ?LK = (_, _) |- _ =>
        destruct (after_lock_hint S1 T TAB B LK Ht) as [A1 [A2 A3]]; rewrite Ha in A1, A2, A3; cbn [fst snd] in A1, A2, A3 end.
      apply Hfin; [exact A2 | intros u; left; rewrite A3; reflexivity | exact A1].
    - set (S0 := sset_tab s tab (fun tb => sset_word tb b 0 (fun _ => with_lock v None))).
      destruct (svisits_P hint_ok S0 t l o p [SStep t (SKStoreU64 (word_val (with_lock v None)))] I start_cx_hint HF Ht) as [A B].
      destruct (svisits_shared S0 t l o p [SStep t (SKStoreU64 (word_val (with_lock v None)))]) as [_ [C _]].
      constructor; [|exact B]. intros u. destruct (Nat.eq_dec u t) as [->|Hne]; [exact A | rewrite (C u Hne); apply (xk_pc s HK)].
  Qed.


  (* ---------------- the pairs of a table ---------------- *)

  Definition tpair (tb : mtable) (k : K) (v : V) : Prop :=
    exists b pos id, b < m_len tb /\ pos < length (schain_of tb b)
                     /\ ms_key (nth pos (schain_of tb b) empty_mslot) = Some k /\ ms_val (nth pos (schain_of tb b) empty_mslot) = Some (v, id).

  Definition inpairs (l : list mslot) (k : K) (v : V) : Prop := exists sl id, In sl l /\ ms_key sl = Some k /\ ms_val sl = Some (v, id).

  (* in a clean table (only free and complete slots) the pairs are what readers find *)
  Lemma clean_svis_tpair (tb : mtable) new k v : tb_ok tb -> clean_table hash idx tophash nslots tb new -> (svis tb k v <-> tpair tb k v).
  Proof.
    intros Hok Hcl. pose proof (shome_lt hash idx Hidx tb k Hok) as Hb. split.
    - intros [pos [H1 [H2 [[id H3] _]]]]. exists (shome tb k), pos, id. auto.
    - intros [b [pos [id [H1 [H2 [H3 H4]]]]]]. destruct (Hcl b H1) as [_ [_ Hsl]].
      destruct (Hsl pos H2) as [[F _]|[[k' [v' [id' [F1 [F2 [F3 F4]]]]]]|[p0 [F1 _]]]]; [congruence | | discriminate F1].
      rewrite H3 in F1. inversion F1; subst k'. rewrite H4 in F2. inversion F2; subst v' id'.
      exists pos. rewrite F4. split; [exact H2|]. split; [exact H3|]. split; [exists id; exact H4 | exact F3].
  Qed.

  Lemma tpair_same (tb tb' : mtable) k v : m_len tb' = m_len tb -> (forall b, schain_of tb' b = schain_of tb b) -> (tpair tb' k v <-> tpair tb k v).
  Proof.
    intros Hl Hc. split; intros [b [pos [id [H1 [H2 [H3 H4]]]]]]; exists b, pos, id.
    - rewrite Hl in H1. rewrite Hc in H2, H3, H4. auto.
    - rewrite Hl. rewrite Hc. auto.
  Qed.

  Lemma tpair_new len seed k v : ~ tpair (new_mtable nslots nstripes len seed : mtable) k v.
  Proof. intros [b [pos [id [H1 [H2 [H3 _]]]]]]. apply (@tkey_new K V nslots nstripes len seed k). exists b, pos. split; [exact H1 | split; [exact H2 | exact H3]]. Qed.

  Lemma first_nil_r (c : list mslot) pos0 pos : first_nil_key c pos0 = Some pos ->
    pos0 <= pos < pos0 + length c /\ ms_key (nth (pos - pos0) c empty_mslot) = None.
  Proof.
    revert pos0. induction c as [|x r IH]; intros pos0; cbn [first_nil_key length]; [discriminate|].
    destruct (ms_key x) eqn:E.
    - intros H. destruct (IH _ H) as [A B]. split; [lia|]. replace (pos - pos0) with (S (pos - S pos0)) by lia. exact B.
    - intros H. inversion H; subst. split; [lia|]. rewrite Nat.sub_diag. exact E.
  Qed.

  (* appendToBucket adds exactly the pair *)
  Lemma sappend_pairs (tb : mtable) k v id k' v' : tb_ok tb ->
    (forall pos, pos < length (schain_of tb (shome tb k)) -> ms_key (nth pos (schain_of tb (shome tb k)) empty_mslot) = None ->
                 ms_val (nth pos (schain_of tb (shome tb k)) empty_mslot) = None) ->
    (tpair (sappend nslots tb (shome tb k) (ktop hash tophash tb k) k (Some (v, id))) k' v' <-> tpair tb k' v' \/ (k' = k /\ v' = v)).
  Proof.
    intros Hok Hfree. pose proof (shome_lt hash idx Hidx tb k Hok) as Hb. destruct Hok as [Hok1 [Hok2 _]].
    set (b := shome tb k) in *. unfold sappend. set (cell := {| ms_key := Some k; ms_val := Some (v, id) |}).
    destruct (first_nil_key (schain_of tb b) 0) as [pos|] eqn:E.
    - destruct (first_nil_r _ _ _ E) as [A B]. rewrite Nat.sub_0_r in B. assert (Hp : pos < length (schain_of tb b)) by lia.
      set (tb' := sset_word (sset_slot tb b pos (fun _ => cell)) b (pos / nslots) (fun w => store_top w (pos mod nslots) (ktop hash tophash tb k))).
      assert (Hc : forall b', schain_of tb' b' = if Nat.eq_dec b' b then supd_nth (schain_of tb b) pos (fun _ => cell) else schain_of tb b').
      { intros b'. unfold tb', schain_of, sset_word, sset_words, sset_slot, sset_chain. cbn [m_chains]. rewrite nth_supd_nth.
        destruct (Nat.eq_dec b' b) as [->|]; [|reflexivity]. unfold m_len in Hb. apply Nat.ltb_lt in Hb. rewrite Hb. reflexivity. }
      assert (Hl : m_len tb' = m_len tb) by (unfold tb', sset_word, sset_words, sset_slot, sset_chain, m_len; cbn [m_chains]; apply supd_nth_length).
      split.
      + intros [b' [pos' [id' [H1 [H2 [H3 H4]]]]]]. rewrite Hl in H1. rewrite Hc in H2, H3, H4. destruct (Nat.eq_dec b' b) as [->|Hne]; [|left; exists b', pos', id'; auto].
        rewrite supd_nth_length in H2. rewrite nth_supd_nth in H3, H4. destruct (Nat.eq_dec pos' pos) as [->|Hnp]; [|left; exists b, pos', id'; auto].
        pose proof Hp as Hp'. apply Nat.ltb_lt in Hp'. rewrite Hp' in H3, H4. cbn [cell ms_key ms_val] in H3, H4. inversion H3. inversion H4. right. auto.
      + intros [[b' [pos' [id' [H1 [H2 [H3 H4]]]]]]|[-> ->]].
        * exists b', pos', id'. rewrite Hl, Hc. destruct (Nat.eq_dec b' b) as [->|Hne]; [|auto].
          rewrite supd_nth_length, nth_supd_nth. destruct (Nat.eq_dec pos' pos) as [->|]; [congruence | auto].
        * exists b, pos, id. rewrite Hl, Hc. destruct (Nat.eq_dec b b) as [_|Hcc]; [|exfalso; apply Hcc; reflexivity].
          rewrite supd_nth_length, nth_supd_nth. destruct (Nat.eq_dec pos pos) as [_|Hcc]; [|exfalso; apply Hcc; reflexivity].
          pose proof Hp as Hp'. apply Nat.ltb_lt in Hp'. rewrite Hp'. auto.
    - set (tb' := sset_words (sset_chain tb b (fun c => c ++ cell :: repeat empty_mslot (nslots - 1))) b (fun ws => ws ++ [store_top (empty_bword nslots) 0 (ktop hash tophash tb k)])).
      assert (Hc : forall b', schain_of tb' b' = if Nat.eq_dec b' b then schain_of tb b ++ cell :: repeat empty_mslot (nslots - 1) else schain_of tb b').
      { intros b'. unfold tb', schain_of, sset_words, sset_chain. cbn [m_chains]. rewrite nth_supd_nth.
        destruct (Nat.eq_dec b' b) as [->|]; [|reflexivity]. unfold m_len in Hb. apply Nat.ltb_lt in Hb. rewrite Hb. reflexivity. }
      assert (Hl : m_len tb' = m_len tb) by (unfold tb', sset_words, sset_chain, m_len; cbn [m_chains]; apply supd_nth_length).
      split.
      + intros [b' [pos' [id' [H1 [H2 [H3 H4]]]]]]. rewrite Hl in H1. rewrite Hc in H2, H3, H4. destruct (Nat.eq_dec b' b) as [->|Hne]; [|left; exists b', pos', id'; auto].
        destruct (Nat.lt_ge_cases pos' (length (schain_of tb b))) as [L|L].
        * rewrite app_nth1 in H3, H4 by exact L. left. exists b, pos', id'. auto.
        * rewrite app_nth2 in H3, H4 by exact L. destruct (pos' - length (schain_of tb b)) as [|j]; [cbn [nth cell ms_key ms_val] in H3, H4; inversion H3; inversion H4; right; auto|].
          cbn [nth] in H3. exfalso. destruct (Nat.lt_ge_cases j (nslots - 1)); [rewrite nth_repeat in H3 | rewrite nth_overflow in H3 by (rewrite repeat_length; assumption)]; discriminate H3.
      + intros [[b' [pos' [id' [H1 [H2 [H3 H4]]]]]]|[-> ->]].
        * exists b', pos', id'. rewrite Hl, Hc. destruct (Nat.eq_dec b' b) as [->|Hne]; [|auto].
          rewrite app_length, app_nth1 by exact H2. split; [exact H1|]. split; [lia | auto].
        * exists b, (length (schain_of tb b)), id. rewrite Hl, Hc. destruct (Nat.eq_dec b b) as [_|Hcc]; [|exfalso; apply Hcc; reflexivity].
          rewrite app_length, app_nth2 by lia. rewrite Nat.sub_diag. cbn [length nth cell ms_key ms_val]. split; [exact Hb|]. split; [lia | auto].
  Qed.


  (* copyBucket adds exactly the pairs of the source chain *)
  Lemma scopy_pairs src : forall (dst : mtable) z new, clean_table hash idx tophash nslots dst new -> tb_ok dst -> tb_wgood nslots dst ->
    allfull src -> ukeys src -> (forall k, inkeys src k -> ~ tkey dst k) ->
    let r := fst (fold_left (fun (acc : mtable * Z) s =>
                    match ms_key s with
                    | Some k => let h := hash k (m_seed (fst acc)) in
                                (sappend nslots (fst acc) (idx h (m_len (fst acc))) (tophash h) k (ms_val s), (snd acc + 1)%Z)
                    | None => acc end) src (dst, z)) in
    forall k v, tpair r k v <-> tpair dst k v \/ inpairs src k v.
  Proof.
    induction src as [|sl r IH]; intros dst z new Hcl Hok Hwg Hfull Hu Hdis; cbn [fold_left fst].
    - intros k v. split; [intros H; left; exact H | intros [H|[sl0 [id [[] _]]]]; exact H].
    - destruct Hu as [Hu1 Hu2].
      assert (Hfull' : allfull r) by (intros sl0 k0 Hin; apply Hfull; right; exact Hin).
      destruct (ms_key sl) as [k|] eqn:Ek.
      + cbv zeta. cbn [fst snd]. destruct (Hfull sl k (or_introl eq_refl) Ek) as [v [id Ev]]. rewrite Ev.
        assert (Hnk : ~ tkey dst k) by (apply Hdis; exists sl; split; [left; reflexivity | exact Ek]).
        destruct (sappend_clean hash idx tophash nslots minlen Hslots Hnslots Hidx Hminlen dst new k v id Hcl Hok Hwg Hnk) as [C1 C2].
        change (idx (hash k (m_seed dst)) (m_len dst)) with (shome dst k). change (tophash (hash k (m_seed dst))) with (ktop hash tophash dst k).
        assert (Hp1 : forall k' v', tpair (sappend nslots dst (shome dst k) (ktop hash tophash dst k) k (Some (v, id))) k' v' <-> tpair dst k' v' \/ (k' = k /\ v' = v)).
        { intros k' v'. apply sappend_pairs; [exact Hok|]. intros pos Hp Hk.
          apply (clean_nil_free hash idx tophash nslots dst new (shome dst k) pos); [apply Hcl; apply (shome_lt hash idx Hidx); exact Hok | exact Hp | exact Hk]. }
        set (dst1 := sappend nslots dst (shome dst k) (ktop hash tophash dst k) k (Some (v, id))) in *.
        destruct (neutral_sappend nslots Hslots dst (shome dst k) (ktop hash tophash dst k) k (Some (v, id))) as [N1 [N2 [_ N4]]].
        specialize (IH dst1 (z + 1)%Z new C1 (N4 Hok) (tb_wgood_sappend nslots Hslots Hnslots dst _ _ k _ (Htop _ _) Hwg) Hfull' Hu2).
        intros k' v'. rewrite IH.
        * rewrite Hp1. split.
          -- intros [[H|[-> ->]]|[sl0 [id0 [A B]]]]; [left; exact H | right; exists sl, id; split; [left; reflexivity | auto] | right; exists sl0, id0; split; [right; exact A | exact B]].
          -- intros [H|[sl0 [id0 [[<-|A] [B C]]]]]; [left; left; exact H | | right; exists sl0, id0; auto].
             left. right. rewrite Ek in B. rewrite Ev in C. inversion B. inversion C. auto.
        * intros k1 Hin Ht. destruct (C2 k1 Ht) as [G| ->].
          -- apply (Hdis k1); [|exact G]. destruct Hin as [sl0 [A B]]. exists sl0. split; [right; exact A | exact B].
          -- apply (Hu1 k eq_refl). exact Hin.
      + intros k' v'. rewrite (IH dst z new Hcl Hok Hwg Hfull' Hu2).
        * split; (intros [H|[sl0 [id0 [A B]]]]; [left; exact H|]).
          -- right. exists sl0, id0. split; [right; exact A | exact B].
          -- right. destruct A as [<-|A]; [destruct B as [B _]; congruence|]. exists sl0, id0. auto.
        * intros k0 [sl0 [A B]]. apply Hdis. exists sl0. split; [right; exact A | exact B].
  Qed.

  (* the pairs of a chain nobody holds are what readers find among the keys of that bucket *)
  Lemma chain_pairs (tb : mtable) tab b k v : tb_ok tb -> b < m_len tb -> chain_ok hash idx tophash nslots tb tab b None ->
    (inpairs (schain_of tb b) k v <-> svis tb k v /\ shome tb k = b).
  Proof.
    intros Hok Hb [_ [Hu Hsl]]. split.
    - intros [sl [id [Hin [Hk Hv]]]]. destruct (In_nth _ _ empty_mslot Hin) as [pos [Hp Ep]]. specialize (Hsl pos Hp). rewrite Ep in Hsl.
      destruct Hsl as [[F _]|[[k' [v' [id' [F1 [F2 [F3 F4]]]]]]|[p0 [F1 _]]]]; [congruence | | discriminate F1].
      rewrite Hk in F1. inversion F1; subst k'. split; [|exact F4]. exists pos. rewrite F4. rewrite Ep.
      split; [exact Hp|]. split; [exact Hk|]. split; [exists id; exact Hv | exact F3].
    - intros [[pos [H1 [H2 [[id H3] _]]]] Hh]. rewrite Hh in *. exists (nth pos (schain_of tb b) empty_mslot), id.
      split; [apply nth_In; exact H1 | auto].
  Qed.


  (* ---------------- the invariant ---------------- *)

  Definition content_upto (T : list mtable) (old new i : nat) : Prop :=
    forall k v, tpair (tabT T new) k v <-> (shome (tabT T old) k < i /\ svis (tabT T old) k v).

  Definition publish_ok (s : mstate) (kt : @scont K V) (new : nat) : Prop :=
    (clear_kt kt /\ forall k v, ~ tpair (tabT (h_tabs s) new) k v)
    \/ (~ clear_kt kt
        /\ (forall k v, tpair (tabT (h_tabs s) new) k v <-> svis (tabT (h_tabs s) (h_cur s)) k v)
        /\ forall u k, committed (h_pc s u) <> Some (h_cur s, k)).

  Record XR (s : mstate) : Prop := {
    xr_src : forall t tab, srctab (h_pc s t) = Some tab -> tab = h_cur s;
    xr_content : forall t old new i, progress (h_pc s t) = Some (old, new, i) -> content_upto (h_tabs s) old new i;
    xr_frozen : forall t old new i u k, progress (h_pc s t) = Some (old, new, i) -> committed (h_pc s u) = Some (old, k) ->
                  i <= shome (tabT (h_tabs s) old) k;
    xr_publish : forall t kt new, pubpc (h_pc s t) = Some (kt, new) -> publish_ok s kt new;
  }.

  Lemma progress_facts (p : spc) old new i : progress p = Some (old, new, i) ->
    srz p = true /\ snewtab p = Some new /\ srctab p = Some old /\ cfront p = Some (old, i) /\ pubpc p = None.
  Proof.
    induction p; cbn [progress srz snewtab srctab cfront pubpc lk_copy lk_new]; intros E; try discriminate E; auto;
      destruct lk; try discriminate E; inversion E; subst; auto.
  Qed.

  Lemma pubpc_facts (p : spc) kt new : pubpc p = Some (kt, new) -> srz p = true /\ snewtab p = Some new /\ progress p = None.
  Proof. induction p; cbn [pubpc srz snewtab progress]; intros E; try discriminate E; auto. inversion E; subst; auto. Qed.

  Lemma srctab_srz (p : spc) tab : srctab p = Some tab -> srz p = true.
  Proof. induction p; cbn [srctab srz lk_copy]; intros E; try discriminate E; auto; destruct lk; try discriminate E; reflexivity. Qed.

  Lemma committed_facts T (p : spc) tab k : committed p = Some (tab, k) ->
    sholdsT T p = Some (tab, shome (tabT T tab) k) /\ srz p = false /\ progress p = None /\ pubpc p = None /\ srctab p = None.
  Proof. destruct p; cbn [committed]; intros E; try discriminate E; inversion E; subst; cbn; auto. Qed.

  Lemma swake_progress (p : spc) : progress (swake p) = progress p. Proof. destruct p; reflexivity. Qed.
  Lemma swake_pubpc (p : spc) : pubpc (swake p) = pubpc p. Proof. destruct p; reflexivity. Qed.
  Lemma swake_srctab (p : spc) : srctab (swake p) = srctab p. Proof. destruct p; reflexivity. Qed.
  Lemma swake_committed (p : spc) : committed (swake p) = committed p. Proof. destruct p; reflexivity. Qed.

  Lemma lin_committed (p : spc) tab k0 o : lin_effect p tab = Some (k0, o) -> committed p = Some (tab, k0).
  Proof.
    destruct p; cbn [lin_effect committed]; intros E; try discriminate E; (destruct (Nat.eq_dec tab0 tab) as [->|]; [|discriminate E]); inversion E; reflexivity.
  Qed.

  (* where a thread stands after sgoto, for a partial function of the program counter *)
  Lemma sgoto_f {X} (f : spc -> option X) (S0 : mstate) t q ls x :
    f QIdle = None -> (forall cx, f (sstart_cx cx) = None) -> (forall u fr, h_frame S0 u = Some fr -> f (rf_after fr) = None) ->
    f (h_pc (fst (sgoto S0 t q ls)) t) = Some x -> f q = Some x.
  Proof.
    intros F0 F1 HF. destruct q; cbn [sgoto fst sset_pc h_pc];
      try (destruct (Nat.eq_dec t t) as [_|Hc]; [|exfalso; apply Hc; reflexivity]; exact (fun E => E)).
    destruct (h_frame S0 t) as [fr|] eqn:E.
    - destruct (svisits_P (fun p => f p = None) S0 t (rf_rest fr) (rf_vf fr) (rf_after fr) (ls ++ [SSubRes t r]) F0 F1 HF (HF t fr E)) as [A _].
      rewrite A. discriminate.
    - cbn [fst sset_pc h_pc]. destruct (Nat.eq_dec t t) as [_|Hc]; [|exfalso; apply Hc; reflexivity]. rewrite F0. discriminate.
  Qed.

  Lemma committed_start (cx : @scx K V) : committed (sstart_cx cx) = None.
  Proof. unfold sstart_cx. destruct (sc_lie cx); reflexivity. Qed.

  Lemma nolock_committed (p : spc) : nolock p = true -> committed p = None.
  Proof. destruct p; cbn; intros E; try discriminate E; reflexivity. Qed.

  (* a thread gets past resizeInProgress() only by reading the flag clear *)
  Lemma step_committed s t p s' ls tab k : XL s -> h_pc s t = p -> sstep_pc s t p = Some (s', ls) ->
    committed (h_pc s' t) = Some (tab, k) ->
    committed p = Some (tab, k) \/ (h_resizing s = false /\ exists cx, p = QW_ChkRes cx tab /\ k = sc_k cx).
  Proof.
    intros HS Hp Hs Hc.
    assert (HF : forall u fr, h_frame s u = Some fr -> committed (rf_after fr) = None).
    { intros u fr E. apply nolock_committed. apply (xl_frame _ _ _ _ s HS u fr E). }
    pose proof (xl_pc _ _ _ _ s HS t) as Hpc. rewrite Hp in Hpc.
    destruct p; cbn [XMachineS.sstep_pc] in Hs; cbv zeta in Hs;
      repeat match type of Hs with context [match ?x with _ => _ end] => destruct x eqn:? end;
      try discriminate Hs; apply some_fst_r in Hs; subst s'; cbn [XS_lock.PCI] in Hpc.
    all: try match goal with Hx : context [srun_cont ?kt] |- _ => destruct kt; cbn [srun_cont] in Hx end.
    all: try (eapply (sgoto_f committed) in Hc; [| reflexivity | apply committed_start | intros u0 fr0 E0; apply (HF u0 fr0 E0)]; cbn [committed] in Hc;
              first [discriminate Hc | left; exact Hc | right; inversion Hc; subst; split; [first [assumption | reflexivity] | eexists; split; reflexivity]]).
    - cbn [fst sset_pc h_pc] in Hc. destruct (Nat.eq_dec t t) as [_|Hc0]; [discriminate Hc | exfalso; apply Hc0; reflexivity].
    - (* lockBucket's CAS succeeded: the thread is before resizeInProgress() *)
      exfalso.
      match goal with Ha : after_lock _ _ _ _ _ ?S1 ?T ?TAB ?B ?LK = (_, _) |- _ =>
        pose proof (after_lock_ok hash idx tophash nslots nstripes S1 T TAB B LK) as [_ [A2 _]]; rewrite Ha in A2; cbn [fst] in A2;
        unfold after_lock in Ha end.
      eapply (sgoto_f committed) in Hc; [| reflexivity | apply committed_start | intros u0 fr0 E0; apply (HF u0 fr0); rewrite A2 in E0; exact E0].
      destruct lk; cbv zeta in Heqp.
      + inversion Heqp; subst. discriminate Hc.
      + match type of Heqp with context [scopy_chain ?a ?b0 ?c ?d ?e ?f] => destruct (scopy_chain a b0 c d e f) as [nt cp] end.
        inversion Heqp; subst. discriminate Hc.
      + inversion Heqp; subst. discriminate Hc.
    - exfalso. destruct Hpc as (_ & _ & Hn & _).
      destruct (svisits_P (fun q => committed q = None) (sset_tab s tab0 (fun tb => sset_word tb b 0 (fun _ => with_lock v None))) t l o p
                  [SStep t (SKStoreU64 (word_val (with_lock v None)))] eq_refl committed_start HF (nolock_committed _ Hn)) as [A _].
      rewrite A in Hc. discriminate Hc.
    - exfalso. destruct Hpc as (_ & _ & Hn & _).
      eapply (sgoto_f committed) in Hc; [| reflexivity | apply committed_start | intros u0 fr0 E0; apply (HF u0 fr0 E0)].
      rewrite (nolock_committed _ Hn) in Hc. discriminate Hc.
    - exfalso. destruct Hpc as (Hn & _).
      eapply (sgoto_f committed) in Hc; [| reflexivity | apply committed_start | intros u0 fr0 E0; apply (HF u0 fr0 E0)].
      rewrite (nolock_committed _ Hn) in Hc. discriminate Hc.
  Qed.


  Lemma nonresizer_none (p : spc) : srz p = false -> progress p = None /\ pubpc p = None /\ srctab p = None.
  Proof.
    intros H. split; [|split].
    - destruct (progress p) as [[[a b] c]|] eqn:E; [|reflexivity]. apply progress_facts in E. destruct E as [E _]. congruence.
    - destruct (pubpc p) as [[a b]|] eqn:E; [|reflexivity]. apply pubpc_facts in E. destruct E as [E _]. congruence.
    - destruct (srctab p) eqn:E; [|reflexivity]. apply srctab_srz in E. congruence.
  Qed.

  (* a thread that is not the resizer does not become one that copies or publishes in one step *)
  Lemma step_nonresizer s t p s' ls : SI s -> h_pc s t = p -> sstep_pc s t p = Some (s', ls) -> srz p = false ->
    progress (h_pc s' t) = None /\ pubpc (h_pc s' t) = None /\ srctab (h_pc s' t) = None.
  Proof.
    intros HI Hp Hs Hr.
    assert (HF : frames_ok s) by (intros u fr E; apply (si_frame s HI u fr E)).
    assert (Hw : swf p) by (rewrite <- Hp; apply (si_wf s HI)).
    destruct (sstep_effect eqd hash idx tophash nslots seeds grow_needed shrink_policy nstripes minlen grow_only s t p s' ls HF Hw Hs)
      as [_ [_ [_ [Hcls _]]]].
    unfold cls, cls_after in Hcls. assert (C2 : srz (h_pc s' t) = match p with QR_CAS _ _ => negb (h_resizing s) | QR_FinStore _ => false | _ => srz p end) by (inversion Hcls; reflexivity). clear Hcls.
    destruct p; try (apply nonresizer_none; rewrite C2; exact Hr).
    - (* QR_CAS *) cbn [XMachineS.sstep_pc] in Hs. destruct (h_resizing s); inversion Hs; subst s';
        cbn [sgoto fst sset_pc h_pc]; (destruct (Nat.eq_dec t t) as [_|Hc]; [repeat split | exfalso; apply Hc; reflexivity]).
    - (* QR_FinStore *) apply nonresizer_none. rewrite C2. reflexivity.
  Qed.


  Lemma holds_le_r n T (p : spc) tab b : tabs_le n p -> sholdsT T p = Some (tab, b) -> tab <= n.
  Proof. destruct p; cbn [tabs_le XS_lock.sholdsT]; intros H E; try discriminate E; inversion E; subst; tauto. Qed.

  Lemma upd_rel_oth (R : K -> V -> Prop) k0 e k v : k <> k0 -> (upd_rel R (Some (k0, e)) k v <-> R k v).
  Proof. intros Hne. destruct e as [nv|]; cbn [upd_rel]; tauto. Qed.

  (* no other thread writes into the unpublished table of the resizer *)
  Lemma newtab_frame_pc s u p s' ls t new : XB s -> h_pc s u = p -> sstep_pc s u p = Some (s', ls) -> u <> t ->
    snewtab (h_pc s t) = Some new -> forall k v, tpair (tabT (h_tabs s') new) k v <-> tpair (tabT (h_tabs s) new) k v.
  Proof.
    intros [HI [HS [HT [HX HC]]]] Hp Hs Hne Hn k v. destruct (xt_pc s HT t) as [_ Hnt]. destruct (Hnt new Hn) as [N1 N2].
    assert (Hnew : new < length (h_tabs s)) by lia.
    pose proof (sstep_pc_eff eqd hash idx tophash nslots seeds grow_needed shrink_policy nstripes minlen grow_only
                  Hslots Hidx Hminlen s u p s' ls HS Hp Hs) as HE.
    assert (Hcw : forall b, cellsw (tabT (h_tabs s') new) b = cellsw (tabT (h_tabs s) new) b).
    { intros b. destruct (step_cellsw_frame eqd hash idx tophash nslots seeds grow_needed shrink_policy nstripes minlen grow_only
                            Hslots Hnslots s u p s' ls HS HC Hp Hs new b Hnew) as [C|[C|C]]; [exact C | |].
      - exfalso. destruct (xt_pc s HT u) as [Hle _]. rewrite Hp in Hle. pose proof (holds_le_r _ _ _ _ _ Hle C). lia.
      - exfalso. apply Hne. apply (si_rzB s HI u t); [rewrite Hp; eapply snewtab_srz; exact C | eapply snewtab_srz; exact Hn]. }
    destruct (se_ext _ _ _ _ _ _ _ HE) as [_ X]. destruct (X new Hnew) as [X1 _].
    apply tpair_same; [exact X1|]. intros b. specialize (Hcw b). unfold cellsw in Hcw. injection Hcw as Q _. exact Q.
  Qed.

  Lemma cur_stable s u p s' ls : SI s -> h_pc s u = p -> sstep_pc s u p = Some (s', ls) -> (forall kt new, p <> QR_Publish kt new) -> h_cur s' = h_cur s.
  Proof.
    intros HI Hp Hs Hnp. assert (Hw : swf p) by (rewrite <- Hp; apply (si_wf s HI)).
    destruct (step_kinds eqd hash idx tophash nslots seeds grow_needed shrink_policy nstripes minlen grow_only s u p s' ls Hw Hs)
      as [K1 _ _ | kt new K1 K2 K3 | len seed K1 _ _ _]; [exact K1 | exfalso; apply (Hnp kt new K1) | exact K1].
  Qed.

  (* ---------------- a step of a thread that is not the resizer ---------------- *)

  Lemma XR_nonresizer s u p s' ls : XB s -> XR s -> h_pc s u = p -> sstep_pc s u p = Some (s', ls) -> srz p = false -> XR s'.
  Proof.
    intros HB HR Hp Hs Hrz. pose proof HB as [HI [HS [HT [HX HC]]]].
    pose proof (sstep_pc_eff eqd hash idx tophash nslots seeds grow_needed shrink_policy nstripes minlen grow_only
                  Hslots Hidx Hminlen s u p s' ls HS Hp Hs) as HE.
    destruct (step_nonresizer s u p s' ls HI Hp Hs Hrz) as [Q1 [Q2 Q3]].
    assert (Hcur : h_cur s' = h_cur s) by (apply (cur_stable s u p s' ls HI Hp Hs); intros kt new E; rewrite E in Hrz; discriminate Hrz).
    assert (Hoth : forall t, t <> u -> progress (h_pc s' t) = progress (h_pc s t) /\ pubpc (h_pc s' t) = pubpc (h_pc s t)
                                       /\ srctab (h_pc s' t) = srctab (h_pc s t) /\ committed (h_pc s' t) = committed (h_pc s t)).
    { intros t Hne. destruct (se_oth _ _ _ _ _ _ _ HE t Hne) as [E|E]; rewrite E; [auto|].
      rewrite swake_progress, swake_pubpc, swake_srctab, swake_committed. auto. }
    assert (Hvis : forall tab, tab <= h_cur s -> forall k v,
              svis (tabT (h_tabs s') tab) k v <-> upd_rel (svis (tabT (h_tabs s) tab)) (lin_effect p tab) k v).
    { intros tab Hle k v. apply (vis_step_pc eqd hash idx tophash nslots seeds grow_needed shrink_policy nstripes minlen grow_only
                                   Hslots Hnslots Hidx Hminlen s u p s' ls tab k v HB Hp Hs Hle). }
    assert (Hcom : forall w tab k, committed (h_pc s' w) = Some (tab, k) -> (exists t0, srz (h_pc s t0) = true) -> committed (h_pc s w) = Some (tab, k)).
    { intros w tab k Hc [t0 Ht0]. destruct (Nat.eq_dec w u) as [->|Hnw]; [|destruct (Hoth w Hnw) as [_ [_ [_ E]]]; rewrite <- E; exact Hc].
      destruct (step_committed s u p s' ls tab k HS Hp Hs Hc) as [A|[A _]]; [rewrite Hp; exact A|].
      pose proof (si_rzA s HI t0 Ht0). congruence. }
    assert (Hhome : forall tab, tab < length (h_tabs s) -> forall k, shome (tabT (h_tabs s') tab) k = shome (tabT (h_tabs s) tab) k).
    { intros tab Htab k. destruct (se_ext _ _ _ _ _ _ _ HE) as [_ X]. destruct (X tab Htab) as [X1 X2]. apply (shome_ext hash idx); assumption. }
    constructor.
    - intros t tab E. destruct (Nat.eq_dec t u) as [->|Hne]; [congruence|]. destruct (Hoth t Hne) as [_ [_ [A _]]]. rewrite A in E.
      rewrite Hcur. apply (xr_src s HR t tab E).
    - intros t old new i E. destruct (Nat.eq_dec t u) as [->|Hne]; [congruence|]. destruct (Hoth t Hne) as [A _]. rewrite A in E.
      destruct (progress_facts _ _ _ _ E) as [F1 [F2 [F3 _]]].
      pose proof (xr_src s HR t old F3) as Eo. pose proof (xt_cur s HT) as Hc.
      intros k v. rewrite (newtab_frame_pc s u p s' ls t new HB Hp Hs (fun H => Hne (eq_sym H)) F2 k v).
      rewrite (xr_content s HR t old new i E k v). rewrite (Hhome old ltac:(lia) k).
      rewrite (Hvis old ltac:(lia) k v).
      destruct (lin_effect p old) as [[k0 o]|] eqn:El; [|reflexivity].
      pose proof (lin_committed _ _ _ _ El) as Hck. rewrite <- Hp in Hck. pose proof (xr_frozen s HR t old new i u k0 E Hck) as Hfz.
      split; intros [H1 H2]; (split; [exact H1|]); (assert (Hk : k <> k0) by (intros ->; lia)).
      + apply (proj2 (upd_rel_oth _ k0 o k v Hk)). exact H2.
      + exact (proj1 (upd_rel_oth _ k0 o k v Hk) H2).
    - intros t old new i w k E Hc. destruct (Nat.eq_dec t u) as [->|Hne]; [congruence|]. destruct (Hoth t Hne) as [A _]. rewrite A in E.
      destruct (progress_facts _ _ _ _ E) as [F1 [_ [F3 _]]]. pose proof (xr_src s HR t old F3) as Eo. pose proof (xt_cur s HT) as Hcl.
      rewrite (Hhome old ltac:(lia) k). apply (xr_frozen s HR t old new i w k E). apply (Hcom w old k Hc). exists t. exact F1.
    - intros t kt new E. destruct (Nat.eq_dec t u) as [->|Hne]; [congruence|]. destruct (Hoth t Hne) as [_ [A _]]. rewrite A in E.
      destruct (pubpc_facts _ _ _ E) as [F1 [F2 _]].
      assert (Hpair : forall k v, tpair (tabT (h_tabs s') new) k v <-> tpair (tabT (h_tabs s) new) k v)
        by (intros k v; apply (newtab_frame_pc s u p s' ls t new HB Hp Hs (fun H => Hne (eq_sym H)) F2 k v)).
      destruct (xr_publish s HR t kt new E) as [[C1 C2]|[C1 [C2 C3]]].
      + left. split; [exact C1|]. intros k v H. apply Hpair in H. exact (C2 k v H).
      + right. split; [exact C1|]. rewrite Hcur.
        assert (Hno : lin_effect p (h_cur s) = None).
        { destruct (lin_effect p (h_cur s)) as [[k0 o]|] eqn:El; [|reflexivity]. exfalso.
          apply (C3 u k0). rewrite Hp. apply (lin_committed _ _ _ _ El). }
        split.
        * intros k v. rewrite Hpair, C2. pose proof (Hvis (h_cur s) (le_n _) k v) as Hv. rewrite Hno in Hv. cbn [upd_rel] in Hv. symmetry. exact Hv.
        * intros w k Hc. apply (C3 w k). apply (Hcom w (h_cur s) k Hc). exists t. exact F1.
  Qed.


  (* ---------------- a step of the resizer ---------------- *)

  Lemma resizer_prelude s u p s' ls : XB s -> h_pc s u = p -> sstep_pc s u p = Some (s', ls) -> srz p = true ->
    (forall t, t <> u -> h_pc s' t = h_pc s t \/ h_pc s' t = swake (h_pc s t))
    /\ (forall w tab k, committed (h_pc s' w) = Some (tab, k) -> w <> u /\ committed (h_pc s w) = Some (tab, k))
    /\ (forall tab, tab <= h_cur s -> forall k v, svis (tabT (h_tabs s') tab) k v <-> svis (tabT (h_tabs s) tab) k v)
    /\ (forall tab, tab < length (h_tabs s) -> forall k, shome (tabT (h_tabs s') tab) k = shome (tabT (h_tabs s) tab) k).
  Proof.
    intros HB Hp Hs Hrz. pose proof HB as [HI [HS [HT [HX HC]]]].
    pose proof (sstep_pc_eff eqd hash idx tophash nslots seeds grow_needed shrink_policy nstripes minlen grow_only
                  Hslots Hidx Hminlen s u p s' ls HS Hp Hs) as HE.
    assert (Hcp : committed p = None).
    { destruct (committed p) as [[tab k]|] eqn:E; [|reflexivity]. destruct (committed_facts (h_tabs s) _ _ _ E) as [_ [A _]]. congruence. }
    split; [apply (se_oth _ _ _ _ _ _ _ HE)|]. split; [|split].
    - intros w tab k Hc. destruct (Nat.eq_dec w u) as [->|Hnw].
      + exfalso. destruct (step_committed s u p s' ls tab k HS Hp Hs Hc) as [A|[_ [cx [A _]]]]; [congruence | rewrite A in Hrz; discriminate Hrz].
      + split; [exact Hnw|]. destruct (se_oth _ _ _ _ _ _ _ HE w Hnw) as [E|E]; rewrite E in Hc; [exact Hc | rewrite swake_committed in Hc; exact Hc].
    - intros tab Hle k v.
      pose proof (vis_step_pc eqd hash idx tophash nslots seeds grow_needed shrink_policy nstripes minlen grow_only
                    Hslots Hnslots Hidx Hminlen s u p s' ls tab k v HB Hp Hs Hle) as H.
      destruct (lin_effect p tab) as [[k0 o]|] eqn:El; [|exact H]. apply lin_committed in El. congruence.
    - intros tab Htab k. destruct (se_ext _ _ _ _ _ _ _ HE) as [_ X]. destruct (X tab Htab) as [X1 X2]. apply (shome_ext hash idx); assumption.
  Qed.

  (* only the resizer's own clauses have to be shown *)
  Lemma XR_only s u s' : SI s -> srz (h_pc s u) = true ->
    (forall t, t <> u -> h_pc s' t = h_pc s t \/ h_pc s' t = swake (h_pc s t)) ->
    (forall tab, srctab (h_pc s' u) = Some tab -> tab = h_cur s') ->
    (forall old new i, progress (h_pc s' u) = Some (old, new, i) ->
        content_upto (h_tabs s') old new i
        /\ forall w k, committed (h_pc s' w) = Some (old, k) -> i <= shome (tabT (h_tabs s') old) k) ->
    (forall kt new, pubpc (h_pc s' u) = Some (kt, new) -> publish_ok s' kt new) ->
    XR s'.
  Proof.
    intros HI Hrz Hoth H1 H2 H3.
    assert (Hnone : forall t, t <> u -> progress (h_pc s' t) = None /\ pubpc (h_pc s' t) = None /\ srctab (h_pc s' t) = None).
    { intros t Hne. assert (Hr : srz (h_pc s t) = false).
      { destruct (srz (h_pc s t)) eqn:E; [|reflexivity]. exfalso. apply Hne. apply (si_rzB s HI t u E Hrz). }
      destruct (nonresizer_none _ Hr) as [A [B C]].
      destruct (Hoth t Hne) as [E|E]; rewrite E; [auto|]. rewrite swake_progress, swake_pubpc, swake_srctab. auto. }
    constructor.
    - intros t tab E. destruct (Nat.eq_dec t u) as [->|Hne]; [apply H1; exact E|]. destruct (Hnone t Hne) as [_ [_ A]]. congruence.
    - intros t old new i E. destruct (Nat.eq_dec t u) as [->|Hne]; [apply (H2 old new i E)|]. destruct (Hnone t Hne) as [A _]. congruence.
    - intros t old new i w k E Hc. destruct (Nat.eq_dec t u) as [->|Hne]; [apply (proj2 (H2 old new i E) w k Hc)|]. destruct (Hnone t Hne) as [A _]. congruence.
    - intros t kt new E. destruct (Nat.eq_dec t u) as [->|Hne]; [apply H3; exact E|]. destruct (Hnone t Hne) as [_ [A _]]. congruence.
  Qed.

  (* the resizer's step leaves its progress, the current table and every pair alone *)
  Lemma XR_keep s u p s' ls : XB s -> XR s -> h_pc s u = p -> sstep_pc s u p = Some (s', ls) -> srz p = true ->
    h_cur s' = h_cur s ->
    (forall x, progress (h_pc s' u) = Some x -> progress p = Some x) ->
    (forall x, pubpc (h_pc s' u) = Some x -> pubpc p = Some x) ->
    (forall x, srctab (h_pc s' u) = Some x -> srctab p = Some x) ->
    (forall x k v, x < length (h_tabs s) -> (tpair (tabT (h_tabs s') x) k v <-> tpair (tabT (h_tabs s) x) k v)) ->
    XR s'.
  Proof.
    intros HB HR Hp Hs Hrz Hcur P1 P2 P3 Hpair. pose proof HB as [HI [HS [HT [HX HC]]]].
    destruct (resizer_prelude s u p s' ls HB Hp Hs Hrz) as [Hoth [Hcom [Hvis Hhome]]].
    pose proof (xt_cur s HT) as Hcl.
    apply (XR_only s u s' HI); [rewrite Hp; exact Hrz | exact Hoth | | |].
    - intros tab E. rewrite Hcur. apply (xr_src s HR u). rewrite Hp. apply P3. exact E.
    - intros old new i E. apply P1 in E. rewrite <- Hp in E.
      destruct (progress_facts _ _ _ _ E) as [_ [F2 [F3 _]]]. pose proof (xr_src s HR u old F3) as Eo.
      destruct (xt_pc s HT u) as [_ Hn]. destruct (Hn new F2) as [N1 N2].
      split.
      + intros k v. rewrite (Hpair new k v ltac:(lia)). rewrite (xr_content s HR u old new i E k v).
        rewrite (Hhome old ltac:(lia) k), (Hvis old ltac:(lia) k v). reflexivity.
      + intros w k Hc. destruct (Hcom w old k Hc) as [_ Hc']. rewrite (Hhome old ltac:(lia) k). apply (xr_frozen s HR u old new i w k E Hc').
    - intros kt new E. apply P2 in E. rewrite <- Hp in E. destruct (pubpc_facts _ _ _ E) as [_ [F2 _]].
      destruct (xt_pc s HT u) as [_ Hn]. destruct (Hn new F2) as [N1 N2].
      destruct (xr_publish s HR u kt new E) as [[C1 C2]|[C1 [C2 C3]]].
      + left. split; [exact C1|]. intros k v H. apply (Hpair new k v ltac:(lia)) in H. exact (C2 k v H).
      + right. split; [exact C1|]. rewrite Hcur. split.
        * intros k v. rewrite (Hpair new k v ltac:(lia)), C2, (Hvis (h_cur s) (le_n _) k v). reflexivity.
        * intros w k Hc. destruct (Hcom w _ k Hc) as [_ Hc']. apply (C3 w k Hc').
  Qed.


  (* copyBucket: the new table receives exactly what readers find in the bucket copied *)
  Lemma copy_content s t tab b v hn kt new : XB s -> h_pc s t = QK_CAS tab b v (LKCopy hn kt new) ->
    word_val (XMachineS.sword_at nslots (stab_at s tab) b 0) = word_val v ->
    forall k w,
      tpair (tabT (h_tabs (fst (after_lock hash idx tophash nslots nstripes
                     (sset_tab s tab (fun tb => sset_word tb b 0 (fun _ => with_lock v (Some t)))) t tab b (LKCopy hn kt new)))) new) k w
      <-> tpair (tabT (h_tabs s) new) k w \/ (svis (tabT (h_tabs s) tab) k w /\ shome (tabT (h_tabs s) tab) k = b).
  Proof.
    intros [HI [HS [HT [HX HC]]]] Hp E k w.
    destruct (xt_pc s HT t) as [Hle Hnew]. rewrite Hp in Hle, Hnew. cbn [tabs_le snewtab lk_new] in Hle, Hnew. destruct (Hnew new eq_refl) as [N1 N2].
    pose proof (xl_pc _ _ _ _ s HS t) as Hpc. rewrite Hp in Hpc. cbn [XS_lock.PCI] in Hpc. destruct Hpc as [[Hin1 Hin2] _].
    assert (Hne : tab <> new) by lia. assert (Hnl : new < length (h_tabs s)) by lia.
    destruct (xcs_new _ _ _ _ _ s HC t new) as [C1 C2]; [rewrite Hp; reflexivity|]. rewrite Hp in C2. unfold copied in C2. cbn [cfront] in C2.
    pose proof (cas_free hash idx nslots nstripes Hslots s t tab b v _ HS Hp E) as Hfree.
    pose proof (xcs_ch _ _ _ _ _ s HC tab b Hle Hin2) as Hch. unfold holder_pc in Hch. rewrite Hfree in Hch. cbn [option_map] in Hch.
    destruct (free_chain_facts hash idx tophash nslots minlen Hslots Hnslots Hminlen _ _ _ Hch) as [F1 [F2 F3]].
    pose proof (tb_ok_tabT nslots nstripes Hslots (h_tabs s) tab (xl_tabs _ _ _ _ s HS)) as Hokt.
    pose proof (tb_ok_tabT nslots nstripes Hslots (h_tabs s) new (xl_tabs _ _ _ _ s HS)) as Hokn.
    set (S1 := sset_tab s tab (fun tb => sset_word tb b 0 (fun _ => with_lock v (Some t)))).
    assert (E1 : stab_at S1 new = tabT (h_tabs s) new).
    { unfold S1, XMachineS.stab_at. cbn [h_tabs sset_tab]. fold (tabT (supd_nth (h_tabs s) tab (fun tb : mtable => sset_word tb b 0 (fun _ => with_lock v (Some t)))) new).
      rewrite tabT_supd. destruct (Nat.eq_dec new tab); [congruence | reflexivity]. }
    assert (E2 : stab_at S1 tab = sset_word (tabT (h_tabs s) tab) b 0 (fun _ => with_lock v (Some t))).
    { unfold S1, XMachineS.stab_at. cbn [h_tabs sset_tab]. fold (tabT (supd_nth (h_tabs s) tab (fun tb : mtable => sset_word tb b 0 (fun _ => with_lock v (Some t)))) tab).
      apply (tabT_supd_same nslots nstripes (h_tabs s) tab (fun tb : mtable => sset_word tb b 0 (fun _ => with_lock v (Some t))) Hin1). }
    unfold after_lock. cbv zeta. rewrite E1, E2.
    change (schain_of (sset_word (tabT (h_tabs s) tab) b 0 (fun _ => with_lock v (Some t))) b) with (schain_of (tabT (h_tabs s) tab) b).
    pose proof (scopy_pairs (schain_of (tabT (h_tabs s) tab) b) (tabT (h_tabs s) new) 0%Z new C1 Hokn
                  (wgood_tabT nslots nstripes Hslots Hnslots _ new (xcs_words _ _ _ _ _ s HC)) F1 F2) as Hcp.
    cbv zeta in Hcp. fold (scopy_chain hash idx tophash nslots (schain_of (tabT (h_tabs s) tab) b) (tabT (h_tabs s) new)) in Hcp.
    destruct (scopy_chain hash idx tophash nslots (schain_of (tabT (h_tabs s) tab) b) (tabT (h_tabs s) new)) as [nt cp] eqn:Ec.
    cbn [fst] in Hcp.
    assert (Hcp' : forall k v0, tpair nt k v0 <-> tpair (tabT (h_tabs s) new) k v0 \/ inpairs (schain_of (tabT (h_tabs s) tab) b) k v0).
    { apply Hcp. intros k0 Hk Ht. pose proof (F3 k0 Hk). pose proof (C2 k0 Ht). lia. }
    cbn [fst h_tabs sset_tab S1].
    set (T1 := supd_nth (h_tabs s) tab (fun tb : mtable => sset_word tb b 0 (fun _ => with_lock v (Some t)))).
    assert (Hl1 : new < length T1) by (unfold T1; rewrite supd_nth_length; exact Hnl).
    rewrite (tabT_supd_same nslots nstripes T1 new _ Hl1).
    rewrite (tpair_same nt (sadd_size nt b cp) k w eq_refl (fun _ => eq_refl)).
    rewrite Hcp'. rewrite (chain_pairs (tabT (h_tabs s) tab) tab b k w Hokt Hin2 Hch). reflexivity.
  Qed.


  Lemma tpair_supd_keep T tab (f : mtable -> mtable) x k v :
    (forall tb : mtable, m_len (f tb) = m_len tb /\ forall b, schain_of (f tb) b = schain_of tb b) ->
    (tpair (tabT (supd_nth T tab f) x) k v <-> tpair (tabT T x) k v).
  Proof.
    intros Hf. rewrite tabT_supd. destruct (Nat.eq_dec x tab) as [->|]; [|reflexivity].
    destruct (Nat.ltb tab (length T)); [|reflexivity]. destruct (Hf (tabT T tab)) as [A B]. apply tpair_same; assumption.
  Qed.

  Lemma start_none {X} (f : spc -> option X) : (forall p, f p <> None -> srz p = true) -> forall cx, f (sstart_cx cx) = None.
  Proof. intros H cx. destruct (f (sstart_cx cx)) eqn:E; [|reflexivity]. assert (A : srz (sstart_cx cx) = true) by (apply H; congruence).
    unfold sstart_cx in A. destruct (sc_lie cx); discriminate A. Qed.

  Lemma progress_srz (p : spc) : progress p <> None -> srz p = true.
  Proof. destruct (progress p) as [[[a b] c]|] eqn:E; [intros _; apply (progress_facts _ _ _ _ E) | congruence]. Qed.
  Lemma pubpc_srz (p : spc) : pubpc p <> None -> srz p = true.
  Proof. destruct (pubpc p) as [[a b]|] eqn:E; [intros _; apply (pubpc_facts _ _ _ E) | congruence]. Qed.
  Lemma srctab_srz' (p : spc) : srctab p <> None -> srz p = true.
  Proof. destruct (srctab p) eqn:E; [intros _; apply (srctab_srz _ _ E) | congruence]. Qed.

  Ltac red_f f fsrz E HFr :=
    eapply (sgoto_f f) in E; [| reflexivity | apply (start_none _ fsrz) | let u0 := fresh "u0" in let fr := fresh "fr" in let E0 := fresh "E0" in
                                                                             intros u0 fr E0; apply (HFr _ f fsrz u0 fr E0)];
    cbn [progress pubpc srctab] in E.

  Lemma tabT_last T (nm : mtable) : tabT (T ++ [nm]) (length T) = nm.
  Proof. unfold XS_lock.tabT. rewrite app_nth2 by lia. rewrite Nat.sub_diag. reflexivity. Qed.

  Lemma after_lock_copy_pc (S1 : mstate) t tab b hn kt new :
    snd (after_lock hash idx tophash nslots nstripes S1 t tab b (LKCopy hn kt new))
    = QU_Load tab b None (if Nat.ltb (S b) (m_len (stab_at S1 tab)) then QK_Load tab (S b) (LKCopy hn kt new) else QR_Publish kt new)
    /\ h_cur (fst (after_lock hash idx tophash nslots nstripes S1 t tab b (LKCopy hn kt new))) = h_cur S1
    /\ h_frame (fst (after_lock hash idx tophash nslots nstripes S1 t tab b (LKCopy hn kt new))) = h_frame S1.
  Proof.
    unfold after_lock. cbv zeta.
    match goal with |- context [scopy_chain ?a ?b0 ?c ?d ?e ?f] => destruct (scopy_chain a b0 c d e f) as [nt cp] end.
    cbn [fst snd h_cur h_frame sset_tab]. auto.
  Qed.

  Lemma XR_resizer s u p s' ls : XB s -> XK s -> XR s -> h_pc s u = p -> sstep_pc s u p = Some (s', ls) -> srz p = true -> XR s'.
  Proof.
    intros HB HK HR Hp Hs Hrz. pose proof HB as [HI [HS [HT [HX HC]]]]. pose proof Hs as Hs0.
    pose proof (xk_pc s HK u) as Hhint. rewrite Hp in Hhint.
    assert (HFr : forall {X} (f : spc -> option X), (forall q, f q <> None -> srz q = true) -> forall u0 fr, h_frame s u0 = Some fr -> f (rf_after fr) = None).
    { intros X f Hf u0 fr E. destruct (f (rf_after fr)) eqn:Ef; [|reflexivity]. exfalso.
      assert (A : srz (rf_after fr) = true) by (apply Hf; congruence). destruct (si_frame s HI u0 fr E) as [[_ [B _]] _]. congruence. }
    pose proof (xt_cur s HT) as Hcl.
    destruct p; cbn [srz] in Hrz; try discriminate Hrz; cbn [XMachineS.sstep_pc] in Hs; cbv zeta in Hs;
      repeat match type of Hs with context [match ?x with _ => _ end] => destruct x eqn:? end;
      try discriminate Hs; apply some_fst_r in Hs; subst s'; cbn [hint_ok] in Hhint.
    all: try (apply (XR_keep s u _ _ ls HB HR Hp Hs0 Hrz);
              [ rewrite hcur_goto; reflexivity
              | intros x E; eapply (sgoto_f progress) in E; [first [exact E | discriminate E] | reflexivity | apply (start_none _ progress_srz) | intros u0 fr E0; apply (HFr _ progress progress_srz u0 fr E0)]
              | intros x E; eapply (sgoto_f pubpc) in E; [first [exact E | discriminate E] | reflexivity | apply (start_none _ pubpc_srz) | intros u0 fr E0; apply (HFr _ pubpc pubpc_srz u0 fr E0)]
              | intros x E; eapply (sgoto_f srctab) in E; [first [exact E | discriminate E] | reflexivity | apply (start_none _ srctab_srz') | intros u0 fr E0; apply (HFr _ srctab srctab_srz' u0 fr E0)]
              | intros x k0 v0 _; rewrite htabs_goto; cbn [h_tabs sset_tab sset_flags sbump];
                first [reflexivity | apply tpair_supd_keep; intros tb; split; [reflexivity | intros b0; reflexivity]] ]).
    - (* lockBucket's CAS by the copier succeeded: bucket b is copied *)
      destruct lk as [cx|hn kt new|vf]; try discriminate Hrz. apply N.eqb_eq in Heqb0. cbn [lk_hint] in Hhint. destruct Hhint as [Hhk Hnc].
      pose proof (copy_content s u tab b v hn kt new HB Hp Heqb0) as Hcc. rewrite Heqp in Hcc. cbn [fst] in Hcc.
      destruct (after_lock_copy_pc (sset_tab s tab (fun tb => sset_word tb b 0 (fun _ => with_lock v (Some u)))) u tab b hn kt new) as [Eq [Ec Ef]].
      rewrite Heqp in Eq, Ec, Ef. cbn [fst snd h_cur h_frame sset_tab] in Eq, Ec, Ef.
      assert (Eml : m_len (stab_at (sset_tab s tab (fun tb => sset_word tb b 0 (fun _ => with_lock v (Some u)))) tab) = m_len (tabT (h_tabs s) tab)).
      { unfold XMachineS.stab_at. cbn [h_tabs sset_tab].
        fold (tabT (supd_nth (h_tabs s) tab (fun tb : mtable => sset_word tb b 0 (fun _ => with_lock v (Some u)))) tab).
        rewrite tabT_supd. destruct (Nat.eq_dec tab tab) as [_|Hc]; [|exfalso; apply Hc; reflexivity]. destruct (Nat.ltb tab (length (h_tabs s))); reflexivity. }
      rewrite Eml in Eq. clear Eml.
      assert (HFm : forall {X} (f : spc -> option X), (forall q, f q <> None -> srz q = true) -> forall u0 fr, h_frame m u0 = Some fr -> f (rf_after fr) = None)
        by (intros X f Hf u0 fr E0; rewrite Ef in E0; apply (HFr X f Hf u0 fr E0)).
      destruct (resizer_prelude s u _ _ ls HB Hp Hs0 Hrz) as [Hoth [Hcom [Hvis Hhome]]].
      pose proof (xl_pc _ _ _ _ s HS u) as Hpc. rewrite Hp in Hpc. cbn [XS_lock.PCI] in Hpc. destruct Hpc as [[Hin1 Hin2] _].
      assert (Esrc : tab = h_cur s) by (apply (xr_src s HR u); rewrite Hp; reflexivity).
      assert (Epr : progress (h_pc s u) = Some (tab, new, b)) by (rewrite Hp; reflexivity).
      pose proof (cas_free hash idx nslots nstripes Hslots s u tab b v _ HS Hp Heqb0) as Hfree.
      assert (Hfz : forall w k, committed (h_pc s w) = Some (tab, k) -> S b <= shome (tabT (h_tabs s) tab) k).
      { intros w k Hc. pose proof (xr_frozen s HR u tab new b w k Epr Hc) as Hle.
        destruct (committed_facts (h_tabs s) _ _ _ Hc) as [Hh _]. pose proof (xl_lockA _ _ _ _ s HS w tab _ Hh) as Hl.
        destruct (Nat.eq_dec (shome (tabT (h_tabs s) tab) k) b) as [Eb|Nb]; [rewrite Eb in Hl; congruence | lia]. }
      pose proof (xr_content s HR u tab new b Epr) as Hct.
      assert (Hlt : forall k, shome (tabT (h_tabs s) tab) k < m_len (tabT (h_tabs s) tab))
        by (intros k; apply (shome_lt hash idx Hidx); apply (tb_ok_tabT nslots nstripes Hslots); apply (xl_tabs _ _ _ _ s HS)).
      apply (XR_only s u _ HI); [rewrite Hp; exact Hrz | exact Hoth | | |].
      + intros tab0 E. eapply (sgoto_f srctab) in E; [| reflexivity | apply (start_none _ srctab_srz') | apply (HFm _ srctab srctab_srz')].
        rewrite hcur_goto, Ec. rewrite Eq in E. cbn [srctab] in E. destruct (Nat.ltb (S b) (m_len (tabT (h_tabs s) tab))); cbn [srctab] in E; [|discriminate E]. congruence.
      + intros old new0 i E. eapply (sgoto_f progress) in E; [| reflexivity | apply (start_none _ progress_srz) | apply (HFm _ progress progress_srz)].
        rewrite Eq in E. cbn [progress] in E. destruct (Nat.ltb (S b) (m_len (tabT (h_tabs s) tab))) eqn:El; cbn [progress] in E; [|discriminate E].
        inversion E; subst old new0 i. rewrite htabs_goto in *. split.
        * intros k w. rewrite Hcc, (Hct k w), (Hhome tab Hin1 k), (Hvis tab ltac:(lia) k w). split.
          -- intros [[A B]|[A B]]; split; try assumption; lia.
          -- intros [A B]. destruct (Nat.eq_dec (shome (tabT (h_tabs s) tab) k) b); [right; auto | left; split; [lia | exact B]].
        * intros w k Hc. destruct (Hcom w tab k Hc) as [_ Hc']. rewrite (Hhome tab Hin1 k). apply (Hfz w k Hc').
      + intros kt0 new0 E. eapply (sgoto_f pubpc) in E; [| reflexivity | apply (start_none _ pubpc_srz) | apply (HFm _ pubpc pubpc_srz)].
        rewrite Eq in E. cbn [pubpc] in E. destruct (Nat.ltb (S b) (m_len (tabT (h_tabs s) tab))) eqn:El; cbn [pubpc] in E; [discriminate E|].
        inversion E; subst kt0 new0. apply Nat.ltb_ge in El. right. split; [intros Hck; apply Hnc; apply Hhk; exact Hck|].
        rewrite hcur_goto, Ec, <- Esrc. rewrite htabs_goto in *. split.
        * intros k w. rewrite Hcc, (Hct k w), (Hvis tab ltac:(lia) k w). pose proof (Hlt k). split.
          -- intros [[A B]|[A B]]; assumption.
          -- intros B. destruct (Nat.eq_dec (shome (tabT (h_tabs s) tab) k) b); [right; auto | left; split; [lia | exact B]].
        * intros w k Hc. destruct (Hcom w tab k Hc) as [_ Hc']. pose proof (Hfz w k Hc'). pose proof (Hlt k). lia.
    - (* unlockBucket of a Range is not a step of the resizer *)
      exfalso. pose proof (si_wf s HI u) as Hw. rewrite Hp in Hw. cbn [swf] in Hw. destruct Hw as [Hpl _]. specialize (Hpl ltac:(discriminate)).
      destruct Hpl as (_ & Hz & _). congruence.
    - (* QR_Table, grow: the resizer has read m.table *)
      destruct (resizer_prelude s u _ _ ls HB Hp Hs0 Hrz) as [Hoth [Hcom [Hvis Hhome]]].
      apply (XR_only s u _ HI); [rewrite Hp; exact Hrz | exact Hoth | | |].
      + intros tab0 E. red_f srctab srctab_srz' E HFr. inversion E. rewrite hcur_goto. reflexivity.
      + intros old new i E. red_f progress progress_srz E HFr. discriminate E.
      + intros kt0 new E. red_f pubpc pubpc_srz E HFr. discriminate E.
    - (* QR_Table, shrink *)
      destruct (resizer_prelude s u _ _ ls HB Hp Hs0 Hrz) as [Hoth [Hcom [Hvis Hhome]]].
      apply (XR_only s u _ HI); [rewrite Hp; exact Hrz | exact Hoth | | |].
      + intros tab0 E. red_f srctab srctab_srz' E HFr. inversion E. rewrite hcur_goto. reflexivity.
      + intros old new i E. red_f progress progress_srz E HFr. discriminate E.
      + intros kt0 new E. red_f pubpc pubpc_srz E HFr. discriminate E.
    - (* QR_Table, Clear: an empty table is about to be published *)
      destruct (resizer_prelude s u _ _ ls HB Hp Hs0 Hrz) as [Hoth [Hcom [Hvis Hhome]]].
      apply (XR_only s u _ HI); [rewrite Hp; exact Hrz | exact Hoth | | |].
      + intros tab0 E. red_f srctab srctab_srz' E HFr. discriminate E.
      + intros old new i E. red_f progress progress_srz E HFr. discriminate E.
      + intros kt0 new E. red_f pubpc pubpc_srz E HFr. inversion E; subst kt0 new. left. split; [apply Hhint; reflexivity|].
        intros k v. rewrite htabs_goto. cbn [h_tabs spush_tab]. rewrite tabT_last. apply tpair_new.
    - (* QR_Stat: the new table is allocated, nothing copied yet *)
      destruct (resizer_prelude s u _ _ ls HB Hp Hs0 Hrz) as [Hoth [Hcom [Hvis Hhome]]].
      apply (XR_only s u _ HI); [rewrite Hp; exact Hrz | exact Hoth | | |].
      + intros tab0 E. red_f srctab srctab_srz' E HFr. inversion E; subst tab0. rewrite hcur_goto. cbn [h_cur spush_tab]. apply (xr_src s HR u). rewrite Hp. reflexivity.
      + intros old new i E. red_f progress progress_srz E HFr. inversion E; subst old new i. rewrite htabs_goto. cbn [h_tabs spush_tab]. split.
        * intros k v. rewrite tabT_last. split; [intros H; exfalso; apply (tpair_new _ _ _ _ H) | intros [H _]; lia].
        * intros w k _. lia.
      + intros kt0 new E. red_f pubpc pubpc_srz E HFr. discriminate E.
    -
      exfalso. destruct (tb_ok_tabT nslots nstripes Hslots (h_tabs s) tab (xl_tabs _ _ _ _ s HS)) as [Hpos _].
      match goal with Hx : (0 <? m_len (stab_at s tab)) = false |- _ => apply Nat.ltb_ge in Hx; change (stab_at s tab) with (tabT (h_tabs s) tab) in Hx; lia end.
    -
      destruct (resizer_prelude s u _ _ ls HB Hp Hs0 Hrz) as [Hoth [Hcom [Hvis Hhome]]].
      apply (XR_only s u _ HI); [rewrite Hp; exact Hrz | exact Hoth | | |].
      + intros tab0 E. red_f srctab srctab_srz' E HFr. inversion E; subst tab0. rewrite hcur_goto. cbn [h_cur spush_tab]. apply (xr_src s HR u). rewrite Hp. reflexivity.
      + intros old new i E. red_f progress progress_srz E HFr. inversion E; subst old new i. rewrite htabs_goto. cbn [h_tabs spush_tab]. split.
        * intros k v. rewrite tabT_last. split; [intros H; exfalso; apply (tpair_new _ _ _ _ H) | intros [H _]; lia].
        * intros w k _. lia.
      + intros kt0 new E. red_f pubpc pubpc_srz E HFr. discriminate E.
    -
      exfalso. destruct (tb_ok_tabT nslots nstripes Hslots (h_tabs s) tab (xl_tabs _ _ _ _ s HS)) as [Hpos _].
      match goal with Hx : (0 <? m_len (stab_at s tab)) = false |- _ => apply Nat.ltb_ge in Hx; change (stab_at s tab) with (tabT (h_tabs s) tab) in Hx; lia end.
    -
      destruct (resizer_prelude s u _ _ ls HB Hp Hs0 Hrz) as [Hoth [Hcom [Hvis Hhome]]].
      apply (XR_only s u _ HI); [rewrite Hp; exact Hrz | exact Hoth | | |].
      + intros tab0 E. red_f srctab srctab_srz' E HFr. inversion E; subst tab0. rewrite hcur_goto. cbn [h_cur spush_tab]. apply (xr_src s HR u). rewrite Hp. reflexivity.
      + intros old new i E. red_f progress progress_srz E HFr. inversion E; subst old new i. rewrite htabs_goto. cbn [h_tabs spush_tab]. split.
        * intros k v. rewrite tabT_last. split; [intros H; exfalso; apply (tpair_new _ _ _ _ H) | intros [H _]; lia].
        * intros w k _. lia.
      + intros kt0 new E. red_f pubpc pubpc_srz E HFr. discriminate E.
    -
      exfalso. destruct (tb_ok_tabT nslots nstripes Hslots (h_tabs s) tab (xl_tabs _ _ _ _ s HS)) as [Hpos _].
      match goal with Hx : (0 <? m_len (stab_at s tab)) = false |- _ => apply Nat.ltb_ge in Hx; change (stab_at s tab) with (tabT (h_tabs s) tab) in Hx; lia end.
    - (* the publish: no resize is left *)
      destruct (resizer_prelude s u _ _ ls HB Hp Hs0 Hrz) as [Hoth [Hcom [Hvis Hhome]]].
      apply (XR_only s u _ HI); [rewrite Hp; exact Hrz | exact Hoth | | |].
      + intros tab0 E. red_f srctab srctab_srz' E HFr. discriminate E.
      + intros old new0 i E. red_f progress progress_srz E HFr. discriminate E.
      + intros kt0 new0 E. red_f pubpc pubpc_srz E HFr. discriminate E.
  Qed.


  (* ---------------- every step, every reachable state ---------------- *)

  Theorem XR_step_pc s u p s' ls : XB s -> XK s -> XR s -> h_pc s u = p -> sstep_pc s u p = Some (s', ls) -> XR s'.
  Proof.
    intros HB HK HR Hp Hs. destruct (srz p) eqn:Hrz; [eapply XR_resizer | eapply XR_nonresizer]; eassumption.
  Qed.

  Definition XI (s : mstate) : Prop := XB s /\ XK s /\ XR s.

  Lemma sstart_hint (o : @sop K V) : hint_ok (sstart_pc o).
  Proof. destruct o; cbn [sstart_pc]; try exact I. apply start_cx_hint. Qed.

  Lemma sstart_none (o : @sop K V) : progress (sstart_pc o) = None /\ pubpc (sstart_pc o) = None /\ srctab (sstart_pc o) = None /\ committed (sstart_pc o) = None.
  Proof. destruct o; cbn [sstart_pc]; try (repeat split; reflexivity). unfold sstart_cx. destruct (sc_lie _); repeat split; reflexivity. Qed.

  Lemma invoke_XI s t o rest : h_pc s t = QIdle -> XI s -> XI (sinvoke s t o rest).
  Proof.
    intros Hp [HB [HK HR]]. split; [apply (invoke_XB hash idx tophash nslots nstripes s t o rest Hp HB)|].
    destruct (sstart_none o) as [S1 [S2 [S3 S4]]].
    assert (Hf : forall {X} (f : spc -> option X), f QIdle = None -> f (sstart_pc o) = None -> forall w, f (h_pc (sinvoke s t o rest) w) = f (h_pc s w)).
    { intros X f F0 F1 w. cbn [XS_count.sinvoke h_pc]. destruct (Nat.eq_dec w t) as [->|]; [rewrite Hp; congruence | reflexivity]. }
    split.
    - constructor; [|apply (xk_fr s HK)]. intros w. cbn [XS_count.sinvoke h_pc]. destruct (Nat.eq_dec w t); [apply sstart_hint | apply (xk_pc s HK)].
    - constructor.
      + intros w tab. rewrite (Hf _ srctab eq_refl S3). apply (xr_src s HR).
      + intros w old new i. rewrite (Hf _ progress eq_refl S1). apply (xr_content s HR).
      + intros w old new i w' k. rewrite (Hf _ progress eq_refl S1), (Hf _ committed eq_refl S4). apply (xr_frozen s HR).
      + intros w kt new. rewrite (Hf _ pubpc eq_refl S2). intros E.
        destruct (xr_publish s HR w kt new E) as [C|[C1 [C2 C3]]]; [left; exact C|]. right. split; [exact C1|]. split; [exact C2|].
        intros w' k. rewrite (Hf _ committed eq_refl S4). apply C3.
  Qed.

  Lemma XI_sstep s t s' ls : XI s -> sstep s t = Some (s', ls) -> XI s'.
  Proof.
    intros HX E. pose proof HX as [HB [HK HR]].
    pose proof (XB_sstep eqd hash idx tophash nslots seeds grow_needed shrink_policy nstripes minlen grow_only Hslots Hnslots Htop Hidx Hminlen
                  s t s' ls HB E) as HB'.
    split; [exact HB'|].
    assert (Hpc_step : forall s0 p s1 ls0, XI s0 -> h_pc s0 t = p -> sstep_pc s0 t p = Some (s1, ls0) -> XK s1 /\ XR s1).
    { intros s0 p s1 ls0 [HB0 [HK0 HR0]] Hp Hs. split; [eapply XK_step_pc; eassumption | eapply XR_step_pc; eassumption]. }
    unfold XMachineS.sstep in E.
    destruct (h_pc s t) eqn:Hp; try (eapply Hpc_step; [exact HX | exact Hp | exact E]).
    destruct (h_todo s t) as [|o rest]; [discriminate|].
    pose proof (invoke_XI s t o rest Hp HX) as HX1.
    change (match sstep_pc (sinvoke s t o rest) t (sstart_pc o) with
            | Some (s2, ls0) => Some (s2, SInv t o :: ls0)
            | None => Some (sinvoke s t o rest, [SInv t o])
            end = Some (s', ls)) in E.
    destruct (sstep_pc (sinvoke s t o rest) t (sstart_pc o)) as [[s2 ls0]|] eqn:E2.
    - inversion E; subst s2 ls. eapply Hpc_step; [exact HX1 | | exact E2]. cbn [XS_count.sinvoke h_pc]. destruct (Nat.eq_dec t t); congruence.
    - inversion E; subst s'. exact (proj2 HX1).
  Qed.

  Lemma XI_init len0 todo : 0 < len0 -> XI (sinit nslots seeds nstripes len0 todo).
  Proof.
    intros Hl. split; [apply (XB_init hash idx tophash nslots seeds nstripes minlen Hslots Hnslots Hminlen len0 todo Hl)|]. split.
    - constructor; cbn [sinit h_pc h_frame]; [intros t; exact I | intros t fr E; discriminate E].
    - constructor; cbn [sinit h_pc]; intros; discriminate.
  Qed.

  Theorem XI_srun sched : forall s, XI s -> XI (fst (srun s sched)).
  Proof.
    induction sched as [|t rest IH]; intros s H; cbn [XMachineS.srun]; [exact H|].
    destruct (sstep s t) as [[s' ls]|] eqn:E.
    - specialize (IH s' (XI_sstep s t s' ls H E)). destruct (XMachineS.srun _ _ _ _ _ _ _ _ _ _ _ s' rest). exact IH.
    - apply IH. exact H.
  Qed.

  Theorem reachable_XI len0 todo sched : 0 < len0 -> XI (fst (srun (sinit nslots seeds nstripes len0 todo) sched)).
  Proof. intros Hl. apply (XI_srun sched _ (XI_init len0 todo Hl)). Qed.


  (* ---------------- the abstract map ---------------- *)

  (* every step: a linearization store of a writer on the current table, or nothing, or the publish of a resize --
     which empties the map when the resize is a Clear and leaves it unchanged when it is a grow or a shrink *)
  Theorem abs_step_all s t s' ls : XI s -> sstep s t = Some (s', ls) ->
    match h_pc s t with
    | QR_Publish kt new =>
        (clear_kt kt /\ forall k v, ~ sabs s' k v) \/ (~ clear_kt kt /\ forall k v, sabs s' k v <-> sabs s k v)
    | p => forall k v, sabs s' k v <-> upd_rel (sabs s) (lin_effect p (h_cur s)) k v
    end.
  Proof.
    intros [HB [HK HR]] Hs.
    assert (Hgen : (forall kt new, h_pc s t <> QR_Publish kt new) ->
                   forall k v, sabs s' k v <-> upd_rel (sabs s) (lin_effect (h_pc s t) (h_cur s)) k v).
    { intros Hnp k v.
      destruct (abs_step eqd hash idx tophash nslots seeds grow_needed shrink_policy nstripes minlen grow_only Hslots Hnslots Hidx Hminlen
                  s t s' ls k v HB Hs) as [[_ H]|[kt [new [E _]]]]; [exact H | exfalso; apply (Hnp kt new E)]. }
    destruct (h_pc s t) eqn:Hp; try (apply Hgen; intros; discriminate).
    (* the store that publishes the new table *)
    pose proof HB as [HI [HS [HT [HX HC]]]].
    assert (En : snewtab (h_pc s t) = Some new) by (rewrite Hp; reflexivity).
    destruct (xcs_new _ _ _ _ _ s HC t new En) as [Hclean _].
    assert (Habs : forall k v, sabs s' k v <-> tpair (tabT (h_tabs s) new) k v).
    { intros k v.
      destruct (abs_step eqd hash idx tophash nslots seeds grow_needed shrink_policy nstripes minlen grow_only Hslots Hnslots Hidx Hminlen
                  s t s' ls k v HB Hs) as [[Ec _]|[kt' [new' [E1 [E2 [E3 H]]]]]].
      - exfalso. destruct (sstep_cur eqd hash idx tophash nslots seeds grow_needed shrink_policy nstripes minlen grow_only
                             s t s' ls HB Hs) as [E'|[kt' [new' [E1 [E2 [E3 [E4 E5]]]]]]]; [|lia].
        unfold XMachineS.sstep in Hs. rewrite Hp in Hs. cbn [XMachineS.sstep_pc] in Hs. inversion Hs; subst s'.
        cbn [sgoto fst sset_pc sset_flags h_cur] in E'. destruct (xt_pc s HT t) as [_ Hn]. destruct (Hn new En). lia.
      - rewrite Hp in E1. assert (E0 : new' = new) by congruence. subst new'. rewrite H, ?E0.
        apply (clean_svis_tpair _ new k v); [apply (tb_ok_tabT nslots nstripes Hslots); apply (xl_tabs _ _ _ _ s HS) | exact Hclean]. }
    destruct (xr_publish s HR t kt new) as [[Hc He]|[Hnc [Hcont _]]]; [rewrite Hp; reflexivity | |].
    - left. split; [exact Hc|]. intros k v H. apply Habs in H. exact (He k v H).
    - right. split; [exact Hnc|]. intros k v. rewrite Habs. apply Hcont.
  Qed.

  (* Clear is what gives a resize the continuation [SKReturn SRUnit] *)
  Lemma clear_call s t s' ls : h_pc s t = QC_Table -> sstep s t = Some (s', ls) -> h_frame s t = None ->
    exists kt, h_pc s' t = QR_CAS SHClear kt /\ clear_kt kt.
  Proof.
    intros Hp Hs _. unfold XMachineS.sstep in Hs. rewrite Hp in Hs. cbn [XMachineS.sstep_pc] in Hs. inversion Hs; subst s'.
    exists (SKReturn SRUnit). split; [|reflexivity]. cbn [sgoto fst sset_pc h_pc]. destruct (Nat.eq_dec t t) as [_|Hc]; [reflexivity | exfalso; apply Hc; reflexivity].
  Qed.

End SResize.

(* ---------------- the statements, with the hypotheses packed ---------------- *)
Section Final.
  Context {K V : Type}.
  Variable eqd : forall a b : K, {a = b} + {a <> b}.
  Variable hash : K -> N -> N.
  Variable idx : N -> nat -> nat.
  Variable tophash : N -> N.
  Variable nslots : nat.
  Variable seeds : nat -> N.
  Variable grow_needed shrink_policy : nat -> Z -> bool.
  Variable nstripes : nat -> nat.
  Variable minlen : nat.
  Variable grow_only : bool.

  Notation srun := (@srun K V eqd hash idx tophash nslots seeds grow_needed shrink_policy nstripes minlen grow_only).
  Notation sstep := (@sstep K V eqd hash idx tophash nslots seeds grow_needed shrink_policy nstripes minlen grow_only).
  Notation sabs := (@sabs K V hash idx tophash nslots nstripes).

  (* the hypotheses on the parameters: those of XS_cells.v *)
  Definition rhyps : Prop :=
    (nslots <= 3 /\ 0 < nslots) /\ (forall k sd, (tophash (hash k sd) < 1048576)%N)
    /\ (forall h len, 0 < len -> idx h len < len) /\ 0 < minlen.

  (* every reachable state, every step of any thread *)
  Theorem reachable_abs_step :
    rhyps -> forall len0 todo sched t s' ls, 0 < len0 ->
    let s := fst (srun (sinit nslots seeds nstripes len0 todo) sched) in
    sstep s t = Some (s', ls) ->
    match h_pc s t with
    | QR_Publish kt new =>
        (clear_kt kt /\ forall k v, ~ sabs s' k v) \/ (~ clear_kt kt /\ forall k v, sabs s' k v <-> sabs s k v)
    | p => forall k v, sabs s' k v <-> upd_rel (sabs s) (lin_effect p (h_cur s)) k v
    end.
  Proof.
    intros [[H1 H2] [H3 [H4 H5]]] len0 todo sched t s' ls Hl s E.
    apply (abs_step_all eqd hash idx tophash nslots seeds grow_needed shrink_policy nstripes minlen grow_only H1 H2 H4 H5 s t s' ls); [|exact E].
    apply (reachable_XI eqd hash idx tophash nslots seeds grow_needed shrink_policy nstripes minlen grow_only H1 H2 H3 H4 H5 len0 todo sched Hl).
  Qed.

  (* the hint / continuation pairing that makes [clear_kt] mean "this resize is a Clear" *)
  Theorem clear_kt_proof :
    rhyps -> forall len0 todo sched t, 0 < len0 ->
    hint_ok (h_pc (fst (srun (sinit nslots seeds nstripes len0 todo) sched)) t).
  Proof.
    intros [[H1 H2] [H3 [H4 H5]]] len0 todo sched t Hl.
    destruct (reachable_XI eqd hash idx tophash nslots seeds grow_needed shrink_policy nstripes minlen grow_only H1 H2 H3 H4 H5 len0 todo sched Hl)
      as [_ [HK _]]. apply (xk_pc _ HK).
  Qed.
End Final.
