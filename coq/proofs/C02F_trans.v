(* C02F_trans.v -- CX_trans.lin_transfer WITH THE FINAL STATE: linearizability transfers along a
   refinement of specifications, and the runs end in related states.  Instance: XMachine's
   operations -> the cache's map calls ([mapof_lin_transfer_final]). *)
From CacheV Require Import Base SpecMap Client Lin LinF XMachine.
From CacheV.proofs Require Import X_linpoints CX_trans.
Local Open Scope nat_scope.

Section TransferF.
  Variables Op1 Res1 St1 : Type.
  Variable spec1 : St1 -> Op1 -> Res1 -> St1 -> Prop.
  Variables Op2 Res2 St2 : Type.
  Variable spec2 : St2 -> Op2 -> Res2 -> St2 -> Prop.
  Variable f : Op2 -> Op1.
  Variable g : Op2 -> Res1 -> Res2.
  Variable ok2 : Op2 -> Prop.
  Variable R : St1 -> St2 -> Prop.

  Hypothesis sim : forall s1 s2 o r s1', R s1 s2 -> ok2 o -> spec1 s1 (f o) r s1' ->
    exists s2', spec2 s2 o (g o r) s2' /\ R s1' s2'.

  Notation hrel := (hrel f g ok2).
  Notation st2of := (st2of Op1 Res1 Op2 Res2 g).
  Notation pinv := (pinv Op1 Res1 Op2 f ok2).

  Lemma transfer_inst_final : forall (i1 : list (iev Op1 Res1)) p st1 s1 h2 s2 s1f,
    wf_inst Op1 Res1 st1 i1 -> legalF Op1 Res1 St1 spec1 s1 i1 s1f -> hrel p (erase Op1 Res1 i1) h2 ->
    pinv p st1 -> R s1 s2 ->
    exists i2 s2f, erase Op2 Res2 i2 = h2 /\ wf_inst Op2 Res2 (st2of p st1) i2
                   /\ legalF Op2 Res2 St2 spec2 s2 i2 s2f /\ R s1f s2f.
  Proof.
    induction i1 as [|e l IH]; intros p st1 s1 h2 s2 s1f Hw Hl Hh Hp HR.
    - cbn in Hh. inversion Hh; subst. inversion Hl; subst. exists [], s2. split; [reflexivity|]. split; [constructor|]. split; [constructor | exact HR].
    - destruct e as [t o1|t o1 r|t r]; cbn [erase] in Hh.
      + apply hrel_inv_i in Hh. destruct Hh as [o [h2' [Eo [Hok [Eh Hh]]]]]. subst o1 h2.
        apply wf_inv_i in Hw. destruct Hw as [Hst Hw]. apply legalF_inv_i in Hl.
        destruct (IH (upd p t (Some o)) (upd st1 t (TInvoked (f o))) s1 h2' s2 s1f) as [i2 [s2f [E [W [L HRf]]]]]; try assumption.
        { intros t'. unfold upd. destruct (Nat.eq_dec t' t) as [->|Hn].
          - exists o. auto.
          - apply Hp. }
        exists (IInv t o :: i2), s2f. split; [cbn; rewrite E; reflexivity|]. split; [|split; [constructor; exact L | exact HRf]].
        constructor.
        * unfold CX_trans.st2of. rewrite Hst. reflexivity.
        * eapply wf_inst_ext; [|exact W]. intros t'. unfold CX_trans.st2of, upd.
          destruct (Nat.eq_dec t' t); reflexivity.
      + apply wf_lin_i in Hw. destruct Hw as [Hst Hw]. apply legalF_lin_i in Hl. destruct Hl as [s' [Hsp Hl]].
        pose proof (Hp t) as Hpt. rewrite Hst in Hpt. destruct Hpt as [o [Ep [Eo Hok]]]. subst o1.
        destruct (sim s1 s2 o r s' HR Hok Hsp) as [s2' [Hs2 HR']].
        destruct (IH p (upd st1 t (TLinearized (f o) r)) s' h2 s2' s1f) as [i2 [s2f [E [W [L HRf]]]]]; try assumption.
        { intros t'. unfold upd. destruct (Nat.eq_dec t' t) as [->|Hn].
          - exists o. auto.
          - apply Hp. }
        exists (ILin t o (g o r) :: i2), s2f. split; [cbn; exact E|]. split; [|split; [econstructor; eassumption | exact HRf]].
        constructor.
        * unfold CX_trans.st2of. rewrite Hst, Ep. reflexivity.
        * eapply wf_inst_ext; [|exact W]. intros t'. unfold CX_trans.st2of, upd.
          destruct (Nat.eq_dec t' t) as [->|Hn]; [rewrite Ep; reflexivity | reflexivity].
      + apply hrel_res_i in Hh. destruct Hh as [o [h2' [Ep [Eh Hh]]]]. subst h2.
        apply wf_res_i in Hw. destruct Hw as [o1 [Hst Hw]]. apply legalF_res_i in Hl.
        destruct (IH (upd p t None) (upd st1 t TIdle) s1 h2' s2 s1f) as [i2 [s2f [E [W [L HRf]]]]]; try assumption.
        { intros t'. unfold upd. destruct (Nat.eq_dec t' t) as [->|Hn]; [exact I | apply Hp]. }
        exists (IRes t (g o r) :: i2), s2f. split; [cbn; rewrite E; reflexivity|]. split; [|split; [constructor; exact L | exact HRf]].
        econstructor.
        * unfold CX_trans.st2of. rewrite Hst, Ep. reflexivity.
        * eapply wf_inst_ext; [|exact W]. intros t'. unfold CX_trans.st2of, upd.
          destruct (Nat.eq_dec t' t); reflexivity.
  Qed.

  Theorem lin_transfer_final s1 s2 h1 h2 s1f :
    R s1 s2 -> hrel (fun _ => None) h1 h2 ->
    linearizableF Op1 Res1 St1 spec1 s1 h1 s1f ->
    exists s2f, linearizableF Op2 Res2 St2 spec2 s2 h2 s2f /\ R s1f s2f.
  Proof.
    intros HR Hh [i1 [E [W L]]]. subst h1.
    destruct (transfer_inst_final i1 (fun _ => None) (fun _ => TIdle) s1 h2 s2 s1f W L Hh) as [i2 [s2f [E2 [W2 [L2 HRf]]]]].
    - intros t. exact I.
    - exact HR.
    - exists s2f. split; [|exact HRf]. exists i2. split; [exact E2|]. split; [|exact L2].
      eapply wf_inst_ext; [|exact W2]. intros t. reflexivity.
  Qed.

End TransferF.

Section TransF.
  Context {K V : Type}.
  Variable eqd : forall a b : K, {a = b} + {a <> b}.
  Variable e : env.

  Notation item := (item V).
  Notation cmop := (cmop K V).
  Notation imres := (imres K V).
  Notation xop := (@xop K item).
  Notation xres := (@xres K item).

  Theorem mapof_lin_transfer_final hx hm mxf :
    hrel (translate e) (back e) mapcall_ok (fun _ => None) hx hm ->
    linearizableF xop xres (amap K item) (xspec eqd) aempty hx mxf ->
    exists mf, linearizableF cmop imres (Base.amap K item) (cmspec eqd e) [] hm mf /\ Rst eqd mxf mf.
  Proof.
    intros Hh Hl.
    eapply (lin_transfer_final xop xres (amap K item) (xspec eqd) cmop imres (Base.amap K item) (cmspec eqd e)
              (translate e) (back e) mapcall_ok (Rst eqd)); [|apply Rst_empty|exact Hh|exact Hl].
    intros s1 s2 o r s1' HR Hok Hs. apply (trans_sim eqd e s1 s2 o r s1' HR Hok Hs).
  Qed.

End TransF.
Print Assumptions mapof_lin_transfer_final.
