(* C02T_methods_of.v -- the generic twin (CacheOfModel.v, xsync_mapof.go) under a
   ticking clock: C02_methods_of.v's route with the clock quantified at every read.

   [psimT]: the two texts make the same sequence of reads, map calls and callback
   events; after a clock read the continuations are similar for EVERY value read;
   at EVERY clock and on EVERY state of the shared map each pair of corresponding map
   calls leaves the same map and reports the same number of user-function
   invocations, and the continuations are again similar on the two results; they
   return the same answer.  [goodT] (C02T_good.v) is preserved by psimT, so every
   method of the twin starts out goodT, and C02T_lin.v applies. *)
From CacheV Require Import Base SpecMap Client CacheModel CacheOfModel Ops SpecTTL Lin LinT Conc ConcT.
From CacheV.gen Require Import Params.
From CacheV.proofs Require Import C01_sim C01_ops C02_good C02_lin C02_methods_of LinT_facts C02T_good C02T_methods C02T_lin.

Section SimT.
  Context {K V : Type}.
  Variable eqd : forall a b : K, {a = b} + {a <> b}.
  Variable zero : V.
  Variable DFLT : Z.
  Variable CB : cbid.

  Notation item := (item V).
  Notation cop := (cop K V).
  Notation cres := (cres K V).
  Notation prog := (prog K V).
  Notation goodT := (goodT eqd zero DFLT CB).
  Notation call_okT := (call_okT eqd zero DFLT CB).
  Notation RmT now := (Rm eqd now DFLT CB).
  Notation env0 NOW := (env0 NOW DFLT).
  Notation lset := (@lset K V).

  (* step-similarity of two programs whose answers are related by RR, the clock free at every read *)
  Fixpoint psimT {A B} (RR : A -> B -> Prop) (p : prog A) (q : prog B) {struct p} : Prop :=
    match p, q with
    | Ret a, Ret b => RR a b
    | ReadNow k, ReadNow k' => forall z, psimT RR (k z) (k' z)
    | ReadDflt k, ReadDflt k' => psimT RR (k DFLT) (k' DFLT)
    | ReadCb k, ReadCb k' => psimT RR (k CB) (k' CB)
    | Emit e k, Emit e' k' => e = e' /\ psimT RR k k'
    | MapCall mo k, MapCall mo' k' =>
        if is_snap mo then is_snap mo' = true /\ forall l, psimT RR (k (RSnap l)) (k' (RSnap l))
        else is_snap mo' = false /\
             forall NOW P, psimT RR (k (snd (map_step eqd P (to_mop (env0 NOW) mo)))) (k' (snd (map_step eqd P (to_mop (env0 NOW) mo'))))
                       /\ fst (map_step eqd P (to_mop (env0 NOW) mo)) = fst (map_step eqd P (to_mop (env0 NOW) mo'))
                       /\ length (fn_events mo (snd (map_step eqd P (to_mop (env0 NOW) mo))))
                          = length (fn_events mo' (snd (map_step eqd P (to_mop (env0 NOW) mo'))))
    | _, _ => False
    end.

  Lemma goodT_MapCall o ci now (S : lset) owe nfn (mo : cmop K V) (k : imres K V -> prog cres) : is_snap mo = false ->
    (goodT o ci (MapCall mo k) now S owe nfn <->
     (forall now', now <= now' -> forall P L, RmT now' P L ->
       call_okT o ci now' S (fst (map_step eqd P (to_mop (env0 now') mo))) L (fun S' =>
         goodT o ci (k (snd (map_step eqd P (to_mop (env0 now') mo)))) now' S'
               (track eqd CB o P (fst (map_step eqd P (to_mop (env0 now') mo))) owe)
               (nfn + length (fn_events mo (snd (map_step eqd P (to_mop (env0 now') mo)))))))).
  Proof.
    intros Hs. destruct mo; try discriminate Hs; cbn [C02T_good.goodT]; split; intros H now' Hle P L HR; specialize (H now' Hle P L HR);
      destruct (map_step eqd P (to_mop (env0 now') _)) as [P' r']; exact H.
  Qed.

  Lemma goodT_Snap o ci now (S : lset) owe nfn (k : imres K V -> prog cres) :
    goodT o ci (MapCall CSnapshot k) now S owe nfn =
    (forall now', now <= now' -> forall P L, RmT now' P L -> forall l,
       call_okT o ci now' S P L (fun S' => goodT o ci (k (RSnap l)) now' S' owe nfn)).
  Proof. reflexivity. Qed.

  (* [goodT] only looks at what step-similarity preserves *)
  Theorem goodT_psimT o ci (p : prog cres) : forall (q : prog cres) now (S : lset) owe nfn,
    psimT eq p q -> goodT o ci p now S owe nfn -> goodT o ci q now S owe nfn.
  Proof.
    induction p as [r|mo k IH|k IH|k IH|d k IH|k IH|c k IH|e k IH]; intros q now S owe nfn Hs Hg;
      destruct q as [r'|mo' k'|k'|k'|d' k'|k'|c' k'|e' k']; cbn [psimT] in Hs; try contradiction.
    - subst r'. exact Hg.
    - destruct (is_snap mo) eqn:Es.
      + destruct Hs as [Es' Hs]. destruct mo; try discriminate Es. destruct mo'; try discriminate Es'.
        rewrite goodT_Snap in *. intros now' Hle P L HR l. eapply call_okT_mono; [|exact (Hg now' Hle P L HR l)].
        intros S'. apply IH. apply Hs.
      + destruct Hs as [Es' Hs]. apply (goodT_MapCall o ci now S owe nfn mo' k' Es').
        pose proof (proj1 (goodT_MapCall o ci now S owe nfn mo k Es) Hg) as Hg'.
        intros now' Hle P L HR. destruct (Hs now' P) as [Hk [EP El]]. rewrite <- EP, <- El.
        eapply call_okT_mono; [|exact (Hg' now' Hle P L HR)]. intros S'. apply IH. exact Hk.
    - cbn [C02T_good.goodT] in *. intros now' Hle. destruct (Hg now' Hle) as [S' [A [B C]]].
      exists S'. split; [exact A|]. split; [exact B|]. eapply IH; [apply Hs | exact C].
    - cbn [C02T_good.goodT] in *. eapply IH; eassumption.
    - cbn [C02T_good.goodT] in *. eapply IH; eassumption.
    - destruct Hs as [<- Hs]. cbn [C02T_good.goodT] in *. destruct e as [c0 k0 v0|k0|k0 v0].
      + destruct Hg as [owe' [A [B C]]]. exists owe'. split; [exact A|]. split; [exact B|]. eapply IH; eassumption.
      + exact Hg.
      + eapply IH; eassumption.
  Qed.

  (* ---------------- the two texts, method by method ---------------- *)

  Lemma psimT_bind {A B A' B'} (RR : A -> B -> Prop) (RR' : A' -> B' -> Prop) (p : prog A) :
    forall (q : prog B) (f : A -> prog A') (g : B -> prog B'),
    psimT RR p q -> (forall a b, RR a b -> psimT RR' (f a) (g b)) ->
    psimT RR' (CacheModel.bind p f) (CacheOfModel.bind q g).
  Proof.
    induction p as [r|mo k IH|k IH|k IH|d k IH|k IH|c k IH|e k IH]; intros q f g Hs Hf;
      destruct q as [r'|mo' k'|k'|k'|d' k'|k'|c' k'|e' k']; cbn [psimT] in Hs; try contradiction;
      cbn [CacheModel.bind CacheOfModel.bind psimT].
    - apply Hf. exact Hs.
    - destruct (is_snap mo).
      + destruct Hs as [E Hs]. split; [exact E|]. intros l. exact (IH _ _ f g (Hs l) Hf).
      + destruct Hs as [E Hs]. split; [exact E|]. intros NOW P. destruct (Hs NOW P) as [Hk [EP El]].
        split; [exact (IH _ _ f g Hk Hf) | split; [exact EP | exact El]].
    - intros z. exact (IH _ _ f g (Hs z) Hf).
    - exact (IH _ _ f g Hs Hf).
    - exact (IH _ _ f g Hs Hf).
    - destruct Hs as [E Hs]. split; [exact E | exact (IH _ f g Hs Hf)].
  Qed.

  (* one non-snapshot map call on each side *)
  Lemma psimT_call {A B} (RR : A -> B -> Prop) (mo mo' : cmop K V) k k' :
    is_snap mo = false -> is_snap mo' = false ->
    (forall NOW P, psimT RR (k (snd (map_step eqd P (to_mop (env0 NOW) mo)))) (k' (snd (map_step eqd P (to_mop (env0 NOW) mo'))))
               /\ fst (map_step eqd P (to_mop (env0 NOW) mo)) = fst (map_step eqd P (to_mop (env0 NOW) mo'))
               /\ length (fn_events mo (snd (map_step eqd P (to_mop (env0 NOW) mo))))
                  = length (fn_events mo' (snd (map_step eqd P (to_mop (env0 NOW) mo'))))) ->
    psimT RR (MapCall mo k) (MapCall mo' k').
  Proof. intros E E' H. cbn [psimT]. rewrite E. split; [exact E' | exact H]. Qed.

  Lemma psimT_RN {A B} (RR : A -> B -> Prop) k k' : (forall NOW, psimT RR (k NOW) (k' NOW)) -> psimT RR (ReadNow k) (ReadNow k').
  Proof. exact (fun H => H). Qed.
  Lemma psimT_RD {A B} (RR : A -> B -> Prop) k k' : psimT RR (k DFLT) (k' DFLT) -> psimT RR (ReadDflt k) (ReadDflt k').
  Proof. exact (fun H => H). Qed.
  Lemma psimT_RC {A B} (RR : A -> B -> Prop) k k' : psimT RR (k CB) (k' CB) -> psimT RR (ReadCb k) (ReadCb k').
  Proof. exact (fun H => H). Qed.
  Lemma psimT_Ret {A B} (RR : A -> B -> Prop) a b : RR a b -> psimT RR (Ret a) (Ret b).
  Proof. exact (fun H => H). Qed.
  Lemma psimT_Emit {A B} (RR : A -> B -> Prop) e k k' : psimT RR k k' -> psimT RR (Emit e k) (Emit e k').
  Proof. intros H. split; [reflexivity | exact H]. Qed.

  Ltac by_map k :=
    let P2 := fresh "P" in let N2 := fresh "NOW" in
    apply psimT_call; [reflexivity | reflexivity |]; intros N2 P2; cbn [to_mop map_step];
    unfold CacheModel.expired, CacheOfModel.expired, CacheOfModel.arg, Conc.env0; cbn [e_now e_dflt];
    destruct (lookup eqd k P2) as [?i|]; cbn [andb negb];
    [match goal with |- context [expiredWithNow ?n ?i] => destruct (expiredWithNow n i) eqn:?He end|]; cbn.

  Lemma psimT_Set k v d : psimT eq (CacheModel.Set_ k v d) (CacheOfModel.Set_ k v d).
  Proof.
    unfold CacheModel.Set_, CacheOfModel.Set_, CacheModel.expiration_prog, CacheOfModel.expiration_prog.
    destruct (d =? DefaultExpiration); [apply psimT_RD|]; cbv beta zeta; [destruct (0 <? DFLT) | destruct (0 <? d)]; try (apply psimT_RN; intros z);
      (apply psimT_call; [reflexivity | reflexivity |]; intros NOW1 P; cbn; auto).
  Qed.

  Definition grel (a : option item) (b : item * bool) : Prop :=
    match a with Some i => b = (i, true) | None => b = (CacheOfModel.zeroedV zero, false) end.

  Lemma psimT_get k : psimT grel (CacheModel.get zero k) (CacheOfModel.get zero k).
  Proof.
    unfold CacheModel.get, CacheOfModel.get.
    apply psimT_call; [reflexivity | reflexivity |]. intros NOW P. cbn [to_mop map_step].
    destruct (lookup eqd k P) as [i|]; cbn [fst snd fn_events length]; [|split; [apply psimT_Ret; reflexivity | auto]].
    split; [|auto]. apply psimT_RN. intros NOW2. destruct (expiredWithNow NOW2 i); cbn [negb]; [|apply psimT_Ret; reflexivity].
    unfold get_closure. by_map k; auto.
  Qed.

  Lemma psimT_Get k : psimT eq (CacheModel.Get zero k) (CacheOfModel.Get zero k).
  Proof.
    unfold CacheModel.Get, CacheOfModel.Get. apply (psimT_bind grel eq); [apply psimT_get|].
    intros [i|] b Hb; cbn in Hb; subst b; apply psimT_Ret; reflexivity.
  Qed.

  Lemma psimT_GetWithExpiration k : psimT eq (CacheModel.GetWithExpiration zero k) (CacheOfModel.GetWithExpiration zero k).
  Proof.
    unfold CacheModel.GetWithExpiration, CacheOfModel.GetWithExpiration. apply (psimT_bind grel eq); [apply psimT_get|].
    intros [i|] b Hb; cbn in Hb; subst b; cbn [negb]; [destruct (0 <? ie i)|]; apply psimT_Ret; reflexivity.
  Qed.

  Lemma psimT_GetWithTTL k : psimT eq (CacheModel.GetWithTTL zero k) (CacheOfModel.GetWithTTL zero k).
  Proof.
    unfold CacheModel.GetWithTTL, CacheOfModel.GetWithTTL. apply (psimT_bind grel eq); [apply psimT_get|].
    intros [i|] b Hb; cbn in Hb; subst b; cbn [negb]; [destruct (0 <? ie i); [apply psimT_RN; intros ?|]|]; apply psimT_Ret; reflexivity.
  Qed.

  Lemma psimT_GetOrSet k v d : psimT eq (CacheModel.GetOrSet zero k v d) (CacheOfModel.GetOrSet zero k v d).
  Proof. unfold CacheModel.GetOrSet, CacheOfModel.GetOrSet. by_map k; auto. Qed.

  (* the captured `old` differs when the entry is expired; the answer does not *)
  Lemma psimT_GetAndSet k v d : psimT eq (CacheModel.GetAndSet zero k v d) (CacheOfModel.GetAndSet zero k v d).
  Proof. unfold CacheModel.GetAndSet, CacheOfModel.GetAndSet. by_map k; auto. Qed.

  Lemma psimT_GetAndRefresh k d : psimT eq (CacheModel.GetAndRefresh zero k d) (CacheOfModel.GetAndRefresh zero k d).
  Proof. unfold CacheModel.GetAndRefresh, CacheOfModel.GetAndRefresh. by_map k; auto. Qed.

  Lemma psimT_GetOrCompute k v d : psimT eq (CacheModel.GetOrCompute zero k v d) (CacheOfModel.GetOrCompute zero k v d).
  Proof. unfold CacheModel.GetOrCompute, CacheOfModel.GetOrCompute. by_map k; auto. Qed.

  Lemma psimT_Compute k fn d : psimT eq (CacheModel.Compute zero k fn d) (CacheOfModel.Compute zero k fn d).
  Proof.
    unfold CacheModel.Compute, CacheOfModel.Compute. by_map k;
      match goal with |- context [fn ?a ?b] => destruct (fn a b) as [? []] end; cbn; auto.
  Qed.

  Lemma psimT_GetAndDelete k : psimT eq (CacheModel.GetAndDelete zero k) (CacheOfModel.GetAndDelete zero k).
  Proof.
    unfold CacheModel.GetAndDelete, CacheOfModel.GetAndDelete.
    apply psimT_call; [reflexivity | reflexivity |]. intros NOW P. cbn [to_mop map_step].
    destruct (lookup eqd k P) as [i|]; cbn [fst snd fn_events length]; (split; [|auto]); [|apply psimT_Ret; reflexivity].
    apply psimT_RN. intros NOW2. apply psimT_RC. unfold CacheModel.fire, CacheOfModel.fire.
    destruct CB; [apply psimT_Emit|]; destruct (expiredWithNow NOW2 i); apply psimT_Ret; reflexivity.
  Qed.

  Lemma psimT_Delete k : psimT eq (CacheModel.Delete zero k) (CacheOfModel.Delete zero k).
  Proof.
    unfold CacheModel.Delete, CacheOfModel.Delete. apply (psimT_bind eq eq); [apply psimT_GetAndDelete|].
    intros a b _. apply psimT_Ret. reflexivity.
  Qed.

  Lemma psimT_fire_all c (l : list (K * V)) :
    psimT eq (CacheModel.fire_all c l (Ret (CUnit (K:=K) (V:=V)))) (CacheOfModel.fire_all c l (Ret CUnit)).
  Proof. induction l as [|[k v] t IH]; cbn [CacheModel.fire_all CacheOfModel.fire_all]; [apply psimT_Ret; reflexivity | apply psimT_Emit; exact IH]. Qed.

  Lemma psimT_delexp_loop ec now (snap : list (K * item)) : forall ev,
    psimT eq (CacheModel.delexp_loop zero ec now snap ev) (CacheOfModel.delexp_loop zero ec now snap ev).
  Proof.
    induction snap as [|[k i0] t IH]; intros ev; cbn [CacheModel.delexp_loop CacheOfModel.delexp_loop].
    - destruct ec; [apply psimT_fire_all | apply psimT_Ret; reflexivity].
    - destruct (expiredWithNow now i0); [|apply IH].
      apply psimT_call; [reflexivity | reflexivity |]. intros NOW P. cbn [to_mop map_step].
      unfold CacheModel.delexp_closure, CacheOfModel.delexp_closure, CacheOfModel.arg.
      destruct (lookup eqd k P) as [cur|]; cbn [andb].
      + destruct (expiredWithNow now cur); cbn; (split; [|auto]); [destruct ec|]; apply IH.
      + cbn. split; [apply IH | auto].
  Qed.

  Lemma psimT_DeleteExpired : psimT eq (CacheModel.DeleteExpired zero) (CacheOfModel.DeleteExpired (K:=K) zero).
  Proof.
    unfold CacheModel.DeleteExpired, CacheOfModel.DeleteExpired. apply psimT_RC, psimT_RN. intros now.
    cbn [psimT is_snap]. split; [reflexivity|]. intros l. apply psimT_delexp_loop.
  Qed.

  Lemma psimT_Clear : psimT eq (@CacheModel.Clear K V) (@CacheOfModel.Clear K V).
  Proof. unfold CacheModel.Clear, CacheOfModel.Clear. apply psimT_call; [reflexivity | reflexivity |]. intros NOW P. cbn. auto. Qed.

  (* ---------- every call of a concurrent phase starts out good, in the generic twin too ---------- *)

  Theorem psimT_init (o : cop) : conc_ok o -> psimT eq (prog_cache eqd zero o) (prog_cacheof eqd zero o).
  Proof.
    destruct o; cbn [conc_ok prog_cache prog_cacheof]; intros Hc; try contradiction.
    - apply psimT_Set. - apply psimT_Set. - apply psimT_Set.
    - apply psimT_Get. - apply psimT_GetWithExpiration. - apply psimT_GetWithTTL.
    - apply psimT_GetOrSet. - apply psimT_GetAndSet. - apply psimT_GetAndRefresh.
    - apply psimT_GetOrCompute. - apply psimT_Compute.
    - apply psimT_GetAndDelete. - apply psimT_Delete. - apply psimT_DeleteExpired. - apply psimT_Clear.
  Qed.


  Theorem goodT_init_of (o : cop) ci : conc_ok o -> goodT o ci (prog_cacheof eqd zero o) ci (eq None) [] 0.
  Proof.
    intros Hc. apply (goodT_psimT o ci (prog_cache eqd zero o)); [apply psimT_init; exact Hc | apply goodT_init; exact Hc].
  Qed.

  (* ---------------- the theorems for the twin ---------------- *)

  Theorem cacheof_linearizable_ticking (now0 : Z) (P0 L0 : amap K item) (todo : nat -> list cop) sched :
    Rm eqd now0 DFLT CB P0 L0 ->
    (forall t, Forall conc_ok (todo t)) ->
    cache_linearizableT eqd zero (mk now0 DFLT CB L0)
      (historyT (snd (trun eqd (prog_cacheof eqd zero) DFLT CB (tinit now0 P0 todo) sched))).
  Proof.
    apply (gen_linearizableT eqd zero DFLT CB (prog_cacheof eqd zero) goodT_init_of).
  Qed.

  Theorem cacheof_monitored_ticking (now0 : Z) (P0 L0 : amap K item) (todo : nat -> list cop) sched t :
    Rm eqd now0 DFLT CB P0 L0 ->
    (forall t, Forall conc_ok (todo t)) ->
    mon_accepts CB t mon_idle (untick (snd (trun eqd (prog_cacheof eqd zero) DFLT CB (tinit now0 P0 todo) sched))).
  Proof.
    apply (gen_monitoredT eqd zero DFLT CB (prog_cacheof eqd zero) goodT_init_of).
  Qed.

End SimT.

Print Assumptions cacheof_linearizable_ticking.
Print Assumptions cacheof_monitored_ticking.
