(* C07_range.v -- what a traversal of the cache model visits (sequential case). *)
From CacheV Require Import Base SpecMap Client CacheModel Ops SpecTTL.
From CacheV.gen Require Import Params.
From CacheV.proofs Require Import C01_sim.

Section RangeFacts.
  Context {K V : Type}.
  Variable eqd : forall a b : K, {a = b} + {a <> b}.
  Variable zero : V.
  Notation item := (item V).

  (* the pairs handed to the visitor, in order *)
  Fixpoint visits (now : Z) (f : K -> V -> bool) (l : list (K * item)) : list (K * V) :=
    match l with
    | [] => []
    | (k, i) :: t =>
        if expiredWithNow now i then visits now f t
        else if f k (iv i) then (k, iv i) :: visits now f t
        else [(k, iv i)]
    end.

  Lemma run_range_loop now f l : forall vis (m : cstate K V),
    run_seq eqd (range_loop now f l vis) m =
    (m, CList (vis ++ visits now f l), map (fun '(k, v) => EVisit k v) (visits now f l)).
  Proof.
    induction l as [|[k i] t IH]; intros vis m; cbn [range_loop visits run_seq].
    - rewrite app_nil_r. reflexivity.
    - destruct (expiredWithNow now i); [apply IH|].
      cbn [run_seq]. destruct (f k (iv i)).
      + rewrite IH. rewrite <- app_assoc. reflexivity.
      + cbn. reflexivity.
  Qed.

  (* ---------- pick / reorder only permute ---------- *)

  Lemma pick_perm k (l : list (K * item)) :
    match pick eqd k l with
    | (Some p, rest) => Permutation l (p :: rest)
    | (None, rest) => rest = l
    end.
  Proof.
    induction l as [|[k' i] t IH]; cbn [pick]; auto.
    destruct (eqd k k'); [apply Permutation_refl|].
    destruct (pick eqd k t) as [[p|] rest].
    - eapply perm_trans; [apply perm_skip, IH | apply perm_swap].
    - subst. reflexivity.
  Qed.

  Lemma reorder_perm hint : forall l : list (K * item), Permutation l (reorder eqd hint l).
  Proof.
    induction hint as [|k hs IH]; intros l; cbn [reorder]; [apply Permutation_refl|].
    pose proof (pick_perm k l) as H. destruct (pick eqd k l) as [[p|] rest].
    - eapply perm_trans; [exact H | apply perm_skip, IH].
    - subst. apply IH.
  Qed.

  (* ---------- what [visits] guarantees about a list without duplicate keys ---------- *)

  Definition live_in (now : Z) (l : list (K * item)) (k : K) (v : V) : Prop :=
    exists i, In (k, i) l /\ expiredWithNow now i = false /\ iv i = v.

  Lemma visits_sound now f l k v : In (k, v) (visits now f l) -> live_in now l k v.
  Proof.
    induction l as [|[k' i] t IH]; cbn [visits]; [intros []|].
    destruct (expiredWithNow now i) eqn:He.
    - intros H. destruct (IH H) as [i' [Hin Hr]]. exists i'. split; [right; auto | auto].
    - destruct (f k' (iv i)).
      + intros [E|H].
        * inversion E; subst. exists i. split; [left; auto | auto].
        * destruct (IH H) as [i' [Hin Hr]]. exists i'. split; [right; auto | auto].
      + intros [E|[]]. inversion E; subst. exists i. split; [left; auto | auto].
  Qed.

  Lemma visits_keys_subset now f l k : In k (map fst (visits now f l)) -> In k (map fst l).
  Proof.
    intros H. apply in_map_iff in H. destruct H as [[k' v] [E Hin]]. cbn in E. subst.
    apply visits_sound in Hin. destruct Hin as [i [Hin _]].
    change k with (fst (k, i)). apply in_map; auto.
  Qed.

  Lemma visits_nodup now f l : NoDup (map fst l) -> NoDup (map fst (visits now f l)).
  Proof.
    induction l as [|[k i] t IH]; cbn [visits map]; [constructor|].
    intros H. inversion H; subst.
    destruct (expiredWithNow now i); [auto|].
    destruct (f k (iv i)); cbn [map fst].
    - constructor; auto. intros Hin. apply visits_keys_subset in Hin. auto.
    - constructor; [tauto | constructor].
  Qed.

  Lemma visits_go_on now f l pre k v post :
    visits now f l = pre ++ (k, v) :: post -> post <> [] -> f k v = true.
  Proof.
    revert pre. induction l as [|[k' i] t IH]; cbn [visits]; intros pre.
    - destruct pre; discriminate.
    - destruct (expiredWithNow now i); [apply IH|].
      destruct (f k' (iv i)) eqn:Hf.
      + destruct pre as [|p pre]; cbn; intros E Hp; inversion E; subst; [auto|]. eapply IH; eauto.
      + destruct pre as [|p pre]; cbn; intros E Hp; inversion E; subst; [congruence|].
        destruct pre; discriminate.
  Qed.

  Lemma visits_end now f l :
    (exists pre k v, visits now f l = pre ++ [(k, v)] /\ f k v = false)
    \/ ((forall k v, In (k, v) (visits now f l) -> f k v = true)
        /\ forall k i, In (k, i) l -> expiredWithNow now i = false -> In (k, iv i) (visits now f l)).
  Proof.
    induction l as [|[k' i] t IH]; cbn [visits].
    - right. split; intros; contradiction.
    - destruct (expiredWithNow now i) eqn:He.
      + destruct IH as [IH|[IH1 IH2]]; [left; exact IH|]. right. split; [exact IH1|].
        intros k i' [E|Hin] Hl; [inversion E; subst; congruence | auto].
      + destruct (f k' (iv i)) eqn:Hf.
        * destruct IH as [[pre [k [v [E Hfv]]]]|[IH1 IH2]].
          -- left. exists ((k', iv i) :: pre), k, v. rewrite E. auto.
          -- right. split.
             ++ intros k v [E|Hin]; [inversion E; subst; auto | auto].
             ++ intros k i' [E|Hin] Hl; [inversion E; subst; left; auto | right; auto].
        * left. exists [], k', (iv i). auto.
  Qed.

End RangeFacts.
