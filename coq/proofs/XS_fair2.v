(* XS_fair2.v -- fair termination of XMachineS (Map) WITH WRITERS, for systems whose Range visitors never call the map (NV) --
   stage 1: systems in which no resize can start (grow_needed == false, grow_only = true, no Clear to come, flag clear).
   The (Good, M) pair for XS_fair.s_fair_cond: Good = NVR /\ CAPB, M = MW.
   The measure: Part 2 of XS_fair.v (lock / spin: the thread that ACQUIRES a bucket lock pays W5 = 5|ths|, an unlock or a store of the
   holder into the lock word raises nobody) plus: every store into a chain pays W3 = 3|ths| (each reader may have to retry one slot),
   the locked scan and the readers are bounded by the cap CB on the number of buckets of a chain, kept by the invariant
   buckets(chain) + Npre <= CB (Npre: the calls that may still append a bucket). *)
From CacheV Require Import Base SpecMap XMachineS.
From CacheV.proofs Require Import X_maps XS_inv XS_lock XS_own XS_count XS_cells XS_read XS_fn XS_range XS_term.
From CacheV.proofs Require Import X_fair XS_fair.
From Coq Require Import NArith Lia.
Local Open Scope nat_scope.

Section WFair.
  Context {K V : Type}.
  Variable eqd : forall a b : K, {a = b} + {a <> b}.
  Variable hash : K -> N -> N.
  Variable idx : N -> nat -> nat.
  Variable tophash : N -> N.
  Variable nslots : nat.
  Variable seeds : nat -> N.
  Variable grow_needed : nat -> Z -> bool.
  Variable shrink_policy : nat -> Z -> bool.
  Variable nstripes : nat -> nat.
  Variable minlen : nat.
  Variable grow_only : bool.

  Notation mstate := (@mstate K V).
  Notation mtable := (@mtable K V).
  Notation spc := (@spc K V).
  Notation sop := (@sop K V).
  Notation slabel := (@slabel K V).
  Notation sstep_pc := (@sstep_pc K V eqd hash idx tophash nslots seeds grow_needed shrink_policy nstripes minlen grow_only).
  Notation sstep := (@sstep K V eqd hash idx tophash nslots seeds grow_needed shrink_policy nstripes minlen grow_only).
  Notation stab_at := (@stab_at K V nslots nstripes).
  Notation sinvoke := (@sinvoke K V).
  Notation TI := (@TI K V hash idx tophash nslots nstripes).
  Notation sholds := (@sholds K V hash idx nslots nstripes).
  Notation lock_of := (@lock_of K V nslots nstripes).
  Notation spinning := (@spinning K V nslots nstripes).
  Notation sword_at := (@sword_at K V nslots).
  Notation shome := (@shome K V hash idx).

  Hypothesis Hnslots : 0 < nslots.
  Hypothesis Hidx : forall h len, 0 < len -> idx h len < len.
  Hypothesis Hslots : nslots <= 3.
  Hypothesis Htop : forall k sd, (tophash (hash k sd) < 1048576)%N.
  Hypothesis Hminlen : 0 < minlen.
  Hypothesis Hstripes : forall len, 0 < nstripes len.
  (* no resize can start *)
  Hypothesis Hng : forall len sum, grow_needed len sum = false.
  Hypothesis Hgo : grow_only = true.

  Variable ths : list nat.
  Hypothesis Hnd : NoDup ths.
  Variable CB : nat.                       (* cap on the number of buckets of a chain *)

  (* ---------------- the program counters and operations of such a system ---------------- *)

  Definition nv_lk (lk : @lockk K V) : Prop := match lk with LKCompute _ => True | LKRange vf => ncb_vf vf | LKCopy _ _ _ => False end.
  Definition nv_rg (rg : option (list (K * V) * (K -> V -> option (@scx K V)))) : Prop := match rg with None => True | Some (_, vf) => ncb_vf vf end.
  Definition nv_after (a : spc) : Prop :=
    match a with
    | QRet _ | QW_Table _ => True
    | QA_Add _ _ _ (QRet _) => True
    | QK_Load _ _ (LKRange vf) => ncb_vf vf
    | _ => False
    end.

  Definition nv_pc (p : spc) : Prop :=
    match p with
    | QStart | QIdle => True
    | QL_Table _ _ | QL_Top _ _ _ _ _ | QL_Val _ _ _ _ _ _ | QL_Key _ _ _ _ _ _ _ | QL_Val2 _ _ _ _ _ _ _ _ | QL_Next _ _ _ _ _ => True
    | QK_Load _ _ lk | QK_Spin _ _ lk | QK_CAS _ _ _ lk | QK_Yield _ _ lk => nv_lk lk
    | QU_Load _ _ rg a | QU_Store _ _ _ rg a => nv_rg rg /\ nv_after a
    | QW_Table _ | QW_ChkRes _ _ | QW_ChkTab _ _ | QW_Scan _ _ _ _ _ | QW_D1 _ _ _ _ _ _ | QW_D2 _ _ _ _ _ | QW_D3 _ _ _ _ _
    | QW_U1 _ _ _ _ _ | QW_I0 _ _ _ _ | QW_I1 _ _ _ _ _ | QW_I2 _ _ _ _ | QW_I3 _ _ _ _ | QW_Sum _ _ _ _ | QW_N1 _ _ _ => True
    | QA_Add _ _ _ (QRet _) => True
    | QG_Table vf => ncb_vf vf
    | QS_Table | QS_Sum _ _ _ => True
    | _ => False
    end.

  Definition nv_op (o : sop) : Prop :=
    match o with SLoad _ | SSize | SCompute _ _ _ _ _ => True | SRange vf => ncb_vf vf | SClear => False end.

  Definition NVR (s : mstate) : Prop :=
    (forall t, nv_pc (h_pc s t)) /\ (forall t o, In o (h_todo s t) -> nv_op o) /\ (forall t, h_frame s t = None) /\ h_resizing s = false.

  (* ---------------- the measure ---------------- *)

  Definition W5 : nat := 5 * length ths.
  Definition W3 : nat := 3 * length ths.
  Definition PB : nat := W5 + 8.
  Definition WB : nat := 3 * nslots + 5.

  Definition LENs (s : mstate) (tab : nat) : nat := m_len (stab_at s tab).
  Definition NSs (s : mstate) (tab : nat) : nat := snstr (stab_at s tab).
  Definition G (s : mstate) (tab b : nat) : nat := (LENs s tab - b) * PB.
  Definition lockedb (s : mstate) (tab b : nat) : bool := match lock_of s tab b with Some _ => true | None => false end.
  Definition freshb (s : mstate) (tab b : nat) (v : bword) : bool := N.eqb (word_val (sword_at (stab_at s tab) b 0)) (word_val v).
  Definition curv (s : mstate) (tab : nat) (h : N) (bi : nat) (todo : list nat) : option (V * nat) :=
    match todo with
    | i :: _ => ms_val (sslot_at (stab_at s tab) (idx h (m_len (stab_at s tab))) (bi * nslots + i))
    | [] => None
    end.
  Definition stale3 (id : nat) (cur : option (V * nat)) : nat :=
    match cur with Some (_, id') => if Nat.eqb id id' then 0 else 3 | None => 3 end.

  (* the locked part of doCompute from the scan on: CB - bi buckets to scan, then at most the sum and three stores *)
  Definition SC (s : mstate) (tab : nat) : nat := NSs s tab + 2 * W3 + 9.
  (* one whole attempt of doCompute in the current table *)
  Definition ATT (s : mstate) : nat := CB + SC s (h_cur s) + W5 + 11.
  (* after lockBucket, in doCompute *)
  Definition BC (s : mstate) (tab : nat) : nat := if Nat.eqb (h_cur s) tab then CB + SC s tab + 2 else ATT s + 4.
  Definition lkbase (s : mstate) (tab b : nat) (lk : @lockk K V) : nat :=
    match lk with LKRange _ => G s tab (S b) | LKCompute _ => BC s tab | LKCopy _ _ _ => 0 end.
  Definition LCr (s : mstate) (lc : @slcont K V) : nat := match lc with SLPlain => 0 | SLFast _ => ATT s + 1 end.

  (* the continuation of an unlock / addSize, at its dearest *)
  Fixpoint tailc (s : mstate) (a : spc) : nat :=
    match a with
    | QA_Add _ _ _ a' => 1 + tailc s a'
    | QW_Table _ => ATT s
    | QK_Load tab b lk => lkbase s tab b lk + W5 + 6
    | _ => 0
    end.

  Definition lam (s : mstate) (p : spc) : nat :=
    match p with
    | QStart => 1
    | QL_Table _ lc => CB * WB + 3 * nslots + 4 + LCr s lc
    | QL_Top _ lc _ _ bi => (CB - bi) * WB + 3 * nslots + 3 + LCr s lc
    | QL_Val _ lc _ _ bi todo => (CB - bi) * WB + 3 * length todo + 2 + LCr s lc
    | QL_Key _ lc tab h bi todo vp =>
        (CB - bi) * WB + 3 * length todo + 1 + LCr s lc + match vp with Some (_, id) => stale3 id (curv s tab h bi todo) | None => 0 end
    | QL_Val2 _ lc tab h bi todo _ id => (CB - bi) * WB + 3 * length todo + LCr s lc + stale3 id (curv s tab h bi todo)
    | QL_Next _ lc _ _ bi => (CB - bi) * WB + 1 + LCr s lc
    | QK_Load tab b lk => lkbase s tab b lk + W5 + 2 + (if lockedb s tab b then 4 else 2)
    | QK_Spin tab b lk => lkbase s tab b lk + W5 + 2 + (if lockedb s tab b then 4 else 3)
    | QK_Yield tab b lk => lkbase s tab b lk + W5 + 2 + 5
    | QK_CAS tab b v lk => lkbase s tab b lk + W5 + 2 + (if freshb s tab b v then 1 else 6)
    | QU_Load _ _ _ a => tailc s a + 2
    | QU_Store _ _ _ _ a => tailc s a + 1
    | QA_Add _ _ _ a => tailc s a + 1
    | QW_Table _ => ATT s
    | QW_ChkRes _ tab => BC s tab
    | QW_ChkTab _ tab => if Nat.eqb (h_cur s) tab then CB + SC s tab + 1 else ATT s + 3
    | QW_Scan _ tab bi _ _ => (CB - bi) + SC s tab
    | QW_Sum _ tab i _ => (NSs s tab - i) + W3 + 5
    | QW_D1 _ _ _ _ _ _ => 2 * W3 + 6
    | QW_D2 _ _ _ _ _ => 2 * W3 + 5
    | QW_D3 _ _ _ _ _ => W3 + 4
    | QW_U1 _ _ _ _ _ => W3 + 3
    | QW_I0 _ _ _ _ => 2 * W3 + 7
    | QW_I1 _ _ _ _ _ => 2 * W3 + 6
    | QW_I2 _ _ _ _ => 2 * W3 + 5
    | QW_I3 _ _ _ _ => W3 + 4
    | QW_N1 _ _ _ => W3 + 4
    | QG_Table _ => G s (h_cur s) 0 + 1
    | QS_Table => NSs s (h_cur s) + 2
    | QS_Sum tab i _ => NSs s tab - i + 1
    | _ => 0
    end.

  Definition KKs (s : mstate) : nat := CB * WB + 3 * nslots + 4 + ATT s + 1 + G s (h_cur s) 0 + 1 + NSs s (h_cur s) + 2.

  Definition Mt (s : mstate) (t : nat) : nat := (KKs s + 1) * length (h_todo s t) + lam s (h_pc s t).
  Definition MW (s : mstate) : nat := psum (Mt s) ths.

  Lemma nv_start (o : sop) : nv_op o -> nv_pc (sstart_pc o).
  Proof. destruct o; cbn [nv_op sstart_pc]; intros H; try contradiction; cbn [nv_pc]; auto. unfold sstart_cx. destruct (sc_lie _); exact I. Qed.

  Lemma lam_start_le s (o : sop) : nv_op o -> lam s (sstart_pc o) <= KKs s.
  Proof.
    destruct o; cbn [nv_op sstart_pc]; intros H; try contradiction; unfold KKs; try (cbn [lam LCr]; lia).
    unfold sstart_cx. destruct (sc_lie _); cbn [lam LCr]; lia.
  Qed.

  (* the calls that may still append a bucket to a chain *)
  Fixpoint mayapp (p : spc) : nat :=
    match p with
    | QL_Table _ (SLFast _) | QL_Top _ (SLFast _) _ _ _ | QL_Val _ (SLFast _) _ _ _ _ | QL_Key _ (SLFast _) _ _ _ _ _
    | QL_Val2 _ (SLFast _) _ _ _ _ _ _ | QL_Next _ (SLFast _) _ _ _ => 1
    | QK_Load _ _ (LKCompute _) | QK_Spin _ _ (LKCompute _) | QK_CAS _ _ _ (LKCompute _) | QK_Yield _ _ (LKCompute _) => 1
    | QW_Table _ | QW_ChkRes _ _ | QW_ChkTab _ _ | QW_Scan _ _ _ _ _ | QW_Sum _ _ _ _ | QW_N1 _ _ _ => 1
    | QU_Load _ _ _ a | QU_Store _ _ _ _ a => mayapp a
    | _ => 0
    end.
  Definition Npre (s : mstate) : nat := psum (fun t => length (h_todo s t) + mayapp (h_pc s t)) ths.
  Definition CAPB (s : mstate) : Prop := forall tab b, snbuckets nslots (schain_of (stab_at s tab) b) + Npre s <= CB.

  (* ---------------- how two states may differ ---------------- *)

  Definition SHP (s s' : mstate) : Prop :=
    h_cur s' = h_cur s
    /\ forall j, m_len (stab_at s' j) = m_len (stab_at s j) /\ snstr (stab_at s' j) = snstr (stab_at s j) /\ m_seed (stab_at s' j) = m_seed (stab_at s j).
  Definition VEQ (s s' : mstate) : Prop := forall j, m_chains (stab_at s' j) = m_chains (stab_at s j).
  Definition W0 (s s' : mstate) : Prop := forall tab b, sword_at (stab_at s' tab) b 0 = sword_at (stab_at s tab) b 0.

  Lemma SHP_facts s s' : SHP s s' ->
    (forall tab, LENs s' tab = LENs s tab) /\ (forall tab, NSs s' tab = NSs s tab) /\ (forall tab b, G s' tab b = G s tab b)
    /\ (forall tab, SC s' tab = SC s tab) /\ ATT s' = ATT s /\ (forall tab, BC s' tab = BC s tab)
    /\ (forall tab b lk, lkbase s' tab b lk = lkbase s tab b lk) /\ (forall lc, LCr s' lc = LCr s lc)
    /\ (forall a, tailc s' a = tailc s a) /\ KKs s' = KKs s.
  Proof.
    intros [Hc H].
    assert (L : forall tab, LENs s' tab = LENs s tab) by (intros tab; apply (H tab)).
    assert (Nq : forall tab, NSs s' tab = NSs s tab) by (intros tab; apply (H tab)).
    assert (Gq : forall tab b, G s' tab b = G s tab b) by (intros; unfold G; rewrite L; reflexivity).
    assert (Sq : forall tab, SC s' tab = SC s tab) by (intros; unfold SC; rewrite Nq; reflexivity).
    assert (Aq : ATT s' = ATT s) by (unfold ATT; rewrite Hc, Sq; reflexivity).
    assert (Bq : forall tab, BC s' tab = BC s tab) by (intros; unfold BC; rewrite Hc, Sq, Aq; reflexivity).
    assert (Kq : forall tab b lk, lkbase s' tab b lk = lkbase s tab b lk) by (intros tab b lk; destruct lk; cbn [lkbase]; rewrite ?Gq, ?Bq; reflexivity).
    split; [exact L|]. split; [exact Nq|]. split; [exact Gq|]. split; [exact Sq|]. split; [exact Aq|]. split; [exact Bq|]. split; [exact Kq|].
    split; [intros lc; destruct lc; cbn [LCr]; rewrite ?Aq; reflexivity|].
    split; [intros a; induction a; cbn [tailc]; rewrite ?Aq, ?Kq, ?IHa; reflexivity|].
    unfold KKs. rewrite Aq, Hc, Gq, Nq. reflexivity.
  Qed.

  Lemma curv_VEQ s s' : SHP s s' -> VEQ s s' -> forall tab h bi todo, curv s' tab h bi todo = curv s tab h bi todo.
  Proof.
    intros [_ H] HV tab h bi todo. unfold curv, XMachineS.sslot_at, schain_of. rewrite (proj1 (H tab)), (HV tab). reflexivity.
  Qed.

  Definition on_bucket (q : spc) (tab b : nat) : Prop :=
    match q with QK_Load tab' b' _ | QK_Spin tab' b' _ | QK_Yield tab' b' _ | QK_CAS tab' b' _ _ => tab' = tab /\ b' = b | _ => False end.

  Ltac lam_norm HS HV :=
    let Hc := fresh "Hc" in pose proof (proj1 HS) as Hc;
    destruct (SHP_facts _ _ HS) as [L [Nq [Gq [Sq [Aq [Bq [Kq [Lq [Tq _]]]]]]]]];
    cbn [lam]; rewrite ?Hc, ?L, ?Nq, ?Gq, ?Sq, ?Aq, ?Bq, ?Kq, ?Lq, ?Tq.

  Lemma lam_eq s s' (q : spc) : SHP s s' -> VEQ s s' ->
    (forall tab b, on_bucket q tab b -> sword_at (stab_at s' tab) b 0 = sword_at (stab_at s tab) b 0) -> lam s' q = lam s q.
  Proof.
    intros HS HV Hw. pose proof (curv_VEQ s s' HS HV) as Cv.
    destruct q; lam_norm HS HV; rewrite ?Cv; try reflexivity.
    all: unfold lockedb, freshb, XS_lock.lock_of, lockT; change (tabT nslots nstripes (h_tabs s') tab) with (stab_at s' tab);
         change (tabT nslots nstripes (h_tabs s) tab) with (stab_at s tab); rewrite (Hw tab b (conj eq_refl eq_refl)); reflexivity.
  Qed.

  Lemma lam_sp5 s s' (q : spc) : SHP s s' -> VEQ s s' -> lam s' q <= lam s q + 5.
  Proof.
    intros HS HV. pose proof (curv_VEQ s s' HS HV) as Cv.
    destruct q; lam_norm HS HV; rewrite ?Cv; try lia.
    all: repeat match goal with |- context [if ?c then _ else _] => destruct c end; lia.
  Qed.

  Lemma lam_mx s s' (q : spc) : SHP s s' -> VEQ s s' ->
    (forall tab b, on_bucket q tab b -> lockedb s tab b = true /\ forall v lk, q = QK_CAS tab b v lk -> freshb s tab b v = false) ->
    lam s' q <= lam s q.
  Proof.
    intros HS HV Hm. pose proof (curv_VEQ s s' HS HV) as Cv.
    destruct q; lam_norm HS HV; rewrite ?Cv; try lia.
    all: destruct (Hm tab b (conj eq_refl eq_refl)) as [A B]; rewrite ?A, ?(B _ _ eq_refl);
         repeat match goal with |- context [if ?c then _ else _] => destruct c end; lia.
  Qed.

  Lemma stale3_le3 id c : stale3 id c <= 3.
  Proof. unfold stale3. destruct c as [[? ?]|]; [destruct (Nat.eqb _ _)|]; lia. Qed.

  (* a store into a chain: a reader may have to retry one slot *)
  Lemma lam_sp3 s s' (q : spc) : SHP s s' -> W0 s s' -> lam s' q <= lam s q + 3.
  Proof.
    intros HS Hw.
    assert (Hlk : forall tab b, lockedb s' tab b = lockedb s tab b /\ forall v, freshb s' tab b v = freshb s tab b v).
    { intros tab b. unfold lockedb, freshb, XS_lock.lock_of, lockT. change (tabT nslots nstripes (h_tabs s') tab) with (stab_at s' tab).
      change (tabT nslots nstripes (h_tabs s) tab) with (stab_at s tab). rewrite (Hw tab b). auto. }
    destruct q; lam_norm HS HS; rewrite ?(proj1 (Hlk _ _)), ?(proj2 (Hlk _ _)); try lia.
    - destruct vp as [[? id]|]; [|lia]. pose proof (stale3_le3 id (curv s' tab h bi todo)). lia.
    - pose proof (stale3_le3 id (curv s' tab h bi todo)). lia.
  Qed.

  Lemma lam_rel s s' tab b (q : spc) : SHP s s' -> VEQ s s' ->
    (forall tab' b', (tab' <> tab \/ b' <> b) -> sword_at (stab_at s' tab') b' 0 = sword_at (stab_at s tab') b' 0) ->
    lockedb s tab b = true -> (forall v lk, q = QK_CAS tab b v lk -> freshb s tab b v = false) -> lam s' q <= lam s q.
  Proof.
    intros HS HV Hw Hl Hf.
    assert (Hgen : forall tab0 b0, on_bucket q tab0 b0 -> (forall v lk, q = QK_CAS tab0 b0 v lk -> tab0 = tab -> b0 = b -> freshb s tab b v = false) -> lam s' q <= lam s q).
    { intros tab0 b0 Hon Hfr. destruct (Nat.eq_dec tab0 tab) as [->|Ht]; [destruct (Nat.eq_dec b0 b) as [->|Hb]|].
      - apply lam_mx; [exact HS | exact HV|]. intros tab1 b1 Hon1.
        assert (E : tab1 = tab /\ b1 = b) by (destruct q; cbn [on_bucket] in *; try contradiction; destruct Hon, Hon1; subst; auto).
        destruct E as [-> ->]. split; [exact Hl|]. intros v lk E. apply (Hfr v lk E eq_refl eq_refl).
      - rewrite (lam_eq s s' q HS HV); [lia|]. intros tab1 b1 Hon1.
        assert (E : tab1 = tab /\ b1 = b0) by (destruct q; cbn [on_bucket] in *; try contradiction; destruct Hon, Hon1; subst; auto).
        destruct E as [-> ->]. apply Hw. right. exact Hb.
      - rewrite (lam_eq s s' q HS HV); [lia|]. intros tab1 b1 Hon1.
        assert (E : tab1 = tab0 /\ b1 = b0) by (destruct q; cbn [on_bucket] in *; try contradiction; destruct Hon, Hon1; subst; auto).
        destruct E as [-> ->]. apply Hw. left. exact Ht. }
    destruct q; try solve [rewrite (lam_eq s s' _ HS HV); [lia | intros ? ? Hon; cbn [on_bucket] in Hon; contradiction]].
    all: apply (Hgen tab0 b0 (conj eq_refl eq_refl)); intros v0 lk0 E A B; try discriminate E; subst; apply (Hf v0 lk0 E).
  Qed.

  (* ---------------- updates of one table ---------------- *)

  Lemma stab_upd (s S1 : mstate) tab f j : h_tabs S1 = supd_nth (h_tabs s) tab f ->
    stab_at S1 j = if Nat.eq_dec j tab then (if Nat.ltb tab (length (h_tabs s)) then f (stab_at s tab) else stab_at s tab) else stab_at s j.
  Proof. intros E. change (stab_at S1 j) with (tabT nslots nstripes (h_tabs S1) j). rewrite E, tabT_supd. reflexivity. Qed.

  Lemma upd_SHP (s S1 : mstate) tab f : h_tabs S1 = supd_nth (h_tabs s) tab f -> h_cur S1 = h_cur s ->
    (forall tb, m_len (f tb) = m_len tb /\ snstr (f tb) = snstr tb /\ m_seed (f tb) = m_seed tb) -> SHP s S1.
  Proof.
    intros E Hc Hf. split; [exact Hc|]. intros j. rewrite (stab_upd s S1 tab f j E).
    destruct (Nat.eq_dec j tab) as [->|]; [|auto]. destruct (Nat.ltb _ _); [apply Hf | auto].
  Qed.

  Lemma upd_VEQ (s S1 : mstate) tab f : h_tabs S1 = supd_nth (h_tabs s) tab f -> (forall tb, m_chains (f tb) = m_chains tb) -> VEQ s S1.
  Proof. intros E Hf j. rewrite (stab_upd s S1 tab f j E). destruct (Nat.eq_dec j tab) as [->|]; [|auto]. destruct (Nat.ltb _ _); [apply Hf | auto]. Qed.

  Lemma upd_W0 (s S1 : mstate) tab f : h_tabs S1 = supd_nth (h_tabs s) tab f ->
    (forall b, sword_at (f (stab_at s tab)) b 0 = sword_at (stab_at s tab) b 0) -> W0 s S1.
  Proof. intros E Hf j b. rewrite (stab_upd s S1 tab f j E). destruct (Nat.eq_dec j tab) as [->|]; [|auto]. destruct (Nat.ltb _ _); [apply Hf | auto]. Qed.

  Lemma upd_chainlen (s S1 : mstate) tab f d : h_tabs S1 = supd_nth (h_tabs s) tab f ->
    (forall b, snbuckets nslots (schain_of (f (stab_at s tab)) b) <= snbuckets nslots (schain_of (stab_at s tab) b) + d) ->
    forall j b, snbuckets nslots (schain_of (stab_at S1 j) b) <= snbuckets nslots (schain_of (stab_at s j) b) + d.
  Proof. intros E Hf j b. rewrite (stab_upd s S1 tab f j E). destruct (Nat.eq_dec j tab) as [->|]; [|lia]. destruct (Nat.ltb _ _); [apply Hf | lia]. Qed.

  Lemma word_set_slot (tb : mtable) b pos g b' bi : sword_at (sset_slot tb b pos g) b' bi = sword_at tb b' bi.
  Proof. reflexivity. Qed.

  Lemma chainlen_set_slot (tb : mtable) b pos g b' : snbuckets nslots (schain_of (sset_slot tb b pos g) b') = snbuckets nslots (schain_of tb b').
  Proof.
    unfold snbuckets, schain_of, sset_slot, sset_chain. cbn [m_chains]. rewrite nth_supd_nth.
    destruct (Nat.eq_dec b' b) as [->|]; [|reflexivity]. destruct (Nat.ltb b (length (m_chains tb))) eqn:E; [rewrite supd_nth_length; reflexivity|].
    apply Nat.ltb_ge in E. rewrite (nth_overflow _ _ E). reflexivity.
  Qed.

  Lemma word_other_bucket (tb : mtable) b bi g b' : b' <> b -> sword_at (sset_word tb b bi g) b' 0 = sword_at tb b' 0.
  Proof.
    intros Hne. unfold XMachineS.sword_at, swords_of, sset_word, sset_words. cbn [m_words]. rewrite nth_supd_nth.
    destruct (Nat.eq_dec b' b); [contradiction | reflexivity].
  Qed.

  (* appending a bucket: the first word of every chain stays, one chain gets one bucket longer *)
  Definition appb (tb : mtable) (b : nat) cell (w : bword) : mtable :=
    sset_words (sset_chain tb b (fun c => c ++ cell :: repeat (@empty_mslot K V) (nslots - 1))) b (fun ws => ws ++ [w]).

  Lemma appb_word0 (tb : mtable) b cell w b' : tb_ok tb -> sword_at (appb tb b cell w) b' 0 = sword_at tb b' 0.
  Proof.
    intros [_ [Hl [Hne _]]]. unfold appb, XMachineS.sword_at, swords_of, sset_words. cbn [m_words sset_chain]. rewrite nth_supd_nth.
    destruct (Nat.eq_dec b' b) as [->|]; [|reflexivity]. destruct (Nat.ltb b (length (m_words tb))) eqn:E; [|apply Nat.ltb_ge in E; rewrite (nth_overflow _ _ E); reflexivity].
    apply Nat.ltb_lt in E. rewrite Forall_forall in Hne. pose proof (Hne _ (nth_In _ [] E)) as Hn.
    destruct (nth b (m_words tb) []); [contradiction | reflexivity].
  Qed.

  Lemma appb_chainlen (tb : mtable) b cell w b' : snbuckets nslots (schain_of (appb tb b cell w) b') <= snbuckets nslots (schain_of tb b') + 1.
  Proof.
    unfold appb, snbuckets, schain_of, sset_words, sset_chain. cbn [m_chains]. rewrite nth_supd_nth.
    destruct (Nat.eq_dec b' b) as [->|]; [|lia]. destruct (Nat.ltb b (length (m_chains tb))) eqn:E; [|apply Nat.ltb_ge in E; rewrite (nth_overflow _ _ E); cbn [length]; lia].
    rewrite app_length. cbn [length]. rewrite repeat_length. replace (length (nth b (m_chains tb) []) + S (nslots - 1)) with (length (nth b (m_chains tb) []) + 1 * nslots) by lia.
    rewrite Nat.div_add by lia. lia.
  Qed.

  (* ---------------- one step ---------------- *)

  Definition nbk (s : mstate) (j b : nat) : nat := snbuckets nslots (schain_of (stab_at s j) b).

  Definition KIND (s s' : mstate) (p p' : spc) : Prop :=
    (VEQ s s' /\ W0 s s' /\ lam s' p' <= lam s p /\ (spinning s p = false -> lam s' p' < lam s p))
    \/ (VEQ s s' /\ (exists tab b v lk, p = QK_CAS tab b v lk) /\ lam s' p' + W5 < lam s p)
    \/ (VEQ s s' /\ (exists tab b, sholds s p = Some (tab, b)
                       /\ forall tab' b', (tab' <> tab \/ b' <> b) -> sword_at (stab_at s' tab') b' 0 = sword_at (stab_at s tab') b' 0)
        /\ lam s' p' < lam s p)
    \/ (W0 s s' /\ lam s' p' + W3 < lam s p).

  Definition STEPC (s : mstate) (t : nat) (p : spc) (s' : mstate) : Prop :=
    nv_pc (h_pc s' t) /\ (forall u, u <> t -> h_pc s' u = h_pc s u) /\ h_todo s' = h_todo s /\ (forall u, h_frame s' u = None)
    /\ h_resizing s' = false /\ SHP s s' /\ mayapp (h_pc s' t) <= mayapp p
    /\ (forall j b, nbk s' j b <= nbk s j b + (mayapp p - mayapp (h_pc s' t)))
    /\ KIND s s' p (h_pc s' t).

  Lemma some_pair_w {A B} (g : A * B) a b : Some g = Some (a, b) -> a = fst g.
  Proof. intros H. inversion H. reflexivity. Qed.

  Lemma filter_len_w {X} (f : X -> bool) l : length (filter f l) <= length l.
  Proof. induction l as [|x r IH]; cbn [filter length]; [lia|]. destruct (f x); cbn [length]; lia. Qed.

  Lemma SHP_refl s : SHP s s. Proof. split; [reflexivity | intros; auto]. Qed.

  Lemma nv_after_norm (a : spc) : nv_after a -> nv_pc (snorm a) /\ mayapp (snorm a) <= mayapp a.
  Proof.
    destruct a; cbn [nv_after]; intros H; try contradiction; cbn [snorm nv_pc mayapp]; auto.
    all: repeat match goal with H : match ?x with _ => _ end |- _ => destruct x; try contradiction end; cbn [nv_lk mayapp]; auto.
  Qed.

  Lemma lam_set_pc (S1 : mstate) t x (q : spc) : lam (sset_pc S1 t x) q = lam S1 q.
  Proof. apply lam_eq; [split; [reflexivity | intros; auto] | intros j; reflexivity | intros; reflexivity]. Qed.

  Lemma KIND_set_pc s (S1 : mstate) t x (p q : spc) : KIND s S1 p q -> KIND s (sset_pc S1 t x) p q.
  Proof. unfold KIND. rewrite (lam_set_pc S1 t x q). intros H. exact H. Qed.

  Lemma w_step s t p s' ls : TI s -> NVR s -> CAPB s -> h_pc s t = p -> sstep_pc s t p = Some (s', ls) -> STEPC s t p s'.
  Proof.
    intros HT [Hnv [_ [Hfr Hrz]]] HC Hp Hs. pose proof HT as [[HI [HL _]] [[HSV _] _]].
    pose proof (Hnv t) as Hr. rewrite Hp in Hr. pose proof (Hfr t) as Hf.
    pose proof (xl_pc _ _ _ _ s HL t) as Hpci. rewrite Hp in Hpci.
    pose proof (HSV t) as Hto. rewrite Hp in Hto.
    assert (Hcap : forall tab b, nbk s tab b <= CB) by (intros tab b; pose proof (HC tab b); unfold nbk; lia).
    (* the master helper: s' = S1 with t at (snorm q) *)
    assert (Hm : forall (S1 : mstate) (q : spc), h_pc S1 = h_pc s -> h_todo S1 = h_todo s -> (forall u, h_frame S1 u = None) -> h_resizing S1 = h_resizing s ->
              s' = sset_pc S1 t (snorm q) -> nv_pc (snorm q) -> SHP s S1 -> mayapp (snorm q) <= mayapp p ->
              (forall j b, nbk S1 j b <= nbk s j b + (mayapp p - mayapp (snorm q))) -> KIND s S1 p (snorm q) -> STEPC s t p s').
    { intros S1 q E1 E2 E3 E4 -> Hq HS Hma Hnb Hk. unfold STEPC. cbn [sset_pc h_pc h_todo h_frame h_resizing].
      destruct (Nat.eq_dec t t) as [_|Hx]; [|exfalso; apply Hx; reflexivity].
      split; [exact Hq|]. split; [intros u Hne; destruct (Nat.eq_dec u t); [contradiction | rewrite E1; reflexivity]|].
      split; [exact E2|]. split; [exact E3|]. split; [rewrite E4; exact Hrz|]. split; [exact HS|]. split; [exact Hma|]. split; [exact Hnb | apply KIND_set_pc; exact Hk]. }
    (* nothing shared changes *)
    assert (Hplain : forall q : spc, s' = sset_pc s t (snorm q) -> nv_pc (snorm q) -> mayapp (snorm q) <= mayapp p ->
              lam s (snorm q) <= lam s p -> (spinning s p = false -> lam s (snorm q) < lam s p) -> STEPC s t p s').
    { intros q E Hq Hma Hle Hlt. apply (Hm s q); try reflexivity; try assumption; [apply SHP_refl | intros; lia|].
      left. split; [intros j; reflexivity|]. split; [intros ? ?; reflexivity|]. split; assumption. }
    (* a store into a chain (values, keys, a new bucket), or into a counter stripe *)
    assert (Hchain : forall (S1 : mstate) tab f (q : spc) d (ch : bool), h_pc S1 = h_pc s -> h_todo S1 = h_todo s -> (forall u, h_frame S1 u = None) ->
              h_resizing S1 = h_resizing s -> h_cur S1 = h_cur s -> h_tabs S1 = supd_nth (h_tabs s) tab f ->
              (forall tb, m_len (f tb) = m_len tb /\ snstr (f tb) = snstr tb /\ m_seed (f tb) = m_seed tb) ->
              (forall b, sword_at (f (stab_at s tab)) b 0 = sword_at (stab_at s tab) b 0) ->
              (forall b, snbuckets nslots (schain_of (f (stab_at s tab)) b) <= snbuckets nslots (schain_of (stab_at s tab) b) + d) ->
              s' = sset_pc S1 t (snorm q) -> nv_pc (snorm q) -> mayapp (snorm q) + d <= mayapp p ->
              (ch = false -> forall j, m_chains (f (stab_at s j)) = m_chains (stab_at s j)) ->
              lam S1 (snorm q) + (if ch then W3 else 0) < lam s p -> STEPC s t p s').
    { intros S1 tab f q d ch E1 E2 E3 E4 Ec Et Hf1 Hf2 Hf3 Es Hq Hma Hv Hl.
      assert (HS : SHP s S1) by (apply (upd_SHP s S1 tab f Et Ec Hf1)).
      assert (HW : W0 s S1) by (apply (upd_W0 s S1 tab f Et Hf2)).
      apply (Hm S1 q E1 E2 E3 E4 Es Hq HS); [lia | |].
      - intros j b. pose proof (upd_chainlen s S1 tab f d Et Hf3 j b). unfold nbk. lia.
      - destruct ch; [right; right; right; split; assumption|].
        left. split; [|split; [exact HW|split; [lia | intros _; lia]]].
        intros j. rewrite (stab_upd s S1 tab f j Et). destruct (Nat.eq_dec j tab) as [->|]; [|reflexivity].
        destruct (Nat.ltb _ _); [apply (Hv eq_refl) | reflexivity]. }
    (* a store of the lock holder into a word of its chain (the unlock, the top hashes) *)
    assert (Hword : forall (S1 : mstate) tab b bi g (q : spc), h_pc S1 = h_pc s -> h_todo S1 = h_todo s -> (forall u, h_frame S1 u = None) ->
              h_resizing S1 = h_resizing s -> h_cur S1 = h_cur s -> h_tabs S1 = supd_nth (h_tabs s) tab (fun tb => sset_word tb b bi g) ->
              sholds s p = Some (tab, b) -> s' = sset_pc S1 t (snorm q) -> nv_pc (snorm q) -> mayapp (snorm q) <= mayapp p ->
              lam S1 (snorm q) < lam s p -> STEPC s t p s').
    { intros S1 tab b bi g q E1 E2 E3 E4 Ec Et Hh Es Hq Hma Hl.
      assert (HS : SHP s S1) by (apply (upd_SHP s S1 tab _ Et Ec); intros tb; split; [|split]; reflexivity).
      assert (HV : VEQ s S1) by (apply (upd_VEQ s S1 tab _ Et); intros tb; reflexivity).
      apply (Hm S1 q E1 E2 E3 E4 Es Hq HS Hma).
      - intros j b0. unfold nbk, schain_of. rewrite (HV j). lia.
      - right; right; left. split; [exact HV|]. split; [|exact Hl]. exists tab, b. split; [exact Hh|].
        intros tab' b' Hne. rewrite (stab_upd s S1 tab _ tab' Et). destruct (Nat.eq_dec tab' tab) as [->|Hnt]; [|reflexivity].
        destruct (Nat.ltb _ _); [|reflexivity]. destruct Hne as [Hne|Hne]; [congruence|]. apply word_other_bucket. exact Hne. }
    assert (Htl : forall (S1 : mstate) (a : spc), SHP s S1 -> nv_after a -> lam S1 (snorm a) <= tailc s a).
    { intros S1 a HS Ha. destruct (SHP_facts s S1 HS) as [_ [_ [_ [_ [Aq [_ [Kq [_ [Tq _]]]]]]]]].
      destruct a; try contradiction; cbn [snorm lam tailc nv_after] in *; rewrite ?Aq, ?Kq, ?Tq; try lia.
      all: try (destruct lk; try contradiction; destruct (lockedb S1 tab b); lia).
      all: try (destruct a; try contradiction; cbn [tailc]; lia). }
    destruct p; try contradiction; cbn [nv_pc] in Hr.
    all: try (destruct lk; try contradiction).
    all: cbn [XMachineS.sstep_pc] in Hs; cbv zeta in Hs; rewrite ?Hrz, ?Hgo, ?Hng in Hs; cbn [orb] in Hs; unfold sfnev in Hs;
         repeat match type of Hs with context [match ?x with _ => _ end] => destruct x eqn:? end; try discriminate Hs;
         apply some_pair_w in Hs.
    all: try (rewrite (sgoto_nf _ t _ _ Hf) in Hs; cbn [fst] in Hs).
    all: try (match type of Hs with _ = sset_pc _ _ (snorm ?q) => apply (Hplain q Hs) end; cbn [snorm nv_pc nv_after nv_rg nv_lk mayapp lam spinning length tailc lkbase LCr]; auto).
    all: repeat match goal with
                | H : Nat.ltb _ _ = true |- _ => apply Nat.ltb_lt in H
                | H : Nat.ltb _ _ = false |- _ => apply Nat.ltb_ge in H
                end.
    all: try (match goal with H : S ?bi < snbuckets nslots (schain_of (stab_at _ ?tab) ?b) |- _ => pose proof (Hcap tab b) as Hcb; unfold nbk in Hcb end).
    all: try (intros Hsp; exfalso; unfold XS_lock.lock_of, lockT in Hsp; change (tabT nslots nstripes (h_tabs s) tab) with (stab_at s tab) in Hsp;
              match goal with H : w_lock _ = Some _ |- _ => rewrite H in Hsp end; discriminate Hsp).
    all: try (intros Hsp; destruct (lockedb s tab b) eqn:El; [unfold lockedb in El; rewrite Hsp in El; discriminate El | lia]).
    all: try (intros _).
    all: try (unfold BC, ATT, SC in *; rewrite ?Nat.eqb_refl; match goal with H : Nat.eqb _ _ = _ |- _ => rewrite H | _ => idtac end;
              repeat match goal with |- context [if ?c then _ else _] => destruct c end; lia).
    all: try lia.
    all: try (unfold lockedb, XS_lock.lock_of, lockT; change (tabT nslots nstripes (h_tabs s) tab) with (stab_at s tab);
              match goal with H : w_lock _ = _ |- _ => rewrite H end; lia).
    all: try (unfold freshb; rewrite ?N.eqb_refl; match goal with H : N.eqb _ _ = false |- _ => rewrite H | _ => idtac end;
              repeat match goal with |- context [if ?c then _ else _] => destruct c end; lia).
    all: try (match goal with H : filter _ (seq 0 nslots) = _ :: ?l |- _ =>
                pose proof (filter_len_w (top_match (tophash h) (sword_at (stab_at s tab) (idx h (m_len (stab_at s tab))) bi)) (seq 0 nslots)) as Hfl;
                rewrite H, seq_length in Hfl; cbn [length] in Hfl; lia end).
    all: try (unfold curv; destruct (ms_val _) as [[v0 id0]|]; cbn [stale3]; rewrite ?Nat.eqb_refl; lia).
    all: try (unfold curv, stale3; match goal with H : match ms_val ?x with _ => _ end = false |- _ => destruct (ms_val x) as [[v0 id0]|]; try rewrite H end; lia).
    all: try (match goal with H : S ?bi < ?n, H2 : ?n <= CB |- _ => replace (CB - bi) with (S (CB - S bi)) by lia end; unfold WB; lia).
    all: try (unfold G, LENs; match goal with H : 0 < ?n |- _ => replace (n - 0) with (S (n - 1)) by lia end; unfold PB;
              repeat match goal with |- context [if ?c then _ else _] => destruct c end; lia).
    all: try apply Nat.le_0_l.
    all: try (rewrite Nat.add_1_r; apply Nat.lt_0_succ).
    all: try (unfold NSs in *; lia).
    all: try (apply Nat.lt_le_trans with (3 * S (length l)); [cbn [Nat.mul Nat.add]; apply Nat.lt_0_succ|];
              eapply Nat.le_trans; [|apply Nat.le_add_r]; eapply Nat.le_trans; [|apply Nat.le_add_r]; apply Nat.le_add_l).
    (* the stores into a slot *)
    1: { cbn [fst] in Hs. apply (Hplain QIdle Hs); cbn [snorm nv_pc mayapp lam spinning]; auto; lia. }
    all: try (match type of Hs with _ = fst (sgoto ?S1 _ _ _) => rewrite (sgoto_nf S1 t _ _ (Hf : h_frame S1 t = None)) in Hs end; cbn [fst] in Hs).
    (* the stores into a slot *)
    all: try solve [match type of Hs with _ = sset_pc ?S1 _ (snorm ?q) =>
                match S1 with context [sset_tab _ _ (fun tb => sset_slot tb ?b0 ?pos0 ?g0)] =>
                  apply (Hchain S1 tab (fun tb : mtable => sset_slot tb b0 pos0 g0) q 0 true); try reflexivity end end;
              try exact Hfr; try exact Hs; try (intros E0; discriminate E0);
              try (intros tb0; split; [unfold sset_slot; apply len_set_chain | split; reflexivity]);
              try (intros b1; rewrite chainlen_set_slot; lia);
              cbn [snorm nv_pc nv_after nv_rg mayapp lam tailc]; auto; try lia].
    (* the stores of the holder into a word of its chain: eraseTopHash, storeTopHash *)
    all: try solve [match type of Hs with _ = sset_pc ?S1 _ (snorm ?q) =>
                match S1 with context [sset_tab _ _ (fun tb => sset_word tb ?b0 ?bi0 ?g0)] =>
                  apply (Hword S1 tab b0 bi0 g0 q); try reflexivity end end;
              try exact Hfr; try exact Hs; cbn [snorm nv_pc mayapp lam]; auto; try lia].
    - (* lockBucket succeeds, doCompute *)
      cbn [after_lock] in Heqp. inversion Heqp; subst m s0. clear Heqp.
      set (S1 := sset_tab s tab (fun tb : mtable => sset_word tb b 0 (fun _ : bword => with_lock v (Some t)))) in *.
      rewrite (sgoto_nf S1 t _ _ Hf) in Hs. cbn [fst] in Hs.
      assert (HS : SHP s S1) by (apply (upd_SHP s S1 tab _ eq_refl eq_refl); intros tb; split; [|split]; reflexivity).
      assert (HV : VEQ s S1) by (apply (upd_VEQ s S1 tab _ eq_refl); intros tb; reflexivity).
      destruct (SHP_facts s S1 HS) as [_ [_ [_ [_ [_ [Bq _]]]]]].
      apply (Hm S1 (QW_ChkRes cx tab)); try reflexivity; try exact Hfr; try exact Hs; try exact HS; cbn [snorm nv_pc mayapp]; auto.
      + intros j b0. unfold nbk, schain_of. rewrite (HV j). lia.
      + right; left. split; [exact HV|]. split; [do 4 eexists; reflexivity|]. cbn [lam lkbase]. rewrite Bq. unfold freshb. rewrite Heqb0. lia.
    - (* lockBucket succeeds, Range *)
      cbn [after_lock] in Heqp. inversion Heqp; subst m s0. clear Heqp.
      set (S1 := sset_tab s tab (fun tb : mtable => sset_word tb b 0 (fun _ : bword => with_lock v (Some t)))) in *.
      rewrite (sgoto_nf S1 t _ _ Hf) in Hs. cbn [fst] in Hs.
      assert (HS : SHP s S1) by (apply (upd_SHP s S1 tab _ eq_refl eq_refl); intros tb; split; [|split]; reflexivity).
      assert (HV : VEQ s S1) by (apply (upd_VEQ s S1 tab _ eq_refl); intros tb; reflexivity).
      destruct (SHP_facts s S1 HS) as [L [_ [Gq [_ [_ [_ [Kq [_ [Tq _]]]]]]]]].
      match type of Hs with _ = sset_pc _ _ (snorm ?q) => apply (Hm S1 q) end; try reflexivity; try exact Hfr; try exact Hs; try exact HS.
      + cbn [snorm nv_pc nv_rg]. split; [exact Hr | destruct (Nat.ltb _ _); cbn [nv_after]; auto].
      + cbn [snorm mayapp]. destruct (Nat.ltb _ _); cbn [mayapp]; lia.
      + intros j b0. unfold nbk, schain_of. rewrite (HV j). lia.
      + right; left. split; [exact HV|]. split; [do 4 eexists; reflexivity|]. cbn [snorm lam lkbase]. rewrite Tq. unfold freshb. rewrite Heqb0.
        assert (El : m_len (stab_at S1 tab) = LENs s tab) by (apply (L tab)). rewrite El.
        destruct (Nat.ltb (S b) (LENs s tab)) eqn:Eb; cbn [tailc lkbase]; [|lia].
        apply Nat.ltb_lt in Eb. unfold G. replace (LENs s tab - S b) with (S (LENs s tab - S (S b))) by lia. unfold PB. lia.
    - (* unlockBucket of a Range: the visits follow *)
      destruct Hr as [Hv Ha]. cbn [nv_rg] in Hv.
      set (S1 := sset_tab s tab (fun tb : mtable => sset_word tb b 0 (fun _ : bword => with_lock v None))) in *.
      rewrite (svisits_nf S1 t l o p Hv) in Hs.
      assert (HS : SHP s S1) by (apply (upd_SHP s S1 tab _ eq_refl eq_refl); intros tb; split; [|split]; reflexivity).
      apply (Hword (sset_frame S1 t None) tab b 0 (fun _ => with_lock v None) p); try reflexivity; try exact Hs.
      + intros u. cbn [sset_frame h_frame S1 sset_tab]. destruct (Nat.eq_dec u t); [reflexivity | apply Hfr].
      + apply (nv_after_norm p Ha).
      + cbn [mayapp]. apply (nv_after_norm p Ha).
      + cbn [lam]. pose proof (Htl (sset_frame S1 t None) p ltac:(exact HS) Ha). lia.
    - (* unlockBucket *)
      destruct Hr as [_ Ha].
      set (S1 := sset_tab s tab (fun tb : mtable => sset_word tb b 0 (fun _ : bword => with_lock v None))) in *.
      assert (HS : SHP s S1) by (apply (upd_SHP s S1 tab _ eq_refl eq_refl); intros tb; split; [|split]; reflexivity).
      apply (Hword S1 tab b 0 (fun _ => with_lock v None) p); try reflexivity; try exact Hs; try exact Hfr.
      + apply (nv_after_norm p Ha).
      + cbn [mayapp]. apply (nv_after_norm p Ha).
      + cbn [lam]. pose proof (Htl S1 p HS Ha). lia.
    - (* a new bucket is appended *)
      match type of Hs with _ = sset_pc ?S1 _ (snorm ?q) =>
        match S1 with context [sset_tab _ _ ?f] => apply (Hchain S1 tab f q 1 true); try reflexivity end end;
        try exact Hfr; try exact Hs; try (intros E0; discriminate E0).
      + intros tb0. split; [apply len_set_chain | split; reflexivity].
      + intros b0. apply (appb_word0 (stab_at s tab)). apply (tb_ok_tabT nslots nstripes Hslots). apply (xl_tabs _ _ _ _ s HL).
      + intros b0. apply (appb_chainlen (stab_at s tab)).
      + cbn [snorm nv_pc nv_rg nv_after]. auto.
      + cbn [snorm lam tailc]. lia.
    - (* addSize *)
      destruct p; try contradiction.
      match type of Hs with _ = sset_pc ?S1 _ (snorm ?q) =>
        match S1 with context [sset_tab _ _ ?f] => apply (Hchain S1 tab f q 0 false); try reflexivity end end;
        try exact Hfr; try exact Hs.
      + intros tb0. split; [reflexivity | split; [apply len_add_size | reflexivity]].
      + intros b0. rewrite Nat.add_0_r. apply le_n.
      + cbn [snorm lam tailc]. lia.
  Qed.

  (* ---------------- the sums ---------------- *)

  Lemma psum_le_upd2 (f g : nat -> nat) c l t : NoDup l -> In t l -> (forall u, u <> t -> g u <= f u + c) ->
    psum g l + f t <= psum f l + g t + c * length l.
  Proof.
    intros Hn Hi Ho. induction l as [|u r IH]; [destruct Hi|]. apply NoDup_cons_iff in Hn. destruct Hn as [Hu Hr]. cbn [psum length].
    destruct Hi as [->|Hi].
    - assert (H : psum g r <= psum f r + c * length r).
      { clear IH. induction r as [|w r' IH']; cbn [psum length]; [lia|].
        assert (Hw : w <> t) by (intros ->; apply Hu; left; reflexivity). pose proof (Ho w Hw).
        assert (psum g r' <= psum f r' + c * length r') by (apply IH'; [intros X; apply Hu; right; exact X | apply NoDup_cons_iff in Hr; tauto]). lia. }
      lia.
    - specialize (IH Hr Hi). assert (Hne : u <> t) by (intros ->; contradiction). pose proof (Ho u Hne). lia.
  Qed.

  Lemma mayapp_le1 (p : spc) : mayapp p <= 1.
  Proof. induction p; cbn [mayapp]; try lia; try (destruct lc; lia); try (destruct lk; lia). Qed.

  Lemma MW_step s t p s' ls : TI s -> NVR s -> CAPB s -> In t ths -> h_pc s t = p -> sstep_pc s t p = Some (s', ls) ->
    MW s' <= MW s /\ (spinning s p = false -> MW s' < MW s).
  Proof.
    intros HT HR HC Ht Hp Hs. pose proof HT as [[HI [HL _]] _].
    destruct (w_step s t p s' ls HT HR HC Hp Hs) as [_ [Hoth [Htd [_ [_ [HS [_ [_ Hk]]]]]]]].
    destruct (SHP_facts s s' HS) as [_ [_ [_ [_ [_ [_ [_ [_ [_ HK]]]]]]]]].
    unfold MW.
    destruct Hk as [[HV [HW [Hle Hlt]]]|[[HV [_ Hlt]]|[[HV [[tab [b [Hh Hw]]] Hlt]]|[HW Hlt]]]].
    - pose proof (psum_upd minlen Hminlen (Mt s) (Mt s') ths t Hnd Ht) as H.
      assert (Hx : forall u, u <> t -> Mt s' u = Mt s u).
      { intros u Hne. unfold Mt. rewrite HK, Htd, (Hoth u Hne). f_equal. apply lam_eq; [exact HS | exact HV | intros; apply HW]. }
      specialize (H Hx). unfold Mt at 2 4 in H. rewrite HK, Htd, Hp in H. split; [lia|]. intros Hsp. specialize (Hlt Hsp). lia.
    - pose proof (psum_le_upd2 (Mt s) (Mt s') 5 ths t Hnd Ht) as H.
      assert (Hx : forall u, u <> t -> Mt s' u <= Mt s u + 5).
      { intros u Hne. unfold Mt. rewrite HK, Htd, (Hoth u Hne). pose proof (lam_sp5 s s' (h_pc s u) HS HV). lia. }
      specialize (H Hx). unfold Mt at 2 4 in H. rewrite HK, Htd, Hp in H. unfold W5 in Hlt. split; [lia|]. intros _. lia.
    - pose proof (psum_le_upd2 (Mt s) (Mt s') 0 ths t Hnd Ht) as H.
      assert (Hl : lockedb s tab b = true).
      { unfold lockedb. rewrite (xl_lockA _ _ _ _ s HL t tab b); [reflexivity|]. rewrite Hp. exact Hh. }
      assert (Hx : forall u, u <> t -> Mt s' u <= Mt s u + 0).
      { intros u Hne. unfold Mt. rewrite HK, Htd, (Hoth u Hne), Nat.add_0_r. apply Nat.add_le_mono_l.
        apply (lam_rel s s' tab b _ HS HV Hw Hl). intros v0 lk0 Eq. unfold freshb. destruct (N.eqb _ _) eqn:Ef; [|reflexivity]. exfalso.
        apply N.eqb_eq in Ef. pose proof (cas_free hash idx nslots nstripes Hslots s u tab b v0 lk0 HL Eq Ef) as Hfree.
        unfold lockedb in Hl. rewrite Hfree in Hl. discriminate Hl. }
      specialize (H Hx). unfold Mt at 2 4 in H. rewrite HK, Htd, Hp in H. split; [lia|]. intros _. lia.
    - pose proof (psum_le_upd2 (Mt s) (Mt s') 3 ths t Hnd Ht) as H.
      assert (Hx : forall u, u <> t -> Mt s' u <= Mt s u + 3).
      { intros u Hne. unfold Mt. rewrite HK, Htd, (Hoth u Hne). pose proof (lam_sp3 s s' (h_pc s u) HS HW). lia. }
      specialize (H Hx). unfold Mt at 2 4 in H. rewrite HK, Htd, Hp in H. unfold W3 in Hlt. split; [lia|]. intros _. lia.
  Qed.

  Lemma Good_step_pc s t p s' ls : TI s -> NVR s -> CAPB s -> (In t ths \/ p = QStart) -> h_pc s t = p -> sstep_pc s t p = Some (s', ls) -> NVR s' /\ CAPB s'.
  Proof.
    intros HT HR HC Hin Hp Hs. destruct (w_step s t p s' ls HT HR HC Hp Hs) as [A [B [C [D [E [_ [F [G _]]]]]]]]. pose proof HR as [R1 [R2 _]].
    split.
    - split; [|split; [|split; [exact D | exact E]]].
      + intros u. destruct (Nat.eq_dec u t) as [->|Hne]; [exact A | rewrite (B u Hne); apply R1].
      + intros u o. rewrite C. apply R2.
    - intros tab b. specialize (G tab b). unfold nbk in G. pose proof (HC tab b) as H0.
      assert (HN : Npre s' + (mayapp p - mayapp (h_pc s' t)) <= Npre s).
      { unfold Npre. destruct (in_dec Nat.eq_dec t ths) as [Hi|Hi].
        - pose proof (psum_upd minlen Hminlen (fun u => length (h_todo s u) + mayapp (h_pc s u)) (fun u => length (h_todo s' u) + mayapp (h_pc s' u)) ths t Hnd Hi) as H.
          cbv beta in H. rewrite C, Hp in H. rewrite C.
          assert (Hx : forall u, u <> t -> length (h_todo s u) + mayapp (h_pc s' u) = length (h_todo s u) + mayapp (h_pc s u)) by (intros u Hne; rewrite (B u Hne); reflexivity).
          specialize (H Hx). lia.
        - rewrite (psum_ext (fun u => length (h_todo s' u) + mayapp (h_pc s' u)) (fun u => length (h_todo s u) + mayapp (h_pc s u)) ths).
          + destruct Hin as [Hi'|Hq]; [contradiction|]. rewrite Hq. cbn [mayapp]. lia.
          + intros u Hu. assert (Hne : u <> t) by (intros ->; contradiction). rewrite C, (B u Hne). reflexivity. }
      lia.
  Qed.

  (* ---------------- every scheduling step; the theorem ---------------- *)

  Notation SOUT := (@SOUT K V ths).
  Definition GoodW (s : mstate) : Prop := NVR s /\ CAPB s.

  Lemma MW_out s t s' ls : TI s -> NVR s -> CAPB s -> ~ In t ths -> h_pc s t = QStart -> sstep_pc s t QStart = Some (s', ls) -> MW s' = MW s.
  Proof.
    intros HT HR HC Ht Hp Hs. destruct (w_step s t _ s' ls HT HR HC Hp Hs) as [_ [Hoth [Htd [_ [_ [HS [_ [_ Hk]]]]]]]].
    destruct (SHP_facts s s' HS) as [_ [_ [_ [_ [_ [_ [_ [_ [_ HK]]]]]]]]].
    cbn [XMachineS.sstep_pc] in Hs. inversion Hs; subst s'.
    unfold MW. apply psum_ext. intros u Hu. assert (Hne : u <> t) by (intros ->; contradiction).
    unfold Mt. rewrite HK. cbn [sset_pc h_pc h_todo]. destruct (Nat.eq_dec u t); [contradiction|]. f_equal. apply lam_set_pc.
  Qed.

  Lemma W_sstep s t s' ls : TI s -> SOUT s -> GoodW s -> sstep s t = Some (s', ls) ->
    GoodW s' /\ MW s' <= MW s /\ (In t ths -> spinning s (h_pc s t) = false -> MW s' < MW s).
  Proof.
    intros HT HO [HR HC] E. destruct (in_dec Nat.eq_dec t ths) as [Hi0|Hi0].
    2: { destruct (HO t Hi0) as [[Eq|Eq] Etd0].
         - assert (Hni : h_pc s t <> QIdle) by (rewrite Eq; discriminate).
           rewrite (sstep_of_pc eqd hash idx tophash nslots seeds grow_needed shrink_policy nstripes minlen grow_only s t Hni) in E. rewrite Eq in E.
           split; [apply (Good_step_pc s t _ s' ls HT HR HC (or_intror eq_refl) Eq E)|]. rewrite (MW_out s t s' ls HT HR HC Hi0 Eq E). split; [lia | intros X; contradiction].
         - unfold XMachineS.sstep in E. rewrite Eq, Etd0 in E. discriminate E. }
    destruct (h_pc s t) eqn:Ept.
    all: try (assert (Hni : h_pc s t <> QIdle) by (rewrite Ept; discriminate);
              rewrite (sstep_of_pc eqd hash idx tophash nslots seeds grow_needed shrink_policy nstripes minlen grow_only s t Hni) in E; rewrite Ept in E;
              split; [apply (Good_step_pc s t _ s' ls HT HR HC (or_introl Hi0) Ept E)|];
              destruct (MW_step s t _ s' ls HT HR HC Hi0 Ept E) as [A B]; split; [exact A | intros _; exact B]).
    (* the invocation *)
    destruct (h_todo s t) as [|o rest] eqn:Et; [unfold XMachineS.sstep in E; rewrite Ept, Et in E; discriminate E|].
    assert (E' : match sstep_pc (sinvoke s t o rest) t (sstart_pc o) with
                 | Some (s2, l2) => Some (s2, SInv t o :: l2) | None => Some (sinvoke s t o rest, [SInv t o]) end = Some (s', ls))
      by (unfold XMachineS.sstep in E; rewrite Ept, Et in E; exact E).
    set (s1 := sinvoke s t o rest) in *. pose proof HR as [R1 [R2 [R3 R4]]].
    assert (Hop : nv_op o) by (apply (R2 t); rewrite Et; left; reflexivity).
    assert (Ep1 : h_pc s1 t = sstart_pc o) by (cbn [s1 XS_count.sinvoke h_pc]; destruct (Nat.eq_dec t t); [reflexivity | congruence]).
    assert (Etd : h_todo s1 t = rest) by (cbn [s1 XS_count.sinvoke h_todo]; destruct (Nat.eq_dec t t); [reflexivity | congruence]).
    assert (HR1 : NVR s1).
    { split; [|split; [|split; [exact R3 | exact R4]]].
      - intros u. cbn [s1 XS_count.sinvoke h_pc]. destruct (Nat.eq_dec u t); [apply nv_start; exact Hop | apply R1].
      - intros u o'. cbn [s1 XS_count.sinvoke h_todo]. destruct (Nat.eq_dec u t) as [->|]; [intros X; apply (R2 t); rewrite Et; right; exact X | apply R2]. }
    assert (HT1 : TI s1) by (apply (TI_invoke hash idx tophash nslots nstripes s t o rest HT Ept)).
    assert (HS1 : SHP s s1) by (split; [reflexivity | intros; auto]).
    destruct (SHP_facts s s1 HS1) as [_ [_ [_ [_ [_ [_ [_ [_ [_ HK]]]]]]]]].
    assert (Hsame : forall u, u <> t -> h_pc s1 u = h_pc s u /\ h_todo s1 u = h_todo s u)
      by (intros u Hne; cbn [s1 XS_count.sinvoke h_pc h_todo]; destruct (Nat.eq_dec u t); [contradiction | auto]).
    assert (Hlam : forall q, lam s1 q = lam s q) by (intros q; apply lam_eq; [exact HS1 | intros j; reflexivity | intros; reflexivity]).
    assert (HC1 : CAPB s1).
    { intros tab b. pose proof (HC tab b) as H0.
      assert (HN : Npre s1 <= Npre s).
      { unfold Npre. pose proof (psum_upd minlen Hminlen (fun u => length (h_todo s u) + mayapp (h_pc s u)) (fun u => length (h_todo s1 u) + mayapp (h_pc s1 u)) ths t Hnd Hi0) as H.
        cbv beta in H. assert (Hx : forall u, u <> t -> length (h_todo s1 u) + mayapp (h_pc s1 u) = length (h_todo s u) + mayapp (h_pc s u))
          by (intros u Hne; destruct (Hsame u Hne) as [A B]; rewrite A, B; reflexivity).
        specialize (H Hx). rewrite Ep1, Etd, Ept, Et in H. cbn [length mayapp] in H. pose proof (mayapp_le1 (sstart_pc o)). lia. }
      change (stab_at s1 tab) with (stab_at s tab). lia. }
    assert (HM1 : MW s1 < MW s).
    { unfold MW. pose proof (psum_upd minlen Hminlen (Mt s) (Mt s1) ths t Hnd Hi0) as H.
      assert (Hx : forall u, u <> t -> Mt s1 u = Mt s u).
      { intros u Hne. unfold Mt. destruct (Hsame u Hne) as [A B]. rewrite HK, A, B, Hlam. reflexivity. }
      specialize (H Hx). unfold Mt at 2 4 in H. rewrite HK, Ep1, Etd, Ept, Et, Hlam in H. cbn [lam length] in H.
      pose proof (lam_start_le s o Hop) as Hle. lia. }
    clearbody s1. destruct (sstep_pc s1 t (sstart_pc o)) as [[s2 l2]|] eqn:E2.
    - assert (Es : s2 = s') by (inversion E'; reflexivity). rewrite Es in E2.
      split; [apply (Good_step_pc s1 t _ s' l2 HT1 HR1 HC1 (or_introl Hi0) Ep1 E2)|].
      destruct (MW_step s1 t _ s' l2 HT1 HR1 HC1 Hi0 Ep1 E2) as [A _]. split; [lia | intros _ _; lia].
    - assert (Es : s1 = s') by (inversion E'; reflexivity). rewrite <- Es.
      split; [split; assumption|]. split; [lia | intros _ _; exact HM1].
  Qed.

  (* FAIR TERMINATION WITH WRITERS, no visitor calls, no resize possible *)
  Theorem s_fair_nv_noresize sigma s : fair ths sigma -> TI s -> SOUT s -> NVR s -> CAPB s ->
    exists n, s_all_done ths (s_run_to eqd hash idx tophash nslots seeds grow_needed shrink_policy nstripes minlen grow_only sigma n s).
  Proof.
    intros Hf HT HO HR HC.
    apply (s_fair_cond eqd hash idx tophash nslots seeds grow_needed shrink_policy nstripes minlen grow_only Hnslots Hidx Hslots Htop Hminlen Hstripes ths GoodW MW);
      try assumption; [| | |split; assumption].
    - intros s0 t s1 ls H1 H2 H3 E. apply (W_sstep s0 t s1 ls H1 H2 H3 E).
    - intros s0 t s1 ls H1 H2 H3 E. apply (W_sstep s0 t s1 ls H1 H2 H3 E).
    - intros s0 t s1 ls H1 H2 H3 Hi E Hsp. apply (proj2 (proj2 (W_sstep s0 t s1 ls H1 H2 H3 E)) Hi Hsp).
  Qed.

  (* some cap always exists *)
  Lemma lmax_in (f : mtable -> nat) l x : In x l -> f x <= lmax (map f l).
  Proof. induction l as [|y r IH]; intros H; [destruct H|]. cbn [map lmax]. destruct H as [->|H]; [lia | specialize (IH H); lia]. Qed.

  Lemma CAPB_ex s : exists cb, forall tab b, snbuckets nslots (schain_of (stab_at s tab) b) + Npre s <= cb.
  Proof.
    exists (lmax (map (maxnb nslots) (h_tabs s)) + 1 + Npre s). intros tab b.
    destruct (Nat.lt_ge_cases tab (length (h_tabs s))) as [Hl|Hl].
    - pose proof (nbk_le_maxnb nslots Hnslots (stab_at s tab) b) as H1.
      pose proof (lmax_in (maxnb nslots) (h_tabs s) (stab_at s tab) (nth_In _ _ Hl)) as H2. lia.
    - unfold XMachineS.stab_at. rewrite (nth_overflow _ _ Hl). unfold schain_of, new_mtable. cbn [m_chains repeat].
      destruct b as [|b]; cbn [nth]; unfold snbuckets; [rewrite repeat_length, Nat.div_same by lia; lia|].
      destruct b; cbn [nth length]; rewrite Nat.div_0_l by lia; lia.
  Qed.

End WFair.

Section FinalW.
  Context {K V : Type}.
  Variable eqd : forall a b : K, {a = b} + {a <> b}.
  Variable hash : K -> N -> N.
  Variable idx : N -> nat -> nat.
  Variable tophash : N -> N.
  Variable nslots : nat.
  Variable seeds : nat -> N.
  Variable grow_needed shrink_policy : nat -> Z -> bool.
  Variable nstripes : nat -> nat.
  Variable minlen : nat.
  Variable grow_only : bool.
  Notation srun := (@srun K V eqd hash idx tophash nslots seeds grow_needed shrink_policy nstripes minlen grow_only).
  Notation s_run_to := (@s_run_to K V eqd hash idx tophash nslots seeds grow_needed shrink_policy nstripes minlen grow_only).

  (* FAIR TERMINATION OF MAP WITH WRITERS -- for systems whose Range visitors never call the map (NVR: also no Clear to come, flag clear) and in
     which NO RESIZE CAN START (grow_needed never fires, grow_only = true).  Loads, Stores, Deletes, Computes, Sizes, silent Ranges; the
     writers contend for the bucket spin locks and make the readers retry. *)
  Theorem s_fair_termination_no_visitor_calls_no_resize :
    sthyps hash idx tophash nslots nstripes minlen -> (forall len sum, grow_needed len sum = false) -> grow_only = true ->
    forall len0 todo sched ths, 0 < len0 -> NoDup ths -> (forall u, ~ In u ths -> todo u = []) ->
    let s := fst (srun (sinit nslots seeds nstripes len0 todo) sched) in
    NVR s -> forall sigma, fair ths sigma -> exists n, s_all_done ths (s_run_to sigma n s).
  Proof.
    intros Hx Hng Hgo len0 todo sched ths Hl Hnd Hout s HR sigma Hf. pose proof Hx as [[[H1 H2] [H3 [H4 H5]]] H6].
    destruct (reachable_SOUT eqd hash idx tophash nslots seeds grow_needed shrink_policy nstripes minlen grow_only Hx ths len0 todo sched Hl Hout) as [HT HO].
    destruct (CAPB_ex hash idx tophash nslots seeds grow_needed shrink_policy nstripes minlen grow_only H2 H4 H1 H3 H5 H6 Hng ths 0 s) as [cb Hcb].
    apply (s_fair_nv_noresize eqd hash idx tophash nslots seeds grow_needed shrink_policy nstripes minlen grow_only H2 H4 H1 H3 H5 H6 Hng Hgo ths Hnd cb sigma s Hf HT HO HR Hcb).
  Qed.
End FinalW.

Print Assumptions s_fair_termination_no_visitor_calls_no_resize.
