(* C06_hist.v -- the step facts of C06/C08/C15 along whole histories. *)
From CacheV Require Import Base SpecMap Client CacheModel CacheOfModel Ops SpecTTL.
From CacheV.gen Require Import Params.
From CacheV.proofs Require Import C01_sim C01_ops C01_hist C06_seq C08_cache C12_twins.

Section Hist.
  Context {K V : Type}.
  Variable eqd : forall a b : K, {a = b} + {a <> b}.
  Variable zero : V.
  Notation R := (R eqd).
  Notation step := (step_cache eqd zero).

  (* a property of single calls holds at every call of a history *)
  Fixpoint everywhere (Pr : cstate K V -> cop K V -> cstate K V -> cres K V -> list (event K V) -> Prop)
           (m : cstate K V) (ops : list (cop K V)) : Prop :=
    match ops with
    | [] => True
    | o :: t => let '(m', r, evs) := step m o in Pr m o m' r evs /\ everywhere Pr m' t
    end.

  Lemma everywhere_intro
        (Pr : cstate K V -> cop K V -> cstate K V -> cres K V -> list (event K V) -> Prop) :
    (forall m s o, R m s -> let '(m', r, evs) := step m o in Pr m o m' r evs) ->
    forall ops m s, R m s -> monotone ops -> everywhere Pr m ops.
  Proof.
    intros HPr. induction ops as [|o t IH]; intros m s HR Hm; cbn [everywhere]; auto.
    inversion Hm as [|? ? Ho Ht]; subst.
    pose proof (HPr m s o HR) as H1. pose proof (sim_step eqd zero o Ho m s HR) as H2.
    destruct (step m o) as [[m' r] evs]. destruct H2 as [_ HR']. split; [exact H1|]. eapply IH; eauto.
  Qed.

  (* C06: at every call of every history, what is fired is exactly what the call
     removed, with the callback in force when the call began; what was removed is
     gone and was that very value *)
  Definition fire_law (m : cstate K V) (o : cop K V) (m' : cstate K V) (r : cres K V) (evs : list (event K V)) : Prop :=
    fires evs = expected_fires eqd m o
    /\ forall k v, In (k, v) (removed_by eqd m o) ->
         lookup eqd k (st_map m') = None /\ exists i, lookup eqd k (st_map m) = Some i /\ iv i = v.

  Theorem fire_law_everywhere ops (m0 : cstate K V) :
    st_map m0 = [] -> monotone ops -> everywhere fire_law m0 ops.
  Proof.
    intros H0 Hm. apply everywhere_intro with (s := m0); [|apply R_init; auto|auto].
    intros m s o HR. pose proof (fires_step eqd zero m o (R_ndP eqd _ _ HR)) as H1.
    assert (H2 : forall k v, In (k, v) (removed_by eqd m o) ->
              let '(m', r, evs) := step m o in
              lookup eqd k (st_map m') = None /\ exists i, lookup eqd k (st_map m) = Some i /\ iv i = v).
    { intros k v Hin. apply removed_is_gone; [exact (R_ndP eqd _ _ HR) | exact Hin]. }
    destruct (step m o) as [[m' r] evs]. split; [exact H1|]. intros k v Hin. exact (H2 k v Hin).
  Qed.

  (* C15 / C01: physical presence of a key changes only in a call that names it,
     in DeleteExpired (= a janitor tick) or in Clear *)
  Definition presence_law (m : cstate K V) (o : cop K V) (m' : cstate K V) (r : cres K V) (evs : list (event K V)) : Prop :=
    forall k, ~ names o k -> lookup eqd k (st_map m') = lookup eqd k (st_map m).

  Theorem presence_law_everywhere ops (m0 : cstate K V) :
    st_map m0 = [] -> monotone ops -> everywhere presence_law m0 ops.
  Proof.
    intros H0 Hm. apply everywhere_intro with (s := m0); [|apply R_init; auto|auto].
    intros m s o HR.
    assert (H : forall k, ~ names o k -> let '(m', _, _) := step m o in lookup eqd k (st_map m') = lookup eqd k (st_map m)).
    { intros k Hn. apply presence_stable. exact Hn. }
    destruct (step m o) as [[m' r] evs]. intros k Hn. exact (H k Hn).
  Qed.

  (* C08 at the cache level, at every point of every history *)
  Theorem count_laws ops (m0 : cstate K V) :
    st_map m0 = [] -> monotone ops ->
    let '(m, _) := run_cache eqd zero m0 ops in
    let s := fold_left (spec_next eqd zero) ops m0 in
    (* Count = keys physically present; never under-reports the live entries *)
    snd (fst (step m OCount)) = CNat (length (st_map m))
    /\ (length (live_keys eqd s) <= length (st_map m))%nat
    (* = the live entries right after DeleteExpired *)
    /\ (let '(m1, _, _) := step m ODeleteExpired in snd (fst (step m1 OCount)) = CNat (length (live_keys eqd s)))
    (* = 0 right after Clear *)
    /\ (let '(m1, _, _) := step m OClear in snd (fst (step m1 OCount)) = CNat 0).
  Proof.
    intros H0 Hm. pose proof (run_refines eqd zero ops m0 m0 (R_init eqd m0 H0) Hm) as H.
    destruct (run_cache eqd zero m0 ops) as [m rs]. destruct H as [_ HR]. intros s. subst s.
    split; [reflexivity|]. split; [|split; [apply count_after_deleteexpired; exact HR | reflexivity]].
    pose proof (sim_Count eqd zero m _ HR) as Hc. rewrite count_physical in Hc. destruct Hc as [[n [E Hn]] _].
    inversion E; subst. lia.
  Qed.

End Hist.
